/-
The executing-stack invariant: the session primitives called by the top-down build
(`reserveRequire`, `updateRequire`, `doRead`, `doWrite`, `doWrote`).
-/
import PieModel.Build.Stack.Ops
import PieModel.Build.Proofs.ValidateWrite

namespace PieModel

/-- `ch₀ ++ top.toList` with `top = some a`. -/
theorem Frames.top_facts {s : Sess} {ch₀ : List Nat} {a : Nat}
    (h : Frames s (ch₀ ++ (some a).toList)) :
    a ∉ ch₀ ∧ (∀ x ∈ ch₀, s.store.g.Reach x a) ∧ ∃ t, s.store.taskOf a = some t := by
  have hp := List.pairwise_append.mp h.path
  refine ⟨?_, fun x hx => hp.2.2 x hx a (by simp), h.task a (by simp)⟩
  have := h.nodup
  rw [List.nodup_append] at this
  intro hn; exact this.2.2 a hn a (by simp) rfl

/-! ### `reserveRequire` -/

/-- The only abort of `reserveRequire` on a well-formed stack is the cycle error, and the state
is untouched. -/
theorem reserveRequire_abort {s s' : Sess} {ch : List Nat} {dst t : Nat} {k : Abort}
    (h : Frames s ch) (hd : s.store.taskOf dst = some t)
    (heq : reserveRequire s dst = (s', .abort k)) : s' = s ∧ k = .cyclic := by
  unfold reserveRequire at heq
  split at heq
  · cases heq
  next a hc =>
    split at heq
    · cases heq
    · cases heq; exact ⟨rfl, rfl⟩
    next st hb =>
      exfalso
      have : (s.store.addDependency a dst .reserved).2 = .bug := by rw [hb]
      rw [Store.addDependency_snd_bug_iff] at this
      obtain ⟨ta, hta⟩ := h.wf.cur a hc
      rcases this with h1 | h1
      · rw [Store.live_of_taskOf hta] at h1; cases h1
      · rw [Store.live_of_taskOf hd] at h1; cases h1

theorem reserveRequire_ok {s s' : Sess} {ch₀ : List Nat} {top : Option Nat} {dst t : Nat}
    (h : Frames s (ch₀ ++ top.toList)) (hc : s.cur = top) (hd : s.store.taskOf dst = some t)
    (heq : reserveRequire s dst = (s', .ok ())) :
    Frames s' (ch₀ ++ top.toList) ∧ (∀ ch, Trc s ch → Trc s' ch) ∧ Keeps ch₀ s s' ∧
    (∀ n, s'.store.taskOutput n = s.store.taskOutput n) ∧ s'.trace = s.trace ∧
    s'.consistent = s.consistent ∧ s'.cur = s.cur ∧ s.store.Le s'.store ∧
    (∀ a, top = some a → (∃ dep, (dst, dep) ∈ s'.store.g.outgoingEdges a) ∧
      (∀ p ∈ s'.store.g.outgoingEdges a, p ∈ s.store.g.outgoingEdges a ∨ p = (dst, .reserved)) ∧
      ∀ x ∈ ch₀ ++ top.toList, s'.store.g.Reach x dst) := by
  have hw := h.wf.store
  unfold reserveRequire at heq
  split at heq
  next hn =>
    cases heq
    refine ⟨h, fun _ h' => h', Keeps.refl _ _, fun _ => rfl, rfl, rfl, rfl, Store.Le.refl _, ?_⟩
    intro a ha; rw [hn] at hc; rw [← hc] at ha; cases ha
  next a hca =>
    split at heq
    next st hb =>
      cases heq
      have hst : st = (s.store.addDependency a dst .reserved).1 := by rw [hb]
      have hok : (s.store.addDependency a dst .reserved).2 = .ok := by rw [hb]
      subst hst
      have htop : top = some a := by rw [← hc, hca]
      subst htop
      obtain ⟨hnot, hreach, _⟩ := h.top_facts
      refine ⟨h.addDep hca ⟨t, hd⟩, fun _ h' => h'.addDep hw a dst _, keeps_addDep hw hnot dst _,
        Store.taskOutput_addDependency hw a dst _, rfl, rfl, rfl,
        Store.le_addDependency hw a dst _, ?_⟩
      intro a' ha'; cases ha'
      have hedge := Store.outgoingEdges_addDependency_ok hw hok
      refine ⟨hedge, fun p hp => Store.mem_outgoingEdges_addDependency hw a dst _ hp, ?_⟩
      obtain ⟨dep, hdep⟩ := hedge
      have hwf' := hw.addDependency (h.wf.cur a hca) (d := .reserved) ⟨t, hd⟩
      have had : (s.store.addDependency a dst .reserved).1.g.Reach a dst :=
        Store.reach_of_mem_outgoingEdges hwf' hdep
      intro x hx
      rcases List.mem_append.mp hx with hx | hx
      · exact (Store.reach_addDependency_mono hw a dst _ (hreach x hx)).trans had
      · simp at hx; subst hx; exact had
    · cases heq
    · cases heq

/-! ### `updateRequire` -/

/-- `updateRequire` finds the edge that `reserveRequire` left. -/
theorem updateRequire_frames {s s' : Sess} {ch₀ : List Nat} {top : Option Nat} {dst t c : Nat}
    {stamp : Stamp} {r : Res Unit}
    (h : Frames s (ch₀ ++ top.toList)) (hc : s.cur = top) (hd : s.store.taskOf dst = some t)
    (hedge : ∀ a, top = some a → ∃ dep, (dst, dep) ∈ s.store.g.outgoingEdges a)
    (heq : updateRequire s dst t c stamp = (s', r)) :
    r = .ok () ∧ Frames s' (ch₀ ++ top.toList) ∧ (∀ ch, Trc s ch → Trc s' ch) ∧ Keeps ch₀ s s' ∧
    (∀ n, s'.store.taskOutput n = s.store.taskOutput n) ∧
    (∀ a, top = some a → ∀ d ∈ s'.store.depsFrom a,
      d = .require t c stamp ∨ ∃ b, b ≠ dst ∧ (b, d) ∈ s.store.g.outgoingEdges a) := by
  have hw := h.wf.store
  unfold updateRequire at heq
  split at heq
  next hn =>
    cases heq
    refine ⟨rfl, h, fun _ h' => h', Keeps.refl _ _, fun _ => rfl, ?_⟩
    intro a ha; rw [hn] at hc; rw [← hc] at ha; cases ha
  next a hca =>
    have htop : top = some a := by rw [← hc, hca]
    subst htop
    obtain ⟨dep, hdep⟩ := hedge a rfl
    have hed := (Dag.mem_outgoingEdges hw.gwf a dst dep).mp hdep
    split at heq
    next st hs =>
      cases heq
      obtain ⟨hnot, _, _⟩ := h.top_facts
      refine ⟨rfl, h.setDep hca hs hd, fun _ h' => h'.setDep hs, keeps_setDep hs hnot,
        Store.taskOutput_setDependency hs, ?_⟩
      intro a' ha' d hdm; cases ha'
      change d ∈ st.depsFrom a at hdm
      rw [Store.depsFrom_setDependency hs, if_pos rfl, List.mem_map] at hdm
      obtain ⟨p, hp, hpd⟩ := hdm
      by_cases hpd' : p.1 = dst
      · rw [if_pos hpd'] at hpd; exact .inl hpd.symm
      · rw [if_neg hpd'] at hpd; subst hpd; exact .inr ⟨p.1, hpd', hp⟩
    next hs =>
      rw [Store.setDependency_of_edge hed] at hs; cases hs

/-! ### `doRead`, `doWrite`, `doWrote` -/

/-- A step of the current task `a` that looks up / creates a resource node and possibly adds a
non-`reserved` dependency `a → resource`. -/
theorem Frames.resStep {s s' : Sess} {ch₀ : List Nat} {a r : Nat}
    (h : Frames s (ch₀ ++ [a])) (hc : s.cur = some a)
    (hs : s'.store = (s.store.getOrCreateResNode r).1 ∨
      ∃ d, d ≠ .reserved ∧
        (s.store.getOrCreateResNode r).1.DepOK d (s.store.getOrCreateResNode r).2 ∧
        s'.store = ((s.store.getOrCreateResNode r).1.addDependency a
          (s.store.getOrCreateResNode r).2 d).1)
    (h2 : s'.cur = s.cur) (h3 : s'.consistent = s.consistent) (h4 : s'.queue = s.queue)
    (h5 : ∀ t, countExec t s'.trace = countExec t s.trace) :
    Frames s' (ch₀ ++ [a]) ∧ (∀ ch, Trc s ch → Trc s' ch) ∧ Keeps ch₀ s s' ∧
    (Dep.reserved ∉ s.store.depsFrom a → Dep.reserved ∉ s'.store.depsFrom a) := by
  have hw := h.wf.store
  have f1 := h.getRes r
  have k1 : Keeps ch₀ s _ := keeps_getRes hw ch₀ r
  obtain ⟨hnot, _, _⟩ := h.top_facts (a := a)
  rcases hs with hs | ⟨d, hd1, hd2, hs⟩
  · refine ⟨f1.of_eq hs h2 h3 h4, fun ch h' => (h'.getRes hw r).of_eq hs h3 h5,
      k1.congr_right hs, ?_⟩
    rw [hs, Store.depsFrom_getOrCreateResNode hw]; exact id
  · have f2 := f1.addDep (a := a) hc hd2
    refine ⟨f2.of_eq hs h2 h3 h4,
      fun ch h' => ((h'.getRes hw r).addDep f1.wf.store a _ d).of_eq hs h3 h5,
      (k1.trans (keeps_addDep f1.wf.store hnot _ d)).congr_right hs, ?_⟩
    intro hnr hm
    rw [hs] at hm
    obtain ⟨b, hb⟩ := Store.mem_depsFrom_iff.mp hm
    rcases Store.mem_outgoingEdges_addDependency f1.wf.store a _ d hb with hb | hb
    · rw [Store.outgoingEdges_getOrCreateResNode hw] at hb
      exact hnr (Store.mem_depsFrom_iff.mpr ⟨b, hb⟩)
    · cases hb; exact hd1 rfl

variable (sem : Sem)

theorem doRead_consistent (s : Sess) (r c : Nat) : (doRead sem s r c).1.consistent = s.consistent := by
  unfold doRead; simp only []; repeat' split
  all_goals rfl

theorem doWrite_consistent (s : Sess) (r c : Nat) (v : Option Int) :
    (doWrite sem s r c v).1.consistent = s.consistent := by
  unfold doWrite; simp only []; repeat' split
  all_goals simp

theorem doWrote_consistent (s : Sess) (r c : Nat) (v : Option Int) :
    (doWrote sem s r c v).1.consistent = s.consistent := by
  unfold doWrote; simp only []; repeat' split
  all_goals simp

@[simp] theorem Sess.trace_setContent (s : Sess) (r : Nat) (v : Option Int) :
    (s.setContent r v).trace = s.trace := by cases v <;> rfl

theorem doRead_countExec (s : Sess) (r c t : Nat) :
    countExec t (doRead sem s r c).1.trace = countExec t s.trace := by
  unfold doRead; simp only []; repeat' split
  all_goals simp [Sess.emit, countExec, Ev.isExecStart]

theorem doWrite_countExec (s : Sess) (r c : Nat) (v : Option Int) (t : Nat) :
    countExec t (doWrite sem s r c v).1.trace = countExec t s.trace := by
  unfold doWrite; simp only []; repeat' split
  all_goals simp [Sess.emit, countExec, Ev.isExecStart]

theorem doWrote_countExec (s : Sess) (r c : Nat) (v : Option Int) (t : Nat) :
    countExec t (doWrote sem s r c v).1.trace = countExec t s.trace := by
  unfold doWrote; simp only []; repeat' split
  all_goals simp [Sess.emit, countExec, Ev.isExecStart]

theorem doRead_frames {s : Sess} {ch₀ : List Nat} {a : Nat} (h : Frames s (ch₀ ++ [a]))
    (hc : s.cur = some a) (r c : Nat) :
    Frames (doRead sem s r c).1 (ch₀ ++ [a]) ∧ (∀ ch, Trc s ch → Trc (doRead sem s r c).1 ch) ∧
    Keeps ch₀ s (doRead sem s r c).1 ∧
    (Dep.reserved ∉ s.store.depsFrom a → Dep.reserved ∉ (doRead sem s r c).1.store.depsFrom a) := by
  refine h.resStep (r := r) hc ?_ (doRead_cur sem s r c) (doRead_consistent sem s r c)
    (doRead_queue sem s r c) (doRead_countExec sem s r c)
  rcases doRead_store sem hc r c with hs | ⟨stamp, hs⟩
  · exact .inl hs
  · exact .inr ⟨_, by simp, by simp [Store.resOf_getOrCreateResNode_self h.wf.store], hs⟩

theorem doWrite_frames {s : Sess} {ch₀ : List Nat} {a : Nat} (h : Frames s (ch₀ ++ [a]))
    (hc : s.cur = some a) (r c : Nat) (v : Option Int) :
    Frames (doWrite sem s r c v).1 (ch₀ ++ [a]) ∧
    (∀ ch, Trc s ch → Trc (doWrite sem s r c v).1 ch) ∧ Keeps ch₀ s (doWrite sem s r c v).1 ∧
    (Dep.reserved ∉ s.store.depsFrom a →
      Dep.reserved ∉ (doWrite sem s r c v).1.store.depsFrom a) := by
  refine h.resStep (r := r) hc ?_ (doWrite_cur sem s r c v) (doWrite_consistent sem s r c v)
    (doWrite_queue sem s r c v) (doWrite_countExec sem s r c v)
  rcases doWrite_store sem hc r c v with hs | ⟨stamp, hs⟩
  · exact .inl hs
  · exact .inr ⟨_, by simp, by simp [Store.resOf_getOrCreateResNode_self h.wf.store], hs⟩

theorem doWrote_frames {s : Sess} {ch₀ : List Nat} {a : Nat} (h : Frames s (ch₀ ++ [a]))
    (hc : s.cur = some a) (r c : Nat) (v : Option Int) :
    Frames (doWrote sem s r c v).1 (ch₀ ++ [a]) ∧
    (∀ ch, Trc s ch → Trc (doWrote sem s r c v).1 ch) ∧ Keeps ch₀ s (doWrote sem s r c v).1 ∧
    (Dep.reserved ∉ s.store.depsFrom a →
      Dep.reserved ∉ (doWrote sem s r c v).1.store.depsFrom a) := by
  refine h.resStep (r := r) hc ?_ (doWrote_cur sem s r c v) (doWrote_consistent sem s r c v)
    (doWrote_queue sem s r c v) (doWrote_countExec sem s r c v)
  rcases doWrote_store sem hc r c v with hs | ⟨stamp, hs⟩
  · exact .inl hs
  · exact .inr ⟨_, by simp, by simp [Store.resOf_getOrCreateResNode_self h.wf.store], hs⟩

/-! #### no `bug` abort: both endpoints of the new dependency are live -/

theorem Frames.not_addDependency_bug {s : Sess} {ch : List Nat} (h : Frames s ch) {a r : Nat}
    (hc : s.cur = some a) {st : Store} {dst : Nat}
    (hn : s.store.getOrCreateResNode r = (st, dst)) (d : Dep) :
    ¬ ∃ st', st.addDependency a dst d = (st', .bug) := by
  rw [addDependency_bug_iff]
  have hst : st = (s.store.getOrCreateResNode r).1 := by rw [hn]
  have hdst : dst = (s.store.getOrCreateResNode r).2 := by rw [hn]
  obtain ⟨t, ht⟩ := h.wf.cur a hc
  have h1 : st.g.containsNode a = true := by
    rw [hst, Store.containsNode_getOrCreateResNode h.wf.store, Store.live_of_taskOf ht]; simp
  have h2 : st.g.containsNode dst = true := by
    rw [hst, hdst, Store.containsNode_getOrCreateResNode h.wf.store]; simp
  rw [h1, h2]; simp

theorem doRead_no_bug {s s' : Sess} {ch : List Nat} (h : Frames s ch) {r c : Nat} {k : Abort}
    (heq : doRead sem s r c = (s', .abort k)) (n : Nat) : k ≠ .bug n := by
  have h2 : (doRead sem s r c).2 = .abort k := by rw [heq]
  cases hcur : s.cur with
  | none => rw [doRead_no_cur sem s r c hcur] at h2; cases h2
  | some cur =>
    rcases hp : s.store.getOrCreateResNode r with ⟨st, dst⟩
    rw [doRead_abort_iff sem s r c cur st dst k hcur hp] at h2
    rcases h2 with ⟨rfl, _⟩ | ⟨rfl, _, stamp, _, hb⟩
    · simp
    · exact absurd hb (h.not_addDependency_bug hcur hp _)

theorem doWrite_no_bug {s s' : Sess} {ch : List Nat} (h : Frames s ch) {r c : Nat}
    {v : Option Int} {k : Abort} (heq : doWrite sem s r c v = (s', .abort k)) (n : Nat) :
    k ≠ .bug n := by
  have h2 : (doWrite sem s r c v).2 = .abort k := by rw [heq]
  cases hcur : s.cur with
  | none => rw [doWrite_no_cur sem s r c v hcur] at h2; cases h2
  | some cur =>
    rcases hp : s.store.getOrCreateResNode r with ⟨st, dst⟩
    rw [doWrite_abort_iff sem s r c cur v st dst k hcur hp] at h2
    rcases h2 with hv | ⟨rfl, _, stamp, _, hb⟩
    · rcases validateWrite_kinds st cur dst k hv with rfl | rfl <;> simp
    · exact absurd hb (h.not_addDependency_bug hcur hp _)

theorem doWrote_no_bug {s s' : Sess} {ch : List Nat} (h : Frames s ch) {r c : Nat}
    {v : Option Int} {k : Abort} (heq : doWrote sem s r c v = (s', .abort k)) (n : Nat) :
    k ≠ .bug n := by
  have h2 : (doWrote sem s r c v).2 = .abort k := by rw [heq]
  cases hcur : s.cur with
  | none => rw [doWrote_no_cur sem s r c v hcur] at h2; cases h2
  | some cur =>
    rcases hp : s.store.getOrCreateResNode r with ⟨st, dst⟩
    rw [doWrote_abort_iff sem s r c cur v st dst k hcur hp] at h2
    rcases h2 with hv | ⟨rfl, _, stamp, _, hb⟩
    · rcases validateWrite_kinds st cur dst k hv with rfl | rfl <;> simp
    · exact absurd hb (h.not_addDependency_bug hcur hp _)

end PieModel
