/-
The executing-stack invariant: effect of the store operations used by the top-down build
(`getOrCreateTaskNode`, `getOrCreateResNode`, `addDependency` from the current task,
`setDependency` from the current task, `resetTask` + push, `setTaskOutput` + pop,
`markConsistent`) on `Frames`, `Trc` and `Keeps`.
-/
import PieModel.Build.Stack.Defs

namespace PieModel

/-! ### store-level facts -/

namespace Store
variable {st : Store}

/-- An outgoing edge as a path. -/
theorem reach_of_mem_outgoingEdges (h : st.WF) {a b : Nat} {dep : Dep}
    (hm : (b, dep) ∈ st.g.outgoingEdges a) : st.g.Reach a b :=
  .edge ((h.gwf.hasEdge_iff_getEdgeData a b).mpr ⟨dep, (Dag.mem_outgoingEdges h.gwf a b dep).mp hm⟩)

theorem mem_depsFrom_iff {n : Nat} {d : Dep} :
    d ∈ st.depsFrom n ↔ ∃ b, (b, d) ∈ st.g.outgoingEdges n := by
  simp only [depsFrom, Dag.outgoingEdgeData, List.mem_map]
  constructor
  · rintro ⟨⟨b, d'⟩, hm, rfl⟩; exact ⟨b, hm⟩
  · rintro ⟨b, hm⟩; exact ⟨(b, d), hm, rfl⟩

/-- After `addDependency src dst d` the outgoing edges of `src` are the old ones, possibly
followed by `(dst, d)`. -/
theorem mem_outgoingEdges_addDependency (h : st.WF) (src dst : Nat) (d : Dep) {p : Nat × Dep}
    (hp : p ∈ (st.addDependency src dst d).1.g.outgoingEdges src) :
    p ∈ st.g.outgoingEdges src ∨ p = (dst, d) := by
  by_cases hr : (st.addDependency src dst d).2 = .ok
  · by_cases he : st.g.HasEdge src dst
    · rw [addDependency_of_edge h _ _ _ he] at hp; exact .inl hp
    · rw [outgoingEdges_addDependency_new h hr he, if_pos rfl, List.mem_append] at hp
      rcases hp with hp | hp
      · exact .inl hp
      · simp at hp; exact .inr hp
  · rw [addDependency_fst_of_ne_ok _ _ _ hr] at hp; exact .inl hp

theorem outgoingEdges_addDependency_mono (h : st.WF) (src dst : Nat) (d : Dep) {p : Nat × Dep}
    (hp : p ∈ st.g.outgoingEdges src) : p ∈ (st.addDependency src dst d).1.g.outgoingEdges src := by
  by_cases hr : (st.addDependency src dst d).2 = .ok
  · by_cases he : st.g.HasEdge src dst
    · rw [addDependency_of_edge h _ _ _ he]; exact hp
    · rw [outgoingEdges_addDependency_new h hr he, if_pos rfl]; exact List.mem_append_left _ hp
  · rw [addDependency_fst_of_ne_ok _ _ _ hr]; exact hp

/-- An accepted `addDependency src dst` leaves an edge `src → dst` (new or old). -/
theorem outgoingEdges_addDependency_ok (h : st.WF) {src dst : Nat} {d : Dep}
    (hr : (st.addDependency src dst d).2 = .ok) :
    ∃ dep, (dst, dep) ∈ (st.addDependency src dst d).1.g.outgoingEdges src := by
  by_cases he : st.g.HasEdge src dst
  · rw [addDependency_of_edge h _ _ _ he]
    obtain ⟨dep, hd⟩ := (h.gwf.hasEdge_iff_getEdgeData src dst).mp he
    exact ⟨dep, (Dag.mem_outgoingEdges h.gwf src dst dep).mpr hd⟩
  · exact ⟨d, by rw [outgoingEdges_addDependency_new h hr he, if_pos rfl]; simp⟩

/-- `resetTask n` keeps every path that does not leave from `n`. -/
theorem reach_resetTask_of (h : st.WF) (n : Nat) {a b : Nat} (hr : st.g.Reach a b)
    (ha : a ≠ n) (hb : ¬ st.g.Reach n b) : (st.resetTask n).g.Reach a b := by
  induction hr with
  | edge he => exact .edge ((hasEdge_resetTask h n _ _).mpr ⟨ha, he⟩)
  | @step a m b he hmb ih =>
    have hm : m ≠ n := by rintro rfl; exact hb hmb
    exact .step ((hasEdge_resetTask h n _ _).mpr ⟨ha, he⟩) (ih hm hb)

theorem NoReservedDone.getOrCreateTaskNode (h : st.WF) (hn : st.NoReservedDone) (t : Nat) :
    (st.getOrCreateTaskNode t).1.NoReservedDone :=
  hn.transfer (taskOutput_getOrCreateTaskNode h t) (fun n _ => depsFrom_getOrCreateTaskNode h t n)

theorem NoReservedDone.getOrCreateResNode (h : st.WF) (hn : st.NoReservedDone) (r : Nat) :
    (st.getOrCreateResNode r).1.NoReservedDone :=
  hn.transfer (taskOutput_getOrCreateResNode h r) (fun n _ => depsFrom_getOrCreateResNode h r n)

/-- A task without output may get any dependency. -/
theorem NoReservedDone.addDependency (h : st.WF) (hn : st.NoReservedDone) {src : Nat}
    (hs : st.taskOutput src = none) (dst : Nat) (d : Dep) :
    (st.addDependency src dst d).1.NoReservedDone :=
  hn.transfer (taskOutput_addDependency h src dst d) fun n ho =>
    (outgoing_obs_congr (outgoingEdges_addDependency_of_ne h src dst d
      (by rintro rfl; exact ho hs))).1

theorem NoReservedDone.setDependency (hn : st.NoReservedDone) {src dst : Nat} {d : Dep}
    {st' : Store} (hs : st.setDependency src dst d = some st') (ho : st.taskOutput src = none) :
    st'.NoReservedDone :=
  hn.transfer (taskOutput_setDependency hs) fun n hn' =>
    depsFrom_setDependency_of_ne hs (by rintro rfl; exact hn' ho)

theorem NoReservedDone.resetTask (h : st.WF) (hn : st.NoReservedDone) (n : Nat) :
    (st.resetTask n).NoReservedDone := by
  intro x hx
  rw [taskOutput_resetTask h] at hx
  rw [depsFrom_resetTask h]
  by_cases hxn : x = n
  · simp [hxn] at hx
  · rw [if_neg hxn] at hx ⊢; exact hn x hx

/-- A task whose `reserved` dependencies have all been replaced may get its output. -/
theorem NoReservedDone.setTaskOutput (hn : st.NoReservedDone) {n : Nat}
    (hr : Dep.reserved ∉ st.depsFrom n) (o : Int) : (st.setTaskOutput n o).NoReservedDone := by
  intro x hx
  rw [depsFrom_setTaskOutput]
  by_cases hxn : x = n
  · rw [hxn]; exact hr
  · rw [taskOutput_setTaskOutput_of_ne hxn] at hx; exact hn x hx

/-- Under `WF` a task has one node. -/
theorem WF.taskOf_inj (h : st.WF) {n m t : Nat} (hn : st.taskOf n = some t)
    (hm : st.taskOf m = some t) : n = m := by
  have h1 := (h.task_iff t n).mpr hn
  have h2 := (h.task_iff t m).mpr hm
  rw [h1] at h2; exact Option.some.inj h2

end Store

/-! ### steps that replace the store and keep all outputs -/

theorem Frames.setStore {s : Sess} {ch : List Nat} (h : Frames s ch) {st : Store} (hw : st.WF)
    (hle : s.store.Le st) (hr : ∀ a b, s.store.g.Reach a b → st.g.Reach a b)
    (ho : ∀ n, st.taskOutput n = s.store.taskOutput n) (hn : st.NoReservedDone) :
    Frames { s with store := st } ch := by
  refine ⟨(h.wf.setStore hw hle).wf, fun n hn => hle.isTask (h.task n hn), h.fresh,
    h.path.imp (hr _ _), ?_, hn, ?_⟩
  · show s.cur = (st.execStack ch).getLast?
    rw [Store.execStack_congr fun n _ => ho n]; exact h.cur
  · intro n hn'; show st.taskOutput n ≠ none; rw [ho]; exact h.cons n hn'

theorem Trc.setStore {s : Sess} {ch : List Nat} (h : Trc s ch) {st : Store}
    (hle : s.store.Le st) (ho : ∀ n, st.taskOutput n = s.store.taskOutput n) :
    Trc { s with store := st } ch := by
  have he : st.execStack ch = s.store.execStack ch := Store.execStack_congr fun n _ => ho n
  refine ⟨h.once, ?_, ?_⟩
  · intro t ht
    obtain ⟨n, h1, h2⟩ := h.exd t ht
    exact ⟨n, hle.task n t h1, by rw [he]; exact h2⟩
  · intro n hn
    change n ∈ st.execStack ch at hn
    rw [he] at hn
    obtain ⟨t, ht, hc⟩ := h.onstk n hn
    exact ⟨t, hle.task n t ht, hc⟩

theorem keeps_setStore {s : Sess} {K : List Nat} {st : Store}
    (h : ∀ n ∈ K, st.g.outgoingEdges n = s.store.g.outgoingEdges n ∧
      st.taskOutput n = s.store.taskOutput n) : Keeps K s { s with store := st } := h

/-! #### `getOrCreateTaskNode`, `getOrCreateResNode` -/

theorem Frames.getTask {s : Sess} {ch : List Nat} (h : Frames s ch) (t : Nat) :
    Frames { s with store := (s.store.getOrCreateTaskNode t).1 } ch :=
  h.setStore (h.wf.store.getOrCreateTaskNode t) (Store.le_getOrCreateTaskNode h.wf.store t)
    (fun a b hr => (Store.reach_getOrCreateTaskNode h.wf.store t a b).mpr hr)
    (Store.taskOutput_getOrCreateTaskNode h.wf.store t) (h.nrd.getOrCreateTaskNode h.wf.store t)

theorem Trc.getTask {s : Sess} {ch : List Nat} (h : Trc s ch) (hw : s.store.WF) (t : Nat) :
    Trc { s with store := (s.store.getOrCreateTaskNode t).1 } ch :=
  h.setStore (Store.le_getOrCreateTaskNode hw t) (Store.taskOutput_getOrCreateTaskNode hw t)

theorem keeps_getTask {s : Sess} (hw : s.store.WF) (K : List Nat) (t : Nat) :
    Keeps K s { s with store := (s.store.getOrCreateTaskNode t).1 } := fun n _ =>
  ⟨Store.outgoingEdges_getOrCreateTaskNode hw t n, Store.taskOutput_getOrCreateTaskNode hw t n⟩

theorem Frames.getRes {s : Sess} {ch : List Nat} (h : Frames s ch) (r : Nat) :
    Frames { s with store := (s.store.getOrCreateResNode r).1 } ch :=
  h.setStore (h.wf.store.getOrCreateResNode r) (Store.le_getOrCreateResNode h.wf.store r)
    (fun a b hr => (Store.reach_getOrCreateResNode h.wf.store r a b).mpr hr)
    (Store.taskOutput_getOrCreateResNode h.wf.store r) (h.nrd.getOrCreateResNode h.wf.store r)

theorem Trc.getRes {s : Sess} {ch : List Nat} (h : Trc s ch) (hw : s.store.WF) (r : Nat) :
    Trc { s with store := (s.store.getOrCreateResNode r).1 } ch :=
  h.setStore (Store.le_getOrCreateResNode hw r) (Store.taskOutput_getOrCreateResNode hw r)

theorem keeps_getRes {s : Sess} (hw : s.store.WF) (K : List Nat) (r : Nat) :
    Keeps K s { s with store := (s.store.getOrCreateResNode r).1 } := fun n _ =>
  ⟨Store.outgoingEdges_getOrCreateResNode hw r n, Store.taskOutput_getOrCreateResNode hw r n⟩

/-! #### `addDependency` / `setDependency` from the current task -/

theorem Frames.addDep {s : Sess} {ch : List Nat} (h : Frames s ch) {a dst : Nat} {d : Dep}
    (hc : s.cur = some a) (hd : s.store.DepOK d dst) :
    Frames { s with store := (s.store.addDependency a dst d).1 } ch :=
  h.setStore (h.wf.store.addDependency (h.wf.cur a hc) hd)
    (Store.le_addDependency h.wf.store a dst d)
    (fun _ _ hr => Store.reach_addDependency_mono h.wf.store a dst d hr)
    (Store.taskOutput_addDependency h.wf.store a dst d)
    (h.nrd.addDependency h.wf.store (h.cur_mem hc).2 dst d)

theorem Trc.addDep {s : Sess} {ch : List Nat} (h : Trc s ch) (hw : s.store.WF) (a dst : Nat)
    (d : Dep) : Trc { s with store := (s.store.addDependency a dst d).1 } ch :=
  h.setStore (Store.le_addDependency hw a dst d) (Store.taskOutput_addDependency hw a dst d)

theorem keeps_addDep {s : Sess} (hw : s.store.WF) {K : List Nat} {a : Nat} (ha : a ∉ K)
    (dst : Nat) (d : Dep) : Keeps K s { s with store := (s.store.addDependency a dst d).1 } :=
  fun n hn => ⟨Store.outgoingEdges_addDependency_of_ne hw a dst d (by rintro rfl; exact ha hn),
    Store.taskOutput_addDependency hw a dst d n⟩

theorem Frames.setDep {s : Sess} {ch : List Nat} (h : Frames s ch) {a dst t c : Nat}
    {stamp : Stamp} {st' : Store} (hc : s.cur = some a)
    (hs : s.store.setDependency a dst (.require t c stamp) = some st')
    (hd : s.store.taskOf dst = some t) : Frames { s with store := st' } ch :=
  h.setStore (Store.WF.setDependency hs h.wf.store hd) (Store.le_setDependency hs)
    (fun a b hr => (Store.reach_setDependency hs a b).mpr hr) (Store.taskOutput_setDependency hs)
    (h.nrd.setDependency hs (h.cur_mem hc).2)

theorem Trc.setDep {s : Sess} {ch : List Nat} (h : Trc s ch) {a dst : Nat} {d : Dep}
    {st' : Store} (hs : s.store.setDependency a dst d = some st') :
    Trc { s with store := st' } ch :=
  h.setStore (Store.le_setDependency hs) (Store.taskOutput_setDependency hs)

theorem keeps_setDep {s : Sess} {K : List Nat} {a dst : Nat} {d : Dep} {st' : Store}
    (hs : s.store.setDependency a dst d = some st') (ha : a ∉ K) :
    Keeps K s { s with store := st' } :=
  fun n hn => ⟨Store.outgoingEdges_setDependency_of_ne hs (by rintro rfl; exact ha hn),
    Store.taskOutput_setDependency hs n⟩

/-! #### marking a validated / executed node consistent -/

theorem Sess.mem_markConsistent (s : Sess) (n x : Nat) :
    x ∈ (s.markConsistent n).consistent ↔ x ∈ s.consistent ∨ x = n := by
  unfold Sess.markConsistent
  split
  · constructor
    · exact .inl
    · rintro (h | rfl)
      · exact h
      · assumption
  · simp

@[simp] theorem Sess.trace_markConsistent (s : Sess) (n : Nat) :
    (s.markConsistent n).trace = s.trace := by
  unfold Sess.markConsistent; split <;> rfl

@[simp] theorem Sess.consistent_markConsistent_subset (s : Sess) (n : Nat) :
    ∀ x ∈ s.consistent, x ∈ (s.markConsistent n).consistent :=
  fun x hx => (Sess.mem_markConsistent s n x).mpr (.inl hx)

theorem Frames.markConsistent {s : Sess} {ch : List Nat} (h : Frames s ch) {n : Nat}
    (hn : n ∉ ch) (ho : s.store.taskOutput n ≠ none) : Frames (s.markConsistent n) ch := by
  refine ⟨h.wf.markConsistent n, by simpa using h.task, ?_, by simpa using h.path,
    by simpa using h.cur, by simpa using h.nrd, ?_⟩
  · intro x hx hc
    rcases (Sess.mem_markConsistent s n x).mp hc with hc | rfl
    · exact h.fresh x hx hc
    · exact hn hx
  · intro x hc
    rw [Sess.store_markConsistent]
    rcases (Sess.mem_markConsistent s n x).mp hc with hc | rfl
    · exact h.cons x hc
    · exact ho

theorem Trc.markConsistent {s : Sess} {ch : List Nat} (h : Trc s ch) (n : Nat) :
    Trc (s.markConsistent n) ch := by
  have ht : (s.markConsistent n).trace = s.trace := by
    unfold Sess.markConsistent; split <;> rfl
  refine ⟨by rw [ht]; exact h.once, ?_, ?_⟩
  · intro t hc
    rw [ht] at hc
    obtain ⟨m, h1, h2⟩ := h.exd t hc
    refine ⟨m, by simpa using h1, ?_⟩
    rw [Sess.store_markConsistent]
    exact h2.imp (fun h' => (Sess.mem_markConsistent s n m).mpr (.inl h')) id
  · intro m hm
    rw [Sess.store_markConsistent] at hm ⊢
    rw [ht]; exact h.onstk m hm

/-! #### start of an execution: reset and push -/

theorem Frames.pushExec {s : Sess} {ch : List Nat} (h : Frames s ch) {node t : Nat}
    (ht : s.store.taskOf node = some t) (hf : node ∉ s.consistent)
    (hr : ∀ x ∈ ch, s.store.g.Reach x node) :
    Frames { s with store := s.store.resetTask node, cur := some node } (ch ++ [node]) := by
  have hw := h.wf.store
  have hnc : node ∉ ch := h.not_mem_of_reach hr
  have hout : ∀ x ∈ ch, (s.store.resetTask node).taskOutput x = s.store.taskOutput x := by
    intro x hx
    rw [Store.taskOutput_resetTask hw, if_neg (by rintro rfl; exact hnc hx)]
  have hnode : (s.store.resetTask node).taskOutput node = none := by
    rw [Store.taskOutput_resetTask hw, if_pos rfl]
  refine ⟨(h.wf.startExec ht).wf, ?_, ?_, ?_, ?_, h.nrd.resetTask hw node, ?_⟩
  · intro x hx
    show ∃ t, (s.store.resetTask node).taskOf x = some t
    rw [Store.taskOf_resetTask hw]
    rcases List.mem_append.mp hx with hx | hx
    · exact h.task x hx
    · simp at hx; subst hx; exact ⟨t, ht⟩
  · intro x hx
    rcases List.mem_append.mp hx with hx | hx
    · exact h.fresh x hx
    · simp at hx; subst hx; exact hf
  · refine List.pairwise_append.mpr ⟨?_, by simp, ?_⟩
    · refine (List.Pairwise.and_mem.mp h.path).imp ?_
      rintro a b ⟨ha, hb, hab⟩
      exact Store.reach_resetTask_of hw node hab (by rintro rfl; exact hnc ha)
        (fun hnb => hw.inv.acyclic b ((hr b hb).trans hnb))
    · intro a ha b hb
      simp at hb; subst hb
      exact Store.reach_resetTask_of hw b (hr a ha) (by rintro rfl; exact hnc ha)
        (hw.inv.acyclic b)
  · show some node = ((s.store.resetTask node).execStack (ch ++ [node])).getLast?
    rw [Store.execStack_append, Store.execStack_single_none hnode, List.getLast?_concat]
  · intro x hx
    show (s.store.resetTask node).taskOutput x ≠ none
    rw [Store.taskOutput_resetTask hw, if_neg (by rintro rfl; exact hf hx)]
    exact h.cons x hx

theorem keeps_pushExec {s : Sess} (hw : s.store.WF) {K : List Nat} {node : Nat} (hn : node ∉ K) :
    Keeps K s { s with store := s.store.resetTask node, cur := some node } := fun n hk => by
  have : n ≠ node := by rintro rfl; exact hn hk
  exact ⟨by show (s.store.resetTask node).g.outgoingEdges n = _
            rw [Store.outgoingEdges_resetTask hw, if_neg this],
    by show (s.store.resetTask node).taskOutput n = _
       rw [Store.taskOutput_resetTask hw, if_neg this]⟩

theorem keeps_pushExec_emit {s : Sess} (hw : s.store.WF) {K : List Nat} {node : Nat}
    (hn : node ∉ K) (e : Ev) :
    Keeps K s (({ s with store := s.store.resetTask node, cur := some node } : Sess).emit e) :=
  (keeps_pushExec hw hn).congr_right rfl

/-- The state in which the body starts: reset, `cur := node`, `execute_start t` emitted. -/
theorem Trc.pushExec {s : Sess} {ch : List Nat} (h : Trc s ch) (hf : Frames s ch) {node t : Nat}
    (ht : s.store.taskOf node = some t) (hnc : node ∉ s.consistent) (hn : node ∉ ch) :
    Trc (({ s with store := s.store.resetTask node, cur := some node } : Sess).emit
      (.executeStart t)) (ch ++ [node]) := by
  have hw := hf.wf.store
  have hzero : countExec t s.trace = 0 := by
    cases hc : countExec t s.trace with
    | zero => rfl
    | succ k =>
      obtain ⟨m, h1, h2⟩ := h.exd t (by omega)
      have : m = node := hw.taskOf_inj h1 ht
      subst this
      rcases h2 with h2 | h2
      · exact absurd h2 hnc
      · exact absurd (Store.mem_execStack.mp h2).1 hn
  have hcnt : ∀ t', countExec t' (({ s with store := s.store.resetTask node, cur := some node } :
      Sess).emit (.executeStart t)).trace = countExec t' s.trace + if t = t' then 1 else 0 := by
    intro t'
    rw [countExec_emit]
    simp [Ev.isExecStart]
  have hex : ∀ x, x ∈ s.store.execStack ch →
      x ∈ (s.store.resetTask node).execStack (ch ++ [node]) := by
    intro x hx
    obtain ⟨h1, h2⟩ := Store.mem_execStack.mp hx
    refine Store.mem_execStack.mpr ⟨List.mem_append_left _ h1, ?_⟩
    rw [Store.taskOutput_resetTask hw, if_neg (by rintro rfl; exact hn h1)]; exact h2
  have hnode : node ∈ (s.store.resetTask node).execStack (ch ++ [node]) :=
    Store.mem_execStack.mpr ⟨by simp, by rw [Store.taskOutput_resetTask hw, if_pos rfl]⟩
  refine ⟨?_, ?_, ?_⟩
  · intro t'
    rw [hcnt]
    by_cases htt : t = t'
    · subst htt; rw [hzero]; simp
    · rw [if_neg htt]; exact h.once t'
  · intro t' hc
    rw [hcnt] at hc
    show ∃ n, (s.store.resetTask node).taskOf n = some t' ∧ _
    by_cases htt : t = t'
    · subst htt
      exact ⟨node, by rw [Store.taskOf_resetTask hw]; exact ht, .inr hnode⟩
    · rw [if_neg htt] at hc
      obtain ⟨m, h1, h2⟩ := h.exd t' hc
      exact ⟨m, by rw [Store.taskOf_resetTask hw]; exact h1, h2.imp id (hex m)⟩
  · intro x hx
    show ∃ t', (s.store.resetTask node).taskOf x = some t' ∧ _
    change x ∈ (s.store.resetTask node).execStack (ch ++ [node]) at hx
    obtain ⟨h0, h2⟩ := Store.mem_execStack.mp hx
    rcases List.mem_append.mp h0 with h1 | h1
    · have hxn : x ≠ node := fun hxn => hn (hxn ▸ h1)
      rw [Store.taskOutput_resetTask hw, if_neg hxn] at h2
      obtain ⟨t', h3, h4⟩ := h.onstk x (Store.mem_execStack.mpr ⟨h1, h2⟩)
      exact ⟨t', by rw [Store.taskOf_resetTask hw]; exact h3, by rw [hcnt]; omega⟩
    · simp at h1; subst h1
      exact ⟨t, by rw [Store.taskOf_resetTask hw]; exact ht, by rw [hcnt, if_pos rfl]; omega⟩

/-! #### end of an execution: pop, store the output -/

theorem Frames.popExec {s s' : Sess} {ch : List Nat} {node : Nat} (h : Frames s (ch ++ [node]))
    (hnr : Dep.reserved ∉ s.store.depsFrom node) (o : Int)
    (h1 : s'.store = s.store.setTaskOutput node o)
    (h2 : s'.cur = (s.store.execStack ch).getLast?)
    (h3 : s'.consistent = s.consistent) (h4 : s'.queue = s.queue) : Frames s' ch := by
  have hnc : node ∉ ch := by
    have := h.nodup
    rw [List.nodup_append] at this
    intro hn; exact this.2.2 node hn node (by simp) rfl
  have hout : ∀ x ∈ ch, s'.store.taskOutput x = s.store.taskOutput x := by
    intro x hx
    rw [h1, Store.taskOutput_setTaskOutput_of_ne (by rintro rfl; exact hnc hx)]
  have hex : s'.store.execStack ch = s.store.execStack ch := Store.execStack_congr hout
  have hle : s.store.Le s'.store := by rw [h1]; exact Store.le_setTaskOutput _ _ _
  have htask : ∀ n ∈ ch, ∃ t, s'.store.taskOf n = some t :=
    fun x hx => hle.isTask (h.task x (List.mem_append_left _ hx))
  refine ⟨⟨by rw [h1]; exact h.wf.store.setTaskOutput node o, ?_, ?_⟩, htask, ?_, ?_, ?_, ?_, ?_⟩
  · intro n hn
    rw [h2] at hn
    obtain ⟨ys, hy⟩ := List.getLast?_eq_some_iff.mp hn
    have : n ∈ s.store.execStack ch := by rw [hy]; simp
    exact htask n (Store.mem_execStack.mp this).1
  · intro n hn; rw [h4] at hn; exact hle.isTask (h.wf.queue n hn)
  · intro x hx; rw [h3]; exact h.fresh x (List.mem_append_left _ hx)
  · rw [h1]
    exact (List.pairwise_append.mp h.path).1.imp
      fun hr => (Store.reach_setTaskOutput node o _ _).mpr hr
  · rw [h2, hex]
  · rw [h1]; exact h.nrd.setTaskOutput hnr o
  · intro x hx
    rw [h3] at hx
    rw [h1, Store.taskOutput_setTaskOutput]
    split
    · simp
    · exact h.cons x hx

theorem keeps_popExec {s s' : Sess} {K : List Nat} {node : Nat} (o : Int)
    (h1 : s'.store = s.store.setTaskOutput node o) (hn : node ∉ K) : Keeps K s s' := fun n hk => by
  rw [h1]
  exact ⟨Store.outgoingEdges_setTaskOutput node o n,
    Store.taskOutput_setTaskOutput_of_ne (by rintro rfl; exact hn hk) o⟩

/-- The whole end of an execution, trace part: output stored, node marked consistent. -/
theorem Trc.popExec {s s' : Sess} {ch : List Nat} {node : Nat} (h : Trc s (ch ++ [node]))
    (hn : node ∉ ch) (o : Int) (h1 : s'.store = s.store.setTaskOutput node o)
    (h3 : ∀ x, x ∈ s'.consistent ↔ x ∈ s.consistent ∨ x = node)
    (h5 : ∀ t, countExec t s'.trace = countExec t s.trace) : Trc s' ch := by
  have hex : ∀ x, x ≠ node → (x ∈ s.store.execStack (ch ++ [node]) ↔ x ∈ s'.store.execStack ch) := by
    intro x hx
    rw [Store.mem_execStack, Store.mem_execStack, h1, Store.taskOutput_setTaskOutput_of_ne hx]
    simp [hx]
  have hnode : node ∉ s'.store.execStack ch := fun hm => hn (Store.mem_execStack.mp hm).1
  refine ⟨fun t => by rw [h5]; exact h.once t, ?_, ?_⟩
  · intro t hc
    rw [h5] at hc
    obtain ⟨m, h6, h7⟩ := h.exd t hc
    refine ⟨m, by rw [h1]; simpa using h6, ?_⟩
    by_cases hm : m = node
    · exact .inl ((h3 m).mpr (.inr hm))
    · exact h7.imp (fun h' => (h3 m).mpr (.inl h')) (hex m hm).mp
  · intro x hx
    have hxn : x ≠ node := by rintro rfl; exact hnode hx
    obtain ⟨t, h6, h7⟩ := h.onstk x ((hex x hxn).mpr hx)
    exact ⟨t, by rw [h1]; simpa using h6, by rw [h5]; exact h7⟩

end PieModel
