/-
`Store.NoReservedDone` is preserved by the bottom-up build, whatever the result: joint induction
on fuel over `buRequire`, `buMake`, `buExec`, `buExecAndSchedule`, `buRequireNow`, `buRun`
with the executing-stack invariant `BFrames`, then `buExecuteScheduled`, `updateAffectedTasks`,
`bottomUpBuild`.
-/
import PieModel.Build.Stack.BottomUpDefs
import PieModel.Build.Stack.Session

namespace PieModel

/-! ### `reserveRequire` / `updateRequire` do not look at `consistent` -/

theorem reserveRequire_noCons (s : Sess) (dst : Nat) :
    reserveRequire s.noCons dst = ((reserveRequire s dst).1.noCons, (reserveRequire s dst).2) := by
  unfold reserveRequire
  cases hc : s.cur with
  | none => simp only [Sess.cur_noCons, hc]
  | some a =>
    simp only [Sess.cur_noCons, hc, Sess.store_noCons]
    split <;> rfl

theorem reserveRequire_consistent (s : Sess) (dst : Nat) :
    (reserveRequire s dst).1.consistent = s.consistent := by
  unfold reserveRequire
  split
  · rfl
  · split <;> rfl

theorem updateRequire_noCons (s : Sess) (dst t c : Nat) (stamp : Stamp) :
    updateRequire s.noCons dst t c stamp =
      ((updateRequire s dst t c stamp).1.noCons, (updateRequire s dst t c stamp).2) := by
  unfold updateRequire
  cases hc : s.cur with
  | none => simp only [Sess.cur_noCons, hc]
  | some a =>
    simp only [Sess.cur_noCons, hc, Sess.store_noCons]
    split <;> rfl

theorem updateRequire_consistent (s : Sess) (dst t c : Nat) (stamp : Stamp) :
    (updateRequire s dst t c stamp).1.consistent = s.consistent := by
  unfold updateRequire
  split
  · rfl
  · split <;> rfl

theorem reserveRequire_abort_state {s s' : Sess} {dst : Nat} {k : Abort}
    (h : reserveRequire s dst = (s', .abort k)) : s' = s := by
  unfold reserveRequire at h
  split at h
  · cases h
  · split at h
    · cases h
    · cases h; rfl
    · cases h; rfl

theorem updateRequire_abort_state {s s' : Sess} {dst t c : Nat} {stamp : Stamp} {k : Abort}
    (h : updateRequire s dst t c stamp = (s', .abort k)) : s' = s := by
  unfold updateRequire at h
  split at h
  · cases h
  · split at h
    · cases h
    · cases h; rfl

/-! ### the primitives on `BFrames` -/

theorem BFrames.reserve_ok {s s' : Sess} {ch₀ : List Nat} {a dst t : Nat}
    (h : BFrames s (ch₀ ++ [a])) (hd : s.store.taskOf dst = some t)
    (heq : reserveRequire s dst = (s', .ok ())) :
    BFrames s' (ch₀ ++ [a]) ∧ Keeps ch₀ s s' ∧ s.store.Le s'.store ∧
    (∃ dep, (dst, dep) ∈ s'.store.g.outgoingEdges a) ∧
    (∀ p ∈ s'.store.g.outgoingEdges a, p ∈ s.store.g.outgoingEdges a ∨ p = (dst, .reserved)) ∧
    ∀ x ∈ ch₀ ++ [a], s'.store.g.Reach x dst := by
  have hc : s.noCons.cur = some a := by
    rw [Sess.cur_noCons, h.cur_eq, List.getLast?_concat]
  have heq' : reserveRequire s.noCons dst = (s'.noCons, .ok ()) := by
    rw [reserveRequire_noCons, heq]
  obtain ⟨f2, _, k2, o2, _, _, _, le2, e2⟩ :=
    reserveRequire_ok (top := some a) h.core hc hd heq'
  have hcons : s'.consistent = s.consistent := by
    have := reserveRequire_consistent s dst; rw [heq] at this; exact this
  obtain ⟨e21, e22, e23⟩ := e2 a rfl
  exact ⟨h.of_core f2 o2 hcons, k2, le2, e21, e22, e23⟩

theorem BFrames.update {s s' : Sess} {ch₀ : List Nat} {a dst t c : Nat} {stamp : Stamp}
    {r : Res Unit} (h : BFrames s (ch₀ ++ [a])) (hd : s.store.taskOf dst = some t)
    (hedge : ∃ dep, (dst, dep) ∈ s.store.g.outgoingEdges a)
    (heq : updateRequire s dst t c stamp = (s', r)) :
    r = .ok () ∧ BFrames s' (ch₀ ++ [a]) ∧ Keeps ch₀ s s' ∧
    (∀ n, s'.store.taskOutput n = s.store.taskOutput n) ∧
    (∀ d ∈ s'.store.depsFrom a,
      d = .require t c stamp ∨ ∃ b, b ≠ dst ∧ (b, d) ∈ s.store.g.outgoingEdges a) := by
  have hc : s.noCons.cur = some a := by
    rw [Sess.cur_noCons, h.cur_eq, List.getLast?_concat]
  have heq' : updateRequire s.noCons dst t c stamp = (s'.noCons, r) := by
    rw [updateRequire_noCons, heq]
  obtain ⟨hr, f2, _, k2, o2, d2⟩ :=
    updateRequire_frames (top := some a) h.core hc hd (fun a' ha' => by cases ha'; exact hedge) heq'
  have hcons : s'.consistent = s.consistent := by
    have := updateRequire_consistent s dst t c stamp; rw [heq] at this; exact this
  exact ⟨hr, h.of_core f2 o2 hcons, k2, o2, d2 a rfl⟩

variable (sem : Sem)

/-- `doRead`/`doWrite`/`doWrote` of the current task. -/
theorem BFrames.resStep {s s' : Sess} {ch₀ : List Nat} {a r : Nat}
    (h : BFrames s (ch₀ ++ [a])) (hw' : SessWF s')
    (hs : s'.store = (s.store.getOrCreateResNode r).1 ∨
      ∃ d, d ≠ .reserved ∧
        (s.store.getOrCreateResNode r).1.DepOK d (s.store.getOrCreateResNode r).2 ∧
        s'.store = ((s.store.getOrCreateResNode r).1.addDependency a
          (s.store.getOrCreateResNode r).2 d).1)
    (h2 : s'.cur = s.cur) (h3 : s'.consistent = s.consistent) :
    BFrames s' (ch₀ ++ [a]) ∧ Keeps ch₀ s s' ∧
    (Dep.reserved ∉ s.store.depsFrom a → Dep.reserved ∉ s'.store.depsFrom a) := by
  have hc : s.noCons.cur = some a := by
    rw [Sess.cur_noCons, h.cur_eq, List.getLast?_concat]
  obtain ⟨f2, _, k2, n2⟩ := h.core.resStep (s' := { s.noCons with store := s'.store }) (r := r)
    hc hs rfl rfl rfl (fun _ => rfl)
  have ho : ∀ n, s'.store.taskOutput n = s.store.taskOutput n := by
    have hw := h.wf.store
    rcases hs with hs | ⟨d, _, _, hs⟩
    · intro n; rw [hs, Store.taskOutput_getOrCreateResNode hw]
    · intro n
      rw [hs, Store.taskOutput_addDependency (hw.getOrCreateResNode r),
        Store.taskOutput_getOrCreateResNode hw]
  exact ⟨h.of_core (f2.of_wf (sessWF_noCons.mpr hw') rfl h2 rfl) ho h3, k2, n2⟩

theorem BFrames.doRead {s : Sess} {ch₀ : List Nat} {a : Nat} (h : BFrames s (ch₀ ++ [a]))
    (r c : Nat) :
    BFrames (doRead sem s r c).1 (ch₀ ++ [a]) ∧ Keeps ch₀ s (doRead sem s r c).1 ∧
    (Dep.reserved ∉ s.store.depsFrom a →
      Dep.reserved ∉ (doRead sem s r c).1.store.depsFrom a) := by
  have hc : s.cur = some a := by rw [h.cur_eq, List.getLast?_concat]
  refine h.resStep (r := r) (doRead_ext sem h.wf r c).wf ?_ (doRead_cur sem s r c)
    (doRead_consistent sem s r c)
  rcases doRead_store sem hc r c with hs | ⟨stamp, hs⟩
  · exact .inl hs
  · exact .inr ⟨_, by simp, by simp [Store.resOf_getOrCreateResNode_self h.wf.store], hs⟩

theorem BFrames.doWrite {s : Sess} {ch₀ : List Nat} {a : Nat} (h : BFrames s (ch₀ ++ [a]))
    (r c : Nat) (v : Option Int) :
    BFrames (doWrite sem s r c v).1 (ch₀ ++ [a]) ∧ Keeps ch₀ s (doWrite sem s r c v).1 ∧
    (Dep.reserved ∉ s.store.depsFrom a →
      Dep.reserved ∉ (doWrite sem s r c v).1.store.depsFrom a) := by
  have hc : s.cur = some a := by rw [h.cur_eq, List.getLast?_concat]
  refine h.resStep (r := r) (doWrite_ext sem h.wf r c v).wf ?_ (doWrite_cur sem s r c v)
    (doWrite_consistent sem s r c v)
  rcases doWrite_store sem hc r c v with hs | ⟨stamp, hs⟩
  · exact .inl hs
  · exact .inr ⟨_, by simp, by simp [Store.resOf_getOrCreateResNode_self h.wf.store], hs⟩

theorem BFrames.doWrote {s : Sess} {ch₀ : List Nat} {a : Nat} (h : BFrames s (ch₀ ++ [a]))
    (r c : Nat) (v : Option Int) :
    BFrames (doWrote sem s r c v).1 (ch₀ ++ [a]) ∧ Keeps ch₀ s (doWrote sem s r c v).1 ∧
    (Dep.reserved ∉ s.store.depsFrom a →
      Dep.reserved ∉ (doWrote sem s r c v).1.store.depsFrom a) := by
  have hc : s.cur = some a := by rw [h.cur_eq, List.getLast?_concat]
  refine h.resStep (r := r) (doWrote_ext sem h.wf r c v).wf ?_ (doWrote_cur sem s r c v)
    (doWrote_consistent sem s r c v)
  rcases doWrote_store sem hc r c v with hs | ⟨stamp, hs⟩
  · exact .inl hs
  · exact .inr ⟨_, by simp, by simp [Store.resOf_getOrCreateResNode_self h.wf.store], hs⟩

/-! ### push / pop of an executing frame -/

theorem BFrames.getTask {s : Sess} {ch : List Nat} (h : BFrames s ch) (t : Nat) :
    BFrames { s with store := (s.store.getOrCreateTaskNode t).1 } ch :=
  h.of_core (h.core.getTask t) (Store.taskOutput_getOrCreateTaskNode h.wf.store t) rfl

theorem BFrames.link {s : Sess} {ch₀ : List Nat} {a node : Nat} (h : BFrames s (ch₀ ++ [a]))
    (he : ∃ dep, (node, dep) ∈ s.store.g.outgoingEdges a) :
    ∀ x ∈ ch₀ ++ [a], s.store.g.Reach x node := by
  obtain ⟨dep, hdep⟩ := he
  have had := Store.reach_of_mem_outgoingEdges h.wf.store hdep
  intro x hx
  rcases List.mem_append.mp hx with hx | hx
  · exact ((List.pairwise_append.mp h.core.path).2.2 x hx a (by simp)).trans had
  · simp at hx; subst hx; exact had

theorem BFrames.pushExec {s : Sess} {ch : List Nat} (h : BFrames s ch) {node t : Nat}
    (ht : s.store.taskOf node = some t) (hr : ∀ x ∈ ch, s.store.g.Reach x node) (e : Ev) :
    BFrames (({ s with store := s.store.resetTask node, cur := some node } : Sess).emit e)
      (ch ++ [node]) := by
  have hw := h.wf.store
  have hnch : node ∉ ch := h.core.not_mem_of_reach hr
  refine ⟨(h.core.pushExec ht (by simp) hr).emit e, ?_, ?_⟩
  · intro x hx
    show (s.store.resetTask node).taskOutput x = none
    rw [Store.taskOutput_resetTask hw]
    rcases List.mem_append.mp hx with hx | hx
    · rw [if_neg (fun (hxn : x = node) => hnch (hxn ▸ hx))]; exact h.noOut x hx
    · simp at hx; subst hx; simp
  · intro x hx
    show x ∈ ch ++ [node] ∨ (s.store.resetTask node).taskOutput x ≠ none
    by_cases hxn : x = node
    · exact .inl (by simp [hxn])
    · rw [Store.taskOutput_resetTask hw, if_neg hxn]
      exact (h.consX x hx).imp (fun h' => List.mem_append_left _ h') id

theorem BFrames.popExec {s s' : Sess} {ch : List Nat} {node t : Nat}
    (h : BFrames s (ch ++ [node])) (hnr : Dep.reserved ∉ s.store.depsFrom node) (o : Int)
    (ht : s.store.taskOf node = some t)
    (h1 : s'.store = s.store.setTaskOutput node o) (h2 : s'.cur = ch.getLast?)
    (h3 : s'.consistent = s.consistent) (h4 : s'.queue = s.queue) :
    BFrames s' ch ∧ s'.store.taskOutput node = some o := by
  have hnch : node ∉ ch := by
    have := h.core.nodup
    rw [List.nodup_append] at this
    intro hn; exact this.2.2 node hn node (by simp) rfl
  have hex : s.store.execStack ch = ch := by
    unfold Store.execStack
    rw [List.filter_eq_self]
    intro n hn; rw [h.noOut n (List.mem_append_left _ hn)]; rfl
  have hout : s'.store.taskOutput node = some o := by
    rw [h1]; exact Store.taskOutput_setTaskOutput_self ht o
  refine ⟨⟨h.core.popExec hnr o h1 (by rw [Sess.cur_noCons, h2]; simp [hex]) rfl h4, ?_, ?_⟩, hout⟩
  · intro x hx
    rw [h1, Store.taskOutput_setTaskOutput_of_ne (fun (hxn : x = node) => hnch (hxn ▸ hx))]
    exact h.noOut x (List.mem_append_left _ hx)
  · intro x hx
    rw [h3] at hx
    by_cases hxn : x = node
    · subst hxn; exact .inr (by rw [hout]; simp)
    · rw [h1, Store.taskOutput_setTaskOutput_of_ne hxn]
      rcases h.consX x hx with h' | h'
      · rcases List.mem_append.mp h' with h' | h'
        · exact .inl h'
        · simp at h'; exact absurd h' hxn
      · exact .inr h'

/-! ### the joint induction -/

variable (body : Nat → Prog)

/-- StkPost-condition: `P` if the call returns; at an abort point the store still satisfies
`NoReservedDone`. -/
def PostB {α : Type} (P : Sess → α → Prop) : Sess × Res α → Prop
  | (s', .ok v) => P s' v
  | (s', .abort _) => s'.store.NoReservedDone

theorem PostB.mono {α : Type} {P Q : Sess → α → Prop} {x : Sess × Res α} (h : PostB P x)
    (hpq : ∀ s' v, P s' v → Q s' v) : PostB Q x := by
  obtain ⟨s', r⟩ := x
  cases r with
  | ok v => exact hpq s' v h
  | abort k => exact h

theorem PostB.ok {α : Type} {P : Sess → α → Prop} {F : Sess × Res α} {s' : Sess} {v : α}
    (h : PostB P F) (heq : F = (s', .ok v)) : P s' v := by rw [heq] at h; exact h

theorem PostB.abort {α : Type} {P : Sess → α → Prop} {F : Sess × Res α} {s' : Sess} {k : Abort}
    (h : PostB P F) (heq : F = (s', .abort k)) : s'.store.NoReservedDone := by
  rw [heq] at h; exact h

theorem PostB.nrd {α : Type} {P : Sess → α → Prop} {x : Sess × Res α} (h : PostB P x)
    (hp : ∀ s' v, P s' v → s'.store.NoReservedDone) : x.1.store.NoReservedDone := by
  obtain ⟨s', r⟩ := x
  cases r with
  | ok v => exact hp s' v h
  | abort k => exact h

structure BuStack (f : Nat) : Prop where
  require : ∀ (s : Sess) (ch₀ : List Nat) (a t c : Nat),
    BFrames s (ch₀ ++ [a]) → Dep.reserved ∉ s.store.depsFrom a →
    PostB (fun s' _ => BFrames s' (ch₀ ++ [a]) ∧ Keeps ch₀ s s' ∧
      Dep.reserved ∉ s'.store.depsFrom a) (buRequire sem body f s t c)
  make : ∀ (s : Sess) (ch₀ : List Nat) (a t node : Nat),
    BFrames s (ch₀ ++ [a]) → s.store.taskOf node = some t →
    (∃ dep, (node, dep) ∈ s.store.g.outgoingEdges a) →
    PostB (fun s' v => BFrames s' (ch₀ ++ [a]) ∧ Keeps (ch₀ ++ [a]) s s' ∧
      s'.store.taskOutput node = some v) (buMake sem body f s t node)
  exec : ∀ (s : Sess) (ch : List Nat) (t node : Nat),
    BFrames s ch → s.store.taskOf node = some t → (∀ x ∈ ch, s.store.g.Reach x node) →
    PostB (fun s' v => BFrames s' ch ∧ Keeps ch s s' ∧ s'.store.taskOutput node = some v)
      (buExec sem body f s t node)
  execAndSchedule : ∀ (s : Sess) (ch : List Nat) (node : Nat),
    BFrames s ch → (∀ x ∈ ch, s.store.g.Reach x node) →
    PostB (fun s' v => BFrames s' ch ∧ Keeps ch s s' ∧ s'.store.taskOutput node = some v)
      (buExecAndSchedule sem body f s node)
  requireNow : ∀ (s : Sess) (ch₀ : List Nat) (a src : Nat),
    BFrames s (ch₀ ++ [a]) → (∃ dep, (src, dep) ∈ s.store.g.outgoingEdges a) →
    PostB (fun s' o => BFrames s' (ch₀ ++ [a]) ∧ Keeps (ch₀ ++ [a]) s s' ∧
      ∀ v, o = some v → s'.store.taskOutput src = some v) (buRequireNow sem body f s src)
  run : ∀ (s : Sess) (ch₀ : List Nat) (a : Nat) (p : Prog),
    BFrames s (ch₀ ++ [a]) → Dep.reserved ∉ s.store.depsFrom a →
    PostB (fun s' _ => BFrames s' (ch₀ ++ [a]) ∧ Keeps ch₀ s s' ∧
      Dep.reserved ∉ s'.store.depsFrom a) (buRun sem body f s p)

theorem BuStack.zero : BuStack sem body 0 := by
  refine ⟨?_, ?_, ?_, ?_, ?_, ?_⟩
  · intro s ch₀ a t c h _; unfold buRequire; exact h.nrd
  · intro s ch₀ a t n h _ _; unfold buMake; exact h.nrd
  · intro s ch t n h _ _; unfold buExec; exact h.nrd
  · intro s ch n h _; unfold buExecAndSchedule; exact h.nrd
  · intro s ch₀ a n h _; unfold buRequireNow; exact h.nrd
  · intro s ch₀ a p h _; unfold buRun; exact h.nrd

theorem BuStack.exec_succ {f : Nat} (ih : BuStack sem body f) (s : Sess) (ch : List Nat)
    (t node : Nat) (h : BFrames s ch) (ht : s.store.taskOf node = some t)
    (hr : ∀ x ∈ ch, s.store.g.Reach x node) :
    PostB (fun s' v => BFrames s' ch ∧ Keeps ch s s' ∧ s'.store.taskOutput node = some v)
      (buExec sem body (f + 1) s t node) := by
  unfold buExec; simp only []
  have hw := h.wf.store
  have hnch : node ∉ ch := h.core.not_mem_of_reach hr
  have f3 := h.pushExec ht hr (.executeStart t)
  have k3 := keeps_pushExec_emit hw hnch (.executeStart t)
  have key := ih.run _ ch node (body t) f3 (by
    show Dep.reserved ∉ (s.store.resetTask node).depsFrom node
    rw [Store.depsFrom_resetTask hw, if_pos rfl]; simp)
  split
  next s4 a heq => exact key.abort heq
  next s4 o heq =>
    obtain ⟨f4, k4, hnr4⟩ := key.ok heq
    have e4 := (buRun_ext sem body f f3.wf _).out heq
    have hd4 : s4.store.taskOf node = some t := e4.le.task _ _ (by
      show (s.store.resetTask node).taskOf node = some t
      rw [Store.taskOf_resetTask hw]; exact ht)
    obtain ⟨f5, ho5⟩ := f4.popExec (s' := { ({ (s4.emit (.executeEnd t o)) with cur := s.cur } :
      Sess) with store := s4.store.setTaskOutput node o }) hnr4 o hd4 rfl h.cur_eq rfl rfl
    exact ⟨f5, (k3.trans k4).trans (keeps_popExec o rfl hnch), ho5⟩

theorem BuStack.execAndSchedule_succ {f : Nat} (ih : BuStack sem body f) (s : Sess)
    (ch : List Nat) (node : Nat) (h : BFrames s ch) (hr : ∀ x ∈ ch, s.store.g.Reach x node) :
    PostB (fun s' v => BFrames s' ch ∧ Keeps ch s s' ∧ s'.store.taskOutput node = some v)
      (buExecAndSchedule sem body (f + 1) s node) := by
  unfold buExecAndSchedule
  split
  · exact h.nrd
  next t ht =>
    have key := ih.exec s ch t node h ht hr
    split
    next s2 a heq => exact key.abort heq
    next s2 o heq =>
      obtain ⟨f2, k2, ho2⟩ := key.ok heq
      obtain ⟨f3, hs3⟩ := f2.scheduleAfterExec sem t o (node := node) (by rw [ho2]; simp)
      exact ⟨f3, k2.congr_right hs3, by rw [hs3]; exact ho2⟩

theorem BuStack.requireNow_succ {f : Nat} (ih : BuStack sem body f) (s : Sess) (ch₀ : List Nat)
    (a src : Nat) (h : BFrames s (ch₀ ++ [a]))
    (he : ∃ dep, (src, dep) ∈ s.store.g.outgoingEdges a) :
    PostB (fun s' o => BFrames s' (ch₀ ++ [a]) ∧ Keeps (ch₀ ++ [a]) s s' ∧
      ∀ v, o = some v → s'.store.taskOutput src = some v)
      (buRequireNow sem body (f + 1) s src) := by
  unfold buRequireNow
  split
  · exact ⟨h, Keeps.refl _ _, fun v hv => nomatch hv⟩
  · split
    · exact ⟨h, Keeps.refl _ _, fun v hv => nomatch hv⟩
    next m q hq =>
      have hwq := (h.wf.subQueue (fun _ hm => queuePopLeastFrom_rest_subset hq hm)).wf
      have fq : BFrames { s with queue := q } (ch₀ ++ [a]) := h.of_same hwq rfl rfl rfl
      have hlink : ∀ x ∈ ch₀ ++ [a], s.store.g.Reach x m := by
        obtain ⟨i, hi, _, _, hcone, _⟩ := queuePopLeastFrom_eq_some hq
        intro x hx
        rcases inCone_iff.mp hcone with hm | hm
        · rw [hm]; exact h.link he x hx
        · exact (h.link he x hx).trans ((h.wf.store.containsTransitive_iff src m).mp hm)
      have key := ih.execAndSchedule _ (ch₀ ++ [a]) m fq hlink
      split
      next s2 k heq => exact key.abort heq
      next s2 o heq =>
        obtain ⟨f2, k2, ho2⟩ := key.ok heq
        have k2' : Keeps (ch₀ ++ [a]) s s2 := (Keeps.of_store (s := s) rfl).trans k2
        split
        next hm => exact ⟨f2, k2', fun v hv => by cases hv; rw [← hm]; exact ho2⟩
        · obtain ⟨dep, hdep⟩ := he
          refine (ih.requireNow s2 ch₀ a src f2 ⟨dep, by
            rw [(k2' a (by simp)).1]; exact hdep⟩).mono ?_
          rintro s' o' ⟨h1, h2, h3⟩
          exact ⟨h1, k2'.trans h2, h3⟩

theorem BuStack.make_succ {f : Nat} (ih : BuStack sem body f) (s : Sess) (ch₀ : List Nat)
    (a t node : Nat) (h : BFrames s (ch₀ ++ [a])) (ht : s.store.taskOf node = some t)
    (he : ∃ dep, (node, dep) ∈ s.store.g.outgoingEdges a) :
    PostB (fun s' v => BFrames s' (ch₀ ++ [a]) ∧ Keeps (ch₀ ++ [a]) s s' ∧
      s'.store.taskOutput node = some v) (buMake sem body (f + 1) s t node) := by
  unfold buMake
  split
  · split
    next o ho => exact ⟨h, Keeps.refl _ _, ho⟩
    · exact h.nrd
  · split
    · exact ih.exec s (ch₀ ++ [a]) t node h ht (h.link he)
    · have key := ih.requireNow s ch₀ a node h he
      split
      next s2 k heq => exact key.abort heq
      next s2 o heq =>
        obtain ⟨f2, k2, ho2⟩ := key.ok heq
        exact ⟨f2, k2, ho2 o rfl⟩
      next s2 heq =>
        obtain ⟨f2, k2, _⟩ := key.ok heq
        split
        next o ho => exact ⟨f2, k2, ho⟩
        · exact f2.nrd

theorem BuStack.require_succ {f : Nat} (ih : BuStack sem body f) (s : Sess) (ch₀ : List Nat)
    (a t c : Nat) (h : BFrames s (ch₀ ++ [a])) (hnr : Dep.reserved ∉ s.store.depsFrom a) :
    PostB (fun s' _ => BFrames s' (ch₀ ++ [a]) ∧ Keeps ch₀ s s' ∧
      Dep.reserved ∉ s'.store.depsFrom a) (buRequire sem body (f + 1) s t c) := by
  unfold buRequire; simp only []
  have hw := h.wf.store
  have f1 := (h.emit (.requireStart t c)).getTask t
  have k1 : Keeps ch₀ s _ :=
    (Keeps.of_store (s' := s.emit (.requireStart t c)) rfl).trans (keeps_getTask hw ch₀ t)
  have hd := Store.taskOf_getOrCreateTaskNode_self hw t
  have ha : a ∈ ch₀ ++ [a] := by simp
  split
  next s2 k heq => rw [reserveRequire_abort_state heq]; exact f1.nrd
  next s2 heq =>
    obtain ⟨f2, k2, le2, e21, e22, _⟩ := f1.reserve_ok hd heq
    have hd2 := le2.task _ _ hd
    have key := ih.make s2 ch₀ a t _ f2 hd2 e21
    split
    next s3 k heq3 => exact key.abort heq3
    next s3 out heq3 =>
      obtain ⟨f3, k3, ho3⟩ := key.ok heq3
      have e3 := (buMake_ext sem body f f2.wf t ⟨t, hd2⟩).out heq3
      have hd3 := e3.le.task _ _ hd2
      have hedge3 : ∃ dep, ((s.store.getOrCreateTaskNode t).2, dep) ∈
          (s3.emit (.requireEnd t c (sem.ostamp c out) out)).store.g.outgoingEdges a := by
        obtain ⟨dep, hdep⟩ := e21
        exact ⟨dep, by show (_, dep) ∈ s3.store.g.outgoingEdges a; rw [(k3 a ha).1]; exact hdep⟩
      have fin : ∀ s4 r4, updateRequire (s3.emit (.requireEnd t c (sem.ostamp c out) out))
          (s.store.getOrCreateTaskNode t).2 t c (sem.ostamp c out) = (s4, r4) →
          r4 = .ok () ∧ BFrames (s4.markConsistent (s.store.getOrCreateTaskNode t).2) (ch₀ ++ [a]) ∧
            Keeps ch₀ s (s4.markConsistent (s.store.getOrCreateTaskNode t).2) ∧
            Dep.reserved ∉ (s4.markConsistent (s.store.getOrCreateTaskNode t).2).store.depsFrom a := by
        intro s4 r4 heq4
        obtain ⟨hr4, f4, k4, o4, hdeps⟩ := (f3.emit _).update hd3 hedge3 heq4
        refine ⟨hr4, f4.markConsistent (by rw [o4]; show s3.store.taskOutput _ ≠ none; rw [ho3]; simp),
          ?_, ?_⟩
        · have k3' : Keeps ch₀ s2 s3 := k3.mono fun n hn => List.mem_append_left _ hn
          exact ((((k1.trans k2).trans k3').trans
            ((Keeps.of_store (s := s3) rfl).trans k4))).congr_right (by simp)
        · rw [Sess.store_markConsistent]
          intro hres
          rcases hdeps _ hres with hq | ⟨b, hb, hbm⟩
          · cases hq
          · change (b, Dep.reserved) ∈ s3.store.g.outgoingEdges a at hbm
            rw [(k3 a ha).1] at hbm
            rcases e22 _ hbm with hbm | hbm
            · change (b, Dep.reserved) ∈ (s.store.getOrCreateTaskNode t).1.g.outgoingEdges a at hbm
              rw [Store.outgoingEdges_getOrCreateTaskNode hw] at hbm
              exact hnr (Store.mem_depsFrom_iff.mpr ⟨b, hbm⟩)
            · cases hbm; exact hb rfl
      split
      next s4 k heq4 => obtain ⟨hr4, _⟩ := fin s4 _ heq4; cases hr4
      next s4 heq4 => exact (fin s4 _ heq4).2

theorem BuStack.run_succ {f : Nat} (ih : BuStack sem body f) (s : Sess) (ch₀ : List Nat)
    (a : Nat) (p : Prog) (h : BFrames s (ch₀ ++ [a])) (hnr : Dep.reserved ∉ s.store.depsFrom a) :
    PostB (fun s' _ => BFrames s' (ch₀ ++ [a]) ∧ Keeps ch₀ s s' ∧
      Dep.reserved ∉ s'.store.depsFrom a) (buRun sem body (f + 1) s p) := by
  have cont : ∀ (s2 : Sess) (p' : Prog), BFrames s2 (ch₀ ++ [a]) → Keeps ch₀ s s2 →
      Dep.reserved ∉ s2.store.depsFrom a →
      PostB (fun s' _ => BFrames s' (ch₀ ++ [a]) ∧ Keeps ch₀ s s' ∧
        Dep.reserved ∉ s'.store.depsFrom a) (buRun sem body f s2 p') := by
    intro s2 p' f2 k2 hnr2
    refine (ih.run s2 ch₀ a p' f2 hnr2).mono ?_
    rintro s' _ ⟨h1, h2, h3⟩
    exact ⟨h1, k2.trans h2, h3⟩
  cases p with
  | ret v => unfold buRun; exact ⟨h, Keeps.refl _ _, hnr⟩
  | panic => unfold buRun; exact h.nrd
  | req t c k =>
    unfold buRun
    have key := ih.require s ch₀ a t c h hnr
    split
    next s2 k' heq => exact key.abort heq
    next s2 out heq =>
      obtain ⟨f2, k2, hnr2⟩ := key.ok heq
      exact cont s2 _ f2 k2 hnr2
  | read r c k =>
    unfold buRun
    have key := h.doRead sem r c
    split
    next s2 k' heq => rw [heq] at key; exact key.1.nrd
    next s2 x heq => rw [heq] at key; exact cont s2 _ key.1 key.2.1 (key.2.2 hnr)
  | write r c v k =>
    unfold buRun
    have key := h.doWrite sem r c v
    split
    next s2 k' heq => rw [heq] at key; exact key.1.nrd
    next s2 x heq => rw [heq] at key; exact cont s2 _ key.1 key.2.1 (key.2.2 hnr)
  | wrote r c v k =>
    unfold buRun
    have key := h.doWrote sem r c v
    split
    next s2 k' heq => rw [heq] at key; exact key.1.nrd
    next s2 x heq => rw [heq] at key; exact cont s2 _ key.1 key.2.1 (key.2.2 hnr)

theorem buStack (f : Nat) : BuStack sem body f := by
  induction f with
  | zero => exact BuStack.zero sem body
  | succ f ih =>
    exact ⟨ih.require_succ sem body, ih.make_succ sem body, ih.exec_succ sem body,
      ih.execAndSchedule_succ sem body, ih.requireNow_succ sem body, ih.run_succ sem body⟩

end PieModel
