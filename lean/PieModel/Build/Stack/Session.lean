/-
The executing-stack invariant at the level of sessions: `sessionRequire`, `requireAll`.
Between builds the logical call stack is empty; what remains is `SessOK`: a well-formed
session in which tasks with output have no `reserved` dependency and consistent tasks have an
output.
-/
import PieModel.Build.Stack.TopDown
import PieModel.Build.SessWFBottomUp
import PieModel.Build.Proofs.TopDownExt

namespace PieModel

variable (sem : Sem) (body : Nat → Prog)

/-- The invariant between builds. -/
structure SessOK (s : Sess) : Prop where
  wf : SessWF s
  done : Done s

theorem Frames.sessOK {s : Sess} {ch : List Nat} (h : Frames s ch) : SessOK s := ⟨h.wf, h.done⟩

/-- With `cur` cleared, `SessOK` is the stack invariant for the empty stack. -/
theorem SessOK.frames {s : Sess} (h : SessOK s) : Frames { s with cur := none } [] :=
  ⟨h.wf.clearCur.wf, fun _ hn => (nomatch hn), fun _ hn => (nomatch hn), List.Pairwise.nil, rfl,
    h.done.nrd, h.done.cons⟩

theorem Frames.nil_iff {s : Sess} : Frames s [] ↔ SessOK s ∧ s.cur = none := by
  constructor
  · intro h; exact ⟨h.sessOK, h.cur⟩
  · rintro ⟨h, hc⟩
    exact ⟨h.wf, fun _ hn => (nomatch hn), fun _ hn => (nomatch hn), List.Pairwise.nil, hc,
      h.done.nrd, h.done.cons⟩

/-- A new session on a well-formed store without `reserved` dependencies of completed tasks. -/
theorem sessOK_newSession (p : PieSt) (hw : p.store.WF) (hn : p.store.NoReservedDone) :
    SessOK p.newSession :=
  ⟨⟨hw, fun _ h => (nomatch h), fun _ h => (nomatch h)⟩, hn, fun _ h => (nomatch h)⟩

/-- The trace invariant holds for the empty trace. -/
theorem trc_of_trace_nil {s : Sess} (h : s.trace = []) : Trc s [] := by
  refine ⟨fun t => by rw [h]; simp, fun t ht => ?_, fun n hn => ?_⟩
  · rw [h] at ht; simp at ht
  · simp [Store.execStack] at hn

variable {T : Prop}

theorem StkPost.done {α : Type} {P : Sess → α → Prop} {x : Sess × Res α} (h : StkPost T P x)
    (hp : ∀ s' v, P s' v → Done s') : Done x.1 := by
  obtain ⟨s', r⟩ := x
  cases r with
  | ok v => exact hp s' v h
  | abort k => exact h.2.1

theorem StkPost.once {α : Type} {P : Sess → α → Prop} {x : Sess × Res α} (h : StkPost T P x) (hT : T)
    (hp : ∀ s' v, P s' v → ∀ t, countExec t s'.trace ≤ 1) : ∀ t, countExec t x.1.trace ≤ 1 := by
  obtain ⟨s', r⟩ := x
  cases r with
  | ok v => exact hp s' v h
  | abort k => exact h.2.2 hT

theorem StkPost.no_bug {α : Type} {P : Sess → α → Prop} {x : Sess × Res α} (h : StkPost T P x)
    (n : Nat) : x.2 ≠ .abort (.bug n) := by
  obtain ⟨s', r⟩ := x
  cases r with
  | ok v => simp
  | abort k => intro hh; cases hh; exact h.1 n rfl

/-- `Session::require`: from `SessOK` to `Frames _ []` (if it returns) or `AbortOK`. -/
theorem sessionRequire_stack (fuel : Nat) (s : Sess) (t : Nat) (h : SessOK s)
    (hT : T → Trc s []) :
    StkPost T (fun s' _ => Frames s' [] ∧ (T → Trc s' []))
      (sessionRequire sem body fuel s t) := by
  unfold sessionRequire; simp only []
  have f0 : Frames (({ s with cur := none } : Sess).emit .buildStart) [] := h.frames.emit _
  have t0 : T → Trc (({ s with cur := none } : Sess).emit .buildStart) [] := fun hT' =>
    (((hT hT').of_eq (s' := { s with cur := none }) rfl rfl fun _ => rfl).emit _ fun _ => rfl)
  have key := (tdStack sem body (T := T) fuel).require _ [] none t alwaysChecker f0 t0 rfl
    (fun _ => rfl) (fun a ha => nomatch ha)
  split
  next s2 a heq => exact key.abort heq
  next s2 o heq =>
    obtain ⟨f2, t2, _, _⟩ := key.ok heq
    exact ⟨f2.emit _, fun hT' => (t2 hT').emit _ fun _ => rfl⟩

/-- Requiring a list of roots in one session. -/
theorem requireAll_stack (fuel : Nat) (ts : List Nat) : ∀ (s : Sess), SessOK s → (T → Trc s []) →
    StkPost T (fun s' _ => SessOK s' ∧ (T → Trc s' [])) (requireAll sem body fuel s ts) := by
  induction ts with
  | nil => intro s h hT; unfold requireAll; exact ⟨h, hT⟩
  | cons t ts ih =>
    intro s h hT
    unfold requireAll
    have key := sessionRequire_stack sem body fuel s t h hT
    split
    next s2 a heq => exact key.abort heq
    next s2 o heq =>
      obtain ⟨f2, t2⟩ := key.ok heq
      have key2 := ih s2 f2.sessOK t2
      split
      next s3 a heq3 => exact key2.abort heq3
      next s3 os heq3 => exact key2.ok heq3

/-! ### consequences -/

/-- No internal-invariant abort in a top-down build started between builds. -/
theorem sessionRequire_no_bug (fuel : Nat) {s : Sess} (h : SessOK s) (t n : Nat) :
    (sessionRequire sem body fuel s t).2 ≠ .abort (.bug n) :=
  (sessionRequire_stack (T := False) sem body fuel s t h (fun hf => nomatch hf)).no_bug n

theorem requireAll_no_bug (fuel : Nat) {s : Sess} (h : SessOK s) (ts : List Nat) (n : Nat) :
    (requireAll sem body fuel s ts).2 ≠ .abort (.bug n) :=
  (requireAll_stack (T := False) sem body fuel ts s h (fun hf => nomatch hf)).no_bug n

/-- `SessOK` is kept by `sessionRequire`/`requireAll`, whatever the result. -/
theorem sessionRequire_sessOK (fuel : Nat) {s : Sess} (h : SessOK s) (t : Nat) :
    SessOK (sessionRequire sem body fuel s t).1 :=
  ⟨(sessionRequire_ext sem body fuel h.wf t).wf,
    (sessionRequire_stack (T := False) sem body fuel s t h (fun hf => nomatch hf)).done
      fun _ _ hp => hp.1.done⟩

theorem requireAll_sessOK (fuel : Nat) {s : Sess} (h : SessOK s) (ts : List Nat) :
    SessOK (requireAll sem body fuel s ts).1 :=
  ⟨(requireAll_ext sem body fuel ts h.wf).wf,
    (requireAll_stack (T := False) sem body fuel ts s h (fun hf => nomatch hf)).done
      fun _ _ hp => hp.1.done⟩

/-- Every task is executed at most once in a session that starts with an empty trace. -/
theorem requireAll_once (fuel : Nat) {s : Sess} (h : SessOK s) (htr : s.trace = []) (ts : List Nat)
    (t : Nat) : countExec t (requireAll sem body fuel s ts).1.trace ≤ 1 :=
  (requireAll_stack (T := True) sem body fuel ts s h (fun _ => trc_of_trace_nil htr)).once trivial
    (fun _ _ hp => (hp.2 trivial).once) t

/-- A task on the stack of executing tasks is not entered again by a call whose post-condition
bounds every count by one. -/
theorem no_reentry_of_post {α : Type} {P : Sess → α → Prop} {s : Sess} {ch : List Nat}
    {F : Sess × Res α} (hpost : StkPost True P F)
    (hp : ∀ s' v, P s' v → ∀ t, countExec t s'.trace ≤ 1) (hext : s.Ext F.1) (htr : Trc s ch)
    {n t : Nat} (hn : n ∈ s.store.execStack ch) (ht : s.store.taskOf n = some t) :
    countExec t F.1.trace = countExec t s.trace := by
  obtain ⟨t', ht', hc⟩ := htr.onstk n hn
  rw [ht] at ht'; cases ht'
  have h1 := hpost.once trivial hp t
  obtain ⟨evs, he⟩ := hext.trace_prefix
  have h2 : countExec t s.trace ≤ countExec t F.1.trace :=
    countExec_le_of_prefix t ⟨evs, he.symm⟩
  omega

end PieModel
