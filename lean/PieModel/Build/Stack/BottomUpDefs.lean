/-
The executing-stack invariant for the bottom-up build: definitions and the scheduling functions.

In a bottom-up build there are no validating frames, but an executing task may be marked
consistent (it was executed on a require and is then popped from the queue), so the invariant
of the top-down build is used on the session with `consistent` erased (`Sess.noCons`), plus
"a consistent task is executing or has an output" (`BFrames.consX`).
-/
import PieModel.Build.Stack.Prims
import PieModel.Build.SessWFBottomUp
import PieModel.Build.Proofs.CurLemmas

namespace PieModel

/-- The session with `consistent` erased. -/
def Sess.noCons (s : Sess) : Sess := { s with consistent := [] }

@[simp] theorem Sess.store_noCons (s : Sess) : s.noCons.store = s.store := rfl
@[simp] theorem Sess.cur_noCons (s : Sess) : s.noCons.cur = s.cur := rfl
@[simp] theorem Sess.queue_noCons (s : Sess) : s.noCons.queue = s.queue := rfl
@[simp] theorem Sess.trace_noCons (s : Sess) : s.noCons.trace = s.trace := rfl
@[simp] theorem Sess.consistent_noCons (s : Sess) : s.noCons.consistent = [] := rfl

theorem Sess.noCons_markConsistent (s : Sess) (n : Nat) : (s.markConsistent n).noCons = s.noCons := by
  unfold Sess.markConsistent; split <;> rfl

theorem sessWF_noCons {s : Sess} : SessWF s.noCons ↔ SessWF s :=
  ⟨fun h => (h.same (s' := s) rfl rfl rfl).wf, fun h => (h.same (s' := s.noCons) rfl rfl rfl).wf⟩

/-- `Frames` depends on the queue through `SessWF` only. -/
theorem Frames.of_wf {s s' : Sess} {ch : List Nat} (h : Frames s ch) (hw : SessWF s')
    (h1 : s'.store = s.store) (h2 : s'.cur = s.cur) (h3 : s'.consistent = s.consistent) :
    Frames s' ch :=
  ⟨hw, by rw [h1]; exact h.task, by rw [h3]; exact h.fresh, by rw [h1]; exact h.path,
    by rw [h1, h2]; exact h.cur, by rw [h1]; exact h.nrd, by rw [h1, h3]; exact h.cons⟩

/-- The invariant of the bottom-up build: `ch` is the stack of executing tasks. -/
structure BFrames (s : Sess) (ch : List Nat) : Prop where
  core : Frames s.noCons ch
  noOut : ∀ n ∈ ch, s.store.taskOutput n = none
  consX : ∀ n ∈ s.consistent, n ∈ ch ∨ s.store.taskOutput n ≠ none

namespace BFrames
variable {s s' : Sess} {ch : List Nat}

theorem wf (h : BFrames s ch) : SessWF s := sessWF_noCons.mp h.core.wf

theorem nrd (h : BFrames s ch) : s.store.NoReservedDone := h.core.nrd

theorem execStack_eq (h : BFrames s ch) : s.store.execStack ch = ch := by
  unfold Store.execStack
  rw [List.filter_eq_self]
  intro n hn; rw [h.noOut n hn]; rfl

theorem cur_eq (h : BFrames s ch) : s.cur = ch.getLast? := by
  have := h.core.cur
  rwa [Sess.store_noCons, h.execStack_eq] at this

/-- Only `store`, `cur`, `consistent` matter, given `SessWF`. -/
theorem of_same (h : BFrames s ch) (hw : SessWF s') (h1 : s'.store = s.store)
    (h2 : s'.cur = s.cur) (h3 : s'.consistent = s.consistent) : BFrames s' ch :=
  ⟨h.core.of_wf (sessWF_noCons.mpr hw) h1 h2 rfl, by rw [h1]; exact h.noOut,
    by rw [h1, h3]; exact h.consX⟩

theorem emit (h : BFrames s ch) (e : Ev) : BFrames (s.emit e) ch :=
  h.of_same (h.wf.emit e) rfl rfl rfl

/-- Marking a node with output consistent. -/
theorem markConsistent (h : BFrames s ch) {n : Nat} (ho : s.store.taskOutput n ≠ none) :
    BFrames (s.markConsistent n) ch := by
  refine ⟨by rw [Sess.noCons_markConsistent]; exact h.core, by simpa using h.noOut, ?_⟩
  intro x hx
  rw [Sess.store_markConsistent]
  rcases (Sess.mem_markConsistent s n x).mp hx with hx | rfl
  · exact h.consX x hx
  · exact .inr ho

/-- A new core with the same outputs on all nodes. -/
theorem of_core (h : BFrames s ch) (hc : Frames s'.noCons ch)
    (ho : ∀ n, s'.store.taskOutput n = s.store.taskOutput n)
    (h3 : s'.consistent = s.consistent) : BFrames s' ch :=
  ⟨hc, fun n hn => by rw [ho]; exact h.noOut n hn, by
    intro n hn; rw [h3] at hn; rw [ho]; exact h.consX n hn⟩

end BFrames

/-! ### the scheduling functions touch neither store, `cur` nor `consistent` -/

variable (sem : Sem)

/-- `s'` has the store, current task and consistent set of `s`. -/
def SameCore (s s' : Sess) : Prop :=
  s'.store = s.store ∧ s'.cur = s.cur ∧ s'.consistent = s.consistent

theorem SameCore.refl (s : Sess) : SameCore s s := ⟨rfl, rfl, rfl⟩

theorem SameCore.emit (s : Sess) (e : Ev) : SameCore s (s.emit e) := ⟨rfl, rfl, rfl⟩

theorem SameCore.trans {a b c : Sess} (h₁ : SameCore a b) (h₂ : SameCore b c) : SameCore a c :=
  ⟨h₂.1.trans h₁.1, h₂.2.1.trans h₁.2.1, h₂.2.2.trans h₁.2.2⟩

theorem SameCore.foldl {α : Type} (g : Sess → α → Sess) (hg : ∀ (s : Sess) x, SameCore s (g s x))
    (l : List α) (s : Sess) : SameCore s (l.foldl g s) := by
  induction l generalizing s with
  | nil => exact SameCore.refl s
  | cons x l ih => exact (hg s x).trans (ih _)

theorem sameCore_trySchedule (s : Sess) (tnode : Nat) (d : Dep) :
    SameCore s (trySchedule sem s tnode d) := by
  cases ht : s.store.taskOf tnode with
  | none => rw [trySchedule_other sem s tnode d (.inl ht)]; exact SameCore.refl s
  | some t =>
    cases d with
    | reserved => rw [trySchedule_other sem s tnode _ (.inr (.inl rfl))]; exact SameCore.refl s
    | require t' c stamp =>
      rw [trySchedule_other sem s tnode _ (.inr (.inr ⟨_, _, _, rfl⟩))]; exact SameCore.refl s
    | read r c stamp =>
      rw [trySchedule_read sem s tnode t r c stamp ht]; split <;> exact ⟨rfl, rfl, rfl⟩
    | write r c stamp =>
      rw [trySchedule_write sem s tnode t r c stamp ht]; split <;> exact ⟨rfl, rfl, rfl⟩

theorem sameCore_writtenSchedStep (s : Sess) (w : Nat) : SameCore s (writtenSchedStep sem s w) := by
  unfold writtenSchedStep
  split
  · exact SameCore.refl s
  next r _ =>
    have h1 : SameCore s (s.emit (.schedResStart r)) := ⟨rfl, rfl, rfl⟩
    have h2 := SameCore.foldl (fun s (p : Nat × Dep) => trySchedule sem s p.1 p.2)
      (fun s p => sameCore_trySchedule sem s p.1 p.2)
      ((s.emit (.schedResStart r)).store.readDepsTo w) (s.emit (.schedResStart r))
    exact (h1.trans h2).trans ⟨rfl, rfl, rfl⟩

theorem sameCore_reqSchedStep (out : Int) (s : Sess) (p : Nat × Dep) :
    SameCore s (reqSchedStep sem out s p) := by
  unfold reqSchedStep
  split
  · simp only; split <;> exact ⟨rfl, rfl, rfl⟩
  · exact SameCore.refl s

/-- `scheduleAfterExec` = something with the same core, then `markConsistent node`. -/
theorem scheduleAfterExec_core (s : Sess) (node t : Nat) (out : Int) :
    ∃ s₃, SameCore s s₃ ∧ scheduleAfterExec sem s node t out = s₃.markConsistent node := by
  rw [scheduleAfterExec_eq]
  refine ⟨_, ?_, rfl⟩
  have h1 := SameCore.foldl (writtenSchedStep sem) (sameCore_writtenSchedStep sem)
    (s.store.resourcesWrittenBy node) s
  have h2 := SameCore.emit ((s.store.resourcesWrittenBy node).foldl (writtenSchedStep sem) s)
    (.schedTaskStart t)
  have h3 := SameCore.foldl (reqSchedStep sem out) (sameCore_reqSchedStep sem out)
    ((((s.store.resourcesWrittenBy node).foldl (writtenSchedStep sem) s).emit
      (.schedTaskStart t)).store.requireDepsTo node)
    (((s.store.resourcesWrittenBy node).foldl (writtenSchedStep sem) s).emit (.schedTaskStart t))
  exact ((h1.trans h2).trans h3).trans (SameCore.emit _ _)

theorem BFrames.scheduleAfterExec {s : Sess} {ch : List Nat} (h : BFrames s ch) {node : Nat}
    (t : Nat) (out : Int) (ho : s.store.taskOutput node ≠ none) :
    BFrames (scheduleAfterExec sem s node t out) ch ∧
      (scheduleAfterExec sem s node t out).store = s.store := by
  obtain ⟨s₃, hc, he⟩ := scheduleAfterExec_core sem s node t out
  have hw := (scheduleAfterExec_ext sem h.wf node t out).wf
  rw [he] at hw ⊢
  have hw3 : SessWF s₃ := (hw.same (s' := s₃) (by simp) (by simp) (by simp)).wf
  exact ⟨(h.of_same hw3 hc.1 hc.2.1 hc.2.2).markConsistent (by rw [hc.1]; exact ho),
    by rw [Sess.store_markConsistent]; exact hc.1⟩

/-- `scheduleAffectedBy` only looks up / creates the resource node. -/
theorem scheduleAffectedBy_core (s : Sess) (r : Nat) :
    (scheduleAffectedBy sem s r).store = (s.store.getOrCreateResNode r).1 ∧
    (scheduleAffectedBy sem s r).cur = s.cur ∧
    (scheduleAffectedBy sem s r).consistent = s.consistent := by
  unfold scheduleAffectedBy; simp only []
  have h2 := SameCore.foldl (fun s (p : Nat × Dep) => trySchedule sem s p.1 p.2)
    (fun s p => sameCore_trySchedule sem s p.1 p.2)
    ((s.store.getOrCreateResNode r).1.readWriteDepsTo (s.store.getOrCreateResNode r).2)
    { s.emit (.schedResStart r) with store := (s.store.getOrCreateResNode r).1 }
  exact ⟨h2.1, h2.2.1, h2.2.2⟩

end PieModel
