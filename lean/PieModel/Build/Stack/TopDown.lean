/-
The executing-stack invariant is maintained by the top-down build: joint induction on fuel over
`tdRequire`, `tdMake`, `tdCheck`, `tdCheckDeps`, `tdRun`.

For each function: from `Frames s ch` (plus the link of the call to the innermost frame)
* if the call returns, `Frames s' ch` holds again, the outgoing edges and outputs of all frames
  are untouched (`Keeps`), and — for `tdRequire`/`tdRun` — the current task has no `reserved`
  dependency left;
* if the call aborts, the abort is not an internal-invariant (`bug`) abort and the state still
  satisfies `Done` (tasks with output have no `reserved` dependency, consistent tasks have an
  output).
The trace invariant `Trc` is carried along under an arbitrary guard `T` (`T := True` for
sessions starting with an empty trace, `T := False` to forget about it).
-/
import PieModel.Build.Stack.Prims
import PieModel.Build.Proofs.CurLemmas

namespace PieModel

variable (sem : Sem) (body : Nat → Prog) (T : Prop)

/-- What holds at an abort point. -/
def AbortOK (s' : Sess) (k : Abort) : Prop :=
  (∀ n, k ≠ .bug n) ∧ Done s' ∧ (T → ∀ t, countExec t s'.trace ≤ 1)

/-- StkPost-condition of a call: `P` if it returns, `AbortOK` if it aborts. -/
def StkPost {α : Type} (P : Sess → α → Prop) : Sess × Res α → Prop
  | (s', .ok v) => P s' v
  | (s', .abort k) => AbortOK T s' k

variable {T}

theorem StkPost.mono {α : Type} {P Q : Sess → α → Prop} {x : Sess × Res α} (h : StkPost T P x)
    (hpq : ∀ s' v, P s' v → Q s' v) : StkPost T Q x := by
  obtain ⟨s', r⟩ := x
  cases r with
  | ok v => exact hpq s' v h
  | abort k => exact h

theorem StkPost.ok {α : Type} {P : Sess → α → Prop} {F : Sess × Res α} {s' : Sess} {v : α}
    (h : StkPost T P F) (heq : F = (s', .ok v)) : P s' v := by rw [heq] at h; exact h

theorem StkPost.abort {α : Type} {P : Sess → α → Prop} {F : Sess × Res α} {s' : Sess} {k : Abort}
    (h : StkPost T P F) (heq : F = (s', .abort k)) : AbortOK T s' k := by rw [heq] at h; exact h

theorem abortOK_of {s' : Sess} {ch : List Nat} {k : Abort} (hk : ∀ n, k ≠ .bug n)
    (hf : Frames s' ch) (ht : T → Trc s' ch) : AbortOK T s' k :=
  ⟨hk, hf.done, fun h => (ht h).once⟩

variable (T)

/-- The joint statement for fuel `f`. -/
structure TdStack (f : Nat) : Prop where
  require : ∀ (s : Sess) (ch₀ : List Nat) (top : Option Nat) (t c : Nat),
    Frames s (ch₀ ++ top.toList) → (T → Trc s (ch₀ ++ top.toList)) → s.cur = top →
    (top = none → ch₀ = []) → (∀ a, top = some a → Dep.reserved ∉ s.store.depsFrom a) →
    StkPost T (fun s' _ => Frames s' (ch₀ ++ top.toList) ∧ (T → Trc s' (ch₀ ++ top.toList)) ∧
      Keeps ch₀ s s' ∧ ∀ a, top = some a → Dep.reserved ∉ s'.store.depsFrom a)
      (tdRequire sem body f s t c)
  make : ∀ (s : Sess) (ch : List Nat) (t : Nat),
    Frames s ch → (T → Trc s ch) →
    (ch ≠ [] → ∃ node, s.store.taskOf node = some t ∧ ∀ x ∈ ch, s.store.g.Reach x node) →
    StkPost T (fun s' _ => Frames s' ch ∧ (T → Trc s' ch) ∧ Keeps ch s s') (tdMake sem body f s t)
  check : ∀ (s : Sess) (ch : List Nat) (node t : Nat),
    Frames s ch → (T → Trc s ch) → s.store.taskOf node = some t → node ∉ s.consistent →
    (∀ x ∈ ch, s.store.g.Reach x node) →
    StkPost T (fun s' o => Frames s' ch ∧ (T → Trc s' ch) ∧ Keeps ch s s' ∧ node ∉ s'.consistent ∧
      (∀ x ∈ ch, s'.store.g.Reach x node) ∧ ∀ v, o = some v → s'.store.taskOutput node = some v)
      (tdCheck sem body f s node)
  checkDeps : ∀ (s : Sess) (ch : List Nat) (m : Nat) (ds : List Dep),
    Frames s (ch ++ [m]) → (T → Trc s (ch ++ [m])) → s.store.taskOutput m ≠ none →
    (∃ pre, s.store.depsFrom m = pre ++ ds) →
    StkPost T (fun s' _ => Frames s' (ch ++ [m]) ∧ (T → Trc s' (ch ++ [m])) ∧ Keeps (ch ++ [m]) s s')
      (tdCheckDeps sem body f s ds)
  run : ∀ (s : Sess) (ch₀ : List Nat) (a : Nat) (p : Prog),
    Frames s (ch₀ ++ [a]) → (T → Trc s (ch₀ ++ [a])) → s.cur = some a →
    Dep.reserved ∉ s.store.depsFrom a →
    StkPost T (fun s' _ => Frames s' (ch₀ ++ [a]) ∧ (T → Trc s' (ch₀ ++ [a])) ∧ Keeps ch₀ s s' ∧
      Dep.reserved ∉ s'.store.depsFrom a) (tdRun sem body f s p)

variable {T}

theorem outOfFuel_ok {s : Sess} {ch : List Nat} (h : Frames s ch) (hT : T → Trc s ch) :
    AbortOK T s .outOfFuel := abortOK_of (by simp) h hT

theorem TdStack.zero : TdStack sem body T 0 := by
  refine ⟨?_, ?_, ?_, ?_, ?_⟩
  · intro s ch₀ top t c h hT _ _ _; unfold tdRequire; exact outOfFuel_ok h hT
  · intro s ch t h hT _; unfold tdMake; exact outOfFuel_ok h hT
  · intro s ch n t h hT _ _ _; unfold tdCheck; exact outOfFuel_ok h hT
  · intro s ch m ds h hT _ _; unfold tdCheckDeps; exact outOfFuel_ok h hT
  · intro s ch₀ a p h hT _ _; unfold tdRun; exact outOfFuel_ok h hT

/-! ### `tdCheck` -/

theorem TdStack.check_succ {f : Nat} (ih : TdStack sem body T f) (s : Sess) (ch : List Nat)
    (node t : Nat) (h : Frames s ch) (hT : T → Trc s ch) (ht : s.store.taskOf node = some t)
    (hnc : node ∉ s.consistent) (hr : ∀ x ∈ ch, s.store.g.Reach x node) :
    StkPost T (fun s' o => Frames s' ch ∧ (T → Trc s' ch) ∧ Keeps ch s s' ∧ node ∉ s'.consistent ∧
      (∀ x ∈ ch, s'.store.g.Reach x node) ∧ ∀ v, o = some v → s'.store.taskOutput node = some v)
      (tdCheck sem body (f + 1) s node) := by
  unfold tdCheck
  split
  · exact ⟨h, hT, Keeps.refl _ _, hnc, hr, fun v hv => nomatch hv⟩
  next o0 ho0 =>
    have hne : s.store.taskOutput node ≠ none := by rw [ho0]; simp
    have hp := h.push_validating ht hne hnc hr
    have key := ih.checkDeps s ch node (s.store.depsFrom node) hp
      (fun hT' => (hT hT').push_validating hne) hne ⟨[], rfl⟩
    have fin : ∀ s2 (b : Bool), Frames s2 (ch ++ [node]) ∧ (T → Trc s2 (ch ++ [node])) ∧
        Keeps (ch ++ [node]) s s2 → Frames s2 ch ∧ (T → Trc s2 ch) ∧ Keeps ch s s2 ∧
          node ∉ s2.consistent ∧ (∀ x ∈ ch, s2.store.g.Reach x node) ∧
          s2.store.taskOutput node ≠ none := by
      rintro s2 _ ⟨f2, t2, k2⟩
      have ho2 : s2.store.taskOutput node ≠ none := by rw [(k2 node (by simp)).2]; exact hne
      exact ⟨f2.pop_validating ho2, fun hT' => (t2 hT').pop_validating ho2,
        k2.mono (fun n hn => List.mem_append_left _ hn), f2.fresh node (by simp),
        fun x hx => (List.pairwise_append.mp f2.path).2.2 x hx node (by simp), ho2⟩
    split
    next s2 a heq => rw [heq] at key; exact key
    next s2 heq =>
      rw [heq] at key
      obtain ⟨h1, h2, h3, h4, h5, _⟩ := fin s2 false key
      exact ⟨h1, h2, h3, h4, h5, fun v hv => nomatch hv⟩
    next s2 heq =>
      rw [heq] at key
      obtain ⟨h1, h2, h3, h4, h5, _⟩ := fin s2 true key
      exact ⟨h1, h2, h3, h4, h5, fun v hv => hv⟩

/-! ### `tdCheckDeps` -/

theorem Frames.resCheckEvents {s : Sess} {ch : List Nat} (h : Frames s ch) (r c : Nat)
    (stamp : Stamp) (res : Except Int Bool) : Frames (resCheckEvents s r c stamp res) ch :=
  (h.emit _).emit _

theorem Trc.resCheckEvents {s : Sess} {ch : List Nat} (h : Trc s ch) (r c : Nat)
    (stamp : Stamp) (res : Except Int Bool) : Trc (resCheckEvents s r c stamp res) ch :=
  (h.emit _ fun _ => rfl).emit _ fun _ => rfl

/-- A resource dependency in the check loop: two events, possibly an error recorded; then the
rest of the loop (`rest`) or `false`. -/
theorem TdStack.checkDeps_res {f : Nat} (ih : TdStack sem body T f) (s : Sess) (ch : List Nat)
    (m : Nat) (d : Dep) (ds : List Dep) (r c : Nat) (stamp : Stamp)
    (h : Frames s (ch ++ [m])) (hT : T → Trc s (ch ++ [m])) (ho : s.store.taskOutput m ≠ none)
    (hpre : ∃ pre, s.store.depsFrom m = pre ++ d :: ds) :
    StkPost T (fun s' _ => Frames s' (ch ++ [m]) ∧ (T → Trc s' (ch ++ [m])) ∧ Keeps (ch ++ [m]) s s')
      (match sem.rcheck c (s.content r) stamp with
      | .ok true => tdCheckDeps sem body f (resCheckEvents s r c stamp (.ok true)) ds
      | .ok false => (resCheckEvents s r c stamp (.ok false), .ok false)
      | .error e =>
        ({ resCheckEvents s r c stamp (.error e) with errors := s.errors ++ [e] }, .ok false)) := by
  split
  · obtain ⟨pre, hp⟩ := hpre
    refine (ih.checkDeps _ ch m ds (h.resCheckEvents r c stamp _)
      (fun hT' => (hT hT').resCheckEvents r c stamp _) ho ⟨pre ++ [d], by
        show s.store.depsFrom m = _
        rw [hp]; simp⟩).mono ?_
    rintro s' _ ⟨h1, h2, h3⟩
    exact ⟨h1, h2, (Keeps.of_store (s := s) rfl).trans h3⟩
  · exact ⟨h.resCheckEvents r c stamp _, fun hT' => (hT hT').resCheckEvents r c stamp _,
      Keeps.of_store rfl⟩
  next e _ =>
    exact ⟨(h.resCheckEvents r c stamp (.error e)).of_eq rfl rfl rfl rfl,
      fun hT' => ((hT hT').resCheckEvents r c stamp (.error e)).of_eq rfl rfl fun _ => rfl,
      Keeps.of_store rfl⟩

theorem TdStack.checkDeps_succ {f : Nat} (ih : TdStack sem body T f) (s : Sess) (ch : List Nat)
    (m : Nat) (ds : List Dep) (h : Frames s (ch ++ [m])) (hT : T → Trc s (ch ++ [m]))
    (ho : s.store.taskOutput m ≠ none) (hpre : ∃ pre, s.store.depsFrom m = pre ++ ds) :
    StkPost T (fun s' _ => Frames s' (ch ++ [m]) ∧ (T → Trc s' (ch ++ [m])) ∧ Keeps (ch ++ [m]) s s')
      (tdCheckDeps sem body (f + 1) s ds) := by
  cases ds with
  | nil => unfold tdCheckDeps; exact ⟨h, hT, Keeps.refl _ _⟩
  | cons d ds =>
    have hmem : d ∈ s.store.depsFrom m := by
      obtain ⟨pre, hp⟩ := hpre; rw [hp]; simp
    cases d with
    | reserved => exact absurd hmem (h.nrd m ho)
    | read r c stamp =>
      rw [tdCheckDeps_read]; exact ih.checkDeps_res sem body s ch m _ ds r c stamp h hT ho hpre
    | write r c stamp =>
      rw [tdCheckDeps_write]; exact ih.checkDeps_res sem body s ch m _ ds r c stamp h hT ho hpre
    | require t c stamp =>
      unfold tdCheckDeps; simp only []
      have hw := h.wf.store
      obtain ⟨dst, hdst⟩ := Store.mem_depsFrom_iff.mp hmem
      have hdt : s.store.taskOf dst = some t := (hw.mem_outgoingEdges_ok hdst).2
      have hmd : s.store.g.Reach m dst := Store.reach_of_mem_outgoingEdges hw hdst
      have hp := List.pairwise_append.mp h.path
      have f0 := h.emit (.checkTaskStart t c stamp)
      have key := ih.make _ (ch ++ [m]) t f0
        (fun hT' => (hT hT').emit _ fun _ => rfl)
        (fun _ => ⟨dst, hdt, fun x hx => by
          rcases List.mem_append.mp hx with hx | hx
          · exact (hp.2.2 x hx m (by simp)).trans hmd
          · simp at hx; subst hx; exact hmd⟩)
      split
      next s2 a heq => rw [heq] at key; exact key
      next s2 out heq =>
        rw [heq] at key
        obtain ⟨f2, t2, k2⟩ := key
        have k2' : Keeps (ch ++ [m]) s (s2.emit (.checkTaskEnd t c stamp (sem.ocheck c out stamp))) :=
          ((Keeps.of_store (s := s) rfl).trans k2).congr_right rfl
        split
        · obtain ⟨pre, hp'⟩ := hpre
          refine (ih.checkDeps _ ch m ds (f2.emit _) (fun hT' => (t2 hT').emit _ fun _ => rfl)
            (by show s2.store.taskOutput m ≠ none; rw [(k2 m (by simp)).2]; exact ho)
            ⟨pre ++ [.require t c stamp], by
              show s2.store.depsFrom m = _
              rw [k2.depsFrom (by simp)]
              show s.store.depsFrom m = _
              rw [hp']; simp⟩).mono ?_
          rintro s' _ ⟨h1, h2, h3⟩
          exact ⟨h1, h2, k2'.trans h3⟩
        · exact ⟨f2.emit _, fun hT' => (t2 hT').emit _ fun _ => rfl, k2'⟩

/-! ### `tdMake` -/

theorem TdStack.make_succ {f : Nat} (ih : TdStack sem body T f) (s : Sess) (ch : List Nat)
    (t : Nat) (h : Frames s ch) (hT : T → Trc s ch)
    (hl : ch ≠ [] → ∃ node, s.store.taskOf node = some t ∧ ∀ x ∈ ch, s.store.g.Reach x node) :
    StkPost T (fun s' _ => Frames s' ch ∧ (T → Trc s' ch) ∧ Keeps ch s s')
      (tdMake sem body (f + 1) s t) := by
  unfold tdMake; simp only []
  have hw := h.wf.store
  have f1 := h.getTask t
  have t1 : T → Trc _ ch := fun hT' => (hT hT').getTask hw t
  have k1 := keeps_getTask hw ch t
  have hd := Store.taskOf_getOrCreateTaskNode_self hw t
  have hr1 : ∀ x ∈ ch, (s.store.getOrCreateTaskNode t).1.g.Reach x
      (s.store.getOrCreateTaskNode t).2 := by
    intro x hx
    obtain ⟨node, hn, hrn⟩ := hl (List.ne_nil_of_mem hx)
    have : node = (s.store.getOrCreateTaskNode t).2 :=
      f1.wf.store.taskOf_inj ((Store.le_getOrCreateTaskNode hw t).task _ _ hn) hd
    rw [← this]; exact (Store.reach_getOrCreateTaskNode hw t x node).mpr (hrn x hx)
  have hnch : (s.store.getOrCreateTaskNode t).2 ∉ ch := f1.not_mem_of_reach hr1
  split
  next hcons =>
    split
    · exact ⟨f1, t1, k1⟩
    next hnone => exact absurd hnone (f1.cons _ hcons)
  next hncons =>
    have key := ih.check _ ch _ t f1 t1 hd hncons hr1
    split
    next s2 a heq => exact key.abort heq
    next s2 o heq =>
      obtain ⟨f2, t2, k2, hnc2, hr2, ho2⟩ := key.ok heq
      have hne : s2.store.taskOutput (s.store.getOrCreateTaskNode t).2 ≠ none := by
        rw [ho2 o rfl]; simp
      exact ⟨f2.markConsistent hnch hne, fun hT' => (t2 hT').markConsistent _,
        (k1.trans k2).congr_right (by simp)⟩
    next s2 heq =>
      obtain ⟨f2, t2, k2, hnc2, hr2, _⟩ := key.ok heq
      have e2 := (tdCheck_ext sem body f f1.wf _).out heq
      have hd2 := e2.le.task _ _ hd
      have f3 := (f2.pushExec hd2 hnc2 hr2).emit (.executeStart t)
      have t3 : T → Trc _ (ch ++ [(s.store.getOrCreateTaskNode t).2]) :=
        fun hT' => (t2 hT').pushExec f2 hd2 hnc2 hnch
      have k3 := keeps_pushExec_emit f2.wf.store hnch (.executeStart t)
      have hnr3 : Dep.reserved ∉ (s2.store.resetTask (s.store.getOrCreateTaskNode t).2).depsFrom
          (s.store.getOrCreateTaskNode t).2 := by
        rw [Store.depsFrom_resetTask f2.wf.store, if_pos rfl]; simp
      have key4 := ih.run _ ch _ (body t) f3 t3 rfl hnr3
      split
      next s4 a heq4 => exact key4.abort heq4
      next s4 o heq4 =>
        obtain ⟨f4, t4, k4, hnr4⟩ := key4.ok heq4
        have k24 : Keeps ch s2 s4 := k3.trans k4
        have e4 := (tdRun_ext sem body f f3.wf _).out heq4
        have hd3 : (s2.store.resetTask (s.store.getOrCreateTaskNode t).2).taskOf
            (s.store.getOrCreateTaskNode t).2 = some t := by
          rw [Store.taskOf_resetTask f2.wf.store]; exact hd2
        have hd4 : s4.store.taskOf (s.store.getOrCreateTaskNode t).2 = some t :=
          e4.le.task _ _ hd3
        have f5 := f4.popExec (s' := { ({ (s4.emit (.executeEnd t o)) with cur := s2.cur } : Sess)
            with store := s4.store.setTaskOutput (s.store.getOrCreateTaskNode t).2 o })
          hnr4 o rfl (by show s2.cur = _; rw [k24.execStack]; exact f2.cur) rfl rfl
        refine ⟨f5.markConsistent hnch ?_, fun hT' => ?_, ?_⟩
        · show (s4.store.setTaskOutput _ o).taskOutput _ ≠ none
          rw [Store.taskOutput_setTaskOutput_self hd4]; simp
        · refine (t4 hT').popExec hnch o (by simp) (fun x => Sess.mem_markConsistent _ _ x) ?_
          intro t'
          rw [Sess.trace_markConsistent]
          exact countExec_emit_of_not t' s4 _ rfl
        · exact ((k1.trans k2).trans k24).trans (keeps_popExec o (by simp) hnch)

/-! ### `tdRequire` -/

theorem TdStack.require_succ {f : Nat} (ih : TdStack sem body T f) (s : Sess) (ch₀ : List Nat)
    (top : Option Nat) (t c : Nat) (h : Frames s (ch₀ ++ top.toList))
    (hT : T → Trc s (ch₀ ++ top.toList)) (hc : s.cur = top) (hch : top = none → ch₀ = [])
    (hnr : ∀ a, top = some a → Dep.reserved ∉ s.store.depsFrom a) :
    StkPost T (fun s' _ => Frames s' (ch₀ ++ top.toList) ∧ (T → Trc s' (ch₀ ++ top.toList)) ∧
      Keeps ch₀ s s' ∧ ∀ a, top = some a → Dep.reserved ∉ s'.store.depsFrom a)
      (tdRequire sem body (f + 1) s t c) := by
  unfold tdRequire; simp only []
  have hw := h.wf.store
  have f0 := h.emit (.requireStart t c)
  have f1 := f0.getTask t
  have t1 : T → Trc _ (ch₀ ++ top.toList) :=
    fun hT' => ((hT hT').emit (.requireStart t c) fun _ => rfl).getTask hw t
  have k1 : Keeps ch₀ s _ :=
    (Keeps.of_store (s' := s.emit (.requireStart t c)) rfl).trans (keeps_getTask hw ch₀ t)
  have hd := Store.taskOf_getOrCreateTaskNode_self hw t
  split
  next s2 a heq =>
    obtain ⟨rfl, rfl⟩ := reserveRequire_abort f1 hd heq
    exact abortOK_of (by simp) f1 t1
  next s2 heq =>
    obtain ⟨f2, t2, k2, o2, tr2, c2, cur2, le2, e2⟩ := reserveRequire_ok f1 hc hd heq
    have hd2 : s2.store.taskOf (s.store.getOrCreateTaskNode t).2 = some t := le2.task _ _ hd
    have key := ih.make s2 (ch₀ ++ top.toList) t f2 (fun hT' => t2 _ (t1 hT')) (by
      intro hne
      cases top with
      | none => rw [hch rfl] at hne; exact absurd rfl hne
      | some a => exact ⟨_, hd2, (e2 a rfl).2.2⟩)
    split
    next s3 a heq3 => exact key.abort heq3
    next s3 out heq3 =>
      obtain ⟨f3, t3, k3⟩ := key.ok heq3
      have e3 := (tdMake_ext sem body f f2.wf t).out heq3
      have hd3 : s3.store.taskOf (s.store.getOrCreateTaskNode t).2 = some t := e3.le.task _ _ hd2
      have hc3 : s3.cur = top := by rw [cur_tdMake sem body heq3, cur2]; exact hc
      have hmem : ∀ a, top = some a → a ∈ ch₀ ++ top.toList := by
        intro a ha; subst ha; simp
      have hedge : ∀ a, top = some a → ∃ dep, ((s.store.getOrCreateTaskNode t).2, dep) ∈
          (s3.emit (.requireEnd t c (sem.ostamp c out) out)).store.g.outgoingEdges a := by
        intro a ha
        obtain ⟨dep, hdep⟩ := (e2 a ha).1
        exact ⟨dep, by
          show (_, dep) ∈ s3.store.g.outgoingEdges a
          rw [(k3 a (hmem a ha)).1]; exact hdep⟩
      have fin : ∀ s4 r4, updateRequire (s3.emit (.requireEnd t c (sem.ostamp c out) out))
          (s.store.getOrCreateTaskNode t).2 t c (sem.ostamp c out) = (s4, r4) →
          r4 = .ok () ∧ Frames s4 (ch₀ ++ top.toList) ∧ (T → Trc s4 (ch₀ ++ top.toList)) ∧
            Keeps ch₀ s s4 ∧ ∀ a, top = some a → Dep.reserved ∉ s4.store.depsFrom a := by
        intro s4 r4 heq4
        obtain ⟨hr4, f4, t4, k4, _, hdeps⟩ :=
          updateRequire_frames (f3.emit _) hc3 hd3 hedge heq4
        refine ⟨hr4, f4, fun hT' => t4 _ ((t3 hT').emit _ fun _ => rfl), ?_, ?_⟩
        · have k3' : Keeps ch₀ s2 s3 := k3.mono fun n hn => List.mem_append_left _ hn
          exact ((k1.trans k2).trans k3').trans ((Keeps.of_store (s := s3) rfl).trans k4)
        · intro a ha hres
          rcases hdeps a ha _ hres with hq | ⟨b, hb, hbm⟩
          · cases hq
          · change (b, Dep.reserved) ∈ s3.store.g.outgoingEdges a at hbm
            rw [(k3 a (hmem a ha)).1] at hbm
            rcases (e2 a ha).2.1 _ hbm with hbm | hbm
            · change (b, Dep.reserved) ∈ (s.store.getOrCreateTaskNode t).1.g.outgoingEdges a at hbm
              rw [Store.outgoingEdges_getOrCreateTaskNode hw] at hbm
              exact hnr a ha (Store.mem_depsFrom_iff.mpr ⟨b, hbm⟩)
            · cases hbm; exact hb rfl
      split
      next s4 a heq4 => obtain ⟨hr4, _⟩ := fin s4 _ heq4; cases hr4
      next s4 heq4 => exact (fin s4 _ heq4).2

/-! ### `tdRun` -/

theorem TdStack.run_succ {f : Nat} (ih : TdStack sem body T f) (s : Sess) (ch₀ : List Nat)
    (a : Nat) (p : Prog) (h : Frames s (ch₀ ++ [a])) (hT : T → Trc s (ch₀ ++ [a]))
    (hc : s.cur = some a) (hnr : Dep.reserved ∉ s.store.depsFrom a) :
    StkPost T (fun s' _ => Frames s' (ch₀ ++ [a]) ∧ (T → Trc s' (ch₀ ++ [a])) ∧ Keeps ch₀ s s' ∧
      Dep.reserved ∉ s'.store.depsFrom a) (tdRun sem body (f + 1) s p) := by
  -- the continuation after a step that kept the invariant
  have cont : ∀ (s2 : Sess) (p' : Prog), Frames s2 (ch₀ ++ [a]) → (T → Trc s2 (ch₀ ++ [a])) →
      Keeps ch₀ s s2 → Dep.reserved ∉ s2.store.depsFrom a → s2.cur = some a →
      StkPost T (fun s' _ => Frames s' (ch₀ ++ [a]) ∧ (T → Trc s' (ch₀ ++ [a])) ∧ Keeps ch₀ s s' ∧
        Dep.reserved ∉ s'.store.depsFrom a) (tdRun sem body f s2 p') := by
    intro s2 p' f2 t2 k2 hnr2 hc2
    refine (ih.run s2 ch₀ a p' f2 t2 hc2 hnr2).mono ?_
    rintro s' _ ⟨h1, h2, h3, h4⟩
    exact ⟨h1, h2, k2.trans h3, h4⟩
  cases p with
  | ret v => unfold tdRun; exact ⟨h, hT, Keeps.refl _ _, hnr⟩
  | panic => unfold tdRun; exact abortOK_of (by simp) h hT
  | req t c k =>
    unfold tdRun
    have key := ih.require s ch₀ (some a) t c h hT hc (fun hh => nomatch hh)
      (fun a' ha' => by cases ha'; exact hnr)
    split
    next s2 k' heq => exact key.abort heq
    next s2 out heq =>
      obtain ⟨f2, t2, k2, hnr2⟩ := key.ok heq
      exact cont s2 _ f2 t2 k2 (hnr2 a rfl) (by rw [cur_tdRequire sem body heq]; exact hc)
  | read r c k =>
    unfold tdRun
    have key := doRead_frames sem h hc r c
    split
    next s2 k' heq =>
      rw [heq] at key
      exact abortOK_of (doRead_no_bug sem h heq) key.1 fun hT' => key.2.1 _ (hT hT')
    next s2 x heq =>
      have hc2 := cur_of_fst (cur_doRead sem s r c) heq
      rw [heq] at key
      exact cont s2 _ key.1 (fun hT' => key.2.1 _ (hT hT')) key.2.2.1 (key.2.2.2 hnr)
        (by rw [hc2]; exact hc)
  | write r c v k =>
    unfold tdRun
    have key := doWrite_frames sem h hc r c v
    split
    next s2 k' heq =>
      rw [heq] at key
      exact abortOK_of (doWrite_no_bug sem h heq) key.1 fun hT' => key.2.1 _ (hT hT')
    next s2 x heq =>
      have hc2 := cur_of_fst (cur_doWrite sem s r c v) heq
      rw [heq] at key
      exact cont s2 _ key.1 (fun hT' => key.2.1 _ (hT hT')) key.2.2.1 (key.2.2.2 hnr)
        (by rw [hc2]; exact hc)
  | wrote r c v k =>
    unfold tdRun
    have key := doWrote_frames sem h hc r c v
    split
    next s2 k' heq =>
      rw [heq] at key
      exact abortOK_of (doWrote_no_bug sem h heq) key.1 fun hT' => key.2.1 _ (hT hT')
    next s2 x heq =>
      have hc2 := cur_of_fst (cur_doWrote sem s r c v) heq
      rw [heq] at key
      exact cont s2 _ key.1 (fun hT' => key.2.1 _ (hT hT')) key.2.2.1 (key.2.2.2 hnr)
        (by rw [hc2]; exact hc)

/-! ### the induction -/

theorem tdStack (f : Nat) : TdStack sem body T f := by
  induction f with
  | zero => exact TdStack.zero sem body
  | succ f ih =>
    exact ⟨ih.require_succ sem body, ih.make_succ sem body, ih.check_succ sem body,
      ih.checkDeps_succ sem body, ih.run_succ sem body⟩

end PieModel
