/-
Programs (task bodies as interaction trees), checker semantics, stamps, tracker events.

Tasks and resources are named by `Nat`s, task outputs and resource values are `Int`s
(the harness maps an output `n` to `Ok(n)` if `n ≥ 0` and `Err(n)` otherwise, so that all five
built-in output checkers of pie apply).  A resource's content is `Option Int` (absent/present).
User code is a parameter: `body : Nat → Prog`; a theorem quantifying over `body` quantifies over
all deterministic task programs with value-dependent dependency structure.
-/
namespace PieModel

/-- Stamps produced by checkers (the union of the stamp types used by the built-in checkers and
by the harness' checkers). -/
inductive Stamp
  | unit
  | int (n : Int)
  | optInt (o : Option Int)
  | bool (b : Bool)
deriving DecidableEq, Repr, Inhabited

/-- A task body: what a task does with its `Context`. Continuations are functions, so the
dependency structure may depend on every value seen so far.
* `req t c k`   — `Context::require(task t, output checker c)`; `k` gets the output.
* `read r c k`  — `Context::read(resource r, checker c)`; `k` gets the content seen through the
                   reader (`ok none` = absent) or the checker's error.
* `write r c v k` — `Context::write(r, c, |w| set/remove v)`.
* `wrote r c v k` — `create_writer(r)`, set/remove `v`, then `Context::written_to(r, c)`.
-/
inductive Prog
  | ret (v : Int)
  | panic
  | req (t c : Nat) (k : Int → Prog)
  | read (r c : Nat) (k : Except Int (Option Int) → Prog)
  | write (r c : Nat) (v : Option Int) (k : Except Int Unit → Prog)
  | wrote (r c : Nat) (v : Option Int) (k : Except Int Unit → Prog)

/-- Semantics of checkers, indexed by checker id. `ocheck`/`rcheck` return `true` for
*consistent*. Resource checkers may fail (`Except.error code`). -/
structure Sem where
  ostamp : Nat → Int → Stamp
  ocheck : Nat → Int → Stamp → Bool
  rstamp : Nat → Option Int → Except Int Stamp
  rcheck : Nat → Option Int → Stamp → Except Int Bool

/-- Tracker events: one constructor per method of `pie::tracker::Tracker` (23). -/
inductive Ev
  | buildStart | buildEnd
  | requireStart (t c : Nat) | requireEnd (t c : Nat) (s : Stamp) (o : Int)
  | readStart (r c : Nat) | readEnd (r c : Nat) (s : Stamp)
  | writeStart (r c : Nat) | writeEnd (r c : Nat) (s : Stamp)
  | checkTaskStart (t c : Nat) (s : Stamp) | checkTaskEnd (t c : Nat) (s : Stamp) (consistent : Bool)
  | checkResStart (r c : Nat) (s : Stamp) | checkResEnd (r c : Nat) (s : Stamp) (res : Except Int Bool)
  | executeStart (t : Nat) | executeEnd (t : Nat) (o : Int)
  | schedTaskStart (t : Nat) | schedTaskEnd (t : Nat)
  | checkReqStart (requiring c : Nat) (s : Stamp) | checkReqEnd (requiring c : Nat) (s : Stamp) (consistent : Bool)
  | schedResStart (r : Nat) | schedResEnd (r : Nat)
  | checkReadStart (reading c : Nat) (s : Stamp) | checkReadEnd (reading c : Nat) (s : Stamp) (res : Except Int Bool)
  | scheduleTask (t : Nat)

/-- Why a build aborted (a Rust panic). The state at the abort point is returned next to it. -/
inductive Abort
  | cyclic | hidden | overlap | taskPanic | bug (n : Nat) | outOfFuel
deriving DecidableEq, Repr

inductive Res (α : Type)
  | ok (a : α)
  | abort (k : Abort)

end PieModel
