/-
Static roles, session level: the step relation `RExt` (well-formed extension + `RolesInv` +
frame), the post-condition `Post` (`RExt` + no diagnosed violation), and the session primitives
`doRead`, `doWrite`, `doWrote`, `reserveRequire`, `updateRequire` under `RolesInv`:
they preserve the invariant, keep the accumulator of the executing task reflected, and never
abort with `cyclic` / `hidden` / `overlap`.
-/
import PieModel.Build.Roles
import PieModel.Build.SessWF
import PieModel.Build.Proofs.ValidateWrite

namespace PieModel

variable {ro : Roles}

/-! ### the step relation -/

/-- `s'` is a well-formed extension of `s` whose store satisfies `RolesInv`, and the outgoing
edges of task nodes of rank `< k` (except `ex`) are untouched. -/
structure RExt (ro : Roles) (k : Nat) (ex : Option Nat) (s s' : Sess) : Prop where
  ext : Ext s s'
  inv : RolesInv ro s'.store
  frame : FrameBelow ro k ex s.store s'.store

namespace RExt
variable {k k' : Nat} {ex : Option Nat} {s s₁ s' : Sess}

theorem wf (e : RExt ro k ex s s') : SessWF s' := e.ext.wf

theorem refl (h : SessWF s) (hi : RolesInv ro s.store) : RExt ro k ex s s :=
  ⟨Ext.refl h, hi, FrameBelow.refl _ _ _ _⟩

theorem trans (e₁ : RExt ro k ex s s₁) (e₂ : RExt ro k ex s₁ s') : RExt ro k ex s s' :=
  ⟨e₁.ext.trans e₂.ext, e₂.inv, e₁.frame.trans e₁.ext.le e₂.frame⟩

theorem mono (e : RExt ro k ex s s') (hk : k' ≤ k) : RExt ro k' ex s s' :=
  ⟨e.ext, e.inv, e.frame.mono hk⟩

theorem add (e : RExt ro k none s s') : RExt ro k ex s s' := ⟨e.ext, e.inv, e.frame.add⟩

theorem drop {x t : Nat} (e : RExt ro k (some x) s s') (hx : s.store.taskOf x = some t)
    (hk : k ≤ ro.rank t) : RExt ro k none s s' := ⟨e.ext, e.inv, e.frame.drop hx hk⟩

/-- A further step that does not touch store, `cur`, queue. -/
theorem same (e : RExt ro k ex s s₁) (h1 : s'.store = s₁.store) (h2 : s'.cur = s₁.cur)
    (h3 : s'.queue = s₁.queue) : RExt ro k ex s s' :=
  ⟨e.ext.same h1 h2 h3, h1 ▸ e.inv, h1 ▸ e.frame⟩

theorem emit (e : RExt ro k ex s s') (ev : Ev) : RExt ro k ex s (s'.emit ev) := e.same rfl rfl rfl

theorem markConsistent (e : RExt ro k ex s s') (n : Nat) : RExt ro k ex s (s'.markConsistent n) :=
  e.same (by simp) (by simp) (by simp)

/-- A further step given by its three components. -/
theorem step (e : RExt ro k ex s s₁) (x : Ext s₁ s') (hi : RolesInv ro s'.store)
    (hf : FrameBelow ro k ex s₁.store s'.store) : RExt ro k ex s s' := e.trans ⟨x, hi, hf⟩

theorem out {α : Type} {F : Sess × α} {r : α} (e : RExt ro k ex s F.1) (heq : F = (s', r)) :
    RExt ro k ex s s' := by rw [heq] at e; exact e

end RExt

/-- Post-condition of a call: `RExt` and no diagnosed violation. -/
structure Post (ro : Roles) (k : Nat) (ex : Option Nat) (s : Sess) {α : Type} (p : Sess × Res α) :
    Prop where
  rext : RExt ro k ex s p.1
  noViol : NoViol p.2

namespace Post
variable {k k' : Nat} {ex : Option Nat} {s s₁ s' : Sess} {α β : Type}

theorem out {F : Sess × Res α} {r : Res α} (p : Post ro k ex s F) (heq : F = (s', r)) :
    RExt ro k ex s s' ∧ NoViol r := by rw [heq] at p; exact ⟨p.rext, p.noViol⟩

/-- The call aborted and the caller passes the abort on. -/
theorem abort {F : Sess × Res α} {a : Abort} (p : Post ro k ex s F) (heq : F = (s', .abort a)) :
    Post ro k ex s (s', (Res.abort a : Res β)) :=
  ⟨(p.out heq).1, (p.out heq).2.cast rfl⟩

theorem left {F : Sess × Res α} (e : RExt ro k ex s s₁) (p : Post ro k ex s₁ F) :
    Post ro k ex s F := ⟨e.trans p.rext, p.noViol⟩

theorem mono {F : Sess × Res α} (p : Post ro k ex s F) (hk : k' ≤ k) : Post ro k' ex s F :=
  ⟨p.rext.mono hk, p.noViol⟩

theorem add {F : Sess × Res α} (p : Post ro k none s F) : Post ro k ex s F :=
  ⟨p.rext.add, p.noViol⟩

theorem drop {F : Sess × Res α} {x t : Nat} (p : Post ro k (some x) s F)
    (hx : s.store.taskOf x = some t) (hk : k ≤ ro.rank t) : Post ro k none s F :=
  ⟨p.rext.drop hx hk, p.noViol⟩

theorem refl_of (h : SessWF s) (hi : RolesInv ro s.store) {r : Res α} (hr : NoViol r) :
    Post ro k ex s (s, r) := ⟨RExt.refl h hi, hr⟩

end Post

/-! ### store-level facts used by `read` / `write` -/

/-- The reader required the generator earlier, so the read is not hidden. -/
theorem readHidden_false {st : Store} (hi : RolesInv ro st) {cur dst r : Nat}
    (hd : st.resOf dst = some r) {a : Acc} (ha : AccOK st cur a)
    (hreq : ∀ w, ro.gen r = some w → w ∈ a.req) : readHidden st cur dst = false := by
  cases hh : readHidden st cur dst with
  | false => rfl
  | true =>
    obtain ⟨wn, hw, hct⟩ := (readHidden_eq_true_iff st cur dst).mp hh
    obtain ⟨r', c', s', he⟩ := hi.wf.taskWritingTo_some hw
    have hd' := hi.wf.edge_dst _ _ _ he
    simp only [Store.depOK_write] at hd'
    rw [hd] at hd'; cases hd'
    obtain ⟨w, hwt⟩ := hi.wf.edge_src _ _ _ he
    have hgen := hi.write _ _ _ _ _ w he hwt
    obtain ⟨nu, dep, h1, h2⟩ := ha.req w (hreq w hgen)
    have hnu : nu = wn := hi.wf.node_inj h1 hwt
    subst hnu
    have := (hi.wf.containsTransitive_iff cur nu).mpr (hi.wf.reach_of_edge h2)
    rw [this] at hct; cases hct

/-- The generator writes its resource for the first time in this execution: no recorded writer,
and every recorded reader requires the generator directly. -/
theorem validateWrite_none_of_roles {st : Store} (hi : RolesInv ro st) {cur dst t0 r : Nat}
    (ht : st.taskOf cur = some t0) (hd : st.resOf dst = some r) {a : Acc} (ha : AccOK st cur a)
    (hg : ro.gen r = some t0) (hnw : r ∉ a.wr) : validateWrite st cur dst = none := by
  rw [validateWrite_none_iff]
  constructor
  · apply hi.wf.taskWritingTo_none
    intro n r' c s he
    have hd' := hi.wf.edge_dst _ _ _ he
    simp only [Store.depOK_write] at hd'
    rw [hd] at hd'; cases hd'
    obtain ⟨tn, htn⟩ := hi.wf.edge_src _ _ _ he
    have hgen := hi.write _ _ _ _ _ tn he htn
    rw [hg] at hgen; cases hgen
    have hn : n = cur := hi.wf.node_inj htn ht
    subst hn
    exact hnw (ha.wr _ _ _ _ he)
  · intro y hy
    obtain ⟨r', c, s, he⟩ := hi.wf.mem_tasksReadingFrom hy
    have hd' := hi.wf.edge_dst _ _ _ he
    simp only [Store.depOK_read] at hd'
    rw [hd] at hd'; cases hd'
    obtain ⟨nw, dep, h1, h2⟩ := hi.read _ _ _ _ _ t0 he hg
    have hn : nw = cur := hi.wf.node_inj h1 ht
    subst hn
    exact (hi.wf.containsTransitive_iff y nw).mpr (hi.wf.reach_of_edge h2)

/-- Recording the read. -/
theorem read_addDependency {st : Store} (hi : RolesInv ro st) {cur dst t0 r : Nat}
    (ht : st.taskOf cur = some t0) (hd : st.resOf dst = some r) {a : Acc} (ha : AccOK st cur a)
    (hreq : ∀ w, ro.gen r = some w → w ∈ a.req) (c : Nat) (stamp : Stamp) (k : Nat) :
    RolesInv ro (st.addDependency cur dst (.read r c stamp)).1 ∧
    AccOK (st.addDependency cur dst (.read r c stamp)).1 cur a ∧
    FrameBelow ro k (some cur) st (st.addDependency cur dst (.read r c stamp)).1 := by
  refine ⟨?_, ?_, ?_⟩
  · refine hi.addDependency ht (d := .read r c stamp) hd ?_ (fun _ _ _ hh => nomatch hh) ?_
    · intro u hu; rw [Store.taskOf_eq_none_of_resOf hd] at hu; cases hu
    · intro r' c' s' w hh hg
      cases hh
      exact ha.req w (hreq w hg)
  · exact ha.addDependency hi.wf dst _ (fun _ h => h) (fun _ h => h) (fun _ _ _ hh => nomatch hh)
  · exact FrameBelow.of_ne (fun n hn b => Store.ged_addDependency_of_src_ne hi.wf _ _ _ hn b)

/-- Recording the write. -/
theorem write_addDependency {st : Store} (hi : RolesInv ro st) {cur dst t0 r : Nat}
    (ht : st.taskOf cur = some t0) (hd : st.resOf dst = some r) {a : Acc} (ha : AccOK st cur a)
    (hg : ro.gen r = some t0) (c : Nat) (stamp : Stamp) (k : Nat) :
    RolesInv ro (st.addDependency cur dst (.write r c stamp)).1 ∧
    AccOK (st.addDependency cur dst (.write r c stamp)).1 cur { a with wr := r :: a.wr } ∧
    FrameBelow ro k (some cur) st (st.addDependency cur dst (.write r c stamp)).1 := by
  refine ⟨?_, ?_, ?_⟩
  · refine hi.addDependency ht (d := .write r c stamp) hd ?_ ?_ (fun _ _ _ _ hh => nomatch hh)
    · intro u hu; rw [Store.taskOf_eq_none_of_resOf hd] at hu; cases hu
    · intro r' c' s' hh; cases hh; exact hg
  · refine ha.addDependency hi.wf dst _ (fun _ h => h) (fun _ h => List.mem_cons_of_mem _ h) ?_
    intro r' c' s' hh; cases hh; exact List.mem_cons_self
  · exact FrameBelow.of_ne (fun n hn b => Store.ged_addDependency_of_src_ne hi.wf _ _ _ hn b)

variable (sem : Sem)

/-! ### `doRead` -/

theorem doRead_roles {s : Sess} (h : SessWF s) (hi : RolesInv ro s.store) {cur t0 : Nat}
    (hc : s.cur = some cur) (ht : s.store.taskOf cur = some t0) {a : Acc}
    (ha : AccOK s.store cur a) (r c : Nat)
    (hreq : ∀ w, ro.gen r = some w → w ∈ a.req) (k : Nat) :
    Post ro k (some cur) s (doRead sem s r c) ∧ AccOK (doRead sem s r c).1.store cur a := by
  have i1 := hi.getOrCreateResNode r
  have le1 := Store.le_getOrCreateResNode h.store r
  have e1 := Store.getEdgeData_getOrCreateResNode h.store r
  have ht1 := le1.task _ _ ht
  have hd1 := Store.resOf_getOrCreateResNode_self h.store r
  have a1 : AccOK (s.store.getOrCreateResNode r).1 cur a := ha.of_eq le1 (e1 cur)
  have f1 : FrameBelow ro k (some cur) s.store (s.store.getOrCreateResNode r).1 :=
    FrameBelow.of_eq e1
  have hh := readHidden_false i1 hd1 a1 hreq
  have hnv : NoViol (doRead sem s r c).2 := by
    intro ab hab
    rcases (doRead_abort_iff sem s r c cur (s.store.getOrCreateResNode r).1
      (s.store.getOrCreateResNode r).2 ab hc rfl).mp hab with ⟨_, h2⟩ | ⟨rfl, _⟩
    · rw [hh] at h2; cases h2
    · rfl
  rcases doRead_store sem hc r c with hs | ⟨stamp, hs⟩
  · exact ⟨⟨⟨doRead_ext sem h r c, hs ▸ i1, hs ▸ f1⟩, hnv⟩, hs ▸ a1⟩
  · obtain ⟨i2, a2, f2⟩ := read_addDependency i1 ht1 hd1 a1 hreq c stamp k
    exact ⟨⟨⟨doRead_ext sem h r c, hs ▸ i2, hs ▸ f1.trans le1 f2⟩, hnv⟩, hs ▸ a2⟩

/-! ### `doWrite`, `doWrote` -/

theorem doWrite_roles {s : Sess} (h : SessWF s) (hi : RolesInv ro s.store) {cur t0 : Nat}
    (hc : s.cur = some cur) (ht : s.store.taskOf cur = some t0) {a : Acc}
    (ha : AccOK s.store cur a) (r c : Nat) (v : Option Int)
    (hg : ro.gen r = some t0) (hnw : r ∉ a.wr) (k : Nat) :
    Post ro k (some cur) s (doWrite sem s r c v) ∧
      AccOK (doWrite sem s r c v).1.store cur { a with wr := r :: a.wr } := by
  have i1 := hi.getOrCreateResNode r
  have le1 := Store.le_getOrCreateResNode h.store r
  have e1 := Store.getEdgeData_getOrCreateResNode h.store r
  have ht1 := le1.task _ _ ht
  have hd1 := Store.resOf_getOrCreateResNode_self h.store r
  have a1 : AccOK (s.store.getOrCreateResNode r).1 cur a := ha.of_eq le1 (e1 cur)
  have f1 : FrameBelow ro k (some cur) s.store (s.store.getOrCreateResNode r).1 :=
    FrameBelow.of_eq e1
  have hv := validateWrite_none_of_roles i1 ht1 hd1 a1 hg hnw
  have hnv : NoViol (doWrite sem s r c v).2 := by
    intro ab hab
    rcases (doWrite_abort_iff sem s r c cur v (s.store.getOrCreateResNode r).1
      (s.store.getOrCreateResNode r).2 ab hc rfl).mp hab with h2 | ⟨rfl, _⟩
    · rw [hv] at h2; cases h2
    · rfl
  rcases doWrite_store sem hc r c v with hs | ⟨stamp, hs⟩
  · exact ⟨⟨⟨doWrite_ext sem h r c v, hs ▸ i1, hs ▸ f1⟩, hnv⟩, hs ▸ a1.consWr r⟩
  · obtain ⟨i2, a2, f2⟩ := write_addDependency i1 ht1 hd1 a1 hg c stamp k
    exact ⟨⟨⟨doWrite_ext sem h r c v, hs ▸ i2, hs ▸ f1.trans le1 f2⟩, hnv⟩, hs ▸ a2⟩

theorem doWrote_roles {s : Sess} (h : SessWF s) (hi : RolesInv ro s.store) {cur t0 : Nat}
    (hc : s.cur = some cur) (ht : s.store.taskOf cur = some t0) {a : Acc}
    (ha : AccOK s.store cur a) (r c : Nat) (v : Option Int)
    (hg : ro.gen r = some t0) (hnw : r ∉ a.wr) (k : Nat) :
    Post ro k (some cur) s (doWrote sem s r c v) ∧
      AccOK (doWrote sem s r c v).1.store cur { a with wr := r :: a.wr } := by
  have i1 := hi.getOrCreateResNode r
  have le1 := Store.le_getOrCreateResNode h.store r
  have e1 := Store.getEdgeData_getOrCreateResNode h.store r
  have ht1 := le1.task _ _ ht
  have hd1 := Store.resOf_getOrCreateResNode_self h.store r
  have a1 : AccOK (s.store.getOrCreateResNode r).1 cur a := ha.of_eq le1 (e1 cur)
  have f1 : FrameBelow ro k (some cur) s.store (s.store.getOrCreateResNode r).1 :=
    FrameBelow.of_eq e1
  have hv := validateWrite_none_of_roles i1 ht1 hd1 a1 hg hnw
  have hnv : NoViol (doWrote sem s r c v).2 := by
    intro ab hab
    rcases (doWrote_abort_iff sem s r c cur v (s.store.getOrCreateResNode r).1
      (s.store.getOrCreateResNode r).2 ab hc rfl).mp hab with h2 | ⟨rfl, _⟩
    · rw [hv] at h2; cases h2
    · rfl
  rcases doWrote_store sem hc r c v with hs | ⟨stamp, hs⟩
  · exact ⟨⟨⟨doWrote_ext sem h r c v, hs ▸ i1, hs ▸ f1⟩, hnv⟩, hs ▸ a1.consWr r⟩
  · obtain ⟨i2, a2, f2⟩ := write_addDependency i1 ht1 hd1 a1 hg c stamp k
    exact ⟨⟨⟨doWrote_ext sem h r c v, hs ▸ i2, hs ▸ f1.trans le1 f2⟩, hnv⟩, hs ▸ a2⟩

/-! ### `reserveRequire`, `updateRequire` -/

theorem reserveRequire_of_some {s : Sess} {src : Nat} (hc : s.cur = some src) (dst : Nat) :
    reserveRequire s dst =
      match (s.store.addDependency src dst .reserved).2 with
      | .ok => ({ s with store := (s.store.addDependency src dst .reserved).1 }, .ok ())
      | .cycle => (s, .abort .cyclic)
      | .bug => (s, .abort (.bug 4)) := by
  unfold reserveRequire; rw [hc]; simp only
  rcases hh : s.store.addDependency src dst .reserved with ⟨st, v⟩
  cases v <;> rfl

theorem updateRequire_of_some {s : Sess} {src : Nat} (hc : s.cur = some src)
    (dst t c : Nat) (stamp : Stamp) :
    updateRequire s dst t c stamp =
      match s.store.setDependency src dst (.require t c stamp) with
      | some st => ({ s with store := st }, .ok ())
      | none => (s, .abort (.bug 5)) := by
  unfold updateRequire; rw [hc]; rfl

/-- What the require protocol does for the requiring task `cur`, on success: the accumulator
stays reflected and the edge `cur → dst` exists. -/
def ReqKeep (s : Sess) (dst : Nat) (p : Sess × Res Unit) : Prop :=
  ∀ cur a, s.cur = some cur → p.2 = .ok () → AccOK s.store cur a →
    AccOK p.1.store cur a ∧ ∃ dep, p.1.store.g.getEdgeData cur dst = some dep

/-- The new edge goes strictly upward in rank, so it cannot close a cycle. -/
theorem reserveRequire_roles {s : Sess} (h : SessWF s) (hi : RolesInv ro s.store) {dst t : Nat}
    (hd : s.store.taskOf dst = some t)
    (hpre : ∀ cur, s.cur = some cur → ∃ t0, s.store.taskOf cur = some t0 ∧ ro.rank t0 < ro.rank t)
    (k : Nat) :
    Post ro k s.cur s (reserveRequire s dst) ∧ ReqKeep s dst (reserveRequire s dst) := by
  cases hc : s.cur with
  | none =>
    have : reserveRequire s dst = (s, .ok ()) := by unfold reserveRequire; rw [hc]
    rw [this]
    exact ⟨Post.refl_of h hi (NoViol.ok _), fun cur a h' => by rw [hc] at h'; cases h'⟩
  | some src =>
    obtain ⟨t0, ht0, hlt⟩ := hpre src hc
    have hnc : (s.store.addDependency src dst .reserved).2 ≠ .cycle := by
      intro hcy
      obtain ⟨_, _, h3⟩ := (Store.addDependency_snd_cycle_iff h.store src dst .reserved).mp hcy
      rcases h3 with rfl | h3
      · rw [ht0] at hd; cases hd; exact Nat.lt_irrefl _ hlt
      · exact absurd (hi.reach_rank h3 hd ht0) (Nat.lt_asymm hlt)
    rw [reserveRequire_of_some hc]
    cases hv : (s.store.addDependency src dst .reserved).2 with
    | cycle => exact absurd hv hnc
    | bug =>
      exact ⟨Post.refl_of h hi (NoViol.abort_of rfl), fun cur a _ h' => nomatch h'⟩
    | ok =>
      simp only
      have i2 : RolesInv ro (s.store.addDependency src dst .reserved).1 :=
        hi.addDependency ht0 (d := .reserved) ⟨t, hd⟩
          (fun u hu => by rw [hd] at hu; cases hu; exact hlt)
          (fun _ _ _ hh => nomatch hh) (fun _ _ _ _ hh => nomatch hh)
      refine ⟨⟨⟨h.setStore i2.wf (Store.le_addDependency h.store _ _ _), i2, ?_⟩, NoViol.ok _⟩, ?_⟩
      · exact FrameBelow.of_ne (fun n hn b => Store.ged_addDependency_of_src_ne h.store _ _ _ hn b)
      · intro cur a h1 _ ha
        rw [hc] at h1; cases h1
        exact ⟨ha.addDependency h.store dst _ (fun _ h => h) (fun _ h => h)
          (fun _ _ _ hh => nomatch hh), Store.ged_addDependency_ok h.store hv⟩

theorem updateRequire_roles {s : Sess} (h : SessWF s) (hi : RolesInv ro s.store) {dst t : Nat}
    (c : Nat) (stamp : Stamp) (hd : s.store.taskOf dst = some t) (k : Nat) :
    Post ro k s.cur s (updateRequire s dst t c stamp) ∧
      ReqKeep s dst (updateRequire s dst t c stamp) := by
  cases hc : s.cur with
  | none =>
    have : updateRequire s dst t c stamp = (s, .ok ()) := by unfold updateRequire; rw [hc]
    rw [this]
    exact ⟨Post.refl_of h hi (NoViol.ok _), fun cur a h' => by rw [hc] at h'; cases h'⟩
  | some src =>
    rw [updateRequire_of_some hc]
    cases hs : s.store.setDependency src dst (.require t c stamp) with
    | none => exact ⟨Post.refl_of h hi (NoViol.abort_of rfl), fun cur a _ h' => nomatch h'⟩
    | some st' =>
      simp only
      have i2 := hi.setDependency hs hd
      have hg := Store.getEdgeData_setDependency hs
      refine ⟨⟨⟨h.setStore i2.wf (Store.le_setDependency hs), i2, ?_⟩, NoViol.ok _⟩, ?_⟩
      · refine FrameBelow.of_ne (fun n hn b => ?_)
        rw [hg, if_neg (fun hh => hn hh.1)]
      · intro cur a h1 _ ha
        rw [hc] at h1; cases h1
        exact ⟨ha.setDependency hs, ⟨_, by rw [hg, if_pos ⟨rfl, rfl⟩]⟩⟩

end PieModel
