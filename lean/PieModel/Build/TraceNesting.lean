/-
The grammar of well-nested tracker streams (property C17, interpreter part).

Every tracker event is a *start*, a *stop* or an *atom* (`Ev.role`).  A stack machine reads a
stream: a start pushes a frame `(kind, subject)`, a stop pops the top frame, which must be the
frame of the same kind and subject, an atom is ignored.

* `nest`  — the strict machine.
* `nestR` — the relaxed machine: an `execute` stop may additionally pop `read`/`write` frames
  lying above its `execute` frame.  Those are the `read_start`/`write_start` events left open
  by the Rust code when a resource checker fails to *stamp* (`?` returns the error to the task
  before `read_end`/`write_end`).

Both are instances of `nestG rx` (`rx = false` strict, `rx = true` relaxed), for which the algebra
is proved once.
-/
import PieModel.Build.Syntax

namespace PieModel

/-- The kinds of bracketing tracker events (one per `*_start`/`*_end` pair of `Tracker`). -/
inductive Kind
  | build | require | read | write | checkTask | checkRes | execute
  | schedTask | checkReq | schedRes | checkRead
deriving DecidableEq, Repr

/-- `read` and `write` frames: the ones a failing stamp leaves open. -/
def Kind.isRW : Kind → Bool
  | .read => true
  | .write => true
  | _ => false

/-- A stack frame: kind and subject (task or resource id; `0` for `build`). -/
abbrev Frame := Kind × Nat

inductive Role
  | start (k : Kind) (n : Nat)
  | stop (k : Kind) (n : Nat)
  | atom
deriving DecidableEq, Repr

/-- Classification of the 23 tracker events. -/
def Ev.role : Ev → Role
  | .buildStart => .start .build 0
  | .buildEnd => .stop .build 0
  | .requireStart t _ => .start .require t
  | .requireEnd t _ _ _ => .stop .require t
  | .readStart r _ => .start .read r
  | .readEnd r _ _ => .stop .read r
  | .writeStart r _ => .start .write r
  | .writeEnd r _ _ => .stop .write r
  | .checkTaskStart t _ _ => .start .checkTask t
  | .checkTaskEnd t _ _ _ => .stop .checkTask t
  | .checkResStart r _ _ => .start .checkRes r
  | .checkResEnd r _ _ _ => .stop .checkRes r
  | .executeStart t => .start .execute t
  | .executeEnd t _ => .stop .execute t
  | .schedTaskStart t => .start .schedTask t
  | .schedTaskEnd t => .stop .schedTask t
  | .checkReqStart t _ _ => .start .checkReq t
  | .checkReqEnd t _ _ _ => .stop .checkReq t
  | .schedResStart r => .start .schedRes r
  | .schedResEnd r => .stop .schedRes r
  | .checkReadStart t _ _ => .start .checkRead t
  | .checkReadEnd t _ _ _ => .stop .checkRead t
  | .scheduleTask _ => .atom

/-- The frame of a start/stop event (`(build, 0)` for an atom, never used). -/
def Role.frame : Role → Frame
  | .start k n => (k, n)
  | .stop k n => (k, n)
  | .atom => (.build, 0)

/-! ### the machines -/

/-- Pop the top frame if it is `fr`. -/
def popFrame (fr : Frame) : List Frame → Option (List Frame)
  | [] => none
  | top :: rest => if top = fr then some rest else none

/-- One step of the strict machine. -/
def step (st : List Frame) (e : Ev) : Option (List Frame) :=
  match e.role with
  | .atom => some st
  | .start k n => some ((k, n) :: st)
  | .stop k n => popFrame (k, n) st

/-- The strict machine: `none` = the stream is not well nested. -/
def nest : List Frame → List Ev → Option (List Frame)
  | st, [] => some st
  | st, e :: es => (step st e).bind fun st' => nest st' es

/-- Drop the `read`/`write` frames on top of the stack. -/
def popRW (st : List Frame) : List Frame := st.dropWhile fun fr => fr.1.isRW

/-- One step of the relaxed machine: an `execute` stop first drops open `read`/`write` frames. -/
def stepR (st : List Frame) (e : Ev) : Option (List Frame) :=
  match e.role with
  | .atom => some st
  | .start k n => some ((k, n) :: st)
  | .stop k n => popFrame (k, n) (if k = .execute then popRW st else st)

/-- The relaxed machine. -/
def nestR : List Frame → List Ev → Option (List Frame)
  | st, [] => some st
  | st, e :: es => (stepR st e).bind fun st' => nestR st' es

/-- The stream is complete and well nested. -/
def Balanced (evs : List Ev) : Prop := nest [] evs = some []

/-- The stream is well nested so far (some starts may still be open). -/
def PrefixOfBalanced (evs : List Ev) : Prop := (nest [] evs).isSome = true

def BalancedR (evs : List Ev) : Prop := nestR [] evs = some []
def PrefixOfBalancedR (evs : List Ev) : Prop := (nestR [] evs).isSome = true

instance (evs : List Ev) : Decidable (Balanced evs) := by unfold Balanced; infer_instance
instance (evs : List Ev) : Decidable (PrefixOfBalanced evs) := by
  unfold PrefixOfBalanced; infer_instance
instance (evs : List Ev) : Decidable (BalancedR evs) := by unfold BalancedR; infer_instance
instance (evs : List Ev) : Decidable (PrefixOfBalancedR evs) := by
  unfold PrefixOfBalancedR; infer_instance

/-! ### the generic machine -/

def stepG (rx : Bool) (st : List Frame) (e : Ev) : Option (List Frame) :=
  if rx then stepR st e else step st e

def nestG (rx : Bool) : List Frame → List Ev → Option (List Frame)
  | st, [] => some st
  | st, e :: es => (stepG rx st e).bind fun st' => nestG rx st' es

theorem nestG_false (st : List Frame) (evs : List Ev) : nestG false st evs = nest st evs := by
  induction evs generalizing st with
  | nil => rfl
  | cons e es ih => simp [nestG, nest, stepG, ih]

theorem nestG_true (st : List Frame) (evs : List Ev) : nestG true st evs = nestR st evs := by
  induction evs generalizing st with
  | nil => rfl
  | cons e es ih => simp [nestG, nestR, stepG, ih]

@[simp] theorem nestG_nil (rx : Bool) (st : List Frame) : nestG rx st [] = some st := rfl

theorem nestG_cons (rx : Bool) (st : List Frame) (e : Ev) (es : List Ev) :
    nestG rx st (e :: es) = (stepG rx st e).bind fun st' => nestG rx st' es := rfl

/-- The machine composes over `++`. -/
theorem nestG_append (rx : Bool) (st : List Frame) (a b : List Ev) :
    nestG rx st (a ++ b) = (nestG rx st a).bind fun st' => nestG rx st' b := by
  induction a generalizing st with
  | nil => simp
  | cons e es ih =>
    simp only [List.cons_append, nestG_cons]
    cases stepG rx st e with
    | none => rfl
    | some st' => simpa using ih st'

theorem nest_append (st : List Frame) (a b : List Ev) :
    nest st (a ++ b) = (nest st a).bind fun st' => nest st' b := by
  simpa [nestG_false] using nestG_append false st a b

theorem nestR_append (st : List Frame) (a b : List Ev) :
    nestR st (a ++ b) = (nestR st a).bind fun st' => nestR st' b := by
  simpa [nestG_true] using nestG_append true st a b

/-! ### frame rule: what happens below the stack is irrelevant -/

theorem popFrame_append {fr : Frame} {st st' : List Frame} (x : List Frame)
    (h : popFrame fr st = some st') : popFrame fr (st ++ x) = some (st' ++ x) := by
  cases st with
  | nil => simp [popFrame] at h
  | cons top rest =>
    simp only [popFrame] at h
    split at h
    · next heq => simp at h; subst h; simp [popFrame, heq]
    · simp at h

theorem popFrame_eq_some {fr : Frame} {st st' : List Frame} :
    popFrame fr st = some st' ↔ st = fr :: st' := by
  cases st with
  | nil => simp [popFrame]
  | cons top rest =>
    simp only [popFrame]
    split
    · next h => subst h; simp
    · next h => simp; intro h'; exact absurd h' h

theorem popRW_append_of_ne_nil {st : List Frame} (x : List Frame) (h : popRW st ≠ []) :
    popRW (st ++ x) = popRW st ++ x := by
  induction st with
  | nil => simp [popRW] at h
  | cons fr rest ih =>
    simp only [popRW, List.cons_append, List.dropWhile_cons] at h ⊢
    split
    · next hrw => simp only [hrw, if_true] at h; exact ih h
    · rfl

theorem step_frame {st st' : List Frame} {e : Ev} (x : List Frame)
    (h : step st e = some st') : step (st ++ x) e = some (st' ++ x) := by
  unfold step at h ⊢
  split at h
  · simp at h; subst h; rfl
  · simp at h; subst h; rfl
  · exact popFrame_append x h

theorem stepR_frame {st st' : List Frame} {e : Ev} (x : List Frame)
    (h : stepR st e = some st') : stepR (st ++ x) e = some (st' ++ x) := by
  unfold stepR at h ⊢
  split at h
  · simp at h; subst h; rfl
  · simp at h; subst h; rfl
  · next k n _ =>
    by_cases hk : k = .execute
    · simp only [hk, if_true] at h ⊢
      have hne : popRW st ≠ [] := by
        intro hnil; rw [hnil] at h; simp [popFrame] at h
      rw [popRW_append_of_ne_nil x hne]
      exact popFrame_append x h
    · simp only [hk, if_false] at h ⊢
      exact popFrame_append x h

theorem stepG_frame {rx : Bool} {st st' : List Frame} {e : Ev} (x : List Frame)
    (h : stepG rx st e = some st') : stepG rx (st ++ x) e = some (st' ++ x) := by
  cases rx with
  | false => exact step_frame x h
  | true => exact stepR_frame x h

/-- Frame rule: a run from `st` to `st'` is a run from `st ++ x` to `st' ++ x`. -/
theorem nestG_frame {rx : Bool} {st st' : List Frame} {evs : List Ev} (x : List Frame)
    (h : nestG rx st evs = some st') : nestG rx (st ++ x) evs = some (st' ++ x) := by
  induction evs generalizing st with
  | nil => simp at h; subst h; rfl
  | cons e es ih =>
    rw [nestG_cons] at h ⊢
    cases hs : stepG rx st e with
    | none => rw [hs] at h; simp at h
    | some s1 =>
      rw [hs] at h
      rw [stepG_frame x hs]
      exact ih h

/-- Whatever the strict machine accepts, the relaxed machine accepts with the same stack. -/
theorem step_imp_stepR {st st' : List Frame} {e : Ev} (h : step st e = some st') :
    stepR st e = some st' := by
  unfold step at h; unfold stepR
  split
  · next heq => simpa [heq] using h
  · next heq => simpa [heq] using h
  · next k n heq =>
    simp only [heq] at h
    by_cases hk : k = .execute
    · subst hk
      rw [popFrame_eq_some] at h
      subst h
      simp [popRW, Kind.isRW, popFrame]
    · simpa [hk] using h

theorem nest_imp_nestR {st st' : List Frame} {evs : List Ev} (h : nest st evs = some st') :
    nestR st evs = some st' := by
  induction evs generalizing st with
  | nil => simpa [nest, nestR] using h
  | cons e es ih =>
    simp only [nest, nestR] at h ⊢
    cases hs : step st e with
    | none => rw [hs] at h; simp at h
    | some s1 =>
      rw [hs] at h
      rw [step_imp_stepR hs]
      exact ih h

theorem Balanced.balancedR {evs : List Ev} (h : Balanced evs) : BalancedR evs := nest_imp_nestR h

/-! ### segments -/

/-- `evs` runs from any stack `st` to `op ++ st`: it is well nested in itself and leaves exactly
the frames `op` open (`op = []`: balanced). -/
def Seg (rx : Bool) (evs : List Ev) (op : List Frame) : Prop :=
  ∀ st, nestG rx st evs = some (op ++ st)

theorem seg_iff_nil {rx : Bool} {evs : List Ev} {op : List Frame} :
    Seg rx evs op ↔ nestG rx [] evs = some op := by
  constructor
  · intro h; simpa using h []
  · intro h st; simpa using nestG_frame st h

/-- `Balanced evs` iff `evs` leaves every stack unchanged. -/
theorem balanced_iff_seg {evs : List Ev} : Balanced evs ↔ ∀ st, nest st evs = some st := by
  have := @seg_iff_nil false evs []
  simp only [Seg, nestG_false, List.nil_append] at this
  exact this.symm

theorem balancedR_iff_seg {evs : List Ev} : BalancedR evs ↔ ∀ st, nestR st evs = some st := by
  have := @seg_iff_nil true evs []
  simp only [Seg, nestG_true, List.nil_append] at this
  exact this.symm

/-- `PrefixOfBalanced evs` iff from every stack `st` the machine accepts `evs` and ends in an
extension of `st`. -/
theorem prefixOfBalanced_iff {evs : List Ev} :
    PrefixOfBalanced evs ↔ ∃ op, ∀ st, nest st evs = some (op ++ st) := by
  unfold PrefixOfBalanced
  constructor
  · intro h
    obtain ⟨op, hop⟩ := Option.isSome_iff_exists.mp h
    refine ⟨op, fun st => ?_⟩
    have := (@seg_iff_nil false evs op).mpr (by simpa [nestG_false] using hop) st
    simpa [nestG_false] using this
  · rintro ⟨op, h⟩
    simp [h []]

theorem prefixOfBalancedR_iff {evs : List Ev} :
    PrefixOfBalancedR evs ↔ ∃ op, ∀ st, nestR st evs = some (op ++ st) := by
  unfold PrefixOfBalancedR
  constructor
  · intro h
    obtain ⟨op, hop⟩ := Option.isSome_iff_exists.mp h
    refine ⟨op, fun st => ?_⟩
    have := (@seg_iff_nil true evs op).mpr (by simpa [nestG_true] using hop) st
    simpa [nestG_true] using this
  · rintro ⟨op, h⟩
    simp [h []]

/-- A balanced segment in front does not matter. -/
theorem nest_balanced_append {a : List Ev} (h : Balanced a) (st : List Frame) (b : List Ev) :
    nest st (a ++ b) = nest st b := by
  rw [nest_append, balanced_iff_seg.mp h st]; rfl

theorem nestR_balanced_append {a : List Ev} (h : BalancedR a) (st : List Frame) (b : List Ev) :
    nestR st (a ++ b) = nestR st b := by
  rw [nestR_append, balancedR_iff_seg.mp h st]; rfl

/-- A balanced segment at the end does not matter. -/
theorem nest_append_balanced {b : List Ev} (h : Balanced b) (st : List Frame) (a : List Ev) :
    nest st (a ++ b) = nest st a := by
  rw [nest_append]
  cases nest st a with
  | none => rfl
  | some st' => exact balanced_iff_seg.mp h st'

theorem Balanced.append {a b : List Ev} (ha : Balanced a) (hb : Balanced b) :
    Balanced (a ++ b) := by
  unfold Balanced; rw [nest_balanced_append ha]; exact hb

theorem Balanced.prefixOfBalanced {a : List Ev} (h : Balanced a) : PrefixOfBalanced a := by
  unfold PrefixOfBalanced; rw [h]; rfl

/-- Every prefix of a well-nested stream is well nested so far. -/
theorem PrefixOfBalanced.of_append {a b : List Ev} (h : PrefixOfBalanced (a ++ b)) :
    PrefixOfBalanced a := by
  unfold PrefixOfBalanced at h ⊢
  rw [nest_append] at h
  cases hn : nest [] a with
  | none => rw [hn] at h; simp at h
  | some _ => rfl

/-- The stop event closing a frame (with arbitrary payload). -/
def closer : Frame → Ev
  | (.build, _) => .buildEnd
  | (.require, n) => .requireEnd n 0 .unit 0
  | (.read, n) => .readEnd n 0 .unit
  | (.write, n) => .writeEnd n 0 .unit
  | (.checkTask, n) => .checkTaskEnd n 0 .unit true
  | (.checkRes, n) => .checkResEnd n 0 .unit (.ok true)
  | (.execute, n) => .executeEnd n 0
  | (.schedTask, n) => .schedTaskEnd n
  | (.checkReq, n) => .checkReqEnd n 0 .unit true
  | (.schedRes, n) => .schedResEnd n
  | (.checkRead, n) => .checkReadEnd n 0 .unit (.ok true)

/-- `build` frames always have subject `0`. -/
def Frame.Proper (fr : Frame) : Prop := fr.1 = .build → fr.2 = 0

theorem closer_role {fr : Frame} (h : fr.Proper) : (closer fr).role = .stop fr.1 fr.2 := by
  obtain ⟨k, n⟩ := fr
  cases k <;> simp_all [closer, Ev.role, Frame.Proper]

theorem nest_closers (op st : List Frame) (h : ∀ fr ∈ op, fr.Proper) :
    nest (op ++ st) (op.map closer) = some st := by
  induction op with
  | nil => rfl
  | cons fr rest ih =>
    have h1 := closer_role (h fr (by simp))
    simp only [List.map_cons, List.cons_append, nest, step, h1, popFrame, if_true,
      Option.bind_some]
    exact ih (fun x hx => h x (by simp [hx]))

theorem step_proper {st st' : List Frame} {e : Ev} (h : step st e = some st')
    (hp : ∀ fr ∈ st, fr.Proper) : ∀ fr ∈ st', fr.Proper := by
  unfold step at h
  split at h
  · simp at h; subst h; exact hp
  · next k n heq =>
    simp at h; subst h
    intro fr hfr
    rcases List.mem_cons.mp hfr with rfl | hfr
    · intro hk
      simp only at hk
      subst hk
      cases e <;> simp_all [Ev.role]
    · exact hp fr hfr
  · rw [popFrame_eq_some] at h
    subst h
    exact fun fr hfr => hp fr (by simp [hfr])

theorem nest_proper {st st' : List Frame} {evs : List Ev} (h : nest st evs = some st')
    (hp : ∀ fr ∈ st, fr.Proper) : ∀ fr ∈ st', fr.Proper := by
  induction evs generalizing st with
  | nil => simp [nest] at h; subst h; exact hp
  | cons e es ih =>
    simp only [nest] at h
    cases hs : step st e with
    | none => rw [hs] at h; simp at h
    | some s1 => rw [hs] at h; exact ih h (step_proper hs hp)

/-- `PrefixOfBalanced` means what it says: the stream can be completed to a balanced one. -/
theorem prefixOfBalanced_iff_exists_completion {evs : List Ev} :
    PrefixOfBalanced evs ↔ ∃ rest, Balanced (evs ++ rest) := by
  constructor
  · intro h
    obtain ⟨op, hop⟩ := Option.isSome_iff_exists.mp h
    refine ⟨op.map closer, ?_⟩
    unfold Balanced
    rw [nest_append, hop]
    simpa using nest_closers op [] (nest_proper hop (by simp))
  · rintro ⟨rest, h⟩
    exact (Balanced.prefixOfBalanced h).of_append

namespace Seg

variable {rx : Bool}

theorem nil : Seg rx [] [] := fun _ => rfl

theorem append {a b : List Ev} {op1 op2 : List Frame} (ha : Seg rx a op1) (hb : Seg rx b op2) :
    Seg rx (a ++ b) (op2 ++ op1) := by
  intro st
  rw [nestG_append, ha st]
  simpa using hb (op1 ++ st)

theorem start {e : Ev} {k : Kind} {n : Nat} (h : e.role = .start k n) : Seg rx [e] [(k, n)] := by
  intro st
  cases rx <;> simp [nestG, stepG, step, stepR, h]

theorem atom {e : Ev} (h : e.role = .atom) : Seg rx [e] [] := by
  intro st
  cases rx <;> simp [nestG, stepG, step, stepR, h]

/-- Closing the top frame. -/
theorem close {a : List Ev} {k : Kind} {n : Nat} {op : List Frame} {e : Ev}
    (ha : Seg rx a ((k, n) :: op)) (h : e.role = .stop k n) : Seg rx (a ++ [e]) op := by
  intro st
  rw [nestG_append, ha st]
  cases rx
  · simp [nestG, stepG, step, h, popFrame]
  · by_cases hk : k = .execute
    · subst hk; simp [nestG, stepG, stepR, h, popFrame, popRW, Kind.isRW]
    · simp [nestG, stepG, stepR, h, popFrame, hk]

theorem popRW_allRW {rw : List Frame} (hrw : ∀ fr ∈ rw, fr.1.isRW = true) (n : Nat)
    (rest : List Frame) : popRW (rw ++ (Kind.execute, n) :: rest) = (Kind.execute, n) :: rest := by
  induction rw with
  | nil => simp [popRW, Kind.isRW]
  | cons fr tl ih =>
    have h1 : fr.1.isRW = true := hrw fr (by simp)
    have h2 := ih (fun x hx => hrw x (by simp [hx]))
    simp only [popRW, List.cons_append, List.dropWhile_cons, h1, if_true] at h2 ⊢
    exact h2

/-- Relaxed machine: an `execute` stop closes its frame through open `read`/`write` frames. -/
theorem closeExecR {a : List Ev} {n : Nat} {rw op : List Frame} {e : Ev}
    (ha : Seg true a (rw ++ (Kind.execute, n) :: op)) (hrw : ∀ fr ∈ rw, fr.1.isRW = true)
    (h : e.role = .stop .execute n) : Seg true (a ++ [e]) op := by
  intro st
  rw [nestG_append, ha st]
  simp only [Option.bind_some, nestG, stepG, stepR, h, if_true, List.append_assoc,
    List.cons_append]
  rw [popRW_allRW hrw]
  simp [popFrame]

end Seg

/-- The frames that may stay open when a task body returns: none for the strict machine,
`read`/`write` frames for the relaxed one. -/
def Allowed (rx : Bool) (op : List Frame) : Prop :=
  if rx then ∀ fr ∈ op, fr.1.isRW = true else op = []

theorem Allowed.nil {rx : Bool} : Allowed rx [] := by
  cases rx <;> simp [Allowed]

theorem Allowed.append {rx : Bool} {a b : List Frame} (ha : Allowed rx a) (hb : Allowed rx b) :
    Allowed rx (a ++ b) := by
  cases rx
  · simp only [Allowed] at *; simp_all
  · simp only [Allowed, if_true] at *
    intro fr hfr
    rcases List.mem_append.mp hfr with h | h
    · exact ha fr h
    · exact hb fr h

theorem Allowed.single_rw {k : Kind} {n : Nat} (h : k.isRW = true) : Allowed true [(k, n)] := by
  simp [Allowed, h]

/-- Closing an `execute` frame around a body that left only allowed frames open. -/
theorem Seg.closeExec {rx : Bool} {a : List Ev} {n : Nat} {rw op : List Frame} {e : Ev}
    (ha : Seg rx a (rw ++ (Kind.execute, n) :: op)) (hrw : Allowed rx rw)
    (h : e.role = .stop .execute n) : Seg rx (a ++ [e]) op := by
  cases rx
  · simp only [Allowed] at hrw
    subst hrw
    exact Seg.close ha h
  · exact Seg.closeExecR ha (by simpa [Allowed] using hrw) h

/-! ### counting: in a well-nested stream starts and stops of every frame correspond -/

def Ev.isStartOf (fr : Frame) (e : Ev) : Bool := e.role == .start fr.1 fr.2
def Ev.isStopOf (fr : Frame) (e : Ev) : Bool := e.role == .stop fr.1 fr.2

theorem step_count {st st' : List Frame} {e : Ev} (fr : Frame) (h : step st e = some st') :
    (if e.isStartOf fr then 1 else 0) + st.count fr
      = (if e.isStopOf fr then 1 else 0) + st'.count fr := by
  unfold step at h
  split at h
  · next heq => simp at h; subst h; simp [Ev.isStartOf, Ev.isStopOf, heq]
  · next k n heq =>
    simp at h; subst h
    simp only [Ev.isStartOf, Ev.isStopOf, heq, List.count_cons]
    by_cases hfr : (k, n) = fr
    · subst hfr; simp; omega
    · have : ¬ (k = fr.1 ∧ n = fr.2) := fun ⟨a, b⟩ => hfr (by cases fr; simp_all)
      simp [hfr, this]
  · next k n heq =>
    rw [popFrame_eq_some] at h
    subst h
    simp only [Ev.isStartOf, Ev.isStopOf, heq, List.count_cons]
    by_cases hfr : (k, n) = fr
    · subst hfr; simp; omega
    · have : ¬ (k = fr.1 ∧ n = fr.2) := fun ⟨a, b⟩ => hfr (by cases fr; simp_all)
      simp [hfr, this]

/-- Strict machine: `#starts + #frames before = #stops + #frames after`, for every frame. -/
theorem nest_count {st st' : List Frame} {evs : List Ev} (fr : Frame)
    (h : nest st evs = some st') :
    evs.countP (Ev.isStartOf fr) + st.count fr = evs.countP (Ev.isStopOf fr) + st'.count fr := by
  induction evs generalizing st with
  | nil => simp [nest] at h; subst h; simp
  | cons e es ih =>
    simp only [nest] at h
    cases hs : step st e with
    | none => rw [hs] at h; simp at h
    | some s1 =>
      rw [hs] at h
      have h1 := step_count fr hs
      have h2 := ih h
      simp only [List.countP_cons]
      by_cases ha : e.isStartOf fr = true <;> by_cases hb : e.isStopOf fr = true <;>
        simp only [ha, hb, if_true] at h1 ⊢ <;> omega

/-- In a balanced stream every frame is opened exactly as often as it is closed. -/
theorem Balanced.count_eq {evs : List Ev} (h : Balanced evs) (fr : Frame) :
    evs.countP (Ev.isStartOf fr) = evs.countP (Ev.isStopOf fr) := by
  simpa using nest_count fr h

end PieModel
