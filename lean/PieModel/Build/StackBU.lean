/-
The stack discipline of the bottom-up build (see `StackTD.lean`): a returning call made in frame
`c` emits no `executeStart` for `c` or an ancestor of `c`; `buMake`/`buExec`/
`buExecAndSchedule`/`buRequireNow` on node `T` emit none for an ancestor of `T`.

`buRequireNow src` executes scheduled tasks in the cone of `src` (`src` itself or reachable from
`src`), so every ancestor of `src` is an ancestor of what is executed.
-/
import PieModel.Build.StackTD
import PieModel.Build.FrameExecBU
import PieModel.Build.QueueLemmas

namespace PieModel
open Sess SessL

variable (sem : Sem) (body : Nat → Prog)

/-! ### scheduling emits no `executeStart` -/

theorem quiet_foldl {α : Type} {tn : Nat} (g : Sess → α → Sess)
    (hg : ∀ (s : Sess) x, KQuiet tn s (g s x)) (l : List α) (s : Sess) :
    KQuiet tn s (l.foldl g s) := by
  induction l generalizing s with
  | nil => exact KQuiet.refl s
  | cons x l ih => exact (hg s x).trans (ih _)

theorem quiet_readCheckEvents (tn : Nat) (s : Sess) (t c : Nat) (stamp : Stamp)
    (res : Except Int Bool) : KQuiet tn s (readCheckEvents s t c stamp res) :=
  (KQuiet.emit s (by simp)).trans (KQuiet.emit _ (by simp))

theorem quiet_scheduleEv (tn : Nat) (s : Sess) (t tnode : Nat) : KQuiet tn s (scheduleEv s t tnode) :=
  KQuiet.of_events (evs := [.scheduleTask t]) rfl (by simp)

theorem quiet_trySchedule (tn : Nat) (s : Sess) (tnode : Nat) (d : Dep) :
    KQuiet tn s (trySchedule sem s tnode d) := by
  cases ht : s.store.taskOf tnode with
  | none => rw [trySchedule_other sem s tnode d (.inl ht)]; exact KQuiet.refl s
  | some t =>
    cases d with
    | reserved => rw [trySchedule_other sem s tnode _ (.inr (.inl rfl))]; exact KQuiet.refl s
    | require t' c stamp =>
      rw [trySchedule_other sem s tnode _ (.inr (.inr ⟨_, _, _, rfl⟩))]; exact KQuiet.refl s
    | read r c stamp =>
      rw [trySchedule_read sem s tnode t r c stamp ht]
      split
      · exact quiet_readCheckEvents tn s t c stamp _
      · exact (quiet_readCheckEvents tn s t c stamp _).trans (quiet_scheduleEv tn _ t tnode)
      next e _ =>
        have q2 : KQuiet tn (readCheckEvents s t c stamp (.error e))
            ({ readCheckEvents s t c stamp (.error e) with errors := s.errors ++ [e] } : Sess) :=
          KQuiet.of_eq rfl
        exact ((quiet_readCheckEvents tn s t c stamp _).trans q2).trans
          (quiet_scheduleEv tn _ t tnode)
    | write r c stamp =>
      rw [trySchedule_write sem s tnode t r c stamp ht]
      split
      · exact quiet_readCheckEvents tn s t c stamp _
      · exact (quiet_readCheckEvents tn s t c stamp _).trans (quiet_scheduleEv tn _ t tnode)
      next e _ =>
        have q2 : KQuiet tn (readCheckEvents s t c stamp (.error e))
            ({ readCheckEvents s t c stamp (.error e) with errors := s.errors ++ [e] } : Sess) :=
          KQuiet.of_eq rfl
        exact ((quiet_readCheckEvents tn s t c stamp _).trans q2).trans
          (quiet_scheduleEv tn _ t tnode)

theorem quiet_writtenSchedStep (tn : Nat) (s : Sess) (w : Nat) :
    KQuiet tn s (writtenSchedStep sem s w) := by
  unfold writtenSchedStep
  split
  · exact KQuiet.refl s
  · exact ((KQuiet.emit s (by simp)).trans
      (quiet_foldl _ (fun s (p : Nat × Dep) => quiet_trySchedule sem tn s p.1 p.2) _ _)).trans
      (KQuiet.emit _ (by simp))

theorem quiet_reqSchedStep (tn : Nat) (out : Int) (s : Sess) (p : Nat × Dep) :
    KQuiet tn s (reqSchedStep sem out s p) := by
  unfold reqSchedStep
  split
  · simp only
    split
    · exact (KQuiet.emit s (by simp)).trans (KQuiet.emit _ (by simp))
    · exact ((KQuiet.emit s (by simp)).trans (KQuiet.emit _ (by simp))).trans
        (KQuiet.of_events (evs := [.scheduleTask _]) rfl (by simp))
  · exact KQuiet.refl s

theorem quiet_scheduleAfterExec (tn : Nat) (s : Sess) (node t : Nat) (out : Int) :
    KQuiet tn s (scheduleAfterExec sem s node t out) := by
  rw [scheduleAfterExec_eq]
  simp only
  have q1 : KQuiet tn s ((s.store.resourcesWrittenBy node).foldl (writtenSchedStep sem) s) :=
    quiet_foldl _ (quiet_writtenSchedStep sem tn) _ s
  generalize (s.store.resourcesWrittenBy node).foldl (writtenSchedStep sem) s = s₁ at q1 ⊢
  have q2 : KQuiet tn s₁ (s₁.emit (.schedTaskStart t)) := KQuiet.emit _ (by simp)
  have q3 : KQuiet tn (s₁.emit (.schedTaskStart t))
      (((s₁.emit (.schedTaskStart t)).store.requireDepsTo node).foldl (reqSchedStep sem out)
        (s₁.emit (.schedTaskStart t))) :=
    quiet_foldl _ (quiet_reqSchedStep sem tn out) _ _
  generalize ((s₁.emit (.schedTaskStart t)).store.requireDepsTo node).foldl (reqSchedStep sem out)
    (s₁.emit (.schedTaskStart t)) = s₃ at q3 ⊢
  have q4 : KQuiet tn s₃ (s₃.emit (.schedTaskEnd t)) := KQuiet.emit _ (by simp)
  have q5 : KQuiet tn (s₃.emit (.schedTaskEnd t)) ((s₃.emit (.schedTaskEnd t)).markConsistent node) :=
    KQuiet.of_eq (by simp)
  exact (((q1.trans q2).trans q3).trans q4).trans q5

/-! ### the joint statement -/

structure KBuStack (f : Nat) : Prop where
  require : ∀ s t c s' o cur, SessWF s → s.cur = some cur →
    buRequire sem body f s t c = (s', .ok o) →
    ∀ z tz, s.store.taskOf z = some tz → KProt s.store cur z → KNoExec tz s s'
  make : ∀ s t T s' o, SessWF s → s.store.taskOf T = some t →
    buMake sem body f s t T = (s', .ok o) →
    ∀ z tz, s.store.taskOf z = some tz → s.store.g.Reach z T → KNoExec tz s s'
  exec : ∀ s t T s' o, SessWF s → s.store.taskOf T = some t →
    buExec sem body f s t T = (s', .ok o) →
    ∀ z tz, s.store.taskOf z = some tz → s.store.g.Reach z T → KNoExec tz s s'
  execAndSchedule : ∀ s T s' o, SessWF s → buExecAndSchedule sem body f s T = (s', .ok o) →
    ∀ z tz, s.store.taskOf z = some tz → s.store.g.Reach z T → KNoExec tz s s'
  requireNow : ∀ s src s' o, SessWF s → buRequireNow sem body f s src = (s', .ok o) →
    ∀ z tz, s.store.taskOf z = some tz → s.store.g.Reach z src → KNoExec tz s s'
  run : ∀ s p s' o cur, SessWF s → s.cur = some cur →
    buRun sem body f s p = (s', .ok o) →
    ∀ z tz, s.store.taskOf z = some tz → KProt s.store cur z → KNoExec tz s s'

variable {sem body}

theorem buStack_zero : KBuStack sem body 0 := by
  refine ⟨?_, ?_, ?_, ?_, ?_, ?_⟩
  · intro s t c s' o cur _ _ h; simp only [buRequire] at h; cases h
  · intro s t T s' o _ _ h; simp only [buMake] at h; cases h
  · intro s t T s' o _ _ h; simp only [buExec] at h; cases h
  · intro s T s' o _ h; simp only [buExecAndSchedule] at h; cases h
  · intro s T s' o _ h; simp only [buRequireNow] at h; cases h
  · intro s p s' o cur _ _ h; simp only [buRun] at h; cases h

section Steps
variable {f : Nat} (ih : KBuStack sem body f)
include ih

theorem buRequire_stack (s : Sess) (t c : Nat) (s' : Sess) (o : Int) (cur : Nat) (h : SessWF s)
    (hc : s.cur = some cur) (hr : buRequire sem body (f + 1) s t c = (s', .ok o))
    (z tz : Nat) (hz : s.store.taskOf z = some tz) (hp : KProt s.store cur z) :
    KNoExec tz s s' := by
  simp only [buRequire] at hr
  split at hr
  · cases hr
  · rename_i s₁ heq
    split at hr
    · cases hr
    · rename_i s₂ out heq₂
      split at hr
      · cases hr
      · rename_i s₃ heq₃
        have hs : s'.trace = s₃.trace := by cases hr; simp
        have h0 := h.emit (.requireStart t c)
        have l0 := (Lk.emit h (.requireStart t c)).trans (Lk.getTask h0 t)
        have hd := Store.taskOf_getOrCreateTaskNode_self h0.store t
        have l1 : Lk _ s₁ := Lk.of_call (reserveRequire_ext l0.wf ⟨t, hd⟩) (ext_reserveRequire _ _) heq
        have hcA : ({ s.emit (.requireStart t c) with
            store := ((s.emit (.requireStart t c)).store.getOrCreateTaskNode t).1 } : Sess).cur
            = some cur := hc
        rcases reserveRequire_cases hcA ((s.emit (.requireStart t c)).store.getOrCreateTaskNode t).2
          with ⟨_, hno⟩ | ⟨hok, hs1, _⟩
        · rw [heq] at hno; exact absurd rfl hno
        rw [heq] at hs1; simp only at hs1
        have hwA := h0.store.getOrCreateTaskNode t
        have hedge : s₁.store.g.HasEdge cur ((s.emit (.requireStart t c)).store.getOrCreateTaskNode t).2 := by
          rw [hs1]; exact Store.hasEdge_addDependency_of_ok hwA hok
        have hreach : s₁.store.g.Reach z ((s.emit (.requireStart t c)).store.getOrCreateTaskNode t).2 := by
          rcases hp with rfl | hp
          · exact .edge hedge
          · have r1 : ((s.emit (.requireStart t c)).store.getOrCreateTaskNode t).1.g.Reach z cur :=
              (Store.reach_getOrCreateTaskNode h0.store t z cur).mpr hp
            have r2 : s₁.store.g.Reach z cur := by
              rw [hs1]; exact Store.reach_addDependency_mono hwA _ _ _ r1
            exact r2.tail hedge
        have n2 := ih.make s₁ t _ s₂ out l1.wf (l1.task hd) heq₂ z tz ((l0.trans l1).task hz) hreach
        have ht1 := reserveRequire_eq heq
        have q0 : KQuiet tz s s₁ :=
          (KQuiet.emit s (e := .requireStart t c) (by simp)).trans
            ((KQuiet.of_eq rfl).trans (KQuiet.of_eq ht1))
        have q2 : KQuiet tz s₁ s₂ := ⟨TrPre.of_ext ((ext_buMake sem body f _ _ _).of_fst heq₂), n2⟩
        have q3 : KQuiet tz s₂ s₃ :=
          (KQuiet.emit s₂ (by simp)).trans (KQuiet.of_eq (updateRequire_eq heq₃))
        exact (q0.trans (q2.trans (q3.trans (KQuiet.of_eq hs)))).no

theorem buMake_stack (s : Sess) (t T : Nat) (s' : Sess) (o : Int) (h : SessWF s)
    (hT : s.store.taskOf T = some t) (hr : buMake sem body (f + 1) s t T = (s', .ok o))
    (z tz : Nat) (hz : s.store.taskOf z = some tz) (hp : s.store.g.Reach z T) :
    KNoExec tz s s' := by
  simp only [buMake] at hr
  split at hr
  · split at hr
    · cases hr; exact (KQuiet.refl s).no
    · cases hr
  · split at hr
    · exact ih.exec s t T s' o h hT hr z tz hz hp
    · split at hr
      · cases hr
      · rename_i s₁ o' heq
        cases hr
        exact ih.requireNow _ _ _ _ h heq z tz hz hp
      · rename_i s₁ heq
        split at hr
        · cases hr; exact ih.requireNow _ _ _ _ h heq z tz hz hp
        · cases hr

theorem buExec_stack (s : Sess) (t T : Nat) (s' : Sess) (o : Int) (h : SessWF s)
    (hT : s.store.taskOf T = some t) (hr : buExec sem body (f + 1) s t T = (s', .ok o))
    (z tz : Nat) (hz : s.store.taskOf z = some tz) (hp : s.store.g.Reach z T) :
    KNoExec tz s s' := by
  simp only [buExec] at hr
  split at hr
  · cases hr
  · rename_i s₂ o' heq₂
    have hzT : z ≠ T := by rintro rfl; exact h.store.inv.acyclic _ hp
    have hne : t ≠ tz := by rintro rfl; exact hzT (h.store.taskOf_inj hz hT)
    have l2 := Lk.startExec h hT
    have l2' := Lk.emit l2.wf (.executeStart t)
    have k2 : ∀ a, s.store.g.Reach a T →
        OutEq a s { s with store := s.store.resetTask T, cur := some T } := by
      intro a ha
      have : a ≠ T := by rintro rfl; exact h.store.inv.acyclic _ ha
      show (s.store.resetTask _).g.outgoingEdges a = _
      rw [Store.outgoingEdges_resetTask h.store, if_neg this]
    have hp2 := reach_keep h.store l2.wf.store k2 hp
    have n2 := ih.run _ _ s₂ _ T l2'.wf rfl heq₂ z tz ((l2.trans l2').task hz) (.inr hp2)
    have q2 : KQuiet tz _ s₂ := ⟨TrPre.of_ext ((ext_buRun sem body f _ _).of_fst heq₂), n2⟩
    have qe : KQuiet tz s (Sess.emit { s with store := s.store.resetTask T, cur := some T }
        (.executeStart t)) :=
      KQuiet.of_events (evs := [.executeStart t]) rfl
        (by simp only [List.mem_singleton, Ev.executeStart.injEq]; exact fun hh => hne hh.symm)
    have q3 : KQuiet tz s₂ s' := by
      cases hr
      exact KQuiet.of_events (evs := [.executeEnd t o]) (by simp) (by simp)
    exact (qe.trans (q2.trans q3)).no

theorem buExecAndSchedule_stack (s : Sess) (T : Nat) (s' : Sess) (o : Int) (h : SessWF s)
    (hr : buExecAndSchedule sem body (f + 1) s T = (s', .ok o))
    (z tz : Nat) (hz : s.store.taskOf z = some tz) (hp : s.store.g.Reach z T) :
    KNoExec tz s s' := by
  simp only [buExecAndSchedule] at hr
  split at hr
  · cases hr
  · rename_i t ht
    split at hr
    · cases hr
    · rename_i s₁ o' heq
      have n1 := ih.exec s t T s₁ o' h ht heq z tz hz hp
      have q1 : KQuiet tz s s₁ := ⟨TrPre.of_ext ((ext_buExec sem body f _ _ _).of_fst heq), n1⟩
      have hs : scheduleAfterExec sem s₁ T t o' = s' := by cases hr; rfl
      rw [← hs]
      exact (q1.trans (quiet_scheduleAfterExec sem tz s₁ T t o')).no

theorem buRequireNow_stack (s : Sess) (src : Nat) (s' : Sess) (o : Option Int) (h : SessWF s)
    (hr : buRequireNow sem body (f + 1) s src = (s', .ok o))
    (z tz : Nat) (hz : s.store.taskOf z = some tz) (hp : s.store.g.Reach z src) :
    KNoExec tz s s' := by
  simp only [buRequireNow] at hr
  split at hr
  · cases hr; exact (KQuiet.refl s).no
  · split at hr
    · cases hr; exact (KQuiet.refl s).no
    · rename_i m q hq
      have l0 : Lk s { s with queue := q } :=
        ⟨h.subQueue (fun _ hm => queuePopLeastFrom_rest_subset hq hm), TrPre.of_eq rfl⟩
      -- the popped node lies in the cone of `src`: every ancestor of `src` is an ancestor of it
      have hcone : ∀ a, s.store.g.Reach a src → s.store.g.Reach a m := by
        intro a ha
        obtain ⟨_, _, _, _, hin, _⟩ := queuePopLeastFrom_eq_some hq
        rcases inCone_iff.mp hin with rfl | hct
        · exact ha
        · exact ha.trans ((h.store.containsTransitive_iff src m).mp hct)
      split at hr
      · cases hr
      · rename_i s₁ o' heq
        have l1 : Lk _ s₁ := Lk.of_call (buExecAndSchedule_ext sem body f l0.wf m)
          (ext_buExecAndSchedule sem body f _ _) heq
        have n1 := ih.execAndSchedule { s with queue := q } m s₁ o' l0.wf heq z tz hz (hcone z hp)
        have q1 : KQuiet tz s s₁ := (KQuiet.of_eq rfl).trans ⟨l1.tr, n1⟩
        split at hr
        · have hs : s₁ = s' := by cases hr; rfl
          subst hs
          exact q1.no
        · have k1 : ∀ a, s.store.g.Reach a src → OutEq a { s with queue := q } s₁ := by
            intro a ha
            obtain ⟨ta, hta⟩ := h.store.reach_src_task ha
            exact (buFrame a ta f).execAndSchedule { s with queue := q } m s₁ o' l0.wf hta heq
              (ih.execAndSchedule { s with queue := q } m s₁ o' l0.wf heq a ta hta (hcone a ha))
          have hp1 : s₁.store.g.Reach z src :=
            reach_keep (s := { s with queue := q }) h.store l1.wf.store k1 hp
          have n2 := ih.requireNow s₁ src s' o l1.wf hr z tz ((l0.trans l1).task hz) hp1
          exact (q1.trans ⟨TrPre.of_ext ((ext_buRequireNow sem body f _ _).of_fst hr), n2⟩).no

theorem buRun_stack (s : Sess) (p : Prog) (s' : Sess) (o : Int) (cur : Nat) (h : SessWF s)
    (hc : s.cur = some cur) (hr : buRun sem body (f + 1) s p = (s', .ok o)) (z tz : Nat)
    (hz : s.store.taskOf z = some tz) (hp : KProt s.store cur z) : KNoExec tz s s' := by
  have hanc : ∀ a, s.store.g.Reach a cur → s.cur ≠ some a := by
    intro a ha hh
    rw [hc] at hh
    exact h.store.inv.acyclic _ ((Option.some.inj hh) ▸ ha)
  cases p with
  | ret v => simp only [buRun] at hr; cases hr; exact (KQuiet.refl s).no
  | panic => simp only [buRun] at hr; cases hr
  | req t c k =>
    simp only [buRun] at hr
    split at hr
    · cases hr
    · rename_i s₁ out heq
      have l1 : Lk s s₁ := Lk.of_call (buRequire_ext sem body f h t c) (ext_buRequire sem body f _ _ _) heq
      have n1 := ih.require s t c s₁ out cur h hc heq z tz hz hp
      have k1 : ∀ a, s.store.g.Reach a cur → OutEq a s s₁ := by
        intro a ha
        obtain ⟨ta, hta⟩ := h.store.reach_src_task ha
        exact (buFrame a ta f).require s t c s₁ out h hta (hanc a ha) heq
          (ih.require s t c s₁ out cur h hc heq a ta hta (.inr ha))
      have n2 := ih.run s₁ _ s' o cur l1.wf ((cur_buRequire sem body heq).trans hc) hr z tz
        (l1.task hz) (KProt.keep h.store l1.wf.store k1 hp)
      exact (KQuiet.trans ⟨l1.tr, n1⟩ ⟨TrPre.of_ext ((ext_buRun sem body f _ _).of_fst hr), n2⟩).no
  | read r c k =>
    simp only [buRun] at hr
    split at hr
    · cases hr
    · rename_i s₁ x heq
      have l1 : Lk s s₁ := Lk.of_call (doRead_ext sem h r c) (ext_doRead sem _ _ _) heq
      have k1 : ∀ a, s.store.g.Reach a cur → OutEq a s s₁ :=
        fun a ha => (outEq_doRead sem h (hanc a ha) r c).out heq
      have n2 := ih.run s₁ _ s' o cur l1.wf ((cur_of_fst (cur_doRead sem _ _ _) heq).trans hc) hr
        z tz (l1.task hz) (KProt.keep h.store l1.wf.store k1 hp)
      exact (((quiet_doRead sem tz s r c).out heq).trans
        ⟨TrPre.of_ext ((ext_buRun sem body f _ _).of_fst hr), n2⟩).no
  | write r c v k =>
    simp only [buRun] at hr
    split at hr
    · cases hr
    · rename_i s₁ x heq
      have l1 : Lk s s₁ := Lk.of_call (doWrite_ext sem h r c v) (ext_doWrite sem _ _ _ _) heq
      have k1 : ∀ a, s.store.g.Reach a cur → OutEq a s s₁ :=
        fun a ha => (outEq_doWrite sem h (hanc a ha) r c v).out heq
      have n2 := ih.run s₁ _ s' o cur l1.wf ((cur_of_fst (cur_doWrite sem _ _ _ _) heq).trans hc) hr
        z tz (l1.task hz) (KProt.keep h.store l1.wf.store k1 hp)
      exact (((quiet_doWrite sem tz s r c v).out heq).trans
        ⟨TrPre.of_ext ((ext_buRun sem body f _ _).of_fst hr), n2⟩).no
  | wrote r c v k =>
    simp only [buRun] at hr
    split at hr
    · cases hr
    · rename_i s₁ x heq
      have l1 : Lk s s₁ := Lk.of_call (doWrote_ext sem h r c v) (ext_doWrote sem _ _ _ _) heq
      have k1 : ∀ a, s.store.g.Reach a cur → OutEq a s s₁ :=
        fun a ha => (outEq_doWrote sem h (hanc a ha) r c v).out heq
      have n2 := ih.run s₁ _ s' o cur l1.wf ((cur_of_fst (cur_doWrote sem _ _ _ _) heq).trans hc) hr
        z tz (l1.task hz) (KProt.keep h.store l1.wf.store k1 hp)
      exact (((quiet_doWrote sem tz s r c v).out heq).trans
        ⟨TrPre.of_ext ((ext_buRun sem body f _ _).of_fst hr), n2⟩).no

end Steps

theorem k_buStack (f : Nat) : KBuStack sem body f := by
  induction f with
  | zero => exact buStack_zero
  | succ f ih =>
    exact ⟨buRequire_stack ih, buMake_stack ih, buExec_stack ih, buExecAndSchedule_stack ih,
      buRequireNow_stack ih, buRun_stack ih⟩

/-- **Stack discipline, bottom-up.** While the body of the task `tn` (node `node`, the current
frame) runs and returns in the bottom-up context, no execution of `tn` starts. -/
theorem buRun_noExec_self (f : Nat) {s s' : Sess} {p : Prog} {o : Int} {node tn : Nat}
    (h : SessWF s) (hc : s.cur = some node) (htn : s.store.taskOf node = some tn)
    (hr : buRun sem body f s p = (s', .ok o)) : KNoExec tn s s' :=
  (k_buStack f).run s p s' o node h hc hr node tn htn (.inl rfl)

end PieModel
