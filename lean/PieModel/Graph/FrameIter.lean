/-
Frame / effect lemmas for the two edge iterators (`outgoingEdges`, `incomingEdges`, both in
insertion order and with data) and for reachability, for the graph operations used by the
build layer (`addNode`, `setNodeData`, `removeOutgoingEdgesOfNode`, `addEdge`, `setEdgeData`).
Built on the frame lemmas for `childrenOf`/`parentsOf`/`getEdgeData` of `FrameBasic.lean` and
`FrameAddEdge.lean`.
-/
import PieModel.Graph.Refine

namespace PieModel
namespace Dag
variable {N E : Type}

theorem Reach.mono {g g' : Dag N E} (he : ∀ a b, g.HasEdge a b → g'.HasEdge a b) {a b : Nat}
    (hr : g.Reach a b) : g'.Reach a b := by
  induction hr with
  | edge h => exact .edge (he _ _ h)
  | step h _ ih => exact .step (he _ _ h) ih

theorem reach_congr {g g' : Dag N E} (hc : ∀ x, g'.childrenOf x = g.childrenOf x) (a b : Nat) :
    g'.Reach a b ↔ g.Reach a b :=
  ⟨Reach.mono (fun x y h => by simpa [HasEdge, hc] using h),
   Reach.mono (fun x y h => by simpa [HasEdge, hc] using h)⟩

/-- A path starts with an edge. -/
theorem Reach.exists_first {g : Dag N E} {a b : Nat} (hr : g.Reach a b) : ∃ c, g.HasEdge a c := by
  cases hr with
  | edge h => exact ⟨_, h⟩
  | step h _ => exact ⟨_, h⟩

/-- A path ends with an edge. -/
theorem Reach.exists_last {g : Dag N E} {a b : Nat} (hr : g.Reach a b) : ∃ c, g.HasEdge c b := by
  induction hr with
  | edge h => exact ⟨_, h⟩
  | step _ _ ih => exact ih

/-- Reachability after adding exactly one edge `s → t` to the edge set. -/
theorem reach_add_edge {g g' : Dag N E} {s t : Nat}
    (he : ∀ a b, g'.HasEdge a b ↔ g.HasEdge a b ∨ (a = s ∧ b = t)) (a b : Nat) :
    g'.Reach a b ↔ g.Reach a b ∨ ((a = s ∨ g.Reach a s) ∧ (b = t ∨ g.Reach t b)) := by
  have hst : g'.Reach s t := .edge ((he s t).mpr (.inr ⟨rfl, rfl⟩))
  have hm : ∀ {x y}, g.Reach x y → g'.Reach x y :=
    Reach.mono (fun x y h => (he x y).mpr (.inl h))
  constructor
  · intro hr
    induction hr with
    | edge h =>
      rcases (he _ _).mp h with h | ⟨rfl, rfl⟩
      · exact .inl (.edge h)
      · exact .inr ⟨.inl rfl, .inl rfl⟩
    | @step x m y h _ ih =>
      rcases (he _ _).mp h with h | ⟨rfl, rfl⟩
      · rcases ih with ih | ⟨ih1, ih2⟩
        · exact .inl (.step h ih)
        · refine .inr ⟨.inr ?_, ih2⟩
          rcases ih1 with rfl | ih1
          · exact .edge h
          · exact .step h ih1
      · rcases ih with ih | ⟨_, ih2⟩
        · exact .inr ⟨.inl rfl, .inr ih⟩
        · exact .inr ⟨.inl rfl, ih2⟩
  · rintro (h | ⟨h1, h2⟩)
    · exact hm h
    · have h1' : a = s ∨ g'.Reach a s := h1.imp id hm
      have h2' : b = t ∨ g'.Reach t b := h2.imp id hm
      rcases h1' with rfl | h1' <;> rcases h2' with rfl | h2'
      · exact hst
      · exact hst.trans h2'
      · exact h1'.trans hst
      · exact (h1'.trans hst).trans h2'

theorem outgoingEdges_of_not_live (g : Dag N E) {n : Nat} (h : g.containsNode n = false) :
    g.outgoingEdges n = [] := by
  simp [outgoingEdges, childrenOf_of_not_live g h]

theorem incomingEdges_of_not_live (g : Dag N E) {n : Nat} (h : g.containsNode n = false) :
    g.incomingEdges n = [] := by
  simp [incomingEdges, parentsOf_of_not_live g h]

theorem WF.getEdgeData_live {g : Dag N E} (h : g.WF) {a b : Nat} {d : E}
    (he : g.getEdgeData a b = some d) : g.containsNode a = true ∧ g.containsNode b = true :=
  h.edge_live a b (by rw [show aget g.edata (a, b) = g.getEdgeData a b from rfl, he]; rfl)

theorem WF.hasEdge_iff_getEdgeData {g : Dag N E} (h : g.WF) (a b : Nat) :
    g.HasEdge a b ↔ ∃ d, g.getEdgeData a b = some d := by
  rw [← getEdgeData_isSome_iff h, Option.isSome_iff_exists]


/-! ### addNode -/

section AddNode
variable {g : Dag N E}

theorem outgoingEdges_addNode (h : g.WF) (d : N) (x : Nat) :
    (g.addNode d).1.outgoingEdges x = g.outgoingEdges x :=
  outgoingEdges_congr x (childrenOf_addNode d h x) (fun _ _ => rfl)

theorem incomingEdges_addNode (h : g.WF) (d : N) (x : Nat) :
    (g.addNode d).1.incomingEdges x = g.incomingEdges x :=
  incomingEdges_congr x (parentsOf_addNode d h x) (fun _ _ => rfl)

theorem reach_addNode (h : g.WF) (d : N) (a b : Nat) :
    (g.addNode d).1.Reach a b ↔ g.Reach a b := reach_congr (childrenOf_addNode d h) a b

end AddNode

/-! ### setNodeData -/

@[simp] theorem outgoingEdges_setNodeData (g : Dag N E) (n : Nat) (d : N) (x : Nat) :
    (g.setNodeData n d).outgoingEdges x = g.outgoingEdges x :=
  outgoingEdges_congr x (childrenOf_setNodeData g n d x) (fun _ _ => rfl)

@[simp] theorem incomingEdges_setNodeData (g : Dag N E) (n : Nat) (d : N) (x : Nat) :
    (g.setNodeData n d).incomingEdges x = g.incomingEdges x :=
  incomingEdges_congr x (parentsOf_setNodeData g n d x) (fun _ _ => rfl)

theorem reach_setNodeData (g : Dag N E) (n : Nat) (d : N) (a b : Nat) :
    (g.setNodeData n d).Reach a b ↔ g.Reach a b :=
  reach_congr (childrenOf_setNodeData g n d) a b

/-! ### removeOutgoingEdgesOfNode -/

section RemoveOutgoing
variable {g : Dag N E}

/-- `s` loses all outgoing edges; the outgoing edges of every other node are unchanged. -/
theorem outgoingEdges_removeOutgoing (h : g.WF) (s x : Nat) :
    (g.removeOutgoingEdgesOfNode s).1.outgoingEdges x =
      if x = s then [] else g.outgoingEdges x := by
  rw [outgoingEdges_eq, childrenOf_removeOutgoing h]
  by_cases hx : x = s
  · simp [hx]
  · simp only [hx, if_false]
    rw [outgoingEdges_eq]
    apply filterMap_pair_congr
    intro c _
    rw [getEdgeData_removeOutgoing h, if_neg hx]

/-- `s` is erased from every incoming list (order of the rest and data kept). -/
theorem incomingEdges_removeOutgoing (h : g.WF) (s x : Nat) :
    (g.removeOutgoingEdgesOfNode s).1.incomingEdges x =
      (g.incomingEdges x).filter (fun p => p.1 != s) := by
  rw [incomingEdges_eq, parentsOf_removeOutgoing h, erase_eq_filter_of_nodup (h.parents_nodup x),
    incomingEdges_eq]
  apply filterMap_pair_filter (fun p => g.getEdgeData p x)
    (fun p => (g.removeOutgoingEdgesOfNode s).1.getEdgeData p x) _ (fun p => p != s)
  intro c _ hq
  have : c ≠ s := by simpa using hq
  rw [getEdgeData_removeOutgoing h, if_neg this]

theorem hasEdge_removeOutgoing (h : g.WF) (s a b : Nat) :
    (g.removeOutgoingEdgesOfNode s).1.HasEdge a b ↔ a ≠ s ∧ g.HasEdge a b := by
  simp only [HasEdge, childrenOf_removeOutgoing h]
  by_cases ha : a = s <;> simp [ha]

/-- Reachability only shrinks. -/
theorem reach_removeOutgoing (h : g.WF) (s : Nat) {a b : Nat}
    (hr : (g.removeOutgoingEdgesOfNode s).1.Reach a b) : g.Reach a b :=
  hr.mono (fun _ _ he => ((hasEdge_removeOutgoing h s _ _).mp he).2)

end RemoveOutgoing

/-! ### addEdge -/

section AddEdge
variable {g : Dag N E}

section New
variable (h : g.Inv) {s t : Nat} {d : E} (hr : (g.addEdge s t d).2 = .ok true)
include h hr

/-- A new edge is appended at the end of the outgoing edges of `s`. -/
theorem outgoingEdges_addEdge_new (x : Nat) :
    (g.addEdge s t d).1.outgoingEdges x =
      if x = s then g.outgoingEdges x ++ [(t, d)] else g.outgoingEdges x := by
  obtain ⟨_, _, _, hc, _⟩ := addEdge_new_shape h hr
  rw [outgoingEdges_eq, childrenOf_addEdge_new h hr]
  by_cases hx : x = s
  · subst hx
    simp only [if_true, List.filterMap_append]
    congr 1
    · rw [outgoingEdges_eq]
      apply filterMap_pair_congr
      intro c hcm
      have : c ≠ t := by rintro rfl; exact hc hcm
      rw [getEdgeData_addEdge_new h hr, if_neg (fun hh => this hh.2)]
    · simp [getEdgeData_addEdge_new h hr]
  · simp only [hx, if_false]
    rw [outgoingEdges_eq]
    apply filterMap_pair_congr
    intro c _
    rw [getEdgeData_addEdge_new h hr, if_neg (fun hh => hx hh.1)]

/-- A new edge is appended at the end of the incoming edges of `t`. -/
theorem incomingEdges_addEdge_new (x : Nat) :
    (g.addEdge s t d).1.incomingEdges x =
      if x = t then g.incomingEdges x ++ [(s, d)] else g.incomingEdges x := by
  obtain ⟨_, _, _, hc, _⟩ := addEdge_new_shape h hr
  have hp : s ∉ g.parentsOf t := fun hp => hc ((h.child_iff_parent s t).mpr hp)
  rw [incomingEdges_eq, parentsOf_addEdge_new h hr]
  by_cases hx : x = t
  · subst hx
    simp only [if_true, List.filterMap_append]
    congr 1
    · rw [incomingEdges_eq]
      apply filterMap_pair_congr (fun p => g.getEdgeData p x)
      intro c hcm
      have : c ≠ s := by rintro rfl; exact hp hcm
      rw [getEdgeData_addEdge_new h hr, if_neg (fun hh => this hh.1)]
    · simp [getEdgeData_addEdge_new h hr]
  · simp only [hx, if_false]
    rw [incomingEdges_eq]
    apply filterMap_pair_congr (fun p => g.getEdgeData p x)
    intro c _
    rw [getEdgeData_addEdge_new h hr, if_neg (fun hh => hx hh.2)]

theorem hasEdge_addEdge_new (a b : Nat) :
    (g.addEdge s t d).1.HasEdge a b ↔ g.HasEdge a b ∨ (a = s ∧ b = t) := by
  simp only [HasEdge, childrenOf_addEdge_new h hr]
  by_cases ha : a = s <;> simp [ha]

/-- Reachability after inserting a new edge. -/
theorem reach_addEdge_new (a b : Nat) :
    (g.addEdge s t d).1.Reach a b ↔
      g.Reach a b ∨ ((a = s ∨ g.Reach a s) ∧ (b = t ∨ g.Reach t b)) :=
  reach_add_edge (hasEdge_addEdge_new h hr) a b

end New

/-- `addEdge` never removes an edge. -/
theorem reach_addEdge_mono (h : g.Inv) (s t : Nat) (d : E) {a b : Nat} (hr : g.Reach a b) :
    (g.addEdge s t d).1.Reach a b := by
  by_cases hres : (g.addEdge s t d).2 = .ok true
  · exact (reach_addEdge_new h hres a b).mpr (.inl hr)
  · rw [addEdge_fst_of_ne_ok_true h hres]; exact hr

end AddEdge

/-! ### setEdgeData -/

/-- The datum of the edge `s → t` is replaced in place. -/
theorem outgoingEdges_setEdgeData (g : Dag N E) (s t : Nat) (d : E) (x : Nat) :
    (g.setEdgeData s t d).outgoingEdges x =
      if x = s then (g.outgoingEdges x).map (fun p => if p.1 = t then (p.1, d) else p)
      else g.outgoingEdges x := by
  rw [outgoingEdges_eq, childrenOf_setEdgeData]
  by_cases hx : x = s
  · subst hx
    simp only [if_true]
    rw [outgoingEdges_eq]
    apply filterMap_pair_update
    intro c _
    rw [getEdgeData_setEdgeData]
    by_cases hct : c = t
    · subst hct; cases g.getEdgeData x c <;> simp
    · simp [hct]
  · simp only [hx, if_false]
    rw [outgoingEdges_eq]
    apply filterMap_pair_congr
    intro c _
    rw [getEdgeData_setEdgeData, if_neg (fun hh => hx hh.1)]

theorem incomingEdges_setEdgeData (g : Dag N E) (s t : Nat) (d : E) (x : Nat) :
    (g.setEdgeData s t d).incomingEdges x =
      if x = t then (g.incomingEdges x).map (fun p => if p.1 = s then (p.1, d) else p)
      else g.incomingEdges x := by
  rw [incomingEdges_eq, parentsOf_setEdgeData]
  by_cases hx : x = t
  · subst hx
    simp only [if_true]
    rw [incomingEdges_eq]
    apply filterMap_pair_update (fun p => g.getEdgeData p x)
    intro c _
    rw [getEdgeData_setEdgeData]
    by_cases hcs : c = s
    · subst hcs; cases g.getEdgeData c x <;> simp
    · simp [hcs]
  · simp only [hx, if_false]
    rw [incomingEdges_eq]
    apply filterMap_pair_congr (fun p => g.getEdgeData p x)
    intro c _
    rw [getEdgeData_setEdgeData, if_neg (fun hh => hx hh.2.1)]

theorem reach_setEdgeData (g : Dag N E) (s t : Nat) (d : E) (a b : Nat) :
    (g.setEdgeData s t d).Reach a b ↔ g.Reach a b :=
  reach_congr (childrenOf_setEdgeData g s t d) a b

end Dag
end PieModel
