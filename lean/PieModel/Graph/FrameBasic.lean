/-
Frame / effect lemmas (property C11, part 1): what `addNode`, `setNodeData`, `setEdgeData`,
`removeEdge` and `removeOutgoingEdgesOfNode` do to the observable state
`(ids, containsNode, childrenOf, parentsOf, getEdgeData, getNodeData, topoOf)`.

Every lemma is an equation "observation after = expression in observations before", so that
it can be used by `rw`/`simp`.  `removeNode` is in `FrameRemoveNode.lean`, `addEdge` in
`FrameAddEdge.lean`.
-/
import PieModel.Graph.AddEdgeInv

namespace PieModel
namespace Dag
variable {N E : Type}

/-! ### reading observations off `info` -/

theorem getNodeData_eq (g : Dag N E) (n : Nat) : g.getNodeData n = (g.info n).map (·.data) := rfl

theorem getEdgeData_eq (g : Dag N E) (a b : Nat) : g.getEdgeData a b = aget g.edata (a, b) := rfl

theorem getNodeData_of_not_live (g : Dag N E) {n : Nat} (h : g.containsNode n = false) :
    g.getNodeData n = none := by
  simp [containsNode] at h; simp [getNodeData, h]

theorem getNodeData_isSome (g : Dag N E) (n : Nat) :
    (g.getNodeData n).isSome = g.containsNode n := by
  simp [getNodeData, containsNode]

theorem containsNode_eq_of_ids {g g' : Dag N E} (h : g'.ids = g.ids) (x : Nat) :
    g'.containsNode x = g.containsNode x := by
  rw [Bool.eq_iff_iff, containsNode_iff, containsNode_iff, h]

theorem not_live_iff (g : Dag N E) (n : Nat) : g.containsNode n = false ↔ n ∉ g.ids := by
  rw [← containsNode_iff]; simp

theorem WF.getEdgeData_isSome {g : Dag N E} (h : g.WF) (a b : Nat) :
    (g.getEdgeData a b).isSome = true ↔ b ∈ g.childrenOf a := (h.child_iff a b).symm

theorem WF.getEdgeData_eq_none {g : Dag N E} (h : g.WF) {a b : Nat} (hc : b ∉ g.childrenOf a) :
    g.getEdgeData a b = none := by
  have := (not_congr (h.child_iff a b)).mp hc
  simpa [getEdgeData] using this

theorem Inv.not_self_child {g : Dag N E} (h : g.Inv) (a : Nat) : a ∉ g.childrenOf a :=
  fun hc => Nat.lt_irrefl _ (h.upward a a hc)

/-- A duplicate-free list with one element erased is the list filtered. -/
theorem erase_eq_filter_of_nodup {l : List Nat} (h : l.Nodup) (a : Nat) :
    l.erase a = l.filter (fun x => x != a) := by
  induction l with
  | nil => rfl
  | cons b l ih =>
    simp only [List.nodup_cons] at h
    by_cases hb : b = a
    · subst hb
      have : l.filter (fun x => x != b) = l := by
        rw [List.filter_eq_self]; intro x hx
        have : x ≠ b := by rintro rfl; exact h.1 hx
        simpa using this
      simp [this]
    · simp [List.erase_cons_tail, hb, ih h.2]

/-! ### addNode -/

section AddNode
variable (g : Dag N E) (d : N)

@[simp] theorem addNode_snd : (g.addNode d).2 = g.next := rfl
@[simp] theorem next_addNode : (g.addNode d).1.next = g.next + 1 := rfl
@[simp] theorem last_addNode : (g.addNode d).1.last = g.last + 1 := rfl
@[simp] theorem edata_addNode : (g.addNode d).1.edata = g.edata := rfl
@[simp] theorem getEdgeData_addNode (a b : Nat) :
    (g.addNode d).1.getEdgeData a b = g.getEdgeData a b := rfl

theorem ids_addNode : (g.addNode d).1.ids = g.ids ++ [g.next] := by
  simp [ids, addNode]

variable {g}

/-- The id handed out by `addNode` was not live before. -/
theorem addNode_fresh (h : g.WF) : g.containsNode (g.addNode d).2 = false := h.not_live_next

theorem containsNode_addNode (h : g.WF) (x : Nat) :
    (g.addNode d).1.containsNode x = (decide (x = g.next) || g.containsNode x) := by
  simp only [containsNode, info_addNode g h d]; split <;> simp [*]

theorem childrenOf_addNode (h : g.WF) (x : Nat) :
    (g.addNode d).1.childrenOf x = g.childrenOf x := by
  have hnl : g.info g.next = none := by simpa [containsNode] using h.not_live_next
  by_cases hx : x = g.next
  · subst hx; simp [childrenOf, info_addNode g h d, hnl]
  · simp [childrenOf, info_addNode g h d, hx]

theorem parentsOf_addNode (h : g.WF) (x : Nat) :
    (g.addNode d).1.parentsOf x = g.parentsOf x := by
  have hnl : g.info g.next = none := by simpa [containsNode] using h.not_live_next
  by_cases hx : x = g.next
  · subst hx; simp [parentsOf, info_addNode g h d, hnl]
  · simp [parentsOf, info_addNode g h d, hx]

/-- The new node has no children and no parents. -/
theorem childrenOf_addNode_new (h : g.WF) : (g.addNode d).1.childrenOf g.next = [] := by
  rw [childrenOf_addNode d h]; exact childrenOf_of_not_live g h.not_live_next

theorem parentsOf_addNode_new (h : g.WF) : (g.addNode d).1.parentsOf g.next = [] := by
  rw [parentsOf_addNode d h]; exact parentsOf_of_not_live g h.not_live_next

/-- No node has the new node as child or parent. -/
theorem next_not_mem_childrenOf (h : g.WF) (x : Nat) : g.next ∉ g.childrenOf x := by
  intro hc; have := (h.child_live hc).2; simp [h.not_live_next] at this

theorem next_not_mem_parentsOf (h : g.WF) (x : Nat) : g.next ∉ g.parentsOf x := by
  intro hc; have := (h.parent_live hc).1; simp [h.not_live_next] at this

theorem getNodeData_addNode (h : g.WF) (x : Nat) :
    (g.addNode d).1.getNodeData x = if x = g.next then some d else g.getNodeData x := by
  simp only [getNodeData, info_addNode g h d]; by_cases hx : x = g.next <;> simp [hx]

theorem topoOf_addNode (h : g.WF) (x : Nat) :
    (g.addNode d).1.topoOf x = if x = g.next then g.last + 1 else g.topoOf x := by
  simp only [topoOf, info_addNode g h d]; by_cases hx : x = g.next <;> simp [hx]

end AddNode

/-! ### setNodeData -/

section SetNodeData
variable (g : Dag N E) (n : Nat) (d : N)

theorem info_setNodeData (x : Nat) : (g.setNodeData n d).info x =
    if n = x then (g.info x).map (fun i => { i with data := d }) else g.info x :=
  info_amodify g n _ x

@[simp] theorem edata_setNodeData : (g.setNodeData n d).edata = g.edata := rfl
@[simp] theorem next_setNodeData : (g.setNodeData n d).next = g.next := rfl
@[simp] theorem getEdgeData_setNodeData (a b : Nat) :
    (g.setNodeData n d).getEdgeData a b = g.getEdgeData a b := rfl

@[simp] theorem ids_setNodeData : (g.setNodeData n d).ids = g.ids := by
  simp [ids_eq_akeys, setNodeData]

@[simp] theorem containsNode_setNodeData (x : Nat) :
    (g.setNodeData n d).containsNode x = g.containsNode x :=
  containsNode_eq_of_ids (ids_setNodeData g n d) x

@[simp] theorem childrenOf_setNodeData (x : Nat) :
    (g.setNodeData n d).childrenOf x = g.childrenOf x := by
  simp only [childrenOf, info_setNodeData]; by_cases hnx : n = x <;> cases g.info x <;> simp [hnx]

@[simp] theorem parentsOf_setNodeData (x : Nat) :
    (g.setNodeData n d).parentsOf x = g.parentsOf x := by
  simp only [parentsOf, info_setNodeData]; by_cases hnx : n = x <;> cases g.info x <;> simp [hnx]

@[simp] theorem topoOf_setNodeData (x : Nat) :
    (g.setNodeData n d).topoOf x = g.topoOf x := by
  simp only [topoOf, info_setNodeData]; by_cases hnx : n = x <;> cases g.info x <;> simp [hnx]

@[simp] theorem ranks_setNodeData : (g.setNodeData n d).ranks = g.ranks :=
  map_amodify_of_proj g.nodes n _ (fun i => i.topo) (fun _ => rfl)

/-- Only the datum of `n` changes, and only if `n` is live. -/
theorem getNodeData_setNodeData (x : Nat) :
    (g.setNodeData n d).getNodeData x =
      if x = n ∧ g.containsNode n = true then some d else g.getNodeData x := by
  rw [show g.containsNode n = (g.info n).isSome from rfl]
  simp only [getNodeData, info_setNodeData]
  by_cases hnx : n = x
  · subst hnx; cases g.info n <;> simp
  · have : ¬ x = n := fun hh => hnx hh.symm
    simp [hnx, this]

end SetNodeData

/-! ### setEdgeData -/

section SetEdgeData
variable (g : Dag N E) (s t : Nat) (d : E)

@[simp] theorem nodes_setEdgeData : (g.setEdgeData s t d).nodes = g.nodes := rfl
@[simp] theorem next_setEdgeData : (g.setEdgeData s t d).next = g.next := rfl
@[simp] theorem info_setEdgeData (x : Nat) : (g.setEdgeData s t d).info x = g.info x := rfl
@[simp] theorem ids_setEdgeData : (g.setEdgeData s t d).ids = g.ids := rfl
@[simp] theorem ranks_setEdgeData : (g.setEdgeData s t d).ranks = g.ranks := rfl
@[simp] theorem containsNode_setEdgeData (x : Nat) :
    (g.setEdgeData s t d).containsNode x = g.containsNode x := rfl
@[simp] theorem childrenOf_setEdgeData (x : Nat) :
    (g.setEdgeData s t d).childrenOf x = g.childrenOf x := rfl
@[simp] theorem parentsOf_setEdgeData (x : Nat) :
    (g.setEdgeData s t d).parentsOf x = g.parentsOf x := rfl
@[simp] theorem topoOf_setEdgeData (x : Nat) :
    (g.setEdgeData s t d).topoOf x = g.topoOf x := rfl
@[simp] theorem getNodeData_setEdgeData (x : Nat) :
    (g.setEdgeData s t d).getNodeData x = g.getNodeData x := rfl

/-- Only the datum of the edge `s → t` changes, and only if that edge is present. -/
theorem getEdgeData_setEdgeData (a b : Nat) :
    (g.setEdgeData s t d).getEdgeData a b =
      if a = s ∧ b = t ∧ (g.getEdgeData s t).isSome = true then some d else g.getEdgeData a b := by
  rw [show g.getEdgeData s t = aget g.edata (s, t) from rfl]
  simp only [getEdgeData, setEdgeData, aget_amodify]
  by_cases hab : (s, t) = (a, b)
  · simp only [Prod.mk.injEq] at hab
    obtain ⟨rfl, rfl⟩ := hab
    cases aget g.edata (s, t) <;> simp
  · have : ¬ (a = s ∧ b = t ∧ (aget g.edata (s, t)).isSome = true) := by
      rintro ⟨rfl, rfl, _⟩; exact hab rfl
    simp [hab, this]

end SetEdgeData

/-! ### removeEdge -/

section RemoveEdge
variable {g : Dag N E}

theorem removeEdge_of_edge (h : g.WF) {s t : Nat} (hc : t ∈ g.childrenOf s) :
    g.removeEdge s t = (g.removeEdgeCore s t, g.getEdgeData s t) := by
  obtain ⟨hs, ht⟩ := h.child_live hc
  simp only [containsNode, Option.isSome_iff_exists] at hs ht
  obtain ⟨si, hsi⟩ := hs
  obtain ⟨ti, hti⟩ := ht
  have hc' : t ∈ si.children := by simpa [childrenOf, hsi] using hc
  unfold removeEdge
  simp [hsi, hti, hc', removeEdgeCore, getEdgeData]

theorem removeEdge_of_not_edge (g : Dag N E) {s t : Nat} (hc : t ∉ g.childrenOf s) :
    g.removeEdge s t = (g, none) := by
  unfold removeEdge
  split
  · rename_i si _ hsi _
    have hc' : t ∉ si.children := by simpa [childrenOf, hsi] using hc
    simp [hc']
  · rfl

/-- The value returned by `removeEdge` is the data of the edge (`none` if there is no such edge). -/
theorem removeEdge_snd (h : g.WF) (s t : Nat) : (g.removeEdge s t).2 = g.getEdgeData s t := by
  by_cases hc : t ∈ g.childrenOf s
  · rw [removeEdge_of_edge h hc]
  · rw [removeEdge_of_not_edge g hc, h.getEdgeData_eq_none hc]

/-- Without the edge the graph is unchanged. -/
theorem removeEdge_fst_of_not_edge (g : Dag N E) {s t : Nat} (hc : t ∉ g.childrenOf s) :
    (g.removeEdge s t).1 = g := by rw [removeEdge_of_not_edge g hc]

theorem removeEdge_snd_eq_none_iff (h : g.WF) (s t : Nat) :
    (g.removeEdge s t).2 = none ↔ ¬ g.HasEdge s t := by
  rw [removeEdge_snd h, HasEdge, ← h.getEdgeData_isSome]; cases g.getEdgeData s t <;> simp

theorem childrenOf_removeEdgeCore (g : Dag N E) (s t x : Nat) :
    (g.removeEdgeCore s t).childrenOf x =
      if x = s then (g.childrenOf x).erase t else g.childrenOf x := by
  simp only [childrenOf, info_removeEdgeCore]
  by_cases h2 : s = x
  · subst h2; cases hx : g.info s <;> simp
  · have : ¬ x = s := fun hh => h2 hh.symm
    cases hx : g.info x <;> simp [h2, this]

theorem parentsOf_removeEdgeCore (g : Dag N E) (s t x : Nat) :
    (g.removeEdgeCore s t).parentsOf x =
      if x = t then (g.parentsOf x).erase s else g.parentsOf x := by
  simp only [parentsOf, info_removeEdgeCore]
  by_cases h2 : t = x
  · subst h2; cases hx : g.info t <;> simp
  · have : ¬ x = t := fun hh => h2 hh.symm
    cases hx : g.info x <;> simp [h2, this]

theorem ids_removeEdge (g : Dag N E) (s t : Nat) : (g.removeEdge s t).1.ids = g.ids := by
  rcases removeEdge_fst g s t with h' | h' <;> rw [h']
  simp [ids_eq_akeys, removeEdgeCore]

theorem next_removeEdge (g : Dag N E) (s t : Nat) : (g.removeEdge s t).1.next = g.next := by
  rcases removeEdge_fst g s t with h' | h' <;> rw [h']; rfl

theorem containsNode_removeEdge (g : Dag N E) (s t x : Nat) :
    (g.removeEdge s t).1.containsNode x = g.containsNode x :=
  containsNode_eq_of_ids (ids_removeEdge g s t) x

theorem getNodeData_removeEdge (g : Dag N E) (s t x : Nat) :
    (g.removeEdge s t).1.getNodeData x = g.getNodeData x := by
  rcases removeEdge_fst g s t with h' | h' <;> rw [h']
  simp only [getNodeData, info_removeEdgeCore]; cases g.info x <;> simp

theorem topoOf_removeEdge (g : Dag N E) (s t x : Nat) :
    (g.removeEdge s t).1.topoOf x = g.topoOf x := by
  rcases removeEdge_fst g s t with h' | h' <;> rw [h']
  simp only [topoOf, info_removeEdgeCore]; cases g.info x <;> simp

theorem ranks_removeEdge (g : Dag N E) (s t : Nat) : (g.removeEdge s t).1.ranks = g.ranks := by
  rcases removeEdge_fst g s t with h' | h' <;> rw [h']
  show List.map (fun kv => kv.2.topo) (amodify (amodify g.nodes s _) t _) =
    List.map (fun kv => kv.2.topo) g.nodes
  rw [topo_amodify, topo_amodify] <;> intro i <;> rfl

/-- Children of `s` lose `t`; all other children lists are unchanged. -/
theorem childrenOf_removeEdge (h : g.WF) (s t x : Nat) :
    (g.removeEdge s t).1.childrenOf x =
      if x = s then (g.childrenOf x).erase t else g.childrenOf x := by
  by_cases hc : t ∈ g.childrenOf s
  · rw [removeEdge_of_edge h hc]; exact childrenOf_removeEdgeCore g s t x
  · rw [removeEdge_of_not_edge g hc]
    split
    · rename_i hx; subst hx; rw [List.erase_of_not_mem hc]
    · rfl

/-- Parents of `t` lose `s`; all other parents lists are unchanged. -/
theorem parentsOf_removeEdge (h : g.WF) (s t x : Nat) :
    (g.removeEdge s t).1.parentsOf x =
      if x = t then (g.parentsOf x).erase s else g.parentsOf x := by
  by_cases hc : t ∈ g.childrenOf s
  · rw [removeEdge_of_edge h hc]; exact parentsOf_removeEdgeCore g s t x
  · rw [removeEdge_of_not_edge g hc]
    split
    · rename_i hx; subst hx
      rw [List.erase_of_not_mem (fun hp => hc ((h.child_iff_parent s x).mpr hp))]
    · rfl

/-- Exactly the datum of `s → t` disappears. -/
theorem getEdgeData_removeEdge (h : g.WF) (s t a b : Nat) :
    (g.removeEdge s t).1.getEdgeData a b =
      if a = s ∧ b = t then none else g.getEdgeData a b := by
  by_cases hc : t ∈ g.childrenOf s
  · rw [removeEdge_of_edge h hc]
    show aget (aerase g.edata (s, t)) (a, b) = _
    rw [aget_aerase _ h.keys_nodup]
    by_cases hab : (s, t) = (a, b)
    · simp only [Prod.mk.injEq] at hab; simp [hab.1.symm, hab.2.symm]
    · have : ¬ (a = s ∧ b = t) := fun hh => hab (by rw [hh.1, hh.2])
      simp [hab, this, getEdgeData]
  · rw [removeEdge_of_not_edge g hc]
    split
    · rename_i hab; rw [hab.1, hab.2]; exact h.getEdgeData_eq_none hc
    · rfl

end RemoveEdge

/-! ### removeOutgoingEdgesOfNode -/

section RemoveOutgoing
variable {g : Dag N E}

theorem removeOutgoing_of_nonempty (g : Dag N E) {s : Nat} (hc : g.childrenOf s ≠ []) :
    g.removeOutgoingEdgesOfNode s = (g.removeOutgoingCore s, some (g.outgoingEdges s)) := by
  unfold removeOutgoingEdgesOfNode
  split
  · rename_i hsi; simp [childrenOf, hsi] at hc
  · rename_i si hsi
    have h1 : g.childrenOf s = si.children := by simp [childrenOf, hsi]
    rw [h1] at hc
    simp [hc, removeOutgoingCore, outgoingEdges, h1]

theorem removeOutgoing_of_empty (g : Dag N E) {s : Nat} (hc : g.childrenOf s = []) :
    g.removeOutgoingEdgesOfNode s = (g, none) := by
  unfold removeOutgoingEdgesOfNode
  split
  · rfl
  · rename_i si hsi
    have h1 : g.childrenOf s = si.children := by simp [childrenOf, hsi]
    rw [h1] at hc
    simp [hc]

/-- The returned value: all outgoing edges with their data, or `none` when there are none
(in particular when `s` is not live). -/
theorem removeOutgoing_snd (g : Dag N E) (s : Nat) :
    (g.removeOutgoingEdgesOfNode s).2 =
      if g.childrenOf s = [] then none else some (g.outgoingEdges s) := by
  split
  · rename_i hc; rw [removeOutgoing_of_empty g hc]
  · rename_i hc; rw [removeOutgoing_of_nonempty g hc]

theorem removeOutgoing_snd_isSome_iff (g : Dag N E) (s : Nat) :
    (g.removeOutgoingEdgesOfNode s).2 = some (g.outgoingEdges s) ↔
      g.containsNode s = true ∧ g.childrenOf s ≠ [] := by
  rw [removeOutgoing_snd]
  split
  · rename_i hc; simp [hc]
  · rename_i hc
    simp only [true_iff]
    refine ⟨?_, hc⟩
    cases hl : g.containsNode s
    · exact absurd (childrenOf_of_not_live g hl) hc
    · rfl

theorem ids_removeOutgoing (g : Dag N E) (s : Nat) :
    (g.removeOutgoingEdgesOfNode s).1.ids = g.ids := by
  rcases removeOutgoing_fst g s with h' | h' <;> rw [h']
  simp [ids_eq_akeys, removeOutgoingCore, akeys_foldl_amodify]

theorem next_removeOutgoing (g : Dag N E) (s : Nat) :
    (g.removeOutgoingEdgesOfNode s).1.next = g.next := by
  rcases removeOutgoing_fst g s with h' | h' <;> rw [h']; rfl

theorem containsNode_removeOutgoing (g : Dag N E) (s x : Nat) :
    (g.removeOutgoingEdgesOfNode s).1.containsNode x = g.containsNode x :=
  containsNode_eq_of_ids (ids_removeOutgoing g s) x

theorem getNodeData_removeOutgoing (h : g.WF) (s x : Nat) :
    (g.removeOutgoingEdgesOfNode s).1.getNodeData x = g.getNodeData x := by
  rcases removeOutgoing_fst g s with h' | h' <;> rw [h']
  simp only [getNodeData, info_removeOutgoingCore g h]; cases g.info x <;> simp

theorem topoOf_removeOutgoing (h : g.WF) (s x : Nat) :
    (g.removeOutgoingEdgesOfNode s).1.topoOf x = g.topoOf x := by
  rcases removeOutgoing_fst g s with h' | h' <;> rw [h']
  simp only [topoOf, info_removeOutgoingCore g h]; cases g.info x <;> simp

theorem ranks_removeOutgoing (g : Dag N E) (s : Nat) :
    (g.removeOutgoingEdgesOfNode s).1.ranks = g.ranks := by
  rcases removeOutgoing_fst g s with h' | h' <;> rw [h']
  show List.map (fun kv => kv.2.topo) (List.foldl _ (amodify g.nodes s _) _) =
    List.map (fun kv => kv.2.topo) g.nodes
  rw [ranks_foldl_amodify, topo_amodify] <;> intro i <;> rfl

/-- `s` loses all its children; nothing else changes. -/
theorem childrenOf_removeOutgoing (h : g.WF) (s x : Nat) :
    (g.removeOutgoingEdgesOfNode s).1.childrenOf x = if x = s then [] else g.childrenOf x := by
  by_cases hc : g.childrenOf s = []
  · rw [removeOutgoing_of_empty g hc]
    split
    · rename_i hx; rw [hx, hc]
    · rfl
  · rw [removeOutgoing_of_nonempty g hc]
    simp only [childrenOf, info_removeOutgoingCore g h]
    by_cases h2 : s = x
    · cases hx : g.info x <;> simp [h2, hx]
    · have : ¬ x = s := fun hh => h2 hh.symm
      cases hx : g.info x <;> simp [h2, this]

/-- `s` is erased from every parents list. -/
theorem parentsOf_removeOutgoing (h : g.WF) (s x : Nat) :
    (g.removeOutgoingEdgesOfNode s).1.parentsOf x = (g.parentsOf x).erase s := by
  by_cases hc : g.childrenOf s = []
  · rw [removeOutgoing_of_empty g hc, List.erase_of_not_mem]
    intro hp
    have := (h.child_iff_parent s x).mpr hp
    simp [hc] at this
  · rw [removeOutgoing_of_nonempty g hc]
    simp only [parentsOf, info_removeOutgoingCore g h]
    by_cases h2 : x ∈ g.childrenOf s
    · cases hx : g.info x <;> simp [h2]
    · have hp : s ∉ g.parentsOf x := fun hp => h2 ((h.child_iff_parent s x).mpr hp)
      cases hx : g.info x with
      | none => simp
      | some i =>
        have : s ∉ i.parents := by simpa [parentsOf, hx] using hp
        simp [h2, List.erase_of_not_mem this]

/-- Exactly the edge data with source `s` disappear. -/
theorem getEdgeData_removeOutgoing (h : g.WF) (s a b : Nat) :
    (g.removeOutgoingEdgesOfNode s).1.getEdgeData a b =
      if a = s then none else g.getEdgeData a b := by
  by_cases hc : g.childrenOf s = []
  · rw [removeOutgoing_of_empty g hc]
    split
    · rename_i ha; subst ha; exact h.getEdgeData_eq_none (by simp [hc])
    · rfl
  · rw [removeOutgoing_of_nonempty g hc]
    show aget (List.foldl (fun ed c => aerase ed (s, c)) g.edata (g.childrenOf s)) (a, b) = _
    rw [aget_foldl_aerase _ (fun c => (s, c)) _ h.keys_nodup]
    by_cases has : a = s
    · subst has
      by_cases hb : b ∈ g.childrenOf a
      · simp [hb]
      · have := h.getEdgeData_eq_none hb
        simp [getEdgeData] at this
        simp [this]
    · have : (a, b) ∉ (g.childrenOf s).map (fun c => (s, c)) := by
        simp; intro _ hh; exact absurd hh.symm has
      simp [this, has, getEdgeData]

end RemoveOutgoing

end Dag
end PieModel
