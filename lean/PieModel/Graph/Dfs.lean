/-
Generic specification of the work-list DFS `dfsLoop`, including fuel sufficiency.

The search is described by an adjacency function `adj`, a window predicate `ok` and a finite
universe `U` outside of which nodes have no neighbours.  Fuel `stack.length + Σ_{n ∈ U \ vis} |adj n|`
is enough for the loop to end with an empty stack: each iteration pops one entry, and a node
pushes at most `|adj n|` entries, once.
-/
import PieModel.Graph.Model
import PieModel.Graph.AList

namespace PieModel
namespace Dag

/-- Total adjacency length of the nodes of `U` not yet visited. -/
def dfsWeight (adj : Nat → List Nat) (U : List Nat) (vis : List Nat) : Nat :=
  ((U.filter (fun n => !vis.contains n)).map (fun n => (adj n).length)).sum

theorem dfsWeight_cons_U (adj : Nat → List Nat) (a : Nat) (U vis : List Nat) :
    dfsWeight adj (a :: U) vis =
      (if a ∈ vis then 0 else (adj a).length) + dfsWeight adj U vis := by
  unfold dfsWeight
  by_cases h : a ∈ vis <;> simp [h]

theorem dfsWeight_cons_le (adj : Nat → List Nat) (U vis : List Nat) (n : Nat) :
    dfsWeight adj U (n :: vis) ≤ dfsWeight adj U vis := by
  induction U with
  | nil => simp [dfsWeight]
  | cons a U ih =>
    rw [dfsWeight_cons_U, dfsWeight_cons_U]
    by_cases h1 : a = n
    · subst h1
      by_cases h2 : a ∈ vis <;> simp [h2] <;> omega
    · by_cases h2 : a ∈ vis <;> simp [h2, h1] <;> omega

theorem dfsWeight_cons_mem (adj : Nat → List Nat) {U vis : List Nat} {n : Nat}
    (hn : n ∈ U) (hv : n ∉ vis) :
    dfsWeight adj U (n :: vis) + (adj n).length ≤ dfsWeight adj U vis := by
  induction U with
  | nil => simp at hn
  | cons a U ih =>
    rw [dfsWeight_cons_U, dfsWeight_cons_U]
    by_cases h1 : a = n
    · subst h1
      have := dfsWeight_cons_le adj U vis a
      simp [hv]; omega
    · have hn' : n ∈ U := by
        rcases List.mem_cons.mp hn with h | h
        · exact absurd h.symm h1
        · exact h
      have := ih hn'
      by_cases h2 : a ∈ vis <;> simp [h2, h1] <;> omega

theorem dfsWeight_le_nil (adj : Nat → List Nat) (U vis : List Nat) :
    dfsWeight adj U vis ≤ dfsWeight adj U [] := by
  induction vis with
  | nil => exact Nat.le_refl _
  | cons a vis ih => exact Nat.le_trans (dfsWeight_cons_le adj U vis a) ih

theorem dfsWeight_nil (adj : Nat → List Nat) (U : List Nat) :
    dfsWeight adj U [] = (U.map (fun n => (adj n).length)).sum := by
  have : ∀ l : List Nat, l.filter (fun _ => true) = l := by
    intro l; induction l with
    | nil => rfl
    | cons a l ih => simp
  simp [dfsWeight, this]

/-- Generic DFS specification.  `S` is any property of a node guaranteed by a successful `step`;
`P` is any property propagated along `ok` edges. -/
theorem dfsLoop_spec
    (step : List Nat → Nat → Option (List Nat)) (adj : Nat → List Nat) (ok : Nat → Bool)
    (U : List Nat) (hadj : ∀ n, n ∉ U → adj n = [])
    (S : Nat → Prop)
    (hstep : ∀ vis n ps, step vis n = some ps →
      ps = (adj n).filter (fun c => !(vis.contains c) && ok c) ∧ S n)
    (P : Nat → Prop) (hP : ∀ x c, P x → c ∈ adj x → ok c = true → P c)
    (vis0 : List Nat) :
    ∀ (fuel : Nat) (st vis acc : List Nat),
      st.length + dfsWeight adj U vis ≤ fuel →
      vis = acc ++ vis0 → acc.Nodup → (∀ x ∈ acc, x ∉ vis0) →
      (∀ x ∈ st, P x) → (∀ x ∈ acc, P x ∧ S x) →
      (∀ x ∈ acc, ∀ c ∈ adj x, ok c = true → c ∈ vis ∨ c ∈ st) →
      (dfsLoop step fuel st vis acc = none → ∃ x vis', P x ∧ step vis' x = none) ∧
      (∀ vis' acc', dfsLoop step fuel st vis acc = some (vis', acc') →
        vis' = acc' ++ vis0 ∧ acc'.Nodup ∧ (∀ x ∈ acc', x ∉ vis0) ∧
        (∀ x ∈ acc', P x ∧ S x) ∧
        (∀ x ∈ acc', ∀ c ∈ adj x, ok c = true → c ∈ vis') ∧
        (∀ x ∈ st, x ∈ vis') ∧ (∀ x ∈ vis, x ∈ vis')) := by
  intro fuel
  induction fuel with
  | zero =>
    intro st vis acc hf hv hnd hd hPst hPacc hcl
    have hst : st = [] := by
      cases st with
      | nil => rfl
      | cons a st => simp at hf
    subst hst
    simp only [dfsLoop]
    refine ⟨by simp, ?_⟩
    intro vis' acc' heq
    simp only [Option.some.injEq, Prod.mk.injEq] at heq
    obtain ⟨rfl, rfl⟩ := heq
    refine ⟨hv, hnd, hd, hPacc, ?_, by simp, fun x hx => hx⟩
    intro x hx c hc hok
    rcases hcl x hx c hc hok with h | h
    · exact h
    · simp at h
  | succ f ih =>
    intro st vis acc hf hv hnd hd hPst hPacc hcl
    cases st with
    | nil =>
      simp only [dfsLoop]
      refine ⟨by simp, ?_⟩
      intro vis' acc' heq
      simp only [Option.some.injEq, Prod.mk.injEq] at heq
      obtain ⟨rfl, rfl⟩ := heq
      refine ⟨hv, hnd, hd, hPacc, ?_, by simp, fun x hx => hx⟩
      intro x hx c hc hok
      rcases hcl x hx c hc hok with h | h
      · exact h
      · simp at h
    | cons n st =>
      simp only [dfsLoop]
      by_cases hn : n ∈ vis
      · simp only [hn, if_true]
        have hf' : st.length + dfsWeight adj U vis ≤ f := by
          simp only [List.length_cons] at hf; omega
        have hcl' : ∀ x ∈ acc, ∀ c ∈ adj x, ok c = true → c ∈ vis ∨ c ∈ st := by
          intro x hx c hc hok
          rcases hcl x hx c hc hok with h | h
          · exact .inl h
          · rcases List.mem_cons.mp h with rfl | h
            · exact .inl hn
            · exact .inr h
        obtain ⟨h1, h2⟩ := ih st vis acc hf' hv hnd hd
          (fun x hx => hPst x (List.mem_cons_of_mem _ hx)) hPacc hcl'
        refine ⟨h1, ?_⟩
        intro vis' acc' heq
        obtain ⟨a1, a2, a3, a4, a5, a6, a7⟩ := h2 vis' acc' heq
        refine ⟨a1, a2, a3, a4, a5, ?_, a7⟩
        intro x hx
        rcases List.mem_cons.mp hx with rfl | hx
        · exact a7 _ hn
        · exact a6 x hx
      · simp only [hn, if_false]
        have hPn : P n := hPst n List.mem_cons_self
        cases hs : step (n :: vis) n with
        | none =>
          simp only
          exact ⟨fun _ => ⟨n, n :: vis, hPn, hs⟩, by simp⟩
        | some ps =>
          simp only
          obtain ⟨hps, hSn⟩ := hstep _ _ _ hs
          have hpsmem : ∀ c, c ∈ ps ↔ c ∈ adj n ∧ c ∉ n :: vis ∧ ok c = true := by
            intro c; rw [hps]; simp [List.mem_filter]
          have hpslen : ps.length ≤ (adj n).length := by
            rw [hps]; exact List.length_filter_le _ _
          have hw : ps.length + dfsWeight adj U (n :: vis) ≤ dfsWeight adj U vis := by
            by_cases hnU : n ∈ U
            · have := dfsWeight_cons_mem adj hnU hn; omega
            · have h0 : adj n = [] := hadj n hnU
              have := dfsWeight_cons_le adj U vis n
              rw [h0] at hpslen; simp at hpslen; simp [hpslen]; exact this
          have hf' : (ps.reverse ++ st).length + dfsWeight adj U (n :: vis) ≤ f := by
            simp only [List.length_cons, List.length_append, List.length_reverse] at hf ⊢; omega
          have hnacc : n ∉ acc := fun h => hn (hv ▸ List.mem_append_left _ h)
          have hnv0 : n ∉ vis0 := fun h => hn (hv ▸ List.mem_append_right _ h)
          obtain ⟨h1, h2⟩ := ih (ps.reverse ++ st) (n :: vis) (n :: acc) hf'
            (by rw [hv]; rfl)
            (List.nodup_cons.mpr ⟨hnacc, hnd⟩)
            (by
              intro x hx
              rcases List.mem_cons.mp hx with rfl | hx
              · exact hnv0
              · exact hd x hx)
            (by
              intro x hx
              rcases List.mem_append.mp hx with hx | hx
              · have := (hpsmem x).mp (List.mem_reverse.mp hx)
                exact hP n x hPn this.1 this.2.2
              · exact hPst x (List.mem_cons_of_mem _ hx))
            (by
              intro x hx
              rcases List.mem_cons.mp hx with rfl | hx
              · exact ⟨hPn, hSn⟩
              · exact hPacc x hx)
            (by
              intro x hx c hc hok
              rcases List.mem_cons.mp hx with rfl | hx
              · by_cases hcv : c ∈ x :: vis
                · exact .inl hcv
                · right
                  exact List.mem_append_left _ (List.mem_reverse.mpr ((hpsmem c).mpr ⟨hc, hcv, hok⟩))
              · rcases hcl x hx c hc hok with h | h
                · exact .inl (List.mem_cons_of_mem _ h)
                · rcases List.mem_cons.mp h with rfl | h
                  · exact .inl List.mem_cons_self
                  · exact .inr (List.mem_append_right _ h))
          refine ⟨h1, ?_⟩
          intro vis' acc' heq
          obtain ⟨a1, a2, a3, a4, a5, a6, a7⟩ := h2 vis' acc' heq
          refine ⟨a1, a2, a3, a4, a5, ?_, fun x hx => a7 x (List.mem_cons_of_mem _ hx)⟩
          intro x hx
          rcases List.mem_cons.mp hx with rfl | hx
          · exact a7 _ List.mem_cons_self
          · exact a6 x (List.mem_append_right _ hx)

end Dag
end PieModel
