/-
Frame / effect lemmas (property C11, part 1) for `addEdge`:

* the verdict (`addEdge_ok_true_iff`, `addEdge_ok_false_iff`; errors: `addEdge_cycle_iff`,
  `addEdge_missing_iff` in `AddEdgeInv.lean`),
* an existing edge is a no-op: position *and* data kept (`addEdge_fst_of_ne_ok_true`),
* a new edge is appended to `childrenOf s` and `parentsOf t`, its data stored, and nothing else
  but ranks changes.
-/
import PieModel.Graph.FrameRemoveNode

namespace PieModel
namespace Dag
variable {N E : Type} {g : Dag N E}

/-! ### rank assignment does not touch anything but ranks -/

theorem childrenOf_setTopo (g : Dag N E) (k t x : Nat) :
    (g.setTopo k t).childrenOf x = g.childrenOf x := by
  simp only [childrenOf, info_setTopo]; by_cases hk : k = x <;> cases g.info x <;> simp [hk]

theorem parentsOf_setTopo (g : Dag N E) (k t x : Nat) :
    (g.setTopo k t).parentsOf x = g.parentsOf x := by
  simp only [parentsOf, info_setTopo]; by_cases hk : k = x <;> cases g.info x <;> simp [hk]

theorem getNodeData_setTopo (g : Dag N E) (k t x : Nat) :
    (g.setTopo k t).getNodeData x = g.getNodeData x := by
  simp only [getNodeData, info_setTopo]; by_cases hk : k = x <;> cases g.info x <;> simp [hk]

theorem foldl_setTopo_obs (l : List (Nat × Nat)) (g : Dag N E) (x : Nat) :
    (l.foldl (fun g kt => g.setTopo kt.1 kt.2) g).childrenOf x = g.childrenOf x ∧
    (l.foldl (fun g kt => g.setTopo kt.1 kt.2) g).parentsOf x = g.parentsOf x ∧
    (l.foldl (fun g kt => g.setTopo kt.1 kt.2) g).getNodeData x = g.getNodeData x := by
  induction l generalizing g with
  | nil => simp
  | cons p l ih =>
    simp only [List.foldl_cons]
    obtain ⟨h1, h2, h3⟩ := ih (g.setTopo p.1 p.2)
    exact ⟨h1.trans (childrenOf_setTopo g _ _ x), h2.trans (parentsOf_setTopo g _ _ x),
      h3.trans (getNodeData_setTopo g _ _ x)⟩

/-! ### the verdict -/

/-- The four possible results. -/
theorem except_cases (r : Except GErr Bool) :
    r = .error .nodeMissing ∨ r = .error .cycle ∨ r = .ok false ∨ r = .ok true := by
  rcases r with (_ | _) | (_ | _) <;> simp

/-- Shape of `addEdge` under the invariant: either nothing happens, or the result is `.ok true`
and the new graph is the intermediate graph `addEdgeG3` with some ranks reassigned. -/
theorem addEdge_shape (h : g.Inv) (s t : Nat) (d : E) :
    ((g.addEdge s t d).1 = g ∧ (g.addEdge s t d).2 ≠ .ok true ∧
      ((g.addEdge s t d).2 = .ok false ↔ t ∈ g.childrenOf s)) ∨
    ((g.addEdge s t d).2 = .ok true ∧ g.containsNode s = true ∧ g.containsNode t = true ∧
      s ≠ t ∧ t ∉ g.childrenOf s ∧
      ∃ l : List (Nat × Nat),
        (g.addEdge s t d).1 = l.foldl (fun g kt => g.setTopo kt.1 kt.2) (g.addEdgeG3 s t d)) := by
  rw [addEdge_eq g h.child_iff_parent]
  by_cases hlive : g.containsNode s = false ∨ g.containsNode t = false
  · left
    simp only [hlive, if_true]
    refine ⟨trivial, by simp, ?_⟩
    simp only [reduceCtorEq, false_iff]
    intro hc
    have := h.child_live hc
    rcases hlive with h' | h' <;> simp [h'] at this
  · simp only [hlive, if_false]
    have hs : g.containsNode s = true := by
      cases hh : g.containsNode s <;> simp [hh] at hlive ⊢
    have ht : g.containsNode t = true := by
      cases hh : g.containsNode t <;> simp [hh] at hlive ⊢
    by_cases hst : s = t
    · left
      simp only [hst, if_true]
      refine ⟨trivial, by simp, ?_⟩
      simp only [reduceCtorEq, false_iff]
      exact h.not_self_child t
    · simp only [hst, if_false]
      by_cases hc : t ∈ g.childrenOf s
      · left; simp [hc]
      · rw [if_neg hc]
        by_cases hlt : g.topoOf t < g.topoOf s
        · rw [if_pos hlt]
          cases hF : (g.addEdgeG3 s t d).dfsForward t (g.topoOf s) with
          | none => left; simp [hc]
          | some F =>
            right
            refine ⟨rfl, hs, ht, hst, hc, _, reorderNodes_eq _ _ _⟩
        · right
          rw [if_neg hlt]
          exact ⟨rfl, hs, ht, hst, hc, [], rfl⟩

/-- `.ok false` exactly when the edge is already there. -/
theorem addEdge_ok_false_iff (h : g.Inv) (s t : Nat) (d : E) :
    (g.addEdge s t d).2 = .ok false ↔ g.HasEdge s t := by
  rcases addEdge_shape h s t d with ⟨_, _, h3⟩ | ⟨h1, _, _, _, h5, _⟩
  · exact h3
  · rw [h1]; simp [HasEdge, h5]

/-- `.ok true` exactly when both endpoints are live and distinct, the edge is new, and the
destination does not reach the source. -/
theorem addEdge_ok_true_iff (h : g.Inv) (s t : Nat) (d : E) :
    (g.addEdge s t d).2 = .ok true ↔
      (g.containsNode s = true ∧ g.containsNode t = true ∧ s ≠ t ∧ ¬ g.HasEdge s t ∧
        ¬ g.Reach t s) := by
  constructor
  · intro hr
    rcases addEdge_shape h s t d with ⟨_, h2, _⟩ | ⟨_, hs, ht, hst, hc, _⟩
    · exact absurd hr h2
    · refine ⟨hs, ht, hst, hc, ?_⟩
      intro hreach
      have := (addEdge_cycle_iff h s t d hs ht).mpr (.inr hreach)
      rw [hr] at this; cases this
  · rintro ⟨hs, ht, hst, hc, hreach⟩
    rcases except_cases (g.addEdge s t d).2 with hr | hr | hr | hr
    · have := (addEdge_missing_iff g s t d).mp hr
      rcases this with h' | h' <;> simp [h'] at hs ht
    · rcases (addEdge_cycle_iff h s t d hs ht).mp hr with h' | h'
      · exact absurd h' hst
      · exact absurd h' hreach
    · exact absurd ((addEdge_ok_false_iff h s t d).mp hr) hc
    · exact hr

/-- Anything but `.ok true` leaves the graph exactly as it was — in particular re-inserting an
existing edge keeps its position in both adjacency lists *and* its data. -/
theorem addEdge_fst_of_ne_ok_true (h : g.Inv) {s t : Nat} {d : E}
    (hr : (g.addEdge s t d).2 ≠ .ok true) : (g.addEdge s t d).1 = g := by
  rcases addEdge_shape h s t d with ⟨h1, _, _⟩ | ⟨h1, _⟩
  · exact h1
  · exact absurd h1 hr

theorem addEdge_existing_noop (h : g.Inv) {s t : Nat} (d : E) (he : g.HasEdge s t) :
    g.addEdge s t d = (g, .ok false) := by
  have h2 := (addEdge_ok_false_iff h s t d).mpr he
  have h1 : (g.addEdge s t d).1 = g := addEdge_fst_of_ne_ok_true h (by rw [h2]; simp)
  exact Prod.ext h1 h2

/-! ### a new edge -/

section New
variable (h : g.Inv) {s t : Nat} {d : E} (hr : (g.addEdge s t d).2 = .ok true)
include h hr

theorem addEdge_new_shape :
    g.containsNode s = true ∧ g.containsNode t = true ∧ s ≠ t ∧ t ∉ g.childrenOf s ∧
      ∃ l : List (Nat × Nat),
        (g.addEdge s t d).1 = l.foldl (fun g kt => g.setTopo kt.1 kt.2) (g.addEdgeG3 s t d) := by
  rcases addEdge_shape h s t d with ⟨_, h2, _⟩ | ⟨_, h2⟩
  · exact absurd hr h2
  · exact h2

/-- The new child is appended to the children of `s`; other children lists are unchanged. -/
theorem childrenOf_addEdge_new (x : Nat) :
    (g.addEdge s t d).1.childrenOf x =
      if x = s then g.childrenOf x ++ [t] else g.childrenOf x := by
  obtain ⟨hs, _, _, _, l, hl⟩ := addEdge_new_shape h hr
  rw [hl, (foldl_setTopo_obs l _ x).1, childrenOf_addEdgeG3 d hs]
  by_cases hx : s = x
  · simp [hx]
  · simp [hx, Ne.symm hx]

/-- The new parent is appended to the parents of `t`; other parents lists are unchanged. -/
theorem parentsOf_addEdge_new (x : Nat) :
    (g.addEdge s t d).1.parentsOf x =
      if x = t then g.parentsOf x ++ [s] else g.parentsOf x := by
  obtain ⟨_, ht, _, _, l, hl⟩ := addEdge_new_shape h hr
  rw [hl, (foldl_setTopo_obs l _ x).2.1, parentsOf_addEdgeG3 d ht]
  by_cases hx : t = x
  · simp [hx]
  · simp [hx, Ne.symm hx]

theorem edata_addEdge_new : (g.addEdge s t d).1.edata = aset g.edata (s, t) d := by
  obtain ⟨_, _, _, _, l, hl⟩ := addEdge_new_shape h hr
  rw [hl, (foldl_setTopo_fields l _).2.2.2]; rfl

/-- The data of the new edge is the one given; all other edge data are unchanged. -/
theorem getEdgeData_addEdge_new (a b : Nat) :
    (g.addEdge s t d).1.getEdgeData a b =
      if a = s ∧ b = t then some d else g.getEdgeData a b := by
  rw [getEdgeData, edata_addEdge_new h hr, aget_aset]
  by_cases hab : (s, t) = (a, b)
  · simp only [Prod.mk.injEq] at hab; simp [hab.1.symm, hab.2.symm]
  · have : ¬ (a = s ∧ b = t) := fun hh => hab (by rw [hh.1, hh.2])
    simp [hab, this, getEdgeData]

end New

/-! ### what `addEdge` never changes -/

theorem ids_addEdge (h : g.Inv) (s t : Nat) (d : E) : (g.addEdge s t d).1.ids = g.ids := by
  rcases addEdge_shape h s t d with ⟨h1, _, _⟩ | ⟨_, _, _, _, _, l, hl⟩
  · rw [h1]
  · rw [hl, (foldl_setTopo_fields l _).1, ids_addEdgeG3]

theorem next_addEdge (h : g.Inv) (s t : Nat) (d : E) : (g.addEdge s t d).1.next = g.next := by
  rcases addEdge_shape h s t d with ⟨h1, _, _⟩ | ⟨_, _, _, _, _, l, hl⟩
  · rw [h1]
  · rw [hl, (foldl_setTopo_fields l _).2.1]; rfl

theorem containsNode_addEdge (h : g.Inv) (s t : Nat) (d : E) (x : Nat) :
    (g.addEdge s t d).1.containsNode x = g.containsNode x :=
  containsNode_eq_of_ids (ids_addEdge h s t d) x

theorem getNodeData_addEdge (h : g.Inv) (s t : Nat) (d : E) (x : Nat) :
    (g.addEdge s t d).1.getNodeData x = g.getNodeData x := by
  rcases addEdge_shape h s t d with ⟨h1, _, _⟩ | ⟨_, _, _, _, _, l, hl⟩
  · rw [h1]
  · rw [hl, (foldl_setTopo_obs l _ x).2.2]
    simp only [getNodeData, info_addEdgeG3]
    cases g.info x <;> simp

/-- Children lists other than that of `s` never change. -/
theorem childrenOf_addEdge_of_ne (h : g.Inv) (s t : Nat) (d : E) {x : Nat} (hx : x ≠ s) :
    (g.addEdge s t d).1.childrenOf x = g.childrenOf x := by
  rcases except_cases (g.addEdge s t d).2 with hr | hr | hr | hr
  · rw [addEdge_fst_of_ne_ok_true h (by rw [hr]; simp)]
  · rw [addEdge_fst_of_ne_ok_true h (by rw [hr]; simp)]
  · rw [addEdge_fst_of_ne_ok_true h (by rw [hr]; simp)]
  · rw [childrenOf_addEdge_new h hr, if_neg hx]

/-- Parents lists other than that of `t` never change. -/
theorem parentsOf_addEdge_of_ne (h : g.Inv) (s t : Nat) (d : E) {x : Nat} (hx : x ≠ t) :
    (g.addEdge s t d).1.parentsOf x = g.parentsOf x := by
  rcases except_cases (g.addEdge s t d).2 with hr | hr | hr | hr
  · rw [addEdge_fst_of_ne_ok_true h (by rw [hr]; simp)]
  · rw [addEdge_fst_of_ne_ok_true h (by rw [hr]; simp)]
  · rw [addEdge_fst_of_ne_ok_true h (by rw [hr]; simp)]
  · rw [parentsOf_addEdge_new h hr, if_neg hx]

/-- Edge data other than that of `s → t` never change. -/
theorem getEdgeData_addEdge_of_ne (h : g.Inv) (s t : Nat) (d : E) {a b : Nat}
    (hab : ¬ (a = s ∧ b = t)) :
    (g.addEdge s t d).1.getEdgeData a b = g.getEdgeData a b := by
  rcases except_cases (g.addEdge s t d).2 with hr | hr | hr | hr
  · rw [addEdge_fst_of_ne_ok_true h (by rw [hr]; simp)]
  · rw [addEdge_fst_of_ne_ok_true h (by rw [hr]; simp)]
  · rw [addEdge_fst_of_ne_ok_true h (by rw [hr]; simp)]
  · rw [getEdgeData_addEdge_new h hr, if_neg hab]

end Dag
end PieModel
