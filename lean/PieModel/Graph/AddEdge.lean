/-
`addEdge`: case analysis, the intermediate graph `addEdgeG3` (edge inserted, ranks not yet
repaired), the characterisation of the two DFSs (with fuel sufficiency), preservation of the
invariant and the cycle verdict.
-/
import PieModel.Graph.Reorder
import PieModel.Graph.Dfs

namespace PieModel
namespace Dag
variable {N E : Type}

/-- The graph inside `addEdge` after the edge `s → t` has been inserted into the adjacency lists
and the edge-data map (`g3` in the model). -/
def addEdgeG3 (g : Dag N E) (s t : Nat) (d : E) : Dag N E :=
  { g with
    nodes := amodify (amodify g.nodes s (fun i => { i with children := g.childrenOf s ++ [t] })) t
      (fun i => { i with parents := g.parentsOf t ++ [s] }),
    edata := aset g.edata (s, t) d }

/-- `addEdge` by cases (needs only that children and parents lists agree). -/
theorem addEdge_eq (g : Dag N E) (hcp : ∀ a b, b ∈ g.childrenOf a ↔ a ∈ g.parentsOf b)
    (s t : Nat) (d : E) :
    g.addEdge s t d =
      if g.containsNode s = false ∨ g.containsNode t = false then (g, .error .nodeMissing)
      else if s = t then (g, .error .cycle)
      else if t ∈ g.childrenOf s then (g, .ok false)
      else if g.topoOf t < g.topoOf s then
        match (g.addEdgeG3 s t d).dfsForward t (g.topoOf s) with
        | none => (g, .error .cycle)
        | some fwd =>
          ((g.addEdgeG3 s t d).reorderNodes fwd ((g.addEdgeG3 s t d).dfsBackward s fwd (g.topoOf t)),
            .ok true)
      else (g.addEdgeG3 s t d, .ok true) := by
  unfold addEdge
  cases hs : g.info s with
  | none => simp [containsNode, hs]
  | some si =>
    cases ht : g.info t with
    | none => simp [containsNode, ht]
    | some ti =>
      have h1 : g.childrenOf s = si.children := by simp [childrenOf, hs]
      have h2 : g.parentsOf t = ti.parents := by simp [parentsOf, ht]
      have h3 : g.topoOf s = si.topo := by simp [topoOf, hs]
      have h4 : g.topoOf t = ti.topo := by simp [topoOf, ht]
      simp only [containsNode, hs, ht, Option.isSome_some, Bool.true_eq_false, or_self, if_false]
      by_cases hst : s = t
      · simp [hst]
      · simp only [hst, if_false]
        by_cases hc : t ∈ si.children
        · simp [insertKeep, hc, h1]
        · have hp : s ∉ ti.parents := by
            rw [← h2, ← hcp, h1]; exact hc
          simp only [insertKeep, hc, hp, if_false, h1, h2, h3, h4, addEdgeG3]
          rfl

/-! ### the intermediate graph -/

theorem info_addEdgeG3 (g : Dag N E) (s t : Nat) (d : E) (x : Nat) :
    (g.addEdgeG3 s t d).info x = (g.info x).map (fun i => { i with
      children := if s = x then g.childrenOf s ++ [t] else i.children,
      parents := if t = x then g.parentsOf t ++ [s] else i.parents }) := by
  simp only [info, addEdgeG3]
  rw [aget_amodify, aget_amodify]
  by_cases h1 : t = x <;> by_cases h2 : s = x <;> cases aget g.nodes x <;> simp [h1, h2]

section G3
variable {g : Dag N E} {s t : Nat} (d : E)

theorem topoOf_addEdgeG3 (x : Nat) : (g.addEdgeG3 s t d).topoOf x = g.topoOf x := by
  simp only [topoOf, info_addEdgeG3]
  cases g.info x <;> simp

theorem ids_addEdgeG3 : (g.addEdgeG3 s t d).ids = g.ids := by
  simp [ids_eq_akeys, addEdgeG3]

theorem containsNode_addEdgeG3 (x : Nat) :
    (g.addEdgeG3 s t d).containsNode x = g.containsNode x := by
  rw [Bool.eq_iff_iff, containsNode_iff, containsNode_iff, ids_addEdgeG3]

theorem childrenOf_addEdgeG3 (hs : g.containsNode s = true) (x : Nat) :
    (g.addEdgeG3 s t d).childrenOf x =
      if s = x then g.childrenOf x ++ [t] else g.childrenOf x := by
  simp only [childrenOf, info_addEdgeG3]
  by_cases h2 : s = x
  · subst h2
    simp only [containsNode, Option.isSome_iff_exists] at hs
    obtain ⟨i, hi⟩ := hs
    simp [hi]
  · cases g.info x <;> simp [h2]

theorem parentsOf_addEdgeG3 (ht : g.containsNode t = true) (x : Nat) :
    (g.addEdgeG3 s t d).parentsOf x =
      if t = x then g.parentsOf x ++ [s] else g.parentsOf x := by
  simp only [parentsOf, info_addEdgeG3]
  by_cases h2 : t = x
  · subst h2
    simp only [containsNode, Option.isSome_iff_exists] at ht
    obtain ⟨i, hi⟩ := ht
    simp [hi]
  · cases g.info x <;> simp [h2]

theorem mem_childrenOf_addEdgeG3 (hs : g.containsNode s = true) (a b : Nat) :
    b ∈ (g.addEdgeG3 s t d).childrenOf a ↔ b ∈ g.childrenOf a ∨ (a = s ∧ b = t) := by
  rw [childrenOf_addEdgeG3 d hs]
  by_cases h : s = a
  · subst h; simp
  · simp [h, Ne.symm h]

theorem mem_parentsOf_addEdgeG3 (ht : g.containsNode t = true) (a b : Nat) :
    a ∈ (g.addEdgeG3 s t d).parentsOf b ↔ a ∈ g.parentsOf b ∨ (a = s ∧ b = t) := by
  rw [parentsOf_addEdgeG3 d ht]
  by_cases h : t = b
  · subst h; simp
  · simp [h, Ne.symm h]

theorem edata_addEdgeG3 (a b : Nat) :
    (aget (g.addEdgeG3 s t d).edata (a, b)).isSome = true ↔
      (aget g.edata (a, b)).isSome = true ∨ (a = s ∧ b = t) := by
  show (aget (aset g.edata (s, t) d) (a, b)).isSome = true ↔ _
  rw [aget_aset]
  by_cases h : (s, t) = (a, b)
  · simp only [h, if_true]
    simp only [Prod.mk.injEq] at h
    simp [h.1, h.2]
  · simp only [h, if_false]
    simp only [Prod.mk.injEq] at h
    constructor
    · exact fun hh => .inl hh
    · rintro (hh | hh)
      · exact hh
      · exact absurd ⟨hh.1.symm, hh.2.symm⟩ h

theorem wf_addEdgeG3 (h : g.WF) (hs : g.containsNode s = true) (ht : g.containsNode t = true)
    (hc : t ∉ g.childrenOf s) : (g.addEdgeG3 s t d).WF := by
  have hp : s ∉ g.parentsOf t := fun hh => hc ((h.child_iff_parent s t).mpr hh)
  have hlen : (g.addEdgeG3 s t d).nodes.length = g.nodes.length := by
    rw [← length_ids, ids_addEdgeG3, length_ids]
  refine ⟨?_, ?_, ?_, ?_, ?_, ?_, ?_, ?_, ?_, ?_⟩
  · rw [ids_addEdgeG3]; exact h.ids_nodup
  · rw [ids_addEdgeG3]; exact h.ids_lt
  · rw [hlen]
    have : (g.addEdgeG3 s t d).ranks = g.ranks := by
      show List.map (fun kv => kv.2.topo) (amodify (amodify g.nodes s _) t _) =
        List.map (fun kv => kv.2.topo) g.nodes
      rw [topo_amodify, topo_amodify] <;> intro i <;> rfl
    rw [this]; exact h.ranks_perm
  · rw [hlen]; exact h.last_eq
  · intro x
    rw [childrenOf_addEdgeG3 d hs]
    split
    · rename_i hsx; subst hsx
      rw [List.nodup_append]
      refine ⟨h.children_nodup s, by simp, ?_⟩
      intro a ha b hb
      simp at hb; subst hb; rintro rfl; exact hc ha
    · exact h.children_nodup x
  · intro x
    rw [parentsOf_addEdgeG3 d ht]
    split
    · rename_i htx; subst htx
      rw [List.nodup_append]
      refine ⟨h.parents_nodup t, by simp, ?_⟩
      intro a ha b hb
      simp at hb; subst hb; rintro rfl; exact hp ha
    · exact h.parents_nodup x
  · exact akeys_aset_nodup _ _ _ h.keys_nodup
  · intro a b
    rw [mem_childrenOf_addEdgeG3 d hs, edata_addEdgeG3, h.child_iff]
  · intro a b
    rw [mem_parentsOf_addEdgeG3 d ht, edata_addEdgeG3, h.parent_iff]
  · intro a b he
    rw [containsNode_addEdgeG3, containsNode_addEdgeG3]
    rcases (edata_addEdgeG3 d a b).mp he with he | ⟨rfl, rfl⟩
    · exact h.edge_live a b he
    · exact ⟨hs, ht⟩

theorem upward_addEdgeG3 (h : g.Inv) (hs : g.containsNode s = true) (a b : Nat)
    (he : (g.addEdgeG3 s t d).HasEdge a b) (hne : ¬ (a = s ∧ b = t)) :
    (g.addEdgeG3 s t d).topoOf a < (g.addEdgeG3 s t d).topoOf b := by
  rw [topoOf_addEdgeG3, topoOf_addEdgeG3]
  rcases (mem_childrenOf_addEdgeG3 d hs a b).mp he with he | he
  · exact h.upward a b he
  · exact absurd he hne

end G3

/-! ### fuel: the adjacency lists together are no longer than the edge-data map -/

theorem WF.sum_children_le {g : Dag N E} (h : g.WF) :
    (g.ids.map (fun n => (g.childrenOf n).length)).sum ≤ g.edata.length := by
  have hl : (g.ids.flatMap (fun a => (g.childrenOf a).map (fun c => (a, c)))).length =
      (g.ids.map (fun n => (g.childrenOf n).length)).sum := by
    rw [List.length_flatMap]; simp
  rw [← hl]
  have : g.edata.length = (akeys g.edata).length := by simp [akeys]
  rw [this]
  apply length_le_of_nodup_subset
  · rw [List.Nodup, List.pairwise_flatMap]
    constructor
    · intro a _
      exact nodup_map_on (h.children_nodup a) (by intro x _ y _ hxy; simpa using hxy)
    · apply List.Pairwise.imp _ h.ids_nodup
      intro a b hab x hx y hy hxy
      simp only [List.mem_map] at hx hy
      obtain ⟨_, _, rfl⟩ := hx
      obtain ⟨_, _, rfl⟩ := hy
      simp only [Prod.mk.injEq] at hxy
      exact hab hxy.1
  · intro p hp
    simp only [List.mem_flatMap, List.mem_map] at hp
    obtain ⟨a, _, c, hc, rfl⟩ := hp
    exact (aget_isSome_iff _ _).mp ((h.child_iff a c).mp hc)

theorem WF.sum_parents_le {g : Dag N E} (h : g.WF) :
    (g.ids.map (fun n => (g.parentsOf n).length)).sum ≤ g.edata.length := by
  have hl : (g.ids.flatMap (fun b => (g.parentsOf b).map (fun p => (p, b)))).length =
      (g.ids.map (fun n => (g.parentsOf n).length)).sum := by
    rw [List.length_flatMap]; simp
  rw [← hl]
  have : g.edata.length = (akeys g.edata).length := by simp [akeys]
  rw [this]
  apply length_le_of_nodup_subset
  · rw [List.Nodup, List.pairwise_flatMap]
    constructor
    · intro a _
      exact nodup_map_on (h.parents_nodup a) (by intro x _ y _ hxy; simpa using hxy)
    · apply List.Pairwise.imp _ h.ids_nodup
      intro a b hab x hx y hy hxy
      simp only [List.mem_map] at hx hy
      obtain ⟨_, _, rfl⟩ := hx
      obtain ⟨_, _, rfl⟩ := hy
      simp only [Prod.mk.injEq] at hxy
      exact hab hxy.2
  · intro p hp
    simp only [List.mem_flatMap, List.mem_map] at hp
    obtain ⟨b, _, a, ha, rfl⟩ := hp
    exact (aget_isSome_iff _ _).mp ((h.parent_iff a b).mp ha)

end Dag
end PieModel
