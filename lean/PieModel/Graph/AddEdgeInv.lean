/-
`addEdge` preserves the invariant; the cycle verdict is exact; a rejected insertion changes
nothing.
-/
import PieModel.Graph.AddEdgeDfs
import PieModel.Graph.RemoveNode

namespace PieModel
namespace Dag
variable {N E : Type}

/-- Everything the two DFSs deliver inside `addEdge` when the forward search succeeds. -/
theorem inv_addEdge_reorder {g : Dag N E} (h : g.Inv) {s t : Nat} (d : E)
    (hs : g.containsNode s = true) (ht : g.containsNode t = true)
    (hc : t ∉ g.childrenOf s) (hlt : g.topoOf t < g.topoOf s) {F : List Nat}
    (hF : (g.addEdgeG3 s t d).dfsForward t (g.topoOf s) = some F) :
    ((g.addEdgeG3 s t d).reorderNodes F
      ((g.addEdgeG3 s t d).dfsBackward s F (g.topoOf t))).Inv := by
  have hwf := wf_addEdgeG3 d h.toWF hs ht hc
  have hup := upward_addEdgeG3 d h hs (t := t)
  have hub : (g.addEdgeG3 s t d).topoOf s = g.topoOf s := topoOf_addEdgeG3 d s
  have hlb : (g.addEdgeG3 s t d).topoOf t = g.topoOf t := topoOf_addEdgeG3 d t
  obtain ⟨_, f2⟩ := dfsForward_spec hwf t hub hlb hlt
    (fun a b he ha => hup a b he (fun hh => ha hh.1)) (fun _ => True) trivial
    (fun _ _ _ _ _ => trivial)
  obtain ⟨f1, f2, f3, f4⟩ := f2 F hF
  obtain ⟨b1, b2, b3, b4, b5⟩ := dfsBackward_spec hwf s F hub hlb hlt
    (fun a b he hb => hup a b he (fun hh => hb hh.2))
  have hsF : s ∉ F := by
    intro hh
    have := (f3 s hh).2.1
    rw [hub] at this; omega
  have hsB : s ∈ (g.addEdgeG3 s t d).dfsBackward s F (g.topoOf t) := by
    rcases b3 with h' | h'
    · exact h'
    · exact absurd h' hsF
  exact inv_reorderNodes hwf ((containsNode_addEdgeG3 d t).trans ht) hlb hup f1 b1 b2 f2 hsB
    (fun x hx => ⟨(f3 x hx).1, (f3 x hx).2.1⟩) b4 f4 b5

theorem inv_addEdge {g : Dag N E} (h : g.Inv) (s t : Nat) (d : E) : (g.addEdge s t d).1.Inv := by
  rw [addEdge_eq g h.child_iff_parent]
  split
  · exact h
  · rename_i hlive
    have hs : g.containsNode s = true := by
      cases hh : g.containsNode s <;> simp [hh] at hlive ⊢
    have ht : g.containsNode t = true := by
      cases hh : g.containsNode t <;> simp [hh] at hlive ⊢
    split
    · exact h
    · rename_i hst
      split
      · exact h
      · rename_i hc
        split
        · rename_i hlt
          split
          · exact h
          · rename_i F hF
            exact inv_addEdge_reorder h d hs ht hc hlt hF
        · rename_i hlt
          refine ⟨wf_addEdgeG3 d h.toWF hs ht hc, ?_⟩
          intro a b he
          rw [topoOf_addEdgeG3, topoOf_addEdgeG3]
          rcases (mem_childrenOf_addEdgeG3 d hs a b).mp he with he | ⟨rfl, rfl⟩
          · exact h.upward a b he
          · have : g.topoOf a ≠ g.topoOf b := fun hh => hst (h.topo_inj hs ht hh)
            omega

/-- The cycle verdict of `addEdge` is exact. -/
theorem addEdge_cycle_iff {g : Dag N E} (h : g.Inv) (s t : Nat) (d : E)
    (hs : g.containsNode s = true) (ht : g.containsNode t = true) :
    (g.addEdge s t d).2 = .error .cycle ↔ (s = t ∨ g.Reach t s) := by
  rw [addEdge_eq g h.child_iff_parent]
  simp only [hs, ht, Bool.true_eq_false, or_self, if_false]
  by_cases hst : s = t
  · simp [hst]
  · simp only [hst, if_false, false_or]
    by_cases hc : t ∈ g.childrenOf s
    · simp only [hc, if_true]
      constructor
      · intro hh; cases hh
      · intro hr
        have h1 := h.reach_topo_lt hr
        have h2 := h.upward s t hc
        omega
    · simp only [hc, if_false]
      by_cases hlt : g.topoOf t < g.topoOf s
      · simp only [hlt, if_true]
        have hwf := wf_addEdgeG3 d h.toWF hs ht hc
        have hup := upward_addEdgeG3 d h hs (t := t)
        have hub : (g.addEdgeG3 s t d).topoOf s = g.topoOf s := topoOf_addEdgeG3 d s
        have hlb : (g.addEdgeG3 s t d).topoOf t = g.topoOf t := topoOf_addEdgeG3 d t
        obtain ⟨f1, f2⟩ := dfsForward_spec hwf t hub hlb hlt
          (fun a b he ha => hup a b he (fun hh => ha hh.1)) (fun x => x = t ∨ g.Reach t x)
          (.inl rfl)
          (by
            intro x c hx hxlt hcx
            have hxs : x ≠ s := by
              rintro rfl; rw [hub] at hxlt; omega
            have hcx' : c ∈ g.childrenOf x := by
              rcases (mem_childrenOf_addEdgeG3 d hs x c).mp hcx with h' | h'
              · exact h'
              · exact absurd h'.1 hxs
            rcases hx with rfl | hx
            · exact .inr (.edge hcx')
            · exact .inr (hx.tail hcx'))
        cases hF : (g.addEdgeG3 s t d).dfsForward t (g.topoOf s) with
        | none =>
          simp only [true_iff]
          obtain ⟨x, hx, hxlt, c, hcx, hcu⟩ := f1 hF
          rw [topoOf_addEdgeG3] at hxlt hcu
          have hxs : x ≠ s := by rintro rfl; omega
          have hcx' : c ∈ g.childrenOf x := by
            rcases (mem_childrenOf_addEdgeG3 d hs x c).mp hcx with h' | h'
            · exact h'
            · exact absurd h'.1 hxs
          have hcs : c = s := h.topo_inj (h.child_live hcx').2 hs hcu
          subst hcs
          rcases hx with rfl | hx
          · exact .edge hcx'
          · exact hx.tail hcx'
        | some F =>
          simp only
          constructor
          · intro hh; cases hh
          · intro hr
            exfalso
            obtain ⟨_, g2, g3, g4⟩ := f2 F hF
            have key : ∀ a b, g.Reach a b → b = s → a ∈ F → False := by
              intro a b hab
              induction hab with
              | edge he =>
                rename_i a b
                intro hb ha
                subst hb
                have := (g4 a ha b ((mem_childrenOf_addEdgeG3 d hs a b).mpr (.inl he))).1
                exact this hub
              | step he hr' ih =>
                rename_i a m b
                intro hb ha
                subst hb
                have hm := (g4 a ha m ((mem_childrenOf_addEdgeG3 d hs a m).mpr (.inl he))).2
                rw [topoOf_addEdgeG3] at hm
                exact ih rfl (hm (h.reach_topo_lt hr'))
            exact key t s hr rfl g2
      · simp only [hlt, if_false]
        constructor
        · intro hh; cases hh
        · intro hr
          exact absurd (h.reach_topo_lt hr) hlt

/-- A rejected insertion leaves the graph unchanged (no invariant needed). -/
theorem addEdge_error_unchanged (g : Dag N E) (s t : Nat) (d : E) (e : GErr)
    (he : (g.addEdge s t d).2 = .error e) : (g.addEdge s t d).1 = g := by
  unfold addEdge at he ⊢
  split
  · rename_i si ti hsi hti
    simp only [hsi, hti] at he
    split
    · rfl
    · rename_i hst
      simp only [hst, if_false] at he
      by_cases hc : t ∈ si.children
      · simp [insertKeep, hc]
      · by_cases hp : s ∈ ti.parents
        · simp [insertKeep, hc, hp] at he
        · simp only [insertKeep, hc, hp, if_false] at he ⊢
          simp only [Bool.not_true, Bool.false_eq_true, if_false] at he ⊢
          split
          · rename_i hlt
            simp only [hlt, if_true] at he
            split
            · rfl
            · rename_i F hF
              simp only [hF] at he
              cases he
          · rename_i hlt
            simp only [hlt, if_false] at he
            cases he
  · rfl

theorem addEdge_missing_iff (g : Dag N E) (s t : Nat) (d : E) :
    (g.addEdge s t d).2 = .error .nodeMissing ↔
      (g.containsNode s = false ∨ g.containsNode t = false) := by
  unfold addEdge
  cases hs : g.info s with
  | none => simp [containsNode, hs]
  | some si =>
    cases ht : g.info t with
    | none => simp [containsNode, ht]
    | some ti =>
      simp only [containsNode, hs, ht, Option.isSome_some, Bool.true_eq_false, or_self, iff_false]
      by_cases hst : s = t
      · simp [hst]
      · simp only [hst, if_false]
        by_cases hc : t ∈ si.children
        · simp [insertKeep, hc]
        · by_cases hp : s ∈ ti.parents
          · simp [insertKeep, hc, hp]
          · simp only [insertKeep, hc, hp, if_false]
            simp only [Bool.not_true, Bool.false_eq_true, if_false]
            split
            · split <;> simp
            · simp

end Dag
end PieModel
