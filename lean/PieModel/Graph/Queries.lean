/-
Property C11, part 2: every query answers according to the true edge set.
Direct and transitive edge tests, symmetric adjacency, outgoing/incoming iterators with their
data, the two descendant iterators and rank comparison.
-/
import PieModel.Graph.Descendants

namespace PieModel
namespace Dag
variable {N E : Type} {g : Dag N E}

/-! ### generic `filterMap` facts -/

theorem filterMap_map_some {α β : Type} (f : α → Option β) (l : List α)
    (hf : ∀ x ∈ l, (f x).isSome = true) : (l.filterMap f).map some = l.map f := by
  induction l with
  | nil => rfl
  | cons a l ih =>
    have ha := hf a List.mem_cons_self
    have ih' := ih (fun x hx => hf x (List.mem_cons_of_mem _ hx))
    cases hfa : f a with
    | none => simp [hfa] at ha
    | some b => simp [hfa, ih']

theorem filterMap_pair_fst {β : Type} (e : Nat → Option β) (l : List Nat)
    (he : ∀ x ∈ l, (e x).isSome = true) :
    (l.filterMap (fun c => (e c).map (fun d => (c, d)))).map (·.1) = l := by
  induction l with
  | nil => rfl
  | cons a l ih =>
    have ha := he a List.mem_cons_self
    have ih' := ih (fun x hx => he x (List.mem_cons_of_mem _ hx))
    cases hea : e a with
    | none => simp [hea] at ha
    | some b => simp [hea, ih']

theorem filterMap_pair_snd {β : Type} (e : Nat → Option β) (l : List Nat)
    (he : ∀ x ∈ l, (e x).isSome = true) :
    (l.filterMap (fun c => (e c).map (fun d => (c, d)))).map (fun p => some p.2) = l.map e := by
  induction l with
  | nil => rfl
  | cons a l ih =>
    have ha := he a List.mem_cons_self
    have ih' := ih (fun x hx => he x (List.mem_cons_of_mem _ hx))
    cases hea : e a with
    | none => simp [hea] at ha
    | some b => simp [hea, ih']

theorem mem_filterMap_pair {β : Type} (e : Nat → Option β) (l : List Nat) (c : Nat) (d : β) :
    (c, d) ∈ l.filterMap (fun c => (e c).map (fun d => (c, d))) ↔ c ∈ l ∧ e c = some d := by
  simp only [List.mem_filterMap, Option.map_eq_some_iff, Prod.mk.injEq]
  constructor
  · rintro ⟨a, ha, b, hb, rfl, rfl⟩; exact ⟨ha, hb⟩
  · rintro ⟨h1, h2⟩; exact ⟨c, h1, d, h2, rfl, rfl⟩

/-! ### direct edges, adjacency -/

/-- `contains_edge` answers according to the edge set. -/
theorem containsEdge_iff (h : g.WF) (a b : Nat) : g.containsEdge a b = true ↔ g.HasEdge a b := by
  simp only [containsEdge, Bool.and_eq_true, HasEdge, h.child_iff]
  constructor
  · exact fun hh => hh.2
  · exact fun hh => ⟨h.edge_live a b hh, hh⟩

/-- The edge set read off the edge-data map is the same. -/
theorem getEdgeData_isSome_iff (h : g.WF) (a b : Nat) :
    (g.getEdgeData a b).isSome = true ↔ g.HasEdge a b := h.getEdgeData_isSome a b

/-- Outgoing and incoming adjacency are mutually symmetric. -/
theorem adjacency_symmetric (h : g.WF) (s t : Nat) :
    t ∈ g.outgoingEdgeNodes s ↔ s ∈ g.incomingEdgeNodes t := h.child_iff_parent s t

theorem mem_outgoingEdgeNodes (g : Dag N E) (s t : Nat) :
    t ∈ g.outgoingEdgeNodes s ↔ g.HasEdge s t := Iff.rfl

theorem mem_incomingEdgeNodes (h : g.WF) (s t : Nat) :
    s ∈ g.incomingEdgeNodes t ↔ g.HasEdge s t := (h.child_iff_parent s t).symm

theorem outgoingEdgeNodes_nodup (h : g.WF) (s : Nat) : (g.outgoingEdgeNodes s).Nodup :=
  h.children_nodup s

theorem incomingEdgeNodes_nodup (h : g.WF) (t : Nat) : (g.incomingEdgeNodes t).Nodup :=
  h.parents_nodup t

/-! ### outgoing iterators -/

theorem outgoingEdges_eq (g : Dag N E) (s : Nat) : g.outgoingEdges s =
    (g.childrenOf s).filterMap (fun c => (g.getEdgeData s c).map (fun d => (c, d))) := rfl

theorem incomingEdges_eq (g : Dag N E) (t : Nat) : g.incomingEdges t =
    (g.parentsOf t).filterMap (fun p => (g.getEdgeData p t).map (fun d => (p, d))) := rfl

/-- The outgoing iterator loses no edge and keeps the insertion order. -/
theorem outgoingEdges_map_fst (h : g.WF) (s : Nat) :
    (g.outgoingEdges s).map (·.1) = g.childrenOf s :=
  filterMap_pair_fst (fun c => aget g.edata (s, c)) _ (fun c hc => (h.child_iff s c).mp hc)

/-- ... and every pair carries the data of its edge. -/
theorem outgoingEdges_map_snd (h : g.WF) (s : Nat) :
    (g.outgoingEdges s).map (fun p => some p.2) = (g.childrenOf s).map (g.getEdgeData s) :=
  filterMap_pair_snd (fun c => aget g.edata (s, c)) _ (fun c hc => (h.child_iff s c).mp hc)

theorem mem_outgoingEdges (h : g.WF) (s c : Nat) (d : E) :
    (c, d) ∈ g.outgoingEdges s ↔ g.getEdgeData s c = some d := by
  rw [outgoingEdges_eq, mem_filterMap_pair]
  constructor
  · exact fun hh => hh.2
  · intro hh
    exact ⟨(h.getEdgeData_isSome s c).mp (by simp [hh]), hh⟩

theorem outgoingEdgeData_eq (g : Dag N E) (s : Nat) :
    g.outgoingEdgeData s = (g.outgoingEdges s).map (·.2) := rfl

theorem outgoingEdgeData_map_some (h : g.WF) (s : Nat) :
    (g.outgoingEdgeData s).map some = (g.childrenOf s).map (g.getEdgeData s) := by
  rw [outgoingEdgeData_eq, List.map_map]; exact outgoingEdges_map_snd h s

theorem outgoingEdgeNodeData_map_some (h : g.WF) (s : Nat) :
    (g.outgoingEdgeNodeData s).map some = (g.childrenOf s).map g.getNodeData :=
  filterMap_map_some _ _ (fun c hc => by
    rw [getNodeData_isSome]; exact (h.child_live hc).2)

/-! ### incoming iterators -/

theorem incomingEdges_map_fst (h : g.WF) (t : Nat) :
    (g.incomingEdges t).map (·.1) = g.parentsOf t :=
  filterMap_pair_fst (fun p => aget g.edata (p, t)) _ (fun p hp => (h.parent_iff p t).mp hp)

theorem incomingEdges_map_snd (h : g.WF) (t : Nat) :
    (g.incomingEdges t).map (fun p => some p.2) =
      (g.parentsOf t).map (fun p => g.getEdgeData p t) :=
  filterMap_pair_snd (fun p => aget g.edata (p, t)) _ (fun p hp => (h.parent_iff p t).mp hp)

theorem mem_incomingEdges (h : g.WF) (t p : Nat) (d : E) :
    (p, d) ∈ g.incomingEdges t ↔ g.getEdgeData p t = some d := by
  rw [incomingEdges_eq, mem_filterMap_pair]
  constructor
  · exact fun hh => hh.2
  · intro hh
    refine ⟨(h.parent_iff p t).mpr ?_, hh⟩
    have : aget g.edata (p, t) = some d := hh
    simp [this]

theorem incomingEdgeData_eq (g : Dag N E) (t : Nat) :
    g.incomingEdgeData t = (g.incomingEdges t).map (·.2) := rfl

theorem incomingEdgeData_map_some (h : g.WF) (t : Nat) :
    (g.incomingEdgeData t).map some = (g.parentsOf t).map (fun p => g.getEdgeData p t) := by
  rw [incomingEdgeData_eq, List.map_map]; exact incomingEdges_map_snd h t

theorem incomingEdgeNodeData_map_some (h : g.WF) (t : Nat) :
    (g.incomingEdgeNodeData t).map some = (g.parentsOf t).map g.getNodeData :=
  filterMap_map_some _ _ (fun p hp => by
    rw [getNodeData_isSome]; exact (h.parent_live hp).1)

/-! ### rank comparison -/

theorem topoCmp_eq (g : Dag N E) {a b : Nat} (ha : g.containsNode a = true)
    (hb : g.containsNode b = true) :
    g.topoCmp a b = some (compare (g.topoOf a) (g.topoOf b)) := by
  simp only [containsNode, Option.isSome_iff_exists] at ha hb
  obtain ⟨ia, hia⟩ := ha
  obtain ⟨ib, hib⟩ := hb
  simp [topoCmp, topoOf, hia, hib]

theorem topoCmp_eq_none_iff (g : Dag N E) (a b : Nat) :
    g.topoCmp a b = none ↔ (g.containsNode a = false ∨ g.containsNode b = false) := by
  simp only [topoCmp, containsNode]
  cases g.info a <;> cases g.info b <;> simp

/-- Comparison is consistent with reachability. -/
theorem topoCmp_of_reach (h : g.Inv) {a b : Nat} (hr : g.Reach a b) :
    g.topoCmp a b = some .lt := by
  obtain ⟨ha, hb⟩ := hr.live h.toWF
  rw [topoCmp_eq g ha hb, Nat.compare_eq_lt.mpr (h.reach_topo_lt hr)]

/-! ### transitive edges -/

/-- `contains_transitive_edge` answers according to reachability (`dfsFuel` suffices). -/
theorem containsTransitiveEdge_iff (h : g.Inv) (a b : Nat) :
    g.containsTransitiveEdge a b = true ↔ g.Reach a b := by
  unfold containsTransitiveEdge
  by_cases hl : g.containsNode a = true ∧ g.containsNode b = true
  · obtain ⟨ha, hb⟩ := hl
    simp only [ha, hb, Bool.not_true, Bool.or_self, Bool.false_eq_true, if_false]
    by_cases hab : a = b
    · subst hab
      simp only [if_true, Bool.false_eq_true, false_iff]
      exact h.acyclic a
    · simp only [hab, if_false]
      let step : List Nat → Nat → Option (List Nat) := fun _ n =>
        let cs := g.childrenOf n
        if b ∈ cs then none else some cs
      have hstep : ∀ vis n ps, step vis n = some ps →
          ps.length ≤ (g.childrenOf n).length ∧
          (∀ c ∈ ps, c ∈ g.childrenOf n ∧ (fun _ => true) c = true) ∧
          (∀ c ∈ g.childrenOf n, (fun _ => true) c = true → c ∈ vis ∨ c ∈ ps) ∧
          b ∉ g.childrenOf n := by
        intro vis n ps hh
        simp only [step] at hh
        split at hh
        · simp at hh
        · rename_i hb'
          simp only [Option.some.injEq] at hh
          subst hh
          exact ⟨Nat.le_refl _, fun c hc => ⟨hc, rfl⟩, fun c hc _ => .inr hc, hb'⟩
      have hfuel : [a].length + dfsWeight g.childrenOf g.ids [] ≤ g.dfsFuel := by
        rw [dfsWeight_nil]
        have := h.sum_children_le
        simp only [dfsFuel, List.length_singleton]; omega
      obtain ⟨k1, k2⟩ := dfsLoop_spec_gen step g.childrenOf (fun _ => true) g.ids
        (childrenOf_eq_nil_of_not_mem_ids g) (fun n => b ∉ g.childrenOf n) hstep
        (fun x => x = a ∨ g.Reach a x)
        (by
          intro x c hx hc _
          rcases hx with rfl | hx
          · exact .inr (.edge hc)
          · exact .inr (hx.tail hc))
        [] g.dfsFuel [a] [] [] hfuel rfl List.nodup_nil (by simp)
        (by intro x hx; simp at hx; exact .inl hx) (by simp) (by simp)
      show (dfsLoop step g.dfsFuel [a] [] []).isNone = true ↔ _
      cases hr : dfsLoop step g.dfsFuel [a] [] [] with
      | none =>
        simp only [Option.isNone_none, true_iff]
        obtain ⟨x, vis', hx, hs⟩ := k1 hr
        simp only [step] at hs
        split at hs
        · rename_i hbx
          rcases hx with rfl | hx
          · exact .edge hbx
          · exact hx.tail hbx
        · simp at hs
      | some r =>
        obtain ⟨vis', acc'⟩ := r
        simp only [Option.isNone_some, Bool.false_eq_true, false_iff]
        obtain ⟨a1, _, _, a4, a5, a6, _⟩ := k2 vis' acc' hr
        simp only [List.append_nil] at a1
        subst a1
        have key : ∀ x y, g.Reach x y → x ∈ vis' → y = b → False := by
          intro x y hxy
          induction hxy with
          | edge he =>
            intro hx hy
            subst hy
            exact (a4 _ hx).2 he
          | step he _ ih =>
            intro hx hy
            exact ih (a5 _ hx _ he rfl) hy
        intro hreach
        exact key a b hreach (a6 a (by simp)) rfl
  · have hl' : (!g.containsNode a || !g.containsNode b) = true := by
      cases ha : g.containsNode a <;> cases hb : g.containsNode b <;> simp [ha, hb] at hl ⊢
    simp only [hl', if_true, Bool.false_eq_true, false_iff]
    intro hr
    exact hl (hr.live h.toWF)

/-! ### descendants -/

theorem descendantsUnsorted_eq_none_iff (g : Dag N E) (n : Nat) :
    g.descendantsUnsorted n = none ↔ g.containsNode n = false := by
  unfold descendantsUnsorted
  cases hn : g.info n with
  | none => simp [containsNode, hn]
  | some ni =>
    simp only [containsNode, hn, Option.isSome_some, Bool.true_eq_false, iff_false]
    split <;> simp

/-- `descendants_unsorted` yields exactly the reachable nodes, each once, with their ranks. -/
theorem descendantsUnsorted_spec (h : g.WF) {n : Nat} (hn : g.containsNode n = true) :
    ∃ l, g.descendantsUnsorted n = some l ∧ (l.map (·.2)).Nodup ∧
      (∀ m, m ∈ l.map (·.2) ↔ g.Reach n m) ∧ ∀ p ∈ l, p.1 = g.topoOf p.2 := by
  simp only [containsNode, Option.isSome_iff_exists] at hn
  obtain ⟨ni, hni⟩ := hn
  have hch : g.childrenOf n = ni.children := by simp [childrenOf, hni]
  let step : List Nat → Nat → Option (List Nat) := fun _ m => some (g.childrenOf m)
  have hstep : ∀ vis m ps, step vis m = some ps →
      ps.length ≤ (g.childrenOf m).length ∧
      (∀ c ∈ ps, c ∈ g.childrenOf m ∧ (fun _ => true) c = true) ∧
      (∀ c ∈ g.childrenOf m, (fun _ => true) c = true → c ∈ vis ∨ c ∈ ps) ∧ True := by
    intro vis m ps hh
    simp only [step, Option.some.injEq] at hh
    subst hh
    exact ⟨Nat.le_refl _, fun c hc => ⟨hc, rfl⟩, fun c hc _ => .inr hc, trivial⟩
  have hfuel : (g.childrenOf n).reverse.length + dfsWeight g.childrenOf g.ids [] ≤ g.dfsFuel := by
    rw [List.length_reverse]; exact children_ids_fuel h n
  obtain ⟨k1, k2⟩ := dfsLoop_spec_gen step g.childrenOf (fun _ => true) g.ids
    (childrenOf_eq_nil_of_not_mem_ids g) (fun _ => True) hstep
    (fun x => g.Reach n x) (fun x c hx hc _ => hx.tail hc)
    [] g.dfsFuel (g.childrenOf n).reverse [] [] hfuel rfl List.nodup_nil (by simp)
    (by intro x hx; exact .edge (List.mem_reverse.mp hx)) (by simp) (by simp)
  have hdef : g.descendantsUnsorted n =
      match dfsLoop step g.dfsFuel (g.childrenOf n).reverse [] [] with
      | some r => some (r.2.reverse.map (fun m => (g.topoOf m, m)))
      | none => some [] := by
    simp only [descendantsUnsorted, hni, hch]; rfl
  rw [hdef]
  cases hr : dfsLoop step g.dfsFuel (g.childrenOf n).reverse [] [] with
  | none =>
    obtain ⟨x, vis', _, hs⟩ := k1 hr
    simp [step] at hs
  | some r =>
    obtain ⟨vis', acc'⟩ := r
    obtain ⟨a1, a2, _, a4, a5, a6, _⟩ := k2 vis' acc' hr
    simp only [List.append_nil] at a1
    subst a1
    refine ⟨_, rfl, ?_, ?_, ?_⟩
    · simp only [List.map_map, Function.comp_def, List.map_id']
      exact (List.reverse_perm vis').nodup_iff.mpr a2
    · intro m
      simp only [List.map_map, Function.comp_def, List.map_id', List.mem_reverse]
      constructor
      · exact fun hm => (a4 m hm).1
      · intro hm
        exact Reach.mem_of_closed (fun c hc => a6 c (List.mem_reverse.mpr hc))
          (fun x hx c hc => a5 x hx c hc rfl) hm
    · intro p hp
      obtain ⟨m, _, rfl⟩ := List.mem_map.mp hp
      rfl

theorem descendants_eq_none_iff (g : Dag N E) (n : Nat) :
    g.descendants n = none ↔ g.containsNode n = false := by
  unfold descendants
  cases hn : g.info n <;> simp [containsNode, hn]

/-- `descendants` yields exactly the reachable nodes, each once, in ascending rank
(the fuel `dfsFuel` suffices). -/
theorem descendants_spec (h : g.Inv) {n : Nat} (hn : g.containsNode n = true) :
    ∃ l, g.descendants n = some l ∧ l.Nodup ∧ (∀ m, m ∈ l ↔ g.Reach n m) ∧
      l.Pairwise (fun a b => g.topoOf a < g.topoOf b) := by
  simp only [containsNode, Option.isSome_iff_exists] at hn
  obtain ⟨ni, hni⟩ := hn
  have hch : g.childrenOf n = ni.children := by simp [childrenOf, hni]
  have hdef : g.descendants n = some (g.descLoop g.dfsFuel
      ((g.childrenOf n).map (fun c => (g.topoOf c, c))) [] []) := by
    simp only [descendants, hni, hch]
  obtain ⟨a1, a2, a3, a4, a5, _⟩ := descLoop_spec h n g.dfsFuel
    ((g.childrenOf n).map (fun c => (g.topoOf c, c))) []
    (by rw [List.length_map]; exact children_ids_fuel h.toWF n) List.nodup_nil
    (by
      intro p hp
      obtain ⟨c, hc, rfl⟩ := List.mem_map.mp hp
      exact ⟨rfl, .edge hc⟩)
    (by simp) List.Pairwise.nil (by simp) (by simp)
  refine ⟨_, hdef, a1, ?_, a2⟩
  intro m
  constructor
  · exact a3 m
  · intro hm
    exact Reach.mem_of_closed
      (fun c hc => a5 (g.topoOf c, c) (List.mem_map.mpr ⟨c, hc, rfl⟩)) a4 hm

/-- Both descendant iterators yield the same set. -/
theorem descendants_perm_unsorted (h : g.Inv) {n : Nat} {l : List Nat} {l' : List (Nat × Nat)}
    (hl : g.descendants n = some l) (hl' : g.descendantsUnsorted n = some l') :
    l.Perm (l'.map (·.2)) := by
  have hn : g.containsNode n = true := by
    cases hc : g.containsNode n
    · rw [(descendants_eq_none_iff g n).mpr hc] at hl; cases hl
    · rfl
  obtain ⟨l1, e1, n1, m1, _⟩ := descendants_spec h hn
  obtain ⟨l2, e2, n2, m2, _⟩ := descendantsUnsorted_spec h.toWF hn
  rw [hl] at e1; rw [hl'] at e2
  cases e1; cases e2
  rw [List.perm_ext_iff_of_nodup n1 n2]
  intro m; rw [m1, m2]

end Dag
end PieModel
