/-
Association-list lemmas (`aget/aset/aerase/amodify/akeys`) and a few generic list facts.
-/
import PieModel.Util
import Batteries.Data.List.Perm

namespace PieModel

section AList
set_option linter.unusedSectionVars false
variable {κ α : Type} [DecidableEq κ]

@[simp] theorem aget_nil (k : κ) : aget ([] : List (κ × α)) k = none := rfl

@[simp] theorem aget_cons (k' : κ) (v : α) (l : List (κ × α)) (k : κ) :
    aget ((k', v) :: l) k = if k' = k then some v else aget l k := rfl

@[simp] theorem akeys_nil : akeys ([] : List (κ × α)) = [] := rfl

@[simp] theorem akeys_cons (p : κ × α) (l : List (κ × α)) : akeys (p :: l) = p.1 :: akeys l := rfl

@[simp] theorem akeys_append (l₁ l₂ : List (κ × α)) : akeys (l₁ ++ l₂) = akeys l₁ ++ akeys l₂ := by
  simp [akeys]

theorem aget_isSome_iff (l : List (κ × α)) (k : κ) : (aget l k).isSome ↔ k ∈ akeys l := by
  induction l with
  | nil => simp
  | cons p l ih =>
    obtain ⟨k', v⟩ := p
    by_cases h : k' = k
    · simp [h]
    · simp [h, ih, Ne.symm h]

theorem aget_eq_none_iff (l : List (κ × α)) (k : κ) : aget l k = none ↔ k ∉ akeys l := by
  rw [← aget_isSome_iff]; cases aget l k <;> simp

theorem aget_mem {l : List (κ × α)} {k : κ} {v : α} (h : aget l k = some v) : (k, v) ∈ l := by
  induction l with
  | nil => simp at h
  | cons p l ih =>
    obtain ⟨k', v'⟩ := p
    by_cases hk : k' = k
    · simp [hk] at h; simp [hk, h]
    · simp [hk] at h; simp [ih h]

theorem aget_of_mem {l : List (κ × α)} (hn : (akeys l).Nodup) {k : κ} {v : α} (h : (k, v) ∈ l) :
    aget l k = some v := by
  induction l with
  | nil => simp at h
  | cons p l ih =>
    obtain ⟨k', v'⟩ := p
    simp at hn
    rcases List.mem_cons.mp h with h | h
    · simp at h; simp [h]
    · have : k ∈ akeys l := List.mem_map.mpr ⟨_, h, rfl⟩
      have hk : k' ≠ k := by rintro rfl; exact hn.1 this
      simp [hk, ih hn.2 h]

theorem aget_append (l₁ l₂ : List (κ × α)) (k : κ) :
    aget (l₁ ++ l₂) k = (aget l₁ k).or (aget l₂ k) := by
  induction l₁ with
  | nil => simp
  | cons p l ih =>
    obtain ⟨k', v'⟩ := p
    by_cases hk : k' = k <;> simp [hk, ih]

/-! ### amodify -/

theorem aget_amodify (l : List (κ × α)) (k k' : κ) (f : α → α) :
    aget (amodify l k f) k' = if k = k' then (aget l k').map f else aget l k' := by
  induction l with
  | nil => simp [amodify]
  | cons p l ih =>
    obtain ⟨k₀, v₀⟩ := p
    by_cases h0 : k₀ = k
    · subst h0
      by_cases h1 : k₀ = k' <;> simp [amodify, h1]
    · by_cases h1 : k₀ = k'
      · subst h1; simp [amodify, h0, Ne.symm h0]
      · simp [amodify, h0, h1, ih]

@[simp] theorem akeys_amodify (l : List (κ × α)) (k : κ) (f : α → α) :
    akeys (amodify l k f) = akeys l := by
  induction l with
  | nil => simp [amodify]
  | cons p l ih =>
    obtain ⟨k₀, v₀⟩ := p
    by_cases h0 : k₀ = k <;> simp [amodify, h0, ih]

@[simp] theorem length_amodify (l : List (κ × α)) (k : κ) (f : α → α) :
    (amodify l k f).length = l.length := by
  have := congrArg List.length (akeys_amodify l k f)
  simpa [akeys] using this

/-- A projection that `f` does not change is unchanged in the whole list. -/
theorem map_amodify_of_proj {β : Type} (l : List (κ × α)) (k : κ) (f : α → α) (p : α → β)
    (hp : ∀ a, p (f a) = p a) :
    (amodify l k f).map (fun kv => p kv.2) = l.map (fun kv => p kv.2) := by
  induction l with
  | nil => simp [amodify]
  | cons q l ih =>
    obtain ⟨k₀, v₀⟩ := q
    by_cases h0 : k₀ = k <;> simp [amodify, h0, ih, hp]

/-- With duplicate-free keys `amodify` is a `map`. -/
theorem amodify_eq_map (l : List (κ × α)) (hn : (akeys l).Nodup) (k : κ) (f : α → α) :
    amodify l k f = l.map (fun kv => if kv.1 = k then (kv.1, f kv.2) else kv) := by
  induction l with
  | nil => simp [amodify]
  | cons q l ih =>
    obtain ⟨k₀, v₀⟩ := q
    simp at hn
    by_cases h0 : k₀ = k
    · subst h0
      simp [amodify]
      have : ∀ kv ∈ l, kv.1 ≠ k₀ := by
        intro kv hkv h; exact hn.1 (h ▸ List.mem_map.mpr ⟨kv, hkv, rfl⟩)
      symm
      calc l.map (fun kv => if kv.1 = k₀ then (kv.1, f kv.2) else kv) = l.map id := by
            apply List.map_congr_left; intro kv hkv; simp [this kv hkv]
        _ = l := by simp
    · simp [amodify, h0, ih hn.2]

/-! ### aset -/

theorem aget_aset (l : List (κ × α)) (k k' : κ) (v : α) :
    aget (aset l k v) k' = if k = k' then some v else aget l k' := by
  induction l with
  | nil => simp [aset]
  | cons p l ih =>
    obtain ⟨k₀, v₀⟩ := p
    by_cases h0 : k₀ = k
    · subst h0
      by_cases h1 : k₀ = k' <;> simp [aset, h1]
    · by_cases h1 : k₀ = k'
      · subst h1; simp [aset, h0, Ne.symm h0]
      · simp [aset, h0, h1, ih]

theorem akeys_aset (l : List (κ × α)) (k : κ) (v : α) :
    akeys (aset l k v) = if k ∈ akeys l then akeys l else akeys l ++ [k] := by
  induction l with
  | nil => simp [aset]
  | cons p l ih =>
    obtain ⟨k₀, v₀⟩ := p
    by_cases h0 : k₀ = k
    · subst h0; simp [aset]
    · simp [aset, h0, ih, Ne.symm h0]
      split <;> simp

theorem akeys_aset_nodup (l : List (κ × α)) (k : κ) (v : α) (hn : (akeys l).Nodup) :
    (akeys (aset l k v)).Nodup := by
  rw [akeys_aset]
  split
  · exact hn
  · rename_i h
    rw [List.nodup_append]
    refine ⟨hn, by simp, ?_⟩
    intro a ha b hb
    simp at hb; subst hb; rintro rfl; exact h ha

theorem length_aset_le (l : List (κ × α)) (k : κ) (v : α) :
    l.length ≤ (aset l k v).length := by
  induction l with
  | nil => simp [aset]
  | cons p l ih =>
    obtain ⟨k₀, v₀⟩ := p
    by_cases h0 : k₀ = k <;> simp [aset, h0, ih]

/-! ### aerase -/

theorem aget_aerase_ne (l : List (κ × α)) {k k' : κ} (h : k ≠ k') :
    aget (aerase l k) k' = aget l k' := by
  induction l with
  | nil => simp [aerase]
  | cons p l ih =>
    obtain ⟨k₀, v₀⟩ := p
    by_cases h0 : k₀ = k
    · subst h0; simp [aerase, h]
    · by_cases h1 : k₀ = k'
      · subst h1; simp [aerase, h0]
      · simp [aerase, h0, h1, ih]

theorem akeys_aerase (l : List (κ × α)) (k : κ) : akeys (aerase l k) = (akeys l).erase k := by
  induction l with
  | nil => simp [aerase]
  | cons p l ih =>
    obtain ⟨k₀, v₀⟩ := p
    by_cases h0 : k₀ = k
    · subst h0; simp [aerase]
    · simp [aerase, h0, ih, List.erase_cons_tail]

theorem akeys_aerase_nodup (l : List (κ × α)) (k : κ) (hn : (akeys l).Nodup) :
    (akeys (aerase l k)).Nodup := by
  rw [akeys_aerase]; exact hn.erase k

theorem aget_aerase_self (l : List (κ × α)) (hn : (akeys l).Nodup) (k : κ) :
    aget (aerase l k) k = none := by
  rw [aget_eq_none_iff, akeys_aerase]
  exact fun h => (List.Nodup.mem_erase_iff hn).mp h |>.1 rfl

theorem aget_aerase (l : List (κ × α)) (hn : (akeys l).Nodup) (k k' : κ) :
    aget (aerase l k) k' = if k = k' then none else aget l k' := by
  by_cases h : k = k'
  · subst h; simp [aget_aerase_self l hn]
  · simp [h, aget_aerase_ne l h]

/-- Erasing a list of keys. -/
theorem aget_foldl_aerase {β : Type} (ks : List β) (mk : β → κ) (l : List (κ × α))
    (hn : (akeys l).Nodup) (k' : κ) :
    aget (ks.foldl (fun ed c => aerase ed (mk c)) l) k' =
      if k' ∈ ks.map mk then none else aget l k' := by
  induction ks generalizing l with
  | nil => simp
  | cons c ks ih =>
    simp only [List.foldl_cons, List.map_cons, List.mem_cons]
    rw [ih _ (akeys_aerase_nodup l _ hn), aget_aerase l hn]
    by_cases h1 : k' ∈ ks.map mk
    · simp [h1]
    · by_cases h2 : mk c = k'
      · simp [h2]
      · simp [h1, h2, Ne.symm h2]

theorem akeys_foldl_aerase_nodup {β : Type} (ks : List β) (mk : β → κ) (l : List (κ × α))
    (hn : (akeys l).Nodup) :
    (akeys (ks.foldl (fun ed c => aerase ed (mk c)) l)).Nodup := by
  induction ks generalizing l with
  | nil => simpa
  | cons c ks ih => exact ih _ (akeys_aerase_nodup l _ hn)

/-! ### map on values -/

theorem akeys_map_snd (l : List (κ × α)) (f : κ × α → α) :
    akeys (l.map (fun kv => (kv.1, f kv))) = akeys l := by
  simp [akeys, Function.comp_def]

theorem aget_map_val (l : List (κ × α)) (f : κ → α → α) (k : κ) :
    aget (l.map (fun kv => (kv.1, f kv.1 kv.2))) k = (aget l k).map (f k) := by
  induction l with
  | nil => simp
  | cons p l ih =>
    obtain ⟨k₀, v₀⟩ := p
    by_cases h0 : k₀ = k
    · subst h0; simp
    · simp [h0, ih]

end AList

/-! ### generic list facts -/

theorem length_le_of_nodup_subset {α : Type} {l₁ l₂ : List α} (hn : l₁.Nodup) (hs : l₁ ⊆ l₂) :
    l₁.length ≤ l₂.length :=
  (List.subperm_of_subset hn hs).length_le

/-- A duplicate-free list of `n` numbers in `1..n` is a permutation of `1..n`. -/
theorem perm_range'_of_nodup {l : List Nat} {n : Nat} (hn : l.Nodup) (hlen : l.length = n)
    (hr : ∀ x ∈ l, 1 ≤ x ∧ x ≤ n) : l.Perm (List.range' 1 n) := by
  apply (List.subperm_of_subset hn ?_).perm_of_length_le
  · simp [hlen]
  · intro x hx
    have := hr x hx
    rw [List.mem_range'_1]
    omega

theorem nodup_map_inj {α β : Type} {f : α → β} {l : List α} (h : (l.map f).Nodup)
    {a b : α} (ha : a ∈ l) (hb : b ∈ l) (hab : f a = f b) : a = b := by
  induction l with
  | nil => simp at ha
  | cons x l ih =>
    simp only [List.map_cons, List.nodup_cons, List.mem_map, not_exists, not_and] at h
    rcases List.mem_cons.mp ha with rfl | ha' <;> rcases List.mem_cons.mp hb with rfl | hb'
    · rfl
    · exact absurd hab.symm (h.1 b hb')
    · exact absurd hab (h.1 a ha')
    · exact ih h.2 ha' hb'

theorem nodup_map_on {α β : Type} {f : α → β} {l : List α} (hl : l.Nodup)
    (hf : ∀ x ∈ l, ∀ y ∈ l, f x = f y → x = y) : (l.map f).Nodup := by
  induction l with
  | nil => simp
  | cons a l ih =>
    simp only [List.nodup_cons] at hl
    simp only [List.map_cons, List.nodup_cons, List.mem_map, not_exists, not_and]
    refine ⟨?_, ih hl.2 (fun x hx y hy => hf x (List.mem_cons_of_mem _ hx) y (List.mem_cons_of_mem _ hy))⟩
    intro x hx hxa
    have := hf x (List.mem_cons_of_mem _ hx) a (List.mem_cons_self) hxa
    exact hl.1 (this ▸ hx)

end PieModel
