/-
Executable model of `graph/src/lib.rs` (`pie_graph::DAG`): the incremental-topological-order
DAG (Pearce–Kelly insertion, rank compaction on node removal, insertion-ordered adjacency,
DFS queries).  One Lean function per Rust method, same order of effects.

Modelling decisions (DESIGN.md §3.1, §7):
* `SlotMap` keys  → fresh `Nat` ids (`next`), never reused.
* `LinkedHashSet` → ordered duplicate-free `List Nat`; `remove` keeps the order of the rest;
  inserting a present element keeps its position (the *repaired* `add_edge`, defect F1).
* `HashMap edge_data` → association list keyed by `(src, dst)`.
* `HashSet` results of the two DFSs → lists in visit order; `reorderNodes` sorts them by rank,
  so its result is independent of that order (`Graph/Reorder.lean`).
* loops → structural recursion on a fuel argument; the public functions pass a fuel that is
  proved sufficient under the invariant (`Graph/Dfs.lean`).
-/
import PieModel.Util

namespace PieModel

structure NodeInfo (N : Type) where
  topo : Nat
  data : N
  parents : List Nat
  children : List Nat
deriving Repr

structure Dag (N E : Type) where
  nodes : List (Nat × NodeInfo N) := []
  edata : List ((Nat × Nat) × E) := []
  last : Nat := 0
  next : Nat := 0

inductive GErr | nodeMissing | cycle
deriving DecidableEq, Repr

namespace Dag
variable {N E : Type}

def empty : Dag N E := {}

def info (g : Dag N E) (n : Nat) : Option (NodeInfo N) := aget g.nodes n
def containsNode (g : Dag N E) (n : Nat) : Bool := (g.info n).isSome
def topoOf (g : Dag N E) (n : Nat) : Nat := match g.info n with | some i => i.topo | none => 0
def childrenOf (g : Dag N E) (n : Nat) : List Nat := match g.info n with | some i => i.children | none => []
def parentsOf (g : Dag N E) (n : Nat) : List Nat := match g.info n with | some i => i.parents | none => []

/-- `DAG::add_node` -/
def addNode (g : Dag N E) (d : N) : Dag N E × Nat :=
  let t := g.last + 1
  ({ g with nodes := g.nodes ++ [(g.next, { topo := t, data := d, parents := [], children := [] })],
            last := t, next := g.next + 1 }, g.next)

def getNodeData (g : Dag N E) (n : Nat) : Option N := (g.info n).map (·.data)

/-- `DAG::get_node_data_mut` followed by an assignment. -/
def setNodeData (g : Dag N E) (n : Nat) (d : N) : Dag N E :=
  { g with nodes := amodify g.nodes n (fun i => { i with data := d }) }

/-- `DAG::remove_node` -/
def removeNode (g : Dag N E) (n : Nat) : Dag N E × Bool :=
  match g.info n with
  | none => (g, false)
  | some ni =>
    let nodes1 := aerase g.nodes n
    let nodes2 := ni.children.foldl
      (fun ns c => amodify ns c (fun ci => { ci with parents := ci.parents.erase n })) nodes1
    let ed2 := ni.children.foldl (fun ed c => aerase ed (n, c)) g.edata
    let nodes3 := ni.parents.foldl
      (fun ns p => amodify ns p (fun pi => { pi with children := pi.children.erase n })) nodes2
    let ed3 := ni.parents.foldl (fun ed p => aerase ed (p, n)) ed2
    let nodes4 := nodes3.map
      (fun (kv : Nat × NodeInfo N) => (kv.1, if kv.2.topo > ni.topo then { kv.2 with topo := kv.2.topo - 1 } else kv.2))
    ({ g with nodes := nodes4, edata := ed3, last := g.last - 1 }, true)

/-- Generic work-list DFS. `step vis n` is `none` to stop the whole search ("found"/"cycle"),
or `some pushes` (in push order; the last pushed is popped first).  `vis` is the visited set,
`acc` the nodes in visit order (most recent first). A node already visited is skipped when
popped.  Returns `none` when stopped, else the final `(vis, acc)`. -/
def dfsLoop (step : List Nat → Nat → Option (List Nat)) :
    Nat → List Nat → List Nat → List Nat → Option (List Nat × List Nat)
  | 0, _, vis, acc => some (vis, acc)
  | _ + 1, [], vis, acc => some (vis, acc)
  | f + 1, n :: st, vis, acc =>
    if n ∈ vis then dfsLoop step f st vis acc
    else match step (n :: vis) n with
      | none => none
      | some ps => dfsLoop step f (ps.reverse ++ st) (n :: vis) (n :: acc)

/-- Fuel that suffices for every DFS over the graph: one iteration per stack entry, every visited
node pushes at most its adjacency once. -/
def dfsFuel (g : Dag N E) : Nat := g.edata.length + g.nodes.length + 2

/-- `DAG::dfs_forward`: nodes reachable from `start` with rank below `ub`;
`none` = `Err(CycleDetected)` (a child with rank exactly `ub` was seen). -/
def dfsForward (g : Dag N E) (start : Nat) (ub : Nat) : Option (List Nat) :=
  (dfsLoop (fun vis n =>
      let cs := g.childrenOf n
      if cs.any (fun c => g.topoOf c == ub) then none
      else some (cs.filter (fun c => !(vis.contains c) && g.topoOf c < ub)))
    g.dfsFuel [start] [] []).map (·.2)

/-- `DAG::dfs_backward` (shares `visited` with the forward search). -/
def dfsBackward (g : Dag N E) (start : Nat) (visited : List Nat) (lb : Nat) : List Nat :=
  match dfsLoop (fun vis n =>
      some ((g.parentsOf n).filter (fun p => !(vis.contains p) && lb < g.topoOf p)))
    g.dfsFuel [start] visited [] with
  | some r => r.2
  | none => []

def setTopo (g : Dag N E) (n : Nat) (t : Nat) : Dag N E :=
  { g with nodes := amodify g.nodes n (fun i => { i with topo := t }) }

/-- `DAG::reorder_nodes`. `fwd`/`bwd` are the two change sets in *any* order. -/
def reorderNodes (g : Dag N E) (fwd bwd : List Nat) : Dag N E :=
  let f := isortBy (·.2) (fwd.map (fun k => (k, g.topoOf k)))
  let b := isortBy (·.2) (bwd.map (fun k => (k, g.topoOf k)))
  let keys := b.map (·.1) ++ f.map (·.1)
  let topos := isortBy id (b.map (·.2) ++ f.map (·.2))
  (keys.zip topos).foldl (fun g kt => g.setTopo kt.1 kt.2) g

/-- `LinkedHashSet::replace(..).is_none()`: append if absent, keep position if present. -/
def insertKeep (l : List Nat) (x : Nat) : List Nat × Bool :=
  if x ∈ l then (l, false) else (l ++ [x], true)

/-- `DAG::add_edge` (repaired: an existing edge keeps its place in both adjacency lists). -/
def addEdge (g : Dag N E) (src dst : Nat) (d : E) : Dag N E × Except GErr Bool :=
  match g.info src, g.info dst with
  | some si, some di =>
    if src = dst then (g, .error .cycle)
    else
      let (ch, new1) := insertKeep si.children dst
      let ub := si.topo
      let lb := di.topo
      if !new1 then
        (g, .ok false)
      else
        let (pa, new2) := insertKeep di.parents src
        let g1 : Dag N E := { g with nodes := amodify g.nodes src (fun i => { i with children := ch }) }
        let g2 : Dag N E := { g1 with nodes := amodify g1.nodes dst (fun i => { i with parents := pa }) }
        if !new2 then (g2, .ok false)
        else
          let g3 : Dag N E := { g2 with edata := aset g2.edata (src, dst) d }
          if lb < ub then
            match g3.dfsForward dst ub with
            | none => (g, .error .cycle)   -- rollback: children, parents, edge data restored
            | some fwd =>
              let bwd := g3.dfsBackward src fwd lb
              (g3.reorderNodes fwd bwd, .ok true)
          else (g3, .ok true)
  | _, _ => (g, .error .nodeMissing)

/-- `DAG::contains_edge` -/
def containsEdge (g : Dag N E) (src dst : Nat) : Bool :=
  g.containsNode src && g.containsNode dst && (aget g.edata (src, dst)).isSome

/-- `DAG::contains_transitive_edge` -/
def containsTransitiveEdge (g : Dag N E) (src dst : Nat) : Bool :=
  if !(g.containsNode src) || !(g.containsNode dst) then false
  else if src = dst then false
  else
    (dfsLoop (fun _ n =>
        let cs := g.childrenOf n
        if dst ∈ cs then none else some cs)
      g.dfsFuel [src] [] []).isNone

def getEdgeData (g : Dag N E) (src dst : Nat) : Option E := aget g.edata (src, dst)

/-- `DAG::get_edge_data_mut` followed by an assignment (no-op if the edge is absent). -/
def setEdgeData (g : Dag N E) (src dst : Nat) (d : E) : Dag N E :=
  { g with edata := amodify g.edata (src, dst) (fun _ => d) }

/-- `DAG::get_outgoing_edges` (the Rust iterator unwraps the edge data; `filterMap` drops a
missing one, which the invariant excludes). -/
def outgoingEdges (g : Dag N E) (src : Nat) : List (Nat × E) :=
  (g.childrenOf src).filterMap (fun c => (aget g.edata (src, c)).map (fun d => (c, d)))
def outgoingEdgeNodes (g : Dag N E) (src : Nat) : List Nat := g.childrenOf src
def outgoingEdgeData (g : Dag N E) (src : Nat) : List E := (g.outgoingEdges src).map (·.2)
def outgoingEdgeNodeData (g : Dag N E) (src : Nat) : List N :=
  (g.childrenOf src).filterMap g.getNodeData

def incomingEdges (g : Dag N E) (dst : Nat) : List (Nat × E) :=
  (g.parentsOf dst).filterMap (fun p => (aget g.edata (p, dst)).map (fun d => (p, d)))
def incomingEdgeNodes (g : Dag N E) (dst : Nat) : List Nat := g.parentsOf dst
def incomingEdgeData (g : Dag N E) (dst : Nat) : List E := (g.incomingEdges dst).map (·.2)
def incomingEdgeNodeData (g : Dag N E) (dst : Nat) : List N :=
  (g.parentsOf dst).filterMap g.getNodeData

/-- `DAG::remove_edge` -/
def removeEdge (g : Dag N E) (src dst : Nat) : Dag N E × Option E :=
  match g.info src, g.info dst with
  | some si, some _ =>
    if dst ∈ si.children then
      let n1 := amodify g.nodes src (fun i => { i with children := i.children.erase dst })
      let n2 := amodify n1 dst (fun i => { i with parents := i.parents.erase src })
      ({ g with nodes := n2, edata := aerase g.edata (src, dst) }, aget g.edata (src, dst))
    else (g, none)
  | _, _ => (g, none)

/-- `DAG::remove_outgoing_edges_of_node` -/
def removeOutgoingEdgesOfNode (g : Dag N E) (src : Nat) : Dag N E × Option (List (Nat × E)) :=
  match g.info src with
  | none => (g, none)
  | some si =>
    if si.children.isEmpty then (g, none)
    else
      let n1 := amodify g.nodes src (fun i => { i with children := [] })
      let n2 := si.children.foldl
        (fun ns c => amodify ns c (fun ci => { ci with parents := ci.parents.erase src })) n1
      let removed := si.children.filterMap (fun c => (aget g.edata (src, c)).map (fun d => (c, d)))
      let ed := si.children.foldl (fun ed c => aerase ed (src, c)) g.edata
      ({ g with nodes := n2, edata := ed }, some removed)

def len (g : Dag N E) : Nat := g.nodes.length
def isEmpty (g : Dag N E) : Bool := g.len == 0

/-- `DAG::iter_unsorted` (slot order = creation order here; unsorted by contract). -/
def iterUnsorted (g : Dag N E) : List (Nat × Nat) := g.nodes.map (fun kv => (kv.2.topo, kv.1))

/-- `DAG::descendants_unsorted`: `none` = `Err(NodeMissing)`; yields `(rank, node)` in visit order. -/
def descendantsUnsorted (g : Dag N E) (n : Nat) : Option (List (Nat × Nat)) :=
  match g.info n with
  | none => none
  | some ni =>
    match dfsLoop (fun _ m => some (g.childrenOf m)) g.dfsFuel ni.children.reverse [] [] with
    | some r => some (r.2.reverse.map (fun m => (g.topoOf m, m)))
    | none => some []

/-- Extract an element of minimal rank from the heap (`BinaryHeap<(Reverse<rank>, node)>::pop`). -/
def popMin : List (Nat × Nat) → Option ((Nat × Nat) × List (Nat × Nat))
  | [] => none
  | x :: xs =>
    match popMin xs with
    | none => some (x, [])
    | some (m, rest) =>
      if x.1 < m.1 || (x.1 == m.1 && x.2 ≥ m.2) then some (x, xs) else some (m, x :: rest)

def descLoop (g : Dag N E) : Nat → List (Nat × Nat) → List Nat → List Nat → List Nat
  | 0, _, _, acc => acc.reverse
  | f + 1, q, vis, acc =>
    match popMin q with
    | none => acc.reverse
    | some ((_, n), q') =>
      if n ∈ vis then descLoop g f q' vis acc
      else descLoop g f ((g.childrenOf n).map (fun c => (g.topoOf c, c)) ++ q') (n :: vis) (n :: acc)

/-- `DAG::descendants`: descendants in ascending rank. -/
def descendants (g : Dag N E) (n : Nat) : Option (List Nat) :=
  match g.info n with
  | none => none
  | some ni => some (descLoop g g.dfsFuel (ni.children.map (fun c => (g.topoOf c, c))) [] [])

/-- `DAG::topo_cmp`; `none` = the Rust code panics (indexing a removed node). -/
def topoCmp (g : Dag N E) (a b : Nat) : Option Ordering :=
  match g.info a, g.info b with
  | some ia, some ib => some (compare ia.topo ib.topo)
  | _, _ => none

end Dag
end PieModel
