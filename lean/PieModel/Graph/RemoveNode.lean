/-
Preservation of `Dag.Inv` by `removeNode` (rank compaction).
-/
import PieModel.Graph.Ops

namespace PieModel
namespace Dag
variable {N E : Type}

/-- The graph produced by `removeNode n` for a live node `n`. -/
def removeNodeCore (g : Dag N E) (n : Nat) : Dag N E :=
  { g with
    nodes := ((g.parentsOf n).foldl
        (fun ns p => amodify ns p (fun pi => { pi with children := pi.children.erase n }))
        ((g.childrenOf n).foldl
          (fun ns c => amodify ns c (fun ci => { ci with parents := ci.parents.erase n }))
          (aerase g.nodes n))).map
      (fun (kv : Nat × NodeInfo N) =>
        (kv.1, if kv.2.topo > g.topoOf n then { kv.2 with topo := kv.2.topo - 1 } else kv.2)),
    edata := (g.parentsOf n).foldl (fun ed p => aerase ed (p, n))
      ((g.childrenOf n).foldl (fun ed c => aerase ed (n, c)) g.edata),
    last := g.last - 1 }

theorem removeNode_fst (g : Dag N E) (n : Nat) :
    (g.removeNode n).1 = g.removeNodeCore n ∧ g.containsNode n = true ∨
      (g.removeNode n).1 = g := by
  unfold removeNode
  split
  · right; rfl
  · rename_i ni hni
    left
    have h1 : g.childrenOf n = ni.children := by simp [childrenOf, hni]
    have h2 : g.parentsOf n = ni.parents := by simp [parentsOf, hni]
    have h3 : g.topoOf n = ni.topo := by simp [topoOf, hni]
    simp [removeNodeCore, h1, h2, h3, containsNode, hni]

/-- Rank compaction. -/
def decAbove (r t : Nat) : Nat := if t > r then t - 1 else t

theorem info_removeNodeCore (g : Dag N E) (h : g.WF) (n x : Nat) :
    (g.removeNodeCore n).info x = if n = x then none else
      (g.info x).map (fun i => { i with
        children := if x ∈ g.parentsOf n then i.children.erase n else i.children,
        parents := if x ∈ g.childrenOf n then i.parents.erase n else i.parents,
        topo := decAbove (g.topoOf n) i.topo }) := by
  simp only [info, removeNodeCore]
  rw [aget_map_val _ (fun _ (i : NodeInfo N) =>
      if i.topo > g.topoOf n then { i with topo := i.topo - 1 } else i),
    aget_foldl_amodify _ (h.parents_nodup n), aget_foldl_amodify _ (h.children_nodup n),
    aget_aerase _ h.ids_nodup]
  by_cases h0 : n = x
  · simp [h0]
  · by_cases h1 : x ∈ g.parentsOf n <;> by_cases h2 : x ∈ g.childrenOf n <;>
      cases aget g.nodes x <;> simp [h0, h1, h2, decAbove] <;> split <;> simp

theorem decAbove_lt {r a b : Nat} (ha : a ≠ r) (hb : b ≠ r) (hab : a < b) :
    decAbove r a < decAbove r b := by
  unfold decAbove; split <;> split <;> omega

theorem decAbove_inj {r a b : Nat} (ha : a ≠ r) (hb : b ≠ r) (hab : decAbove r a = decAbove r b) :
    a = b := by
  unfold decAbove at hab; split at hab <;> split at hab <;> omega

theorem inv_removeNodeCore {g : Dag N E} (h : g.Inv) (n : Nat) (hn : g.containsNode n = true) :
    (g.removeNodeCore n).Inv := by
  have hi := info_removeNodeCore g h.toWF n
  have hids : (g.removeNodeCore n).ids = g.ids.erase n := by
    simp only [ids_eq_akeys, removeNodeCore]
    rw [akeys_map_snd _ (fun (kv : Nat × NodeInfo N) =>
      if kv.2.topo > g.topoOf n then { kv.2 with topo := kv.2.topo - 1 } else kv.2),
      akeys_foldl_amodify, akeys_foldl_amodify, akeys_aerase]
  have hcn : ∀ x, (g.removeNodeCore n).containsNode x = true ↔ x ≠ n ∧ g.containsNode x = true := by
    intro x
    rw [containsNode_iff, containsNode_iff, hids, h.ids_nodup.mem_erase_iff]
  have hch : ∀ x, (g.removeNodeCore n).childrenOf x = if n = x then [] else
      if x ∈ g.parentsOf n then (g.childrenOf x).erase n else g.childrenOf x := by
    intro x; simp only [childrenOf, hi]
    by_cases h0 : n = x <;> by_cases h1 : x ∈ g.parentsOf n <;> cases hx : g.info x <;> simp [h0, h1]
  have hpa : ∀ x, (g.removeNodeCore n).parentsOf x = if n = x then [] else
      if x ∈ g.childrenOf n then (g.parentsOf x).erase n else g.parentsOf x := by
    intro x; simp only [parentsOf, hi]
    by_cases h0 : n = x <;> by_cases h1 : x ∈ g.childrenOf n <;> cases hx : g.info x <;> simp [h0, h1]
  have hto : ∀ x, x ≠ n → (g.removeNodeCore n).topoOf x = decAbove (g.topoOf n) (g.topoOf x) := by
    intro x hx; simp only [topoOf, hi]
    cases hx' : g.info x <;> simp [Ne.symm hx, decAbove]
  have hchm : ∀ x c, c ∈ (g.removeNodeCore n).childrenOf x ↔
      c ∈ g.childrenOf x ∧ x ≠ n ∧ c ≠ n := by
    intro x c; rw [hch]
    by_cases h0 : n = x
    · simp [h0]
    · by_cases h1 : x ∈ g.parentsOf n
      · simp only [h0, h1, if_true, if_false]
        rw [(h.children_nodup x).mem_erase_iff]
        exact ⟨fun hh => ⟨hh.2, Ne.symm h0, hh.1⟩, fun hh => ⟨hh.2.2, hh.1⟩⟩
      · simp only [h0, h1, if_false]
        constructor
        · intro hc
          refine ⟨hc, Ne.symm h0, ?_⟩
          rintro rfl
          exact h1 ((h.child_iff_parent _ _).mp hc)
        · exact fun hh => hh.1
  have hpam : ∀ x p, p ∈ (g.removeNodeCore n).parentsOf x ↔
      p ∈ g.parentsOf x ∧ x ≠ n ∧ p ≠ n := by
    intro x p; rw [hpa]
    by_cases h0 : n = x
    · simp [h0]
    · by_cases h1 : x ∈ g.childrenOf n
      · simp only [h0, h1, if_true, if_false]
        rw [(h.parents_nodup x).mem_erase_iff]
        exact ⟨fun hh => ⟨hh.2, Ne.symm h0, hh.1⟩, fun hh => ⟨hh.2.2, hh.1⟩⟩
      · simp only [h0, h1, if_false]
        constructor
        · intro hc
          refine ⟨hc, Ne.symm h0, ?_⟩
          rintro rfl
          exact h1 ((h.child_iff_parent _ _).mpr hc)
        · exact fun hh => hh.1
  have hed : ∀ a b, (aget (g.removeNodeCore n).edata (a, b)).isSome = true ↔
      (aget g.edata (a, b)).isSome = true ∧ a ≠ n ∧ b ≠ n := by
    intro a b
    show (aget (List.foldl (fun ed p => aerase ed (p, n))
      (List.foldl (fun ed c => aerase ed (n, c)) g.edata (g.childrenOf n)) (g.parentsOf n))
      (a, b)).isSome = true ↔ _
    rw [aget_foldl_aerase _ (fun p => (p, n)) _ (akeys_foldl_aerase_nodup _ _ _ h.keys_nodup),
      aget_foldl_aerase _ (fun c => (n, c)) _ h.keys_nodup]
    by_cases hb : b = n
    · subst hb
      by_cases ha : a ∈ g.parentsOf b
      · simp [ha]
      · have : ¬ (aget g.edata (a, b)).isSome = true := fun hh => ha ((h.parent_iff a b).mpr hh)
        have this' : aget g.edata (a, b) = none := by simpa using this
        simp [this']
    · by_cases ha : a = n
      · subst ha
        by_cases hb' : b ∈ g.childrenOf a
        · simp [hb']
        · have : ¬ (aget g.edata (a, b)).isSome = true := fun hh => hb' ((h.child_iff a b).mpr hh)
          have this' : aget g.edata (a, b) = none := by simpa using this
          simp [this']
      · have h1 : (a, b) ∉ (g.parentsOf n).map (fun p => (p, n)) := by
          simp; intro _ _ _; exact Ne.symm hb
        have h2 : (a, b) ∉ (g.childrenOf n).map (fun c => (n, c)) := by
          simp; intro _ hh; exact absurd hh.symm ha
        simp [h1, h2, ha, hb]
  have hidn : (g.removeNodeCore n).ids.Nodup := by rw [hids]; exact h.ids_nodup.erase n
  have hlen : (g.removeNodeCore n).nodes.length = g.nodes.length - 1 := by
    rw [← length_ids, hids, List.length_erase_of_mem ((containsNode_iff g n).mp hn), length_ids]
  have hrn := h.topo_range hn
  refine ⟨⟨hidn, ?_, ?_, ?_, ?_, ?_, ?_, ?_, ?_, ?_⟩, ?_⟩
  · intro x hx
    rw [hids] at hx
    exact h.ids_lt x (List.mem_of_mem_erase hx)
  · rw [ranks_eq_map_topoOf _ hidn, hids]
    have hmem : ∀ x ∈ g.ids.erase n, x ≠ n ∧ g.containsNode x = true := by
      intro x hx
      rw [h.ids_nodup.mem_erase_iff] at hx
      exact ⟨hx.1, (containsNode_iff g x).mpr hx.2⟩
    have hne : ∀ x, x ≠ n → g.containsNode x = true → g.topoOf x ≠ g.topoOf n :=
      fun x hx hl he => hx (h.topo_inj hl hn he)
    apply perm_range'_of_nodup
    · apply nodup_map_on (h.ids_nodup.erase n)
      intro x hx y hy hxy
      obtain ⟨hx1, hx2⟩ := hmem x hx
      obtain ⟨hy1, hy2⟩ := hmem y hy
      rw [hto x hx1, hto y hy1] at hxy
      exact h.topo_inj hx2 hy2 (decAbove_inj (hne x hx1 hx2) (hne y hy1 hy2) hxy)
    · rw [List.length_map, hlen, List.length_erase_of_mem ((containsNode_iff g n).mp hn), length_ids]
    · intro t ht
      obtain ⟨x, hx, rfl⟩ := List.mem_map.mp ht
      obtain ⟨hx1, hx2⟩ := hmem x hx
      have h1 := h.topo_range hx2
      have h2 := hne x hx1 hx2
      rw [hto x hx1, hlen]
      unfold decAbove; split <;> omega
  · show g.last - 1 = _
    rw [hlen, h.last_eq]
  · intro x; rw [hch]; split
    · simp
    · split
      · exact (h.children_nodup x).erase n
      · exact h.children_nodup x
  · intro x; rw [hpa]; split
    · simp
    · split
      · exact (h.parents_nodup x).erase n
      · exact h.parents_nodup x
  · exact akeys_foldl_aerase_nodup _ _ _ (akeys_foldl_aerase_nodup _ _ _ h.keys_nodup)
  · intro a b; rw [hchm, hed, h.child_iff]
  · intro a b; rw [hpam, hed, h.parent_iff]
    constructor
    · rintro ⟨h1, h2, h3⟩; exact ⟨h1, h3, h2⟩
    · rintro ⟨h1, h2, h3⟩; exact ⟨h1, h3, h2⟩
  · intro a b he
    obtain ⟨h1, h2, h3⟩ := (hed a b).mp he
    have := h.edge_live a b h1
    exact ⟨(hcn a).mpr ⟨h2, this.1⟩, (hcn b).mpr ⟨h3, this.2⟩⟩
  · intro a b he
    obtain ⟨h1, h2, h3⟩ := (hchm a b).mp he
    have hl := h.child_live h1
    rw [hto a h2, hto b h3]
    apply decAbove_lt
    · exact fun he => h2 (h.topo_inj hl.1 hn he)
    · exact fun he => h3 (h.topo_inj hl.2 hn he)
    · exact h.upward a b h1

theorem inv_removeNode {g : Dag N E} (h : g.Inv) (n : Nat) : (g.removeNode n).1.Inv := by
  rcases removeNode_fst g n with ⟨h', hn⟩ | h' <;> rw [h']
  · exact inv_removeNodeCore h n hn
  · exact h

end Dag
end PieModel
