/-
A variant of `dfsLoop_spec` (`Graph/Dfs.lean`) for the query DFSs (`containsTransitiveEdge`,
`descendantsUnsorted`), whose `step` pushes *all* children, visited or not.  Same fuel bound.
-/
import PieModel.Graph.Dfs

namespace PieModel
namespace Dag

/-- Generic DFS specification, for a `step` that may push neighbours that are already visited
(they are skipped when popped): the pushed list only has to consist of `ok` neighbours, be no
longer than the adjacency list, and contain every unvisited `ok` neighbour. -/
theorem dfsLoop_spec_gen
    (step : List Nat → Nat → Option (List Nat)) (adj : Nat → List Nat) (ok : Nat → Bool)
    (U : List Nat) (hadj : ∀ n, n ∉ U → adj n = [])
    (S : Nat → Prop)
    (hstep : ∀ vis n ps, step vis n = some ps →
      ps.length ≤ (adj n).length ∧ (∀ c ∈ ps, c ∈ adj n ∧ ok c = true) ∧
      (∀ c ∈ adj n, ok c = true → c ∈ vis ∨ c ∈ ps) ∧ S n)
    (P : Nat → Prop) (hP : ∀ x c, P x → c ∈ adj x → ok c = true → P c)
    (vis0 : List Nat) :
    ∀ (fuel : Nat) (st vis acc : List Nat),
      st.length + dfsWeight adj U vis ≤ fuel →
      vis = acc ++ vis0 → acc.Nodup → (∀ x ∈ acc, x ∉ vis0) →
      (∀ x ∈ st, P x) → (∀ x ∈ acc, P x ∧ S x) →
      (∀ x ∈ acc, ∀ c ∈ adj x, ok c = true → c ∈ vis ∨ c ∈ st) →
      (dfsLoop step fuel st vis acc = none → ∃ x vis', P x ∧ step vis' x = none) ∧
      (∀ vis' acc', dfsLoop step fuel st vis acc = some (vis', acc') →
        vis' = acc' ++ vis0 ∧ acc'.Nodup ∧ (∀ x ∈ acc', x ∉ vis0) ∧
        (∀ x ∈ acc', P x ∧ S x) ∧
        (∀ x ∈ acc', ∀ c ∈ adj x, ok c = true → c ∈ vis') ∧
        (∀ x ∈ st, x ∈ vis') ∧ (∀ x ∈ vis, x ∈ vis')) := by
  intro fuel
  induction fuel with
  | zero =>
    intro st vis acc hf hv hnd hd hPst hPacc hcl
    have hst : st = [] := by
      cases st with
      | nil => rfl
      | cons a st => simp at hf
    subst hst
    simp only [dfsLoop]
    refine ⟨by simp, ?_⟩
    intro vis' acc' heq
    simp only [Option.some.injEq, Prod.mk.injEq] at heq
    obtain ⟨rfl, rfl⟩ := heq
    refine ⟨hv, hnd, hd, hPacc, ?_, by simp, fun x hx => hx⟩
    intro x hx c hc hok
    rcases hcl x hx c hc hok with h | h
    · exact h
    · simp at h
  | succ f ih =>
    intro st vis acc hf hv hnd hd hPst hPacc hcl
    cases st with
    | nil =>
      simp only [dfsLoop]
      refine ⟨by simp, ?_⟩
      intro vis' acc' heq
      simp only [Option.some.injEq, Prod.mk.injEq] at heq
      obtain ⟨rfl, rfl⟩ := heq
      refine ⟨hv, hnd, hd, hPacc, ?_, by simp, fun x hx => hx⟩
      intro x hx c hc hok
      rcases hcl x hx c hc hok with h | h
      · exact h
      · simp at h
    | cons n st =>
      simp only [dfsLoop]
      by_cases hn : n ∈ vis
      · simp only [hn, if_true]
        have hf' : st.length + dfsWeight adj U vis ≤ f := by
          simp only [List.length_cons] at hf; omega
        have hcl' : ∀ x ∈ acc, ∀ c ∈ adj x, ok c = true → c ∈ vis ∨ c ∈ st := by
          intro x hx c hc hok
          rcases hcl x hx c hc hok with h | h
          · exact .inl h
          · rcases List.mem_cons.mp h with rfl | h
            · exact .inl hn
            · exact .inr h
        obtain ⟨h1, h2⟩ := ih st vis acc hf' hv hnd hd
          (fun x hx => hPst x (List.mem_cons_of_mem _ hx)) hPacc hcl'
        refine ⟨h1, ?_⟩
        intro vis' acc' heq
        obtain ⟨a1, a2, a3, a4, a5, a6, a7⟩ := h2 vis' acc' heq
        refine ⟨a1, a2, a3, a4, a5, ?_, a7⟩
        intro x hx
        rcases List.mem_cons.mp hx with rfl | hx
        · exact a7 _ hn
        · exact a6 x hx
      · simp only [hn, if_false]
        have hPn : P n := hPst n List.mem_cons_self
        cases hs : step (n :: vis) n with
        | none =>
          simp only
          exact ⟨fun _ => ⟨n, n :: vis, hPn, hs⟩, by simp⟩
        | some ps =>
          simp only
          obtain ⟨hpslen, hps1, hps2, hSn⟩ := hstep _ _ _ hs
          have hw : ps.length + dfsWeight adj U (n :: vis) ≤ dfsWeight adj U vis := by
            by_cases hnU : n ∈ U
            · have := dfsWeight_cons_mem adj hnU hn; omega
            · have h0 : adj n = [] := hadj n hnU
              have := dfsWeight_cons_le adj U vis n
              rw [h0] at hpslen; simp at hpslen; simp [hpslen]; exact this
          have hf' : (ps.reverse ++ st).length + dfsWeight adj U (n :: vis) ≤ f := by
            simp only [List.length_cons, List.length_append, List.length_reverse] at hf ⊢; omega
          have hnacc : n ∉ acc := fun h => hn (hv ▸ List.mem_append_left _ h)
          have hnv0 : n ∉ vis0 := fun h => hn (hv ▸ List.mem_append_right _ h)
          obtain ⟨h1, h2⟩ := ih (ps.reverse ++ st) (n :: vis) (n :: acc) hf'
            (by rw [hv]; rfl)
            (List.nodup_cons.mpr ⟨hnacc, hnd⟩)
            (by
              intro x hx
              rcases List.mem_cons.mp hx with rfl | hx
              · exact hnv0
              · exact hd x hx)
            (by
              intro x hx
              rcases List.mem_append.mp hx with hx | hx
              · have := hps1 x (List.mem_reverse.mp hx)
                exact hP n x hPn this.1 this.2
              · exact hPst x (List.mem_cons_of_mem _ hx))
            (by
              intro x hx
              rcases List.mem_cons.mp hx with rfl | hx
              · exact ⟨hPn, hSn⟩
              · exact hPacc x hx)
            (by
              intro x hx c hc hok
              rcases List.mem_cons.mp hx with rfl | hx
              · rcases hps2 c hc hok with hcv | hcp
                · exact .inl hcv
                · right
                  exact List.mem_append_left _ (List.mem_reverse.mpr hcp)
              · rcases hcl x hx c hc hok with h | h
                · exact .inl (List.mem_cons_of_mem _ h)
                · rcases List.mem_cons.mp h with rfl | h
                  · exact .inl List.mem_cons_self
                  · exact .inr (List.mem_append_right _ h))
          refine ⟨h1, ?_⟩
          intro vis' acc' heq
          obtain ⟨a1, a2, a3, a4, a5, a6, a7⟩ := h2 vis' acc' heq
          refine ⟨a1, a2, a3, a4, a5, ?_, fun x hx => a7 x (List.mem_cons_of_mem _ hx)⟩
          intro x hx
          rcases List.mem_cons.mp hx with rfl | hx
          · exact a7 _ List.mem_cons_self
          · exact a6 x (List.mem_append_right _ hx)

end Dag
end PieModel
