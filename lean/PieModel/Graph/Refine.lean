/-
Property C11, part 3: first-insertion order as a refinement.

`SpecG` is an abstract edge-set specification: the live nodes with their data (creation order)
and, for every node, the ordered list of outgoing `(dst, data)` pairs and of incoming
`(src, data)` pairs.  Its operations are the obvious ones: a new edge is *appended*, an existing
edge keeps position and data, a removal *filters*, and `addEdge` decides cycles by reachability
over the abstract edges.  `abs` reads a `SpecG` off a `Dag`; every operation of the model commutes
with `abs` under the invariant, hence `abs (Dag.run ops) = ops.foldl SpecG.step SpecG.empty`.
-/
import PieModel.Graph.Queries
import PieModel.Props.C10

namespace PieModel
open Dag

/-! ### the specification -/

structure SpecG (N E : Type) where
  /-- live nodes with their data, in creation order -/
  nodes : List (Nat × N) := []
  /-- outgoing edges `(dst, data)` of every node, in order of first insertion -/
  out : Nat → List (Nat × E) := fun _ => []
  /-- incoming edges `(src, data)` of every node, in order of first insertion -/
  inc : Nat → List (Nat × E) := fun _ => []
  /-- next fresh id -/
  next : Nat := 0

namespace SpecG
variable {N E : Type}

theorem ext' {a b : SpecG N E} (h1 : a.nodes = b.nodes) (h2 : a.out = b.out)
    (h3 : a.inc = b.inc) (h4 : a.next = b.next) : a = b := by
  cases a; cases b; simp_all

def empty : SpecG N E := {}

def ids (sg : SpecG N E) : List Nat := sg.nodes.map (·.1)

/-- Abstract edge relation: `t` occurs in the outgoing list of `s`. -/
def HasEdge (sg : SpecG N E) (s t : Nat) : Prop := t ∈ (sg.out s).map (·.1)

/-- Abstract reachability (at least one edge). -/
inductive Reach (sg : SpecG N E) : Nat → Nat → Prop
  | edge {s d : Nat} : sg.HasEdge s d → Reach sg s d
  | step {s m d : Nat} : sg.HasEdge s m → Reach sg m d → Reach sg s d

/-- Point update of a function. -/
def upd {α : Type} (f : Nat → α) (k : Nat) (v : α) : Nat → α := fun x => if x = k then v else f x

/-- `addEdge` succeeds on the specification iff both ends are live and distinct, the edge is
new, and it closes no cycle. -/
def CanAdd (sg : SpecG N E) (s t : Nat) : Prop :=
  s ∈ sg.ids ∧ t ∈ sg.ids ∧ s ≠ t ∧ ¬ sg.HasEdge s t ∧ ¬ sg.Reach t s

open Classical in
/-- The specification of every mutating operation. -/
noncomputable def step (sg : SpecG N E) : GOp N E → SpecG N E
  | .addNode d => { sg with nodes := sg.nodes ++ [(sg.next, d)], next := sg.next + 1 }
  | .addEdge s t d =>
    if sg.CanAdd s t then
      { sg with out := upd sg.out s (sg.out s ++ [(t, d)]),
                inc := upd sg.inc t (sg.inc t ++ [(s, d)]) }
    else sg
  | .removeEdge s t =>
    { sg with out := upd sg.out s ((sg.out s).filter (fun p => p.1 != t)),
              inc := upd sg.inc t ((sg.inc t).filter (fun p => p.1 != s)) }
  | .removeOutgoing s =>
    { sg with out := upd sg.out s [],
              inc := fun x => (sg.inc x).filter (fun p => p.1 != s) }
  | .removeNode n =>
    { sg with nodes := sg.nodes.filter (fun kv => kv.1 != n),
              out := fun x => if x = n then [] else (sg.out x).filter (fun p => p.1 != n),
              inc := fun x => if x = n then [] else (sg.inc x).filter (fun p => p.1 != n) }
  | .setNodeData n d =>
    { sg with nodes := sg.nodes.map (fun kv => if kv.1 = n then (kv.1, d) else kv) }
  | .setEdgeData s t d =>
    { sg with out := upd sg.out s ((sg.out s).map (fun p => if p.1 = t then (p.1, d) else p)),
              inc := upd sg.inc t ((sg.inc t).map (fun p => if p.1 = s then (p.1, d) else p)) }

/-- The specification state reached by a sequence of operations. -/
noncomputable def run (ops : List (GOp N E)) : SpecG N E := ops.foldl step empty

end SpecG

/-! ### generic list facts about `filterMap` with pairs -/

section Lists
variable {β : Type}

theorem filterMap_pair_congr (e e' : Nat → Option β) (l : List Nat)
    (he : ∀ c ∈ l, e' c = e c) :
    l.filterMap (fun c => (e' c).map (fun d => (c, d))) =
      l.filterMap (fun c => (e c).map (fun d => (c, d))) := by
  induction l with
  | nil => rfl
  | cons a l ih =>
    have ih' := ih (fun c hc => he c (List.mem_cons_of_mem _ hc))
    simp only [List.filterMap_cons, he a List.mem_cons_self, ih']

theorem filterMap_pair_filter (e e' : Nat → Option β) (l : List Nat) (q : Nat → Bool)
    (he : ∀ c ∈ l, q c = true → e' c = e c) :
    (l.filter q).filterMap (fun c => (e' c).map (fun d => (c, d))) =
      (l.filterMap (fun c => (e c).map (fun d => (c, d)))).filter (fun p => q p.1) := by
  induction l with
  | nil => rfl
  | cons a l ih =>
    have ih' := ih (fun c hc => he c (List.mem_cons_of_mem _ hc))
    cases hq : q a with
    | false =>
      rw [List.filter_cons_of_neg (by simp [hq]), ih']
      cases hea : e a with
      | none => simp [hea]
      | some b => simp [hea, hq]
    | true =>
      rw [List.filter_cons_of_pos (by simp [hq])]
      have := he a List.mem_cons_self hq
      cases hea : e a with
      | none => simp [hea, this, ih']
      | some b => simp [hea, this, ih', hq]

theorem filterMap_pair_update (e e' : Nat → Option β) (l : List Nat) (t : Nat) (d : β)
    (he : ∀ c ∈ l, e' c = if c = t then (e c).map (fun _ => d) else e c) :
    l.filterMap (fun c => (e' c).map (fun d => (c, d))) =
      (l.filterMap (fun c => (e c).map (fun d => (c, d)))).map
        (fun p => if p.1 = t then (p.1, d) else p) := by
  induction l with
  | nil => rfl
  | cons a l ih =>
    have ih' := ih (fun c hc => he c (List.mem_cons_of_mem _ hc))
    have ha := he a List.mem_cons_self
    by_cases hat : a = t
    · subst hat
      simp only [if_true] at ha
      cases hea : e a with
      | none => simp [hea, ha, ih']
      | some b => simp [hea, ha, ih']
    · simp only [hat, if_false] at ha
      cases hea : e a with
      | none => simp [hea, ha, ih']
      | some b => simp [hea, ha, hat, ih']

end Lists

/-! ### the abstraction function -/

namespace Dag
variable {N E : Type} {g : Dag N E}

/-- Live nodes with their data, in storage (= creation) order. -/
def nodeData (g : Dag N E) : List (Nat × N) := g.nodes.map (fun kv => (kv.1, kv.2.data))

/-- The abstraction function. -/
def abs (g : Dag N E) : SpecG N E :=
  { nodes := g.nodeData, out := g.outgoingEdges, inc := g.incomingEdges, next := g.next }

@[simp] theorem abs_nodes (g : Dag N E) : g.abs.nodes = g.nodeData := rfl
@[simp] theorem abs_out (g : Dag N E) : g.abs.out = g.outgoingEdges := rfl
@[simp] theorem abs_inc (g : Dag N E) : g.abs.inc = g.incomingEdges := rfl
@[simp] theorem abs_next (g : Dag N E) : g.abs.next = g.next := rfl

theorem abs_ids (g : Dag N E) : g.abs.ids = g.ids := by
  simp [SpecG.ids, nodeData, ids, List.map_map, Function.comp_def]

theorem abs_empty : (Dag.empty : Dag N E).abs = SpecG.empty := rfl

/-- The node list is determined by `ids` and `getNodeData`. -/
theorem nodeData_eq (h : g.ids.Nodup) :
    g.nodeData = g.ids.filterMap (fun k => (g.getNodeData k).map (fun d => (k, d))) := by
  have key : ∀ l : List (Nat × NodeInfo N), (∀ kv ∈ l, g.info kv.1 = some kv.2) →
      l.map (fun kv => (kv.1, kv.2.data)) =
        (l.map (·.1)).filterMap (fun k => (g.getNodeData k).map (fun d => (k, d))) := by
    intro l
    induction l with
    | nil => intro _; rfl
    | cons a l ih =>
      intro hl
      have ha := hl a List.mem_cons_self
      have ih' := ih (fun kv hkv => hl kv (List.mem_cons_of_mem _ hkv))
      have hd : g.getNodeData a.1 = some a.2.data := by simp [getNodeData, ha]
      simp only [List.map_cons, List.filterMap_cons, hd, Option.map_some, ← ih']
  exact key g.nodes (fun kv hkv => aget_of_mem h hkv)

/-- Two graphs with the same ids and node data have the same node list. -/
theorem nodeData_congr {g g' : Dag N E} (h : g.ids.Nodup) (hids : g'.ids = g.ids)
    (hd : ∀ x, g'.getNodeData x = g.getNodeData x) : g'.nodeData = g.nodeData := by
  rw [nodeData_eq h, nodeData_eq (hids ▸ h), hids]
  simp only [hd]

/-! ### abstract edges and reachability are the concrete ones -/

theorem abs_hasEdge (h : g.WF) (s t : Nat) : g.abs.HasEdge s t ↔ g.HasEdge s t := by
  simp only [SpecG.HasEdge, abs_out, outgoingEdges_map_fst h, HasEdge]

theorem abs_reach (h : g.WF) (a b : Nat) : g.abs.Reach a b ↔ g.Reach a b := by
  constructor
  · intro hr
    induction hr with
    | edge he => exact .edge ((abs_hasEdge h _ _).mp he)
    | step he _ ih => exact .step ((abs_hasEdge h _ _).mp he) ih
  · intro hr
    induction hr with
    | edge he => exact .edge ((abs_hasEdge h _ _).mpr he)
    | step he _ ih => exact .step ((abs_hasEdge h _ _).mpr he) ih

/-- The specification accepts a new edge exactly when the model answers `.ok true`. -/
theorem abs_canAdd_iff (h : g.Inv) (s t : Nat) (d : E) :
    g.abs.CanAdd s t ↔ (g.addEdge s t d).2 = .ok true := by
  rw [addEdge_ok_true_iff h, SpecG.CanAdd, abs_ids, abs_hasEdge h.toWF, abs_reach h.toWF,
    containsNode_iff, containsNode_iff]

/-- Incoming and outgoing lists of the abstraction describe the same edges with the same data. -/
theorem abs_inc_iff_out (h : g.WF) (s t : Nat) (d : E) :
    (s, d) ∈ g.abs.inc t ↔ (t, d) ∈ g.abs.out s := by
  rw [abs_inc, abs_out, mem_incomingEdges h, mem_outgoingEdges h]

/-! ### every operation commutes with the abstraction -/

theorem outgoingEdges_congr {g g' : Dag N E} (x : Nat) (hc : g'.childrenOf x = g.childrenOf x)
    (hd : ∀ c ∈ g.childrenOf x, g'.getEdgeData x c = g.getEdgeData x c) :
    g'.outgoingEdges x = g.outgoingEdges x := by
  rw [outgoingEdges_eq, outgoingEdges_eq, hc]
  exact filterMap_pair_congr _ _ _ hd

theorem incomingEdges_congr {g g' : Dag N E} (x : Nat) (hc : g'.parentsOf x = g.parentsOf x)
    (hd : ∀ p ∈ g.parentsOf x, g'.getEdgeData p x = g.getEdgeData p x) :
    g'.incomingEdges x = g.incomingEdges x := by
  rw [incomingEdges_eq, incomingEdges_eq, hc]
  exact filterMap_pair_congr (fun p => g.getEdgeData p x) (fun p => g'.getEdgeData p x) _ hd

theorem abs_addNode (h : g.Inv) (d : N) : (g.addNode d).1.abs = g.abs.step (.addNode d) := by
  apply SpecG.ext'
  · simp [SpecG.step, nodeData, addNode]
  · funext x
    exact outgoingEdges_congr x (childrenOf_addNode d h.toWF x) (fun _ _ => rfl)
  · funext x
    exact incomingEdges_congr x (parentsOf_addNode d h.toWF x) (fun _ _ => rfl)
  · rfl

theorem abs_addEdge (h : g.Inv) (s t : Nat) (d : E) :
    (g.addEdge s t d).1.abs = g.abs.step (.addEdge s t d) := by
  by_cases hr : (g.addEdge s t d).2 = .ok true
  · have hcan := (abs_canAdd_iff h s t d).mpr hr
    obtain ⟨_, _, _, hc, _⟩ := (addEdge_ok_true_iff h s t d).mp hr
    have hp : s ∉ g.parentsOf t := fun hp => hc ((h.child_iff_parent s t).mpr hp)
    simp only [SpecG.step, if_pos hcan]
    apply SpecG.ext'
    · exact nodeData_congr h.ids_nodup (ids_addEdge h s t d) (getNodeData_addEdge h s t d)
    · funext x
      simp only [abs_out, SpecG.upd]
      by_cases hx : x = s
      · subst hx
        rw [if_pos rfl, outgoingEdges_eq, childrenOf_addEdge_new h hr, if_pos rfl,
          List.filterMap_append]
        congr 1
        · apply filterMap_pair_congr (fun c => g.getEdgeData x c)
          intro c hcx
          apply getEdgeData_addEdge_of_ne h
          rintro ⟨_, rfl⟩; exact hc hcx
        · simp [getEdgeData_addEdge_new h hr]
      · rw [if_neg hx]
        apply outgoingEdges_congr x (childrenOf_addEdge_of_ne h s t d hx)
        intro c _
        exact getEdgeData_addEdge_of_ne h s t d (fun hh => hx hh.1)
    · funext x
      simp only [abs_inc, SpecG.upd]
      by_cases hx : x = t
      · subst hx
        rw [if_pos rfl, incomingEdges_eq, parentsOf_addEdge_new h hr, if_pos rfl,
          List.filterMap_append]
        congr 1
        · apply filterMap_pair_congr (fun p => g.getEdgeData p x)
          intro p hpx
          apply getEdgeData_addEdge_of_ne h
          rintro ⟨rfl, _⟩; exact hp hpx
        · simp [getEdgeData_addEdge_new h hr]
      · rw [if_neg hx]
        apply incomingEdges_congr x (parentsOf_addEdge_of_ne h s t d hx)
        intro p _
        exact getEdgeData_addEdge_of_ne h s t d (fun hh => hx hh.2)
    · exact next_addEdge h s t d
  · have hcan : ¬ g.abs.CanAdd s t := fun hh => hr ((abs_canAdd_iff h s t d).mp hh)
    simp only [SpecG.step, if_neg hcan]
    rw [addEdge_fst_of_ne_ok_true h hr]

theorem abs_removeEdge (h : g.Inv) (s t : Nat) :
    (g.removeEdge s t).1.abs = g.abs.step (.removeEdge s t) := by
  have hw := h.toWF
  apply SpecG.ext'
  · exact nodeData_congr h.ids_nodup (ids_removeEdge g s t) (getNodeData_removeEdge g s t)
  · funext x
    simp only [SpecG.step, abs_out, SpecG.upd]
    by_cases hx : x = s
    · subst hx
      rw [if_pos rfl, outgoingEdges_eq, childrenOf_removeEdge hw, if_pos rfl,
        erase_eq_filter_of_nodup (h.children_nodup x)]
      apply filterMap_pair_filter (fun c => g.getEdgeData x c)
      intro c _ hq
      rw [getEdgeData_removeEdge hw, if_neg]
      rintro ⟨_, rfl⟩; simp at hq
    · rw [if_neg hx]
      apply outgoingEdges_congr x (by rw [childrenOf_removeEdge hw, if_neg hx])
      intro c _
      rw [getEdgeData_removeEdge hw, if_neg (fun hh => hx hh.1)]
  · funext x
    simp only [SpecG.step, abs_inc, SpecG.upd]
    by_cases hx : x = t
    · subst hx
      rw [if_pos rfl, incomingEdges_eq, parentsOf_removeEdge hw, if_pos rfl,
        erase_eq_filter_of_nodup (h.parents_nodup x)]
      apply filterMap_pair_filter (fun p => g.getEdgeData p x)
      intro p _ hq
      rw [getEdgeData_removeEdge hw, if_neg]
      rintro ⟨rfl, _⟩; simp at hq
    · rw [if_neg hx]
      apply incomingEdges_congr x (by rw [parentsOf_removeEdge hw, if_neg hx])
      intro p _
      rw [getEdgeData_removeEdge hw, if_neg (fun hh => hx hh.2)]
  · exact next_removeEdge g s t

theorem abs_removeOutgoing (h : g.Inv) (s : Nat) :
    (g.removeOutgoingEdgesOfNode s).1.abs = g.abs.step (.removeOutgoing s) := by
  have hw := h.toWF
  apply SpecG.ext'
  · exact nodeData_congr h.ids_nodup (ids_removeOutgoing g s) (getNodeData_removeOutgoing hw s)
  · funext x
    simp only [SpecG.step, abs_out, SpecG.upd]
    by_cases hx : x = s
    · subst hx
      rw [if_pos rfl, outgoingEdges_eq, childrenOf_removeOutgoing hw, if_pos rfl]; rfl
    · rw [if_neg hx]
      apply outgoingEdges_congr x (by rw [childrenOf_removeOutgoing hw, if_neg hx])
      intro c _
      rw [getEdgeData_removeOutgoing hw, if_neg hx]
  · funext x
    simp only [SpecG.step, abs_inc]
    rw [incomingEdges_eq, parentsOf_removeOutgoing hw, erase_eq_filter_of_nodup (h.parents_nodup x)]
    apply filterMap_pair_filter (fun p => g.getEdgeData p x)
    intro p _ hq
    rw [getEdgeData_removeOutgoing hw, if_neg]
    rintro rfl; simp at hq
  · exact next_removeOutgoing g s

theorem abs_removeNode (h : g.Inv) (n : Nat) :
    (g.removeNode n).1.abs = g.abs.step (.removeNode n) := by
  have hw := h.toWF
  have hw' := (inv_removeNode h n).toWF
  apply SpecG.ext'
  · simp only [SpecG.step, abs_nodes]
    rw [nodeData_eq hw'.ids_nodup, nodeData_eq h.ids_nodup, ids_removeNode,
      erase_eq_filter_of_nodup h.ids_nodup]
    apply filterMap_pair_filter g.getNodeData
    intro x _ hq
    rw [getNodeData_removeNode hw, if_neg]
    rintro rfl; simp at hq
  · funext x
    simp only [SpecG.step, abs_out]
    by_cases hx : x = n
    · rw [if_pos hx, outgoingEdges_eq, childrenOf_removeNode hw, if_pos hx]; rfl
    · rw [if_neg hx, outgoingEdges_eq, childrenOf_removeNode hw, if_neg hx,
        erase_eq_filter_of_nodup (h.children_nodup x)]
      apply filterMap_pair_filter (fun c => g.getEdgeData x c)
      intro c _ hq
      rw [getEdgeData_removeNode hw, if_neg]
      rintro (hh | rfl)
      · exact hx hh
      · simp at hq
  · funext x
    simp only [SpecG.step, abs_inc]
    by_cases hx : x = n
    · rw [if_pos hx, incomingEdges_eq, parentsOf_removeNode hw, if_pos hx]; rfl
    · rw [if_neg hx, incomingEdges_eq, parentsOf_removeNode hw, if_neg hx,
        erase_eq_filter_of_nodup (h.parents_nodup x)]
      apply filterMap_pair_filter (fun p => g.getEdgeData p x)
      intro p _ hq
      rw [getEdgeData_removeNode hw, if_neg]
      rintro (rfl | hh)
      · simp at hq
      · exact hx hh
  · exact next_removeNode g n

theorem abs_setNodeData (h : g.Inv) (n : Nat) (d : N) :
    (g.setNodeData n d).abs = g.abs.step (.setNodeData n d) := by
  apply SpecG.ext'
  · simp only [SpecG.step, abs_nodes]
    rw [nodeData_eq (by rw [ids_setNodeData]; exact h.ids_nodup), nodeData_eq h.ids_nodup,
      ids_setNodeData]
    apply filterMap_pair_update g.getNodeData
    intro x _
    rw [getNodeData_setNodeData]
    by_cases hx : x = n
    · subst hx
      cases hl : g.containsNode x
      · simp [getNodeData_of_not_live g hl]
      · have : (g.getNodeData x).isSome = true := by rw [getNodeData_isSome, hl]
        obtain ⟨v, hv⟩ := Option.isSome_iff_exists.mp this
        simp [hv]
    · simp [hx]
  · funext x
    exact outgoingEdges_congr x (childrenOf_setNodeData g n d x) (fun _ _ => rfl)
  · funext x
    exact incomingEdges_congr x (parentsOf_setNodeData g n d x) (fun _ _ => rfl)
  · rfl

theorem abs_setEdgeData (g : Dag N E) (s t : Nat) (d : E) :
    (g.setEdgeData s t d).abs = g.abs.step (.setEdgeData s t d) := by
  apply SpecG.ext'
  · rfl
  · funext x
    simp only [SpecG.step, abs_out, SpecG.upd]
    by_cases hx : x = s
    · subst hx
      rw [if_pos rfl, outgoingEdges_eq, childrenOf_setEdgeData]
      apply filterMap_pair_update (fun c => g.getEdgeData x c)
      intro c _
      rw [getEdgeData_setEdgeData]
      by_cases hc : c = t
      · subst hc; cases g.getEdgeData x c <;> simp
      · simp [hc]
    · rw [if_neg hx]
      apply outgoingEdges_congr x (childrenOf_setEdgeData g s t d x)
      intro c _
      rw [getEdgeData_setEdgeData, if_neg (fun hh => hx hh.1)]
  · funext x
    simp only [SpecG.step, abs_inc, SpecG.upd]
    by_cases hx : x = t
    · subst hx
      rw [if_pos rfl, incomingEdges_eq, parentsOf_setEdgeData]
      apply filterMap_pair_update (fun p => g.getEdgeData p x)
      intro p _
      rw [getEdgeData_setEdgeData]
      by_cases hp : p = s
      · subst hp; cases g.getEdgeData p x <;> simp
      · simp [hp]
    · rw [if_neg hx]
      apply incomingEdges_congr x (parentsOf_setEdgeData g s t d x)
      intro p _
      rw [getEdgeData_setEdgeData, if_neg (fun hh => hx hh.2.1)]
  · rfl

/-- **Refinement**: every operation of the model commutes with the abstraction. -/
theorem abs_step (h : g.Inv) (op : GOp N E) : (g.step op).abs = g.abs.step op := by
  cases op with
  | addNode d => exact abs_addNode h d
  | addEdge s t d => exact abs_addEdge h s t d
  | removeEdge s t => exact abs_removeEdge h s t
  | removeOutgoing s => exact abs_removeOutgoing h s
  | removeNode n => exact abs_removeNode h n
  | setNodeData n d => exact abs_setNodeData h n d
  | setEdgeData s t d => exact abs_setEdgeData g s t d

theorem abs_foldl_step (ops : List (GOp N E)) (g : Dag N E) (h : g.Inv) :
    (ops.foldl Dag.step g).abs = ops.foldl SpecG.step g.abs := by
  induction ops generalizing g with
  | nil => rfl
  | cons op ops ih =>
    simp only [List.foldl_cons]
    rw [ih _ (C10_inv_step g h op), abs_step h]

/-- The model, started from the empty graph, computes what the specification computes. -/
theorem abs_run (ops : List (GOp N E)) : (Dag.run ops).abs = SpecG.run ops := by
  unfold Dag.run SpecG.run
  rw [abs_foldl_step ops _ inv_empty, abs_empty]

end Dag
end PieModel
