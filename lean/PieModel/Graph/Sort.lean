/-
Pure list facts about the rank reassignment performed by `Dag.reorderNodes`:
`newRank r F B` is the rank function after the reorder, expressed without the graph.
-/
import PieModel.Util

namespace PieModel

/-- The keys of `l` sorted by rank `r` (as computed inside `reorderNodes`). -/
def sortedKeys (r : Nat → Nat) (l : List Nat) : List Nat :=
  (isortBy (·.2) (l.map (fun k => (k, r k)))).map (·.1)

/-- The (key, new rank) assignment list computed by `reorderNodes` (same shape as in the model). -/
def reorderAssign (r : Nat → Nat) (fwd bwd : List Nat) : List (Nat × Nat) :=
  let f := isortBy (·.2) (fwd.map (fun k => (k, r k)))
  let b := isortBy (·.2) (bwd.map (fun k => (k, r k)))
  let keys := b.map (·.1) ++ f.map (·.1)
  let topos := isortBy id (b.map (·.2) ++ f.map (·.2))
  keys.zip topos

/-- Rank after the reorder. -/
def newRank (r : Nat → Nat) (F B : List Nat) (x : Nat) : Nat :=
  (aget (reorderAssign r F B) x).getD (r x)


/-! ### insertion sort -/

theorem insertBy_perm {α : Type} (key : α → Nat) (x : α) (l : List α) :
    (insertBy key x l).Perm (x :: l) := by
  induction l with
  | nil => exact List.Perm.refl _
  | cons y ys ih =>
    simp only [insertBy]
    split
    · exact List.Perm.refl _
    · exact ((List.Perm.cons y ih).trans (List.Perm.swap x y ys))

theorem isortBy_perm {α : Type} (key : α → Nat) (l : List α) : (isortBy key l).Perm l := by
  induction l with
  | nil => exact List.Perm.refl _
  | cons x xs ih => exact (insertBy_perm key x _).trans (List.Perm.cons x ih)

theorem insertBy_sorted {α : Type} (key : α → Nat) (x : α) (l : List α)
    (h : l.Pairwise (fun a b => key a ≤ key b)) :
    (insertBy key x l).Pairwise (fun a b => key a ≤ key b) := by
  induction l with
  | nil => simp [insertBy]
  | cons y ys ih =>
    have h' := List.pairwise_cons.mp h
    simp only [insertBy]
    split
    · rename_i hlt
      refine List.pairwise_cons.mpr ⟨?_, h⟩
      intro z hz
      rcases List.mem_cons.mp hz with rfl | hz
      · omega
      · have := h'.1 z hz; omega
    · rename_i hnlt
      refine List.pairwise_cons.mpr ⟨?_, ih h'.2⟩
      intro z hz
      have := (insertBy_perm key x ys).mem_iff.mp hz
      rcases List.mem_cons.mp this with rfl | hz
      · omega
      · exact h'.1 z hz

theorem isortBy_sorted {α : Type} (key : α → Nat) (l : List α) :
    (isortBy key l).Pairwise (fun a b => key a ≤ key b) := by
  induction l with
  | nil => simp [isortBy]
  | cons x xs ih => exact insertBy_sorted key x _ ih

theorem pairwise_lt_of_le_of_nodup {l : List Nat} (h : l.Pairwise (· ≤ ·)) (hn : l.Nodup) :
    l.Pairwise (· < ·) := by
  have := List.Pairwise.and h hn
  exact this.imp (fun ⟨h1, h2⟩ => by omega)

/-- A strictly sorted list all of whose elements lie in a strictly sorted list is a sublist. -/
theorem sublist_of_subset_of_pairwise_lt {S L : List Nat} (hS : S.Pairwise (· < ·))
    (hL : L.Pairwise (· < ·)) (hsub : ∀ x ∈ S, x ∈ L) : S.Sublist L := by
  have hp : S.Perm (L.filter (fun x => decide (x ∈ S))) := by
    refine (List.perm_ext_iff_of_nodup ?_ ?_).mpr ?_
    · exact hS.imp (fun h => Nat.ne_of_lt h)
    · exact (hL.imp (fun h => Nat.ne_of_lt h)).filter _
    · intro a
      simp only [List.mem_filter, decide_eq_true_eq]
      exact ⟨fun h => ⟨hsub a h, h⟩, fun h => h.2⟩
  have : S = L.filter (fun x => decide (x ∈ S)) :=
    hp.eq_of_pairwise (le := (· < ·)) (fun a b _ _ h1 h2 => by omega) hS (hL.filter _)
  rw [this]
  exact List.filter_sublist

theorem sublist_getElem_ge {S L : List Nat} (h : S.Sublist L)
    (hL : L.Pairwise (· < ·)) :
    ∀ i (hi : i < S.length), L[i]'(Nat.lt_of_lt_of_le hi h.length_le) ≤ S[i] := by
  induction h with
  | slnil => intro i hi; simp at hi
  | cons a h ih =>
    rename_i S' L'
    intro i hi
    have hL' := (List.pairwise_cons.mp hL)
    cases i with
    | zero =>
      simp
      have : S'[0] ∈ L' := h.subset (List.getElem_mem _)
      exact Nat.le_of_lt (hL'.1 _ this)
    | succ j =>
      simp
      have hj : j < S'.length := by omega
      have h1 := ih hL'.2 j hj
      have hS : S'.Pairwise (· < ·) := hL'.2.sublist h
      have : S'[j] < S'[j+1] := by
        exact List.pairwise_iff_getElem.mp hS j (j+1) hj hi (by omega)
      omega
  | cons_cons a h ih =>
    rename_i S' L'
    intro i hi
    have hL' := (List.pairwise_cons.mp hL)
    cases i with
    | zero => simp
    | succ j =>
      simp
      exact ih hL'.2 j (by simpa using hi)

theorem sublist_getElem_le_end {S L : List Nat} (h : S.Sublist L)
    (hL : L.Pairwise (· < ·)) :
    ∀ j (hj : j < S.length),
      S[j] ≤ L[j + (L.length - S.length)]'(by have := h.length_le; omega) := by
  induction h with
  | slnil => intro i hi; simp at hi
  | cons a h ih =>
    rename_i S' L'
    intro j hj
    have hL' := (List.pairwise_cons.mp hL)
    have hle := h.length_le
    have h1 := ih hL'.2 j hj
    have e : j + ((a :: L').length - S'.length) = (j + (L'.length - S'.length)) + 1 := by
      simp only [List.length_cons]; omega
    simp only [e, List.getElem_cons_succ]
    exact h1
  | cons_cons a h ih =>
    rename_i S' L'
    intro j hj
    have hL' := (List.pairwise_cons.mp hL)
    have hle := h.length_le
    cases j with
    | zero =>
      simp only [List.getElem_cons_zero]
      have aux : ∀ k (hk : k < (a :: L').length), a ≤ (a :: L')[k] := by
        intro k hk
        cases k with
        | zero => simp
        | succ k =>
          simp only [List.getElem_cons_succ]
          exact Nat.le_of_lt (hL'.1 _ (List.getElem_mem _))
      exact aux _ _
    | succ j =>
      have h1 := ih hL'.2 j (by simpa using hj)
      have e : j + 1 + ((a :: L').length - (a :: S').length)
          = (j + (L'.length - S'.length)) + 1 := by
        simp only [List.length_cons]; omega
      simp only [e, List.getElem_cons_succ]
      exact h1

/-! ### association lists (private: public versions live in `Graph/AList.lean`) -/

private theorem aget_some_of_mem_nodup {κ α : Type} [DecidableEq κ] {m : List (κ × α)} {k : κ} {v : α}
    (hn : (m.map (·.1)).Nodup) (h : (k, v) ∈ m) : aget m k = some v := by
  induction m with
  | nil => cases h
  | cons p rest ih =>
    obtain ⟨k', v'⟩ := p
    simp only [List.map_cons, List.nodup_cons] at hn
    simp only [aget]
    rcases List.mem_cons.mp h with heq | hmem
    · cases heq; simp
    · have hne : k' ≠ k := by
        intro e; subst e
        exact hn.1 (List.mem_map.mpr ⟨(k', v), hmem, rfl⟩)
      simp [hne, ih hn.2 hmem]

private theorem aget_none_of_not_mem_keys {κ α : Type} [DecidableEq κ] {m : List (κ × α)} {k : κ}
    (h : k ∉ m.map (·.1)) : aget m k = none := by
  induction m with
  | nil => rfl
  | cons p rest ih =>
    obtain ⟨k', v'⟩ := p
    simp only [List.map_cons, List.mem_cons, not_or] at h
    simp only [aget]
    have hne : k' ≠ k := fun e => h.1 e.symm
    simp [hne, ih h.2]

/-! ### the reorder assignment, index view -/

theorem lt_of_getElem_lt {l : List Nat} (h : l.Pairwise (· < ·)) {i j : Nat}
    (hi : i < l.length) (hj : j < l.length) (hlt : l[i] < l[j]) : i < j := by
  apply Classical.byContradiction
  intro hn
  rcases Nat.lt_or_eq_of_le (Nat.le_of_not_lt hn) with hji | hji
  · have := List.pairwise_iff_getElem.mp h j i hj hi hji
    omega
  · subst hji; omega

theorem sortedKeys_perm (r : Nat → Nat) (l : List Nat) : (sortedKeys r l).Perm l := by
  unfold sortedKeys
  have h := (isortBy_perm (·.2) (l.map (fun k => (k, r k)))).map (·.1)
  simpa [List.map_map, Function.comp_def] using h

theorem mem_sortedKeys {r : Nat → Nat} {l : List Nat} {x : Nat} : x ∈ sortedKeys r l ↔ x ∈ l :=
  (sortedKeys_perm r l).mem_iff

theorem sortedPairs_snd (r : Nat → Nat) (l : List Nat) :
    (isortBy (·.2) (l.map (fun k => (k, r k)))).map (·.2) = (sortedKeys r l).map r := by
  unfold sortedKeys
  rw [List.map_map]
  apply List.map_congr_left
  intro p hp
  have := (isortBy_perm _ _).mem_iff.mp hp
  obtain ⟨k, _, rfl⟩ := List.mem_map.mp this
  rfl

theorem sortedKeys_sorted (r : Nat → Nat) (l : List Nat) :
    ((sortedKeys r l).map r).Pairwise (· ≤ ·) := by
  rw [← sortedPairs_snd]
  exact List.pairwise_map.mpr (isortBy_sorted _ _)

/-- Keys of the assignment: sorted backward set followed by sorted forward set. -/
def newKeys (r : Nat → Nat) (F B : List Nat) : List Nat := sortedKeys r B ++ sortedKeys r F

/-- The pool of ranks of `B ∪ F`, sorted. -/
def newRanks (r : Nat → Nat) (F B : List Nat) : List Nat := isortBy id ((newKeys r F B).map r)

theorem reorderAssign_eq (r : Nat → Nat) (F B : List Nat) :
    reorderAssign r F B = (newKeys r F B).zip (newRanks r F B) := by
  simp only [reorderAssign, sortedPairs_snd, newKeys, newRanks, List.map_append]
  rfl

variable {r : Nat → Nat} {F B : List Nat}

theorem newKeys_perm : (newKeys r F B).Perm (B ++ F) :=
  List.Perm.append (sortedKeys_perm r B) (sortedKeys_perm r F)

theorem mem_newKeys {x : Nat} : x ∈ newKeys r F B ↔ x ∈ B ∨ x ∈ F := by
  rw [newKeys_perm.mem_iff, List.mem_append]

theorem newRanks_perm : (newRanks r F B).Perm ((newKeys r F B).map r) := isortBy_perm _ _

theorem newRanks_length : (newRanks r F B).length = (newKeys r F B).length := by
  rw [newRanks_perm.length_eq, List.length_map]

theorem newKeys_length :
    (newKeys r F B).length = (sortedKeys r B).length + (sortedKeys r F).length := by
  simp [newKeys]

theorem newKeys_map_nodup (hinj : ((B ++ F).map r).Nodup) : ((newKeys r F B).map r).Nodup :=
  ((newKeys_perm (r := r) (F := F) (B := B)).map r).nodup_iff.mpr hinj

theorem newKeys_nodup (hinj : ((B ++ F).map r).Nodup) : (newKeys r F B).Nodup :=
  List.Pairwise.of_map r (fun _ _ h e => h (congrArg r e)) (newKeys_map_nodup hinj)

theorem newRanks_lt (hinj : ((B ++ F).map r).Nodup) : (newRanks r F B).Pairwise (· < ·) := by
  apply pairwise_lt_of_le_of_nodup
  · have := isortBy_sorted id ((newKeys r F B).map r)
    simpa [newRanks] using this
  · exact newRanks_perm.nodup_iff.mpr (newKeys_map_nodup hinj)

theorem rankB_lt (hinj : ((B ++ F).map r).Nodup) : ((sortedKeys r B).map r).Pairwise (· < ·) := by
  apply pairwise_lt_of_le_of_nodup (sortedKeys_sorted r B)
  have h := newKeys_map_nodup hinj
  rw [newKeys, List.map_append] at h
  exact (List.nodup_append.mp h).1

theorem rankF_lt (hinj : ((B ++ F).map r).Nodup) : ((sortedKeys r F).map r).Pairwise (· < ·) := by
  apply pairwise_lt_of_le_of_nodup (sortedKeys_sorted r F)
  have h := newKeys_map_nodup hinj
  rw [newKeys, List.map_append] at h
  exact (List.nodup_append.mp h).2.1

theorem rankB_sublist (hinj : ((B ++ F).map r).Nodup) :
    ((sortedKeys r B).map r).Sublist (newRanks r F B) := by
  apply sublist_of_subset_of_pairwise_lt (rankB_lt hinj) (newRanks_lt hinj)
  intro x hx
  rw [newRanks_perm.mem_iff, newKeys, List.map_append, List.mem_append]
  exact Or.inl hx

theorem rankF_sublist (hinj : ((B ++ F).map r).Nodup) :
    ((sortedKeys r F).map r).Sublist (newRanks r F B) := by
  apply sublist_of_subset_of_pairwise_lt (rankF_lt hinj) (newRanks_lt hinj)
  intro x hx
  rw [newRanks_perm.mem_iff, newKeys, List.map_append, List.mem_append]
  exact Or.inr hx

theorem reorderAssign_keys : (reorderAssign r F B).map (·.1) = newKeys r F B := by
  rw [reorderAssign_eq]
  exact List.map_fst_zip (Nat.le_of_eq newRanks_length.symm)

theorem newRank_of_not_mem_keys {x : Nat} (h : x ∉ newKeys r F B) : newRank r F B x = r x := by
  unfold newRank
  rw [aget_none_of_not_mem_keys (by rw [reorderAssign_keys]; exact h)]
  rfl

/-- The new rank of the `i`-th key is the `i`-th smallest rank of the pool. -/
theorem newRank_getElem (hinj : ((B ++ F).map r).Nodup) {i : Nat} (hi : i < (newKeys r F B).length) :
    newRank r F B ((newKeys r F B)[i]) = (newRanks r F B)[i]'(by rw [newRanks_length]; exact hi) := by
  have hi' : i < (newRanks r F B).length := by rw [newRanks_length]; exact hi
  unfold newRank
  have hmem : ((newKeys r F B)[i], (newRanks r F B)[i]) ∈ reorderAssign r F B := by
    rw [reorderAssign_eq]
    have hz : i < ((newKeys r F B).zip (newRanks r F B)).length := by
      rw [List.length_zip]; omega
    have := List.getElem_mem hz
    rwa [List.getElem_zip] at this
  rw [aget_some_of_mem_nodup (by rw [reorderAssign_keys]; exact newKeys_nodup hinj) hmem]
  rfl

/-- Index view of a backward node. -/
theorem view_B (hinj : ((B ++ F).map r).Nodup) {x : Nat} (hx : x ∈ B) :
    ∃ i, ∃ hi : i < (sortedKeys r B).length, ∃ hi' : i < (newRanks r F B).length,
      (sortedKeys r B)[i] = x ∧ newRank r F B x = (newRanks r F B)[i] := by
  obtain ⟨i, hi, hxi⟩ := List.getElem_of_mem (mem_sortedKeys (r := r) |>.mpr hx)
  have hk : i < (newKeys r F B).length := by rw [newKeys_length]; omega
  have hi' : i < (newRanks r F B).length := by rw [newRanks_length]; exact hk
  refine ⟨i, hi, hi', hxi, ?_⟩
  have h := newRank_getElem hinj hk
  have e : (newKeys r F B)[i] = x := by
    rw [← hxi]; simp only [newKeys]; exact List.getElem_append_left hi
  rw [e] at h
  exact h

/-- Index view of a forward node. -/
theorem view_F (hinj : ((B ++ F).map r).Nodup) {x : Nat} (hx : x ∈ F) :
    ∃ j, ∃ hj : j < (sortedKeys r F).length,
      ∃ hj' : (sortedKeys r B).length + j < (newRanks r F B).length,
      (sortedKeys r F)[j] = x ∧
        newRank r F B x = (newRanks r F B)[(sortedKeys r B).length + j] := by
  obtain ⟨j, hj, hxj⟩ := List.getElem_of_mem (mem_sortedKeys (r := r) |>.mpr hx)
  have hk : (sortedKeys r B).length + j < (newKeys r F B).length := by
    rw [newKeys_length]; omega
  have hj' : (sortedKeys r B).length + j < (newRanks r F B).length := by
    rw [newRanks_length]; exact hk
  refine ⟨j, hj, hj', hxj, ?_⟩
  have h := newRank_getElem hinj hk
  have e : (newKeys r F B)[(sortedKeys r B).length + j] = x := by
    rw [← hxj]; simp only [newKeys]
    rw [List.getElem_append_right (Nat.le_add_right _ _)]
    simp
  rw [e] at h
  exact h

/-! ### the nine exported facts -/

theorem reorderAssign_keys_nodup (hinj : ((B ++ F).map r).Nodup) :
    ((reorderAssign r F B).map (·.1)).Nodup := by
  rw [reorderAssign_keys]; exact newKeys_nodup hinj

theorem newRank_of_not_mem {x : Nat} (hB : x ∉ B) (hF : x ∉ F) : newRank r F B x = r x :=
  newRank_of_not_mem_keys (by rw [mem_newKeys]; exact fun h => h.elim hB hF)

theorem newRank_le_of_mem_B (hinj : ((B ++ F).map r).Nodup) {x : Nat} (hx : x ∈ B) :
    newRank r F B x ≤ r x := by
  obtain ⟨i, hi, hi', hxi, hnr⟩ := view_B (F := F) hinj hx
  have h := sublist_getElem_ge (rankB_sublist (F := F) hinj) (newRanks_lt hinj) i
    (by rw [List.length_map]; exact hi)
  rw [List.getElem_map, hxi] at h
  rw [hnr]; exact h

theorem le_newRank_of_mem_F (hinj : ((B ++ F).map r).Nodup) {x : Nat} (hx : x ∈ F) :
    r x ≤ newRank r F B x := by
  obtain ⟨j, hj, hj', hxj, hnr⟩ := view_F (B := B) hinj hx
  have h := sublist_getElem_le_end (rankF_sublist (B := B) hinj) (newRanks_lt hinj) j
    (by rw [List.length_map]; exact hj)
  rw [List.getElem_map, hxj] at h
  have e : j + ((newRanks r F B).length - ((sortedKeys r F).map r).length)
      = (sortedKeys r B).length + j := by
    rw [newRanks_length, newKeys_length, List.length_map]; omega
  simp only [e] at h
  rw [hnr]; exact h

theorem newRank_lt_of_mem_B (hinj : ((B ++ F).map r).Nodup) {x y : Nat} (hx : x ∈ B) (hy : y ∈ B)
    (h : r x < r y) : newRank r F B x < newRank r F B y := by
  obtain ⟨i, hi, hi', hxi, hnx⟩ := view_B (F := F) hinj hx
  obtain ⟨j, hj, hj', hyj, hny⟩ := view_B (F := F) hinj hy
  have hij : i < j := by
    apply lt_of_getElem_lt (rankB_lt (F := F) hinj) (i := i) (j := j)
      (by rw [List.length_map]; exact hi) (by rw [List.length_map]; exact hj)
    rw [List.getElem_map, List.getElem_map, hxi, hyj]; exact h
  rw [hnx, hny]
  exact List.pairwise_iff_getElem.mp (newRanks_lt hinj) i j hi' hj' hij

theorem newRank_lt_of_mem_F (hinj : ((B ++ F).map r).Nodup) {x y : Nat} (hx : x ∈ F) (hy : y ∈ F)
    (h : r x < r y) : newRank r F B x < newRank r F B y := by
  obtain ⟨i, hi, hi', hxi, hnx⟩ := view_F (B := B) hinj hx
  obtain ⟨j, hj, hj', hyj, hny⟩ := view_F (B := B) hinj hy
  have hij : i < j := by
    apply lt_of_getElem_lt (rankF_lt (B := B) hinj) (i := i) (j := j)
      (by rw [List.length_map]; exact hi) (by rw [List.length_map]; exact hj)
    rw [List.getElem_map, List.getElem_map, hxi, hyj]; exact h
  rw [hnx, hny]
  exact List.pairwise_iff_getElem.mp (newRanks_lt hinj) _ _ hi' hj' (by omega)

theorem newRank_lt_of_mem_B_F (hinj : ((B ++ F).map r).Nodup) {x y : Nat} (hx : x ∈ B) (hy : y ∈ F) :
    newRank r F B x < newRank r F B y := by
  obtain ⟨i, hi, hi', hxi, hnx⟩ := view_B (F := F) hinj hx
  obtain ⟨j, hj, hj', hyj, hny⟩ := view_F (B := B) hinj hy
  rw [hnx, hny]
  exact List.pairwise_iff_getElem.mp (newRanks_lt hinj) _ _ hi' hj' (by omega)

theorem newRank_mem (hinj : ((B ++ F).map r).Nodup) {x : Nat} (hx : x ∈ B ∨ x ∈ F) :
    ∃ z, (z ∈ B ∨ z ∈ F) ∧ newRank r F B x = r z := by
  have key : ∃ k, ∃ hk : k < (newRanks r F B).length, newRank r F B x = (newRanks r F B)[k] := by
    rcases hx with hx | hx
    · obtain ⟨i, _, hi', _, hnx⟩ := view_B (F := F) hinj hx
      exact ⟨i, hi', hnx⟩
    · obtain ⟨j, _, hj', _, hnx⟩ := view_F (B := B) hinj hx
      exact ⟨_, hj', hnx⟩
  obtain ⟨k, hk, hnx⟩ := key
  have hm : (newRanks r F B)[k] ∈ (newKeys r F B).map r :=
    newRanks_perm.mem_iff.mp (List.getElem_mem hk)
  obtain ⟨z, hz, hrz⟩ := List.mem_map.mp hm
  exact ⟨z, mem_newKeys.mp hz, by rw [hnx, hrz]⟩

theorem newRank_perm (hinj : ((B ++ F).map r).Nodup) (ids : List Nat) (hids : ids.Nodup)
    (hsub : ∀ x, x ∈ B ∨ x ∈ F → x ∈ ids) :
    (ids.map (newRank r F B)).Perm (ids.map r) := by
  let keys := newKeys r F B
  let rest := ids.filter (fun x => decide (x ∉ keys))
  have hdisj : ∀ a, a ∈ keys → a ∈ rest → False := by
    intro a ha hr
    have := (List.mem_filter.mp hr).2
    simp only [decide_eq_true_eq] at this
    exact this ha
  have hp : ids.Perm (keys ++ rest) := by
    refine (List.perm_ext_iff_of_nodup hids ?_).mpr ?_
    · refine List.nodup_append.mpr ⟨newKeys_nodup hinj, hids.filter _, ?_⟩
      intro a ha b hb hab
      subst hab
      exact hdisj a ha hb
    · intro a
      simp only [rest, List.mem_append, List.mem_filter, decide_eq_true_eq]
      constructor
      · intro ha
        by_cases hk : a ∈ keys
        · exact Or.inl hk
        · exact Or.inr ⟨ha, hk⟩
      · rintro (hk | ⟨ha, _⟩)
        · exact hsub a (mem_newKeys.mp hk)
        · exact ha
  have h1 : keys.map (newRank r F B) = newRanks r F B := by
    apply List.ext_getElem
    · rw [List.length_map, newRanks_length]
    · intro i h1 h2
      rw [List.getElem_map]
      exact newRank_getElem hinj (by simpa using h1)
  have h2 : rest.map (newRank r F B) = rest.map r := by
    apply List.map_congr_left
    intro a ha
    exact newRank_of_not_mem_keys (fun hk => hdisj a hk ha)
  have s1 : (ids.map (newRank r F B)).Perm (newRanks r F B ++ rest.map r) := by
    have := hp.map (newRank r F B)
    rwa [List.map_append, h1, h2] at this
  have s2 : (newRanks r F B ++ rest.map r).Perm ((keys ++ rest).map r) := by
    rw [List.map_append]
    exact List.Perm.append_right _ newRanks_perm
  exact (s1.trans s2).trans (hp.map r).symm

end PieModel
