/-
Characterisation of `dfsForward` / `dfsBackward` on a well-formed graph in which every edge
except possibly `s → t` goes upward (the situation inside `addEdge`).  Instances of the generic
`dfsLoop_spec`; `dfsFuel` is shown to suffice.
-/
import PieModel.Graph.AddEdge

namespace PieModel
namespace Dag
variable {N E : Type}

theorem dfsForward_spec {G : Dag N E} (h : G.WF) {s lb ub : Nat} (t : Nat)
    (hub : G.topoOf s = ub) (hlb : G.topoOf t = lb) (hlt : lb < ub)
    (hup : ∀ a b, G.HasEdge a b → a ≠ s → G.topoOf a < G.topoOf b)
    (P : Nat → Prop) (hPt : P t)
    (hP : ∀ x c, P x → G.topoOf x < ub → c ∈ G.childrenOf x → P c) :
    (G.dfsForward t ub = none →
      ∃ x, P x ∧ G.topoOf x < ub ∧ ∃ c ∈ G.childrenOf x, G.topoOf c = ub) ∧
    (∀ F, G.dfsForward t ub = some F →
      F.Nodup ∧ t ∈ F ∧ (∀ x ∈ F, lb ≤ G.topoOf x ∧ G.topoOf x < ub ∧ P x) ∧
      (∀ x ∈ F, ∀ c ∈ G.childrenOf x, G.topoOf c ≠ ub ∧ (G.topoOf c < ub → c ∈ F))) := by
  let step : List Nat → Nat → Option (List Nat) := fun vis n =>
    let cs := G.childrenOf n
    if cs.any (fun c => G.topoOf c == ub) then none
    else some (cs.filter (fun c => !(vis.contains c) && G.topoOf c < ub))
  let ok : Nat → Bool := fun c => decide (G.topoOf c < ub)
  let S : Nat → Prop := fun n => ∀ c ∈ G.childrenOf n, G.topoOf c ≠ ub
  let P' : Nat → Prop := fun x => lb ≤ G.topoOf x ∧ G.topoOf x < ub ∧ P x
  have hadj : ∀ n, n ∉ G.ids → G.childrenOf n = [] := by
    intro n hn
    apply childrenOf_of_not_live
    cases hc : G.containsNode n
    · rfl
    · exact absurd ((containsNode_iff G n).mp hc) hn
  have hstep : ∀ vis n ps, step vis n = some ps →
      ps = (G.childrenOf n).filter (fun c => !(vis.contains c) && ok c) ∧ S n := by
    intro vis n ps hh
    simp only [step] at hh
    split at hh
    · simp at hh
    · rename_i hany
      simp only [Option.some.injEq] at hh
      refine ⟨hh.symm, ?_⟩
      intro c hc hcu
      apply hany
      rw [List.any_eq_true]
      exact ⟨c, hc, by simpa using hcu⟩
  have hP' : ∀ x c, P' x → c ∈ G.childrenOf x → ok c = true → P' c := by
    intro x c hx hc hok
    have hok' : G.topoOf c < ub := by simpa [ok] using hok
    have hxs : x ≠ s := by rintro rfl; omega
    have := hup x c hc hxs
    exact ⟨by omega, hok', hP x c hx.2.2 hx.2.1 hc⟩
  have hfuel : [t].length + dfsWeight G.childrenOf G.ids [] ≤ G.dfsFuel := by
    rw [dfsWeight_nil]
    have := h.sum_children_le
    simp only [dfsFuel, List.length_singleton]; omega
  obtain ⟨k1, k2⟩ := dfsLoop_spec step G.childrenOf ok G.ids hadj S hstep P' hP' []
    G.dfsFuel [t] [] [] hfuel rfl List.nodup_nil (by simp)
    (by intro x hx; simp at hx; subst hx; exact ⟨by omega, by omega, hPt⟩) (by simp) (by simp)
  have hdef : G.dfsForward t ub = (dfsLoop step G.dfsFuel [t] [] []).map (·.2) := rfl
  rw [hdef]
  constructor
  · intro hnone
    have hnone' : dfsLoop step G.dfsFuel [t] [] [] = none := by
      cases hr : dfsLoop step G.dfsFuel [t] [] [] <;> simp [hr] at hnone ⊢
    obtain ⟨x, vis', hx, hs⟩ := k1 hnone'
    refine ⟨x, hx.2.2, hx.2.1, ?_⟩
    simp only [step] at hs
    split at hs
    · rename_i hany
      rw [List.any_eq_true] at hany
      obtain ⟨c, hc, hcu⟩ := hany
      exact ⟨c, hc, by simpa using hcu⟩
    · simp at hs
  · intro F hF
    cases hr : dfsLoop step G.dfsFuel [t] [] [] with
    | none => simp [hr] at hF
    | some r =>
      obtain ⟨vis', acc'⟩ := r
      simp [hr] at hF
      subst hF
      obtain ⟨a1, a2, _, a4, a5, a6, _⟩ := k2 vis' acc' hr
      simp only [List.append_nil] at a1
      subst a1
      refine ⟨a2, a6 t (by simp), fun x hx => (a4 x hx).1, ?_⟩
      intro x hx c hc
      refine ⟨(a4 x hx).2 c hc, fun hlt' => a5 x hx c hc (by simpa [ok] using hlt')⟩

theorem dfsBackward_spec {G : Dag N E} (h : G.WF) {t lb ub : Nat} (s : Nat) (F : List Nat)
    (hub : G.topoOf s = ub) (hlb : G.topoOf t = lb) (hlt : lb < ub)
    (hup : ∀ a b, G.HasEdge a b → b ≠ t → G.topoOf a < G.topoOf b) :
    (G.dfsBackward s F lb).Nodup ∧ (∀ x ∈ G.dfsBackward s F lb, x ∉ F) ∧
      (s ∈ G.dfsBackward s F lb ∨ s ∈ F) ∧
      (∀ x ∈ G.dfsBackward s F lb, lb < G.topoOf x ∧ G.topoOf x ≤ ub) ∧
      (∀ x ∈ G.dfsBackward s F lb, ∀ p ∈ G.parentsOf x, lb < G.topoOf p →
        p ∈ G.dfsBackward s F lb ∨ p ∈ F) := by
  let step : List Nat → Nat → Option (List Nat) := fun vis n =>
    some ((G.parentsOf n).filter (fun p => !(vis.contains p) && lb < G.topoOf p))
  let ok : Nat → Bool := fun c => decide (lb < G.topoOf c)
  let P' : Nat → Prop := fun x => lb < G.topoOf x ∧ G.topoOf x ≤ ub
  have hadj : ∀ n, n ∉ G.ids → G.parentsOf n = [] := by
    intro n hn
    apply parentsOf_of_not_live
    cases hc : G.containsNode n
    · rfl
    · exact absurd ((containsNode_iff G n).mp hc) hn
  have hstep : ∀ vis n ps, step vis n = some ps →
      ps = (G.parentsOf n).filter (fun c => !(vis.contains c) && ok c) ∧ True := by
    intro vis n ps hh
    simp only [step, Option.some.injEq] at hh
    exact ⟨hh.symm, trivial⟩
  have hP' : ∀ x c, P' x → c ∈ G.parentsOf x → ok c = true → P' c := by
    intro x c hx hc hok
    have hok' : lb < G.topoOf c := by simpa [ok] using hok
    have hxt : x ≠ t := by rintro rfl; omega
    have := hup c x ((h.child_iff_parent c x).mpr hc) hxt
    exact ⟨hok', by omega⟩
  have hfuel : [s].length + dfsWeight G.parentsOf G.ids F ≤ G.dfsFuel := by
    have h1 := dfsWeight_le_nil G.parentsOf G.ids F
    rw [dfsWeight_nil] at h1
    have := h.sum_parents_le
    simp only [dfsFuel, List.length_singleton]; omega
  obtain ⟨k1, k2⟩ := dfsLoop_spec step G.parentsOf ok G.ids hadj (fun _ => True) hstep P' hP' F
    G.dfsFuel [s] F [] hfuel rfl List.nodup_nil (by simp)
    (by intro x hx; simp at hx; subst hx; exact ⟨by omega, by omega⟩) (by simp) (by simp)
  have hdef : G.dfsBackward s F lb =
      match dfsLoop step G.dfsFuel [s] F [] with
      | some r => r.2
      | none => [] := rfl
  rw [hdef]
  cases hr : dfsLoop step G.dfsFuel [s] F [] with
  | none =>
    obtain ⟨x, vis', _, hs⟩ := k1 hr
    simp [step] at hs
  | some r =>
    obtain ⟨vis', acc'⟩ := r
    simp only
    obtain ⟨a1, a2, a3, a4, a5, a6, _⟩ := k2 vis' acc' hr
    subst a1
    refine ⟨a2, a3, ?_, fun x hx => (a4 x hx).1, ?_⟩
    · exact List.mem_append.mp (a6 s (by simp))
    · intro x hx p hp hlp
      exact List.mem_append.mp (a5 x hx p hp (by simpa [ok] using hlp))

end Dag
end PieModel
