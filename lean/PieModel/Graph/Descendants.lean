/-
`descLoop` (the priority-queue traversal behind `Dag.descendants`): `popMin` extracts an entry of
minimal rank, the loop yields exactly the nodes reachable from the start, each once, in
ascending rank, and the fuel `dfsFuel` suffices.
-/
import PieModel.Graph.DfsGen
import PieModel.Graph.FrameAddEdge

namespace PieModel
namespace Dag
variable {N E : Type}

/-! ### popMin -/

theorem popMin_eq_none_iff (q : List (Nat × Nat)) : popMin q = none ↔ q = [] := by
  cases q with
  | nil => simp [popMin]
  | cons x xs =>
    simp only [popMin]
    cases popMin xs with
    | none => simp
    | some r => obtain ⟨m, rest⟩ := r; simp only; split <;> simp

theorem popMin_spec : ∀ (q : List (Nat × Nat)) (m : Nat × Nat) (rest : List (Nat × Nat)),
    popMin q = some (m, rest) → q.Perm (m :: rest) ∧ ∀ x ∈ q, m.1 ≤ x.1
  | [], m, rest, h => by simp [popMin] at h
  | x :: xs, m, rest, h => by
    simp only [popMin] at h
    cases hp : popMin xs with
    | none =>
      have hxs : xs = [] := (popMin_eq_none_iff xs).mp hp
      simp only [hp, Option.some.injEq, Prod.mk.injEq] at h
      obtain ⟨rfl, rfl⟩ := h
      subst hxs
      exact ⟨List.Perm.refl _, by simp⟩
    | some r =>
      obtain ⟨m', rest'⟩ := r
      obtain ⟨ih1, ih2⟩ := popMin_spec xs m' rest' hp
      simp only [hp] at h
      split at h
      · rename_i hc
        simp only [Option.some.injEq, Prod.mk.injEq] at h
        obtain ⟨rfl, rfl⟩ := h
        refine ⟨List.Perm.refl _, ?_⟩
        have hle : x.1 ≤ m'.1 := by
          simp only [Bool.or_eq_true, decide_eq_true_eq, Bool.and_eq_true, beq_iff_eq] at hc
          omega
        intro y hy
        rcases List.mem_cons.mp hy with rfl | hy
        · exact Nat.le_refl _
        · exact Nat.le_trans hle (ih2 y hy)
      · rename_i hc
        simp only [Option.some.injEq, Prod.mk.injEq] at h
        obtain ⟨rfl, rfl⟩ := h
        have hle : m'.1 ≤ x.1 := by
          simp only [Bool.or_eq_true, decide_eq_true_eq, Bool.and_eq_true, beq_iff_eq, not_or] at hc
          omega
        refine ⟨((List.Perm.cons x ih1).trans (List.Perm.swap m' x rest')), ?_⟩
        intro y hy
        rcases List.mem_cons.mp hy with rfl | hy
        · exact hle
        · exact ih2 y hy

/-! ### reachability helpers -/

theorem Reach.live {g : Dag N E} (h : g.WF) {a b : Nat} (hr : g.Reach a b) :
    g.containsNode a = true ∧ g.containsNode b = true := by
  induction hr with
  | edge he => exact h.child_live he
  | step he _ ih => exact ⟨(h.child_live he).1, ih.2⟩

/-- A set that contains the children of `n` and is closed under children contains everything
reachable from `n`. -/
theorem Reach.mem_of_closed {g : Dag N E} {n : Nat} {l : List Nat}
    (hstart : ∀ c ∈ g.childrenOf n, c ∈ l)
    (hcl : ∀ x ∈ l, ∀ c ∈ g.childrenOf x, c ∈ l) {m : Nat} (hr : g.Reach n m) : m ∈ l := by
  have key : ∀ a b, g.Reach a b → (a = n ∨ a ∈ l) → b ∈ l := by
    intro a b hab
    induction hab with
    | edge he =>
      rintro (rfl | ha)
      · exact hstart _ he
      · exact hcl _ ha _ he
    | step he _ ih =>
      rintro (rfl | ha)
      · exact ih (.inr (hstart _ he))
      · exact ih (.inr (hcl _ ha _ he))
  exact key n m hr (.inl rfl)

theorem children_ids_fuel {g : Dag N E} (h : g.WF) (n : Nat) :
    (g.childrenOf n).length + dfsWeight g.childrenOf g.ids [] ≤ g.dfsFuel := by
  rw [dfsWeight_nil]
  have h1 := h.sum_children_le
  have h2 : (g.childrenOf n).length ≤ g.ids.length :=
    length_le_of_nodup_subset (h.children_nodup n)
      (fun c hc => (containsNode_iff g c).mp (h.child_live hc).2)
  rw [length_ids] at h2
  simp only [dfsFuel]; omega

theorem childrenOf_eq_nil_of_not_mem_ids (g : Dag N E) (n : Nat) (hn : n ∉ g.ids) :
    g.childrenOf n = [] :=
  childrenOf_of_not_live g ((not_live_iff g n).mpr hn)

/-! ### the loop -/

theorem descLoop_spec {g : Dag N E} (h : g.Inv) (n : Nat) :
    ∀ (fuel : Nat) (q : List (Nat × Nat)) (acc : List Nat),
      q.length + dfsWeight g.childrenOf g.ids acc ≤ fuel →
      acc.Nodup →
      (∀ p ∈ q, p.1 = g.topoOf p.2 ∧ g.Reach n p.2) →
      (∀ x ∈ acc, g.Reach n x) →
      acc.Pairwise (fun a b => g.topoOf b < g.topoOf a) →
      (∀ x ∈ acc, ∀ p ∈ q, g.topoOf x ≤ p.1) →
      (∀ x ∈ acc, ∀ c ∈ g.childrenOf x, c ∈ acc ∨ (g.topoOf c, c) ∈ q) →
      (g.descLoop fuel q acc acc).Nodup ∧
      (g.descLoop fuel q acc acc).Pairwise (fun a b => g.topoOf a < g.topoOf b) ∧
      (∀ x ∈ g.descLoop fuel q acc acc, g.Reach n x) ∧
      (∀ x ∈ g.descLoop fuel q acc acc, ∀ c ∈ g.childrenOf x, c ∈ g.descLoop fuel q acc acc) ∧
      (∀ p ∈ q, p.2 ∈ g.descLoop fuel q acc acc) ∧
      (∀ x ∈ acc, x ∈ g.descLoop fuel q acc acc) := by
  have hdone : ∀ (acc : List Nat), acc.Nodup → (∀ x ∈ acc, g.Reach n x) →
      acc.Pairwise (fun a b => g.topoOf b < g.topoOf a) →
      (∀ x ∈ acc, ∀ c ∈ g.childrenOf x, c ∈ acc ∨ (g.topoOf c, c) ∈ ([] : List (Nat × Nat))) →
      acc.reverse.Nodup ∧
      acc.reverse.Pairwise (fun a b => g.topoOf a < g.topoOf b) ∧
      (∀ x ∈ acc.reverse, g.Reach n x) ∧
      (∀ x ∈ acc.reverse, ∀ c ∈ g.childrenOf x, c ∈ acc.reverse) ∧
      (∀ p ∈ ([] : List (Nat × Nat)), p.2 ∈ acc.reverse) ∧
      (∀ x ∈ acc, x ∈ acc.reverse) := by
    intro acc hnd hreach hsort hcl
    refine ⟨(List.reverse_perm acc).nodup_iff.mpr hnd, List.pairwise_reverse.mpr hsort, ?_, ?_, by simp, ?_⟩
    · intro x hx; exact hreach x (List.mem_reverse.mp hx)
    · intro x hx c hc
      rcases hcl x (List.mem_reverse.mp hx) c hc with h' | h'
      · exact List.mem_reverse.mpr h'
      · simp at h'
    · intro x hx; exact List.mem_reverse.mpr hx
  intro fuel
  induction fuel with
  | zero =>
    intro q acc hf hnd hq hreach hsort hle hcl
    have hq0 : q = [] := by
      cases q with
      | nil => rfl
      | cons a q => simp at hf
    subst hq0
    simp only [descLoop]
    exact hdone acc hnd hreach hsort hcl
  | succ f ih =>
    intro q acc hf hnd hq hreach hsort hle hcl
    simp only [descLoop]
    cases hp : popMin q with
    | none =>
      have hq0 : q = [] := (popMin_eq_none_iff q).mp hp
      subst hq0
      exact hdone acc hnd hreach hsort hcl
    | some r =>
      obtain ⟨⟨rk, m⟩, q'⟩ := r
      obtain ⟨hperm, hmin⟩ := popMin_spec q _ _ hp
      have hmem : ∀ p, p ∈ q ↔ p = (rk, m) ∨ p ∈ q' := by
        intro p; rw [hperm.mem_iff]; simp
      have hlen : q.length = q'.length + 1 := by rw [hperm.length_eq]; simp
      have hm := hq (rk, m) ((hmem _).mpr (.inl rfl))
      simp only at hm
      obtain ⟨hrk, hmreach⟩ := hm
      simp only
      by_cases hmacc : m ∈ acc
      · simp only [hmacc, if_true]
        obtain ⟨a1, a2, a3, a4, a5, a6⟩ := ih q' acc (by omega) hnd
          (fun p hp' => hq p ((hmem p).mpr (.inr hp'))) hreach hsort
          (fun x hx p hp' => hle x hx p ((hmem p).mpr (.inr hp')))
          (by
            intro x hx c hc
            rcases hcl x hx c hc with h' | h'
            · exact .inl h'
            · rcases (hmem _).mp h' with h'' | h''
              · simp only [Prod.mk.injEq] at h''
                exact .inl (h''.2 ▸ hmacc)
              · exact .inr h'')
        refine ⟨a1, a2, a3, a4, ?_, a6⟩
        intro p hp'
        rcases (hmem p).mp hp' with rfl | h''
        · exact a6 m hmacc
        · exact a5 p h''
      · simp only [hmacc, if_false]
        have hmlive := (hmreach.live h.toWF).2
        have hmids : m ∈ g.ids := (containsNode_iff g m).mp hmlive
        have hw := dfsWeight_cons_mem g.childrenOf hmids hmacc
        have hlt : ∀ x ∈ acc, g.topoOf x < g.topoOf m := by
          intro x hx
          have h1 := hle x hx (rk, m) ((hmem _).mpr (.inl rfl))
          simp only at h1
          have h2 : g.topoOf x ≠ g.topoOf m := by
            intro he
            have := h.topo_inj ((hreach x hx).live h.toWF).2 hmlive he
            exact hmacc (this ▸ hx)
          omega
        obtain ⟨a1, a2, a3, a4, a5, a6⟩ := ih
          ((g.childrenOf m).map (fun c => (g.topoOf c, c)) ++ q') (m :: acc)
          (by simp only [List.length_append, List.length_map]; omega)
          (List.nodup_cons.mpr ⟨hmacc, hnd⟩)
          (by
            intro p hp'
            rcases List.mem_append.mp hp' with h' | h'
            · obtain ⟨c, hc, rfl⟩ := List.mem_map.mp h'
              exact ⟨rfl, hmreach.tail hc⟩
            · exact hq p ((hmem p).mpr (.inr h')))
          (by
            intro x hx
            rcases List.mem_cons.mp hx with rfl | hx
            · exact hmreach
            · exact hreach x hx)
          (List.pairwise_cons.mpr ⟨hlt, hsort⟩)
          (by
            intro x hx p hp'
            have hxm : g.topoOf x ≤ g.topoOf m := by
              rcases List.mem_cons.mp hx with rfl | hx
              · exact Nat.le_refl _
              · exact Nat.le_of_lt (hlt x hx)
            rcases List.mem_append.mp hp' with h' | h'
            · obtain ⟨c, hc, rfl⟩ := List.mem_map.mp h'
              have := h.upward m c hc
              simp only; omega
            · have := hmin p ((hmem p).mpr (.inr h'))
              simp only at this
              omega)
          (by
            intro x hx c hc
            rcases List.mem_cons.mp hx with rfl | hx
            · right
              exact List.mem_append_left _ (List.mem_map.mpr ⟨c, hc, rfl⟩)
            · rcases hcl x hx c hc with h' | h'
              · exact .inl (List.mem_cons_of_mem _ h')
              · rcases (hmem _).mp h' with h'' | h''
                · simp only [Prod.mk.injEq] at h''
                  exact .inl (h''.2 ▸ List.mem_cons_self)
                · exact .inr (List.mem_append_right _ h''))
        refine ⟨a1, a2, a3, a4, ?_, fun x hx => a6 x (List.mem_cons_of_mem _ hx)⟩
        intro p hp'
        rcases (hmem p).mp hp' with rfl | h''
        · exact a6 m List.mem_cons_self
        · exact a5 p (List.mem_append_right _ h'')

end Dag
end PieModel
