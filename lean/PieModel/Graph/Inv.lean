/-
The graph invariant `Dag.Inv` and its basic consequences.

`Dag.WF` collects everything except "every edge goes upward"; the intermediate graph inside
`addEdge` (new edge inserted, ranks not yet repaired) satisfies `WF` but not `Inv`.
Preservation lemmas: `Graph/Ops.lean` (all operations but `addEdge`), `Graph/AddEdge.lean`.
-/
import PieModel.Graph.Spec
import PieModel.Graph.AList

namespace PieModel
namespace Dag
variable {N E : Type}

/-- Well-formedness: everything in the invariant except that edges go upward. -/
structure WF (g : Dag N E) : Prop where
  /-- node ids are duplicate-free -/
  ids_nodup : g.ids.Nodup
  /-- ids are below the allocation counter (never reused) -/
  ids_lt : ∀ n ∈ g.ids, n < g.next
  /-- ranks are a bijection onto `1..n` -/
  ranks_perm : g.ranks.Perm (List.range' 1 g.nodes.length)
  last_eq : g.last = g.nodes.length
  children_nodup : ∀ n, (g.childrenOf n).Nodup
  parents_nodup : ∀ n, (g.parentsOf n).Nodup
  keys_nodup : (akeys g.edata).Nodup
  /-- children lists agree with the edge-data map (for *all* `s`: a node that is not live has
  no children, hence no edge data) -/
  child_iff : ∀ s d, d ∈ g.childrenOf s ↔ (aget g.edata (s, d)).isSome = true
  /-- parents lists agree with the edge-data map -/
  parent_iff : ∀ s d, s ∈ g.parentsOf d ↔ (aget g.edata (s, d)).isSome = true
  /-- both endpoints of an edge are live -/
  edge_live : ∀ s d, (aget g.edata (s, d)).isSome = true →
    g.containsNode s = true ∧ g.containsNode d = true

/-- The invariant of the DAG (property C10). -/
structure Inv (g : Dag N E) : Prop extends WF g where
  /-- every edge goes upward in rank -/
  upward : ∀ s d, g.HasEdge s d → g.topoOf s < g.topoOf d

/-! ### reading the node table -/

theorem ids_eq_akeys (g : Dag N E) : g.ids = akeys g.nodes := rfl

theorem containsNode_iff (g : Dag N E) (n : Nat) : g.containsNode n = true ↔ n ∈ g.ids := by
  simp [containsNode, info, aget_isSome_iff, ids_eq_akeys]

theorem containsNode_eq_false_iff (g : Dag N E) (n : Nat) : g.containsNode n = false ↔ g.info n = none := by
  simp [containsNode]

theorem info_eq_none_of_not_mem (g : Dag N E) {n : Nat} (h : n ∉ g.ids) : g.info n = none := by
  rw [info, aget_eq_none_iff]; exact h

theorem childrenOf_of_not_live (g : Dag N E) {n : Nat} (h : g.containsNode n = false) :
    g.childrenOf n = [] := by
  simp [containsNode] at h; simp [childrenOf, h]

theorem parentsOf_of_not_live (g : Dag N E) {n : Nat} (h : g.containsNode n = false) :
    g.parentsOf n = [] := by
  simp [containsNode] at h; simp [parentsOf, h]

theorem topoOf_of_not_live (g : Dag N E) {n : Nat} (h : g.containsNode n = false) :
    g.topoOf n = 0 := by
  simp [containsNode] at h; simp [topoOf, h]

theorem topoOf_mem_ranks (g : Dag N E) {n : Nat} (h : g.containsNode n = true) :
    g.topoOf n ∈ g.ranks := by
  simp only [containsNode, Option.isSome_iff_exists] at h
  obtain ⟨i, hi⟩ := h
  have hm := aget_mem (hi : aget g.nodes n = some i)
  simp only [topoOf, hi, ranks, List.mem_map]
  exact ⟨(n, i), hm, rfl⟩

theorem length_ids (g : Dag N E) : g.ids.length = g.nodes.length := by simp [ids]
theorem length_ranks (g : Dag N E) : g.ranks.length = g.nodes.length := by simp [ranks]

namespace WF
variable {g : Dag N E}

theorem ranks_nodup (h : g.WF) : g.ranks.Nodup :=
  h.ranks_perm.nodup_iff.mpr (List.nodup_range' 1)

theorem topo_range (h : g.WF) {n : Nat} (hn : g.containsNode n = true) :
    1 ≤ g.topoOf n ∧ g.topoOf n ≤ g.nodes.length := by
  have := h.ranks_perm.mem_iff.mp (topoOf_mem_ranks g hn)
  rw [List.mem_range'_1] at this
  omega

theorem live_of_topo_pos (_h : g.WF) {n : Nat} (hn : 0 < g.topoOf n) : g.containsNode n = true := by
  cases hc : g.containsNode n
  · rw [topoOf_of_not_live g hc] at hn; omega
  · rfl

theorem topo_inj (h : g.WF) {a b : Nat} (ha : g.containsNode a = true) (hb : g.containsNode b = true)
    (hab : g.topoOf a = g.topoOf b) : a = b := by
  simp only [containsNode, Option.isSome_iff_exists] at ha hb
  obtain ⟨ia, hia⟩ := ha
  obtain ⟨ib, hib⟩ := hb
  have hma := aget_mem (hia : aget g.nodes a = some ia)
  have hmb := aget_mem (hib : aget g.nodes b = some ib)
  have hn : (g.nodes.map (fun kv => kv.2.topo)).Nodup := h.ranks_nodup
  have : ((a, ia) : Nat × NodeInfo N) = (b, ib) := by
    apply nodup_map_inj hn hma hmb
    simpa [topoOf, hia, hib] using hab
  exact congrArg Prod.fst this

theorem child_live (h : g.WF) {s d : Nat} (hc : d ∈ g.childrenOf s) :
    g.containsNode s = true ∧ g.containsNode d = true :=
  h.edge_live s d ((h.child_iff s d).mp hc)

theorem parent_live (h : g.WF) {s d : Nat} (hc : s ∈ g.parentsOf d) :
    g.containsNode s = true ∧ g.containsNode d = true :=
  h.edge_live s d ((h.parent_iff s d).mp hc)

theorem child_iff_parent (h : g.WF) (s d : Nat) : d ∈ g.childrenOf s ↔ s ∈ g.parentsOf d := by
  rw [h.child_iff, h.parent_iff]

theorem not_live_next (h : g.WF) : g.containsNode g.next = false := by
  cases hc : g.containsNode g.next
  · rfl
  · have := h.ids_lt _ ((containsNode_iff g _).mp hc); omega

end WF

/-- Transfer of well-formedness to a graph with the same structure and a permuted rank list
(used for `setNodeData`, `setEdgeData` and the rank reorder). -/
theorem WF.transfer {g g' : Dag N E} (h : g.WF)
    (hids : g'.ids = g.ids) (hnext : g'.next = g.next) (hlast : g'.last = g.last)
    (hranks : g'.ranks.Perm g.ranks)
    (hkeys : akeys g'.edata = akeys g.edata)
    (hed : ∀ k, (aget g'.edata k).isSome = (aget g.edata k).isSome)
    (hch : ∀ x, g'.childrenOf x = g.childrenOf x)
    (hpa : ∀ x, g'.parentsOf x = g.parentsOf x) : g'.WF := by
  have hlen : g'.nodes.length = g.nodes.length := by
    rw [← length_ids, ← length_ids, hids]
  have hcn : ∀ x, g'.containsNode x = g.containsNode x := by
    intro x
    rw [Bool.eq_iff_iff, containsNode_iff, containsNode_iff, hids]
  refine ⟨?_, ?_, ?_, ?_, ?_, ?_, ?_, ?_, ?_, ?_⟩
  · rw [hids]; exact h.ids_nodup
  · rw [hids, hnext]; exact h.ids_lt
  · rw [hlen]; exact hranks.trans h.ranks_perm
  · rw [hlast, hlen]; exact h.last_eq
  · intro n; rw [hch]; exact h.children_nodup n
  · intro n; rw [hpa]; exact h.parents_nodup n
  · rw [hkeys]; exact h.keys_nodup
  · intro s d; rw [hch, hed]; exact h.child_iff s d
  · intro s d; rw [hpa, hed]; exact h.parent_iff s d
  · intro s d; rw [hed, hcn, hcn]; exact h.edge_live s d

/-! ### reachability and ranks -/

theorem Inv.reach_topo_lt {g : Dag N E} (h : g.Inv) {a b : Nat} (hr : g.Reach a b) :
    g.topoOf a < g.topoOf b := by
  induction hr with
  | edge he => exact h.upward _ _ he
  | step he _ ih => exact Nat.lt_trans (h.upward _ _ he) ih

theorem Inv.acyclic {g : Dag N E} (h : g.Inv) (n : Nat) : ¬ g.Reach n n :=
  fun hr => Nat.lt_irrefl _ (h.reach_topo_lt hr)

theorem Reach.trans {g : Dag N E} {a b c : Nat} (h₁ : g.Reach a b) (h₂ : g.Reach b c) :
    g.Reach a c := by
  induction h₁ with
  | edge he => exact .step he h₂
  | step he _ ih => exact .step he (ih h₂)

theorem Reach.tail {g : Dag N E} {a b c : Nat} (h₁ : g.Reach a b) (h₂ : g.HasEdge b c) :
    g.Reach a c := h₁.trans (.edge h₂)

end Dag
end PieModel
