/-
Independence from enumeration order (property C16, helper lemmas).

The Rust code iterates over `HashSet`s whose order depends on random hash seeds; every such
iteration is followed by a sort on topological rank.  Here: insertion sort on an injective key
is a function of the *multiset* of its input, hence `reorderNodes` does not depend on the order
in which the two change sets are enumerated, and `addEdge` does not depend on it either
(`addEdgeWith` = `addEdge` with arbitrary re-enumerations of the two DFS results).
-/
import PieModel.Graph.AddEdgeInv

namespace PieModel

/-! ### insertion sort on an injective key -/

/-- Insertion sort with a key that is injective on the input is invariant under permutation of
the input. -/
theorem isortBy_perm_of_injOn {α : Type} (key : α → Nat) {l₁ l₂ : List α} (hp : l₁.Perm l₂)
    (hinj : ∀ a ∈ l₁, ∀ b ∈ l₁, key a = key b → a = b) :
    isortBy key l₁ = isortBy key l₂ := by
  have hp' : (isortBy key l₁).Perm (isortBy key l₂) :=
    (isortBy_perm key l₁).trans (hp.trans (isortBy_perm key l₂).symm)
  refine hp'.eq_of_pairwise (le := fun a b => key a ≤ key b) ?_
    (isortBy_sorted key l₁) (isortBy_sorted key l₂)
  intro a b ha hb h1 h2
  have ha' := (isortBy_perm key l₁).mem_iff.mp ha
  have hb' := hp.mem_iff.mpr ((isortBy_perm key l₂).mem_iff.mp hb)
  exact hinj a ha' b hb' (Nat.le_antisymm h1 h2)

/-- With an injective key the sort is strictly increasing. -/
theorem isortBy_strict_of_injOn {α : Type} (key : α → Nat) {l : List α} (hn : l.Nodup)
    (hinj : ∀ a ∈ l, ∀ b ∈ l, key a = key b → a = b) :
    (isortBy key l).Pairwise (fun a b => key a < key b) := by
  have hs := isortBy_sorted key l
  have hn' : (isortBy key l).Nodup := (isortBy_perm key l).nodup_iff.mpr hn
  have hall : (isortBy key l).Pairwise (fun a b => a ∈ l ∧ b ∈ l) := by
    rw [List.pairwise_iff_forall_sublist]
    intro a b hab
    have ha : a ∈ isortBy key l := hab.subset (by simp)
    have hb : b ∈ isortBy key l := hab.subset (by simp)
    exact ⟨(isortBy_perm key l).mem_iff.mp ha, (isortBy_perm key l).mem_iff.mp hb⟩
  refine ((hs.and hn').and hall).imp ?_
  rintro a b ⟨⟨hle, hne⟩, ha, hb⟩
  rcases Nat.lt_or_eq_of_le hle with h | h
  · exact h
  · exact absurd (hinj a ha b hb h) hne

/-- The sorted list is determined by the *set* of elements: two duplicate-free lists with the
same members sort to the same list. -/
theorem isortBy_eq_of_mem_iff {α : Type} (key : α → Nat) {l₁ l₂ : List α}
    (hn₁ : l₁.Nodup) (hn₂ : l₂.Nodup) (hmem : ∀ a, a ∈ l₁ ↔ a ∈ l₂)
    (hinj : ∀ a ∈ l₁, ∀ b ∈ l₁, key a = key b → a = b) :
    isortBy key l₁ = isortBy key l₂ :=
  isortBy_perm_of_injOn key ((List.perm_ext_iff_of_nodup hn₁ hn₂).mpr hmem) hinj

namespace Dag
variable {N E : Type}

/-! ### `reorderNodes` -/

/-- The sorted `(key, rank)` list used by `reorderNodes` does not depend on the enumeration
order of the change set. -/
theorem sortedPairs_perm_invariant (g : Dag N E) {l l' : List Nat} (hp : l.Perm l')
    (hinj : ∀ a ∈ l, ∀ b ∈ l, g.topoOf a = g.topoOf b → a = b) :
    isortBy (·.2) (l.map (fun k => (k, g.topoOf k))) =
      isortBy (·.2) (l'.map (fun k => (k, g.topoOf k))) := by
  apply isortBy_perm_of_injOn _ (hp.map _)
  intro a ha b hb hab
  obtain ⟨x, hx, rfl⟩ := List.mem_map.mp ha
  obtain ⟨y, hy, rfl⟩ := List.mem_map.mp hb
  have := hinj x hx y hy hab
  subst this
  rfl

/-- `reorderNodes` is invariant under re-enumeration of both change sets, provided the ranks
are pairwise distinct inside each set. -/
theorem reorderNodes_perm_invariant (g : Dag N E) {fwd fwd' bwd bwd' : List Nat}
    (hF : fwd.Perm fwd') (hB : bwd.Perm bwd')
    (hiF : ∀ a ∈ fwd, ∀ b ∈ fwd, g.topoOf a = g.topoOf b → a = b)
    (hiB : ∀ a ∈ bwd, ∀ b ∈ bwd, g.topoOf a = g.topoOf b → a = b) :
    g.reorderNodes fwd bwd = g.reorderNodes fwd' bwd' := by
  simp only [reorderNodes, sortedPairs_perm_invariant g hF hiF, sortedPairs_perm_invariant g hB hiB]

/-- Ranks are injective on every list of live nodes of a well-formed graph. -/
theorem WF.topo_injOn {g : Dag N E} (h : g.WF) {l : List Nat}
    (hl : ∀ x ∈ l, g.containsNode x = true) :
    ∀ a ∈ l, ∀ b ∈ l, g.topoOf a = g.topoOf b → a = b :=
  fun a ha b hb hab => h.topo_inj (hl a ha) (hl b hb) hab

/-! ### the shared `visited` set of the backward search -/

/-- The nodes collected by `dfsLoop` depend on the initial visited set only through membership,
provided the step function does. -/
theorem dfsLoop_vis_congr (step : List Nat → Nat → Option (List Nat))
    (hstep : ∀ v v' n, (∀ x, x ∈ v ↔ x ∈ v') → step v n = step v' n) :
    ∀ (fuel : Nat) (st vis vis' acc : List Nat), (∀ x, x ∈ vis ↔ x ∈ vis') →
      (dfsLoop step fuel st vis acc).map (·.2) = (dfsLoop step fuel st vis' acc).map (·.2) := by
  intro fuel
  induction fuel with
  | zero => intro st vis vis' acc _; simp [dfsLoop]
  | succ f ih =>
    intro st vis vis' acc hv
    cases st with
    | nil => simp [dfsLoop]
    | cons n st =>
      simp only [dfsLoop]
      have hcons : ∀ x, x ∈ n :: vis ↔ x ∈ n :: vis' := by
        intro x; simp only [List.mem_cons, hv x]
      by_cases hn : n ∈ vis
      · have hn' : n ∈ vis' := (hv n).mp hn
        simp only [hn, hn', if_true]
        exact ih st vis vis' acc hv
      · have hn' : n ∉ vis' := fun hh => hn ((hv n).mpr hh)
        simp only [hn, hn', if_false]
        rw [hstep (n :: vis) (n :: vis') n hcons]
        cases step (n :: vis') n with
        | none => rfl
        | some ps => exact ih _ _ _ _ hcons

/-- `dfsBackward` depends on the shared visited set (the forward change set, a `HashSet` in the
Rust code) only through membership — not on its enumeration order. -/
theorem dfsBackward_visited_congr (g : Dag N E) (s lb : Nat) {V V' : List Nat}
    (hV : ∀ x, x ∈ V ↔ x ∈ V') : g.dfsBackward s V lb = g.dfsBackward s V' lb := by
  have key := dfsLoop_vis_congr
    (fun vis n => some ((g.parentsOf n).filter (fun p => !(vis.contains p) && lb < g.topoOf p)))
    (by
      intro v v' n hv
      have : ∀ p, v.contains p = v'.contains p := by
        intro p
        rw [Bool.eq_iff_iff, List.contains_iff_mem, List.contains_iff_mem]
        exact hv p
      simp only [this])
    g.dfsFuel [s] V V' [] hV
  unfold dfsBackward
  revert key
  cases dfsLoop _ g.dfsFuel [s] V [] <;> cases dfsLoop _ g.dfsFuel [s] V' [] <;> simp

/-! ### `addEdge` with re-enumerated change sets -/

/-- `addEdge`, except that the forward change set is re-enumerated by `permF` and the backward
change set by `permB` before `reorderNodes` (body copied from `Dag.addEdge`). Models the
arbitrary iteration order of the two Rust `HashSet`s. -/
def addEdgeWith (permF permB : List Nat → List Nat) (g : Dag N E) (src dst : Nat) (d : E) :
    Dag N E × Except GErr Bool :=
  match g.info src, g.info dst with
  | some si, some di =>
    if src = dst then (g, .error .cycle)
    else
      let (ch, new1) := insertKeep si.children dst
      let ub := si.topo
      let lb := di.topo
      if !new1 then
        (g, .ok false)
      else
        let (pa, new2) := insertKeep di.parents src
        let g1 : Dag N E := { g with nodes := amodify g.nodes src (fun i => { i with children := ch }) }
        let g2 : Dag N E := { g1 with nodes := amodify g1.nodes dst (fun i => { i with parents := pa }) }
        if !new2 then (g2, .ok false)
        else
          let g3 : Dag N E := { g2 with edata := aset g2.edata (src, dst) d }
          if lb < ub then
            match g3.dfsForward dst ub with
            | none => (g, .error .cycle)
            | some fwd =>
              let bwd := g3.dfsBackward src fwd lb
              (g3.reorderNodes (permF fwd) (permB bwd), .ok true)
          else (g3, .ok true)
  | _, _ => (g, .error .nodeMissing)

/-- With the identity enumerations `addEdgeWith` is `addEdge` (definitionally). -/
theorem addEdgeWith_id (g : Dag N E) (s t : Nat) (d : E) :
    addEdgeWith id id g s t d = g.addEdge s t d := rfl

/-- `addEdgeWith` by cases (same shape as `addEdge_eq`). -/
theorem addEdgeWith_eq (permF permB : List Nat → List Nat) (g : Dag N E)
    (hcp : ∀ a b, b ∈ g.childrenOf a ↔ a ∈ g.parentsOf b) (s t : Nat) (d : E) :
    addEdgeWith permF permB g s t d =
      if g.containsNode s = false ∨ g.containsNode t = false then (g, .error .nodeMissing)
      else if s = t then (g, .error .cycle)
      else if t ∈ g.childrenOf s then (g, .ok false)
      else if g.topoOf t < g.topoOf s then
        match (g.addEdgeG3 s t d).dfsForward t (g.topoOf s) with
        | none => (g, .error .cycle)
        | some fwd =>
          ((g.addEdgeG3 s t d).reorderNodes (permF fwd)
            (permB ((g.addEdgeG3 s t d).dfsBackward s fwd (g.topoOf t))), .ok true)
      else (g.addEdgeG3 s t d, .ok true) := by
  unfold addEdgeWith
  cases hs : g.info s with
  | none => simp [containsNode, hs]
  | some si =>
    cases ht : g.info t with
    | none => simp [containsNode, ht]
    | some ti =>
      have h1 : g.childrenOf s = si.children := by simp [childrenOf, hs]
      have h2 : g.parentsOf t = ti.parents := by simp [parentsOf, ht]
      have h3 : g.topoOf s = si.topo := by simp [topoOf, hs]
      have h4 : g.topoOf t = ti.topo := by simp [topoOf, ht]
      simp only [containsNode, hs, ht, Option.isSome_some, Bool.true_eq_false, or_self, if_false]
      by_cases hst : s = t
      · simp [hst]
      · simp only [hst, if_false]
        by_cases hc : t ∈ si.children
        · simp [insertKeep, hc, h1]
        · have hp : s ∉ ti.parents := by
            rw [← h2, ← hcp, h1]; exact hc
          simp only [insertKeep, hc, hp, if_false, h1, h2, h3, h4, addEdgeG3]
          rfl

/-- What the two DFSs inside `addEdge` deliver, as far as enumeration order is concerned:
duplicate-free lists of live nodes (hence with pairwise distinct ranks), disjoint from each
other. -/
theorem addEdge_dfs_sets {g : Dag N E} (h : g.Inv) {s t : Nat} (d : E)
    (hs : g.containsNode s = true) (ht : g.containsNode t = true)
    (hc : t ∉ g.childrenOf s) (hlt : g.topoOf t < g.topoOf s) {F : List Nat}
    (hF : (g.addEdgeG3 s t d).dfsForward t (g.topoOf s) = some F) :
    (g.addEdgeG3 s t d).WF ∧ F.Nodup ∧
      ((g.addEdgeG3 s t d).dfsBackward s F (g.topoOf t)).Nodup ∧
      (∀ x ∈ F, (g.addEdgeG3 s t d).containsNode x = true) ∧
      (∀ x ∈ (g.addEdgeG3 s t d).dfsBackward s F (g.topoOf t),
        (g.addEdgeG3 s t d).containsNode x = true) ∧
      (∀ x ∈ (g.addEdgeG3 s t d).dfsBackward s F (g.topoOf t), x ∉ F) := by
  have hwf := wf_addEdgeG3 d h.toWF hs ht hc
  have hup := upward_addEdgeG3 d h hs (t := t)
  have hub : (g.addEdgeG3 s t d).topoOf s = g.topoOf s := topoOf_addEdgeG3 d s
  have hlb : (g.addEdgeG3 s t d).topoOf t = g.topoOf t := topoOf_addEdgeG3 d t
  obtain ⟨_, f2⟩ := dfsForward_spec hwf t hub hlb hlt
    (fun a b he ha => hup a b he (fun hh => ha hh.1)) (fun _ => True) trivial
    (fun _ _ _ _ _ => trivial)
  obtain ⟨f1, _, f3, _⟩ := f2 F hF
  obtain ⟨b1, b2, _, b4, _⟩ := dfsBackward_spec hwf s F hub hlb hlt
    (fun a b he hb => hup a b he (fun hh => hb hh.2))
  have hlb1 : 1 ≤ g.topoOf t := (h.toWF.topo_range ht).1
  refine ⟨hwf, f1, b1, ?_, ?_, b2⟩
  · intro x hx
    apply hwf.live_of_topo_pos
    have := (f3 x hx).1; omega
  · intro x hx
    apply hwf.live_of_topo_pos
    have := (b4 x hx).1; omega

/-- The rank repair inside `addEdge` for *any* enumeration `F'` of the forward set, *any*
enumeration `V'` of the visited set handed to the backward search, and *any* enumeration `B'` of
the backward set computed from it. -/
theorem addEdge_reorder_order_independent {g : Dag N E} (h : g.Inv) {s t : Nat} (d : E)
    (hs : g.containsNode s = true) (ht : g.containsNode t = true)
    (hc : t ∉ g.childrenOf s) (hlt : g.topoOf t < g.topoOf s) {F F' V' B' : List Nat}
    (hF : (g.addEdgeG3 s t d).dfsForward t (g.topoOf s) = some F)
    (hF' : F'.Perm F) (hV' : ∀ x, x ∈ V' ↔ x ∈ F)
    (hB' : B'.Perm ((g.addEdgeG3 s t d).dfsBackward s V' (g.topoOf t))) :
    (g.addEdgeG3 s t d).reorderNodes F' B' =
      (g.addEdgeG3 s t d).reorderNodes F ((g.addEdgeG3 s t d).dfsBackward s F (g.topoOf t)) := by
  rw [dfsBackward_visited_congr _ s _ hV'] at hB'
  obtain ⟨hwf, _, _, hFl, hBl, _⟩ := addEdge_dfs_sets h d hs ht hc hlt hF
  exact reorderNodes_perm_invariant _ hF' hB'
    (hwf.topo_injOn (fun x hx => hFl x (hF'.mem_iff.mp hx)))
    (hwf.topo_injOn (fun x hx => hBl x (hB'.mem_iff.mp hx)))

/-- **Order independence of `addEdge`.**  Re-enumerating the two DFS result sets in any order
before the rank repair does not change the outcome (graph and verdict). -/
theorem addEdgeWith_eq_addEdge {g : Dag N E} (h : g.Inv) {permF permB : List Nat → List Nat}
    (hpF : ∀ l, (permF l).Perm l) (hpB : ∀ l, (permB l).Perm l) (s t : Nat) (d : E) :
    addEdgeWith permF permB g s t d = g.addEdge s t d := by
  rw [addEdge_eq g h.child_iff_parent, addEdgeWith_eq permF permB g h.child_iff_parent]
  split
  · rfl
  · rename_i hlive
    have hs : g.containsNode s = true := by
      cases hh : g.containsNode s <;> simp [hh] at hlive ⊢
    have ht : g.containsNode t = true := by
      cases hh : g.containsNode t <;> simp [hh] at hlive ⊢
    split
    · rfl
    · split
      · rfl
      · rename_i hc
        split
        · rename_i hlt
          cases hF : (g.addEdgeG3 s t d).dfsForward t (g.topoOf s) with
          | none => rfl
          | some F =>
            simp only
            obtain ⟨hwf, _, _, hFl, hBl, _⟩ := addEdge_dfs_sets h d hs ht hc hlt hF
            have hFl' : ∀ x ∈ permF F, (g.addEdgeG3 s t d).containsNode x = true :=
              fun x hx => hFl x ((hpF F).mem_iff.mp hx)
            have hBl' : ∀ x ∈ permB ((g.addEdgeG3 s t d).dfsBackward s F (g.topoOf t)),
                (g.addEdgeG3 s t d).containsNode x = true :=
              fun x hx => hBl x ((hpB _).mem_iff.mp hx)
            rw [reorderNodes_perm_invariant _ (hpF F) (hpB _) (hwf.topo_injOn hFl')
              (hwf.topo_injOn hBl')]
        · rfl

end Dag
end PieModel
