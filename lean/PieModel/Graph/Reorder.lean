/-
`reorderNodes` (the Pearce–Kelly rank repair): the resulting rank function is
`newRank g.topoOf F B`, and under the closure properties of the two change sets the repaired
graph satisfies the invariant.
-/
import PieModel.Graph.Ops
import PieModel.Graph.Sort

namespace PieModel
namespace Dag
variable {N E : Type}

theorem info_setTopo (g : Dag N E) (k t x : Nat) :
    (g.setTopo k t).info x =
      if k = x then (g.info x).map (fun i => { i with topo := t }) else g.info x := by
  simp only [info, setTopo, aget_amodify]

theorem foldl_setTopo_fields (l : List (Nat × Nat)) (g : Dag N E) :
    (l.foldl (fun g kt => g.setTopo kt.1 kt.2) g).ids = g.ids ∧
    (l.foldl (fun g kt => g.setTopo kt.1 kt.2) g).next = g.next ∧
    (l.foldl (fun g kt => g.setTopo kt.1 kt.2) g).last = g.last ∧
    (l.foldl (fun g kt => g.setTopo kt.1 kt.2) g).edata = g.edata := by
  induction l generalizing g with
  | nil => simp
  | cons p l ih =>
    simp only [List.foldl_cons]
    obtain ⟨h1, h2, h3, h4⟩ := ih (g.setTopo p.1 p.2)
    refine ⟨h1.trans ?_, h2, h3, h4⟩
    simp [ids_eq_akeys, setTopo]

theorem info_foldl_setTopo (l : List (Nat × Nat)) (hl : (l.map (·.1)).Nodup) (g : Dag N E)
    (x : Nat) :
    (l.foldl (fun g kt => g.setTopo kt.1 kt.2) g).info x =
      (g.info x).map (fun i => { i with topo := (aget l x).getD i.topo }) := by
  induction l generalizing g with
  | nil => simp
  | cons p l ih =>
    obtain ⟨k, t⟩ := p
    simp only [List.map_cons, List.nodup_cons] at hl
    simp only [List.foldl_cons]
    rw [ih hl.2, info_setTopo]
    by_cases hk : k = x
    · subst hk
      have : aget l k = none := (aget_eq_none_iff l k).mpr hl.1
      cases g.info k <;> simp [this]
    · cases g.info x <;> simp [hk]

theorem reorderNodes_eq (g : Dag N E) (F B : List Nat) :
    g.reorderNodes F B =
      (reorderAssign g.topoOf F B).foldl (fun g kt => g.setTopo kt.1 kt.2) g := rfl

section
variable {g : Dag N E} {F B : List Nat}

theorem info_reorderNodes (hinj : ((B ++ F).map g.topoOf).Nodup) (x : Nat) :
    (g.reorderNodes F B).info x =
      (g.info x).map (fun i => { i with topo := newRank g.topoOf F B x }) := by
  rw [reorderNodes_eq, info_foldl_setTopo _ (reorderAssign_keys_nodup hinj)]
  cases hx : g.info x with
  | none => rfl
  | some i =>
    have : g.topoOf x = i.topo := by simp [topoOf, hx]
    simp [newRank, this]

theorem childrenOf_reorderNodes (hinj : ((B ++ F).map g.topoOf).Nodup) (x : Nat) :
    (g.reorderNodes F B).childrenOf x = g.childrenOf x := by
  simp only [childrenOf, info_reorderNodes hinj]
  cases g.info x <;> simp

theorem parentsOf_reorderNodes (hinj : ((B ++ F).map g.topoOf).Nodup) (x : Nat) :
    (g.reorderNodes F B).parentsOf x = g.parentsOf x := by
  simp only [parentsOf, info_reorderNodes hinj]
  cases g.info x <;> simp

theorem topoOf_reorderNodes (hinj : ((B ++ F).map g.topoOf).Nodup) {x : Nat}
    (hx : g.containsNode x = true) :
    (g.reorderNodes F B).topoOf x = newRank g.topoOf F B x := by
  simp only [topoOf, info_reorderNodes hinj]
  simp only [containsNode, Option.isSome_iff_exists] at hx
  obtain ⟨i, hi⟩ := hx
  simp [hi]

theorem wf_reorderNodes (h : g.WF) (hinj : ((B ++ F).map g.topoOf).Nodup)
    (hlive : ∀ x, x ∈ B ∨ x ∈ F → g.containsNode x = true) : (g.reorderNodes F B).WF := by
  obtain ⟨h1, h2, h3, h4⟩ := foldl_setTopo_fields (reorderAssign g.topoOf F B) g
  rw [← reorderNodes_eq] at h1 h2 h3 h4
  apply h.transfer h1 h2 h3 ?_ (by rw [h4]) (by intro k; rw [h4])
    (childrenOf_reorderNodes hinj) (parentsOf_reorderNodes hinj)
  rw [ranks_eq_map_topoOf _ (h1 ▸ h.ids_nodup), ranks_eq_map_topoOf _ h.ids_nodup, h1]
  have : g.ids.map (g.reorderNodes F B).topoOf = g.ids.map (newRank g.topoOf F B) := by
    apply List.map_congr_left
    intro x hx
    exact topoOf_reorderNodes hinj ((containsNode_iff g x).mpr hx)
  rw [this]
  exact newRank_perm hinj g.ids h.ids_nodup
    (fun x hx => (containsNode_iff g x).mp (hlive x hx))

/-- The rank repair establishes the invariant. `g` is the graph with the new edge `s → t`
already inserted; `F`/`B` are the forward/backward change sets. -/
theorem inv_reorderNodes (h : g.WF) {s t lb ub : Nat}
    (ht : g.containsNode t = true) (hlb : g.topoOf t = lb)
    (hup : ∀ a b, g.HasEdge a b → ¬ (a = s ∧ b = t) → g.topoOf a < g.topoOf b)
    (hFn : F.Nodup) (hBn : B.Nodup) (hdisj : ∀ x ∈ B, x ∉ F)
    (htF : t ∈ F) (hsB : s ∈ B)
    (hFr : ∀ x ∈ F, lb ≤ g.topoOf x ∧ g.topoOf x < ub)
    (hBr : ∀ x ∈ B, lb < g.topoOf x ∧ g.topoOf x ≤ ub)
    (hFc : ∀ x ∈ F, ∀ c ∈ g.childrenOf x, g.topoOf c ≠ ub ∧ (g.topoOf c < ub → c ∈ F))
    (hBc : ∀ x ∈ B, ∀ p ∈ g.parentsOf x, lb < g.topoOf p → p ∈ B ∨ p ∈ F) :
    (g.reorderNodes F B).Inv := by
  have hlb1 : 1 ≤ lb := hlb ▸ (h.topo_range ht).1
  have hlive : ∀ x, x ∈ B ∨ x ∈ F → g.containsNode x = true := by
    intro x hx
    apply h.live_of_topo_pos
    rcases hx with hx | hx
    · have := hBr x hx; omega
    · have := hFr x hx; omega
  have hinj : ((B ++ F).map g.topoOf).Nodup := by
    apply nodup_map_on
    · rw [List.nodup_append]
      exact ⟨hBn, hFn, fun a ha b hb hab => hdisj a ha (hab ▸ hb)⟩
    · intro x hx y hy hxy
      exact h.topo_inj (hlive x (List.mem_append.mp hx)) (hlive y (List.mem_append.mp hy)) hxy
  have hwf := wf_reorderNodes h hinj hlive
  refine ⟨hwf, ?_⟩
  intro x y he
  have he' : y ∈ g.childrenOf x := by
    simpa [HasEdge, childrenOf_reorderNodes hinj] using he
  obtain ⟨hxl, hyl⟩ := h.child_live he'
  rw [topoOf_reorderNodes hinj hxl, topoOf_reorderNodes hinj hyl]
  have hsF : s ∉ F := hdisj s hsB
  have htB : t ∉ B := fun hb => hdisj t hb htF
  -- bounds on the new rank of a moved node
  have hnr_range : ∀ z, z ∈ B ∨ z ∈ F →
      lb ≤ newRank g.topoOf F B z ∧ newRank g.topoOf F B z ≤ ub := by
    intro z hz
    obtain ⟨w, hw, hw'⟩ := newRank_mem hinj hz
    rw [hw']
    rcases hw with hw | hw
    · have := hBr w hw; omega
    · have := hFr w hw; omega
  by_cases hxB : x ∈ B
  · by_cases hyB : y ∈ B
    · -- both in B
      apply newRank_lt_of_mem_B hinj hxB hyB
      exact hup x y he' (fun hh => htB (hh.2 ▸ hyB))
    · by_cases hyF : y ∈ F
      · exact newRank_lt_of_mem_B_F hinj hxB hyF
      · rw [newRank_of_not_mem hyB hyF]
        have h1 := newRank_le_of_mem_B (F := F) hinj hxB
        have h2 := hup x y he' (fun hh => hyF (hh.2 ▸ htF))
        omega
  · by_cases hxF : x ∈ F
    · obtain ⟨hc1, hc2⟩ := hFc x hxF y he'
      by_cases hyB : y ∈ B
      · exfalso
        have := hBr y hyB
        exact hdisj y hyB (hc2 (by omega))
      · by_cases hyF : y ∈ F
        · apply newRank_lt_of_mem_F hinj hxF hyF
          exact hup x y he' (fun hh => hsF (hh.1 ▸ hxF))
        · rw [newRank_of_not_mem hyB hyF]
          have h1 := (hnr_range x (.inr hxF)).2
          have : ¬ g.topoOf y < ub := fun hh => hyF (hc2 hh)
          omega
    · rw [newRank_of_not_mem hxB hxF]
      have hxs : x ≠ s := fun hh => hxB (hh ▸ hsB)
      have hlt := hup x y he' (fun hh => hxs hh.1)
      by_cases hyB : y ∈ B
      · have hp : x ∈ g.parentsOf y := (h.child_iff_parent x y).mp he'
        have h1 : ¬ lb < g.topoOf x := by
          intro hh
          rcases hBc y hyB x hp hh with h' | h'
          · exact hxB h'
          · exact hxF h'
        have h2 : g.topoOf x ≠ lb := by
          intro hh
          have : x = t := h.topo_inj hxl ht (hh.trans hlb.symm)
          exact hxF (this ▸ htF)
        have h3 := (hnr_range y (.inl hyB)).1
        omega
      · by_cases hyF : y ∈ F
        · have := le_newRank_of_mem_F (B := B) hinj hyF
          omega
        · rw [newRank_of_not_mem hyB hyF]
          exact hlt

end

end Dag
end PieModel
