/-
Frame / effect lemmas (property C11, part 1) for `removeNode`: the node disappears, it is erased
from every adjacency list, exactly the edge data with that endpoint disappear, node data of the
other nodes are kept and the relative rank order of the remaining nodes is preserved.
-/
import PieModel.Graph.FrameBasic

namespace PieModel
namespace Dag
variable {N E : Type} {g : Dag N E}

theorem removeNode_of_live (g : Dag N E) {n : Nat} (hn : g.containsNode n = true) :
    g.removeNode n = (g.removeNodeCore n, true) := by
  simp only [containsNode, Option.isSome_iff_exists] at hn
  obtain ⟨ni, hni⟩ := hn
  have h1 : g.childrenOf n = ni.children := by simp [childrenOf, hni]
  have h2 : g.parentsOf n = ni.parents := by simp [parentsOf, hni]
  have h3 : g.topoOf n = ni.topo := by simp [topoOf, hni]
  unfold removeNode
  simp [removeNodeCore, h1, h2, h3, hni]

theorem removeNode_of_not_live (g : Dag N E) {n : Nat} (hn : g.containsNode n = false) :
    g.removeNode n = (g, false) := by
  have : g.info n = none := by simpa [containsNode] using hn
  unfold removeNode
  simp [this]

/-- `removeNode` reports whether the node was live. -/
theorem removeNode_snd (g : Dag N E) (n : Nat) : (g.removeNode n).2 = g.containsNode n := by
  cases hn : g.containsNode n
  · rw [removeNode_of_not_live g hn]
  · rw [removeNode_of_live g hn]

theorem next_removeNode (g : Dag N E) (n : Nat) : (g.removeNode n).1.next = g.next := by
  rcases removeNode_fst g n with ⟨h', _⟩ | h' <;> rw [h']; rfl

theorem not_mem_childrenOf_of_not_live (h : g.WF) {n : Nat} (hn : g.containsNode n = false)
    (x : Nat) : n ∉ g.childrenOf x := by
  intro hc; have := (h.child_live hc).2; simp [hn] at this

theorem not_mem_parentsOf_of_not_live (h : g.WF) {n : Nat} (hn : g.containsNode n = false)
    (x : Nat) : n ∉ g.parentsOf x := by
  intro hc; have := (h.parent_live hc).1; simp [hn] at this

theorem ids_removeNode (g : Dag N E) (n : Nat) : (g.removeNode n).1.ids = g.ids.erase n := by
  cases hn : g.containsNode n
  · rw [removeNode_of_not_live g hn, List.erase_of_not_mem ((not_live_iff g n).mp hn)]
  · rw [removeNode_of_live g hn]
    simp only [ids_eq_akeys, removeNodeCore]
    rw [akeys_map_snd _ (fun (kv : Nat × NodeInfo N) =>
      if kv.2.topo > g.topoOf n then { kv.2 with topo := kv.2.topo - 1 } else kv.2),
      akeys_foldl_amodify, akeys_foldl_amodify, akeys_aerase]

/-- The node is gone; liveness of the others is unchanged. -/
theorem containsNode_removeNode (h : g.WF) (n x : Nat) :
    (g.removeNode n).1.containsNode x = if x = n then false else g.containsNode x := by
  rw [Bool.eq_iff_iff, containsNode_iff, ids_removeNode g n, h.ids_nodup.mem_erase_iff]
  split
  · rename_i hx; simp [hx]
  · rename_i hx; simp [hx, containsNode_iff]

theorem containsNode_removeNode_self (h : g.WF) (n : Nat) :
    (g.removeNode n).1.containsNode n = false := by
  simp [containsNode_removeNode h]

/-- `n` is erased from every children list, and has no children afterwards. -/
theorem childrenOf_removeNode (h : g.WF) (n x : Nat) :
    (g.removeNode n).1.childrenOf x = if x = n then [] else (g.childrenOf x).erase n := by
  cases hn : g.containsNode n
  · rw [removeNode_of_not_live g hn]
    split
    · rename_i hx; rw [hx]; exact childrenOf_of_not_live g hn
    · rw [List.erase_of_not_mem (not_mem_childrenOf_of_not_live h hn x)]
  · rw [removeNode_of_live g hn]
    simp only [childrenOf, info_removeNodeCore g h]
    by_cases h0 : n = x
    · simp [h0]
    · have h0' : ¬ x = n := fun hh => h0 hh.symm
      by_cases h1 : x ∈ g.parentsOf n
      · cases hx : g.info x <;> simp [h0, h0', h1]
      · have hc : n ∉ g.childrenOf x := fun hc => h1 ((h.child_iff_parent x n).mp hc)
        cases hx : g.info x with
        | none => simp [h0, h0']
        | some i =>
          have : n ∉ i.children := by simpa [childrenOf, hx] using hc
          simp [h0, h0', h1, List.erase_of_not_mem this]

/-- `n` is erased from every parents list, and has no parents afterwards. -/
theorem parentsOf_removeNode (h : g.WF) (n x : Nat) :
    (g.removeNode n).1.parentsOf x = if x = n then [] else (g.parentsOf x).erase n := by
  cases hn : g.containsNode n
  · rw [removeNode_of_not_live g hn]
    split
    · rename_i hx; rw [hx]; exact parentsOf_of_not_live g hn
    · rw [List.erase_of_not_mem (not_mem_parentsOf_of_not_live h hn x)]
  · rw [removeNode_of_live g hn]
    simp only [parentsOf, info_removeNodeCore g h]
    by_cases h0 : n = x
    · simp [h0]
    · have h0' : ¬ x = n := fun hh => h0 hh.symm
      by_cases h1 : x ∈ g.childrenOf n
      · cases hx : g.info x <;> simp [h0, h0', h1]
      · have hc : n ∉ g.parentsOf x := fun hc => h1 ((h.child_iff_parent n x).mpr hc)
        cases hx : g.info x with
        | none => simp [h0, h0']
        | some i =>
          have : n ∉ i.parents := by simpa [parentsOf, hx] using hc
          simp [h0, h0', h1, List.erase_of_not_mem this]

/-- Node data of the other nodes are unchanged. -/
theorem getNodeData_removeNode (h : g.WF) (n x : Nat) :
    (g.removeNode n).1.getNodeData x = if x = n then none else g.getNodeData x := by
  cases hn : g.containsNode n
  · rw [removeNode_of_not_live g hn]
    split
    · rename_i hx; rw [hx]; exact getNodeData_of_not_live g hn
    · rfl
  · rw [removeNode_of_live g hn]
    simp only [getNodeData, info_removeNodeCore g h]
    by_cases h0 : n = x
    · simp [h0]
    · have h0' : ¬ x = n := fun hh => h0 hh.symm
      cases hx : g.info x <;> simp [h0, h0']

/-- Exactly the edge data with endpoint `n` disappear. -/
theorem getEdgeData_removeNode (h : g.WF) (n a b : Nat) :
    (g.removeNode n).1.getEdgeData a b = if a = n ∨ b = n then none else g.getEdgeData a b := by
  cases hn : g.containsNode n
  · rw [removeNode_of_not_live g hn]
    split
    · rename_i hab
      apply h.getEdgeData_eq_none
      intro hc
      have := h.child_live hc
      rcases hab with rfl | rfl <;> simp [hn] at this
    · rfl
  · rw [removeNode_of_live g hn]
    show aget (List.foldl (fun ed p => aerase ed (p, n))
      (List.foldl (fun ed c => aerase ed (n, c)) g.edata (g.childrenOf n)) (g.parentsOf n))
      (a, b) = _
    rw [aget_foldl_aerase _ (fun p => (p, n)) _ (akeys_foldl_aerase_nodup _ _ _ h.keys_nodup),
      aget_foldl_aerase _ (fun c => (n, c)) _ h.keys_nodup]
    by_cases hb : b = n
    · subst hb
      by_cases ha : a ∈ g.parentsOf b
      · simp [ha]
      · have hc : b ∉ g.childrenOf a := fun hc => ha ((h.child_iff_parent a b).mp hc)
        have := h.getEdgeData_eq_none hc
        simp only [getEdgeData] at this
        simp [this]
    · by_cases ha : a = n
      · subst ha
        by_cases hb' : b ∈ g.childrenOf a
        · simp [hb']
        · have := h.getEdgeData_eq_none hb'
          simp only [getEdgeData] at this
          simp [this]
      · have h1 : (a, b) ∉ (g.parentsOf n).map (fun p => (p, n)) := by
          simp; intro _ _ _; exact Ne.symm hb
        have h2 : (a, b) ∉ (g.childrenOf n).map (fun c => (n, c)) := by
          simp; intro _ hh; exact absurd hh.symm ha
        simp [h1, h2, ha, hb, getEdgeData]

/-- Ranks above the removed one move down by one. -/
theorem topoOf_removeNode (h : g.WF) {n : Nat} (hn : g.containsNode n = true) {x : Nat}
    (hx : x ≠ n) : (g.removeNode n).1.topoOf x = decAbove (g.topoOf n) (g.topoOf x) := by
  rw [removeNode_of_live g hn]
  simp only [topoOf, info_removeNodeCore g h]
  cases hx' : g.info x <;> simp [Ne.symm hx, decAbove]

theorem topoOf_removeNode_of_not_live (g : Dag N E) {n : Nat} (hn : g.containsNode n = false)
    (x : Nat) : (g.removeNode n).1.topoOf x = g.topoOf x := by
  rw [removeNode_of_not_live g hn]

/-- The relative rank order of the remaining nodes is preserved. -/
theorem topoOf_removeNode_lt_iff (h : g.WF) (n : Nat) {a b : Nat} (ha : a ≠ n) (hb : b ≠ n)
    (hla : g.containsNode a = true) (hlb : g.containsNode b = true) :
    (g.removeNode n).1.topoOf a < (g.removeNode n).1.topoOf b ↔ g.topoOf a < g.topoOf b := by
  cases hn : g.containsNode n
  · rw [topoOf_removeNode_of_not_live g hn, topoOf_removeNode_of_not_live g hn]
  · rw [topoOf_removeNode h hn ha, topoOf_removeNode h hn hb]
    have h1 : g.topoOf a ≠ g.topoOf n := fun he => ha (h.topo_inj hla hn he)
    have h2 : g.topoOf b ≠ g.topoOf n := fun he => hb (h.topo_inj hlb hn he)
    unfold decAbove
    split <;> split <;> omega

/-- Consequently rank comparison of the remaining nodes is unchanged. -/
theorem compare_topoOf_removeNode (h : g.WF) (n : Nat) {a b : Nat} (ha : a ≠ n) (hb : b ≠ n)
    (hla : g.containsNode a = true) (hlb : g.containsNode b = true) :
    compare ((g.removeNode n).1.topoOf a) ((g.removeNode n).1.topoOf b) =
      compare (g.topoOf a) (g.topoOf b) := by
  have h1 := topoOf_removeNode_lt_iff h n ha hb hla hlb
  have h2 := topoOf_removeNode_lt_iff h n hb ha hlb hla
  simp only [Nat.compare_eq_ite_lt]
  by_cases c1 : g.topoOf a < g.topoOf b
  · simp [c1, h1.mpr c1]
  · by_cases c2 : g.topoOf b < g.topoOf a
    · simp [c1, c2, h2.mpr c2, mt h1.mp c1]
    · simp [c1, c2, mt h1.mp c1, mt h2.mp c2]

end Dag
end PieModel
