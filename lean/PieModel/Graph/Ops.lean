/-
Preservation of `Dag.Inv` by every operation except `addEdge`:
`empty`, `addNode`, `setNodeData`, `setEdgeData`, `removeEdge`, `removeOutgoingEdgesOfNode`.
(`removeNode` is in `Graph/RemoveNode.lean`.)
-/
import PieModel.Graph.Inv

namespace PieModel
namespace Dag
variable {N E : Type}

/-! ### node-table helpers -/

/-- Folding `amodify` over a duplicate-free list of keys. -/
theorem aget_foldl_amodify (cs : List Nat) (hcs : cs.Nodup) (f : NodeInfo N → NodeInfo N)
    (ns : List (Nat × NodeInfo N)) (x : Nat) :
    aget (cs.foldl (fun ns c => amodify ns c f) ns) x =
      if x ∈ cs then (aget ns x).map f else aget ns x := by
  induction cs generalizing ns with
  | nil => simp
  | cons c cs ih =>
    simp only [List.nodup_cons] at hcs
    simp only [List.foldl_cons, List.mem_cons]
    rw [ih hcs.2, aget_amodify]
    by_cases hx : x = c
    · subst hx; simp [hcs.1]
    · by_cases hx' : x ∈ cs <;> simp [hx, hx', Ne.symm hx]

theorem akeys_foldl_amodify (cs : List Nat) (f : NodeInfo N → NodeInfo N)
    (ns : List (Nat × NodeInfo N)) :
    akeys (cs.foldl (fun ns c => amodify ns c f) ns) = akeys ns := by
  induction cs generalizing ns with
  | nil => simp
  | cons c cs ih => simp [ih]

theorem ranks_foldl_amodify (cs : List Nat) (f : NodeInfo N → NodeInfo N)
    (hf : ∀ i, (f i).topo = i.topo) (ns : List (Nat × NodeInfo N)) :
    (cs.foldl (fun ns c => amodify ns c f) ns).map (fun kv => kv.2.topo) =
      ns.map (fun kv => kv.2.topo) := by
  induction cs generalizing ns with
  | nil => simp
  | cons c cs ih =>
    simp only [List.foldl_cons]
    rw [ih, map_amodify_of_proj ns c f (fun i => i.topo) hf]

theorem topo_amodify (l : List (Nat × NodeInfo N)) (k : Nat) (f : NodeInfo N → NodeInfo N)
    (hf : ∀ i, (f i).topo = i.topo) :
    (amodify l k f).map (fun kv => kv.2.topo) = l.map (fun kv => kv.2.topo) :=
  map_amodify_of_proj l k f (fun i => i.topo) hf

/-- With duplicate-free ids the rank list is the image of the id list under `topoOf`. -/
theorem ranks_eq_map_topoOf (g : Dag N E) (h : g.ids.Nodup) : g.ranks = g.ids.map g.topoOf := by
  simp only [ranks, ids, List.map_map]
  apply List.map_congr_left
  intro kv hkv
  have : aget g.nodes kv.1 = some kv.2 := aget_of_mem h hkv
  simp [topoOf, info, this]

/-! ### empty -/

theorem inv_empty : (empty : Dag N E).Inv := by
  refine ⟨⟨?_, ?_, ?_, ?_, ?_, ?_, ?_, ?_, ?_, ?_⟩, ?_⟩ <;>
    simp [empty, ids, ranks, childrenOf, parentsOf, info, HasEdge]

/-! ### addNode -/

theorem info_addNode (g : Dag N E) (h : g.WF) (d : N) (x : Nat) :
    (g.addNode d).1.info x =
      if x = g.next then some { topo := g.last + 1, data := d, parents := [], children := [] }
      else g.info x := by
  have hnone : aget g.nodes g.next = none := by
    have := h.not_live_next; simpa [containsNode, info] using this
  simp only [info, addNode, aget_append]
  by_cases hx : x = g.next
  · subst hx; simp [hnone]
  · simp [hx, Ne.symm hx]

theorem inv_addNode {g : Dag N E} (h : g.Inv) (d : N) : (g.addNode d).1.Inv := by
  have hi := info_addNode g h.toWF d
  have hnl := h.not_live_next
  have hnl' : g.info g.next = none := by simpa [containsNode] using hnl
  have hcn : ∀ x, (g.addNode d).1.containsNode x = (decide (x = g.next) || g.containsNode x) := by
    intro x; simp only [containsNode, hi]; split <;> simp [*]
  have hch : ∀ x, (g.addNode d).1.childrenOf x = g.childrenOf x := by
    intro x; by_cases hx : x = g.next
    · subst hx; simp [childrenOf, hi, hnl']
    · simp [childrenOf, hi, hx]
  have hpa : ∀ x, (g.addNode d).1.parentsOf x = g.parentsOf x := by
    intro x; by_cases hx : x = g.next
    · subst hx; simp [parentsOf, hi, hnl']
    · simp [parentsOf, hi, hx]
  have hto : ∀ x, x ≠ g.next → (g.addNode d).1.topoOf x = g.topoOf x := by
    intro x hx; simp [topoOf, hi, hx]
  have hnext_not : g.next ∉ g.ids := fun hm => by
    have := h.ids_lt _ hm; omega
  refine ⟨⟨?_, ?_, ?_, ?_, ?_, ?_, ?_, ?_, ?_, ?_⟩, ?_⟩
  · show (List.map (·.1) (g.nodes ++ [_])).Nodup
    rw [List.map_append, List.nodup_append]
    refine ⟨h.ids_nodup, by simp, ?_⟩
    intro a ha b hb
    simp at hb; subst hb
    rintro rfl; exact hnext_not ha
  · intro n hn
    have : n ∈ g.ids ∨ n = g.next := by
      simpa [ids, addNode, List.map_append] using hn
    show n < g.next + 1
    rcases this with hm | rfl
    · have := h.ids_lt n hm; omega
    · omega
  · show (List.map (·.2.topo) (g.nodes ++ [_])).Perm (List.range' 1 (g.nodes ++ [_]).length)
    rw [List.map_append, List.length_append, List.length_singleton, List.range'_concat]
    simp only [List.map_cons, List.map_nil, Nat.one_mul]
    rw [h.last_eq, Nat.add_comm g.nodes.length 1]
    exact List.Perm.append_right _ h.ranks_perm
  · show g.last + 1 = (g.nodes ++ [_]).length
    simp [h.last_eq]
  · intro n; rw [hch]; exact h.children_nodup n
  · intro n; rw [hpa]; exact h.parents_nodup n
  · exact h.keys_nodup
  · intro s t; rw [hch]; exact h.child_iff s t
  · intro s t; rw [hpa]; exact h.parent_iff s t
  · intro s t he
    have := h.edge_live s t he
    simp [hcn, this]
  · intro s t he
    have he' : t ∈ g.childrenOf s := by simpa [HasEdge, hch] using he
    have hl := h.child_live he'
    have hs : s ≠ g.next := by rintro rfl; simp [hnl] at hl
    have ht : t ≠ g.next := by rintro rfl; simp [hnl] at hl
    rw [hto s hs, hto t ht]
    exact h.upward s t he'

/-! ### setNodeData / setEdgeData -/

theorem info_amodify (g : Dag N E) (n : Nat) (f : NodeInfo N → NodeInfo N) (x : Nat) :
    aget (amodify g.nodes n f) x = if n = x then (g.info x).map f else g.info x := by
  rw [aget_amodify]; rfl

theorem inv_setNodeData {g : Dag N E} (h : g.Inv) (n : Nat) (d : N) : (g.setNodeData n d).Inv := by
  have hi : ∀ x, (g.setNodeData n d).info x =
      if n = x then (g.info x).map (fun i => { i with data := d }) else g.info x :=
    fun x => info_amodify g n _ x
  have hch : ∀ x, (g.setNodeData n d).childrenOf x = g.childrenOf x := by
    intro x; simp only [childrenOf, hi]; by_cases hnx : n = x <;> cases g.info x <;> simp [hnx]
  have hpa : ∀ x, (g.setNodeData n d).parentsOf x = g.parentsOf x := by
    intro x; simp only [parentsOf, hi]; by_cases hnx : n = x <;> cases g.info x <;> simp [hnx]
  have hto : ∀ x, (g.setNodeData n d).topoOf x = g.topoOf x := by
    intro x; simp only [topoOf, hi]; by_cases hnx : n = x <;> cases g.info x <;> simp [hnx]
  refine ⟨h.toWF.transfer ?_ rfl rfl ?_ rfl (fun _ => rfl) hch hpa, ?_⟩
  · simp [ids_eq_akeys, setNodeData]
  · have : (g.setNodeData n d).ranks = g.ranks :=
      map_amodify_of_proj g.nodes n _ (fun i => i.topo) (fun _ => rfl)
    rw [this]
  · intro s t he
    rw [hto, hto]; apply h.upward
    simpa [HasEdge, hch] using he

theorem inv_setEdgeData {g : Dag N E} (h : g.Inv) (s t : Nat) (d : E) :
    (g.setEdgeData s t d).Inv := by
  refine ⟨h.toWF.transfer rfl rfl rfl (List.Perm.refl _) ?_ ?_ (fun _ => rfl) (fun _ => rfl), ?_⟩
  · simp [setEdgeData]
  · intro k
    simp only [setEdgeData, aget_amodify]
    split <;> simp
  · exact h.upward

/-! ### removing edges (generic) -/

/-- Removing the edges selected by `R` (same nodes, same ranks) keeps the invariant. -/
theorem Inv.remove_edges {g g' : Dag N E} (h : g.Inv) (R : Nat → Nat → Prop)
    (hids : g'.ids = g.ids) (hnext : g'.next = g.next) (hlast : g'.last = g.last)
    (hranks : g'.ranks = g.ranks)
    (htopo : ∀ x, g'.topoOf x = g.topoOf x)
    (hchn : ∀ x, (g'.childrenOf x).Nodup) (hpan : ∀ x, (g'.parentsOf x).Nodup)
    (hch : ∀ x c, c ∈ g'.childrenOf x ↔ c ∈ g.childrenOf x ∧ ¬ R x c)
    (hpa : ∀ x p, p ∈ g'.parentsOf x ↔ p ∈ g.parentsOf x ∧ ¬ R p x)
    (hkeys : (akeys g'.edata).Nodup)
    (hed : ∀ s d, (aget g'.edata (s, d)).isSome = true ↔
      (aget g.edata (s, d)).isSome = true ∧ ¬ R s d) : g'.Inv := by
  have hlen : g'.nodes.length = g.nodes.length := by
    rw [← length_ids, ← length_ids, hids]
  have hcn : ∀ x, g'.containsNode x = g.containsNode x := by
    intro x
    rw [Bool.eq_iff_iff, containsNode_iff, containsNode_iff, hids]
  refine ⟨⟨?_, ?_, ?_, ?_, hchn, hpan, hkeys, ?_, ?_, ?_⟩, ?_⟩
  · rw [hids]; exact h.ids_nodup
  · rw [hids, hnext]; exact h.ids_lt
  · rw [hlen, hranks]; exact h.ranks_perm
  · rw [hlast, hlen]; exact h.last_eq
  · intro s d; rw [hch, hed, h.child_iff]
  · intro s d; rw [hpa, hed, h.parent_iff]
  · intro s d he; rw [hcn, hcn]; exact h.edge_live s d ((hed s d).mp he).1
  · intro s d he
    rw [htopo, htopo]
    exact h.upward s d ((hch s d).mp he).1

/-! ### removeEdge -/

/-- The graph produced by `removeEdge` when it does remove something. -/
def removeEdgeCore (g : Dag N E) (s t : Nat) : Dag N E :=
  { g with
    nodes := amodify (amodify g.nodes s (fun i => { i with children := i.children.erase t })) t
      (fun i => { i with parents := i.parents.erase s }),
    edata := aerase g.edata (s, t) }

theorem removeEdge_fst (g : Dag N E) (s t : Nat) :
    (g.removeEdge s t).1 = g.removeEdgeCore s t ∨ (g.removeEdge s t).1 = g := by
  unfold removeEdge
  split
  · split
    · left; rfl
    · right; rfl
  · right; rfl

theorem info_removeEdgeCore (g : Dag N E) (s t x : Nat) :
    (g.removeEdgeCore s t).info x = (g.info x).map (fun i => { i with
      children := if s = x then i.children.erase t else i.children,
      parents := if t = x then i.parents.erase s else i.parents }) := by
  simp only [info, removeEdgeCore]
  rw [aget_amodify, aget_amodify]
  by_cases h1 : t = x <;> by_cases h2 : s = x <;> cases aget g.nodes x <;> simp [h1, h2]

theorem inv_removeEdgeCore {g : Dag N E} (h : g.Inv) (s t : Nat) : (g.removeEdgeCore s t).Inv := by
  have hi := info_removeEdgeCore g s t
  have hch : ∀ x, (g.removeEdgeCore s t).childrenOf x =
      if s = x then (g.childrenOf x).erase t else g.childrenOf x := by
    intro x; simp only [childrenOf, hi]
    by_cases h2 : s = x <;> cases hx : g.info x <;> simp [h2]
  have hpa : ∀ x, (g.removeEdgeCore s t).parentsOf x =
      if t = x then (g.parentsOf x).erase s else g.parentsOf x := by
    intro x; simp only [parentsOf, hi]
    by_cases h2 : t = x <;> cases hx : g.info x <;> simp [h2]
  apply h.remove_edges (fun a b => a = s ∧ b = t)
  · simp [ids_eq_akeys, removeEdgeCore]
  · rfl
  · rfl
  · show List.map (fun kv => kv.2.topo) (amodify (amodify g.nodes s _) t _) =
      List.map (fun kv => kv.2.topo) g.nodes
    rw [topo_amodify, topo_amodify] <;> intro i <;> rfl
  · intro x
    simp only [topoOf, hi]
    cases hx : g.info x <;> simp
  · intro x; rw [hch]; split
    · exact (h.children_nodup x).erase t
    · exact h.children_nodup x
  · intro x; rw [hpa]; split
    · exact (h.parents_nodup x).erase s
    · exact h.parents_nodup x
  · intro x c; rw [hch]; split
    · rename_i hsx; subst hsx
      rw [(h.children_nodup s).mem_erase_iff]
      constructor
      · rintro ⟨h1, h2⟩; exact ⟨h2, fun hh => h1 hh.2⟩
      · rintro ⟨h1, h2⟩; exact ⟨fun hh => h2 ⟨rfl, hh⟩, h1⟩
    · rename_i hsx
      constructor
      · intro hc; exact ⟨hc, fun hh => hsx hh.1.symm⟩
      · exact fun hc => hc.1
  · intro x p; rw [hpa]; split
    · rename_i htx; subst htx
      rw [(h.parents_nodup t).mem_erase_iff]
      constructor
      · rintro ⟨h1, h2⟩; exact ⟨h2, fun hh => h1 hh.1⟩
      · rintro ⟨h1, h2⟩; exact ⟨fun hh => h2 ⟨hh, rfl⟩, h1⟩
    · rename_i htx
      constructor
      · intro hc; exact ⟨hc, fun hh => htx hh.2.symm⟩
      · exact fun hc => hc.1
  · exact akeys_aerase_nodup _ _ h.keys_nodup
  · intro a b
    show (aget (aerase g.edata (s, t)) (a, b)).isSome = true ↔ _
    rw [aget_aerase _ h.keys_nodup]
    by_cases hab : (s, t) = (a, b)
    · simp only [hab, if_true]
      simp only [Prod.mk.injEq] at hab
      simp [hab.1.symm, hab.2.symm]
    · simp only [hab, if_false]
      simp only [Prod.mk.injEq] at hab
      constructor
      · intro hh; exact ⟨hh, fun hc => hab ⟨hc.1.symm, hc.2.symm⟩⟩
      · exact fun hh => hh.1

theorem inv_removeEdge {g : Dag N E} (h : g.Inv) (s t : Nat) : (g.removeEdge s t).1.Inv := by
  rcases removeEdge_fst g s t with h' | h' <;> rw [h']
  · exact inv_removeEdgeCore h s t
  · exact h

/-! ### removeOutgoingEdgesOfNode -/

/-- The graph produced by `removeOutgoingEdgesOfNode` when it does remove something. -/
def removeOutgoingCore (g : Dag N E) (s : Nat) : Dag N E :=
  { g with
    nodes := (g.childrenOf s).foldl
      (fun ns c => amodify ns c (fun ci => { ci with parents := ci.parents.erase s }))
      (amodify g.nodes s (fun i => { i with children := [] })),
    edata := (g.childrenOf s).foldl (fun ed c => aerase ed (s, c)) g.edata }

theorem removeOutgoing_fst (g : Dag N E) (s : Nat) :
    (g.removeOutgoingEdgesOfNode s).1 = g.removeOutgoingCore s ∨
      (g.removeOutgoingEdgesOfNode s).1 = g := by
  unfold removeOutgoingEdgesOfNode
  split
  · right; rfl
  · rename_i si hsi
    split
    · right; rfl
    · left
      have : g.childrenOf s = si.children := by simp [childrenOf, hsi]
      simp [removeOutgoingCore, this]

theorem info_removeOutgoingCore (g : Dag N E) (h : g.WF) (s x : Nat) :
    (g.removeOutgoingCore s).info x = (g.info x).map (fun i => { i with
      children := if s = x then [] else i.children,
      parents := if x ∈ g.childrenOf s then i.parents.erase s else i.parents }) := by
  simp only [info, removeOutgoingCore]
  rw [aget_foldl_amodify _ (h.children_nodup s), aget_amodify]
  by_cases h2 : s = x
  · subst h2
    by_cases h1 : s ∈ g.childrenOf s <;> cases aget g.nodes s <;> simp [h1]
  · by_cases h1 : x ∈ g.childrenOf s <;> cases aget g.nodes x <;> simp [h1, h2]

theorem inv_removeOutgoingCore {g : Dag N E} (h : g.Inv) (s : Nat) : (g.removeOutgoingCore s).Inv := by
  have hi := info_removeOutgoingCore g h.toWF s
  have hch : ∀ x, (g.removeOutgoingCore s).childrenOf x =
      if s = x then [] else g.childrenOf x := by
    intro x; simp only [childrenOf, hi]
    by_cases h2 : s = x <;> cases hx : g.info x <;> simp [h2]
  have hpa : ∀ x, (g.removeOutgoingCore s).parentsOf x =
      if x ∈ g.childrenOf s then (g.parentsOf x).erase s else g.parentsOf x := by
    intro x; simp only [parentsOf, hi]
    by_cases h2 : x ∈ g.childrenOf s <;> cases hx : g.info x <;> simp [h2]
  apply h.remove_edges (fun a _ => a = s)
  · simp [ids_eq_akeys, removeOutgoingCore, akeys_foldl_amodify]
  · rfl
  · rfl
  · show List.map (fun kv => kv.2.topo) (List.foldl _ (amodify g.nodes s _) _) =
      List.map (fun kv => kv.2.topo) g.nodes
    rw [ranks_foldl_amodify, topo_amodify] <;> intro i <;> rfl
  · intro x
    simp only [topoOf, hi]
    cases hx : g.info x <;> simp
  · intro x; rw [hch]; split
    · simp
    · exact h.children_nodup x
  · intro x; rw [hpa]; split
    · exact (h.parents_nodup x).erase s
    · exact h.parents_nodup x
  · intro x c; rw [hch]; split
    · rename_i hsx; simp [hsx]
    · rename_i hsx
      constructor
      · intro hc; exact ⟨hc, fun hh => hsx hh.symm⟩
      · exact fun hc => hc.1
  · intro x p; rw [hpa]; split
    · rw [(h.parents_nodup x).mem_erase_iff]
      exact ⟨fun hh => ⟨hh.2, hh.1⟩, fun hh => ⟨hh.2, hh.1⟩⟩
    · rename_i hx
      constructor
      · intro hp
        refine ⟨hp, ?_⟩
        rintro rfl
        exact hx ((h.child_iff_parent _ _).mpr hp)
      · exact fun hh => hh.1
  · exact akeys_foldl_aerase_nodup _ _ _ h.keys_nodup
  · intro a b
    show (aget (List.foldl (fun ed c => aerase ed (s, c)) g.edata (g.childrenOf s)) (a, b)).isSome
      = true ↔ _
    rw [aget_foldl_aerase _ (fun c => (s, c)) _ h.keys_nodup]
    by_cases has : a = s
    · subst has
      by_cases hb : b ∈ g.childrenOf a
      · simp [hb]
      · have : ¬ (aget g.edata (a, b)).isSome = true := fun hh => hb ((h.child_iff a b).mpr hh)
        simp [hb, this]
    · have : (a, b) ∉ (g.childrenOf s).map (fun c => (s, c)) := by
        simp; intro _ hh; exact absurd hh.symm has
      simp [this, has]

theorem inv_removeOutgoing {g : Dag N E} (h : g.Inv) (s : Nat) :
    (g.removeOutgoingEdgesOfNode s).1.Inv := by
  rcases removeOutgoing_fst g s with h' | h' <;> rw [h']
  · exact inv_removeOutgoingCore h s
  · exact h

end Dag
end PieModel
