/-
Vocabulary for stating graph properties: the edge relation read off the adjacency lists, and
reachability (transitive closure, at least one step).
-/
import PieModel.Graph.Model

namespace PieModel
namespace Dag
variable {N E : Type}

/-- There is an edge `s → d` (read off the `children` list of `s`). -/
def HasEdge (g : Dag N E) (s d : Nat) : Prop := d ∈ g.childrenOf s

/-- `d` is reachable from `s` by at least one edge. -/
inductive Reach (g : Dag N E) : Nat → Nat → Prop
  | edge {s d : Nat} : g.HasEdge s d → Reach g s d
  | step {s m d : Nat} : g.HasEdge s m → Reach g m d → Reach g s d

/-- The ids of the live nodes, in storage order. -/
def ids (g : Dag N E) : List Nat := g.nodes.map (·.1)

/-- The ranks of the live nodes, in storage order. -/
def ranks (g : Dag N E) : List Nat := g.nodes.map (·.2.topo)

/-- The mutating operations of the public API (the quantifier of C10/C11). -/
inductive GOp (N E : Type)
  | addNode (d : N)
  | addEdge (s t : Nat) (d : E)
  | removeEdge (s t : Nat)
  | removeOutgoing (s : Nat)
  | removeNode (n : Nat)
  | setNodeData (n : Nat) (d : N)
  | setEdgeData (s t : Nat) (d : E)

def step (g : Dag N E) : GOp N E → Dag N E
  | .addNode d => (g.addNode d).1
  | .addEdge s t d => (g.addEdge s t d).1
  | .removeEdge s t => (g.removeEdge s t).1
  | .removeOutgoing s => (g.removeOutgoingEdgesOfNode s).1
  | .removeNode n => (g.removeNode n).1
  | .setNodeData n d => g.setNodeData n d
  | .setEdgeData s t d => g.setEdgeData s t d

/-- The graph reached from the empty graph by a sequence of operations. -/
def run (ops : List (GOp N E)) : Dag N E := ops.foldl step empty

end Dag
end PieModel
