import PieModel.Props.C06
#print axioms PieModel.C06_placeholder
