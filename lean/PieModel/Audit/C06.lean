import PieModel.Props.C06

#print axioms PieModel.C06_write_overlap_abort
#print axioms PieModel.C06_write_overlap_eq
#print axioms PieModel.C06_wrote_overlap_abort
#print axioms PieModel.C06_overlap_iff
#print axioms PieModel.C06_wrote_overlap_iff
#print axioms PieModel.C06_overlap_before_hidden
#print axioms PieModel.C06_no_writer_no_overlap
