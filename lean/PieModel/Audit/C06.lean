import PieModel.Props.C06
open PieModel
#print axioms C06_placeholder
