import PieModel.Props.C05
open PieModel
#print axioms C05_placeholder
