import PieModel.Props.C05

#print axioms PieModel.C05_read_hidden_abort
#print axioms PieModel.C05_read_hidden_iff
#print axioms PieModel.C05_read_abort_kinds
#print axioms PieModel.C05_read_own_write_aborts
#print axioms PieModel.C05_read_visible_ok
#print axioms PieModel.C05_write_hidden_abort
#print axioms PieModel.C05_wrote_hidden_abort
#print axioms PieModel.C05_write_abort_iff
#print axioms PieModel.C05_wrote_abort_iff
#print axioms PieModel.C05_self_read_write_aborts
#print axioms PieModel.C05_write_abort_kinds
#print axioms PieModel.C05_C06_abort_before_modification_corrected
#print axioms PieModel.C05_C06_abort_before_modification_live
