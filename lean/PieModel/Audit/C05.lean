import PieModel.Props.C05
import PieModel.Props.C05Inv
import PieModel.Props.C05Static
import PieModel.Props.C20Trans
import PieModel.Props.ScriptCov
#print axioms PieModel.C05_read_hidden_abort
#print axioms PieModel.C05_read_hidden_iff
#print axioms PieModel.C05_read_abort_kinds
#print axioms PieModel.C05_read_own_write_aborts
#print axioms PieModel.C05_read_visible_ok
#print axioms PieModel.C05_write_hidden_abort
#print axioms PieModel.C05_wrote_hidden_abort
#print axioms PieModel.C05_write_abort_iff
#print axioms PieModel.C05_wrote_abort_iff
#print axioms PieModel.C05_self_read_write_aborts
#print axioms PieModel.C05_write_abort_kinds
#print axioms PieModel.C05_C06_abort_before_modification_corrected
#print axioms PieModel.C05_C06_abort_before_modification_live
#print axioms PieModel.C05_no_hidden_at_creation_read
#print axioms PieModel.C05_no_hidden_at_creation_write
#print axioms PieModel.C05_no_hidden_at_creation_wrote
#print axioms PieModel.C05_no_hidden_at_creation
#print axioms PieModel.Store.NoHidden.empty
#print axioms PieModel.Store.NoHidden.of_same
#print axioms PieModel.Store.NoHidden.getOrCreateTaskNode
#print axioms PieModel.Store.NoHidden.getOrCreateResNode
#print axioms PieModel.Store.NoHidden.setTaskOutput
#print axioms PieModel.Store.NoHidden.setDependency
#print axioms PieModel.Store.tasksReadingFrom_addDependency_of_not_read
#print axioms PieModel.Store.NoHidden.addDependency
#print axioms PieModel.C05_doRead_noHidden
#print axioms PieModel.C05_doWrite_noHidden
#print axioms PieModel.C05_doWrote_noHidden
#print axioms PieModel.C05_reserveRequire_noHidden
#print axioms PieModel.C05_updateRequire_noHidden
#print axioms PieModel.C05_global_partial
#print axioms PieModel.c05Store_wf
#print axioms PieModel.c05Store_noHidden
#print axioms PieModel.C05_resetTask_breaks_noHidden
#print axioms PieModel.C05_history_breaks_noHidden
#print axioms PieModel.RolesInv.noHidden
#print axioms PieModel.C05_static_noHidden_history
#print axioms PieModel.C05_static_noHidden_of_rolesInv
#print axioms PieModel.C05_trans_noHidden_of_allSat
#print axioms PieModel.C05_trans_noHidden_history_partial
#print axioms PieModel.C05_trans_prefix_noHidden_history
#print axioms PieModel.C05_trans_noHidden_history_FALSE
#print axioms PieModel.C05_trans_scripts_noHidden_anySem
#print axioms PieModel.C05_trans_scripts_noHidden
#print axioms PieModel.C05_trans_scripts_noHidden_abort_free
