import PieModel.Props.C05
#print axioms PieModel.C05_placeholder
