import PieModel.Props.C10

#print axioms PieModel.C10_inv_step
#print axioms PieModel.C10_inv_reachable
#print axioms PieModel.C10_ranks_bijection
#print axioms PieModel.C10_edges_upward
#print axioms PieModel.C10_acyclic
#print axioms PieModel.C10_addEdge_cycle_iff
#print axioms PieModel.C10_addEdge_rejected_unchanged
#print axioms PieModel.C10_addEdge_missing_iff
