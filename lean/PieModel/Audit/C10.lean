import PieModel.Props.C10
open PieModel
#print axioms C10_placeholder
