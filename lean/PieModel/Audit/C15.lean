import PieModel.Props.C15
open PieModel
#print axioms C15_placeholder
