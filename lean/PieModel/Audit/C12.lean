import PieModel.Props.C12
open PieModel
#print axioms C12_placeholder
