import PieModel.Props.C02Once

#print axioms PieModel.C02_onceInv_newSession
#print axioms PieModel.C02_exec_once_step
#print axioms PieModel.C02_exec_once
#print axioms PieModel.C02_exec_once_sess
#print axioms PieModel.C02_exec_once_cleanBuild
#print axioms PieModel.C02_executed_consistent
#print axioms PieModel.C02_exec_once_history
