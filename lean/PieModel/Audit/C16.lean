import PieModel.Props.C16

#print axioms PieModel.C16_isortBy_perm
#print axioms PieModel.C16_isortBy_sorted
#print axioms PieModel.C16_isortBy_perm_of_injOn
#print axioms PieModel.C16_isortBy_set
#print axioms PieModel.C16_reorder_perm_invariant
#print axioms PieModel.C16_reorder_perm_invariant_live
#print axioms PieModel.C16_dfsBackward_visited_set
#print axioms PieModel.C16_addEdge_change_sets
#print axioms PieModel.C16_addEdge_reorder_order_independent
#print axioms PieModel.C16_addEdge_order_independent
#print axioms PieModel.C16_addEdge_order_independent_reachable
#print axioms PieModel.C16_queueSort_perm_invariant
#print axioms PieModel.C16_queuePop_perm_invariant
#print axioms PieModel.C16_queuePopLeastFrom_perm_invariant
#print axioms PieModel.C16_queueDrain_perm_invariant
#print axioms PieModel.C16_queueAdd_order
