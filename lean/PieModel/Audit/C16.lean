import PieModel.Props.C16
open PieModel
#print axioms C16_placeholder
