import PieModel.Props.C17
open PieModel
#print axioms C17_placeholder
