import PieModel.Props.C14
open PieModel
#print axioms C14_placeholder
