import PieModel.Props.C01Full
import PieModel.Props.C01FullCex

#print axioms PieModel.C01_den_deterministic
#print axioms PieModel.C01_overlay_unique
#print axioms PieModel.C01_faithfulO_faithfulW
#print axioms PieModel.C01_pieInv_empty
#print axioms PieModel.C01_faithfulW_preserved
#print axioms PieModel.C01_pieInv_session
#print axioms PieModel.C01_full_make
#print axioms PieModel.C01_full_session
#print axioms PieModel.C01_clean_build_den
#print axioms PieModel.C01_full_equals_clean_build
#print axioms PieModel.C01_full_history
#print axioms PieModel.C01_full_history_equals_clean_build
#print axioms PieModel.C02_minimal
#print axioms PieModel.C02_consistent_iff_demanded
#print axioms PieModel.C02_minimal_history
#print axioms PieModel.tdSoundW
#print axioms PieModel.replayO_walk
#print axioms PieModel.EvalW.det
#print axioms PieModel.fullBody_wf
#print axioms PieModel.fullPie_inv
#print axioms PieModel.fullPie_session
#print axioms PieModel.fullPie_clean
#print axioms PieModel.C01_full_faithfulW_insufficient
#print axioms PieModel.C02_minimal_needs_writeExact
#print axioms PieModel.C01_full_invariant_newSession
#print axioms PieModel.C01_full_invariant_resources
