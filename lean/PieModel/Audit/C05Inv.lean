import PieModel.Props.C05Inv

-- PieModel/Props/C05Inv.lean
#print axioms PieModel.C05_no_hidden_at_creation_read
#print axioms PieModel.C05_no_hidden_at_creation_write
#print axioms PieModel.C05_no_hidden_at_creation_wrote
#print axioms PieModel.C05_no_hidden_at_creation
#print axioms PieModel.Store.NoHidden.empty
#print axioms PieModel.Store.NoHidden.of_same
#print axioms PieModel.Store.NoHidden.getOrCreateTaskNode
#print axioms PieModel.Store.NoHidden.getOrCreateResNode
#print axioms PieModel.Store.NoHidden.setTaskOutput
#print axioms PieModel.Store.NoHidden.setDependency
#print axioms PieModel.Store.tasksReadingFrom_addDependency_of_not_read
#print axioms PieModel.Store.NoHidden.addDependency
#print axioms PieModel.C05_doRead_noHidden
#print axioms PieModel.C05_doWrite_noHidden
#print axioms PieModel.C05_doWrote_noHidden
#print axioms PieModel.C05_reserveRequire_noHidden
#print axioms PieModel.C05_updateRequire_noHidden
#print axioms PieModel.C05_global_partial
#print axioms PieModel.c05Store_wf
#print axioms PieModel.c05Store_noHidden
#print axioms PieModel.C05_resetTask_breaks_noHidden
#print axioms PieModel.C05_history_breaks_noHidden
