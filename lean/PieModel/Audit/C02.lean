import PieModel.Props.C02
open PieModel
#print axioms C02_placeholder
