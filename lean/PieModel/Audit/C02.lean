import PieModel.Props.C02
#print axioms PieModel.C02_placeholder
