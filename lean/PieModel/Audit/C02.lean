import PieModel.Props.C02
import PieModel.Props.C02Once
import PieModel.Props.C01Full
import PieModel.Props.C01FullCex
import PieModel.Props.C02IdemW
import PieModel.Props.C04Just
import PieModel.Props.C01FullMixed
import PieModel.Props.C01Trans
import PieModel.Props.ScriptCov2
#print axioms PieModel.C02_consistent_memo
#print axioms PieModel.C02_consistent_memo_sound
#print axioms PieModel.C02_settled
#print axioms PieModel.C02_idempotent
#print axioms PieModel.C02_idempotent_fuel
#print axioms PieModel.C02_idempotent_any
#print axioms PieModel.noExec
#print axioms PieModel.sessionRequire_fuel
#print axioms PieModel.C02_onceInv_newSession
#print axioms PieModel.C02_exec_once_step
#print axioms PieModel.C02_exec_once
#print axioms PieModel.C02_exec_once_sess
#print axioms PieModel.C02_exec_once_cleanBuild
#print axioms PieModel.C02_executed_consistent
#print axioms PieModel.C02_exec_once_history
#print axioms PieModel.C02_minimal
#print axioms PieModel.C02_consistent_iff_demanded
#print axioms PieModel.C02_minimal_history
#print axioms PieModel.C02_minimal_needs_writeExact
#print axioms PieModel.C02_settled_writes
#print axioms PieModel.C02_idempotent_writes
#print axioms PieModel.C02_idempotent_writes_fuel
#print axioms PieModel.C02_idempotent_writes_any
#print axioms PieModel.C02_idempotent_writes_any_fuel
#print axioms PieModel.C02_idempotent_writes_history
#print axioms PieModel.C02_same_session_writes
#print axioms PieModel.C02_consistent_memo_writes
#print axioms PieModel.C02_require_memo_writes
#print axioms PieModel.tdClosedW
#print axioms PieModel.requireAll_settled
#print axioms PieModel.requireAll_quiet
#print axioms PieModel.requireAll_fuel
#print axioms PieModel.fullBody_respects_refl
#print axioms PieModel.fullBody_writeExact_refl
#print axioms PieModel.idemPie_inv
#print axioms PieModel.idemPie_session
#print axioms PieModel.C02_exec_justified_trace
#print axioms PieModel.C02_exec_justified_trace_all
#print axioms PieModel.C02_output_trace
#print axioms PieModel.C02_consistent_not_executed_trace
#print axioms PieModel.C02_minimal_mixed_history
#print axioms PieModel.C02_trans_minimal
#print axioms PieModel.C02_trans_minimal_history
#print axioms PieModel.C02_trans_scripts_minimal
