import PieModel.Props.C02

#print axioms PieModel.C02_consistent_memo
#print axioms PieModel.C02_consistent_memo_sound
#print axioms PieModel.C02_settled
#print axioms PieModel.C02_idempotent
#print axioms PieModel.C02_idempotent_fuel
#print axioms PieModel.C02_idempotent_any
#print axioms PieModel.noExec
#print axioms PieModel.sessionRequire_fuel
