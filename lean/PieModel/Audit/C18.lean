import PieModel.Props.C18
open PieModel
#print axioms C18_placeholder
