import PieModel.Props.C18

#print axioms PieModel.C18_td_error_reported_and_inconsistent
#print axioms PieModel.C18_bu_error_scheduled
#print axioms PieModel.C18_error_step_is_ok
#print axioms PieModel.C18_checker_error_never_aborts
#print axioms PieModel.C18_reuse_requires_ok_head
#print axioms PieModel.C18_reuse_implies_every_check_ok
#print axioms PieModel.C18_checkDeps_error
#print axioms PieModel.C18_exec_extends
#print axioms PieModel.C18_no_reuse_on_error
#print axioms PieModel.C18_errors_delta_doRead
#print axioms PieModel.C18_errors_delta_doWrite
#print axioms PieModel.C18_errors_delta_doWrote
#print axioms PieModel.C18_errors_delta_reserveRequire
#print axioms PieModel.C18_errors_delta_updateRequire
#print axioms PieModel.C18_errors_delta_topDown
#print axioms PieModel.C18_errors_delta_scheduling
#print axioms PieModel.C18_errors_delta_bottomUp
#print axioms PieModel.C18_errors_delta_session
#print axioms PieModel.C18_errInv_of_ext
#print axioms PieModel.C18_errInv_preserved
#print axioms PieModel.C18_errors_delta_op
#print axioms PieModel.C18_errors_exact
#print axioms PieModel.C18_error_in_trace_is_reported
