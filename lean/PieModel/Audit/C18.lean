import PieModel.Props.C18
#print axioms PieModel.C18_placeholder
