import PieModel.Props.ScriptCov

#print axioms PieModel.covRolesOf_eq
#print axioms PieModel.covRolesOf_gen_eq
#print axioms PieModel.covRolesOf_cov_spec
#print axioms PieModel.Script.covTest_sound
#print axioms PieModel.Table.prefixCov_always
#print axioms PieModel.Table.covB_sound
#print axioms PieModel.C20_trans_scripts_history_inv_anySem
#print axioms PieModel.C20_trans_scripts_first_abort_anySem
#print axioms PieModel.C20_trans_scripts_prefix_no_abort_anySem
#print axioms PieModel.C05_trans_scripts_noHidden_anySem
#print axioms PieModel.C20_trans_scripts_history_inv
#print axioms PieModel.C20_trans_scripts_first_abort
#print axioms PieModel.C20_trans_scripts_prefix_no_abort
#print axioms PieModel.C05_trans_scripts_noHidden
#print axioms PieModel.C05_trans_scripts_noHidden_abort_free
#print axioms PieModel.scovTbl_covB
#print axioms PieModel.scovHist_aborts
#print axioms PieModel.scovHist_noHidden
#print axioms PieModel.scovPanicTbl_covB
#print axioms PieModel.scovPanicHist_aborts
#print axioms PieModel.scovLateTbl_hidden
#print axioms PieModel.scovEarlyPanicTbl_hidden
