import PieModel.Props.C20

#print axioms PieModel.C20_rolesInv_empty
#print axioms PieModel.C20_rolesInv_wf
#print axioms PieModel.C20_reach_rank
#print axioms PieModel.C20_store_ops
#print axioms PieModel.C20_read_ok
#print axioms PieModel.C20_write_ok
#print axioms PieModel.C20_reserve_ok
#print axioms PieModel.C20_historyAborts_spec
#print axioms PieModel.C20_static_topdown
#print axioms PieModel.C20_static_no_abort_topdown
#print axioms PieModel.C20_static_sessionRequire
#print axioms PieModel.C20_static_scheduling
#print axioms PieModel.C20_static_bottomup
#print axioms PieModel.C20_static_no_abort_bottomup
#print axioms PieModel.C20_static_runStep
#print axioms PieModel.C20_static_history_inv
#print axioms PieModel.C20_static_no_abort
#print axioms PieModel.C20_static_no_abort_next
#print axioms PieModel.C20_static_clean_agrees
#print axioms PieModel.c20Body_wf
#print axioms PieModel.tdRoles
#print axioms PieModel.buRoles
