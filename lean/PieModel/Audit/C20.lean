import PieModel.Props.C20
open PieModel
#print axioms C20_placeholder
