import PieModel.Props.C20
#print axioms PieModel.C20_placeholder
