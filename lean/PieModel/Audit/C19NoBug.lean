import PieModel.Props.C19NoBug

#print axioms PieModel.C19_noReservedDone_empty
#print axioms PieModel.C19_newSession_ok
#print axioms PieModel.C19_no_bug_sessionRequire
#print axioms PieModel.C19_no_bug_topdown
#print axioms PieModel.C19_no_bug_requireAll
#print axioms PieModel.C19_no_bug_functions
#print axioms PieModel.C19_invariant_after_abort
#print axioms PieModel.C19_sessionRequire_ok
#print axioms PieModel.C19_requireAll_ok
#print axioms PieModel.C19_abort_topdown_noReservedDone
#print axioms PieModel.C19_topDownOnly_iff
#print axioms PieModel.C19_runStep_noReservedDone
#print axioms PieModel.C19_history_noReservedDone
#print axioms PieModel.C19_no_bug_history
#print axioms PieModel.buStack
#print axioms PieModel.C19_bottomup_functions_noReservedDone
#print axioms PieModel.C19_bottomUpBuild_invariant
#print axioms PieModel.C19_runStep_noReservedDone_all
#print axioms PieModel.C19_history_noReservedDone_all
#print axioms PieModel.C19_no_bug_history_all
