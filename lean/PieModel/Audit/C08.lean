import PieModel.Props.C08
#print axioms PieModel.C08_placeholder
