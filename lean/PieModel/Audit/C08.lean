import PieModel.Props.C08
open PieModel
#print axioms C08_placeholder
