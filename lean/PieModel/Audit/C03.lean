import PieModel.Props.C03
#print axioms PieModel.C03_placeholder
