import PieModel.Props.C03

#print axioms PieModel.C03_schedule_state
#print axioms PieModel.C03_schedule_store
#print axioms PieModel.C03_schedule_establishes_I1
#print axioms PieModel.C03_invariant_start
#print axioms PieModel.C03_invariant_preserved
#print axioms PieModel.C03_invariant_executeScheduled
#print axioms PieModel.C03_closure
#print axioms PieModel.C03_sources
#print axioms PieModel.C03_chain
#print axioms PieModel.C03_two_rounds
#print axioms PieModel.C03_shallowReq_after_topDown
#print axioms PieModel.C03_shallowReq_after_full_topDown
#print axioms PieModel.C03_noOrphan_empty
#print axioms PieModel.C03_noOrphan_after_topDown
#print axioms PieModel.c03Pie1_hyps
#print axioms PieModel.c03Run2_ok
