import PieModel.Props.C03
open PieModel
#print axioms C03_placeholder
