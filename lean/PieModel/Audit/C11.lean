import PieModel.Props.C11

#print axioms PieModel.C11_inv_reachable
#print axioms PieModel.C11_containsEdge_iff
#print axioms PieModel.C11_getEdgeData_isSome_iff
#print axioms PieModel.C11_containsTransitiveEdge_iff
#print axioms PieModel.C11_adjacency_symmetric
#print axioms PieModel.C11_adjacency_nodup
#print axioms PieModel.C11_outgoing_complete
#print axioms PieModel.C11_incoming_complete
#print axioms PieModel.C11_descendantsUnsorted_spec
#print axioms PieModel.C11_descendants_spec
#print axioms PieModel.C11_topoCmp_eq
#print axioms PieModel.C11_addNode_exact
#print axioms PieModel.C11_addEdge_verdict
#print axioms PieModel.C11_addEdge_new
#print axioms PieModel.C11_addEdge_existing_noop
#print axioms PieModel.C11_removeEdge_exact
#print axioms PieModel.C11_removeOutgoing_exact
#print axioms PieModel.C11_removeNode_exact
#print axioms PieModel.C11_removeNode_rank_order
#print axioms PieModel.C11_setNodeData_exact
#print axioms PieModel.C11_setEdgeData_exact
#print axioms PieModel.C11_refines_spec_step
#print axioms PieModel.C11_refines_spec
#print axioms PieModel.C11_incoming_matches_outgoing
