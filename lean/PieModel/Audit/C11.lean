import PieModel.Props.C11
open PieModel
#print axioms C11_placeholder
