import PieModel.Props.C11
#print axioms PieModel.C11_placeholder
