import PieModel.Props.C04
import PieModel.Props.C04Once
import PieModel.Props.C04Just
import PieModel.Props.C03W
#print axioms PieModel.C04_queueAdd_mem
#print axioms PieModel.C04_queueAdd_nodup
#print axioms PieModel.C04_queuePop_spec
#print axioms PieModel.C04_queuePop_sorted
#print axioms PieModel.C04_queuePop_none_iff
#print axioms PieModel.C04_pop_no_queued_dependency
#print axioms PieModel.C04_pop_rank_strict_max
#print axioms PieModel.C04_drain_order
#print axioms PieModel.C04_swapRemove_perm
#print axioms PieModel.C04_popLeastFrom_spec
#print axioms PieModel.C04_popLeastFrom_none_iff
#print axioms PieModel.C04_popLeastFrom_no_queued_dependency_in_cone
#print axioms PieModel.C04_popLeastFrom_no_queued_dependency
#print axioms PieModel.C04_popLeastFrom_in_cone
#print axioms PieModel.C04_bu_once
#print axioms PieModel.C04_bu_executed_consistent
#print axioms PieModel.C04_exec_justified
#print axioms PieModel.C04_exec_justified_update
#print axioms PieModel.C04_exec_justified_scheduled
#print axioms PieModel.C04_output_trace
#print axioms PieModel.C04_output_trace_scheduled
#print axioms PieModel.C04_schedule_justified
#print axioms PieModel.C04_schedule_justified_update
#print axioms PieModel.C04_schedule_justified_scheduled
#print axioms PieModel.C04_consistent_not_executed
#print axioms PieModel.C04_consistent_not_executed_scheduled
#print axioms PieModel.C04_noOutputAt_iff
#print axioms PieModel.C04_bu_once_writes
#print axioms PieModel.C04_bu_executed_consistent_writes
