import PieModel.Props.C04
open PieModel
#print axioms C04_placeholder
