import PieModel.Props.C13
#print axioms PieModel.C13_placeholder
