import PieModel.Props.C13
open PieModel
#print axioms C13_placeholder
