import PieModel.Props.C07
open PieModel
#print axioms C07_placeholder
