import PieModel.Props.C07
#print axioms PieModel.C07_placeholder
