import PieModel.Props.C07

#print axioms PieModel.tdStack
#print axioms PieModel.Frames.stackOK
#print axioms PieModel.C07_frames_stackOK
#print axioms PieModel.C07_frames_nil_iff
#print axioms PieModel.C07_stack_invariant
#print axioms PieModel.C07_stack_bounded
#print axioms PieModel.C07_require_on_stack_aborts
#print axioms PieModel.C07_cycle_abort_clean
#print axioms PieModel.C07_cycle_abort_clean_store
#print axioms PieModel.C07_reserve_abort_is_cyclic
#print axioms PieModel.C07_no_value_on_cycle
#print axioms PieModel.C07_no_reentry_require
#print axioms PieModel.C07_no_reentry_make
#print axioms PieModel.C07_no_reentry_check
#print axioms PieModel.C07_no_reentry_checkDeps
#print axioms PieModel.C07_no_reentry_run
#print axioms PieModel.C07_example_sessOK
#print axioms PieModel.C07_example_stackOK
#print axioms PieModel.C07_stackOK_preserved_make
#print axioms PieModel.C07_stackOK_preserved_check
#print axioms PieModel.C07_stackOK_preserved_checkDeps
#print axioms PieModel.C07_stackOK_preserved_run
#print axioms PieModel.C07_stackOK_preserved_require
