import PieModel.Props.C04Once

#print axioms PieModel.C04_bu_once
#print axioms PieModel.C04_bu_executed_consistent
