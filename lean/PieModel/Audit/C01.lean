import PieModel.Props.C01
open PieModel
#print axioms C01_placeholder
