import PieModel.Props.C01

#print axioms PieModel.C01_eval_deterministic
#print axioms PieModel.C01_faithful_empty
#print axioms PieModel.C01_setContent_store
#print axioms PieModel.C01_invariant_newSession
#print axioms PieModel.C01_faithful_preserved
#print axioms PieModel.C01_faithful_session
#print axioms PieModel.C01_check_sound
#print axioms PieModel.C01_exec_sound
#print axioms PieModel.C01_session_sound
#print axioms PieModel.C01_requireAll_sound
#print axioms PieModel.C01_sources
#print axioms PieModel.C01_history_faithful
#print axioms PieModel.C01_clean_build_eval
#print axioms PieModel.C01_equals_clean_build
#print axioms PieModel.C01_no_spurious_abort_kinds
#print axioms PieModel.C01_no_spurious_abort_kinds_all
#print axioms PieModel.C01_history_agrees
#print axioms PieModel.tdSound
#print axioms PieModel.replay_eval
#print axioms PieModel.tdNHO
