import PieModel.Props.C01
#print axioms PieModel.C01_placeholder
