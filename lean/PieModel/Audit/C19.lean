import PieModel.Props.C19
open PieModel
#print axioms C19_placeholder
