import PieModel.Props.C19
#print axioms PieModel.C19_placeholder
