import PieModel.Props.C19

#print axioms PieModel.C19_store_wf_empty
#print axioms PieModel.C19_newSession_wf
#print axioms PieModel.C19_toPie_wf
#print axioms PieModel.C19_setContent_store
#print axioms PieModel.C19_store_ops_wf
#print axioms PieModel.C19_task_to_res_never_cyclic
#print axioms PieModel.C19_primitives_wf
#print axioms PieModel.C19_reserveRequire_wf
#print axioms PieModel.C19_updateRequire_wf
#print axioms PieModel.C19_topdown_wf
#print axioms PieModel.C19_sessionRequire_wf
#print axioms PieModel.C19_requireAll_wf
#print axioms PieModel.C19_scheduling_wf
#print axioms PieModel.C19_bottomup_wf
#print axioms PieModel.C19_buExecuteScheduled_wf
#print axioms PieModel.C19_updateAffectedTasks_wf
#print axioms PieModel.C19_bottomUpBuild_wf
#print axioms PieModel.C19_tables_monotone
#print axioms PieModel.C19_abort_topdown_usable
#print axioms PieModel.C19_abort_bottomup_usable
#print axioms PieModel.C19_runStep_wf
#print axioms PieModel.C19_store_wf_history
#print axioms PieModel.C19_history_usable
#print axioms PieModel.C19_history_acyclic
