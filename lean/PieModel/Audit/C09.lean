import PieModel.Props.C09
open PieModel
#print axioms C09_placeholder
