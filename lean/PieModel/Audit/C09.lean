import PieModel.Props.C09
#print axioms PieModel.C09_placeholder
