/-
Utility definitions shared by all model files: association lists (finite maps with
deterministic order), insertion sort on keys.  Core Lean only (no Mathlib, no Std) so that the
driver can be linked as a `lean_exe` and every definition evaluates in the kernel
(structural recursion only).
-/
namespace PieModel

/-- Association-list lookup. -/
def aget {κ α : Type} [DecidableEq κ] : List (κ × α) → κ → Option α
  | [], _ => none
  | (k', v) :: rest, k => if k' = k then some v else aget rest k

/-- Replace the value of an existing key in place, or append a new binding at the end. -/
def aset {κ α : Type} [DecidableEq κ] : List (κ × α) → κ → α → List (κ × α)
  | [], k, v => [(k, v)]
  | (k', v') :: rest, k, v => if k' = k then (k, v) :: rest else (k', v') :: aset rest k v

/-- Remove a key (first binding; bindings are unique under the invariants). -/
def aerase {κ α : Type} [DecidableEq κ] : List (κ × α) → κ → List (κ × α)
  | [], _ => []
  | (k', v') :: rest, k => if k' = k then rest else (k', v') :: aerase rest k

/-- Apply `f` to the value of `k` if present. -/
def amodify {κ α : Type} [DecidableEq κ] : List (κ × α) → κ → (α → α) → List (κ × α)
  | [], _, _ => []
  | (k', v') :: rest, k, f => if k' = k then (k', f v') :: rest else (k', v') :: amodify rest k f

def akeys {κ α : Type} (m : List (κ × α)) : List κ := m.map (·.1)

/-- Insert into a list sorted by `key` (stable: after equal keys). -/
def insertBy {α : Type} (key : α → Nat) (x : α) : List α → List α
  | [] => [x]
  | y :: ys => if key x < key y then x :: y :: ys else y :: insertBy key x ys

/-- Insertion sort by a `Nat` key. With pairwise distinct keys the result does not depend on the
order of the input (`isortBy_perm_unique` in `Graph/Reorder.lean`). -/
def isortBy {α : Type} (key : α → Nat) : List α → List α
  | [] => []
  | x :: xs => insertBy key x (isortBy key xs)

end PieModel
