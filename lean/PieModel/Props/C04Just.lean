/-
Property C04, the "only if" clause, as a theorem about whole bottom-up builds (trace theorem):

  "A bottom-up build executes a task … only if one of its recorded dependencies is inconsistent
   with the reported changes or with the new output or writes of a task executed earlier in the
   same build, or if it is required for the first time. … a task whose dependencies all remain
   consistent is not executed."

For ALL programs `body`, ALL checker semantics `sem`, all fuel, whatever the result (`.ok` or
`.abort`), from every well-formed session state (`SessWF`: well-formed store, `cur` and the queued
nodes are task nodes — true of every state reachable by the model, `Props/C19.lean`):

* `C04_exec_justified` (+ `_update`, `_scheduled`): every `execute_start t` among the new events
  of the build is preceded by `schedule_task t` in the same build (or the node of `t` was in the
  start queue, for the versions that start from an arbitrary queue), or `t` had no stored output
  when the execution started (`NoOutputAt`: it is new, or a previous execution of it was aborted /
  is still in progress).
* `C04_schedule_justified`: every `schedule_task t` directly follows the end event of a failed
  check of a dependency of `t` (`SchedCause`), as `trySchedule`/`scheduleAfterExec` emit them;
  `Props/C09.lean` (`C09_trySchedule_spec`, `C09_scheduleAfterExec_schedules_iff`) says that these
  verdicts are those of the task's own checker on its own stamp.
* `C04_consistent_not_executed`: a task with stored output that is never scheduled in the build
  is not executed.
* `C02_exec_justified_trace` (+ `_all`), `C02_consistent_not_executed_trace`: the same for
  top-down sessions — every `execute_start t` directly follows the end event of a failed
  dependency check (`TdCause`), or `t` had no stored output.
* `C04_output_trace`, `C02_output_trace`: `NoOutputAt` speaks about the store — the stored output
  of every task after the build is the one computed from the start store and the new events
  (`outFold`); `C04_noOutputAt_iff` spells `NoOutputAt` out.

Definitions (`Build/Just/Defs.lean`): `Store.outOf`, `outFold`, `SchedCause`, `SchedOK`, `QJust`,
`ExecJust`, `NoOutputAt`, `TdCause` (`Build/Just/TopDown.lean`).  Proofs: `Build/Just/*.lean` (joint
inductions on fuel, `BuJust`, `TdJust`).
-/
import PieModel.Build.Just.BottomUp
import PieModel.Build.Just.TopDown
import PieModel.Props.C04Once
import PieModel.Props.C19
import PieModel.Build.Proofs.DecEq

namespace PieModel

variable {sem : Sem} {body : Nat → Prog}

/-- `NoOutputAt st0 pre t` (`Build/Just/Defs.lean`): task `t` has no stored output after the events
`pre`, starting from store `st0` — `outFold t (st0.outOf t) pre = none`, where `execute_start t`
forgets the output (`reset_task`), `execute_end t v` stores `v` and nothing else touches it
(`C04_output_trace`).  Spelled out: the last event of `pre` that concerns the output of `t` is
`execute_start t` (an execution of `t` was started and has not ended), or no event of `pre`
concerns it and `t` has no stored output in `st0` (`t` is new, or was left without output by an
aborted build). -/
theorem C04_noOutputAt_iff (st0 : Store) (pre : List Ev) (t : Nat) :
    NoOutputAt st0 pre t ↔
      (∃ a b, pre = a ++ .executeStart t :: b ∧ .executeStart t ∉ b ∧ ∀ v, .executeEnd t v ∉ b) ∨
      (st0.outOf t = none ∧ .executeStart t ∉ pre ∧ ∀ v, .executeEnd t v ∉ pre) :=
  noOutputAt_iff st0 pre t

/-! ### 1. every execution is justified -/

/-- **C04 (only if), whole build.**  In a bottom-up build from a well-formed session state, every
`execute_start t` among the new events is preceded by `schedule_task t` in the same build, or `t`
had no stored output when that execution started.  Whatever the result `r`. -/
theorem C04_exec_justified (fuel : Nat) {s : Sess} (hs : SessWF s) (changed : List Nat)
    {s' : Sess} {r : Res Unit} (hrun : bottomUpBuild sem body fuel s changed = (s', r))
    {new : List Ev} (hnew : s'.trace = s.trace ++ new)
    {pre post : List Ev} {t : Nat} (hsplit : new = pre ++ .executeStart t :: post) :
    .scheduleTask t ∈ pre ∨ NoOutputAt s.store pre t := by
  have j := ((bottomUpBuild_J sem body fuel hs changed).out hrun).facts (new := new) hnew
  rcases j.just pre t post hsplit with h | ⟨n, hn, _⟩ | h
  · exact .inl h
  · cases hn
  · exact .inr h

/-- The same for `update_affected_tasks` from an arbitrary queue: the third justification is that
the node of `t` was in the queue at the start. -/
theorem C04_exec_justified_update (fuel : Nat) {s : Sess} (hs : SessWF s)
    {s' : Sess} {r : Res Unit} (hrun : updateAffectedTasks sem body fuel s = (s', r))
    {new : List Ev} (hnew : s'.trace = s.trace ++ new)
    {pre post : List Ev} {t : Nat} (hsplit : new = pre ++ .executeStart t :: post) :
    .scheduleTask t ∈ pre ∨ (∃ n ∈ s.queue, s.store.taskOf n = some t) ∨
      NoOutputAt s.store pre t :=
  (((updateAffectedTasks_J sem body fuel hs).out hrun).facts hnew).just pre t post hsplit

/-- The same for `execute_scheduled` from an arbitrary queue. -/
theorem C04_exec_justified_scheduled (fuel : Nat) {s : Sess} (hs : SessWF s)
    {s' : Sess} {r : Res Unit} (hrun : buExecuteScheduled sem body fuel s = (s', r))
    {new : List Ev} (hnew : s'.trace = s.trace ++ new)
    {pre post : List Ev} {t : Nat} (hsplit : new = pre ++ .executeStart t :: post) :
    .scheduleTask t ∈ pre ∨ (∃ n ∈ s.queue, s.store.taskOf n = some t) ∨
      NoOutputAt s.store pre t :=
  (((buExecuteScheduled_J sem body fuel hs).out hrun).facts hnew).just pre t post hsplit

/-- `NoOutputAt` is about the store: after the build (completed or aborted) the stored output of
every task is the one computed from the start store and the new events. -/
theorem C04_output_trace (fuel : Nat) {s : Sess} (hs : SessWF s) (changed : List Nat)
    {s' : Sess} {r : Res Unit} (hrun : bottomUpBuild sem body fuel s changed = (s', r))
    {new : List Ev} (hnew : s'.trace = s.trace ++ new) (t : Nat) :
    s'.store.outOf t = outFold t (s.store.outOf t) new :=
  (((bottomUpBuild_J sem body fuel hs changed).out hrun).facts (new := new) hnew).out t

theorem C04_output_trace_scheduled (fuel : Nat) {s : Sess} (hs : SessWF s)
    {s' : Sess} {r : Res Unit} (hrun : buExecuteScheduled sem body fuel s = (s', r))
    {new : List Ev} (hnew : s'.trace = s.trace ++ new) (t : Nat) :
    s'.store.outOf t = outFold t (s.store.outOf t) new :=
  (((buExecuteScheduled_J sem body fuel hs).out hrun).facts hnew).out t

/-! ### 2. every scheduling is justified -/

/-- **C04, scheduling.**  Every `schedule_task t` among the new events of a bottom-up build is
immediately preceded by the end event of a failed check of a dependency of `t`:
`check_read_end t c stamp res` with `res ≠ ok true` (a resource dependency of `t` is inconsistent
or its checker failed) or `check_req_end t c stamp false` (the output checker of a require
dependency of `t` rejects the new output). -/
theorem C04_schedule_justified (fuel : Nat) {s : Sess} (hs : SessWF s) (changed : List Nat)
    {s' : Sess} {r : Res Unit} (hrun : bottomUpBuild sem body fuel s changed = (s', r))
    {new : List Ev} (hnew : s'.trace = s.trace ++ new)
    {pre post : List Ev} {t : Nat} (hsplit : new = pre ++ .scheduleTask t :: post) :
    ∃ pre' e, pre = pre' ++ [e] ∧
      ((∃ c stamp res, e = .checkReadEnd t c stamp res ∧ res ≠ .ok true) ∨
       (∃ c stamp, e = .checkReqEnd t c stamp false)) :=
  (((bottomUpBuild_J sem body fuel hs changed).out hrun).facts (new := new) hnew).sched
    pre t post hsplit

theorem C04_schedule_justified_update (fuel : Nat) {s : Sess} (hs : SessWF s)
    {s' : Sess} {r : Res Unit} (hrun : updateAffectedTasks sem body fuel s = (s', r))
    {new : List Ev} (hnew : s'.trace = s.trace ++ new) : SchedOK new :=
  (((updateAffectedTasks_J sem body fuel hs).out hrun).facts hnew).sched

theorem C04_schedule_justified_scheduled (fuel : Nat) {s : Sess} (hs : SessWF s)
    {s' : Sess} {r : Res Unit} (hrun : buExecuteScheduled sem body fuel s = (s', r))
    {new : List Ev} (hnew : s'.trace = s.trace ++ new) : SchedOK new :=
  (((buExecuteScheduled_J sem body fuel hs).out hrun).facts hnew).sched

/-! ### 3. a task that is not scheduled is not executed -/

/-- **C04, consistent tasks.**  A task that has a stored output at the start of a bottom-up build
and is not scheduled during the build (by `C04_schedule_justified`/C09: none of its dependency
checks fails) is not executed in it. -/
theorem C04_consistent_not_executed (fuel : Nat) {s : Sess} (hs : SessWF s) (changed : List Nat)
    {s' : Sess} {r : Res Unit} (hrun : bottomUpBuild sem body fuel s changed = (s', r))
    {new : List Ev} (hnew : s'.trace = s.trace ++ new) {t : Nat}
    (hout : (s.store.outOf t).isSome = true) (hns : .scheduleTask t ∉ new) :
    .executeStart t ∉ new := by
  intro hm
  obtain ⟨pre, post, hsplit, hfirst⟩ := List.first_occurrence hm
  rcases C04_exec_justified fuel hs changed hrun hnew hsplit with h | h
  · exact hns (by rw [hsplit]; exact List.mem_append_left _ h)
  · have := outFold_isSome t hout hfirst
    unfold NoOutputAt at h
    rw [h] at this; cases this

/-- The same from an arbitrary queue that does not contain the node of `t`. -/
theorem C04_consistent_not_executed_scheduled (fuel : Nat) {s : Sess} (hs : SessWF s)
    {s' : Sess} {r : Res Unit} (hrun : buExecuteScheduled sem body fuel s = (s', r))
    {new : List Ev} (hnew : s'.trace = s.trace ++ new) {t : Nat}
    (hout : (s.store.outOf t).isSome = true) (hq : ∀ n ∈ s.queue, s.store.taskOf n ≠ some t)
    (hns : .scheduleTask t ∉ new) : .executeStart t ∉ new := by
  intro hm
  obtain ⟨pre, post, hsplit, hfirst⟩ := List.first_occurrence hm
  rcases C04_exec_justified_scheduled fuel hs hrun hnew hsplit with h | ⟨n, hn, ht⟩ | h
  · exact hns (by rw [hsplit]; exact List.mem_append_left _ h)
  · exact hq n hn ht
  · have := outFold_isSome t hout hfirst
    unfold NoOutputAt at h
    rw [h] at this; cases this

/-! ### 4. top-down sessions -/

/-- **C02/C09 (only if), whole session.**  In a top-down session (`Session::require`) from a
well-formed state, every `execute_start t` among the new events directly follows the end event of
a failed dependency check — `check_task_end t' c stamp false` (the output checker of a require
dependency rejects the output of `t'`) or `check_resource_end r c stamp res` with `res ≠ ok true`
(a resource dependency is inconsistent or its checker failed) — or `t` had no stored output when
the execution started.  Whatever the result.  (`check_task` runs over the recorded dependencies of
the task it checks, `Props/C09.lean`: `C09_inconsistent_dep_executes`; so the failed check is one
of a dependency of `t`.) -/
theorem C02_exec_justified_trace (fuel : Nat) {s : Sess} (hs : SessWF s) (root : Nat)
    {s' : Sess} {r : Res Int} (hrun : sessionRequire sem body fuel s root = (s', r))
    {new : List Ev} (hnew : s'.trace = s.trace ++ new)
    {pre post : List Ev} {t : Nat} (hsplit : new = pre ++ .executeStart t :: post) :
    (∃ pre' e, pre = pre' ++ [e] ∧
      ((∃ t' c stamp, e = .checkTaskEnd t' c stamp false) ∨
       (∃ r c stamp res, e = .checkResEnd r c stamp res ∧ res ≠ .ok true))) ∨
    NoOutputAt s.store pre t :=
  (((sessionRequire_TJ sem body fuel hs root).out hrun).facts hnew).just pre t post hsplit

/-- The same for several roots required one after the other (`requireAll`). -/
theorem C02_exec_justified_trace_all (fuel : Nat) {s : Sess} (hs : SessWF s) (roots : List Nat)
    {s' : Sess} {r : Res (List Int)} (hrun : requireAll sem body fuel s roots = (s', r))
    {new : List Ev} (hnew : s'.trace = s.trace ++ new)
    {pre post : List Ev} {t : Nat} (hsplit : new = pre ++ .executeStart t :: post) :
    (∃ pre' e, pre = pre' ++ [e] ∧ TdCause e) ∨ NoOutputAt s.store pre t :=
  (((requireAll_TJ sem body fuel roots hs).out hrun).facts hnew).just pre t post hsplit

theorem C02_output_trace (fuel : Nat) {s : Sess} (hs : SessWF s) (roots : List Nat)
    {s' : Sess} {r : Res (List Int)} (hrun : requireAll sem body fuel s roots = (s', r))
    {new : List Ev} (hnew : s'.trace = s.trace ++ new) (t : Nat) :
    s'.store.outOf t = outFold t (s.store.outOf t) new :=
  (((requireAll_TJ sem body fuel roots hs).out hrun).facts hnew).out t

/-- A task with stored output is not executed in a session in which no dependency check fails. -/
theorem C02_consistent_not_executed_trace (fuel : Nat) {s : Sess} (hs : SessWF s)
    (roots : List Nat) {s' : Sess} {r : Res (List Int)}
    (hrun : requireAll sem body fuel s roots = (s', r))
    {new : List Ev} (hnew : s'.trace = s.trace ++ new) {t : Nat}
    (hout : (s.store.outOf t).isSome = true) (hnc : ∀ e ∈ new, ¬ TdCause e) :
    .executeStart t ∉ new := by
  intro hm
  obtain ⟨pre, post, hsplit, hfirst⟩ := List.first_occurrence hm
  rcases C02_exec_justified_trace_all fuel hs roots hrun hnew hsplit with ⟨pre', e, h1, h2⟩ | h
  · exact hnc e (by rw [hsplit, h1]; simp) h2
  · have := outFold_isSome t hout hfirst
    unfold NoOutputAt at h
    rw [h] at this; cases this

/-! ### non-vacuity -/

section NonVacuity
open DecEqAux

/-- For each `execute_start t` of a stream, in order:
`(t, schedule_task t occurs earlier, NoOutputAt st0 (events before) t)`. -/
def justKinds (st0 : Store) : List Ev → List Ev → List (Nat × Bool × Bool)
  | _, [] => []
  | pre, .executeStart t :: rest =>
    (t, decide (Ev.scheduleTask t ∈ pre), decide (NoOutputAt st0 pre t)) ::
      justKinds st0 (pre ++ [.executeStart t]) rest
  | pre, e :: rest => justKinds st0 (pre ++ [e]) rest

/-- For each `schedule_task t` of a stream, in order: `t` and the event right before it. -/
def schedPreds : Option Ev → List Ev → List (Nat × Option Ev)
  | _, [] => []
  | prev, .scheduleTask t :: rest => (t, prev) :: schedPreds (some (.scheduleTask t)) rest
  | _, e :: rest => schedPreds (some e) rest

/-- The diamond of `Props/C03.lean` (`c03Run2`: source 1 changed, bottom-up build): all four tasks
are executed, each after its `schedule_task`; all had an output. -/
example : justKinds c03Pie1.store [] c03Run2.1.trace =
    [(3, true, false), (2, true, false), (1, true, false), (0, true, false)] := by
  with_unfolding_all decide

/-- ... and each `schedule_task` directly follows a failed check of the scheduled task: the read
of source 1 by task 3, then the require checks of 1, 2 (on the new output of 3) and, twice, of 0
(scheduled again while queued: `Queue::add` ignores it). -/
example : schedPreds none c03Run2.1.trace =
    [(3, some (.checkReadEnd 3 0 (.optInt (some 5)) (.ok false))),
     (1, some (.checkReqEnd 1 0 (.int 5) false)),
     (2, some (.checkReqEnd 2 0 (.int 5) false)),
     (0, some (.checkReqEnd 0 0 (.int 7) false)),
     (0, some (.checkReqEnd 0 0 (.int 6) false))] := by
  with_unfolding_all decide

/-- The theorems applied to that run. -/
example {pre post : List Ev} {t : Nat} (h : c03Run2.1.trace = pre ++ .executeStart t :: post) :
    .scheduleTask t ∈ pre ∨ NoOutputAt c03Pie1.store pre t :=
  C04_exec_justified 30 (C19_newSession_wf _ c03Pie1_hyps.1) [1] (r := c03Run2.2) rfl
    (new := c03Run2.1.trace) rfl h

example {pre post : List Ev} {t : Nat} (h : c03Run2.1.trace = pre ++ .scheduleTask t :: post) :
    ∃ pre' e, pre = pre' ++ [e] ∧ SchedCause t e :=
  C04_schedule_justified 30 (C19_newSession_wf _ c03Pie1_hyps.1) [1] (r := c03Run2.2) rfl
    (new := c03Run2.1.trace) rfl h

/-- The run of `Props/C04Once.lean` on a store left by an aborted session (`c04Run3`): task 5 is
executed twice; the first time it has no stored output (it is required by 7; it happens to be
scheduled as well), the second time it has one and is executed because it was scheduled. -/
example : justKinds c04Pie2.store [] c04Run3.1.trace =
    [(7, true, false), (5, true, true), (6, true, false), (5, true, false)] := by
  with_unfolding_all decide

/-- A task that is new in a bottom-up build, and a build that aborts.  Task 0 reads source 1: on 5
it returns, on 6 it requires task 9, otherwise task 8, which panics. -/
def c04jBody : Nat → Prog
  | 0 => .read 1 0 (fun x => match x with
      | .ok (some 5) => .ret 0
      | .ok (some 6) => .req 9 0 (fun v => .ret (v + 1))
      | _ => .req 8 0 (fun v => .ret (v + 2)))
  | 8 => .panic
  | _ => .ret 7

def c04jRun1 := requireAll reflSem c04jBody 30 ({ fs := [(1, 5)] } : PieSt).newSession [0]
def c04jPie6 : PieSt := c04jRun1.1.toPie.setContent 1 (some 6)
def c04jPie7 : PieSt := c04jRun1.1.toPie.setContent 1 (some 7)
def c04jRun6 := bottomUpBuild reflSem c04jBody 30 c04jPie6.newSession [1]
def c04jRun7 := bottomUpBuild reflSem c04jBody 30 c04jPie7.newSession [1]

theorem c04jPie_wf : SessWF c04jPie6.newSession ∧ SessWF c04jPie7.newSession := by
  have h := ((requireAll_ext reflSem c04jBody 30 [0]
    (C19_newSession_wf ({ fs := [(1, 5)] } : PieSt) Store.WF.empty)).wf).store
  exact ⟨C19_newSession_wf _ (by rw [c04jPie6, C19_setContent_store]; exact h),
    C19_newSession_wf _ (by rw [c04jPie7, C19_setContent_store]; exact h)⟩

/-- Source 1 := 6: task 0 is executed because it was scheduled, the new task 9 only because it has
no output (it is never scheduled); the build returns. -/
example : c04jRun6.2.toOption = some () ∧
    justKinds c04jPie6.store [] c04jRun6.1.trace = [(0, true, false), (9, false, true)] := by
  with_unfolding_all decide

/-- Source 1 := 7: the build aborts (task 8 panics); the executions that were started are
justified all the same. -/
example : c04jRun7.2.toOption = none ∧
    justKinds c04jPie7.store [] c04jRun7.1.trace = [(0, true, false), (8, false, true)] := by
  with_unfolding_all decide

example {pre post : List Ev} {t : Nat} (h : c04jRun7.1.trace = pre ++ .executeStart t :: post) :
    .scheduleTask t ∈ pre ∨ NoOutputAt c04jPie7.store pre t :=
  C04_exec_justified 30 c04jPie_wf.2 [1] (r := c04jRun7.2) rfl (new := c04jRun7.1.trace) rfl h

/-- Source 1 unchanged although reported: nothing is scheduled, nothing is executed
(`C04_consistent_not_executed` applies to task 0, which has an output). -/
example :
    let p : PieSt := c04jRun1.1.toPie
    let run := bottomUpBuild reflSem c04jBody 30 p.newSession [1]
    (p.store.outOf 0).isSome = true ∧ schedPreds none run.1.trace = [] ∧
      justKinds p.store [] run.1.trace = [] := by
  with_unfolding_all decide

/-! top-down -/

/-- For each `execute_start t` of a stream, in order:
`(t, the event right before, NoOutputAt st0 (events before) t)`. -/
def tdKinds (st0 : Store) : List Ev → List Ev → List (Nat × Option Ev × Bool)
  | _, [] => []
  | pre, .executeStart t :: rest =>
    (t, pre.getLast?, decide (NoOutputAt st0 pre t)) :: tdKinds st0 (pre ++ [.executeStart t]) rest
  | pre, e :: rest => tdKinds st0 (pre ++ [e]) rest

/-- The first build of the diamond (`c03Run1`, empty store): every task is executed because it has
no output. -/
example : tdKinds {} [] c03Run1.1.trace =
    [(0, some (.requireStart 0 4), true), (1, some (.requireStart 1 0), true),
     (3, some (.requireStart 3 0), true), (2, some (.requireStart 2 0), true)] := by
  with_unfolding_all decide

/-- The diamond required top-down after source 1 changed: every task has an output and is
executed right after a failed check — the read of source 1 for task 3, the require of 3 for tasks
1 and 2, the require of 1 for task 0. -/
example :
    tdKinds c03Pie1.store [] (requireAll reflSem c03Body 30 c03Pie1.newSession [0]).1.trace =
    [(3, some (.checkResEnd 1 0 (.optInt (some 5)) (.ok false)), false),
     (1, some (.checkTaskEnd 3 0 (.int 5) false), false),
     (0, some (.checkTaskEnd 1 0 (.int 6) false), false),
     (2, some (.checkTaskEnd 3 0 (.int 5) false), false)] := by
  with_unfolding_all decide

/-- Task 0 after a failed check, the new task 9 because it has no output. -/
example :
    tdKinds c04jPie6.store [] (requireAll reflSem c04jBody 30 c04jPie6.newSession [0]).1.trace =
    [(0, some (.checkResEnd 1 0 (.optInt (some 5)) (.ok false)), false),
     (9, some (.requireStart 9 0), true)] := by
  with_unfolding_all decide

example {pre post : List Ev} {t : Nat}
    (h : (requireAll reflSem c03Body 30 c03Pie1.newSession [0]).1.trace =
      pre ++ .executeStart t :: post) :
    (∃ pre' e, pre = pre' ++ [e] ∧ TdCause e) ∨ NoOutputAt c03Pie1.store pre t :=
  C02_exec_justified_trace_all 30 (C19_newSession_wf _ c03Pie1_hyps.1) [0]
    (r := (requireAll reflSem c03Body 30 c03Pie1.newSession [0]).2) rfl
    (new := (requireAll reflSem c03Body 30 c03Pie1.newSession [0]).1.trace) rfl h

end NonVacuity

end PieModel
