/-
Property C19, part 2: no internal-invariant (`BUG: …`) panic, also after an abort.

The model returns `.abort (.bug k)` where the Rust code would panic on a broken internal
invariant: `bug 1–3` (`add_dependency` from `read`/`write`/`written_to` with a missing node),
`bug 4` (`reserve_require_dependency` with a missing node), `bug 5` (`update_require_dependency`
finds no reserved edge), `bug 10` (a task marked consistent has no output), `bug 11`
(`check_task` meets a `reserved` dependency).

* `Store.NoReservedDone`: a task with an output has no `reserved` dependency.  It holds for the
  empty store and is preserved by every top-down function **whatever the result** (together with
  "consistent tasks have an output": `Done`); on abort the executing tasks simply stay without
  output.
* From a well-formed session between builds (`SessOK`) no top-down build ever returns
  `.abort (.bug k)`, for any fuel (it may return `.abort .outOfFuel`).
* Hence after every history of external changes and top-down sessions, aborted or not, the store
  satisfies `WF ∧ NoReservedDone` and every later top-down session is bug-free
  (`C19_no_bug_history`).
* The bottom-up build keeps `NoReservedDone` too (whatever the result), so the same holds after
  **every** history, bottom-up builds included (`C19_history_noReservedDone_all`,
  `C19_no_bug_history_all`).  (Freedom from `bug 20–22` *inside* a bottom-up build is not claimed.)

`bug 5` is excluded because the current frame is never reset while on the stack, so the edge
reserved before `tdMake dst` is still there when it returns — that is the executing-stack
invariant of `PieModel/Build/Stack/*.lean` (see `Props/C07.lean`).
-/
import PieModel.Build.Stack.Session
import PieModel.Build.Stack.BottomUpSession
import PieModel.Props.C19

namespace PieModel

variable (sem : Sem) (body : Nat → Prog)

/-! ### the invariant -/

theorem C19_noReservedDone_empty : ({} : Store).NoReservedDone := Store.NoReservedDone.empty

/-- A new session on a `Pie` whose store satisfies `WF ∧ NoReservedDone` is `SessOK`. -/
theorem C19_newSession_ok (p : PieSt) (hw : p.store.WF) (hn : p.store.NoReservedDone) :
    SessOK p.newSession := sessOK_newSession p hw hn

/-! ### no `bug` abort -/

/-- **C19 (no-bug part).** `Session::require` from a well-formed session between builds never
panics on an internal invariant, for any fuel. -/
theorem C19_no_bug_sessionRequire (fuel : Nat) (s : Sess) (h : SessOK s) (t k : Nat) :
    (sessionRequire sem body fuel s t).2 ≠ .abort (.bug k) :=
  sessionRequire_no_bug sem body fuel h t k

/-- The same with the hypotheses spelled out as after `PieSt.newSession`. -/
theorem C19_no_bug_topdown (fuel : Nat) (s : Sess) (hwf : SessWF s) (_hcur : s.cur = none)
    (hcons : s.consistent = []) (hn : s.store.NoReservedDone) (t k : Nat) :
    (sessionRequire sem body fuel s t).2 ≠ .abort (.bug k) :=
  sessionRequire_no_bug sem body fuel ⟨hwf, hn, by rw [hcons]; exact fun _ h => nomatch h⟩ t k

theorem C19_no_bug_requireAll (fuel : Nat) (s : Sess) (h : SessOK s) (ts : List Nat) (k : Nat) :
    (requireAll sem body fuel s ts).2 ≠ .abort (.bug k) :=
  requireAll_no_bug sem body fuel h ts k

/-- Inside a build: none of the five top-down functions panics on an internal invariant when
called in a state satisfying the executing-stack invariant. -/
theorem C19_no_bug_functions (f : Nat) (k : Nat) :
    (∀ s ch₀ top t c, Frames s (ch₀ ++ Option.toList top) → s.cur = top → (top = none → ch₀ = []) →
      (∀ a, top = some a → Dep.reserved ∉ s.store.depsFrom a) →
      (tdRequire sem body f s t c).2 ≠ .abort (.bug k)) ∧
    (∀ s ch t, Frames s ch →
      (ch ≠ [] → ∃ node, s.store.taskOf node = some t ∧ ∀ x ∈ ch, s.store.g.Reach x node) →
      (tdMake sem body f s t).2 ≠ .abort (.bug k)) ∧
    (∀ s ch node t, Frames s ch → s.store.taskOf node = some t → node ∉ s.consistent →
      (∀ x ∈ ch, s.store.g.Reach x node) → (tdCheck sem body f s node).2 ≠ .abort (.bug k)) ∧
    (∀ s ch m ds, Frames s (ch ++ [m]) → s.store.taskOutput m ≠ none →
      (∃ pre, s.store.depsFrom m = pre ++ ds) →
      (tdCheckDeps sem body f s ds).2 ≠ .abort (.bug k)) ∧
    (∀ s ch₀ a p, Frames s (ch₀ ++ [a]) → s.cur = some a → Dep.reserved ∉ s.store.depsFrom a →
      (tdRun sem body f s p).2 ≠ .abort (.bug k)) := by
  have hs := tdStack sem body (T := False) f
  have hT : ∀ s ch, False → Trc s ch := fun _ _ hf => nomatch hf
  exact ⟨fun s ch₀ top t c h hc hch hnr => (hs.require s ch₀ top t c h (hT _ _) hc hch hnr).no_bug k,
    fun s ch t h hl => (hs.make s ch t h (hT _ _) hl).no_bug k,
    fun s ch node t h ht hnc hr => (hs.check s ch node t h (hT _ _) ht hnc hr).no_bug k,
    fun s ch m ds h ho hp => (hs.checkDeps s ch m ds h (hT _ _) ho hp).no_bug k,
    fun s ch₀ a p h hc hnr => (hs.run s ch₀ a p h (hT _ _) hc hnr).no_bug k⟩

/-! ### the invariant after an abort -/

/-- **C19 (invariant part).** `NoReservedDone` (and "consistent tasks have an output") holds in
the state returned by each of the five top-down functions, whatever the result. -/
theorem C19_invariant_after_abort (f : Nat) :
    (∀ s ch₀ top t c, Frames s (ch₀ ++ Option.toList top) → s.cur = top → (top = none → ch₀ = []) →
      (∀ a, top = some a → Dep.reserved ∉ s.store.depsFrom a) →
      Done (tdRequire sem body f s t c).1) ∧
    (∀ s ch t, Frames s ch →
      (ch ≠ [] → ∃ node, s.store.taskOf node = some t ∧ ∀ x ∈ ch, s.store.g.Reach x node) →
      Done (tdMake sem body f s t).1) ∧
    (∀ s ch node t, Frames s ch → s.store.taskOf node = some t → node ∉ s.consistent →
      (∀ x ∈ ch, s.store.g.Reach x node) → Done (tdCheck sem body f s node).1) ∧
    (∀ s ch m ds, Frames s (ch ++ [m]) → s.store.taskOutput m ≠ none →
      (∃ pre, s.store.depsFrom m = pre ++ ds) → Done (tdCheckDeps sem body f s ds).1) ∧
    (∀ s ch₀ a p, Frames s (ch₀ ++ [a]) → s.cur = some a → Dep.reserved ∉ s.store.depsFrom a →
      Done (tdRun sem body f s p).1) := by
  have hs := tdStack sem body (T := False) f
  have hT : ∀ s ch, False → Trc s ch := fun _ _ hf => nomatch hf
  exact ⟨fun s ch₀ top t c h hc hch hnr =>
      (hs.require s ch₀ top t c h (hT _ _) hc hch hnr).done fun _ _ hp => hp.1.done,
    fun s ch t h hl => (hs.make s ch t h (hT _ _) hl).done fun _ _ hp => hp.1.done,
    fun s ch node t h ht hnc hr =>
      (hs.check s ch node t h (hT _ _) ht hnc hr).done fun _ _ hp => hp.1.done,
    fun s ch m ds h ho hp => (hs.checkDeps s ch m ds h (hT _ _) ho hp).done fun _ _ hp => hp.1.done,
    fun s ch₀ a p h hc hnr => (hs.run s ch₀ a p h (hT _ _) hc hnr).done fun _ _ hp => hp.1.done⟩

/-- `Session::require` and a whole session keep `SessOK`, whatever the result. -/
theorem C19_sessionRequire_ok (fuel : Nat) (s : Sess) (h : SessOK s) (t : Nat) :
    SessOK (sessionRequire sem body fuel s t).1 := sessionRequire_sessOK sem body fuel h t

theorem C19_requireAll_ok (fuel : Nat) (s : Sess) (h : SessOK s) (ts : List Nat) :
    SessOK (requireAll sem body fuel s ts).1 := requireAll_sessOK sem body fuel h ts

/-- Every abort point of a top-down session leaves a store with `WF ∧ NoReservedDone`. -/
theorem C19_abort_topdown_noReservedDone (fuel : Nat) (p : PieSt) (hw : p.store.WF)
    (hn : p.store.NoReservedDone) (roots : List Nat) :
    let p' := (requireAll sem body fuel p.newSession roots).1.toPie
    p'.store.WF ∧ p'.store.NoReservedDone := by
  have := requireAll_sessOK sem body fuel (sessOK_newSession p hw hn) roots
  exact ⟨this.wf.store, this.done.nrd⟩

/-! ### histories of external changes and top-down sessions -/

def HStep.isTopDown : HStep → Bool
  | .change _ _ => true
  | .session _ => true
  | .bottomUp _ _ => false

/-- A history without bottom-up builds. -/
def TopDownOnly (h : List HStep) : Prop := h.all HStep.isTopDown = true

instance (h : List HStep) : Decidable (TopDownOnly h) := by unfold TopDownOnly; infer_instance

theorem C19_topDownOnly_iff (h : List HStep) : TopDownOnly h ↔ ∀ st ∈ h, st.isTopDown = true := by
  simp [TopDownOnly, List.all_eq_true]

theorem C19_runStep_noReservedDone (fuel : Nat) (p : PieSt) (hw : p.store.WF)
    (hn : p.store.NoReservedDone) (st : HStep) (htd : st.isTopDown = true) :
    (runStep sem body fuel p st).store.WF ∧ (runStep sem body fuel p st).store.NoReservedDone := by
  cases st with
  | change r v => unfold runStep; rw [C19_setContent_store]; exact ⟨hw, hn⟩
  | session roots => exact C19_abort_topdown_noReservedDone sem body fuel p hw hn roots
  | bottomUp changed roots => cases htd

/-- After every history of external changes and top-down sessions — any of them possibly aborted
at any point — the store satisfies `WF ∧ NoReservedDone`. -/
theorem C19_history_noReservedDone (fuel : Nat) (steps : List HStep) (h : TopDownOnly steps) :
    (runHistory sem body fuel steps).store.WF ∧
      (runHistory sem body fuel steps).store.NoReservedDone := by
  unfold runHistory
  have key : ∀ (l : List HStep) (p : PieSt), (∀ st ∈ l, st.isTopDown = true) → p.store.WF →
      p.store.NoReservedDone → (l.foldl (runStep sem body fuel) p).store.WF ∧
        (l.foldl (runStep sem body fuel) p).store.NoReservedDone := by
    intro l
    induction l with
    | nil => intro p _ hw hn; exact ⟨hw, hn⟩
    | cons st l ih =>
      intro p hl hw hn
      obtain ⟨hw', hn'⟩ := C19_runStep_noReservedDone sem body fuel p hw hn st (hl st (by simp))
      exact ih _ (fun x hx => hl x (by simp [hx])) hw' hn'
  exact key steps {} ((C19_topDownOnly_iff steps).mp h) Store.WF.empty Store.NoReservedDone.empty

/-- **C19.** After every such history every later top-down session — with any fuel, on any
roots — is free of internal-invariant panics. -/
theorem C19_no_bug_history (fuel : Nat) (steps : List HStep) (h : TopDownOnly steps)
    (fuel' : Nat) (roots : List Nat) (k : Nat) :
    (requireAll sem body fuel' (runHistory sem body fuel steps).newSession roots).2 ≠
      .abort (.bug k) := by
  obtain ⟨hw, hn⟩ := C19_history_noReservedDone sem body fuel steps h
  exact requireAll_no_bug sem body fuel' (sessOK_newSession _ hw hn) roots k

/-! ### bottom-up builds, all histories

The same invariant is kept by the bottom-up build (`PieModel/Build/Stack/BottomUp*.lean`: the
stack of executing tasks, the `reserved` edge of a pending require is still there when the
nested `buMake` returns, an executing task is never re-entered), so the results above hold for
**all** histories with respect to later top-down sessions. -/

/-- `NoReservedDone` holds in the state returned by each of the six mutually recursive bottom-up
functions, whatever the result, when called in a state satisfying the bottom-up stack invariant
`BFrames`. -/
theorem C19_bottomup_functions_noReservedDone (f : Nat) :
    (∀ s ch₀ a t c, BFrames s (ch₀ ++ [a]) → Dep.reserved ∉ s.store.depsFrom a →
      (buRequire sem body f s t c).1.store.NoReservedDone) ∧
    (∀ s ch₀ a t node, BFrames s (ch₀ ++ [a]) → s.store.taskOf node = some t →
      (∃ dep, (node, dep) ∈ s.store.g.outgoingEdges a) →
      (buMake sem body f s t node).1.store.NoReservedDone) ∧
    (∀ s ch t node, BFrames s ch → s.store.taskOf node = some t →
      (∀ x ∈ ch, s.store.g.Reach x node) → (buExec sem body f s t node).1.store.NoReservedDone) ∧
    (∀ s ch node, BFrames s ch → (∀ x ∈ ch, s.store.g.Reach x node) →
      (buExecAndSchedule sem body f s node).1.store.NoReservedDone) ∧
    (∀ s ch₀ a src, BFrames s (ch₀ ++ [a]) → (∃ dep, (src, dep) ∈ s.store.g.outgoingEdges a) →
      (buRequireNow sem body f s src).1.store.NoReservedDone) ∧
    (∀ s ch₀ a p, BFrames s (ch₀ ++ [a]) → Dep.reserved ∉ s.store.depsFrom a →
      (buRun sem body f s p).1.store.NoReservedDone) := by
  have hs := buStack sem body f
  exact ⟨fun s ch₀ a t c h hnr => (hs.require s ch₀ a t c h hnr).nrd fun _ _ hp => hp.1.nrd,
    fun s ch₀ a t node h ht he => (hs.make s ch₀ a t node h ht he).nrd fun _ _ hp => hp.1.nrd,
    fun s ch t node h ht hr => (hs.exec s ch t node h ht hr).nrd fun _ _ hp => hp.1.nrd,
    fun s ch node h hr => (hs.execAndSchedule s ch node h hr).nrd fun _ _ hp => hp.1.nrd,
    fun s ch₀ a src h he => (hs.requireNow s ch₀ a src h he).nrd fun _ _ hp => hp.1.nrd,
    fun s ch₀ a p h hnr => (hs.run s ch₀ a p h hnr).nrd fun _ _ hp => hp.1.nrd⟩

/-- A bottom-up build from a well-formed session between builds: `WF ∧ NoReservedDone` whatever
the result, and `SessOK` again if it returns (so `requireAll` may follow in the same session). -/
theorem C19_bottomUpBuild_invariant (fuel : Nat) (s : Sess) (h : SessOK s) (changed : List Nat) :
    ((bottomUpBuild sem body fuel s changed).1.store.WF ∧
      (bottomUpBuild sem body fuel s changed).1.store.NoReservedDone) ∧
    ∀ s', bottomUpBuild sem body fuel s changed = (s', .ok ()) → SessOK s' :=
  ⟨bottomUpBuild_noReservedDone sem body fuel h changed,
    fun _ heq => (bottomUpBuild_stack sem body fuel s h changed).ok heq⟩

theorem C19_runStep_noReservedDone_all (fuel : Nat) (p : PieSt) (hw : p.store.WF)
    (hn : p.store.NoReservedDone) (st : HStep) :
    (runStep sem body fuel p st).store.WF ∧ (runStep sem body fuel p st).store.NoReservedDone := by
  cases st with
  | change r v => unfold runStep; rw [C19_setContent_store]; exact ⟨hw, hn⟩
  | session roots => exact C19_abort_topdown_noReservedDone sem body fuel p hw hn roots
  | bottomUp changed roots =>
    show (match bottomUpBuild sem body fuel p.newSession changed with
      | (s, .abort _) => s.toPie
      | (s, .ok ()) => (requireAll sem body fuel s roots).1.toPie).store.WF ∧
      (match bottomUpBuild sem body fuel p.newSession changed with
      | (s, .abort _) => s.toPie
      | (s, .ok ()) => (requireAll sem body fuel s roots).1.toPie).store.NoReservedDone
    have h0 := sessOK_newSession p hw hn
    have key := C19_bottomUpBuild_invariant sem body fuel _ h0 changed
    split
    next s a heq => have := key.1; rw [heq] at this; exact this
    next s heq =>
      have := requireAll_sessOK sem body fuel (key.2 s heq) roots
      exact ⟨this.wf.store, this.done.nrd⟩

/-- **C19.** After *every* history — external changes, top-down sessions, bottom-up builds, any of
them possibly aborted at any point — the store satisfies `WF ∧ NoReservedDone`. -/
theorem C19_history_noReservedDone_all (fuel : Nat) (steps : List HStep) :
    (runHistory sem body fuel steps).store.WF ∧
      (runHistory sem body fuel steps).store.NoReservedDone := by
  unfold runHistory
  have key : ∀ (l : List HStep) (p : PieSt), p.store.WF → p.store.NoReservedDone →
      (l.foldl (runStep sem body fuel) p).store.WF ∧
        (l.foldl (runStep sem body fuel) p).store.NoReservedDone := by
    intro l
    induction l with
    | nil => intro p hw hn; exact ⟨hw, hn⟩
    | cons st l ih =>
      intro p hw hn
      obtain ⟨hw', hn'⟩ := C19_runStep_noReservedDone_all sem body fuel p hw hn st
      exact ih _ hw' hn'
  exact key steps {} Store.WF.empty Store.NoReservedDone.empty

/-- **C19.** ... hence after every history every later top-down session is free of
internal-invariant panics. -/
theorem C19_no_bug_history_all (fuel : Nat) (steps : List HStep) (fuel' : Nat) (roots : List Nat)
    (k : Nat) :
    (requireAll sem body fuel' (runHistory sem body fuel steps).newSession roots).2 ≠
      .abort (.bug k) := by
  obtain ⟨hw, hn⟩ := C19_history_noReservedDone_all sem body fuel steps
  exact requireAll_no_bug sem body fuel' (sessOK_newSession _ hw hn) roots k

/-! ### non-vacuity

The cyclic program of `Props/C19.lean`: the first session aborts with `cyclic`, leaving task 0
without output and with a `reserved` dependency; the store still satisfies the invariant, and
the next session (after the resource changed) succeeds. -/

example : c19Verdict c19P1 [0] = (some .cyclic, none) := by with_unfolding_all decide

example : c19P2.store.taskOutput 0 = none ∧ c19P2.store.depsFrom 0 = [.reserved] := by
  with_unfolding_all decide

example : c19P2.store.WF ∧ c19P2.store.NoReservedDone :=
  C19_history_noReservedDone stdSem c19Body 50 _ (by decide)

example (fuel' : Nat) (roots : List Nat) (k : Nat) :
    (requireAll stdSem c19Body fuel' c19P3.newSession roots).2 ≠ .abort (.bug k) :=
  C19_no_bug_history stdSem c19Body 50 _ (by decide) fuel' roots k

example : c19Verdict c19P3 [0] = (none, some [6]) := by with_unfolding_all decide

/-- The aborted bottom-up build of `Props/C19.lean` (`c19P6`): invariant kept, later sessions
bug-free. -/
example : c19Verdict' c19P5 [0] = some .cyclic := by with_unfolding_all decide

example : c19P6.store.WF ∧ c19P6.store.NoReservedDone :=
  C19_history_noReservedDone_all stdSem c19Body 50
    [.change 0 (some 1), .session [0], .change 0 (some 2), .session [0], .change 0 (some 1),
      .bottomUp [0] []]

example (fuel' : Nat) (roots : List Nat) (k : Nat) :
    (requireAll stdSem c19Body fuel' c19P6.newSession roots).2 ≠ .abort (.bug k) :=
  C19_no_bug_history_all stdSem c19Body 50
    [.change 0 (some 1), .session [0], .change 0 (some 2), .session [0], .change 0 (some 1),
      .bottomUp [0] []] fuel' roots k

/-- The hypothesis `NoReservedDone` cannot be dropped: on a well-formed store in which the
completed task 0 has a `reserved` dependency, validating task 0 hits `bug 11`. -/
def c19BadStore : Store :=
  let st1 := (({} : Store).getOrCreateTaskNode 0).1
  let st2 := (st1.getOrCreateTaskNode 1).1
  let st3 := (st2.addDependency 0 1 .reserved).1
  (st3.setTaskOutput 0 7).setTaskOutput 1 8

example : c19BadStore.WF :=
  ((((Store.WF.empty.getOrCreateTaskNode 0).getOrCreateTaskNode 1).addDependency
    (src := 0) (dst := 1) (d := .reserved) ⟨0, by with_unfolding_all decide⟩
    ⟨1, by with_unfolding_all decide⟩).setTaskOutput 0 7).setTaskOutput 1 8

example : c19BadStore.taskOutput 0 = some 7 ∧ c19BadStore.depsFrom 0 = [.reserved] := by
  with_unfolding_all decide

def c19BadVerdict : Option Abort :=
  match sessionRequire stdSem c19Body 50 ({ store := c19BadStore } : Sess) 0 with
  | (_, .abort a) => some a
  | (_, .ok _) => none

example : c19BadVerdict = some (.bug 11) := by with_unfolding_all decide

end PieModel
