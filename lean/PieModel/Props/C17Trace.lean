/-
C17 (interpreter part): the tracker receives a properly nested event stream.

* every end event closes the most recent unclosed start of the same kind and subject
  (`nest`, `Balanced`, `PrefixOfBalanced` in `Build/TraceNesting.lean`);
* every operation that completes emits both its start and its end (`C17_*_nested`: the events
  appended by a completed call are balanced; those of an aborted call are a prefix of a balanced
  stream, i.e. only opens remain);
* every task execution that really ran appears with the output it returned
  (`C17_execute_end_carries_output*`, `C17_execute_paired`);
* a `require_end` event carries the value returned to the caller (`C17_require_end_value*`).

The strict statements assume `StampTotal sem` (no resource checker fails to *stamp*); the `…R`
statements hold for every `sem` with the relaxed machine `nestR`, in which an `execute_end` may
close `read_start`/`write_start` events that the Rust code leaves open when stamping fails.
-/
import PieModel.Build.TraceExec
import PieModel.Build.Script
import PieModel.Build.StdSem

namespace PieModel

variable (sem : Sem) (body : Nat → Prog)

/-- The call that turned `s` into `x.1` with result `x.2` appended events `evs` such that:
completed ⇒ `evs` leaves every stack unchanged (balanced); aborted ⇒ the machine `m` accepts
`evs` from every stack `st` and ends in an extension `op ++ st` (only opens remain). -/
def NestedCall (m : List Frame → List Ev → Option (List Frame)) (s : Sess) {α : Type}
    (x : Sess × Res α) : Prop :=
  ∃ evs, x.1.trace = s.trace ++ evs ∧
    match x.2 with
    | .ok _ => ∀ st, m st evs = some st
    | .abort _ => ∃ op, ∀ st, m st evs = some (op ++ st)

/-- The same for the interpretation of a task body: when it returns, `read`/`write` frames may
still be open (only if a checker failed to stamp). -/
def NestedBody (m : List Frame → List Ev → Option (List Frame)) (s : Sess) {α : Type}
    (x : Sess × Res α) : Prop :=
  ∃ evs, x.1.trace = s.trace ++ evs ∧
    match x.2 with
    | .ok _ => ∃ op, (∀ fr ∈ op, fr.1.isRW = true) ∧ ∀ st, m st evs = some (op ++ st)
    | .abort _ => ∃ op, ∀ st, m st evs = some (op ++ st)

theorem OutB.nested {s : Sess} {α : Type} {x : Sess × Res α} (h : OutB false s x) :
    NestedCall nest s x := by
  obtain ⟨s', r⟩ := x
  cases r with
  | ok _ =>
    obtain ⟨evs, ht, hs⟩ := h
    exact ⟨evs, ht, fun st => by simpa [nestG_false] using hs st⟩
  | abort _ =>
    obtain ⟨op, evs, ht, hs⟩ := h
    exact ⟨evs, ht, op, fun st => by simpa [nestG_false] using hs st⟩

theorem OutB.nestedR {s : Sess} {α : Type} {x : Sess × Res α} (h : OutB true s x) :
    NestedCall nestR s x := by
  obtain ⟨s', r⟩ := x
  cases r with
  | ok _ =>
    obtain ⟨evs, ht, hs⟩ := h
    exact ⟨evs, ht, fun st => by simpa [nestG_true] using hs st⟩
  | abort _ =>
    obtain ⟨op, evs, ht, hs⟩ := h
    exact ⟨evs, ht, op, fun st => by simpa [nestG_true] using hs st⟩

theorem OutR.nested {s : Sess} {α : Type} {x : Sess × Res α} (h : OutR false s x) :
    NestedCall nest s x := by
  obtain ⟨s', r⟩ := x
  cases r with
  | ok _ =>
    obtain ⟨op, hal, evs, ht, hs⟩ := h
    simp only [Allowed] at hal
    subst hal
    exact ⟨evs, ht, fun st => by simpa [nestG_false] using hs st⟩
  | abort _ =>
    obtain ⟨op, evs, ht, hs⟩ := h
    exact ⟨evs, ht, op, fun st => by simpa [nestG_false] using hs st⟩

theorem OutR.nestedR {s : Sess} {α : Type} {x : Sess × Res α} (h : OutR true s x) :
    NestedBody nestR s x := by
  obtain ⟨s', r⟩ := x
  cases r with
  | ok _ =>
    obtain ⟨op, hal, evs, ht, hs⟩ := h
    exact ⟨evs, ht, op, by simpa [Allowed] using hal, fun st => by simpa [nestG_true] using hs st⟩
  | abort _ =>
    obtain ⟨op, evs, ht, hs⟩ := h
    exact ⟨evs, ht, op, fun st => by simpa [nestG_true] using hs st⟩

theorem Seg.balanced {evs : List Ev} (h : Seg false evs []) : Balanced evs := by
  simpa [nestG_false, Balanced] using h []

theorem Seg.balancedR {evs : List Ev} (h : Seg true evs []) : BalancedR evs := by
  simpa [nestG_true, BalancedR] using h []

theorem getLast?_snoc1 {α : Type} (l : List α) (x : α) : (l ++ [x]).getLast? = some x := by simp

theorem getLast?_cons_snoc {α : Type} (a : α) (l : List α) (x : α) :
    (a :: (l ++ [x])).getLast? = some x := getLast?_snoc1 (a :: l) x

theorem getLast?_snoc2 {α : Type} (l : List α) (x y : α) : (l ++ [x, y]).getLast? = some y := by
  simp [List.getLast?_append]

theorem getLast?_cons_snoc2 {α : Type} (a : α) (l : List α) (x y : α) :
    (a :: (l ++ [x, y])).getLast? = some y := getLast?_snoc2 (a :: l) x y

theorem NestedCall.balanced {s s' : Sess} {α : Type} {a : α}
    (h : NestedCall nest s (s', Res.ok a)) : ∃ evs, s'.trace = s.trace ++ evs ∧ Balanced evs := by
  obtain ⟨evs, ht, hs⟩ := h
  exact ⟨evs, ht, hs []⟩

theorem NestedCall.balancedR {s s' : Sess} {α : Type} {a : α}
    (h : NestedCall nestR s (s', Res.ok a)) :
    ∃ evs, s'.trace = s.trace ++ evs ∧ BalancedR evs := by
  obtain ⟨evs, ht, hs⟩ := h
  exact ⟨evs, ht, hs []⟩

theorem NestedCall.prefix {s s' : Sess} {α : Type} {a : Abort}
    (h : NestedCall nest s (s', (Res.abort a : Res α))) :
    ∃ evs, s'.trace = s.trace ++ evs ∧ PrefixOfBalanced evs := by
  obtain ⟨evs, ht, op, hs⟩ := h
  exact ⟨evs, ht, prefixOfBalanced_iff.mpr ⟨op, hs⟩⟩

theorem NestedCall.prefixR {s s' : Sess} {α : Type} {a : Abort}
    (h : NestedCall nestR s (s', (Res.abort a : Res α))) :
    ∃ evs, s'.trace = s.trace ++ evs ∧ PrefixOfBalancedR evs := by
  obtain ⟨evs, ht, op, hs⟩ := h
  exact ⟨evs, ht, prefixOfBalancedR_iff.mpr ⟨op, hs⟩⟩

/-! ## (a) the trace only grows -/

/-- No function of the interpreter ever removes or changes an event already sent to the
tracker: the old trace is a prefix of the new one (for every `sem`, `body`, fuel, state). -/
theorem C17_trace_grows (f : Nat) (s : Sess) :
    (∀ r c, s.trace <+: (doRead sem s r c).1.trace) ∧
    (∀ r c v, s.trace <+: (doWrite sem s r c v).1.trace) ∧
    (∀ r c v, s.trace <+: (doWrote sem s r c v).1.trace) ∧
    (∀ t c, s.trace <+: (tdRequire sem body f s t c).1.trace) ∧
    (∀ t, s.trace <+: (tdMake sem body f s t).1.trace) ∧
    (∀ n, s.trace <+: (tdCheck sem body f s n).1.trace) ∧
    (∀ ds, s.trace <+: (tdCheckDeps sem body f s ds).1.trace) ∧
    (∀ p, s.trace <+: (tdRun sem body f s p).1.trace) ∧
    (∀ t, s.trace <+: (sessionRequire sem body f s t).1.trace) ∧
    (∀ ts, s.trace <+: (requireAll sem body f s ts).1.trace) ∧
    (∀ n d, s.trace <+: (trySchedule sem s n d).trace) ∧
    (∀ r, s.trace <+: (scheduleAffectedBy sem s r).trace) ∧
    (∀ n t o, s.trace <+: (scheduleAfterExec sem s n t o).trace) ∧
    (∀ t c, s.trace <+: (buRequire sem body f s t c).1.trace) ∧
    (∀ t n, s.trace <+: (buMake sem body f s t n).1.trace) ∧
    (∀ t n, s.trace <+: (buExec sem body f s t n).1.trace) ∧
    (∀ n, s.trace <+: (buExecAndSchedule sem body f s n).1.trace) ∧
    (∀ n, s.trace <+: (buRequireNow sem body f s n).1.trace) ∧
    (∀ p, s.trace <+: (buRun sem body f s p).1.trace) ∧
    s.trace <+: (buExecuteScheduled sem body f s).1.trace ∧
    s.trace <+: (updateAffectedTasks sem body f s).1.trace ∧
    (∀ ch, s.trace <+: (bottomUpBuild sem body f s ch).1.trace) := by
  have hR := relaxed_ok sem
  have td := tdSpec sem body hR f
  have bu := buSpec sem body hR f
  have tr : ∀ {s' : Sess}, Tr true s s' [] → s.trace <+: s'.trace :=
    fun h => by obtain ⟨evs, h, _⟩ := h; exact ⟨evs, h.symm⟩
  refine ⟨fun r c => ?_, fun r c v => ?_, fun r c v => ?_, fun t c => (td.require s t c).grows,
    fun t => (td.make s t).grows, fun n => (td.check s n).grows,
    fun ds => (td.checkDeps s ds).grows, fun p => (td.run s p).grows,
    fun t => (sessionRequire_outB sem body hR f s t).grows,
    fun ts => (requireAll_outB sem body hR f s ts).grows,
    fun n d => tr (trySchedule_tr sem s n d), fun r => tr (scheduleAffectedBy_tr sem s r),
    fun n t o => tr (scheduleAfterExec_tr sem s n t o), fun t c => (bu.require s t c).grows,
    fun t n => (bu.make s t n).grows, fun t n => (bu.exec s t n).grows,
    fun n => (bu.execSched s n).grows, fun n => (bu.requireNow s n).grows,
    fun p => (bu.run s p).grows, (buExecuteScheduled_outB sem body hR f s).grows,
    (updateAffectedTasks_outB sem body hR f s).grows,
    fun ch => (bottomUpBuild_outB sem body hR f s ch).grows⟩
  · exact ((doRead_events sem s r c).outR sem (rx := true) hR (k := .read) (n := r) rfl rfl
      (fun _ => rfl)).grows
  · exact ((doWrite_events sem s r c v).outR sem (rx := true) hR (k := .write) (n := r) rfl rfl
      (fun _ => rfl)).grows
  · exact ((doWrote_events sem s r c v).outR sem (rx := true) hR (k := .write) (n := r) rfl rfl
      (fun _ => rfl)).grows

/-! ## (b), (c) nesting, function by function -/

/-- `read` / `write` / `written_to`, by result: completed ⇒ nothing or `[start, end]`
(balanced); the checker failed to stamp ⇒ exactly the open start; aborted ⇒ only opens. -/
theorem C17_readWrite_events (s : Sess) (r c : Nat) (v : Option Int) :
    RWPost sem c s (.readStart r c) (.readEnd r c) (doRead sem s r c) ∧
    RWPost sem c s (.writeStart r c) (.writeEnd r c) (doWrite sem s r c v) ∧
    RWPost sem c s (.writeStart r c) (.writeEnd r c) (doWrote sem s r c v) :=
  ⟨doRead_events sem s r c, doWrite_events sem s r c v, doWrote_events sem s r c v⟩

/-- `RWPost` in terms of the strict machine. -/
def RWNested (s : Sess) (st : Ev) {α : Type} : Sess × Res (Except Int α) → Prop
  | (s', .ok (.ok _)) => ∃ evs, s'.trace = s.trace ++ evs ∧ Balanced evs
  | (s', .ok (.error _)) => s'.trace = s.trace ++ [st] ∧ nest [] [st] = some [(st.role.frame)]
  | (s', .abort _) => ∃ evs, s'.trace = s.trace ++ evs ∧ PrefixOfBalanced evs

theorem RWPost.nested {α : Type} {c : Nat} {s : Sess} {st : Ev} {en : Stamp → Ev} {k : Kind}
    {n : Nat} (hst : st.role = .start k n) (hen : ∀ stamp, (en stamp).role = .stop k n)
    {x : Sess × Res (Except Int α)} (h : RWPost sem c s st en x) : RWNested s st x := by
  obtain ⟨s', res⟩ := x
  have hpair : ∀ stamp, Balanced [st, en stamp] := fun stamp => by
    simp [Balanced, nest, step, hst, hen stamp, popFrame]
  cases res with
  | abort a =>
    rcases h with h | ⟨stamp, h⟩
    · exact ⟨_, h, by simp [PrefixOfBalanced, nest, step, hst]⟩
    · exact ⟨_, h, (hpair stamp).prefixOfBalanced⟩
  | ok y =>
    cases y with
    | error e => exact ⟨h.1, by simp [nest, step, hst, Role.frame]⟩
    | ok _ =>
      rcases h with h | ⟨stamp, h⟩
      · exact ⟨[], by simpa using h, rfl⟩
      · exact ⟨_, h, hpair stamp⟩

/-- `read`/`write`/`written_to` in terms of the machine: completed ⇒ balanced; the checker
failed to stamp ⇒ exactly one open start; aborted ⇒ prefix of balanced. -/
theorem C17_readWrite_nested (s : Sess) (r c : Nat) (v : Option Int) :
    RWNested s (.readStart r c) (doRead sem s r c) ∧
    RWNested s (.writeStart r c) (doWrite sem s r c v) ∧
    RWNested s (.writeStart r c) (doWrote sem s r c v) :=
  ⟨(doRead_events sem s r c).nested sem (k := .read) (n := r) rfl (fun _ => rfl),
    (doWrite_events sem s r c v).nested sem (k := .write) (n := r) rfl (fun _ => rfl),
    (doWrote_events sem s r c v).nested sem (k := .write) (n := r) rfl (fun _ => rfl)⟩

/-- Top-down interpreter, strict machine, no stamp errors: every function appends a balanced
segment when it completes and a prefix of a balanced stream (only opens) when it aborts. -/
theorem C17_topDown_nested (hS : StampTotal sem) (f : Nat) (s : Sess) :
    (∀ t c, NestedCall nest s (tdRequire sem body f s t c)) ∧
    (∀ t, NestedCall nest s (tdMake sem body f s t)) ∧
    (∀ n, NestedCall nest s (tdCheck sem body f s n)) ∧
    (∀ ds, NestedCall nest s (tdCheckDeps sem body f s ds)) ∧
    (∀ p, NestedCall nest s (tdRun sem body f s p)) ∧
    (∀ t, NestedCall nest s (sessionRequire sem body f s t)) ∧
    (∀ ts, NestedCall nest s (requireAll sem body f s ts)) := by
  have td := tdSpec sem body (rx := false) (fun _ => hS) f
  exact ⟨fun t c => (td.require s t c).nested, fun t => (td.make s t).nested,
    fun n => (td.check s n).nested, fun ds => (td.checkDeps s ds).nested,
    fun p => (td.run s p).nested,
    fun t => (sessionRequire_outB sem body (fun _ => hS) f s t).nested,
    fun ts => (requireAll_outB sem body (fun _ => hS) f s ts).nested⟩

/-- Top-down interpreter, every `sem`: the same with the relaxed machine; a task body may return
with `read`/`write` frames open, which the enclosing `execute_end` closes. -/
theorem C17_topDown_nestedR (f : Nat) (s : Sess) :
    (∀ t c, NestedCall nestR s (tdRequire sem body f s t c)) ∧
    (∀ t, NestedCall nestR s (tdMake sem body f s t)) ∧
    (∀ n, NestedCall nestR s (tdCheck sem body f s n)) ∧
    (∀ ds, NestedCall nestR s (tdCheckDeps sem body f s ds)) ∧
    (∀ p, NestedBody nestR s (tdRun sem body f s p)) ∧
    (∀ t, NestedCall nestR s (sessionRequire sem body f s t)) ∧
    (∀ ts, NestedCall nestR s (requireAll sem body f s ts)) := by
  have td := tdSpec sem body (relaxed_ok sem) f
  exact ⟨fun t c => (td.require s t c).nestedR, fun t => (td.make s t).nestedR,
    fun n => (td.check s n).nestedR, fun ds => (td.checkDeps s ds).nestedR,
    fun p => (td.run s p).nestedR,
    fun t => (sessionRequire_outB sem body (relaxed_ok sem) f s t).nestedR,
    fun ts => (requireAll_outB sem body (relaxed_ok sem) f s ts).nestedR⟩

/-- The scheduling functions of the bottom-up context append balanced segments (they cannot
abort and involve no stamping, so this holds for both machines and every `sem`). -/
theorem C17_schedule_balanced (s : Sess) :
    (∀ n d, ∃ evs, (trySchedule sem s n d).trace = s.trace ++ evs ∧ Balanced evs) ∧
    (∀ r, ∃ evs, (scheduleAffectedBy sem s r).trace = s.trace ++ evs ∧ Balanced evs) ∧
    (∀ n t o, ∃ evs, (scheduleAfterExec sem s n t o).trace = s.trace ++ evs ∧ Balanced evs) := by
  have conv : ∀ {s' : Sess}, Tr false s s' [] → ∃ evs, s'.trace = s.trace ++ evs ∧ Balanced evs :=
    fun h => by
      obtain ⟨evs, ht, hs⟩ := h
      exact ⟨evs, ht, by simpa [nestG_false, Balanced] using hs []⟩
  exact ⟨fun n d => conv (trySchedule_tr sem s n d), fun r => conv (scheduleAffectedBy_tr sem s r),
    fun n t o => conv (scheduleAfterExec_tr sem s n t o)⟩

/-- Bottom-up interpreter, strict machine, no stamp errors. -/
theorem C17_bottomUp_nested (hS : StampTotal sem) (f : Nat) (s : Sess) :
    (∀ t c, NestedCall nest s (buRequire sem body f s t c)) ∧
    (∀ t n, NestedCall nest s (buMake sem body f s t n)) ∧
    (∀ t n, NestedCall nest s (buExec sem body f s t n)) ∧
    (∀ n, NestedCall nest s (buExecAndSchedule sem body f s n)) ∧
    (∀ n, NestedCall nest s (buRequireNow sem body f s n)) ∧
    (∀ p, NestedCall nest s (buRun sem body f s p)) ∧
    NestedCall nest s (buExecuteScheduled sem body f s) ∧
    NestedCall nest s (updateAffectedTasks sem body f s) ∧
    (∀ ch, NestedCall nest s (bottomUpBuild sem body f s ch)) := by
  have hS' : false = false → StampTotal sem := fun _ => hS
  have bu := buSpec sem body hS' f
  exact ⟨fun t c => (bu.require s t c).nested, fun t n => (bu.make s t n).nested,
    fun t n => (bu.exec s t n).nested, fun n => (bu.execSched s n).nested,
    fun n => (bu.requireNow s n).nested, fun p => (bu.run s p).nested,
    (buExecuteScheduled_outB sem body hS' f s).nested,
    (updateAffectedTasks_outB sem body hS' f s).nested,
    fun ch => (bottomUpBuild_outB sem body hS' f s ch).nested⟩

/-- Bottom-up interpreter, every `sem`, relaxed machine. -/
theorem C17_bottomUp_nestedR (f : Nat) (s : Sess) :
    (∀ t c, NestedCall nestR s (buRequire sem body f s t c)) ∧
    (∀ t n, NestedCall nestR s (buMake sem body f s t n)) ∧
    (∀ t n, NestedCall nestR s (buExec sem body f s t n)) ∧
    (∀ n, NestedCall nestR s (buExecAndSchedule sem body f s n)) ∧
    (∀ n, NestedCall nestR s (buRequireNow sem body f s n)) ∧
    (∀ p, NestedBody nestR s (buRun sem body f s p)) ∧
    NestedCall nestR s (buExecuteScheduled sem body f s) ∧
    NestedCall nestR s (updateAffectedTasks sem body f s) ∧
    (∀ ch, NestedCall nestR s (bottomUpBuild sem body f s ch)) := by
  have hR := relaxed_ok sem
  have bu := buSpec sem body hR f
  exact ⟨fun t c => (bu.require s t c).nestedR, fun t n => (bu.make s t n).nestedR,
    fun t n => (bu.exec s t n).nestedR, fun n => (bu.execSched s n).nestedR,
    fun n => (bu.requireNow s n).nestedR, fun p => (bu.run s p).nestedR,
    (buExecuteScheduled_outB sem body hR f s).nestedR,
    (updateAffectedTasks_outB sem body hR f s).nestedR,
    fun ch => (bottomUpBuild_outB sem body hR f s ch).nestedR⟩

/-! ## whole builds -/

/-- A completed `Session::require` (no stamp errors) appends a balanced stream that starts with
`build_start` and ends with `build_end`. -/
theorem C17_session_balanced (hS : StampTotal sem) {f : Nat} {s s' : Sess} {t : Nat} {o : Int}
    (h : sessionRequire sem body f s t = (s', .ok o)) :
    ∃ evs, s'.trace = s.trace ++ evs ∧ Balanced evs ∧
      evs.head? = some .buildStart ∧ evs.getLast? = some .buildEnd := by
  obtain ⟨mid, _, hmid⟩ := sessionRequire_post sem body (rx := false) (fun _ => hS) f s t h
  have hb := (sessionRequire_outB sem body (rx := false) (fun _ => hS) f s t).nested
  rw [h] at hb
  obtain ⟨evs, hevs, hbal⟩ := hb.balanced
  refine ⟨evs, hevs, hbal, ?_⟩
  rw [hevs] at hmid
  simp only [List.append_assoc] at hmid
  have := List.append_cancel_left hmid
  subst this
  exact ⟨rfl, by simp [getLast?_cons_snoc2]⟩

/-- The same for every `sem`, with the relaxed machine. -/
theorem C17_session_balancedR {f : Nat} {s s' : Sess} {t : Nat} {o : Int}
    (h : sessionRequire sem body f s t = (s', .ok o)) :
    ∃ evs, s'.trace = s.trace ++ evs ∧ BalancedR evs ∧
      evs.head? = some .buildStart ∧ evs.getLast? = some .buildEnd := by
  obtain ⟨mid, _, hmid⟩ := sessionRequire_post sem body (relaxed_ok sem) f s t h
  have hb := (sessionRequire_outB sem body (relaxed_ok sem) f s t).nestedR
  rw [h] at hb
  obtain ⟨evs, hevs, hbal⟩ := hb.balancedR
  refine ⟨evs, hevs, hbal, ?_⟩
  rw [hevs] at hmid
  simp only [List.append_assoc] at hmid
  have := List.append_cancel_left hmid
  subst this
  exact ⟨rfl, by simp [getLast?_cons_snoc2]⟩

/-- In particular the whole tracker stream of a session stays balanced from one completed
`require` to the next (a new session starts with the empty stream). -/
theorem C17_session_trace_balanced (hS : StampTotal sem) {f : Nat} {s s' : Sess} {t : Nat}
    {o : Int} (hs : Balanced s.trace) (h : sessionRequire sem body f s t = (s', .ok o)) :
    Balanced s'.trace := by
  obtain ⟨evs, hevs, hbal, _⟩ := C17_session_balanced sem body hS h
  rw [hevs]; exact hs.append hbal

/-- A completed bottom-up build (scheduling for the changed resources, then
`update_affected_tasks`) appends a balanced stream. -/
theorem C17_bottomUp_balanced (hS : StampTotal sem) {f : Nat} {s s' : Sess} {ch : List Nat}
    (h : bottomUpBuild sem body f s ch = (s', .ok ())) :
    ∃ evs, s'.trace = s.trace ++ evs ∧ Balanced evs := by
  have hb := (C17_bottomUp_nested sem body hS f s).2.2.2.2.2.2.2.2 ch
  rw [h] at hb
  exact hb.balanced

theorem C17_bottomUp_balancedR {f : Nat} {s s' : Sess} {ch : List Nat}
    (h : bottomUpBuild sem body f s ch = (s', .ok ())) :
    ∃ evs, s'.trace = s.trace ++ evs ∧ BalancedR evs := by
  have hb := (C17_bottomUp_nestedR sem body f s).2.2.2.2.2.2.2.2 ch
  rw [h] at hb
  exact hb.balancedR

theorem C17_bottomUp_trace_balanced (hS : StampTotal sem) {f : Nat} {s s' : Sess} {ch : List Nat}
    (hs : Balanced s.trace) (h : bottomUpBuild sem body f s ch = (s', .ok ())) :
    Balanced s'.trace := by
  obtain ⟨evs, hevs, hbal⟩ := C17_bottomUp_balanced sem body hS h
  rw [hevs]; exact hs.append hbal

/-- A build that aborts (a panic in the Rust code: cycle, hidden dependency, overlapping write,
panicking task, out of fuel) leaves a prefix of a balanced stream: everything sent so far is well
nested and only starts are unanswered. -/
theorem C17_abort_prefix (hS : StampTotal sem) {f : Nat} {s s' : Sess} {a : Abort} :
    (∀ t, sessionRequire sem body f s t = (s', .abort a) →
      ∃ evs, s'.trace = s.trace ++ evs ∧ PrefixOfBalanced evs) ∧
    (∀ ts, requireAll sem body f s ts = (s', .abort a) →
      ∃ evs, s'.trace = s.trace ++ evs ∧ PrefixOfBalanced evs) ∧
    (∀ ch, bottomUpBuild sem body f s ch = (s', .abort a) →
      ∃ evs, s'.trace = s.trace ++ evs ∧ PrefixOfBalanced evs) := by
  refine ⟨fun t h => ?_, fun ts h => ?_, fun ch h => ?_⟩
  · have hb := (C17_topDown_nested sem body hS f s).2.2.2.2.2.1 t
    rw [h] at hb; exact hb.prefix
  · have hb := (C17_topDown_nested sem body hS f s).2.2.2.2.2.2 ts
    rw [h] at hb; exact hb.prefix
  · have hb := (C17_bottomUp_nested sem body hS f s).2.2.2.2.2.2.2.2 ch
    rw [h] at hb; exact hb.prefix

theorem C17_abort_prefixR {f : Nat} {s s' : Sess} {a : Abort} :
    (∀ t, sessionRequire sem body f s t = (s', .abort a) →
      ∃ evs, s'.trace = s.trace ++ evs ∧ PrefixOfBalancedR evs) ∧
    (∀ ts, requireAll sem body f s ts = (s', .abort a) →
      ∃ evs, s'.trace = s.trace ++ evs ∧ PrefixOfBalancedR evs) ∧
    (∀ ch, bottomUpBuild sem body f s ch = (s', .abort a) →
      ∃ evs, s'.trace = s.trace ++ evs ∧ PrefixOfBalancedR evs) := by
  refine ⟨fun t h => ?_, fun ts h => ?_, fun ch h => ?_⟩
  · have hb := (C17_topDown_nestedR sem body f s).2.2.2.2.2.1 t
    rw [h] at hb; exact hb.prefixR
  · have hb := (C17_topDown_nestedR sem body f s).2.2.2.2.2.2 ts
    rw [h] at hb; exact hb.prefixR
  · have hb := (C17_bottomUp_nestedR sem body f s).2.2.2.2.2.2.2.2 ch
    rw [h] at hb; exact hb.prefixR

/-- "Prefix of balanced" is meant literally. -/
theorem C17_prefix_completes {evs : List Ev} :
    PrefixOfBalanced evs ↔ ∃ rest, Balanced (evs ++ rest) :=
  prefixOfBalanced_iff_exists_completion

/-! ## execute events -/

/-- Top-down: when `make_task_consistent` runs the body of `t` (the task is not yet consistent
in this session and `check_task` answered "inconsistent"), the events it appends are
`checkEvents ++ [execute_start t] ++ bodyEvents`, followed by `execute_end t o` exactly if the
body returned `o`; then the call returns `ok o`: the end event carries the returned output.
If the body aborts, no `execute_end` is emitted. -/
theorem C17_execute_end_carries_output {f : Nat} {s s1 : Sess} {t : Nat}
    (hnc : (s.store.getOrCreateTaskNode t).2 ∉ s.consistent)
    (hc : tdCheck sem body f (tdCheckSession s t) (s.store.getOrCreateTaskNode t).2
      = (s1, .ok none)) :
    ∃ chk bodyEvs s2 rb,
      s1.trace = s.trace ++ chk ∧
      tdRun sem body f (tdExecSession s1 (s.store.getOrCreateTaskNode t).2 t) (body t) = (s2, rb) ∧
      s2.trace = s.trace ++ chk ++ [.executeStart t] ++ bodyEvs ∧
      match rb with
      | .ok o =>
        (tdMake sem body (f + 1) s t).2 = .ok o ∧
        (tdMake sem body (f + 1) s t).1.trace
          = s.trace ++ chk ++ [.executeStart t] ++ bodyEvs ++ [.executeEnd t o]
      | .abort a => tdMake sem body (f + 1) s t = (s2, .abort a) :=
  tdMake_executed sem body hnc hc

/-- Top-down: in every other case `make_task_consistent` itself appends nothing beyond the events
of `check_task` (in particular no execute event of its own). -/
theorem C17_execute_only_when_run {f : Nat} {s : Sess} {t : Nat} :
    ((s.store.getOrCreateTaskNode t).2 ∈ s.consistent →
      (tdMake sem body (f + 1) s t).1.trace = s.trace) ∧
    (∀ s1 rc, (s.store.getOrCreateTaskNode t).2 ∉ s.consistent →
      tdCheck sem body f (tdCheckSession s t) (s.store.getOrCreateTaskNode t).2 = (s1, rc) →
      rc ≠ .ok none → (tdMake sem body (f + 1) s t).1.trace = s1.trace) :=
  tdMake_not_executed sem body

/-- Bottom-up: `execute` appends `[execute_start t] ++ bodyEvents`, followed by `execute_end t o`
exactly if the body returned `o`, and then returns `ok o`. -/
theorem C17_execute_end_carries_output_bu (f : Nat) (s : Sess) (t node : Nat) :
    ∃ bodyEvs s2 rb,
      buRun sem body f (buExecSession s node t) (body t) = (s2, rb) ∧
      s2.trace = s.trace ++ [.executeStart t] ++ bodyEvs ∧
      match rb with
      | .ok o =>
        (buExec sem body (f + 1) s t node).2 = .ok o ∧
        (buExec sem body (f + 1) s t node).1.trace
          = s.trace ++ [.executeStart t] ++ bodyEvs ++ [.executeEnd t o]
      | .abort a => buExec sem body (f + 1) s t node = (s2, .abort a) :=
  buExec_executed sem body f s t node

theorem C17_isStartOf_execute (t : Nat) (e : Ev) :
    e.isStartOf (.execute, t) = true ↔ e = .executeStart t := by
  cases e <;> simp [Ev.isStartOf, Ev.role]

theorem C17_isStopOf_execute (t : Nat) (e : Ev) :
    e.isStopOf (.execute, t) = true ↔ ∃ o, e = .executeEnd t o := by
  cases e <;> simp [Ev.isStopOf, Ev.role]

/-- In the stream of a completed build every frame — in particular `execute t` — is opened
exactly as often as it is closed. -/
theorem C17_execute_paired (hS : StampTotal sem) {f : Nat} {s s' : Sess} {t : Nat} {o : Int}
    (h : sessionRequire sem body f s t = (s', .ok o)) :
    ∃ evs, s'.trace = s.trace ++ evs ∧
      ∀ fr : Frame, evs.countP (Ev.isStartOf fr) = evs.countP (Ev.isStopOf fr) := by
  obtain ⟨evs, hevs, hbal, _⟩ := C17_session_balanced sem body hS h
  exact ⟨evs, hevs, fun fr => hbal.count_eq fr⟩

/-! ## require events -/

/-- A completed `require` (top-down context) appended `require_start t c`, a balanced middle
part, and last `require_end t c stamp out` where `out` is the value returned to the caller and
`stamp` is the checker's stamp of it. -/
theorem C17_require_end_value {f : Nat} {s s' : Sess} {t c : Nat} {out : Int}
    (h : tdRequire sem body f s t c = (s', .ok out)) :
    s'.trace.getLast? = some (.requireEnd t c (sem.ostamp c out) out) ∧
    ∃ mid, BalancedR mid ∧ (StampTotal sem → Balanced mid) ∧
      s'.trace = s.trace ++ [.requireStart t c] ++ mid ++
        [.requireEnd t c (sem.ostamp c out) out] := by
  have hp := tdRequire_post sem body (relaxed_ok sem) f s t c
  rw [h] at hp
  obtain ⟨mid, hseg, hmid⟩ := hp
  refine ⟨by simp [hmid, getLast?_cons_snoc], mid, hseg.balancedR, fun hS => ?_, hmid⟩
  have hp' := tdRequire_post sem body (rx := false) (fun _ => hS) f s t c
  rw [h] at hp'
  obtain ⟨mid', hseg', hmid'⟩ := hp'
  rw [hmid] at hmid'
  have : mid = mid' := by
    have := List.append_cancel_left (List.append_cancel_right hmid')
    exact this
  subst this
  exact hseg'.balanced

/-- The same for the bottom-up context. -/
theorem C17_require_end_value_bu {f : Nat} {s s' : Sess} {t c : Nat} {out : Int}
    (h : buRequire sem body f s t c = (s', .ok out)) :
    s'.trace.getLast? = some (.requireEnd t c (sem.ostamp c out) out) ∧
    ∃ mid, BalancedR mid ∧ (StampTotal sem → Balanced mid) ∧
      s'.trace = s.trace ++ [.requireStart t c] ++ mid ++
        [.requireEnd t c (sem.ostamp c out) out] := by
  have hp := buRequire_post sem body (relaxed_ok sem) f s t c
  rw [h] at hp
  obtain ⟨mid, hseg, hmid⟩ := hp
  refine ⟨by simp [hmid, getLast?_cons_snoc], mid, hseg.balancedR, fun hS => ?_, hmid⟩
  have hp' := buRequire_post sem body (rx := false) (fun _ => hS) f s t c
  rw [h] at hp'
  obtain ⟨mid', hseg', hmid'⟩ := hp'
  rw [hmid] at hmid'
  have : mid = mid' := List.append_cancel_left (List.append_cancel_right hmid')
  subst this
  exact hseg'.balanced

/-- `Session::require`: the stream ends with the root's `require_end` (checker
`AlwaysConsistent` = 4) carrying the returned output, then `build_end`; the appended events
start with `build_start`. -/
theorem C17_require_end_value_session {f : Nat} {s s' : Sess} {t : Nat} {o : Int}
    (h : sessionRequire sem body f s t = (s', .ok o)) :
    ∃ mid, BalancedR mid ∧
      s'.trace = s.trace ++ [.buildStart] ++ [.requireStart t 4] ++ mid ++
        [.requireEnd t 4 (sem.ostamp 4 o) o, .buildEnd] := by
  obtain ⟨mid, hseg, hmid⟩ := sessionRequire_post sem body (relaxed_ok sem) f s t h
  exact ⟨mid, hseg.balancedR, hmid⟩

/-! ## non-vacuity: two concrete runs -/

namespace C17TraceEx

instance exceptDecEq : DecidableEq (Except Int Bool)
  | .ok a, .ok b => if h : a = b then isTrue (h ▸ rfl) else isFalse (fun h' => by cases h'; exact h rfl)
  | .error a, .error b =>
    if h : a = b then isTrue (h ▸ rfl) else isFalse (fun h' => by cases h'; exact h rfl)
  | .ok _, .error _ => isFalse (fun h => by cases h)
  | .error _, .ok _ => isFalse (fun h => by cases h)
deriving instance DecidableEq for Ev
deriving instance DecidableEq for Res

/-- Task 1 requires task 2 (which writes resource 7), reads resource 7 and returns the sum. -/
def tbl : List (Nat × Script) :=
  [(1, .req 2 0 (.read 7 0 (.ret (.add (.var 0) (.var 1))))),
   (2, .write 7 0 (some (.const 5)) (.ret (.const 3)))]

def run : Sess × Res Int := sessionRequire stdSem (bodyOf tbl) 100 {} 1

example : run.2 = .ok 8 := by decide +kernel
example : Balanced run.1.trace ∧ run.1.trace.length = 14 := by decide +kernel
example : run.1.trace =
    [.buildStart, .requireStart 1 4, .executeStart 1, .requireStart 2 0, .executeStart 2,
      .writeStart 7 0, .writeEnd 7 0 (.optInt (some 5)), .executeEnd 2 3,
      .requireEnd 2 0 (.int 3) 3, .readStart 7 0, .readEnd 7 0 (.optInt (some 5)),
      .executeEnd 1 8, .requireEnd 1 4 .unit 8, .buildEnd] := by decide +kernel

/-- Task 1 requires task 2 and then panics. -/
def tblPanic : List (Nat × Script) := [(1, .req 2 0 .panic), (2, .ret (.const 3))]

def runPanic : Sess × Res Int := sessionRequire stdSem (bodyOf tblPanic) 100 {} 1

/-- The aborted run leaves a strict prefix: well nested so far, three starts unanswered. -/
example : runPanic.2 = .abort .taskPanic ∧ PrefixOfBalanced runPanic.1.trace ∧
    ¬ Balanced runPanic.1.trace ∧
    nest [] runPanic.1.trace = some [(.execute, 1), (.require, 1), (.build, 0)] := by
  decide +kernel
example : runPanic.1.trace =
    [.buildStart, .requireStart 1 4, .executeStart 1, .requireStart 2 0, .executeStart 2,
      .executeEnd 2 3, .requireEnd 2 0 (.int 3) 3] := by decide +kernel

/-- A checker that fails to stamp (`FailStampWhen 5` = checker 35 on content 5): the
`read_start` stays open, the strict machine rejects the stream at `execute_end`, the relaxed
machine accepts it. (Task 1 reads resource 7, whose content is 5, with checker 35.) -/
def tblStamp : List (Nat × Script) := [(1, .read 7 35 (.ret (.const 1)))]

def runStamp : Sess × Res Int :=
  sessionRequire stdSem (bodyOf tblStamp) 100 { fs := [(7, 5)] } 1

example : runStamp.2 = .ok (-105) ∧ runStamp.1.trace =
    [.buildStart, .requireStart 1 4, .executeStart 1, .readStart 7 35, .executeEnd 1 (-105),
      .requireEnd 1 4 .unit (-105), .buildEnd] := by decide +kernel
example : ¬ PrefixOfBalanced runStamp.1.trace ∧ BalancedR runStamp.1.trace := by decide +kernel

/-- So `StampTotal` cannot be dropped from the strict statements. -/
example : ¬ StampTotal stdSem := by
  intro h
  obtain ⟨s, hs⟩ := h 35 (some 5)
  simp [stdSem, stdRStamp] at hs

/-- A bottom-up build after an external change of resource 7 (read by task 1 in `run`). -/
def runBU : Sess × Res Unit :=
  bottomUpBuild stdSem (bodyOf tbl) 100
    ({ run.1.toPie.setContent 7 (some 6) with } : PieSt).newSession [7]

example : Balanced runBU.1.trace ∧ runBU.1.trace.length ≥ 8 := by decide +kernel

end C17TraceEx

end PieModel
