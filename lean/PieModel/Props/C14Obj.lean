/-
C14, object flavour — `MapKeyObjToObj(Box<dyn KeyObj>) -> Box<dyn MapValueObj>`: one global map
whose keys and values are type-erased (`PieModel/Lib/MapObj.lean`).  Key equality and value
equality are `Identity.eqAny` (same concrete type AND equal value).

* read-your-writes, last write wins, most recent write in an arbitrary operation sequence;
* two keys hit the same entry iff they are `eqAny`; keys of different concrete types never alias,
  even with equal fields, and zero-sized values of different types never alias;
* the equality checker is consistent iff the current value/absence equals the stamped one under
  `eqAny`; the three stamping routes agree;
* well-formedness (no two entries with `eqAny`-equal keys) is an invariant;
* refinement of every operation and every operation sequence — states AND outputs — to a total
  function `Key → Option Key`;
* isolation: with the object map stored in its own slot `r` of the type-indexed collection
  (`MapRes.TMap`, the slot model of C14), object-map operations leave every other slot unchanged,
  operations on other slots leave the object map unchanged, and an arbitrary interleaving
  decomposes into the two independent runs.

No statement needs a well-formedness hypothesis on the object state itself: insertion and removal
drop *every* `eqAny`-equal entry.  (`MapRes.WF` of the surrounding collection is needed where the
typed model needs it, cf. `C14_read_write_corrected`.)
-/
import PieModel.Lib.MapObjLemmas

namespace PieModel

open Identity MapObj MapRes

/-! ### read your writes -/

/-- Insertion (`some v`) or removal (`none`) of `k`, then reading `k`. Unconditional. -/
theorem C14_obj_read_your_writes (s : OState) (k : Key) (v : Option Key) :
    objRead (objWrite s k v) k = v := by
  show oget (objWrite s k v) k = v
  rw [oget_objWrite, eqAny_self]; rfl

/-- The same, for any key `k'` that is `eq_any` to the written one (e.g. a separately boxed clone). -/
theorem C14_obj_read_your_writes_eqAny (s : OState) (k k' : Key) (v : Option Key)
    (h : eqAny k k' = true) : objRead (objWrite s k v) k' = v := by
  show oget (objWrite s k v) k' = v
  rw [oget_objWrite, h]; rfl

/-- Keys that are not `eq_any` to the written one are unaffected. -/
theorem C14_obj_read_write_other (s : OState) (k k' : Key) (v : Option Key)
    (h : eqAny k k' = false) : objRead (objWrite s k v) k' = objRead s k' := by
  show oget (objWrite s k v) k' = oget s k'
  rw [oget_objWrite, h]; rfl

/-- The last write to a key wins. -/
theorem C14_obj_read_write_write (s : OState) (k : Key) (v1 v2 : Option Key) :
    objRead (objWrite (objWrite s k v1) k v2) k = v2 :=
  C14_obj_read_your_writes _ k v2

/-- Reads, stamps and checks do not change the state. -/
theorem C14_obj_read_pure (s : OState) (k : Key) (route : StampRoute) (st : Option Key) :
    (ObjOp.read k).apply s = s ∧ (ObjOp.stamp route k).apply s = s ∧ (ObjOp.check k st).apply s = s :=
  ⟨rfl, rfl, rfl⟩

/-! ### aliasing of keys -/

/-- `eq_any` is: same concrete type AND equal value. -/
theorem C14_obj_eqAny_iff (k1 k2 : Key) :
    eqAny k1 k2 = true ↔ k1.ty = k2.ty ∧ k1.val = k2.val := eqAny_iff_fields k1 k2

/-- Two keys hit the same entry (in every state) iff they are `eq_any`; and in a given state, if
`k1` hits entry `i`, then `k2` hits entry `i` iff they are `eq_any`. -/
theorem C14_obj_keys_alias_iff (k1 k2 : Key) :
    ((∀ s, entryOf s k1 = entryOf s k2) ↔ eqAny k1 k2 = true) ∧
    (∀ s i, entryOf s k1 = some i → (entryOf s k2 = some i ↔ eqAny k1 k2 = true)) := by
  refine ⟨⟨?_, fun h s => entryOf_congr h s⟩, ?_⟩
  · intro h
    have h1 := h [(k1, k1)]
    simp only [entryOf, eqAny_self, if_true] at h1
    by_cases he : eqAny k1 k2
    · exact he
    · simp [he] at h1
  · intro s i h1
    exact ⟨fun h2 => eqAny_of_entryOf_eq h1 h2, fun he => by rw [← entryOf_congr he s]; exact h1⟩

/-- The entry a key hits holds an `eq_any`-equal key and the value that `read` returns. -/
theorem C14_obj_entry_spec (s : OState) (k : Key) (i : Nat) (h : entryOf s k = some i) :
    ∃ e, s[i]? = some e ∧ eqAny e.1 k = true ∧ objRead s k = some e.2 := entryOf_spec h

/-- Observable form: a write through `k1` is visible through `k2` (in every state, for every
value) iff the keys are `eq_any`; otherwise it is invisible through `k2`. -/
theorem C14_obj_alias_observable_iff (k1 k2 : Key) :
    ((∀ s v, objRead (objWrite s k1 v) k2 = v) ↔ eqAny k1 k2 = true) ∧
    (eqAny k1 k2 = false → ∀ s v, objRead (objWrite s k1 v) k2 = objRead s k2) := by
  refine ⟨⟨?_, fun h s v => C14_obj_read_your_writes_eqAny s k1 k2 v h⟩,
    fun h s v => C14_obj_read_write_other s k1 k2 v h⟩
  intro h
  by_cases he : eqAny k1 k2
  · exact he
  · have he' : eqAny k1 k2 = false := by simpa using he
    have h1 := h [] (some k1)
    rw [C14_obj_read_write_other [] k1 k2 _ he'] at h1
    simp [objRead] at h1

/-- Keys of different concrete types never alias, even if all their fields coincide. -/
theorem C14_obj_no_alias_types (s : OState) (k1 k2 : Key) (hty : k1.ty ≠ k2.ty)
    (v : Option Key) : objRead (objWrite s k1 v) k2 = objRead s k2 :=
  C14_obj_read_write_other s k1 k2 v (eqAny_of_ty_ne hty)

/-- Zero-sized keys of different types never alias; of the same type they always do. -/
theorem C14_obj_no_alias_zst (s : OState) (t1 t2 : Nat) (v : Option Key) :
    (t1 ≠ t2 → objRead (objWrite s (ozst t1) v) (ozst t2) = objRead s (ozst t2)) ∧
    (t1 = t2 → objRead (objWrite s (ozst t1) v) (ozst t2) = v) := by
  constructor
  · intro h; exact C14_obj_no_alias_types s _ _ h v
  · rintro rfl; exact C14_obj_read_your_writes s _ v

/-! ### the equality checker -/

/-- Consistent iff the current value/absence equals the stamped one under `eq_any`: both absent,
or both present with the same concrete type and equal value. -/
theorem C14_obj_check_iff (s : OState) (k : Key) (stamp : Option Key) :
    objCheck s k stamp = true ↔
      match objRead s k, stamp with
      | some a, some b => a.ty = b.ty ∧ a.val = b.val
      | none, none => True
      | _, _ => False := by
  unfold objCheck
  cases objRead s k <;> cases stamp <;> simp [optEqAny, eqAny_iff_fields]

/-- … which is plain equality of the optional values. -/
theorem C14_obj_check_iff_eq (s : OState) (k : Key) (stamp : Option Key) :
    objCheck s k stamp = true ↔ objRead s k = stamp := optEqAny_iff_eq _ _

/-- Values of different concrete types are never consistent, even with equal fields. -/
theorem C14_obj_check_type_mismatch (s : OState) (k a b : Key) (h : objRead s k = some a)
    (hty : a.ty ≠ b.ty) : objCheck s k (some b) = false := by
  unfold objCheck; rw [h]; exact eqAny_of_ty_ne hty

/-- The three stamping routes (`stamp`, `stamp_reader`, `stamp_writer`) agree: all stamp with the
current value or absence. -/
theorem C14_obj_routes_agree (s : OState) (k : Key) :
    objStampPath s k = objRead s k ∧ objStampReader s k = objRead s k ∧
    objStampWriter s k = objRead s k ∧ ∀ route, objStamp route s k = objRead s k :=
  ⟨rfl, objStampReader_eq s k, rfl, fun route => objStamp_eq_read route s k⟩

/-- A stamp by any route is consistent with the state it was taken in. -/
theorem C14_obj_check_reflexive (s : OState) (k : Key) (route : StampRoute) :
    objCheck s k (objStamp route s k) = true := by
  rw [C14_obj_check_iff_eq, objStamp_eq_read]

/-- A stamp taken (by any route) in `s` checked in `s'`: consistent iff the values agree. -/
theorem C14_obj_check_stamp_iff (s s' : OState) (k : Key) (route : StampRoute) :
    objCheck s' k (objStamp route s k) = true ↔ objRead s' k = objRead s k := by
  rw [C14_obj_check_iff_eq, objStamp_eq_read]

/-- A stamp taken before a write: consistent afterwards iff the written value equals the old one. -/
theorem C14_obj_check_after_write (s : OState) (k : Key) (v : Option Key) (route : StampRoute) :
    objCheck (objWrite s k v) k (objStamp route s k) = true ↔ v = objRead s k := by
  rw [C14_obj_check_stamp_iff, C14_obj_read_your_writes]

/-! ### well-formedness is an invariant -/

theorem C14_obj_wf_empty : ObjWF [] := ObjWF.nil
theorem C14_obj_wf_insert {s : OState} (h : ObjWF s) (k v : Key) : ObjWF (objInsert s k v) :=
  h.insert k v
theorem C14_obj_wf_remove {s : OState} (h : ObjWF s) (k : Key) : ObjWF (objRemove s k) :=
  h.remove k
theorem C14_obj_wf_apply {s : OState} (h : ObjWF s) (op : ObjOp) (hop : op.WF) :
    ObjWF (op.apply s) := h.apply op hop
/-- Every state reachable from a well-formed one (in particular from the empty map) is
well-formed. -/
theorem C14_obj_wf_run {s : OState} (h : ObjWF s) (ops : List ObjOp) (hops : ∀ op ∈ ops, op.WF) :
    ObjWF (objRun s ops) := h.run ops hops

/-- Well-formedness means: no two entries with `eq_any`-equal keys; then the entries are exactly
the graph of `read`, and two entries with `eq_any`-equal keys are the same entry's value. -/
theorem C14_obj_wf_meaning {s : OState} (h : ObjWF s) :
    (akeys s).Nodup ∧ (∀ k v, (k, v) ∈ s ↔ objRead s k = some v) ∧
    (∀ k1 k2 v1 v2, (k1, v1) ∈ s → (k2, v2) ∈ s → eqAny k1 k2 = true → v1 = v2) :=
  ⟨(objWF_iff_nodup s).mp h, fun k v => h.mem_iff_oget k v,
    fun _ _ _ _ h1 h2 he => h.unique h1 h2 he⟩

/-- Insertion leaves no second entry for the key even from an ill-formed state. -/
theorem C14_obj_insert_unique (s : OState) (k v : Key) (e : Key × Key)
    (he : e ∈ objInsert s k v) (hk : eqAny e.1 k = true) : e = (k, v) := by
  unfold objInsert at he
  rw [List.mem_append] at he
  rcases he with he | he
  · have := ((mem_objDrop s k e).mp he).2
    rw [hk] at this; cases this
  · simpa using he

/-! ### refinement to a total function -/

/-- Every operation: the abstraction of the new state is the specification step, and the output
is the specification output. -/
theorem C14_obj_apply_refines (s : OState) (op : ObjOp) :
    absObj (op.apply s) = op.specStep (absObj s) ∧ op.out s = op.specOut (absObj s) :=
  ⟨absObj_apply s op, out_eq_specOut s op⟩

/-- Every operation sequence: final state and the whole list of outputs. No hypotheses. -/
theorem C14_obj_run_refines (s : OState) (ops : List ObjOp) :
    absObj (objRun s ops) = specRun (absObj s) ops ∧
    objRunOut s ops = specRunOut (absObj s) ops := by
  induction ops generalizing s with
  | nil => exact ⟨rfl, rfl⟩
  | cons op ops ih =>
    obtain ⟨h1, h2⟩ := ih (op.apply s)
    constructor
    · simp only [objRun, specRun, List.foldl_cons] at h1 ⊢
      rw [h1, absObj_apply]
    · simp only [objRunOut, specRunOut]
      rw [h2, absObj_apply, out_eq_specOut]

/-- The abstraction of the empty map is the empty function. -/
theorem C14_obj_abs_empty : absObj [] = specEmpty := rfl

/-- Reading after a sequence = the specification after the sequence. -/
theorem C14_obj_read_after_run (s : OState) (ops : List ObjOp) (k : Key) :
    objRead (objRun s ops) k = specRun (absObj s) ops k :=
  congrFun (C14_obj_run_refines s ops).1 k

/-- Most recent write, spelled out: after `before ++ [write k v] ++ later`, where nothing in
`later` inserts/removes a key `eq_any` to `k` or replaces the whole map, reading any key `k'`
that is `eq_any` to `k` yields `v` — whether the write went through a writer or directly through
the resource state (the model has one function for both). -/
theorem C14_obj_most_recent_write (s : OState) (before later : List ObjOp) (k k' : Key)
    (v : Option Key) (hk : eqAny k k' = true)
    (hl : ∀ op ∈ later, op.touches k' = false) :
    objRead (objRun (objWrite (objRun s before) k v) later) k' = v := by
  rw [C14_obj_read_after_run, specRun_of_not_touches later hl]
  exact C14_obj_read_your_writes_eqAny _ k k' v hk

/-- The same with the write as an operation of the sequence. -/
theorem C14_obj_most_recent_insert (s : OState) (before later : List ObjOp) (k v : Key)
    (hl : ∀ op ∈ later, op.touches k = false) :
    objRead (objRun s (before ++ [.insert k v] ++ later)) k = some v := by
  have : objRun s (before ++ [.insert k v] ++ later)
      = objRun (objWrite (objRun s before) k (some v)) later := by
    simp [objRun, List.foldl_append, ObjOp.apply, objWrite]
  rw [this]
  exact C14_obj_most_recent_write s before later k k (some v) (eqAny_self k) hl

theorem C14_obj_most_recent_remove (s : OState) (before later : List ObjOp) (k : Key)
    (hl : ∀ op ∈ later, op.touches k = false) :
    objRead (objRun s (before ++ [.remove k] ++ later)) k = none := by
  have : objRun s (before ++ [.remove k] ++ later)
      = objRun (objWrite (objRun s before) k none) later := by
    simp [objRun, List.foldl_append, ObjOp.apply, objWrite]
  rw [this]
  exact C14_obj_most_recent_write s before later k k none (eqAny_self k) hl

/-- A whole map stored directly through the resource state is what later reads see. -/
theorem C14_obj_read_replace (s s' : OState) (k : Key) :
    objRead ((ObjOp.replace s').apply s) k = objRead s' k := rfl

/-! ### isolation from the typed maps and all other resource types

The object map is the map resource of the key type `MapKeyObjToObj`: in the type-indexed
collection (`MapRes.TMap`) it occupies the slot of one resource type tag `r`.
`SlotHolds m r s` says that slot `r` of `m` holds the object map `s` (keys and values through the
injective encoding `encKey`/`encVal`); `ObjOp.toMOp r` is the object operation performed through
the generic `read`/`write`/`check` of the slot model on slot `r`. -/

/-- The slot-model operations on slot `r` implement the object map (simulation), and return the
object model's outputs. -/
theorem C14_obj_slot_simulates (m : TMap) (hm : MapRes.WF m) (r : Nat) (s : OState)
    (h : SlotHolds m r s) (op : ObjOp) :
    SlotHolds ((op.toMOp r).apply m) r (op.apply s) ∧
    (∀ k, (MapRes.read m r (encKey k)).2 = (objRead s k).map encVal) ∧
    (∀ k st, (MapRes.check m r (encKey k) (st.map encVal)).2 = objCheck s k st) :=
  ⟨h.obj hm op, h.read, h.check⟩

/-- The encoding loses nothing. -/
theorem C14_obj_encoding_injective :
    (∀ a b, encKey a = encKey b ↔ eqAny a b = true) ∧ (∀ a b, encVal a = encVal b → a = b) :=
  ⟨encKey_eq_iff, fun _ _ => encVal_inj⟩

/-- **Isolation.** For a resource type `r' ≠ r`:
(1) an object-map operation leaves slot `r'` unchanged — boxed state, typed `get`, and every
    read of the typed map of key type `r'`;
(2) vice versa, any operation of the slot model on slot `r'` (typed-map write/read/check,
    `set`, `get_or_set_default` with any state type) leaves the object map in slot `r` unchanged. -/
theorem C14_obj_isolated (m : TMap) (r r' : Nat) (hne : r ≠ r') :
    (∀ o : ObjOp,
      getBoxed ((o.toMOp r).apply m) r' = getBoxed m r' ∧
      (∀ sty, get ((o.toMOp r).apply m) r' sty = get m r' sty) ∧
      (∀ key, (MapRes.read ((o.toMOp r).apply m) r' key).2 = (MapRes.read m r' key).2)) ∧
    (∀ (op : MOp) (s : OState), op.slot = r' → SlotHolds m r s → SlotHolds (op.apply m) r s) := by
  constructor
  · intro o
    have h : aget ((o.toMOp r).apply m) r' = aget m r' :=
      aget_apply_other m _ r' (by rw [ObjOp.toMOp_slot]; exact hne)
    have := C14_observations_of_slot h
    exact ⟨this.1, this.2.1, this.2.2.2.1⟩
  · intro op s hs h
    exact h.other op (by rw [hs]; exact Ne.symm hne)

/-- Special case through the existing typed-map lemma: an object insertion/removal is a typed
write on slot `r`, so `C14_write_isolated` applies verbatim. -/
theorem C14_obj_write_isolated (m : TMap) (r r' : Nat) (k : Key) (v : Option Key) (hne : r ≠ r') :
    ∀ key, (MapRes.read (MapRes.write m r (encKey k) (v.map encVal)) r' key).2
      = (MapRes.read m r' key).2 :=
  (C14_write_isolated m r r' (encKey k) (v.map encVal) hne).2.2

/-- **Isolation for arbitrary interleavings.** Run any interleaving of operations on other
resource types (`Sum.inl`, slots `≠ r`) and object-map operations (`Sum.inr`) on a collection
whose slot `r` holds the object map `s`. Then
(1) slot `r` holds exactly the object-model run of the object operations alone, and
(2) every other slot — boxed state, typed `get`, typed-map reads — is exactly what the other
    resources' operations alone produce (the object operations might as well not have happened). -/
theorem C14_obj_isolated_run (m : TMap) (hm : MapRes.WF m) (r : Nat) (s : OState)
    (h : SlotHolds m r s) (ops : List (MOp ⊕ ObjOp)) (hops : ∀ op ∈ ops, MixOK r op) :
    SlotHolds (MapRes.run m (ops.map (lowerOp r))) r (objRun s (objPart ops)) ∧
    ∀ r', r' ≠ r →
      getBoxed (MapRes.run m (ops.map (lowerOp r))) r' = getBoxed (MapRes.run m (typedPart ops)) r' ∧
      (∀ sty, get (MapRes.run m (ops.map (lowerOp r))) r' sty
        = get (MapRes.run m (typedPart ops)) r' sty) ∧
      (∀ key, (MapRes.read (MapRes.run m (ops.map (lowerOp r))) r' key).2
        = (MapRes.read (MapRes.run m (typedPart ops)) r' key).2) := by
  refine ⟨(mixRun_slotHolds hm h ops hops).2, ?_⟩
  intro r' hr'
  have hag := mixRun_agreeOff (m1 := m) (m2 := m) (fun _ _ => rfl) ops hops r' hr'
  have := C14_observations_of_slot hag
  exact ⟨this.1, this.2.1, this.2.2.2.1⟩

/-- Reading the object map after an interleaving, from the empty collection: the specification
run of the object operations alone. -/
theorem C14_obj_read_after_interleaving (r : Nat) (ops : List (MOp ⊕ ObjOp))
    (hops : ∀ op ∈ ops, MixOK r op) (k : Key) :
    (MapRes.read (MapRes.run [] (ops.map (lowerOp r))) r (encKey k)).2
      = (specRun specEmpty (objPart ops) k).map encVal := by
  have := (C14_obj_isolated_run [] MapRes.WF.nil r [] (slotHolds_empty r) ops hops).1
  rw [this.read k, C14_obj_read_after_run]; rfl

/-! ### non-vacuity -/

namespace MapObj

/-- Type tags: 0 = `u32`-like key type A, 1 = key type B with the same fields, 5/6 = two
zero-sized marker types, 7 = a value type. -/
private def demoObjOps : List ObjOp :=
  [.insert (okey 0 1) (okey 7 10),       -- A(1) ↦ 10
   .insert (okey 1 1) (okey 7 20),       -- B(1) ↦ 20: same fields, other type
   .insert (ozst 5) (okey 7 30),         -- marker M ↦ 30
   .insert (ozst 6) (ozst 5),            -- marker N ↦ a zero-sized value
   .read (okey 0 1),
   .stamp .reader (okey 1 1),
   .insert (okey 0 1) (okey 7 11),       -- overwrite
   .check (okey 0 1) (some (okey 7 10)), -- stale stamp
   .check (okey 1 1) (some (okey 7 20)),
   .remove (ozst 5),
   .check (ozst 5) none,
   .check (ozst 6) (some (ozst 6)),      -- value of another zero-sized type: inconsistent
   .stamp .writer (ozst 6)]

example : objRun [] demoObjOps =
    [(okey 1 1, okey 7 20), (ozst 6, ozst 5), (okey 0 1, okey 7 11)] := by decide

example : objRunOut [] demoObjOps =
    [.unit, .unit, .unit, .unit, .value (some (okey 7 10)), .value (some (okey 7 20)), .unit,
     .verdict false, .verdict true, .unit, .verdict true, .verdict false,
     .value (some (ozst 5))] := by decide

example : ObjWF (objRun [] demoObjOps) :=
  C14_obj_wf_run C14_obj_wf_empty demoObjOps (by intro op hop; cases op <;> first | trivial | simp [demoObjOps] at hop)

/-- same fields, different concrete type: no aliasing; zero-sized types of different types: none -/
example : objRead (objInsert (objInsert [] (okey 0 1) (okey 7 10)) (okey 1 1) (okey 7 20)) (okey 0 1)
      = some (okey 7 10) ∧
    objRead (objInsert (objInsert [] (ozst 5) (okey 7 30)) (ozst 6) (okey 7 40)) (ozst 5)
      = some (okey 7 30) ∧
    eqAny (okey 0 1) (okey 1 1) = false ∧ eqAny (ozst 5) (ozst 6) = false ∧
    entryOf (objRun [] demoObjOps) (okey 0 1) = some 2 ∧
    entryOf (objRun [] demoObjOps) (okey 1 1) = some 0 := by decide

/-- the checker compares values with `eq_any`: equal fields of another type are inconsistent -/
example : objCheck [(okey 0 1, okey 7 10)] (okey 0 1) (some (okey 7 10)) = true ∧
    objCheck [(okey 0 1, okey 7 10)] (okey 0 1) (some (okey 8 10)) = false ∧
    objCheck [(okey 0 1, okey 7 10)] (okey 0 1) none = false ∧
    objCheck [(okey 0 1, okey 7 10)] (okey 0 2) none = true := by decide

/-- an ill-formed list (not reachable): insertion and removal still leave no stale entry -/
example : objRead (objRemove [(okey 0 1, okey 7 1), (okey 0 1, okey 7 2)] (okey 0 1)) (okey 0 1) = none ∧
    ¬ ObjWF [(okey 0 1, okey 7 1), (okey 0 1, okey 7 2)] := by
  refine ⟨by decide, ?_⟩
  intro h
  rw [objWF_iff_nodup] at h
  exact absurd h (by decide)

/-- An interleaving with typed maps (key types 0 and 1, a `set`, a `get_or_set_default`), the
object map in slot 9. -/
private def demoMixOps : List (MOp ⊕ ObjOp) :=
  [.inl (.write 0 1 (some 5)), .inr (.insert (okey 0 1) (okey 7 10)),
   .inl (.write 1 1 (some 7)), .inr (.insert (okey 1 1) (okey 7 20)),
   .inl (.set 3 (.int 4)), .inr (.read (ozst 5)), .inl (.getOrSetDefault 8 1),
   .inr (.remove (okey 0 1)), .inl (.write 0 1 none), .inr (.check (okey 1 1) none),
   .inr (.insert (ozst 5) (ozst 6))]

example : ∀ op ∈ demoMixOps, MixOK 9 op := by
  intro op hop
  simp only [demoMixOps, List.mem_cons, List.mem_nil_iff, or_false] at hop
  rcases hop with rfl | rfl | rfl | rfl | rfl | rfl | rfl | rfl | rfl | rfl | rfl <;>
    simp [MixOK, MOp.WF, ObjOp.WF, MOp.slot, Dyn.WF]

example : MapRes.run [] (demoMixOps.map (lowerOp 9)) =
    [(0, .map 0 []), (9, .map 9 [(6, 5248), (32, 64)]), (1, .map 1 [(1, 7)]),
     (3, .int 4), (8, .str "")] := by decide

example : objRun [] (objPart demoMixOps) = [(okey 1 1, okey 7 20), (ozst 5, ozst 6)] ∧
    MapRes.run [] (typedPart demoMixOps) =
      [(0, .map 0 []), (1, .map 1 [(1, 7)]), (3, .int 4), (8, .str "")] := by decide

example : (MapRes.read (MapRes.run [] (demoMixOps.map (lowerOp 9))) 9 (encKey (okey 1 1))).2
      = some (encVal (okey 7 20)) ∧
    (MapRes.read (MapRes.run [] (demoMixOps.map (lowerOp 9))) 9 (encKey (okey 0 1))).2 = none ∧
    (MapRes.read (MapRes.run [] (demoMixOps.map (lowerOp 9))) 1 1).2 = some 7 := by decide

/-- the specification run, evaluated -/
example : specRun specEmpty demoObjOps (okey 0 1) = some (okey 7 11) ∧
    specRun specEmpty demoObjOps (okey 1 1) = some (okey 7 20) ∧
    specRun specEmpty demoObjOps (ozst 5) = none ∧
    specRunOut specEmpty demoObjOps = objRunOut [] demoObjOps := by decide

/-- `later` of `C14_obj_most_recent_insert`: operations on other keys (same fields, other type) -/
example : ∀ op ∈ ([.insert (okey 1 1) (okey 7 20), .remove (ozst 0), .read (okey 0 1)] : List ObjOp),
    op.touches (okey 0 1) = false := by decide

/-- The side condition `MixOK` matters exactly as in the typed case: an access to slot `r` itself
with a foreign state type (not something the `MapKeyObjToObj` resource ever does) wipes the map. -/
example : (MapRes.read (MapRes.run [] ([.inr (.insert (okey 0 1) (okey 7 10)),
      .inl (.getOrSetDefault 9 0)].map (lowerOp 9))) 9 (encKey (okey 0 1))).2 = none ∧
    (MapRes.read (MapRes.run [] ([.inr (.insert (okey 0 1) (okey 7 10)),
      .inl (.getOrSetDefault 8 0)].map (lowerOp 9))) 9 (encKey (okey 0 1))).2
      = some (encVal (okey 7 10)) := by decide

end MapObj

end PieModel
