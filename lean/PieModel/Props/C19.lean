import PieModel.Build.Pie
namespace PieModel
theorem C19_placeholder : True := trivial
end PieModel
