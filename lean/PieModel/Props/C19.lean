/-
Property C19, part 1: an aborted build leaves the `Pie` instance usable.

Every function of the build model returns the session state also when the build aborts (a Rust
panic unwinds and leaves `Pie` as it is at that point).  Here it is proved that *every* such
state — whatever the result, `.ok` or `.abort`, for every fuel, every checker semantics `sem`
and every program table `body` — has a well-formed store (`Store.WF`: graph invariant, exact
lookup tables, typed edges; `PieModel/Build/StoreWF.lean`) and is a well-formed session state
(`SessWF`: additionally the executing task and all queued nodes are task nodes).  Hence after
any history of external changes, top-down sessions and bottom-up builds, aborted or not, the
store is well-formed and a new session can be started on it.

Property statements only; the proofs are in `PieModel/Build/StoreLemmas.lean` (store
operations), `SessWF.lean` (session primitives), `SessWFTopDown.lean`, `SessWFBottomUp.lean`.
-/
import PieModel.Build.SessWFBottomUp
import PieModel.Build.StdSem

namespace PieModel

variable (sem : Sem) (body : Nat → Prog)

/-! ### the `Pie` instance -/

/-- The empty store is well-formed. -/
theorem C19_store_wf_empty : ({} : Store).WF := Store.WF.empty

/-- A new session on a well-formed `Pie` is a well-formed session. -/
theorem C19_newSession_wf (p : PieSt) (h : p.store.WF) : SessWF p.newSession :=
  ⟨h, fun _ hn => (nomatch hn), fun _ hn => (nomatch hn)⟩

/-- Dropping a well-formed session (normally or by unwinding) leaves a well-formed store. -/
theorem C19_toPie_wf (s : Sess) (h : SessWF s) : s.toPie.store.WF := h.store

/-- External changes of the resource state do not touch the store. -/
theorem C19_setContent_store (p : PieSt) (r : Nat) (v : Option Int) :
    (p.setContent r v).store = p.store := by cases v <;> rfl

/-! ### store operations (each preserves `Store.WF`) -/

theorem C19_store_ops_wf (st : Store) (h : st.WF) :
    (∀ t, (st.getOrCreateTaskNode t).1.WF) ∧
    (∀ r, (st.getOrCreateResNode r).1.WF) ∧
    (∀ n o, (st.setTaskOutput n o).WF) ∧
    (∀ n, (st.resetTask n).WF) ∧
    (∀ src dst d, (∃ t, st.taskOf src = some t) → st.DepOK d dst →
      (st.addDependency src dst d).1.WF) ∧
    (∀ src dst d st', st.setDependency src dst d = some st' → st.DepOK d dst → st'.WF) :=
  ⟨h.getOrCreateTaskNode, h.getOrCreateResNode, h.setTaskOutput, h.resetTask,
    fun _ _ _ hs hd => h.addDependency hs hd, fun _ _ _ _ hs hd => Store.WF.setDependency hs h hd⟩

/-- Consequences of `Store.WF` used by the build: resource nodes have no outgoing edges, so
a task → resource dependency can never be rejected as a cycle. -/
theorem C19_task_to_res_never_cyclic (st : Store) (h : st.WF) (src dst : Nat) (d : Dep) (t r : Nat)
    (hs : st.taskOf src = some t) (hd : st.resOf dst = some r) :
    (st.addDependency src dst d).2 = .ok := Store.addDependency_to_res_ok h src dst d hs hd

/-! ### session primitives -/

/-- `read`, `write`, `written_to`: well-formed in, well-formed out, whatever the result. -/
theorem C19_primitives_wf (s : Sess) (h : SessWF s) (r c : Nat) (v : Option Int) :
    SessWF (doRead sem s r c).1 ∧ SessWF (doWrite sem s r c v).1 ∧
      SessWF (doWrote sem s r c v).1 :=
  ⟨(doRead_ext sem h r c).wf, (doWrite_ext sem h r c v).wf, (doWrote_ext sem h r c v).wf⟩

/-- `reserve_require_dependency` towards a task node. -/
theorem C19_reserveRequire_wf (s : Sess) (h : SessWF s) (dst : Nat)
    (hd : ∃ t, s.store.taskOf dst = some t) : SessWF (reserveRequire s dst).1 :=
  (reserveRequire_ext h hd).wf

/-- `update_require_dependency` towards the node of `t`. -/
theorem C19_updateRequire_wf (s : Sess) (h : SessWF s) (dst t c : Nat) (stamp : Stamp)
    (hd : s.store.taskOf dst = some t) : SessWF (updateRequire s dst t c stamp).1 :=
  (updateRequire_ext h c stamp hd).wf

/-! ### top-down -/

/-- The five mutually recursive functions of the top-down context. -/
theorem C19_topdown_wf (fuel : Nat) (s : Sess) (h : SessWF s) :
    (∀ t c, SessWF (tdRequire sem body fuel s t c).1) ∧
    (∀ t, SessWF (tdMake sem body fuel s t).1) ∧
    (∀ node, SessWF (tdCheck sem body fuel s node).1) ∧
    (∀ ds, SessWF (tdCheckDeps sem body fuel s ds).1) ∧
    (∀ p, SessWF (tdRun sem body fuel s p).1) :=
  ⟨fun t c => (tdRequire_ext sem body fuel h t c).wf, fun t => (tdMake_ext sem body fuel h t).wf,
    fun n => (tdCheck_ext sem body fuel h n).wf, fun ds => (tdCheckDeps_ext sem body fuel h ds).wf,
    fun p => (tdRun_ext sem body fuel h p).wf⟩

/-- `Session::require`. -/
theorem C19_sessionRequire_wf (fuel : Nat) (s : Sess) (h : SessWF s) (t : Nat) :
    SessWF (sessionRequire sem body fuel s t).1 := (sessionRequire_ext sem body fuel h t).wf

theorem C19_requireAll_wf (fuel : Nat) (s : Sess) (h : SessWF s) (ts : List Nat) :
    SessWF (requireAll sem body fuel s ts).1 := (requireAll_ext sem body fuel ts h).wf

/-! ### bottom-up -/

theorem C19_scheduling_wf (s : Sess) (h : SessWF s) :
    (∀ tnode d, SessWF (trySchedule sem s tnode d)) ∧
    (∀ r, SessWF (scheduleAffectedBy sem s r)) ∧
    (∀ node t out, SessWF (scheduleAfterExec sem s node t out)) :=
  ⟨fun n d => (trySchedule_ext sem h n d).wf, fun r => (scheduleAffectedBy_ext sem h r).wf,
    fun n t o => (scheduleAfterExec_ext sem h n t o).wf⟩

/-- The six mutually recursive functions of the bottom-up context (`buMake`/`buExec` are called
with a task node). -/
theorem C19_bottomup_wf (fuel : Nat) (s : Sess) (h : SessWF s) :
    (∀ t c, SessWF (buRequire sem body fuel s t c).1) ∧
    (∀ t node, (∃ t', s.store.taskOf node = some t') → SessWF (buMake sem body fuel s t node).1) ∧
    (∀ t node, (∃ t', s.store.taskOf node = some t') → SessWF (buExec sem body fuel s t node).1) ∧
    (∀ node, SessWF (buExecAndSchedule sem body fuel s node).1) ∧
    (∀ src, SessWF (buRequireNow sem body fuel s src).1) ∧
    (∀ p, SessWF (buRun sem body fuel s p).1) :=
  ⟨fun t c => (buRequire_ext sem body fuel h t c).wf,
    fun t _ hn => (buMake_ext sem body fuel h t hn).wf,
    fun t _ hn => (buExec_ext sem body fuel h t hn).wf,
    fun n => (buExecAndSchedule_ext sem body fuel h n).wf,
    fun n => (buRequireNow_ext sem body fuel h n).wf,
    fun p => (buRun_ext sem body fuel h p).wf⟩

theorem C19_buExecuteScheduled_wf (fuel : Nat) (s : Sess) (h : SessWF s) :
    SessWF (buExecuteScheduled sem body fuel s).1 := (buExecuteScheduled_ext sem body fuel h).wf

theorem C19_updateAffectedTasks_wf (fuel : Nat) (s : Sess) (h : SessWF s) :
    SessWF (updateAffectedTasks sem body fuel s).1 := (updateAffectedTasks_ext sem body fuel h).wf

theorem C19_bottomUpBuild_wf (fuel : Nat) (s : Sess) (h : SessWF s) (changed : List Nat) :
    SessWF (bottomUpBuild sem body fuel s changed).1 := (bottomUpBuild_ext sem body fuel h changed).wf

/-! ### nothing is forgotten: the tables only grow -/

/-- Across a whole session (aborted or not) every registered task and resource keeps its node. -/
theorem C19_tables_monotone (fuel : Nat) (s : Sess) (h : SessWF s) (changed roots : List Nat) :
    let s₁ := (bottomUpBuild sem body fuel s changed).1
    let s₂ := (requireAll sem body fuel s₁ roots).1
    (∀ t n, aget s.store.taskNode t = some n → aget s₂.store.taskNode t = some n) ∧
    (∀ r n, aget s.store.resNode r = some n → aget s₂.store.resNode r = some n) := by
  intro s₁ s₂
  have e1 := bottomUpBuild_ext sem body fuel h changed
  have e2 := e1.trans (requireAll_ext sem body fuel roots e1.wf)
  exact ⟨fun t n ht => e2.le.taskNode h.store e2.wf.store ht,
    fun r n hr => e2.le.resNode h.store e2.wf.store hr⟩

/-! ### abort points -/

/-- Every abort point of a top-down session leaves a store on which a new, well-formed session
can be started. -/
theorem C19_abort_topdown_usable (fuel : Nat) (p : PieSt) (h : p.store.WF) (roots : List Nat)
    (s' : Sess) (a : Abort) (hr : requireAll sem body fuel p.newSession roots = (s', .abort a)) :
    s'.toPie.store.WF ∧ SessWF s'.toPie.newSession := by
  have := ((requireAll_ext sem body fuel roots (C19_newSession_wf p h)).out hr).wf
  exact ⟨this.store, C19_newSession_wf _ this.store⟩

/-- Same for a bottom-up build. -/
theorem C19_abort_bottomup_usable (fuel : Nat) (p : PieSt) (h : p.store.WF) (changed : List Nat)
    (s' : Sess) (a : Abort)
    (hr : bottomUpBuild sem body fuel p.newSession changed = (s', .abort a)) :
    s'.toPie.store.WF ∧ SessWF s'.toPie.newSession := by
  have := ((bottomUpBuild_ext sem body fuel (C19_newSession_wf p h) changed).out hr).wf
  exact ⟨this.store, C19_newSession_wf _ this.store⟩

/-! ### histories -/

/-- One step of the life of a `Pie` instance. -/
inductive HStep
  /-- external change of resource `r` through `Pie::resource_state_mut` -/
  | change (r : Nat) (v : Option Int)
  /-- a top-down session requiring `roots` in order -/
  | session (roots : List Nat)
  /-- a session with a bottom-up build for the `changed` resources followed by requiring `roots` -/
  | bottomUp (changed : List Nat) (roots : List Nat)

/-- Run one step.  An aborted session simply ends: the state at the abort point is what `Pie`
keeps (`Sess.toPie`). -/
def runStep (fuel : Nat) (p : PieSt) : HStep → PieSt
  | .change r v => p.setContent r v
  | .session roots => (requireAll sem body fuel p.newSession roots).1.toPie
  | .bottomUp changed roots =>
    match bottomUpBuild sem body fuel p.newSession changed with
    | (s, .abort _) => s.toPie
    | (s, .ok ()) => (requireAll sem body fuel s roots).1.toPie

/-- Run a history from the empty `Pie`. -/
def runHistory (fuel : Nat) (steps : List HStep) : PieSt :=
  steps.foldl (runStep sem body fuel) {}

theorem C19_runStep_wf (fuel : Nat) (p : PieSt) (h : p.store.WF) (st : HStep) :
    (runStep sem body fuel p st).store.WF := by
  cases st with
  | change r v => unfold runStep; rw [C19_setContent_store]; exact h
  | session roots => exact (C19_requireAll_wf sem body fuel _ (C19_newSession_wf p h) roots).store
  | bottomUp changed roots =>
    show (match bottomUpBuild sem body fuel p.newSession changed with
      | (s, .abort _) => s.toPie
      | (s, .ok ()) => (requireAll sem body fuel s roots).1.toPie).store.WF
    have e1 := bottomUpBuild_ext sem body fuel (C19_newSession_wf p h) changed
    split
    next s a heq => exact (e1.out heq).wf.store
    next s heq => exact (C19_requireAll_wf sem body fuel _ (e1.out heq).wf roots).store

/-- **C19 (store part).** After every history — external changes, top-down sessions, bottom-up
builds, any of them possibly aborted at any point — the store is well-formed; for every fuel,
checker semantics and program table. -/
theorem C19_store_wf_history (fuel : Nat) (steps : List HStep) :
    (runHistory sem body fuel steps).store.WF := by
  unfold runHistory
  have key : ∀ (l : List HStep) (p : PieSt), p.store.WF →
      (l.foldl (runStep sem body fuel) p).store.WF := by
    intro l
    induction l with
    | nil => intro p h; exact h
    | cons st l ih => intro p h; exact ih _ (C19_runStep_wf sem body fuel p h st)
  exact key steps {} Store.WF.empty

/-- ... so a new session can always be started. -/
theorem C19_history_usable (fuel : Nat) (steps : List HStep) :
    SessWF (runHistory sem body fuel steps).newSession :=
  C19_newSession_wf _ (C19_store_wf_history sem body fuel steps)

/-- In particular the dependency graph after any history is acyclic. -/
theorem C19_history_acyclic (fuel : Nat) (steps : List HStep) (n : Nat) :
    ¬ (runHistory sem body fuel steps).store.g.Reach n n :=
  (C19_store_wf_history sem body fuel steps).inv.acyclic n

/-! ### non-vacuity: an abort followed by a successful session

Task 0 requires task 1; task 1 reads resource 0 and, if it contains `1`, requires task 0
(a cycle), else returns 5. -/

def c19Body : Nat → Prog
  | 0 => .req 1 0 (fun o => .ret (o + 1))
  | 1 => .read 0 0 (fun x => match x with
      | .ok (some 1) => .req 0 0 (fun o => .ret o)
      | _ => .ret 5)
  | _ => .ret 0

/-- The verdict of a top-down session on `p`: `none` = ok. -/
def c19Verdict (p : PieSt) (roots : List Nat) : Option Abort × Option (List Int) :=
  match requireAll stdSem c19Body 50 p.newSession roots with
  | (_, .abort a) => (some a, none)
  | (_, .ok os) => (none, some os)

def c19P1 : PieSt := runHistory stdSem c19Body 50 [.change 0 (some 1)]
def c19P2 : PieSt := runHistory stdSem c19Body 50 [.change 0 (some 1), .session [0]]
def c19P3 : PieSt := runHistory stdSem c19Body 50 [.change 0 (some 1), .session [0], .change 0 (some 2)]
def c19P4 : PieSt :=
  runHistory stdSem c19Body 50 [.change 0 (some 1), .session [0], .change 0 (some 2), .session [0]]

/-- With resource 0 = 1 the session aborts with a cyclic dependency ... -/
example : c19Verdict c19P1 [0] = (some .cyclic, none) := by with_unfolding_all decide

/-- ... the aborted session leaves both task nodes and the resource node in the store, task 0
executing (no output), with the partial dependencies recorded ... -/
example : c19P2.store.g.len = 3 ∧ c19P2.store.taskNode = [(0, 0), (1, 1)] ∧
    c19P2.store.resNode = [(0, 2)] ∧ c19P2.store.taskOutput 0 = none ∧
    c19P2.store.depsFrom 0 = [.reserved] := by with_unfolding_all decide

/-- ... which is well-formed (by the theorem) ... -/
example : c19P2.store.WF := C19_store_wf_history stdSem c19Body 50 _

/-- ... and after changing the resource, the next session on the same `Pie` succeeds. -/
example : c19Verdict c19P3 [0] = (none, some [6]) := by with_unfolding_all decide

/-- A bottom-up build that aborts (changing resource 0 back to 1 makes task 1 require its own
requirer), followed by a successful top-down session. -/
def c19Verdict' (p : PieSt) (changed : List Nat) : Option Abort :=
  match bottomUpBuild stdSem c19Body 50 p.newSession changed with
  | (_, .abort a) => some a
  | (_, .ok ()) => none

def c19P5 : PieSt := runStep stdSem c19Body 50 c19P4 (.change 0 (some 1))
def c19P6 : PieSt := runStep stdSem c19Body 50 c19P5 (.bottomUp [0] [])
def c19P7 : PieSt := runStep stdSem c19Body 50 c19P6 (.change 0 (some 3))

example : c19Verdict' c19P5 [0] = some .cyclic := by with_unfolding_all decide
example : c19Verdict c19P7 [0] = (none, some [6]) := by with_unfolding_all decide

end PieModel
