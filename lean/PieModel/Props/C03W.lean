/-
Property C03 for programs WITH writes (static roles): closure of bottom-up builds.

"After a bottom-up build in which every resource that changed since all known tasks were last
consistent has been scheduled, every task known to the Pie instance is up to date: requiring any of
them afterwards executes nothing and returns the from-scratch output for the current state.  This
includes tasks that are newly required, or required again, by re-executed tasks during the
bottom-up build."

Setting: every checker semantics `sem` with `StampTotal sem` and `Reflexive sem`; every table of
task programs `body` with static roles (`WellFormedBody ro body`: requires go upward in `ro.rank`,
resource `r` is written only by `ro.gen r`, at most once per execution, a task never reads what it
may write, a reader of a generated resource required its generator earlier on the path) and one
checker per target per execution (`OneChecker`); for the statements about the from-scratch
semantics also `Respects` and `WriteExact` (the hypotheses of C01 in full, `Props/C01Full.lean`).
A `Pie` `p` satisfying `PieInvW ro sem body p` (`Store.WF`, `RolesInv`, `FaithfulO`, unique keys of
the resource map: it holds after every history of top-down sessions and external changes from the
empty `Pie`, and — `C03_chain_writes` — after every returning bottom-up build), and the
start-state hypotheses of `Props/C03.lean`:

* `ShallowReq sem p.store` (necessary: finding K1),
* `Reported sem p.store p.fs changed` — every resource whose recorded read OR WRITE stamp (of a
  task with output) is not accepted against `p.fs` is in `changed`; in particular an externally
  edited GENERATED resource is reported (through the write stamp of its generator: with
  `WriteExact` a write stamp is accepted only for the written content),
* `NoOrphan p.store` (necessary for at-most-once: `Props/C04Once.lean`).

`Store.NoReservedDone` need not be assumed: it follows from `FaithfulO` (`C03_noReservedDone`).

What is new w.r.t. the write-free proof (`Build/Closure/*`): the resources CHANGE during the build.
The invariant `CIW s ch X P` (`Build/ClosureW/Defs.lean`) speaks about the current resource state
`s.fs`; between the moment a generator `W` (re-)writes `r` and the moment `scheduleAfterExec`
re-checks the readers of `r`, a reader may be stale without being queued: its `read` edge is
exempt as long as `W` is on the executing stack `ch` or is the just executed task `P`
(`SCw`/`WrBy`).  Static roles make this harmless: a reader of `r` has a direct `require` edge to
`W` (`RolesInv.read`), so it lies in no clean cone, can be neither required nor popped while `W`
executes (that would close a cycle), and is re-checked right after.  A task that is executed
without having had an output (`buMake` → `buExec`, no `scheduleAfterExec`!) has no reader: no
finished `require` edge points to a node without output that was not popped (`CIW.reqOut`).
The resources a consistent task read or wrote do not change any more (`MonoW.fs`).
The ordered replay `FaithfulO` of every executed body is part of the induction (`BuClosW.run`), so
the `Pie` left behind satisfies `PieInvW` again and the top-down theorems apply to it.
-/
import PieModel.Props.C02IdemW
import PieModel.Props.C04Once
import PieModel.Build.ClosureW.Sources

namespace PieModel

variable {ro : Roles} {sem : Sem} {body : Nat → Prog}

/-! ### 0. the hypotheses -/

/-- `NoReservedDone` (a task with output has no `reserved` dependency) follows from the ordered
faithfulness invariant, hence from `PieInvW`. -/
theorem C03_noReservedDone {p : PieSt} (hp : PieInvW ro sem body p) : p.store.NoReservedDone :=
  hp.nrd

section
variable (hst : StampTotal sem) (hrefl : Reflexive sem) (hwf : WellFormedBody ro body)
  (hone : ∀ t, OneChecker (body t))
  {p : PieSt} {changed : List Nat} (hp : PieInvW ro sem body p) (hno : NoOrphan p.store)
  (hsr : ShallowReq sem p.store) (hrep : Reported sem p.store p.fs changed)

/-! ### 1. the invariant -/

include hp hno hsr hrep in
/-- The invariant holds when `execute_scheduled` starts (empty stack, nothing exempt): in
particular (I1) — every task with output that is not shallow-consistent is queued. -/
theorem C03_invariant_start_writes :
    CIW ro sem body (buStart sem p changed) [] [] [] ∧ TI (buStart sem p changed) [] [] :=
  ciw_start hp hno hsr hrep

include hst hrefl hwf hone in
/-- **The main induction**: `CIW` (with the trace invariant `TI`) is preserved by `buRequire`,
`buMake`, `buExec`, `buExecAndSchedule`, `buRequireNow`, `buRun` when they return (`BuClosW`
spells out the six statements with their side conditions), for every fuel. -/
theorem C03_invariant_preserved_writes (f : Nat) : BuClosW ro sem body f :=
  buClosW hst hrefl hwf hone f

/-! ### 2. closure -/

include hst hrefl hwf hone hp hno hsr hrep in
/-- **C03 (closure), with writes.**  After a returning bottom-up build the queue is empty and
every task node with an output is shallow-consistent w.r.t. the resource state `s'.fs` the build
leaves (all its recorded dependencies — `require`, `read` AND `write` — are accepted against
`s'.fs` / the stored outputs): the set of all task nodes with output is `Settled`.  Resources that
no task generates are untouched. -/
theorem C03_closure_writes (fuel : Nat) (s' : Sess)
    (hr : bottomUpBuild sem body fuel p.newSession changed = (s', .ok ())) :
    s'.queue = [] ∧
    (∀ n, s'.store.taskOutput n ≠ none → SC sem s'.store s'.fs n) ∧
    Settled sem s'.fs s'.store (allOut s'.store) ∧
    (∀ r, ro.gen r = none → aget s'.fs r = aget p.fs r) := by
  obtain ⟨h, hsrc⟩ := bottomUpBuild_closedW hst hrefl hwf hone hp hno hsr hrep fuel s' hr
  exact ⟨h.queue, h.sc, h.settled, hsrc⟩

/-! ### 3. the `Pie` left behind; chains -/

include hst hrefl hwf hone hp hno hsr hrep in
/-- **C03 (chain), with writes.**  The `Pie` left by a returning bottom-up build satisfies all
hypotheses on the store again — also after arbitrary further external changes (of sources and of
generated resources), which do not touch the store — so that only `Reported` (w.r.t. the new
resource state) remains the caller's obligation for the next bottom-up build; without further
changes nothing needs to be reported. -/
theorem C03_chain_writes (fuel : Nat) (s' : Sess)
    (hr : bottomUpBuild sem body fuel p.newSession changed = (s', .ok ())) (p' : PieSt)
    (hp' : p'.store = s'.toPie.store) (hnd : (akeys p'.fs).Nodup) :
    PieInvW ro sem body p' ∧ NoOrphan p'.store ∧ ShallowReq sem p'.store ∧
      (p'.fs = s'.fs → Reported sem p'.store p'.fs []) := by
  obtain ⟨h, _⟩ := bottomUpBuild_closedW hst hrefl hwf hone hp hno hsr hrep fuel s' hr
  have hi := h.inv
  refine ⟨⟨hp' ▸ hi.wf, hp' ▸ hi.roles, hp' ▸ hi.faithful, hnd⟩, ?_, ?_, fun hfs => ?_⟩
  · rw [hp']; exact h.orphan
  · rw [hp']; exact h.shallowReq
  · rw [hp', hfs]; exact h.reported_nil

include hst hrefl hwf hone hp hno hsr hrep in
/-- ... in particular for the `Pie` itself and after any single external change. -/
theorem C03_chain_writes_setContent (fuel : Nat) (s' : Sess)
    (hr : bottomUpBuild sem body fuel p.newSession changed = (s', .ok ())) :
    PieInvW ro sem body s'.toPie ∧
    ∀ r v, PieInvW ro sem body (s'.toPie.setContent r v) ∧
      NoOrphan (s'.toPie.setContent r v).store ∧ ShallowReq sem (s'.toPie.setContent r v).store := by
  obtain ⟨h, _⟩ := bottomUpBuild_closedW hst hrefl hwf hone hp hno hsr hrep fuel s' hr
  refine ⟨h.inv, fun r v => ?_⟩
  obtain ⟨a, b, c, _⟩ := C03_chain_writes hst hrefl hwf hone hp hno hsr hrep fuel s' hr
    (s'.toPie.setContent r v) (C01_setContent_store _ _ _) (h.inv.setContent r v).nodup
  exact ⟨a, b, c⟩

/-! ### 4. at most once -/

include hst hrefl hwf hone hp hno hsr hrep in
/-- **C04 (at most once), with writes.**  In a returning bottom-up build every task is executed
at most once ... -/
theorem C04_bu_once_writes (fuel : Nat) (s' : Sess)
    (hr : bottomUpBuild sem body fuel p.newSession changed = (s', .ok ())) (t : Nat) :
    countExec t s'.trace ≤ 1 :=
  (bottomUpBuild_closedW hst hrefl hwf hone hp hno hsr hrep fuel s' hr).1.once t

include hst hrefl hwf hone hp hno hsr hrep in
/-- ... and every executed task is consistent in the session afterwards. -/
theorem C04_bu_executed_consistent_writes (fuel : Nat) (s' : Sess)
    (hr : bottomUpBuild sem body fuel p.newSession changed = (s', .ok ())) (t : Nat)
    (ht : 1 ≤ countExec t s'.trace) : ∃ n, s'.store.taskOf n = some t ∧ n ∈ s'.consistent :=
  (bottomUpBuild_closedW hst hrefl hwf hone hp hno hsr hrep fuel s' hr).1.exd t ht

/-! ### 5. the headline -/

variable (hresp : ∀ t, Respects sem (body t)) (hwe : ∀ t, WriteExact sem (body t))

include hst hrefl hwf hone hp hno hsr hrep hresp hwe in
/-- **C03, with writes.**  After a returning bottom-up build in which all changed resources were
reported, for EVERY task `t` whose node has an output `o`:
(a) `o` is the from-scratch output of `t` on the CURRENT resources `s'.fs` (`Den`), and every
    resource holds what the from-scratch build of `t` on `s'.fs` leaves in it (`overlay`: the
    generated resources hold the from-scratch contents);
(b) a top-down `require` of `t` — in the same session `s'`, or in a new session on `s'.toPie` —
    with any fuel leaves store and resources unchanged, emits no `executeStart`, and returns `o`
    or runs out of fuel;
(c) for all sufficiently large fuels it returns `o`. -/
theorem C03_sources_writes (fuel : Nat) (s' : Sess)
    (hr : bottomUpBuild sem body fuel p.newSession changed = (s', .ok ()))
    (t m : Nat) (o : Int) (ht : s'.store.taskOf m = some t) (ho : s'.store.taskOutput m = some o) :
    ((∃ ws, Den ro sem body s'.fs t (o, ws)) ∧
      ∀ r, aget s'.fs r = overlay ro sem body s'.fs (Demanded ro sem body s'.fs [t]) r) ∧
    (∀ fuel₂ (s : Sess), (s = s' ∨ s = s'.toPie.newSession) → ∀ s₂ r,
      sessionRequire sem body fuel₂ s t = (s₂, r) →
      s₂.store = s'.store ∧ s₂.fs = s'.fs ∧
      (∃ evs, s₂.trace = s.trace ++ evs ∧ NoExecEvents evs) ∧
      (r = .ok o ∨ r = .abort .outOfFuel)) ∧
    ∃ N, ∀ fuel₂, N ≤ fuel₂ → ∀ s : Sess, (s = s' ∨ s = s'.toPie.newSession) → ∀ s₂ r,
      sessionRequire sem body fuel₂ s t = (s₂, r) → r = .ok o := by
  obtain ⟨h, _⟩ := bottomUpBuild_closedW hst hrefl hwf hone hp hno hsr hrep fuel s' hr
  have hS := h.settled
  have hm : m ∈ allOut s'.store := mem_allOut.mpr (by rw [ho]; simp)
  have hs : ∀ s : Sess, (s = s' ∨ s = s'.toPie.newSession) → s.store = s'.store ∧ s.fs = s'.fs := by
    rintro s (rfl | rfl)
    · exact ⟨rfl, rfl⟩
    · exact ⟨rfl, rfl⟩
  refine ⟨?_, ?_, ?_⟩
  · obtain ⟨hall, hov⟩ := h.den hst hwf hresp hone hwe (ts := [t]) (os := [o])
      (.cons ⟨m, ht, ho⟩ .nil)
    cases hall with
    | cons hd _ => exact ⟨hd, hov⟩
  · intro fuel₂ s hh s₂ r heq
    obtain ⟨h1, h2, ⟨evs, h3, h4⟩, h5⟩ := sessionRequire_quiet (body := body) h.inv.wf hS fuel₂ s
      (hs s hh).1 (hs s hh).2 t m o ht hm ho s₂ r heq
    exact ⟨h1, h2, ⟨evs, h3, noExecEvents_of_isExec h4⟩, h5⟩
  · obtain ⟨N, hN⟩ := sessionRequire_fuel (body := body) h.inv.wf hS t m o ht hm ho
    exact ⟨N, fun f hf s hh s₂ r heq => hN f hf s (hs s hh).1 (hs s hh).2 s₂ r heq⟩

include hst hrefl hwf hone hp hno hsr hrep hresp hwe in
/-- **C03, with writes, for any list of known tasks** (e.g. ALL of them): the stored outputs are
the from-scratch outputs on the current resources, the resources are the from-scratch resources;
requiring them all — same session or a new one, any fuel — executes nothing and touches nothing;
with enough fuel the stored outputs are returned. -/
theorem C03_sources_writes_all (fuel : Nat) (s' : Sess)
    (hr : bottomUpBuild sem body fuel p.newSession changed = (s', .ok ()))
    (ts : List Nat) (os : List Int) (hts : List.Forall₂ (KnownOut s'.store) ts os) :
    (List.Forall₂ (fun t o => ∃ ws, Den ro sem body s'.fs t (o, ws)) ts os ∧
      ∀ r, aget s'.fs r = overlay ro sem body s'.fs (Demanded ro sem body s'.fs ts) r) ∧
    (∀ fuel₂ (s : Sess), (s = s' ∨ s = s'.toPie.newSession) → ∀ s₂ r,
      requireAll sem body fuel₂ s ts = (s₂, r) →
      s₂.store = s'.store ∧ s₂.fs = s'.fs ∧
      (∃ evs, s₂.trace = s.trace ++ evs ∧ NoExecEvents evs) ∧
      (r = .ok os ∨ r = .abort .outOfFuel)) ∧
    ∃ N, ∀ fuel₂, N ≤ fuel₂ → ∀ s : Sess, (s = s' ∨ s = s'.toPie.newSession) → ∀ s₂ r,
      requireAll sem body fuel₂ s ts = (s₂, r) → r = .ok os := by
  obtain ⟨h, _⟩ := bottomUpBuild_closedW hst hrefl hwf hone hp hno hsr hrep fuel s' hr
  have hs : ∀ s : Sess, (s = s' ∨ s = s'.toPie.newSession) → s.store = s'.store ∧ s.fs = s'.fs := by
    rintro s (rfl | rfl)
    · exact ⟨rfl, rfl⟩
    · exact ⟨rfl, rfl⟩
  obtain ⟨hq, N, hN⟩ := h.quiet (sem := sem) (body := body) hts
  refine ⟨h.den hst hwf hresp hone hwe hts, ?_, N, fun f hf s hh s₂ r heq =>
    hN f hf s (hs s hh).1 (hs s hh).2 s₂ r heq⟩
  intro fuel₂ s hh s₂ r heq
  obtain ⟨h1, h2, ⟨evs, h3, h4⟩, h5⟩ := hq fuel₂ s (hs s hh).1 (hs s hh).2 s₂ r heq
  exact ⟨h1, h2, ⟨evs, h3, noExecEvents_of_isExec h4⟩, h5⟩

include hst hrefl hwf hone hp hno hsr hrep hresp hwe in
/-- Two rounds: batch of changes → bottom-up build → more changes (sources or generated
resources) → bottom-up build: every known task has its from-scratch output on the final
resources. -/
theorem C03_two_rounds_writes (fuel : Nat) (s' : Sess)
    (hr : bottomUpBuild sem body fuel p.newSession changed = (s', .ok ())) (p' : PieSt)
    (hp' : p'.store = s'.toPie.store) (hnd : (akeys p'.fs).Nodup) (changed' : List Nat)
    (hrep' : Reported sem p'.store p'.fs changed') (fuel' : Nat) (s'' : Sess)
    (hr' : bottomUpBuild sem body fuel' p'.newSession changed' = (s'', .ok ()))
    (t m : Nat) (o : Int) (ht : s''.store.taskOf m = some t)
    (ho : s''.store.taskOutput m = some o) : ∃ ws, Den ro sem body s''.fs t (o, ws) := by
  obtain ⟨a1, a2, a3, _⟩ := C03_chain_writes hst hrefl hwf hone hp hno hsr hrep fuel s' hr p' hp' hnd
  exact (C03_sources_writes hst hrefl hwf hone a1 a2 a3 hrep' hresp hwe fuel' s'' hr' t m o
    ht ho).1.1

end

/-! ### 6. histories of (external changes; bottom-up build) rounds -/

/-- One round of a bottom-up history: the resource state after arbitrary external changes (of
sources and of generated resources), the resources reported as changed, the fuel of the build. -/
structure BuRound where
  fs : List (Nat × Int)
  changed : List Nat
  fuel : Nat

/-- The `Pie` at the start of the build of round `r`: the store of `p`, the resources of `r`. -/
def BuRound.pie (r : BuRound) (p : PieSt) : PieSt := { store := p.store, fs := r.fs }

/-- The `Pie` after a list of rounds. -/
def runRounds (sem : Sem) (body : Nat → Prog) : PieSt → List BuRound → PieSt
  | p, [] => p
  | p, r :: rs =>
    runRounds sem body (bottomUpBuild sem body r.fuel (r.pie p).newSession r.changed).1.toPie rs

/-- The caller's obligations along a list of rounds: in every round the resource map has unique
keys (a `HashMap`), every resource whose recorded stamp is not accepted is reported, and the
build returns. -/
def RoundsOK (sem : Sem) (body : Nat → Prog) : PieSt → List BuRound → Prop
  | _, [] => True
  | p, r :: rs => (akeys r.fs).Nodup ∧ Reported sem p.store r.fs r.changed ∧
      (bottomUpBuild sem body r.fuel (r.pie p).newSession r.changed).2 = .ok () ∧
      RoundsOK sem body (bottomUpBuild sem body r.fuel (r.pie p).newSession r.changed).1.toPie rs

section
variable (hst : StampTotal sem) (hrefl : Reflexive sem) (hwf : WellFormedBody ro body)
  (hone : ∀ t, OneChecker (body t))
include hst hrefl hwf hone

/-- **C03 over bottom-up histories.**  From a `Pie` satisfying the hypotheses, after ANY number
of rounds (batch of external changes, all of them reported; returning bottom-up build) the
hypotheses on the store hold again, and — if there was at least one round — the final state is
closed: every known task is shallow-consistent w.r.t. the final resources. -/
theorem C03_rounds_writes (rs : List BuRound) : ∀ (p : PieSt), PieInvW ro sem body p →
    NoOrphan p.store → ShallowReq sem p.store → RoundsOK sem body p rs →
    PieInvW ro sem body (runRounds sem body p rs) ∧ NoOrphan (runRounds sem body p rs).store ∧
    ShallowReq sem (runRounds sem body p rs).store ∧
    (rs ≠ [] → ∀ n, (runRounds sem body p rs).store.taskOutput n ≠ none →
      SC sem (runRounds sem body p rs).store (runRounds sem body p rs).fs n) := by
  induction rs with
  | nil => intro p hp hno hsr _; exact ⟨hp, hno, hsr, fun h => absurd rfl h⟩
  | cons r rs ih =>
    intro p hp hno hsr hok
    obtain ⟨hnd, hrep, hret, hrest⟩ := hok
    have hp1 : PieInvW ro sem body (r.pie p) := ⟨hp.wf, hp.roles, hp.faithful, hnd⟩
    have hr := pair_of_snd hret
    obtain ⟨hcl, _⟩ := bottomUpBuild_closedW hst hrefl hwf hone hp1 hno hsr hrep r.fuel _ hr
    obtain ⟨a, b, c, d⟩ := ih _ hcl.inv hcl.orphan hcl.shallowReq hrest
    refine ⟨a, b, c, fun _ => ?_⟩
    cases rs with
    | nil => exact hcl.sc
    | cons r' rs' => exact d (by simp)

variable (hresp : ∀ t, Respects sem (body t)) (hwe : ∀ t, WriteExact sem (body t))
include hresp hwe

/-- ... hence every known task has its from-scratch output on the final resources, and a new
session requiring it executes nothing. -/
theorem C03_rounds_sources_writes (r : BuRound) (rs : List BuRound) (p : PieSt)
    (hp : PieInvW ro sem body p) (hno : NoOrphan p.store) (hsr : ShallowReq sem p.store)
    (hok : RoundsOK sem body p (rs ++ [r])) (t m : Nat) (o : Int)
    (ht : (runRounds sem body p (rs ++ [r])).store.taskOf m = some t)
    (ho : (runRounds sem body p (rs ++ [r])).store.taskOutput m = some o) :
    (∃ ws, Den ro sem body (runRounds sem body p (rs ++ [r])).fs t (o, ws)) ∧
    ∀ fuel₂ s₂ res,
      sessionRequire sem body fuel₂ (runRounds sem body p (rs ++ [r])).newSession t = (s₂, res) →
      NoExecEvents s₂.trace ∧ s₂.fs = (runRounds sem body p (rs ++ [r])).fs := by
  induction rs generalizing p with
  | nil =>
    obtain ⟨hnd, hrep, hret, _⟩ := hok
    have hp1 : PieInvW ro sem body (r.pie p) := ⟨hp.wf, hp.roles, hp.faithful, hnd⟩
    have hr := pair_of_snd hret
    obtain ⟨h1, h2, _⟩ := C03_sources_writes hst hrefl hwf hone hp1 hno hsr hrep hresp hwe r.fuel _
      hr t m o ht ho
    refine ⟨h1.1, fun fuel₂ s₂ res heq => ?_⟩
    obtain ⟨_, hfs, ⟨evs, he, hne⟩, _⟩ := h2 fuel₂ _ (.inr rfl) s₂ res heq
    refine ⟨fun u hu => ?_, hfs⟩
    rw [he] at hu
    exact hne u (by simpa [PieSt.newSession] using hu)
  | cons r' rs ih =>
    obtain ⟨hnd, hrep, hret, hrest⟩ := hok
    have hp1 : PieInvW ro sem body (r'.pie p) := ⟨hp.wf, hp.roles, hp.faithful, hnd⟩
    have hr := pair_of_snd hret
    obtain ⟨hcl, _⟩ := bottomUpBuild_closedW hst hrefl hwf hone hp1 hno hsr hrep r'.fuel _ hr
    exact ih _ hcl.inv hcl.orphan hcl.shallowReq hrest ht ho

end

/-! ### 7. `ShallowReq` after a top-down session (programs with writes)

Bottom-up rounds can be mixed with top-down sessions: `PieInvW` persists over every session
(`C01_pieInv_session`), `NoOrphan` over every returning one (`C03_noOrphan_after_topDown`), and
`ShallowReq` holds of the tasks a returning session made consistent — of all known tasks if the
session visited them all (a PARTIAL session can destroy it: finding K1, `Props/C03.lean`). -/

section
variable (hst : StampTotal sem) (hrefl : Reflexive sem) (hwf : WellFormedBody ro body)
  (hone : ∀ t, OneChecker (body t)) (hresp : ∀ t, Respects sem (body t))
  (hwe : ∀ t, WriteExact sem (body t))
include hst hrefl hwf hone hresp hwe

/-- After a returning top-down session, every task that the session made consistent has an output
and is shallow-consistent w.r.t. the resources the session leaves. -/
theorem C03_shallowReq_after_topDown_writes (fuel : Nat) (p : PieSt) (h : PieInvW ro sem body p)
    (roots : List Nat) (s' : Sess) (os : List Int)
    (hr : requireAll sem body fuel p.newSession roots = (s', .ok os)) :
    ∀ n ∈ s'.consistent, s'.store.taskOutput n ≠ none ∧ SC sem s'.store s'.fs n := by
  obtain ⟨hS, _⟩ := C02_settled_writes hst hwf hresp hone hwe hrefl fuel p h roots s' os hr
  have hw : s'.store.WF := by
    have := (C01_pieInv_session hst hwf hresp hone hwe fuel p h roots).wf
    rw [hr] at this; exact this
  intro n hn
  obtain ⟨⟨o', ho'⟩, hd⟩ := hS n hn
  refine ⟨by rw [ho']; simp, fun e he => ?_⟩
  have hsd := hd e.2 (Store.mem_depsFrom_iff.mpr ⟨e.1, he⟩)
  have hok := (hw.mem_outgoingEdges_ok he).2
  obtain ⟨dst, d⟩ := e
  cases d with
  | reserved => exact hsd.elim
  | read r c stp => exact hsd
  | write r c stp => exact hsd
  | require u c stp =>
    obtain ⟨m, o2, h1, _, h3, h4⟩ := hsd
    have : dst = m := hw.taskOf_inj hok h1
    subst this
    exact ⟨o2, h3, h4⟩

/-- If the session made every task with an output consistent, `ShallowReq` holds afterwards. -/
theorem C03_shallowReq_after_full_topDown_writes (fuel : Nat) (p : PieSt)
    (h : PieInvW ro sem body p) (roots : List Nat) (s' : Sess) (os : List Int)
    (hr : requireAll sem body fuel p.newSession roots = (s', .ok os))
    (hall : ∀ n, s'.store.taskOutput n ≠ none → n ∈ s'.consistent) : ShallowReq sem s'.store := by
  intro n hn dst u c stamp he
  exact (C03_shallowReq_after_topDown_writes hst hrefl hwf hone hresp hwe fuel p h roots s' os hr n
    (hall n hn)).2 _ he

end

/-! ### non-vacuity

The program of `Props/C01Full.lean` with the total and reflexive checker semantics `reflSem`:
task 4 reads source 1 and WRITES resource 10 (twice the value); task 2 requires 4, then reads 10;
task 3 requires 4 if source 2 holds 1; task 1 requires 2 and 3. -/

/-- First build, top-down, on sources `1 ↦ 5, 2 ↦ 1`: the top (task 1) is required. -/
def c03wRun1 := requireAll reflSem fullBody 30 idemPie.newSession [1]

/-- Then source 1 — the source of the WRITER — is set to 6. -/
def c03wPie1 : PieSt := c03wRun1.1.toPie.setContent 1 (some 6)

/-- The bottom-up build told that change. -/
def c03wRun2 := bottomUpBuild reflSem fullBody 40 c03wPie1.newSession [1]

/-- The first build executes the four tasks, returns 115 and generates `10 ↦ 10`; the bottom-up
build re-executes the writer 4 first (it rewrites `10 ↦ 12`), then its readers/requirers 3, 2 and
the top 1, each once, and empties the queue. -/
example : c03wRun1.2.toOption = some [115] ∧ execsOf c03wRun1.1.trace = [1, 2, 4, 3] ∧
    c03wRun1.1.fs = [(1, 5), (2, 1), (10, 10)] ∧
    c03wRun2.2.toOption = some () ∧ execsOf c03wRun2.1.trace = [4, 3, 2, 1] ∧
    c03wRun2.1.fs = [(1, 6), (2, 1), (10, 12)] ∧ c03wRun2.1.queue = [] := by
  with_unfolding_all decide

/-- Afterwards, requiring any of the four tasks — in a new session or in the same one —
executes nothing and returns the from-scratch output for source 1 = 6. -/
example :
    ([1, 2, 3, 4].map fun t =>
      ((sessionRequire reflSem fullBody 30 c03wRun2.1.toPie.newSession t).2.toOption,
       execsOf (sessionRequire reflSem fullBody 30 c03wRun2.1.toPie.newSession t).1.trace,
       (sessionRequire reflSem fullBody 30 c03wRun2.1 t).2.toOption,
       (execsOf (sessionRequire reflSem fullBody 30 c03wRun2.1 t).1.trace).length))
      = [(some 118, [], some 118, 4), (some 12, [], some 12, 4), (some 106, [], some 106, 4),
         (some 6, [], some 6, 4)] := by with_unfolding_all decide

theorem c03wPie1_store : c03wPie1.store = c03wRun1.1.store := C01_setContent_store _ _ _

/-- The hypotheses of C03 with writes hold of `c03wPie1`. -/
theorem c03wPie1_hyps :
    PieInvW fullRoles reflSem fullBody c03wPie1 ∧ NoOrphan c03wPie1.store ∧
    ShallowReq reflSem c03wPie1.store ∧ Reported reflSem c03wPie1.store c03wPie1.fs [1] := by
  have h1 : PieInvW fullRoles reflSem fullBody c03wPie1 :=
    (PieInvW.session reflSem_stampTotal fullBody_wf fullBody_respects_refl fullBody_oneChecker
      fullBody_writeExact_refl idemPie_inv 30 [1]).setContent 1 (some 6)
  refine ⟨h1, ?_⟩
  rw [c03wPie1_store]
  exact ⟨noOrphan_of_B (by with_unfolding_all decide),
    shallowReq_of_B (by with_unfolding_all decide), reported_of_B (by with_unfolding_all decide)⟩

theorem c03wRun2_ok :
    bottomUpBuild reflSem fullBody 40 c03wPie1.newSession [1] = (c03wRun2.1, .ok ()) := by
  have h2 : c03wRun2.2 = .ok () := Res.eq_ok_of_toOption (by with_unfolding_all decide)
  rw [← h2]; rfl

/-- The theorems applied to the run: the state after the bottom-up build is closed, every task
was executed at most once, ... -/
example : c03wRun2.1.queue = [] ∧
    Settled reflSem c03wRun2.1.fs c03wRun2.1.store (allOut c03wRun2.1.store) ∧
    ∀ t, countExec t c03wRun2.1.trace ≤ 1 :=
  have h := c03wPie1_hyps
  have c := C03_closure_writes reflSem_stampTotal reflSem_reflexive fullBody_wf fullBody_oneChecker
    h.1 h.2.1 h.2.2.1 h.2.2.2 40 c03wRun2.1 c03wRun2_ok
  ⟨c.1, c.2.2.1, C04_bu_once_writes reflSem_stampTotal reflSem_reflexive fullBody_wf
    fullBody_oneChecker h.1 h.2.1 h.2.2.1 h.2.2.2 40 c03wRun2.1 c03wRun2_ok⟩

/-- ... 118 is the from-scratch output of the top (task 1, node 0) on the resources the build
left, the reader 2 (node 1) has the from-scratch output 12, and no session on the resulting `Pie`
executes anything when requiring them, whatever the fuel. -/
example : (∃ ws, Den fullRoles reflSem fullBody c03wRun2.1.fs 1 (118, ws)) ∧
    (∃ ws, Den fullRoles reflSem fullBody c03wRun2.1.fs 2 (12, ws)) ∧
    ∀ fuel₂ s₂ r, sessionRequire reflSem fullBody fuel₂ c03wRun2.1.toPie.newSession 1 = (s₂, r) →
      NoExecEvents s₂.trace := by
  have h := c03wPie1_hyps
  obtain ⟨⟨h1, _⟩, h2, _⟩ := C03_sources_writes reflSem_stampTotal reflSem_reflexive fullBody_wf
    fullBody_oneChecker h.1 h.2.1 h.2.2.1 h.2.2.2 fullBody_respects_refl fullBody_writeExact_refl
    40 c03wRun2.1 c03wRun2_ok 1 0 118 (by with_unfolding_all decide) (by with_unfolding_all decide)
  obtain ⟨⟨h3, _⟩, _, _⟩ := C03_sources_writes reflSem_stampTotal reflSem_reflexive fullBody_wf
    fullBody_oneChecker h.1 h.2.1 h.2.2.1 h.2.2.2 fullBody_respects_refl fullBody_writeExact_refl
    40 c03wRun2.1 c03wRun2_ok 2 1 12 (by with_unfolding_all decide) (by with_unfolding_all decide)
  refine ⟨h1, h3, fun fuel₂ s₂ r heq u hu => ?_⟩
  obtain ⟨_, _, ⟨evs, he, hne⟩, _⟩ := h2 fuel₂ _ (.inr rfl) s₂ r heq
  rw [he] at hu
  exact hne u (by simpa [PieSt.newSession] using hu)

/-! ### an externally edited GENERATED resource

After the build above, the generated resource 10 is overwritten from outside (`10 ↦ 99`) and
reported.  `Reported` holds through the WRITE stamp of the generator 4 and the read stamp of the
reader 2; the bottom-up build re-executes the generator, which restores `10 ↦ 12`, and the reader
(whose output does not change, so that nothing else is executed). -/

def c03wPie2 : PieSt := c03wRun2.1.toPie.setContent 10 (some 99)
def c03wRun3 := bottomUpBuild reflSem fullBody 40 c03wPie2.newSession [10]

example : c03wRun3.2.toOption = some () ∧ execsOf c03wRun3.1.trace = [4, 2] ∧
    c03wRun3.1.fs = [(1, 6), (2, 1), (10, 12)] ∧ c03wRun3.1.queue = [] ∧
    ([1, 2, 3, 4].map fun t =>
      ((sessionRequire reflSem fullBody 30 c03wRun3.1.toPie.newSession t).2.toOption,
       execsOf (sessionRequire reflSem fullBody 30 c03wRun3.1.toPie.newSession t).1.trace))
      = [(some 118, []), (some 12, []), (some 106, []), (some 6, [])] := by
  with_unfolding_all decide

/-- The hypotheses hold again (by `C03_chain_writes`, only `Reported` has to be checked) ... -/
theorem c03wPie2_hyps :
    PieInvW fullRoles reflSem fullBody c03wPie2 ∧ NoOrphan c03wPie2.store ∧
    ShallowReq reflSem c03wPie2.store ∧ Reported reflSem c03wPie2.store c03wPie2.fs [10] := by
  have h := c03wPie1_hyps
  obtain ⟨_, hc⟩ := C03_chain_writes_setContent reflSem_stampTotal reflSem_reflexive fullBody_wf
    fullBody_oneChecker h.1 h.2.1 h.2.2.1 h.2.2.2 40 c03wRun2.1 c03wRun2_ok
  obtain ⟨a, b, c⟩ := hc 10 (some 99)
  refine ⟨a, b, c, ?_⟩
  have hst : c03wPie2.store = c03wRun2.1.store := C01_setContent_store _ _ _
  rw [hst]
  exact reported_of_B (by with_unfolding_all decide)

/-- ... and if the edit of the generated resource is NOT reported, `Reported` fails (through the
write stamp of the generator), so the theorems do not apply; indeed the build returns without
executing anything, leaves `10 ↦ 99`, and a later `require` of the reader 2 executes the
generator 4: the known tasks were NOT up to date.  (`Reported` must cover write stamps.) -/
example : reportedB reflSem c03wPie2.store c03wPie2.fs [] = false ∧
    (bottomUpBuild reflSem fullBody 40 c03wPie2.newSession []).2.toOption = some () ∧
    execsOf (bottomUpBuild reflSem fullBody 40 c03wPie2.newSession []).1.trace = [] ∧
    (bottomUpBuild reflSem fullBody 40 c03wPie2.newSession []).1.fs = [(1, 6), (2, 1), (10, 99)] ∧
    execsOf (sessionRequire reflSem fullBody 30
      (bottomUpBuild reflSem fullBody 40 c03wPie2.newSession []).1.toPie.newSession 2).1.trace = [4] := by
  with_unfolding_all decide

theorem c03wRun3_ok :
    bottomUpBuild reflSem fullBody 40 c03wPie2.newSession [10] = (c03wRun3.1, .ok ()) := by
  have h2 : c03wRun3.2 = .ok () := Res.eq_ok_of_toOption (by with_unfolding_all decide)
  rw [← h2]; rfl

/-- The second round, by the theorems. -/
example : c03wRun3.1.queue = [] ∧
    ∃ ws, Den fullRoles reflSem fullBody c03wRun3.1.fs 1 (118, ws) := by
  have h := c03wPie2_hyps
  refine ⟨(C03_closure_writes reflSem_stampTotal reflSem_reflexive fullBody_wf fullBody_oneChecker
    h.1 h.2.1 h.2.2.1 h.2.2.2 40 c03wRun3.1 c03wRun3_ok).1, ?_⟩
  exact (C03_sources_writes reflSem_stampTotal reflSem_reflexive fullBody_wf
    fullBody_oneChecker h.1 h.2.1 h.2.2.1 h.2.2.2 fullBody_respects_refl fullBody_writeExact_refl
    40 c03wRun3.1 c03wRun3_ok 1 0 118 (by with_unfolding_all decide)
    (by with_unfolding_all decide)).1.1

/-- Both rounds at once, by the theorem over histories. -/
def c03wRounds : List BuRound :=
  [{ fs := [(1, 6), (2, 1), (10, 10)], changed := [1], fuel := 40 },
   { fs := [(1, 6), (2, 1), (10, 99)], changed := [10], fuel := 40 }]

example : (runRounds reflSem fullBody c03wRun1.1.toPie c03wRounds).fs = [(1, 6), (2, 1), (10, 12)] := by
  with_unfolding_all decide

theorem c03wRounds_ok : RoundsOK reflSem fullBody c03wRun1.1.toPie c03wRounds :=
  ⟨by decide, reported_of_B (by with_unfolding_all decide),
    Res.eq_ok_of_toOption (by with_unfolding_all decide),
    by decide, reported_of_B (by with_unfolding_all decide),
    Res.eq_ok_of_toOption (by with_unfolding_all decide), trivial⟩

/-- After the two rounds the top (task 1, node 0) has its from-scratch output 118 on the final
resources, and requiring it executes nothing. -/
example : (∃ ws, Den fullRoles reflSem fullBody
      (runRounds reflSem fullBody c03wRun1.1.toPie c03wRounds).fs 1 (118, ws)) ∧
    ∀ fuel₂ s₂ res, sessionRequire reflSem fullBody fuel₂
      (runRounds reflSem fullBody c03wRun1.1.toPie c03wRounds).newSession 1 = (s₂, res) →
      NoExecEvents s₂.trace := by
  have hp : PieInvW fullRoles reflSem fullBody c03wRun1.1.toPie :=
    PieInvW.session reflSem_stampTotal fullBody_wf fullBody_respects_refl fullBody_oneChecker
      fullBody_writeExact_refl idemPie_inv 30 [1]
  obtain ⟨h1, h2⟩ := C03_rounds_sources_writes reflSem_stampTotal reflSem_reflexive fullBody_wf
    fullBody_oneChecker fullBody_respects_refl fullBody_writeExact_refl
    { fs := [(1, 6), (2, 1), (10, 99)], changed := [10], fuel := 40 }
    [{ fs := [(1, 6), (2, 1), (10, 10)], changed := [1], fuel := 40 }] c03wRun1.1.toPie hp
    (noOrphan_of_B (by with_unfolding_all decide)) (shallowReq_of_B (by with_unfolding_all decide))
    c03wRounds_ok 1 0 118 (by with_unfolding_all decide) (by with_unfolding_all decide)
  exact ⟨h1, fun fuel₂ s₂ res heq => (h2 fuel₂ s₂ res heq).1⟩

end PieModel
