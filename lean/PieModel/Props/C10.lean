/-
Property C10: under every sequence of node and edge insertions and removals the graph stays
acyclic and its topological ranks form a bijection onto `1..n` with `rank(src) < rank(dst)` for
every edge.  Adding an edge is rejected as a cycle exactly when the destination already reaches
the source or both are the same node, and a rejected insertion leaves the graph as it was.

Property statements only; the proofs are in `PieModel/Graph/*.lean`.
-/
import PieModel.Graph.AddEdgeInv

namespace PieModel
open Dag

variable {N E : Type}

/-- Every operation preserves the invariant. -/
theorem C10_inv_step (g : Dag N E) (h : g.Inv) (op : Dag.GOp N E) : (g.step op).Inv := by
  cases op with
  | addNode d => exact inv_addNode h d
  | addEdge s t d => exact inv_addEdge h s t d
  | removeEdge s t => exact inv_removeEdge h s t
  | removeOutgoing s => exact inv_removeOutgoing h s
  | removeNode n => exact inv_removeNode h n
  | setNodeData n d => exact inv_setNodeData h n d
  | setEdgeData s t d => exact inv_setEdgeData h s t d

/-- The invariant holds in every reachable graph. -/
theorem C10_inv_reachable (ops : List (Dag.GOp N E)) : (Dag.run ops).Inv := by
  have : ∀ (g : Dag N E), g.Inv → (ops.foldl Dag.step g).Inv := by
    induction ops with
    | nil => intro g h; exact h
    | cons op ops ih => intro g h; exact ih _ (C10_inv_step g h op)
  exact this _ inv_empty

/-- Ranks are a bijection onto `1..n`. -/
theorem C10_ranks_bijection (ops : List (Dag.GOp N E)) :
    (Dag.run ops).ranks.Perm (List.range' 1 (Dag.run ops).nodes.length) :=
  (C10_inv_reachable ops).ranks_perm

/-- Every edge goes upward in rank. -/
theorem C10_edges_upward (ops : List (Dag.GOp N E)) (s d : Nat) :
    (Dag.run ops).HasEdge s d → (Dag.run ops).topoOf s < (Dag.run ops).topoOf d :=
  (C10_inv_reachable ops).upward s d

/-- The graph is acyclic. -/
theorem C10_acyclic (ops : List (Dag.GOp N E)) (n : Nat) : ¬ (Dag.run ops).Reach n n :=
  (C10_inv_reachable ops).acyclic n

/-- `addEdge` reports a cycle exactly when the destination reaches the source or both coincide. -/
theorem C10_addEdge_cycle_iff (g : Dag N E) (h : g.Inv) (s t : Nat) (d : E)
    (hs : g.containsNode s) (ht : g.containsNode t) :
    (g.addEdge s t d).2 = .error .cycle ↔ (s = t ∨ g.Reach t s) :=
  addEdge_cycle_iff h s t d hs ht

/-- A rejected insertion leaves the graph exactly as it was. -/
theorem C10_addEdge_rejected_unchanged (g : Dag N E) (s t : Nat) (d : E) (e : GErr) :
    (g.addEdge s t d).2 = .error e → (g.addEdge s t d).1 = g :=
  addEdge_error_unchanged g s t d e

/-- `addEdge` reports a missing node exactly when one of the endpoints is not live. -/
theorem C10_addEdge_missing_iff (g : Dag N E) (s t : Nat) (d : E) :
    (g.addEdge s t d).2 = .error .nodeMissing ↔
      (g.containsNode s = false ∨ g.containsNode t = false) :=
  addEdge_missing_iff g s t d

/-! ### non-vacuity -/


/-- Six nodes `0..5` with ranks `1..6`, edges `0 → 1` and `2 → 3`. -/
def c10Sample : Dag Unit Unit :=
  Dag.run [.addNode (), .addNode (), .addNode (), .addNode (), .addNode (), .addNode (),
    .addEdge 0 1 (), .addEdge 2 3 ()]

example : c10Sample.ids = [0, 1, 2, 3, 4, 5] ∧ c10Sample.ranks = [1, 2, 3, 4, 5, 6] := by decide

/-- Inserting `3 → 0` (rank 4 → rank 1) succeeds and moves two nodes on each side:
backward set `{2, 3}` gets ranks `1, 2`, forward set `{0, 1}` gets ranks `3, 4`. -/
example :
    (c10Sample.addEdge 3 0 ()).2 = .ok true ∧
    (c10Sample.addEdge 3 0 ()).1.ranks = [3, 4, 1, 2, 5, 6] ∧
    (c10Sample.addEdgeG3 3 0 ()).dfsForward 0 4 = some [1, 0] ∧
    (c10Sample.addEdgeG3 3 0 ()).dfsBackward 3 [1, 0] 1 = [2, 3] :=
  ⟨rfl, by decide, by decide, by decide⟩

/-- With the path `0 → 1 → 2` (length 2), inserting `2 → 0` is rejected as a cycle and the graph
is unchanged. -/
def c10Path : Dag Unit Unit :=
  Dag.run [.addNode (), .addNode (), .addNode (), .addNode (), .addNode (), .addNode (),
    .addEdge 0 1 (), .addEdge 1 2 ()]

example :
    (c10Path.addEdge 2 0 ()).2 = .error .cycle ∧ (c10Path.addEdge 2 0 ()).1.ranks = c10Path.ranks ∧
      c10Path.childrenOf 0 = [1] ∧ c10Path.childrenOf 1 = [2] ∧ c10Path.nodes.length = 6 :=
  ⟨rfl, by decide, by decide, by decide, by decide⟩

end PieModel
