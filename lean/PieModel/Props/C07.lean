import PieModel.Build.Pie
namespace PieModel
theorem C07_placeholder : True := trivial
end PieModel
