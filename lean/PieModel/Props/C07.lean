/-
Property C07: "If executing a task leads, through any chain of requires, to requiring a task
that is still executing, the build aborts with a cyclic-dependency error before any task is
executed a second time; it never recurses without bound and never returns a value for a task
on the cycle."

The Rust call stack of executing tasks is not part of the model state (only `s.cur` is); it is
made explicit in the statements:

* `StackOK s stk` (`PieModel/Build/Stack/Defs.lean`) describes a state `s` in which the tasks
  `stk` (graph nodes, outermost first) are executing: the innermost one is `s.cur`; they are
  pairwise distinct task nodes without output, none marked consistent; **every frame reaches
  every later frame in the dependency graph** (through the `reserved` edge of a pending require,
  or through recorded `require` edges of tasks being validated followed by such an edge);
  tasks with output have no `reserved` dependency; consistent tasks have an output.
* `StackOK` alone is not inductive.  (a) The callee must be *linked* to the stack: `tdMake t`
  for a task `t` whose node is on the stack finds it not consistent and without output, resets it
  and executes it a second time; in a real build this never happens because `tdMake` is only
  called for a node that is reachable from every frame (the require edge was reserved just
  before, or the node is a recorded dependency of the task being validated), and the graph is
  acyclic.  (b) While a dependency `m` of some task is *validated* on behalf of the innermost
  executing task, `m` must not be reset either (its snapshot of dependencies is being walked).
  The inductive invariant `Frames s ch` therefore lists the whole logical call stack `ch`,
  executing **and** validating frames, every frame reaching every later one;
  `StackOK s (s.store.execStack ch)` is its projection (`C07_frames_stackOK`), and the five
  statements carry the link of the callee as a hypothesis.
* `C07_stack_invariant`: the joint induction on fuel over the five mutually recursive top-down
  functions (`TdStack`, `PieModel/Build/Stack/TopDown.lean`).

Proofs: `PieModel/Build/Stack/*.lean`.
-/
import PieModel.Build.Stack.Session
import PieModel.Props.C19

namespace PieModel

variable (sem : Sem) (body : Nat → Prog)

/-! ### the invariant -/

/-- The executing frames of the logical call stack form a stack in the sense of `StackOK`. -/
theorem C07_frames_stackOK {s : Sess} {ch : List Nat} (h : Frames s ch) :
    StackOK s (s.store.execStack ch) := h.stackOK

/-- Between builds (empty stack) the invariant is: well-formed session, `cur = none`, tasks with
output have no `reserved` dependency, consistent tasks have an output. -/
theorem C07_frames_nil_iff {s : Sess} :
    Frames s [] ↔ (SessWF s ∧ Done s) ∧ s.cur = none := by
  rw [Frames.nil_iff]
  exact ⟨fun ⟨h, hc⟩ => ⟨⟨h.wf, h.done⟩, hc⟩, fun ⟨h, hc⟩ => ⟨⟨h.1, h.2⟩, hc⟩⟩

/-- **The executing-stack invariant is maintained by the top-down build** (joint induction on
fuel): see the fields of `TdStack` for the five statements.  `T := True` also carries the trace
invariant `Trc` (for sessions that start with an empty trace), `T := False` drops it. -/
theorem C07_stack_invariant (T : Prop) (f : Nat) : TdStack sem body T f := tdStack sem body f

/-! #### the invariant in terms of the stack of executing tasks

"For the stack `stk` of executing tasks of a logical call stack `ch` with `Frames s ch`: if the
call returns, `StackOK s' stk` holds again for the *same* `stk`." -/

theorem C07_stackOK_of_keeps {s s' : Sess} {ch : List Nat} (h' : Frames s' ch)
    (he : ∀ n ∈ ch, s'.store.taskOutput n = s.store.taskOutput n) :
    StackOK s' (s.store.execStack ch) := by
  rw [← Store.execStack_congr he]; exact h'.stackOK

theorem C07_stackOK_preserved_make (f : Nat) (s : Sess) (ch : List Nat) (t : Nat)
    (h : Frames s ch)
    (hl : ch ≠ [] → ∃ node, s.store.taskOf node = some t ∧ ∀ x ∈ ch, s.store.g.Reach x node)
    (s' : Sess) (v : Int) (hr : tdMake sem body f s t = (s', .ok v)) :
    StackOK s' (s.store.execStack ch) := by
  obtain ⟨f', _, k⟩ := ((tdStack sem body (T := False) f).make s ch t h
    (fun hf => nomatch hf) hl).ok hr
  exact C07_stackOK_of_keeps f' fun n hn => (k n hn).2

theorem C07_stackOK_preserved_check (f : Nat) (s : Sess) (ch : List Nat) (node t : Nat)
    (h : Frames s ch) (ht : s.store.taskOf node = some t) (hnc : node ∉ s.consistent)
    (hr : ∀ x ∈ ch, s.store.g.Reach x node)
    (s' : Sess) (o : Option Int) (heq : tdCheck sem body f s node = (s', .ok o)) :
    StackOK s' (s.store.execStack ch) := by
  obtain ⟨f', _, k, _⟩ := ((tdStack sem body (T := False) f).check s ch node t h
    (fun hf => nomatch hf) ht hnc hr).ok heq
  exact C07_stackOK_of_keeps f' fun n hn => (k n hn).2

theorem C07_stackOK_preserved_checkDeps (f : Nat) (s : Sess) (ch : List Nat) (m : Nat)
    (ds : List Dep) (h : Frames s (ch ++ [m])) (ho : s.store.taskOutput m ≠ none)
    (hpre : ∃ pre, s.store.depsFrom m = pre ++ ds)
    (s' : Sess) (b : Bool) (heq : tdCheckDeps sem body f s ds = (s', .ok b)) :
    StackOK s' (s.store.execStack (ch ++ [m])) := by
  obtain ⟨f', _, k⟩ := ((tdStack sem body (T := False) f).checkDeps s ch m ds h
    (fun hf => nomatch hf) ho hpre).ok heq
  exact C07_stackOK_of_keeps f' fun n hn => (k n hn).2

theorem C07_stackOK_preserved_run (f : Nat) (s : Sess) (ch₀ : List Nat) (a : Nat) (p : Prog)
    (h : Frames s (ch₀ ++ [a])) (hc : s.cur = some a) (hnr : Dep.reserved ∉ s.store.depsFrom a)
    (s' : Sess) (v : Int) (heq : tdRun sem body f s p = (s', .ok v)) :
    StackOK s' (s.store.execStack (ch₀ ++ [a])) := by
  obtain ⟨f', _, k, _⟩ := ((tdStack sem body (T := False) f).run s ch₀ a p h
    (fun hf => nomatch hf) hc hnr).ok heq
  refine C07_stackOK_of_keeps f' fun n hn => ?_
  rcases List.mem_append.mp hn with hn | hn
  · exact (k n hn).2
  · simp at hn; subst hn
    rw [(h.cur_mem hc).2, (f'.cur_mem ((cur_tdRun sem body heq).trans hc)).2]

theorem C07_stackOK_preserved_require (f : Nat) (s : Sess) (ch₀ : List Nat) (top : Option Nat)
    (t c : Nat) (h : Frames s (ch₀ ++ top.toList)) (hc : s.cur = top)
    (hch : top = none → ch₀ = []) (hnr : ∀ a, top = some a → Dep.reserved ∉ s.store.depsFrom a)
    (s' : Sess) (v : Int) (heq : tdRequire sem body f s t c = (s', .ok v)) :
    StackOK s' (s.store.execStack (ch₀ ++ top.toList)) := by
  obtain ⟨f', _, k, _⟩ := ((tdStack sem body (T := False) f).require s ch₀ top t c h
    (fun hf => nomatch hf) hc hch hnr).ok heq
  refine C07_stackOK_of_keeps f' fun n hn => ?_
  rcases List.mem_append.mp hn with hn | hn
  · exact (k n hn).2
  · cases top with
    | none => cases hn
    | some a =>
      simp at hn; subst hn
      rw [(h.cur_mem hc).2, (f'.cur_mem ((cur_tdRequire sem body heq).trans hc)).2]

/-- The frames are pairwise distinct task nodes, so the stack is bounded by the number of
registered tasks: the build never recurses without bound on executing tasks. -/
theorem C07_stack_bounded {s : Sess} {stk : List Nat} (hwf : SessWF s) (hs : StackOK s stk) :
    stk.length ≤ s.store.taskNode.length := by
  have : stk ⊆ s.store.taskNode.map (·.2) := by
    intro n hn
    obtain ⟨t, ht⟩ := hs.task n hn
    obtain ⟨o, ho⟩ := (Store.taskOf_eq_some_iff _ _ _).mp ht
    exact List.mem_map.mpr ⟨(t, n), (hwf.store.mem_taskNode_iff t n).mpr ⟨o, ho⟩, rfl⟩
  simpa using hs.nodup.length_le_of_subset this

/-! ### requiring a task that is still executing -/

/-- **C07.** Requiring a task whose node is on the stack of executing tasks aborts with the
cyclic-dependency error at once: the only effect is the `require_start` event — no dependency is
added, nothing is executed, no value is returned. -/
theorem C07_require_on_stack_aborts (f : Nat) (s : Sess) (stk : List Nat) (t c n : Nat)
    (hwf : SessWF s) (hs : StackOK s stk) (ht : aget s.store.taskNode t = some n)
    (hn : n ∈ stk) :
    tdRequire sem body (f + 1) s t c = (s.emit (.requireStart t c), .abort .cyclic) := by
  have hw := hwf.store
  obtain ⟨a, ha⟩ : ∃ a, stk.getLast? = some a := by
    cases h : stk.getLast? with
    | none => rw [List.getLast?_eq_none_iff] at h; subst h; cases hn
    | some a => exact ⟨a, rfl⟩
  obtain ⟨ys, hy⟩ := List.getLast?_eq_some_iff.mp ha
  have hcur : s.cur = some a := hs.cur.trans ha
  have hcyc : (s.store.addDependency a n .reserved).2 = .cycle := by
    rw [Store.addDependency_snd_cycle_iff hw]
    obtain ⟨ta, hta⟩ := hwf.cur a hcur
    refine ⟨Store.live_of_taskOf hta, Store.live_of_taskOf ((hw.task_iff t n).mp ht), ?_⟩
    subst hy
    rcases List.mem_append.mp hn with h1 | h1
    · exact .inr ((List.pairwise_append.mp hs.path).2.2 n h1 a (by simp))
    · simp at h1; exact .inl h1.symm
  have hadd : s.store.addDependency a n .reserved = (s.store, .cycle) :=
    Prod.ext (Store.addDependency_fst_of_ne_ok _ _ _ (by rw [hcyc]; simp)) hcyc
  have hres : reserveRequire (s.emit (.requireStart t c)) n =
      (s.emit (.requireStart t c), .abort .cyclic) := by
    unfold reserveRequire
    simp only [Sess.cur_emit, hcur, Sess.store_emit, hadd]
  have hst : ({ s.emit (.requireStart t c) with store := s.store } : Sess) =
      s.emit (.requireStart t c) := rfl
  unfold tdRequire
  simp only [Sess.store_emit, Store.getOrCreateTaskNode_of_some ht, hst, hres]

/-- The rejected `reserveRequire` leaves the session state — in particular the dependency
graph — exactly as it was (whatever the reason of the rejection). -/
theorem C07_cycle_abort_clean (s s' : Sess) (dst : Nat) (k : Abort)
    (h : reserveRequire s dst = (s', .abort k)) : s' = s := by
  unfold reserveRequire at h
  split at h
  · cases h
  · split at h
    · cases h
    · cases h; rfl
    · cases h; rfl

/-- ... and at the level of the store: a rejected `add_dependency` returns the store unchanged. -/
theorem C07_cycle_abort_clean_store (st : Store) (src dst : Nat) (d : Dep)
    (h : (st.addDependency src dst d).2 ≠ .ok) : (st.addDependency src dst d).1 = st :=
  Store.addDependency_fst_of_ne_ok src dst d h

/-- On a well-formed stack the only possible rejection is the cycle error. -/
theorem C07_reserve_abort_is_cyclic {s s' : Sess} {ch : List Nat} {dst t : Nat} {k : Abort}
    (h : Frames s ch) (hd : s.store.taskOf dst = some t)
    (heq : reserveRequire s dst = (s', .abort k)) : s' = s ∧ k = .cyclic :=
  reserveRequire_abort h hd heq

/-- **C07.** A require never returns a value for a task on the stack. -/
theorem C07_no_value_on_cycle (f : Nat) (s s' : Sess) (stk : List Nat) (t c n : Nat) (v : Int)
    (hwf : SessWF s) (hs : StackOK s stk) (ht : aget s.store.taskNode t = some n)
    (hr : tdRequire sem body (f + 1) s t c = (s', .ok v)) : n ∉ stk := by
  intro hn
  rw [C07_require_on_stack_aborts sem body f s stk t c n hwf hs ht hn] at hr
  cases hr

/-! ### no re-entry

`execute_start t` is never emitted for a task `t` that is executing: within any call of a
top-down function made in a state satisfying the invariant (with the trace invariant of a
session that started with an empty trace), the number of `execute_start t` events of every task
on the stack of executing tasks does not change — whether the call returns or aborts.  In
particular every nested execution adds a *new* task to the duplicate-free stack. -/

theorem C07_no_reentry_require (f : Nat) (s : Sess) (ch₀ : List Nat) (top : Option Nat) (t c : Nat)
    (h : Frames s (ch₀ ++ top.toList)) (htr : Trc s (ch₀ ++ top.toList)) (hc : s.cur = top)
    (hch : top = none → ch₀ = []) (hnr : ∀ a, top = some a → Dep.reserved ∉ s.store.depsFrom a)
    {n u : Nat} (hn : n ∈ s.store.execStack (ch₀ ++ top.toList)) (hu : s.store.taskOf n = some u) :
    countExec u (tdRequire sem body f s t c).1.trace = countExec u s.trace :=
  no_reentry_of_post ((tdStack sem body f).require s ch₀ top t c h (fun _ => htr) hc hch hnr)
    (fun _ _ hp => (hp.2.1 trivial).once) (ext_tdRequire sem body f s t c) htr hn hu

theorem C07_no_reentry_make (f : Nat) (s : Sess) (ch : List Nat) (t : Nat)
    (h : Frames s ch) (htr : Trc s ch)
    (hl : ch ≠ [] → ∃ node, s.store.taskOf node = some t ∧ ∀ x ∈ ch, s.store.g.Reach x node)
    {n u : Nat} (hn : n ∈ s.store.execStack ch) (hu : s.store.taskOf n = some u) :
    countExec u (tdMake sem body f s t).1.trace = countExec u s.trace :=
  no_reentry_of_post ((tdStack sem body f).make s ch t h (fun _ => htr) hl)
    (fun _ _ hp => (hp.2.1 trivial).once) (ext_tdMake sem body f s t) htr hn hu

theorem C07_no_reentry_check (f : Nat) (s : Sess) (ch : List Nat) (node t : Nat)
    (h : Frames s ch) (htr : Trc s ch) (ht : s.store.taskOf node = some t)
    (hnc : node ∉ s.consistent) (hr : ∀ x ∈ ch, s.store.g.Reach x node)
    {n u : Nat} (hn : n ∈ s.store.execStack ch) (hu : s.store.taskOf n = some u) :
    countExec u (tdCheck sem body f s node).1.trace = countExec u s.trace :=
  no_reentry_of_post ((tdStack sem body f).check s ch node t h (fun _ => htr) ht hnc hr)
    (fun _ _ hp => (hp.2.1 trivial).once) (ext_tdCheck sem body f s node) htr hn hu

theorem C07_no_reentry_checkDeps (f : Nat) (s : Sess) (ch : List Nat) (m : Nat) (ds : List Dep)
    (h : Frames s (ch ++ [m])) (htr : Trc s (ch ++ [m])) (ho : s.store.taskOutput m ≠ none)
    (hpre : ∃ pre, s.store.depsFrom m = pre ++ ds)
    {n u : Nat} (hn : n ∈ s.store.execStack (ch ++ [m])) (hu : s.store.taskOf n = some u) :
    countExec u (tdCheckDeps sem body f s ds).1.trace = countExec u s.trace :=
  no_reentry_of_post ((tdStack sem body f).checkDeps s ch m ds h (fun _ => htr) ho hpre)
    (fun _ _ hp => (hp.2.1 trivial).once) (ext_tdCheckDeps sem body f s ds) htr hn hu

theorem C07_no_reentry_run (f : Nat) (s : Sess) (ch₀ : List Nat) (a : Nat) (p : Prog)
    (h : Frames s (ch₀ ++ [a])) (htr : Trc s (ch₀ ++ [a])) (hc : s.cur = some a)
    (hnr : Dep.reserved ∉ s.store.depsFrom a)
    {n u : Nat} (hn : n ∈ s.store.execStack (ch₀ ++ [a])) (hu : s.store.taskOf n = some u) :
    countExec u (tdRun sem body f s p).1.trace = countExec u s.trace :=
  no_reentry_of_post ((tdStack sem body f).run s ch₀ a p h (fun _ => htr) hc hnr)
    (fun _ _ hp => (hp.2.1 trivial).once) (ext_tdRun sem body f s p) htr hn hu

/-! ### non-vacuity

The two-task cyclic program of `Props/C19.lean`: task 0 requires task 1; task 1 reads resource 0
and, as it contains `1`, requires task 0, which is still executing. -/

/-- The state at the abort point of the session. -/
def c07S : Sess := (requireAll stdSem c19Body 50 c19P1.newSession [0]).1

/-- The session aborts with the cyclic-dependency error ... -/
example : c19Verdict c19P1 [0] = (some .cyclic, none) := by with_unfolding_all decide

/-- ... each of the two tasks was entered exactly once ... -/
example : countExec 0 c07S.trace = 1 ∧ countExec 1 c07S.trace = 1 := by
  with_unfolding_all decide

theorem C07_example_sessOK : SessOK c07S :=
  requireAll_sessOK stdSem c19Body 50
    (sessOK_newSession c19P1 Store.WF.empty Store.NoReservedDone.empty) [0]

/-- ... and at the abort point both tasks are on the stack (node 0 = task 0 below node 1 =
task 1): the hypotheses of `C07_require_on_stack_aborts` are satisfiable with a non-empty
stack ... -/
theorem C07_example_stackOK : StackOK c07S [0, 1] := by
  refine ⟨by with_unfolding_all decide, ?_, by with_unfolding_all decide, by decide,
    by with_unfolding_all decide, ?_, C07_example_sessOK.done.nrd, C07_example_sessOK.done.cons⟩
  · intro n hn
    simp only [List.mem_cons, List.not_mem_nil, or_false] at hn
    rcases hn with rfl | rfl
    · exact ⟨0, by with_unfolding_all decide⟩
    · exact ⟨1, by with_unfolding_all decide⟩
  · refine List.pairwise_pair.mpr (.edge ?_)
    show 1 ∈ c07S.store.g.childrenOf 0
    with_unfolding_all decide

/-- ... so requiring task 0 (or task 1) again in that state aborts at once, for every fuel,
output checker and whatever the task bodies are. -/
example (body : Nat → Prog) (f c : Nat) :
    tdRequire stdSem body (f + 1) c07S 0 c = (c07S.emit (.requireStart 0 c), .abort .cyclic) :=
  C07_require_on_stack_aborts stdSem body f c07S [0, 1] 0 c 0 C07_example_sessOK.wf C07_example_stackOK
    (by with_unfolding_all decide) (by decide)

example (body : Nat → Prog) (f c : Nat) :
    tdRequire stdSem body (f + 1) c07S 1 c = (c07S.emit (.requireStart 1 c), .abort .cyclic) :=
  C07_require_on_stack_aborts stdSem body f c07S [0, 1] 1 c 1 C07_example_sessOK.wf C07_example_stackOK
    (by with_unfolding_all decide) (by decide)

/-- The link hypothesis of `tdMake` (the callee is reachable from every frame) cannot be dropped:
calling `tdMake` out of the blue for task 0, which is on the stack, executes it a second time
(`StackOK` alone is not inductive). -/
example : countExec 0 c07S.trace = 1 ∧
    countExec 0 (tdMake stdSem c19Body 50 c07S 0).1.trace = 2 := by with_unfolding_all decide

/-- The stack invariant holds at the start of every session on a fresh `Pie`. -/
example : Frames ({} : PieSt).newSession [] :=
  Frames.nil_iff.mpr ⟨sessOK_newSession {} Store.WF.empty Store.NoReservedDone.empty, rfl⟩

end PieModel
