/-
Property C01 in full (top-down) — outputs AND resource contents equal the from-scratch build —
and the minimality clause of C02, for programs with writes under TRANSITIVE static roles.

`Props/C01Full.lean` proves C01 in full under DIRECT static roles (`WellFormedBody ro body`: a
reader of a generated resource has required the generator itself earlier on the path).  Here the
same theorems are proved for `WellFormedCov cr body` (`Build/TransRoles/Defs.lean`): a reader of a
generated resource has required the generator *or a task covering it* (a relay, a chain of
relays); every path of a body to `ret` has required a cover of everything in `cr.cov` of its task.
`PrefixCov` is NOT needed (it is needed for the absence of `hidden` aborts after task panics,
`Props/C20Trans.lean`; C01 only speaks about sessions that return).

Quantifier: every checker semantics with total resource stampers (`StampTotal`), every table of
task programs `body` with `WellFormedCov cr body`, `Respects`, `OneChecker`, `WriteExact`; every
fuel; every history of external changes (of any resource, generated ones included) and top-down
sessions (any of them possibly aborted) from the empty `Pie`.

Reference semantics.  `Den`/`EvalW` of `SoundW/Defs.lean` look a generated resource up in the
environment of the tasks required DIRECTLY on the path, so behind a relay they would see the
start content (see `C01_trans_old_den_wrong` below): they had to be generalised.
`DenCv`/`EvalCv` (`Build/TransSound/Defs.lean`): a `read` of a generated resource sees what the
from-scratch execution of its generator leaves in it; `CallsCv`, `DemandedCv`, `overlayCv` are
defined from it as before.  On programs with direct roles they coincide with the old ones
(`C01_trans_den_direct`, `C01_trans_demanded_direct`, `C01_trans_overlay_direct`), and
`C01_full_history` is recovered (`C01_trans_history_direct`).

Store invariant on a `Pie`: `PieInvCv` (`Store.WF`, `CovInv`, `FaithfulO`, unique keys of the
resource map); session invariant `SInvCvD`.  The proof is the joint induction `tdSoundCv`
(`Build/TransSound/*.lean`), a copy of `tdSoundW` in which the direct edge reader → generator
(`RolesInv.read`) is replaced by the cover argument (`SInvCvD.consT_cov`): a consistent task has
everything in its cover consistent, because its from-scratch execution returns and therefore
requires a cover of it (`DenCv.covered`).
-/
import PieModel.Build.TransSound.History
import PieModel.Build.TransSound.Direct
import PieModel.Build.Proofs.DecEq
import PieModel.Props.C01Full
import PieModel.Props.C20Trans

namespace PieModel

open TransRoles TransSound

variable {cr : CRoles} {sem : Sem} {body : Nat → Prog}

/-! ### the from-scratch semantics -/

theorem C01_trans_den_deterministic {ro : Roles} {fs₀ : List (Nat × Int)} {t : Nat}
    {a b : Int × Writes} (h1 : DenCv ro sem body fs₀ t a) (h2 : DenCv ro sem body fs₀ t b) :
    a = b := h1.det h2

/-- Only the generator of a resource writes it, so the ideal final state is well defined. -/
theorem C01_trans_overlay_unique (hwf : WellFormedCov cr body) {fs₀ : List (Nat × Int)}
    {D : Nat → Prop} {r : Nat} {x : Option Int} (h : OverlayAtCv cr.toRoles sem body fs₀ D r x) :
    overlayCv cr.toRoles sem body fs₀ D r = x := overlayCv_eq hwf h

/-- A task whose from-scratch execution returns has required, directly, a task covering each
member of its cover: what `cov` promises holds in the reference semantics. -/
theorem C01_trans_cover_semantic (hwf : WellFormedCov cr body) {fs₀ : List (Nat × Int)} {t : Nat}
    {res : Int × Writes} (h : DenCv cr.toRoles sem body fs₀ t res) {u : Nat} (hu : u ∈ cr.cov t) :
    ∃ m, CallsCv cr.toRoles sem body fs₀ t m ∧ (m = u ∨ u ∈ cr.cov m) := DenCv.covered hwf h hu

/-! ### coincidence with the direct-role semantics -/

/-- On programs with direct static roles the generalised semantics is the old one. -/
theorem C01_trans_den_direct {ro : Roles} (hwf : WellFormedBody ro body) (fs₀ : List (Nat × Int))
    (t : Nat) (res : Int × Writes) :
    Den ro sem body fs₀ t res ↔ DenCv ro sem body fs₀ t res := den_iff_denCv hwf t res

theorem C01_trans_demanded_direct {ro : Roles} (hwf : WellFormedBody ro body)
    (fs₀ : List (Nat × Int)) (roots : List Nat) (t : Nat) :
    Demanded ro sem body fs₀ roots t ↔ DemandedCv ro sem body fs₀ roots t :=
  demanded_iff_demandedCv hwf roots t

theorem C01_trans_overlay_direct {ro : Roles} (hwf : WellFormedBody ro body)
    (fs₀ : List (Nat × Int)) (roots : List Nat) (r : Nat) :
    overlay ro sem body fs₀ (Demanded ro sem body fs₀ roots) r =
      overlayCv ro sem body fs₀ (DemandedCv ro sem body fs₀ roots) r :=
  overlay_demanded_eq_overlayCv hwf roots r

theorem C01_trans_pieInv_empty : PieInvCv cr sem body ({} : PieSt) := PieInvCv.empty

/-- A new session on a `Pie` satisfying the invariants satisfies the session invariant. -/
theorem C01_trans_invariant_newSession (p : PieSt) (h : PieInvCv cr sem body p) (D : Nat → Prop) :
    SInvCvD cr sem body p.fs D p.newSession := SInvCvD.newSession h

section
variable (hst : StampTotal sem) (hwf : WellFormedCov cr body)
  (hresp : ∀ t, Respects sem (body t)) (hone : ∀ t, OneChecker (body t))
  (hwe : ∀ t, WriteExact sem (body t))
include hst hwf hresp hone hwe

/-! ### 1. the invariants persist, whatever the result -/

/-- A whole session, aborted or not, on a `Pie` satisfying the invariants (`Store.WF`, `CovInv`,
`FaithfulO`, unique keys of the resource map) leaves such a `Pie`. -/
theorem C01_trans_pieInv_session (fuel : Nat) (p : PieSt) (h : PieInvCv cr sem body p)
    (roots : List Nat) :
    PieInvCv cr sem body (requireAll sem body fuel p.newSession roots).1.toPie :=
  h.session hst hwf hresp hone hwe fuel roots

/-! ### 2. `make_task_consistent` -/

/-- If `make_task_consistent` returns `v` for task `t` (by validation or by execution) from a
state satisfying the invariant of a session started on `fs₀`, then `v` is the from-scratch output
of `t` on `fs₀`, the resources generated by `t` hold what its from-scratch execution leaves in
them, every task in the cover of `t` is consistent, and the invariant holds afterwards. -/
theorem C01_trans_make (fs₀ : List (Nat × Int)) (fuel : Nat) (s s' : Sess) (t : Nat) (v : Int)
    (h : SInvCv cr sem body fs₀ s) (hc : CurReach s (nodeOf s t)) (hp : ReqPre cr.toRoles s t)
    (hr : tdMake sem body fuel s t = (s', .ok v)) :
    (∃ ws, DenCv cr.toRoles sem body fs₀ t (v, ws) ∧
      ∀ r, cr.gen r = some t → aget s'.fs r = (wget ws r).getD (aget fs₀ r)) ∧
    nodeOf s t ∈ s'.consistent ∧ s'.store.taskOutput (nodeOf s t) = some v ∧
    (∀ u ∈ cr.cov t, ConsT s' u) ∧ SInvCv cr sem body fs₀ s' := by
  have hD : CallClosedCv cr.toRoles sem body fs₀ (fun _ => True) := fun _ _ _ _ => trivial
  obtain ⟨st, h1, h2, h3, _⟩ :=
    ((tdSoundCv (fs₀ := fs₀) (D := fun _ => True) hst hwf hresp hone hwe hD fuel).make s t h hc hp
      trivial).ok _ _ hr
  obtain ⟨t', o, ws, ht', ho, hd, _, hf, _⟩ := st.inv.sound _ h1
  rw [h3] at ht'; cases ht'
  rw [h2] at ho; cases ho
  exact ⟨⟨ws, hd, hf⟩, h1, h2, fun u hu => st.inv.consT_cov hwf ⟨_, h1, h3⟩ hu, st.inv⟩

/-! ### 3. one session -/

/-- **C01 for one session** (transitive roles).  The outputs are the from-scratch outputs of the
roots on the resource state `p.fs` the session started with, and every resource holds afterwards
what the from-scratch build of the same roots leaves in it: `p.fs` overlaid by the writes of the
demanded tasks. -/
theorem C01_trans_session (fuel : Nat) (p : PieSt) (h : PieInvCv cr sem body p) (roots : List Nat)
    (s' : Sess) (os : List Int) (hr : requireAll sem body fuel p.newSession roots = (s', .ok os)) :
    List.Forall₂ (fun t o => ∃ ws, DenCv cr.toRoles sem body p.fs t (o, ws)) roots os ∧
    (∀ r, aget s'.fs r =
      overlayCv cr.toRoles sem body p.fs (DemandedCv cr.toRoles sem body p.fs roots) r) ∧
    PieInvCv cr sem body s'.toPie := by
  obtain ⟨hinv, _, hall, hfs⟩ := session_fullCv hst hwf hresp hone hwe h fuel roots hr
  exact ⟨hall, hfs, hinv.wf.store, hinv.roles, hinv.faithful, hinv.nodup⟩

/-- The model's own clean build computes the reference semantics: outputs and resources. -/
theorem C01_trans_clean_build_den (fuel : Nat) (fs : List (Nat × Int)) (hn : (akeys fs).Nodup)
    (roots : List Nat) (s : Sess) (os : List Int)
    (hr : cleanBuild sem body fuel fs roots = (s, .ok os)) :
    List.Forall₂ (fun t o => ∃ ws, DenCv cr.toRoles sem body fs t (o, ws)) roots os ∧
    ∀ r, aget s.fs r = overlayCv cr.toRoles sem body fs (DemandedCv cr.toRoles sem body fs roots) r :=
  cleanBuild_fullCv hst hwf hresp hone hwe fuel fs hn roots hr

/-! ### 4. against the clean build -/

/-- An incremental session on any `Pie` satisfying the invariants returns the same outputs and
leaves the same content in every resource as the from-scratch build of the same roots on the same
resource state (whenever the latter returns, for any fuel). -/
theorem C01_trans_equals_clean_build (fuel fuel' : Nat) (p : PieSt) (h : PieInvCv cr sem body p)
    (roots : List Nat) (s' sc : Sess) (os os' : List Int)
    (hr : requireAll sem body fuel p.newSession roots = (s', .ok os))
    (hc : cleanBuild sem body fuel' p.fs roots = (sc, .ok os')) :
    os = os' ∧ ∀ r, aget s'.fs r = aget sc.fs r := by
  obtain ⟨h1, h2, _⟩ := C01_trans_session hst hwf hresp hone hwe fuel p h roots s' os hr
  obtain ⟨h3, h4⟩ := C01_trans_clean_build_den hst hwf hresp hone hwe fuel' p.fs h.nodup roots sc
    os' hc
  exact ⟨forall₂_denCv_unique h1 h3, fun r => by rw [h2 r, h4 r]⟩

/-! ### 5. histories -/

/-- **C01 over histories** (transitive roles).  For every history of external changes (of any
resource, generated ones included) and top-down sessions (any of them possibly aborted) run from
the empty `Pie`: every session that returned has the from-scratch outputs and leaves the
from-scratch resource state; and the invariants hold at the end. -/
theorem C01_trans_history (fuel : Nat) (steps : List TStep) :
    PieInvCv cr sem body (runStepsW sem body fuel {} steps).1 ∧
    ∀ e ∈ (runStepsW sem body fuel {} steps).2,
      List.Forall₂ (fun t o => ∃ ws, DenCv cr.toRoles sem body e.before t (o, ws)) e.roots e.outs ∧
      ∀ r, aget e.after r =
        overlayCv cr.toRoles sem body e.before
          (DemandedCv cr.toRoles sem body e.before e.roots) r := by
  obtain ⟨h1, h2⟩ := runStepsCv_sound hst hwf hresp hone hwe fuel steps {} PieInvCv.empty
  exact ⟨h1, fun e he => ⟨(h2 e he).1, (h2 e he).2.1⟩⟩

/-- **... and agrees with the clean build** of the same roots on the resource state it started
with: same outputs, same content of every resource. -/
theorem C01_trans_history_equals_clean_build (fuel fuel' : Nat) (steps : List TStep) (e : SessLog)
    (he : e ∈ (runStepsW sem body fuel {} steps).2) (sc : Sess) (os' : List Int)
    (hc : cleanBuild sem body fuel' e.before e.roots = (sc, .ok os')) :
    e.outs = os' ∧ ∀ r, aget e.after r = aget sc.fs r := by
  obtain ⟨_, h2⟩ := runStepsCv_sound hst hwf hresp hone hwe fuel steps {} PieInvCv.empty
  obtain ⟨h1, h2', _, hn⟩ := h2 e he
  obtain ⟨h3, h4⟩ := C01_trans_clean_build_den hst hwf hresp hone hwe fuel' e.before hn e.roots sc
    os' hc
  exact ⟨forall₂_denCv_unique h1 h3, fun r => by rw [h2' r, h4 r]⟩

/-! ### 6. minimality (C02, last clause) -/

/-- Every task executed by an incremental session that returns is demanded: the from-scratch
build of the same roots on the current resource state executes it, too. -/
theorem C02_trans_minimal (fuel : Nat) (p : PieSt) (h : PieInvCv cr sem body p) (roots : List Nat)
    (s' : Sess) (os : List Int) (hr : requireAll sem body fuel p.newSession roots = (s', .ok os))
    (t : Nat) (ht : Ev.executeStart t ∈ s'.trace) : DemandedCv cr.toRoles sem body p.fs roots t :=
  ((session_fullCv hst hwf hresp hone hwe h fuel roots hr).1.executed t ht).1

/-- Minimality over histories. -/
theorem C02_trans_minimal_history (fuel : Nat) (steps : List TStep) (e : SessLog)
    (he : e ∈ (runStepsW sem body fuel {} steps).2) (t : Nat) (ht : Ev.executeStart t ∈ e.trace) :
    DemandedCv cr.toRoles sem body e.before e.roots t :=
  ((runStepsCv_sound hst hwf hresp hone hwe fuel steps {} PieInvCv.empty).2 e he).2.2.1 t ht

end

/-! ### 7. the direct-role theorem is the special case `cov = fun _ => []` -/

/-- `C01_full_history` (its conclusion about the sessions that returned), obtained from
`C01_trans_history` at `CRoles.direct ro` through the coincidence of the semantics. -/
theorem C01_trans_history_direct {ro : Roles} (hst : StampTotal sem) (hwf : WellFormedBody ro body)
    (hresp : ∀ t, Respects sem (body t)) (hone : ∀ t, OneChecker (body t))
    (hwe : ∀ t, WriteExact sem (body t)) (fuel : Nat) (steps : List TStep) :
    ∀ e ∈ (runStepsW sem body fuel {} steps).2,
      List.Forall₂ (fun t o => ∃ ws, Den ro sem body e.before t (o, ws)) e.roots e.outs ∧
      ∀ r, aget e.after r =
        overlay ro sem body e.before (Demanded ro sem body e.before e.roots) r := by
  intro e he
  obtain ⟨h1, h2⟩ := (C01_trans_history (cr := CRoles.direct ro) hst
    ((wellFormedCov_direct_iff ro body).mpr hwf) hresp hone hwe fuel steps).2 e he
  refine ⟨?_, fun r => ?_⟩
  · have key : ∀ {ts : List Nat} {os : List Int},
        List.Forall₂ (fun t o => ∃ ws, DenCv ro sem body e.before t (o, ws)) ts os →
        List.Forall₂ (fun t o => ∃ ws, Den ro sem body e.before t (o, ws)) ts os := by
      intro ts os h
      induction h with
      | nil => exact .nil
      | cons ha _ ih =>
        obtain ⟨ws, hd⟩ := ha
        exact .cons ⟨ws, (den_iff_denCv hwf _ _).mpr hd⟩ ih
    exact key h1
  · rw [h2 r]
    exact (overlay_demanded_eq_overlayCv hwf e.roots r).symm

/-! ### non-vacuity: the relay program of `Props/C20Trans.lean`

`relayBody`: task 5 generates resource 10 from source 1; task 4 is a relay (requires 5, then
reads source 2); task 3 is a chained relay (requires 4); readers of 10: task 1 through 3 (→ 4 →
5), task 2 through 4 (shared with 3), task 0 directly through 5.  All checkers are the exact ones
(id 0) of `totalSem`. -/

theorem relayBody_respects : ∀ t, Respects totalSem (relayBody t) := by
  intro t
  match t with
  | 0 =>
    refine ⟨fun _ _ _ => rfl, fun o => ⟨fun v v' s h1 h2 => by rw [totalSem_rcheck0 h1 h2],
      fun x => ?_⟩⟩
    dsimp only
    split <;> trivial
  | 1 =>
    refine ⟨fun o o' h => by rw [totalSem_ocheck0 h],
      fun o => ⟨fun v v' s h1 h2 => by rw [totalSem_rcheck0 h1 h2], fun x => ?_⟩⟩
    dsimp only
    split <;> trivial
  | 2 =>
    refine ⟨fun _ _ _ => rfl, fun o => ⟨fun v v' s h1 h2 => by rw [totalSem_rcheck0 h1 h2],
      fun x => ?_⟩⟩
    dsimp only
    split <;> trivial
  | 3 => exact ⟨fun o o' h => by rw [totalSem_ocheck0 h], fun _ => trivial⟩
  | 4 =>
    refine ⟨fun o o' h => by rw [totalSem_ocheck0 h],
      fun o => ⟨fun v v' s h1 h2 => by rw [totalSem_rcheck0 h1 h2], fun x => ?_⟩⟩
    dsimp only
    split <;> trivial
  | 5 =>
    exact ⟨fun v v' s h1 h2 => by rw [totalSem_rcheck0 h1 h2], fun x => fun _ => trivial⟩
  | _ + 6 => trivial

theorem relayBody_oneChecker : ∀ t, OneChecker (relayBody t) := by
  intro t
  match t with
  | 0 | 1 | 2 =>
    refine ⟨fun c' h => (nomatch h), fun o => ⟨fun c' h => (nomatch h), fun x => ?_⟩⟩
    dsimp only
    split <;> trivial
  | 3 => exact ⟨fun c' h => (nomatch h), fun _ => trivial⟩
  | 4 =>
    refine ⟨fun c' h => (nomatch h), fun o => ⟨fun c' h => (nomatch h), fun x => ?_⟩⟩
    dsimp only
    split <;> trivial
  | 5 => exact ⟨fun c' h => (nomatch h), fun x => ⟨by simp, fun _ => trivial⟩⟩
  | _ + 6 => trivial

theorem relayBody_writeExact : ∀ t, WriteExact totalSem (relayBody t) := by
  intro t
  match t with
  | 0 | 1 | 2 =>
    refine fun _ x => ?_
    dsimp only
    split <;> trivial
  | 3 => exact fun _ => trivial
  | 4 =>
    refine fun _ x => ?_
    dsimp only
    split <;> trivial
  | 5 => exact fun x => ⟨fun x x' s h1 h2 => totalSem_rcheck0 h1 h2, fun _ => trivial⟩
  | _ + 6 => trivial

/-- Build all three readers; edit the GENERATED resource 10 from outside; build again; change the
generator's source 1; build the reader behind the shared relay, then the others; change the
relay's source 2; build the reader behind the chained relay. -/
def relayHistory : List TStep :=
  [.change 1 (some 5), .change 2 (some 7), .session [1, 2, 0], .change 10 (some 99),
   .session [1, 2, 0], .change 1 (some 6), .session [2], .session [1, 0], .change 2 (some 8),
   .session [1]]

/-- The log: resources before, roots, outputs, resources after.  In the second session the
external edit of resource 10 is undone; the third and fourth propagate the change of source 1
through the relays. -/
theorem relayHistory_log : (runStepsW totalSem relayBody 60 {} relayHistory).2.map
      (fun e => (e.before, e.roots, e.outs, e.after)) =
    [([(1, 5), (2, 7)], [1, 2, 0], [118, 11, 10], [(1, 5), (2, 7), (10, 10)]),
     ([(1, 5), (2, 7), (10, 99)], [1, 2, 0], [118, 11, 10], [(1, 5), (2, 7), (10, 10)]),
     ([(1, 6), (2, 7), (10, 10)], [2], [13], [(1, 6), (2, 7), (10, 12)]),
     ([(1, 6), (2, 7), (10, 12)], [1, 0], [120, 12], [(1, 6), (2, 7), (10, 12)]),
     ([(1, 6), (2, 8), (10, 12)], [1], [121], [(1, 6), (2, 8), (10, 12)])] := by
  with_unfolding_all decide

/-- The executions of the five sessions: in the second one only the generator runs again. -/
example : (runStepsW totalSem relayBody 60 {} relayHistory).2.map
      (fun e => e.trace.filterMap (fun ev => match ev with | .executeStart t => some t | _ => none)) =
    [[1, 3, 4, 5, 2, 0], [5], [5, 2], [1, 0], [4, 3, 1]] := by
  with_unfolding_all decide

/-- The clean builds of the same roots on the same resource states: same outputs, same
resources (incremental = clean, kernel-evaluated). -/
example :
    ((cleanBuild totalSem relayBody 60 [(1, 5), (2, 7), (10, 99)] [1, 2, 0]).2 = .ok [118, 11, 10] ∧
     (cleanBuild totalSem relayBody 60 [(1, 5), (2, 7), (10, 99)] [1, 2, 0]).1.fs =
       [(1, 5), (2, 7), (10, 10)]) ∧
    ((cleanBuild totalSem relayBody 60 [(1, 6), (2, 7), (10, 10)] [2]).2 = .ok [13] ∧
     (cleanBuild totalSem relayBody 60 [(1, 6), (2, 7), (10, 10)] [2]).1.fs =
       [(1, 6), (2, 7), (10, 12)]) ∧
    ((cleanBuild totalSem relayBody 60 [(1, 6), (2, 8), (10, 12)] [1]).2 = .ok [121] ∧
     (cleanBuild totalSem relayBody 60 [(1, 6), (2, 8), (10, 12)] [1]).1.fs =
       [(1, 6), (2, 8), (10, 12)]) := by
  refine ⟨⟨?_, ?_⟩, ⟨?_, ?_⟩, ⟨?_, ?_⟩⟩ <;> with_unfolding_all decide

/-- Theorem 5 applied to the whole history: the invariants hold at the end and every logged
session has the from-scratch outputs and resources. -/
example : PieInvCv relayRoles totalSem relayBody (runStepsW totalSem relayBody 60 {} relayHistory).1 ∧
    ∀ e ∈ (runStepsW totalSem relayBody 60 {} relayHistory).2,
      ∀ r, aget e.after r = overlayCv relayRoles.toRoles totalSem relayBody e.before
        (DemandedCv relayRoles.toRoles totalSem relayBody e.before e.roots) r :=
  ⟨(C01_trans_history totalSem_stampTotal relayBody_wf relayBody_respects relayBody_oneChecker
      relayBody_writeExact 60 relayHistory).1,
   fun e he => ((C01_trans_history totalSem_stampTotal relayBody_wf relayBody_respects
      relayBody_oneChecker relayBody_writeExact 60 relayHistory).2 e he).2⟩

/-- The `Pie` after the first session and the external edit of the generated resource. -/
def relayPie : PieSt := (runStepsW totalSem relayBody 60 {} (relayHistory.take 4)).1

theorem relayPie_inv : PieInvCv relayRoles totalSem relayBody relayPie :=
  (C01_trans_history totalSem_stampTotal relayBody_wf relayBody_respects relayBody_oneChecker
    relayBody_writeExact 60 (relayHistory.take 4)).1

theorem relayPie_session :
    (requireAll totalSem relayBody 60 relayPie.newSession [1, 2, 0]).2 = .ok [118, 11, 10] := by
  with_unfolding_all decide

theorem relayPie_clean :
    (cleanBuild totalSem relayBody 60 relayPie.fs [1, 2, 0]).2 = .ok [118, 11, 10] := by
  with_unfolding_all decide

/-- Theorem 3 applied: 118 is the from-scratch output of the reader behind the chained relay on
`[1 ↦ 5, 2 ↦ 7, 10 ↦ 99]` (the edited content 99 of the generated resource is not seen). -/
example : ∃ ws, DenCv relayRoles.toRoles totalSem relayBody relayPie.fs 1 (118, ws) := by
  have h := (C01_trans_session totalSem_stampTotal relayBody_wf relayBody_respects
    relayBody_oneChecker relayBody_writeExact 60 relayPie relayPie_inv [1, 2, 0] _ _
    (pair_of_snd relayPie_session)).1
  cases h with
  | cons h _ => exact h

/-- Theorem 4 applied: the incremental session on `relayPie` and the from-scratch build on the
same resources agree on every resource. -/
example : ∀ r, aget (requireAll totalSem relayBody 60 relayPie.newSession [1, 2, 0]).1.fs r =
    aget (cleanBuild totalSem relayBody 60 relayPie.fs [1, 2, 0]).1.fs r :=
  (C01_trans_equals_clean_build totalSem_stampTotal relayBody_wf relayBody_respects
    relayBody_oneChecker relayBody_writeExact 60 60 relayPie relayPie_inv [1, 2, 0] _ _ _ _
    (pair_of_snd relayPie_session) (pair_of_snd relayPie_clean)).2

/-- Theorem 6 applied: the generator 5, which the session on `relayPie` executes, is demanded
(through the relays). -/
example : DemandedCv relayRoles.toRoles totalSem relayBody relayPie.fs [1, 2, 0] 5 :=
  C02_trans_minimal totalSem_stampTotal relayBody_wf relayBody_respects relayBody_oneChecker
    relayBody_writeExact 60 relayPie relayPie_inv [1, 2, 0] _ _ (pair_of_snd relayPie_session) 5
    (by with_unfolding_all decide)

/-- The history theorem against the clean build, applied to the second session of the history
(the one after the external edit of the generated resource). -/
example (e : SessLog) (he : e ∈ (runStepsW totalSem relayBody 60 {} relayHistory).2) (sc : Sess)
    (os' : List Int) (hc : cleanBuild totalSem relayBody 60 e.before e.roots = (sc, .ok os')) :
    e.outs = os' ∧ ∀ r, aget e.after r = aget sc.fs r :=
  C01_trans_history_equals_clean_build totalSem_stampTotal relayBody_wf relayBody_respects
    relayBody_oneChecker relayBody_writeExact 60 60 relayHistory e he sc os' hc

/-! ### why the reference semantics had to be generalised

With the semantics `Den` of `SoundW/Defs.lean` (environment of the DIRECTLY required tasks), task 2
of `relayBody` — which requires the relay 4 and then reads the generated resource 10 — evaluates to
0 on `[1 ↦ 5, 2 ↦ 7]`: the generator 5 is not in the environment of task 2, so the read sees the
start content (absent).  The from-scratch build of the model returns 11, which is what `DenCv`
says. -/

theorem relay_oldDen5 :
    Den relayRoles.toRoles totalSem relayBody [(1, 5), (2, 7)] 5 (1, [(10, some 10)]) := by
  unfold Den
  exact EvalW.read (s := Stamp.optInt (some 5)) (by with_unfolding_all decide)
    (EvalW.write (s := Stamp.optInt (some 10)) (by with_unfolding_all decide) EvalW.ret)

theorem relay_oldDen4 : Den relayRoles.toRoles totalSem relayBody [(1, 5), (2, 7)] 4 (8, []) := by
  unfold Den
  exact EvalW.req relay_oldDen5
    (EvalW.read (s := Stamp.optInt (some 7)) (by with_unfolding_all decide) EvalW.ret)

theorem relay_oldDen2 : Den relayRoles.toRoles totalSem relayBody [(1, 5), (2, 7)] 2 (0, []) := by
  unfold Den
  exact EvalW.req relay_oldDen4
    (EvalW.read (s := Stamp.optInt none) (by with_unfolding_all decide) EvalW.ret)

/-- The direct-role reference semantics is not the from-scratch build behind a relay; the
generalised one is. -/
theorem C01_trans_old_den_wrong :
    Den relayRoles.toRoles totalSem relayBody [(1, 5), (2, 7)] 2 (0, []) ∧
    (cleanBuild totalSem relayBody 60 [(1, 5), (2, 7)] [2]).2 = .ok [11] ∧
    ∃ ws, DenCv relayRoles.toRoles totalSem relayBody [(1, 5), (2, 7)] 2 (11, ws) := by
  have hc : (cleanBuild totalSem relayBody 60 [(1, 5), (2, 7)] [2]).2 = .ok [11] := by
    with_unfolding_all decide
  refine ⟨relay_oldDen2, hc, ?_⟩
  have h := (C01_trans_clean_build_den totalSem_stampTotal relayBody_wf relayBody_respects
    relayBody_oneChecker relayBody_writeExact 60 [(1, 5), (2, 7)] (by decide) [2] _ _
    (pair_of_snd hc)).1
  cases h with
  | cons h _ => exact h

/-! ### non-vacuity without `PrefixCov`, with aborted sessions

`ctxBody` of `Props/C20Trans.lean` (reader 1 → relay 2 → generator 3 of resource 10; the relay
reads source 0 first and PANICS if it holds 1) respects the roles-with-covers but has NOT the
relay-prefix shape.  In the history below the second and third session abort with the task panic
(the relay is left without output and without edges); the sessions after them return, with the
from-scratch outputs and resources — also after an external edit of the generated resource. -/

theorem ctxBody_respects : ∀ t, Respects totalSem (ctxBody t) := by
  intro t
  match t with
  | 0 => trivial
  | 1 =>
    refine ⟨fun _ _ _ => rfl, fun o => ⟨fun v v' s h1 h2 => by rw [totalSem_rcheck0 h1 h2],
      fun x => ?_⟩⟩
    dsimp only
    split <;> trivial
  | 2 =>
    refine ⟨fun v v' s h1 h2 => by rw [totalSem_rcheck0 h1 h2], fun x => ?_⟩
    dsimp only
    split
    · trivial
    · exact ⟨fun o o' h => by rw [totalSem_ocheck0 h], fun _ => trivial⟩
  | 3 =>
    exact ⟨fun v v' s h1 h2 => by rw [totalSem_rcheck0 h1 h2], fun x => fun _ => trivial⟩
  | _ + 4 => trivial

theorem ctxBody_oneChecker : ∀ t, OneChecker (ctxBody t) := by
  intro t
  match t with
  | 0 => trivial
  | 1 =>
    refine ⟨fun c' h => (nomatch h), fun o => ⟨fun c' h => (nomatch h), fun x => ?_⟩⟩
    dsimp only
    split <;> trivial
  | 2 =>
    refine ⟨fun c' h => (nomatch h), fun x => ?_⟩
    dsimp only
    split
    · trivial
    · exact ⟨fun c' h => (nomatch h), fun _ => trivial⟩
  | 3 => exact ⟨fun c' h => (nomatch h), fun x => ⟨by simp, fun _ => trivial⟩⟩
  | _ + 4 => trivial

theorem ctxBody_writeExact : ∀ t, WriteExact totalSem (ctxBody t) := by
  intro t
  match t with
  | 0 => trivial
  | 1 =>
    refine fun _ x => ?_
    dsimp only
    split <;> trivial
  | 2 =>
    refine fun x => ?_
    dsimp only
    split
    · trivial
    · exact fun _ => trivial
  | 3 => exact fun x => ⟨fun x x' s h1 h2 => totalSem_rcheck0 h1 h2, fun _ => trivial⟩
  | _ + 4 => trivial

def ctxHistory : List TStep :=
  [.change 1 (some 5), .change 0 (some 0), .session [1], .change 0 (some 1), .session [2],
   .session [1], .change 0 (some 0), .change 1 (some 6), .session [1], .change 10 (some 77),
   .session [1]]

/-- Five sessions, the second and the third abort (task panic in the relay): three log entries. -/
theorem ctxHistory_log : (runStepsW totalSem ctxBody 30 {} ctxHistory).2.map
      (fun e => (e.before, e.roots, e.outs, e.after)) =
    [([(1, 5), (0, 0)], [1], [10], [(1, 5), (0, 0), (10, 10)]),
     ([(1, 6), (0, 0), (10, 10)], [1], [12], [(1, 6), (0, 0), (10, 12)]),
     ([(1, 6), (0, 0), (10, 77)], [1], [12], [(1, 6), (0, 0), (10, 12)])] := by
  with_unfolding_all decide

/-- The two aborted sessions. -/
example :
    (requireAll totalSem ctxBody 30
      (runStepsW totalSem ctxBody 30 {} (ctxHistory.take 4)).1.newSession [2]).2 =
      .abort .taskPanic ∧
    (requireAll totalSem ctxBody 30
      (runStepsW totalSem ctxBody 30 {} (ctxHistory.take 5)).1.newSession [1]).2 =
      .abort .taskPanic := by
  constructor <;> with_unfolding_all decide

/-- The clean builds on the same resources: same outputs, same resources. -/
example :
    (cleanBuild totalSem ctxBody 30 [(1, 6), (0, 0), (10, 10)] [1]).2 = .ok [12] ∧
    (cleanBuild totalSem ctxBody 30 [(1, 6), (0, 0), (10, 10)] [1]).1.fs =
      [(1, 6), (0, 0), (10, 12)] ∧
    (cleanBuild totalSem ctxBody 30 [(1, 6), (0, 0), (10, 77)] [1]).2 = .ok [12] ∧
    (cleanBuild totalSem ctxBody 30 [(1, 6), (0, 0), (10, 77)] [1]).1.fs =
      [(1, 6), (0, 0), (10, 12)] := by
  refine ⟨?_, ?_, ?_, ?_⟩ <;> with_unfolding_all decide

/-- The hypotheses of the headline theorems hold for `ctxBody`, which is not `PrefixCov`. -/
example : ¬ PrefixCov ctxRoles ctxBody ∧
    PieInvCv ctxRoles totalSem ctxBody (runStepsW totalSem ctxBody 30 {} ctxHistory).1 ∧
    ∀ e ∈ (runStepsW totalSem ctxBody 30 {} ctxHistory).2, ∀ (sc : Sess) (os' : List Int),
      cleanBuild totalSem ctxBody 30 e.before e.roots = (sc, .ok os') →
      e.outs = os' ∧ ∀ r, aget e.after r = aget sc.fs r :=
  ⟨ctxBody_not_prefix,
   (C01_trans_history totalSem_stampTotal ctxBody_wf ctxBody_respects ctxBody_oneChecker
      ctxBody_writeExact 30 ctxHistory).1,
   fun e he sc os' hc => C01_trans_history_equals_clean_build totalSem_stampTotal ctxBody_wf
      ctxBody_respects ctxBody_oneChecker ctxBody_writeExact 30 30 ctxHistory e he sc os' hc⟩

end PieModel
