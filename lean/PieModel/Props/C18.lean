/-
Property C18: if a resource checker returns an error while a dependency is being validated, in a
top-down check or during bottom-up scheduling, the dependency is treated as inconsistent, so its
task is re-executed or scheduled, and the error is reported through the session's
dependency-check errors.  The error is never swallowed, never turns into reuse of the cached
output, and never aborts the build.

The invariant proofs are in `PieModel/Build/Proofs/{ErrTrace,TopDownExt,BottomUpExt}.lean`.
-/
import PieModel.Props.C09
import PieModel.Build.Proofs.BottomUpExt

namespace PieModel
open Sess SessL

variable (sem : Sem) (body : Nat → Prog)

/-! ### one step: error ⇒ inconsistent / scheduled, error recorded, no abort -/

/-- `d` is a read or write dependency on `r` with checker `c` and stamp `stamp`. -/
def Dep.isRes (d : Dep) (r c : Nat) (stamp : Stamp) : Prop :=
  d = .read r c stamp ∨ d = .write r c stamp

/-- Top-down: a failing checker makes the dependency inconsistent (`ok false`: the loop stops,
the remaining dependencies are not looked at), the error is appended to the session's errors and
reported in `check_resource_end`. -/
theorem C18_td_error_reported_and_inconsistent (f : Nat) (s : Sess) (d : Dep) (r c : Nat)
    (stamp : Stamp) (ds : List Dep) (e : Int) (hd : d.isRes r c stamp)
    (he : sem.rcheck c (s.content r) stamp = .error e) :
    tdCheckDeps sem body (f + 1) s (d :: ds) =
      ({ (s.emit (.checkResStart r c stamp)).emit (.checkResEnd r c stamp (.error e)) with
          errors := s.errors ++ [e] }, .ok false) := by
  rcases hd with rfl | rfl
  · rw [C09_check_uses_own_read, he]
  · rw [C09_check_uses_own_write, he]

/-- Bottom-up: a failing checker schedules the task and records the error. -/
theorem C18_bu_error_scheduled (s : Sess) (tnode t : Nat) (d : Dep) (r c : Nat) (stamp : Stamp)
    (e : Int) (hd : d.isRes r c stamp) (ht : s.store.taskOf tnode = some t)
    (he : sem.rcheck c (s.content r) stamp = .error e) :
    trySchedule sem s tnode d =
      { (((s.emit (.checkReadStart t c stamp)).emit (.checkReadEnd t c stamp (.error e))).emit
          (.scheduleTask t)) with errors := s.errors ++ [e], queue := queueAdd s.queue tnode } ∧
    tnode ∈ (trySchedule sem s tnode d).queue ∧
    (trySchedule sem s tnode d).errors = s.errors ++ [e] := by
  have key : trySchedule sem s tnode d =
      { (((s.emit (.checkReadStart t c stamp)).emit (.checkReadEnd t c stamp (.error e))).emit
          (.scheduleTask t)) with errors := s.errors ++ [e], queue := queueAdd s.queue tnode } := by
    rcases hd with rfl | rfl
    · rw [C09_trySchedule_spec sem s tnode t r c stamp ht, he]
    · rw [C09_trySchedule_write_spec sem s tnode t r c stamp ht, he]
  refine ⟨key, ?_, ?_⟩
  · rw [key]; simp [C09_mem_queueAdd]
  · rw [key]

/-- The step in which a checker fails *returns* (it does not abort), with verdict "inconsistent",
and the error is in the session's errors afterwards. -/
theorem C18_error_step_is_ok (f : Nat) (s : Sess) (d : Dep) (r c : Nat)
    (stamp : Stamp) (ds : List Dep) (e : Int) (hd : d.isRes r c stamp)
    (he : sem.rcheck c (s.content r) stamp = .error e) :
    (tdCheckDeps sem body (f + 1) s (d :: ds)).2 = .ok false ∧
    e ∈ (tdCheckDeps sem body (f + 1) s (d :: ds)).1.errors ∧
    .checkResEnd r c stamp (.error e) ∈ (tdCheckDeps sem body (f + 1) s (d :: ds)).1.trace := by
  rw [C18_td_error_reported_and_inconsistent sem body f s d r c stamp ds e hd he]
  simp

/-- The kinds of abort are the six Rust panics of the model; a checker error is not among the
causes: the only places where `rcheck` is called (`tdCheckDeps`, `trySchedule`) turn an error into
a verdict (`C18_error_step_is_ok`, `C18_bu_error_scheduled`; `trySchedule` cannot abort at all —
it returns a `Sess`). -/
theorem C18_checker_error_never_aborts (k : Abort) :
    k = .cyclic ∨ k = .hidden ∨ k = .overlap ∨ k = .taskPanic ∨ (∃ n, k = .bug n) ∨ k = .outOfFuel := by
  cases k <;> simp

/-! ### the error never turns into reuse -/

/-- The loop reports "consistent" only if the head's checker said `ok true`. -/
theorem C18_reuse_requires_ok_head (f : Nat) (s s' : Sess) (d : Dep) (r c : Nat) (stamp : Stamp)
    (ds : List Dep) (hd : d.isRes r c stamp)
    (h : tdCheckDeps sem body (f + 1) s (d :: ds) = (s', .ok true)) :
    sem.rcheck c (s.content r) stamp = .ok true ∧
    tdCheckDeps sem body f (resCheckEvents s r c stamp (.ok true)) ds = (s', .ok true) := by
  have key : tdCheckDeps sem body (f + 1) s (d :: ds) =
      match sem.rcheck c (s.content r) stamp with
      | .ok true => tdCheckDeps sem body f (resCheckEvents s r c stamp (.ok true)) ds
      | .ok false => (resCheckEvents s r c stamp (.ok false), .ok false)
      | .error e =>
        ({ resCheckEvents s r c stamp (.error e) with errors := s.errors ++ [e] }, .ok false) := by
    rcases hd with rfl | rfl
    · exact tdCheckDeps_read sem body f s r c stamp ds
    · exact tdCheckDeps_write sem body f s r c stamp ds
  rw [key] at h
  split at h
  · rename_i hr; exact ⟨hr, h⟩
  · cases h
  · cases h

/-- In general: if the loop over a task's dependencies reports "consistent" — the only way the
cached output is reused — then *every* resource dependency in the list was checked, in some
intermediate state `sᵢ` of that run, by its own checker with result `ok true`; none erred. -/
theorem C18_reuse_implies_every_check_ok (ds : List Dep) (f : Nat) (s s' : Sess)
    (h : tdCheckDeps sem body f s ds = (s', .ok true)) :
    ∀ d ∈ ds, ∀ r c stamp, d.isRes r c stamp →
      ∃ sᵢ : Sess, s.Ext sᵢ ∧ (resCheckEvents sᵢ r c stamp (.ok true)).Ext s' ∧
        sem.rcheck c (sᵢ.content r) stamp = .ok true := by
  induction ds generalizing f s with
  | nil => intro d hd; cases hd
  | cons d₀ ds ih =>
    cases f with
    | zero => simp only [tdCheckDeps] at h; cases h
    | succ f =>
      intro d hd r c stamp hres
      -- what the head does, and where the tail starts
      have tail : ∃ s₁ : Sess, s.Ext s₁ ∧ tdCheckDeps sem body f s₁ ds = (s', .ok true) ∧
          ∀ r c stamp, d₀.isRes r c stamp → sem.rcheck c (s.content r) stamp = .ok true ∧
            s₁ = resCheckEvents s r c stamp (.ok true) := by
        cases d₀ with
        | reserved => simp only [tdCheckDeps] at h; cases h
        | require t' c' stamp' =>
          rw [C09_check_uses_own_require] at h
          split at h
          · cases h
          · rename_i s₁ out heq
            split at h
            · refine ⟨_, ?_, h, ?_⟩
              · exact ((Ext.emit s _ rfl).trans ((ext_tdMake sem body _ _ _).of_fst heq)).trans
                  (Ext.emit _ _ rfl)
              · intro r c stamp hr; rcases hr with hr | hr <;> cases hr
            · cases h
        | read r' c' stamp' =>
          obtain ⟨h₁, h₂⟩ := C18_reuse_requires_ok_head sem body f s s' _ r' c' stamp' ds (.inl rfl) h
          refine ⟨_, ext_resCheckEvents_ok s r' c' stamp' true, h₂, ?_⟩
          intro r c stamp hr
          rcases hr with hr | hr <;> cases hr
          exact ⟨h₁, rfl⟩
        | write r' c' stamp' =>
          obtain ⟨h₁, h₂⟩ := C18_reuse_requires_ok_head sem body f s s' _ r' c' stamp' ds (.inr rfl) h
          refine ⟨_, ext_resCheckEvents_ok s r' c' stamp' true, h₂, ?_⟩
          intro r c stamp hr
          rcases hr with hr | hr <;> cases hr
          exact ⟨h₁, rfl⟩
      obtain ⟨s₁, e₁, htail, hhead⟩ := tail
      rcases List.mem_cons.mp hd with rfl | hmem
      · obtain ⟨hr, rfl⟩ := hhead r c stamp hres
        exact ⟨s, Ext.refl s, (ext_tdCheckDeps sem body f _ ds).of_fst htail, hr⟩
      · obtain ⟨sᵢ, a, b, c'⟩ := ih f s₁ htail d hmem r c stamp hres
        exact ⟨sᵢ, e₁.trans a, b, c'⟩

/-- A failing checker after a prefix of consistent resource dependencies: the loop stops there
with "inconsistent"; the error is recorded. -/
theorem C18_checkDeps_error (pre post : List Dep) (d : Dep) (r c : Nat) (stamp : Stamp) (e : Int)
    (f : Nat) (s : Sess) (hf : pre.length < f) (hpre : ∀ d' ∈ pre, resConsistent sem s d')
    (hd : d.isRes r c stamp) (he : sem.rcheck c (s.content r) stamp = .error e) :
    tdCheckDeps sem body f s (pre ++ d :: post) =
      ({ s with
          trace := s.trace ++ checkEvents pre ++
            [.checkResStart r c stamp, .checkResEnd r c stamp (.error e)],
          errors := s.errors ++ [e] }, .ok false) := by
  induction pre generalizing f s with
  | nil =>
    obtain ⟨f, rfl⟩ : ∃ f', f = f' + 1 := ⟨f - 1, by simp at hf; omega⟩
    rw [List.nil_append, C18_td_error_reported_and_inconsistent sem body f s d r c stamp post e hd he]
    simp [checkEvents]
  | cons d₀ pre ih =>
    obtain ⟨f, rfl⟩ : ∃ f', f = f' + 1 := ⟨f - 1, by simp at hf; omega⟩
    have hd₀ := hpre d₀ (by simp)
    have hf' : pre.length < f := by simp at hf; omega
    have hpre' : ∀ (s₂ : Sess), s₂.fs = s.fs → ∀ d' ∈ pre, resConsistent sem s₂ d' :=
      fun s₂ h₂ d' hd' => (C09_resConsistent_congr sem s s₂ h₂ d').mpr (hpre d' (by simp [hd']))
    cases d₀ with
    | reserved => exact absurd hd₀ (by simp [resConsistent])
    | require t c stamp => exact absurd hd₀ (by simp [resConsistent])
    | read r₀ c₀ stamp₀ =>
      simp only [resConsistent] at hd₀
      rw [List.cons_append, C09_check_uses_own_read, hd₀]
      simp only
      rw [ih f ((s.emit (.checkResStart r₀ c₀ stamp₀)).emit (.checkResEnd r₀ c₀ stamp₀ (.ok true))) hf'
        (hpre' _ rfl) he]
      simp [checkEvents]
    | write r₀ c₀ stamp₀ =>
      simp only [resConsistent] at hd₀
      rw [List.cons_append, C09_check_uses_own_write, hd₀]
      simp only
      rw [ih f ((s.emit (.checkResStart r₀ c₀ stamp₀)).emit (.checkResEnd r₀ c₀ stamp₀ (.ok true))) hf'
        (hpre' _ rfl) he]
      simp [checkEvents]

/-- When `make_task_consistent` goes to the execute branch, everything it does afterwards extends
the state in which the body starts. -/
theorem C18_exec_extends (f : Nat) (s s₁ : Sess) (t : Nat) (st : Store) (node : Nat)
    (hn : s.store.getOrCreateTaskNode t = (st, node)) (hnc : node ∉ s.consistent)
    (hc : tdCheck sem body f { s with store := st } node = (s₁, .ok none)) :
    (execStart s₁ node t).Ext (tdMake sem body (f + 1) s t).1 := by
  rw [C09_inconsistent_triggers_execution sem body f s s₁ t st node hn hnc hc]
  have h := ext_tdRun sem body f (execStart s₁ node t) (body t)
  split
  · rename_i heq; exact h.of_fst heq
  · rename_i s₂ o heq
    exact ((h.of_fst heq).trans (Ext.emit s₂ (.executeEnd t o) rfl)).congr_right
      (by simp [execFinish]) (by simp [execFinish]) (by simp [execFinish])

/-- No reuse on error: if the check of a dependency of task `t` errs (the dependencies before it
being consistent resource dependencies), the cached output `o` is *not* returned: the task is
reset and its body runs, with the error already recorded. -/
theorem C18_no_reuse_on_error (f : Nat) (s : Sess) (t : Nat) (st : Store) (node : Nat) (o : Int)
    (pre post : List Dep) (d : Dep) (r c : Nat) (stamp : Stamp) (e : Int)
    (hn : s.store.getOrCreateTaskNode t = (st, node)) (hnc : node ∉ s.consistent)
    (ho : st.taskOutput node = some o) (hdeps : st.depsFrom node = pre ++ d :: post)
    (hf : pre.length < f) (hpre : ∀ d' ∈ pre, resConsistent sem s d')
    (hd : d.isRes r c stamp) (he : sem.rcheck c (s.content r) stamp = .error e) :
    let s₁ : Sess := { s with
      store := st,
      trace := s.trace ++ checkEvents pre ++
        [.checkResStart r c stamp, .checkResEnd r c stamp (.error e)],
      errors := s.errors ++ [e] }
    (tdMake sem body (f + 2) s t =
      match tdRun sem body (f + 1) (execStart s₁ node t) (body t) with
      | (s₂, .abort a) => (s₂, .abort a)
      | (s₂, .ok o') => (execFinish s₂ s.cur node t o', .ok o')) ∧
    (∃ evs, (tdMake sem body (f + 2) s t).1.trace = s₁.trace ++ .executeStart t :: evs) ∧
    (∃ more, (tdMake sem body (f + 2) s t).1.errors = s.errors ++ e :: more) := by
  intro s₁
  have hdp := C18_checkDeps_error sem body pre post d r c stamp e f { s with store := st } hf
    (fun d' hd' => (C09_resConsistent_congr sem s _ rfl d').mpr (hpre d' hd')) hd he
  have hc : tdCheck sem body (f + 1) { s with store := st } node = (s₁, .ok none) := by
    rw [C09_tdCheck_eq sem body f _ node o ho]
    simp only [hdeps, hdp]
    rfl
  refine ⟨C09_inconsistent_triggers_execution sem body (f + 1) s s₁ t st node hn hnc hc,
    C09_inconsistent_trace sem body (f + 1) s s₁ t st node hn hnc hc, ?_⟩
  obtain ⟨evs, _, herr⟩ := (C18_exec_extends sem body (f + 1) s s₁ t st node hn hnc hc).events
  exact ⟨errorsOf evs, by rw [herr]; simp [execStart, s₁]⟩

/-! ### the error is never swallowed: `errors` is exactly the errors of the trace -/

/-- Every step of the session — whether it returns or aborts — extends the trace and adds to
`errors` exactly the errors of the failed checks among the new events. -/
theorem C18_errors_delta_doRead (s : Sess) (r c : Nat) : s.Ext (doRead sem s r c).1 := ext_doRead sem s r c
theorem C18_errors_delta_doWrite (s : Sess) (r c : Nat) (v : Option Int) :
    s.Ext (doWrite sem s r c v).1 := ext_doWrite sem s r c v
theorem C18_errors_delta_doWrote (s : Sess) (r c : Nat) (v : Option Int) :
    s.Ext (doWrote sem s r c v).1 := ext_doWrote sem s r c v
theorem C18_errors_delta_reserveRequire (s : Sess) (dst : Nat) : s.Ext (reserveRequire s dst).1 :=
  ext_reserveRequire s dst
theorem C18_errors_delta_updateRequire (s : Sess) (dst t c : Nat) (stamp : Stamp) :
    s.Ext (updateRequire s dst t c stamp).1 := ext_updateRequire s dst t c stamp

/-- All five top-down functions, for every fuel. -/
theorem C18_errors_delta_topDown (f : Nat) :
    (∀ (s : Sess) t c, s.Ext (tdRequire sem body f s t c).1) ∧
    (∀ (s : Sess) t, s.Ext (tdMake sem body f s t).1) ∧
    (∀ (s : Sess) n, s.Ext (tdCheck sem body f s n).1) ∧
    (∀ (s : Sess) ds, s.Ext (tdCheckDeps sem body f s ds).1) ∧
    (∀ (s : Sess) p, s.Ext (tdRun sem body f s p).1) := td_ext sem body f

theorem C18_errors_delta_scheduling (s : Sess) :
    (∀ tnode d, s.Ext (trySchedule sem s tnode d)) ∧
    (∀ r, s.Ext (scheduleAffectedBy sem s r)) ∧
    (∀ node t out, s.Ext (scheduleAfterExec sem s node t out)) :=
  ⟨ext_trySchedule sem s, ext_scheduleAffectedBy sem s, ext_scheduleAfterExec sem s⟩

/-- All six mutual bottom-up functions, for every fuel. -/
theorem C18_errors_delta_bottomUp (f : Nat) :
    (∀ (s : Sess) t c, s.Ext (buRequire sem body f s t c).1) ∧
    (∀ (s : Sess) t n, s.Ext (buMake sem body f s t n).1) ∧
    (∀ (s : Sess) t n, s.Ext (buExec sem body f s t n).1) ∧
    (∀ (s : Sess) n, s.Ext (buExecAndSchedule sem body f s n).1) ∧
    (∀ (s : Sess) n, s.Ext (buRequireNow sem body f s n).1) ∧
    (∀ (s : Sess) p, s.Ext (buRun sem body f s p).1) := bu_ext sem body f

theorem C18_errors_delta_session (fuel : Nat) (s : Sess) :
    (s.Ext (buExecuteScheduled sem body fuel s).1) ∧
    (∀ t, s.Ext (sessionRequire sem body fuel s t).1) ∧
    (∀ changed, s.Ext (bottomUpBuild sem body fuel s changed).1) :=
  ⟨ext_buExecuteScheduled sem body fuel s, ext_sessionRequire sem body fuel s,
    ext_bottomUpBuild sem body fuel s⟩

/-- `Ext` preserves the invariant `errors = errorsOf trace`. -/
theorem C18_errInv_of_ext {s s' : Sess} (h : s.Ext s') (hi : s.errors = errorsOf s.trace) :
    s'.errors = errorsOf s'.trace := h.errInv hi

/-- The invariant `errors = errorsOf trace` is preserved by every function of the model, for every
fuel, whether the call returns or aborts (the state component is the state at the abort point). -/
theorem C18_errInv_preserved (f : Nat) (s : Sess) (hi : s.errors = errorsOf s.trace) :
    (∀ r c, (doRead sem s r c).1.ErrInv) ∧
    (∀ r c v, (doWrite sem s r c v).1.ErrInv) ∧
    (∀ r c v, (doWrote sem s r c v).1.ErrInv) ∧
    (∀ dst, (reserveRequire s dst).1.ErrInv) ∧
    (∀ dst t c stamp, (updateRequire s dst t c stamp).1.ErrInv) ∧
    (∀ t c, (tdRequire sem body f s t c).1.ErrInv) ∧
    (∀ t, (tdMake sem body f s t).1.ErrInv) ∧
    (∀ n, (tdCheck sem body f s n).1.ErrInv) ∧
    (∀ ds, (tdCheckDeps sem body f s ds).1.ErrInv) ∧
    (∀ p, (tdRun sem body f s p).1.ErrInv) ∧
    (∀ tnode d, (trySchedule sem s tnode d).ErrInv) ∧
    (∀ r, (scheduleAffectedBy sem s r).ErrInv) ∧
    (∀ node t out, (scheduleAfterExec sem s node t out).ErrInv) ∧
    (∀ t c, (buRequire sem body f s t c).1.ErrInv) ∧
    (∀ t n, (buMake sem body f s t n).1.ErrInv) ∧
    (∀ t n, (buExec sem body f s t n).1.ErrInv) ∧
    (∀ n, (buExecAndSchedule sem body f s n).1.ErrInv) ∧
    (∀ n, (buRequireNow sem body f s n).1.ErrInv) ∧
    (∀ p, (buRun sem body f s p).1.ErrInv) ∧
    (buExecuteScheduled sem body f s).1.ErrInv ∧
    (∀ t, (sessionRequire sem body f s t).1.ErrInv) ∧
    (∀ changed, (bottomUpBuild sem body f s changed).1.ErrInv) := by
  have hi' : s.ErrInv := hi
  refine ⟨fun r c => (ext_doRead sem s r c).errInv hi', fun r c v => (ext_doWrite sem s r c v).errInv hi',
    fun r c v => (ext_doWrote sem s r c v).errInv hi', fun d => (ext_reserveRequire s d).errInv hi',
    fun d t c st => (ext_updateRequire s d t c st).errInv hi',
    fun t c => (ext_tdRequire sem body f s t c).errInv hi', fun t => (ext_tdMake sem body f s t).errInv hi',
    fun n => (ext_tdCheck sem body f s n).errInv hi', fun ds => (ext_tdCheckDeps sem body f s ds).errInv hi',
    fun p => (ext_tdRun sem body f s p).errInv hi', fun n d => (ext_trySchedule sem s n d).errInv hi',
    fun r => (ext_scheduleAffectedBy sem s r).errInv hi',
    fun n t o => (ext_scheduleAfterExec sem s n t o).errInv hi',
    fun t c => (ext_buRequire sem body f s t c).errInv hi', fun t n => (ext_buMake sem body f s t n).errInv hi',
    fun t n => (ext_buExec sem body f s t n).errInv hi',
    fun n => (ext_buExecAndSchedule sem body f s n).errInv hi',
    fun n => (ext_buRequireNow sem body f s n).errInv hi', fun p => (ext_buRun sem body f s p).errInv hi',
    (ext_buExecuteScheduled sem body f s).errInv hi', fun t => (ext_sessionRequire sem body f s t).errInv hi',
    fun ch => (ext_bottomUpBuild sem body f s ch).errInv hi'⟩

theorem C18_errors_delta_op (s : Sess) (op : SessOp) : s.Ext (op.run sem body s) :=
  ext_op sem body s op

/-- **Exactness.** In a session started with `Pie::new_session`, after any sequence of
`require`s and bottom-up builds (returning or aborting), the session's dependency-check errors are
exactly the errors of the failed checks in its tracker stream, in order: no error is swallowed and
none is invented. -/
theorem C18_errors_exact (p : PieSt) (ops : List SessOp) :
    (ops.foldl (SessOp.run sem body) p.newSession).errors =
      errorsOf (ops.foldl (SessOp.run sem body) p.newSession).trace := by
  exact (ext_ops sem body p.newSession ops).errInv rfl

/-- In particular an error reported in the trace is in `errors`. -/
theorem C18_error_in_trace_is_reported (p : PieSt) (ops : List SessOp) (r c : Nat) (stamp : Stamp)
    (e : Int)
    (h : .checkResEnd r c stamp (.error e) ∈ (ops.foldl (SessOp.run sem body) p.newSession).trace ∨
         .checkReadEnd r c stamp (.error e) ∈ (ops.foldl (SessOp.run sem body) p.newSession).trace) :
    e ∈ (ops.foldl (SessOp.run sem body) p.newSession).errors := by
  rw [C18_errors_exact]
  simp only [errorsOf, List.mem_flatMap]
  rcases h with h | h
  · exact ⟨_, h, by simp [errOfEv]⟩
  · exact ⟨_, h, by simp [errOfEv]⟩

/-! ### non-vacuity -/

open DecEqAux

/-- Task 0 reads resource 7 with checker `FailWhen(3)` (id 13: `check` fails with error 3 while
the content is 3) and returns the content. -/
def c18Tbl : List (Nat × Script) := [(0, .read 7 13 (.ret (.var 0)))]

def c18Run1 := sessionRequire stdSem (bodyOf c18Tbl) 100 (PieSt.newSession { fs := [(7, 5)] }) 0
def c18Pie2 : PieSt := c18Run1.1.toPie.setContent 7 (some 3)
def c18Run2 := sessionRequire stdSem (bodyOf c18Tbl) 100 c18Pie2.newSession 0
def c18Run3 := bottomUpBuild stdSem (bodyOf c18Tbl) 100 c18Pie2.newSession [7]

/-- Top-down: the checker fails, the error is reported, the task is executed (no reuse of the
cached 5), and the build returns. -/
example : c18Run2.2 = .ok 3 ∧ c18Run2.1.errors = [3] ∧ c18Run2.1.trace =
    [.buildStart, .requireStart 0 4,
     .checkResStart 7 13 (.optInt (some 5)), .checkResEnd 7 13 (.optInt (some 5)) (.error 3),
     .executeStart 0, .readStart 7 13, .readEnd 7 13 (.optInt (some 3)), .executeEnd 0 3,
     .requireEnd 0 4 .unit 3, .buildEnd] := by decide +kernel

/-- Bottom-up: the checker fails, the error is reported, the task is scheduled and executed. -/
example : c18Run3.2 = .ok () ∧ c18Run3.1.errors = [3] ∧ c18Run3.1.trace.take 8 =
    [.schedResStart 7, .checkReadStart 0 13 (.optInt (some 5)),
     .checkReadEnd 0 13 (.optInt (some 5)) (.error 3), .scheduleTask 0, .schedResEnd 7,
     .buildStart, .executeStart 0, .readStart 7 13] := by decide +kernel

example : errorsOf c18Run2.1.trace = [3] := by decide +kernel

end PieModel
