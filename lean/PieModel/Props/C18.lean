import PieModel.Build.Pie
namespace PieModel
theorem C18_placeholder : True := trivial
end PieModel
