/-
C01 in full (and the minimality clause of C02) for the DRIVER's runs of scripted tables with
TRANSITIVE static roles (relays).

`Props/ScriptWF.lean` states C01 in full for the driver's runs (`C01_scripts`) under `Table.wfB`,
i.e. for DIRECT static roles w.r.t. `rolesOf tbl` (`rank t = t`): tables with relays fail that
test.  `Props/ScriptCov.lean` has the Boolean test `Table.covB` of the transitive static roles
`WellFormedCov (covRolesOf tbl) (bodyOf tbl)`, and `Props/C01Trans.lean` proves C01 in full for
`WellFormedCov cr body` under `StampTotal`, `Respects`, `OneChecker`, `WriteExact`.  This file puts
them together:

1. `Table.wfCovB tbl` (definition: `Build/ScriptCov2/Defs.lean`, linkable by the compiled driver):
   `covB` and every script passes `oneCheckerB` and `writeExactB`.
2. `Table.wfCovB_sound`: the hypotheses of `C01_trans_*` for `totalSem` and `bodyOf tbl`
   (`Table.wfCovB_sound_of` for every `ObsLike` checker table, in particular `stdSem`, `reflSem`).
3. `C01_trans_scripts`: under `wfCovB` and `stampTotalB`, for every history, every fuel, every
   logged session of the driver's run `runStepsW stdSem (bodyOf tbl) fuel {} steps` has the outputs
   and the resource contents of the from-scratch build — exactly the shape of `C01_scripts` —
   through the sem agreement `scripts_agree_totalSem`.
4. `C02_trans_scripts_minimal`: the store invariant `PieInvCv` of the driver's `Pie`, and every task
   a logged session executes is demanded by the from-scratch build (`DemandedCv`).
5. Non-vacuity: a relay table (readers behind the generator, a shared relay, a chained relay; the
   shared relay reads a source of its own through `ParityRes`), `wfCovB = true` by `decide`,
   `staticRolesB = false`, and the corollaries on a concrete history (external edit of the
   generated resource, change of the generator's source), kernel-evaluated; tables showing that
   each conjunct of the test is needed.
-/
import PieModel.Build.ScriptCov2.Defs
import PieModel.Props.ScriptCov
import PieModel.Props.C01Trans

namespace PieModel

open TransRoles TransSound ScriptWF

namespace ScriptCov2

/-- The conjuncts of `Table.wfCovB`. -/
theorem wfCovB_parts {tbl : Table} (h : tbl.wfCovB = true) :
    tbl.covB = true ∧ (tbl.allB fun _ s => s.oneCheckerB) = true ∧
      (tbl.allB fun _ s => s.writeExactB) = true := by
  have h' := (Bool.and_eq_true _ _).mp h
  exact ⟨h'.1, allB_and (p := fun _ s => s.oneCheckerB) (q := fun _ s => s.writeExactB) h'.2⟩

/-- An entry of a list, identified by its position and an observation. -/
theorem mem_of_getElem?_map {α β : Type} {l : List α} {i : Nat} {f : α → β} {b : β}
    (h : (l[i]?).map f = some b) : ∃ e ∈ l, f e = b := by
  cases he : l[i]? with
  | none => rw [he] at h; cases h
  | some e =>
    rw [he] at h
    exact ⟨e, List.mem_of_getElem? he, Option.some.inj h⟩

end ScriptCov2

/-! ### 1. the test -/

/-- `Table.wfCovB` spelled out. -/
theorem Table.wfCovB_iff (tbl : Table) :
    tbl.wfCovB = true ↔ tbl.covB = true ∧ (tbl.allB fun _ s => s.oneCheckerB) = true ∧
      (tbl.allB fun _ s => s.writeExactB) = true := by
  refine ⟨ScriptCov2.wfCovB_parts, fun ⟨h1, h2, h3⟩ => ?_⟩
  refine (Bool.and_eq_true _ _).mpr ⟨h1, ?_⟩
  unfold Table.allB at *
  refine List.all_eq_true.mpr fun e he => (Bool.and_eq_true _ _).mpr ⟨?_, ?_⟩
  · exact List.all_eq_true.mp h2 e he
  · exact List.all_eq_true.mp h3 e he

theorem Table.wfCovB_covB {tbl : Table} (h : tbl.wfCovB = true) : tbl.covB = true :=
  (ScriptCov2.wfCovB_parts h).1

/-- `wfB` and `wfCovB` share the role-independent part (`oneCheckerB`, `writeExactB`): a table passing
the direct test `wfB` and the cover test `covB` passes `wfCovB`.  (Neither of `wfB`, `wfCovB` implies
the other: `scov2Tbl_not_direct` below; `rolesOf` and `covRolesOf` use different ranks.) -/
theorem Table.wfCovB_of_wfB_covB {tbl : Table} (h : tbl.wfB = true) (hc : tbl.covB = true) :
    tbl.wfCovB = true :=
  (Table.wfCovB_iff tbl).mpr ⟨hc, (allB_and (allB_and h).1).2, (allB_and h).2⟩

/-! ### 2. soundness -/

/-- What `Table.wfCovB` establishes, for a checker table `sem` that is `ObsLike` (`stdSem`,
`totalSem`, `reflSem`). -/
theorem Table.wfCovB_sound_of {sem : Sem} (hsem : ObsLike sem) {tbl : Table}
    (h : tbl.wfCovB = true) :
    WellFormedCov (covRolesOf tbl) (bodyOf tbl) ∧ (∀ t, Respects sem (bodyOf tbl t)) ∧
      (∀ t, OneChecker (bodyOf tbl t)) ∧ (∀ t, WriteExact sem (bodyOf tbl t)) := by
  obtain ⟨h1, h2, h3⟩ := ScriptCov2.wfCovB_parts h
  exact ⟨(Table.covB_sound h1).1, table_respects hsem tbl, table_oneChecker h2,
    table_writeExact hsem h3⟩

/-- **`Table.wfCovB` is sound**: the hypotheses of C01 in full for transitive static roles
(`Props/C01Trans.lean`: `C01_trans_history`, `C01_trans_history_equals_clean_build`,
`C02_trans_minimal_history`, ...) on the program table `bodyOf tbl`, w.r.t. the roles-with-covers
`covRolesOf tbl` and the checker table `totalSem` (which is `StampTotal`); in the order in which
those theorems take them.  Also `PrefixCov` (the hypothesis of C20/C05 after task panics). -/
theorem Table.wfCovB_sound {tbl : Table} (h : tbl.wfCovB = true) :
    StampTotal totalSem ∧ WellFormedCov (covRolesOf tbl) (bodyOf tbl) ∧
      (∀ t, Respects totalSem (bodyOf tbl t)) ∧ (∀ t, OneChecker (bodyOf tbl t)) ∧
      (∀ t, WriteExact totalSem (bodyOf tbl t)) ∧ PrefixCov (covRolesOf tbl) (bodyOf tbl) := by
  obtain ⟨h1, h2, h3, h4⟩ := Table.wfCovB_sound_of obsLike_totalSem h
  exact ⟨totalSem_stampTotal, h1, h2, h3, h4, Table.prefixCov_always tbl⟩

/-! ### 3. the theorems about the driver's runs -/

/-- **C01 in full for scripted tables with relays, under the driver's semantics.**  If the table
passes `Table.wfCovB` and uses no failing stamper, then for every history of external changes (of
any resource, generated ones included) and top-down sessions (any of them possibly aborted) and
every fuel, every logged session of the driver's run `runStepsW stdSem (bodyOf tbl) fuel {} steps`
has the outputs AND the resource contents of the from-scratch build
`cleanBuild stdSem (bodyOf tbl) fuel' e.before e.roots`, whenever that returns. -/
theorem C01_trans_scripts (tbl : Table) (hwf : tbl.wfCovB = true) (hst : tbl.stampTotalB = true)
    (fuel fuel' : Nat) (steps : List TStep) (e : SessLog)
    (he : e ∈ (runStepsW stdSem (bodyOf tbl) fuel {} steps).2) (sc : Sess) (os' : List Int)
    (hc : cleanBuild stdSem (bodyOf tbl) fuel' e.before e.roots = (sc, .ok os')) :
    e.outs = os' ∧ ∀ r, aget e.after r = aget sc.fs r := by
  have A := scripts_agree_totalSem hst
  rw [A.run_stepsW] at he
  rw [A.clean_build] at hc
  obtain ⟨h0, h1, h2, h3, h4, _⟩ := Table.wfCovB_sound hwf
  exact C01_trans_history_equals_clean_build h0 h1 h2 h3 h4 fuel fuel' steps e he sc os' hc

/-- **... the reference semantics.**  Every logged session of the driver's run has the from-scratch
outputs `DenCv` of its roots on the resources it started with, and leaves in every resource what
the reference semantics says: the start content overlaid by the writes of the demanded tasks. -/
theorem C01_trans_scripts_den (tbl : Table) (hwf : tbl.wfCovB = true)
    (hst : tbl.stampTotalB = true) (fuel : Nat) (steps : List TStep) :
    ∀ e ∈ (runStepsW stdSem (bodyOf tbl) fuel {} steps).2,
      List.Forall₂ (fun t o => ∃ ws,
        DenCv (covRolesOf tbl).toRoles totalSem (bodyOf tbl) e.before t (o, ws)) e.roots e.outs ∧
      ∀ r, aget e.after r =
        overlayCv (covRolesOf tbl).toRoles totalSem (bodyOf tbl) e.before
          (DemandedCv (covRolesOf tbl).toRoles totalSem (bodyOf tbl) e.before e.roots) r := by
  have A := scripts_agree_totalSem hst
  rw [A.run_stepsW]
  obtain ⟨h0, h1, h2, h3, h4, _⟩ := Table.wfCovB_sound hwf
  exact (C01_trans_history h0 h1 h2 h3 h4 fuel steps).2

/-- **C02 (minimality) for scripted tables with relays, under the driver's semantics**: every task
a logged session of the driver's run executes is demanded by the from-scratch build of the same
roots on the resources the session started with (through the relays), and the invariants of C01 for
transitive roles hold of the driver's `Pie` after the history.  (`C02_trans_minimal_history`
transfers as it is; the reference semantics `DemandedCv` is the one of `totalSem`, as in
`C01_scripts_minimal`.) -/
theorem C02_trans_scripts_minimal (tbl : Table) (hwf : tbl.wfCovB = true)
    (hst : tbl.stampTotalB = true) (fuel : Nat) (steps : List TStep) :
    PieInvCv (covRolesOf tbl) totalSem (bodyOf tbl)
      (runStepsW stdSem (bodyOf tbl) fuel {} steps).1 ∧
    ∀ e ∈ (runStepsW stdSem (bodyOf tbl) fuel {} steps).2, ∀ t, Ev.executeStart t ∈ e.trace →
      DemandedCv (covRolesOf tbl).toRoles totalSem (bodyOf tbl) e.before e.roots t := by
  have A := scripts_agree_totalSem hst
  rw [A.run_stepsW]
  obtain ⟨h0, h1, h2, h3, h4, _⟩ := Table.wfCovB_sound hwf
  exact ⟨(C01_trans_history h0 h1 h2 h3 h4 fuel steps).1, fun e he t ht =>
    C02_trans_minimal_history h0 h1 h2 h3 h4 fuel steps e he t ht⟩

/-- `C01_scripts` is the special case of tables that pass the direct test `wfB` as well as the
cover test `covB` (e.g. every table without relays whose requires go to higher-numbered tasks). -/
theorem C01_trans_scripts_of_wfB (tbl : Table) (hwf : tbl.wfB = true) (hcov : tbl.covB = true)
    (hst : tbl.stampTotalB = true) (fuel fuel' : Nat) (steps : List TStep) (e : SessLog)
    (he : e ∈ (runStepsW stdSem (bodyOf tbl) fuel {} steps).2) (sc : Sess) (os' : List Int)
    (hc : cleanBuild stdSem (bodyOf tbl) fuel' e.before e.roots = (sc, .ok os')) :
    e.outs = os' ∧ ∀ r, aget e.after r = aget sc.fs r :=
  C01_trans_scripts tbl (Table.wfCovB_of_wfB_covB hwf hcov) hst fuel fuel' steps e he sc os' hc

/-! ### 4. non-vacuity

The harness shapes.  Task 5 GENERATES resource 10 from source 1 (twice the value; removes it if the
source is absent).  Tasks 6, 7 are relays (larger ids than all other tasks): 6 requires the
generator 5 and then reads source 2 through `ParityRes` (id 1, not exact — allowed at a read);
`7 = req 6 0 ret v0` (chained).  Readers of 10: task 0 requires the generator directly; task 1
requires the chained relay 7; tasks 2 and 3 share the relay 6. -/

def scov2Tbl : Table :=
  [(0, .req 5 0 (.read 10 0 (.ret (.var 1)))),
   (1, .req 7 0 (.read 10 0 (.ret (.add (.var 0) (.var 1))))),
   (2, .req 6 0 (.read 10 0 (.ret (.add (.var 1) (.const 1))))),
   (3, .req 6 0 (.read 10 0 (.ret (.add (.var 1) (.const 2))))),
   (5, .read 1 0 (.ite (.isNone 0)
          (.write 10 0 none (.ret (.const 0)))
          (.write 10 0 (some (.mul (.var 0) (.const 2))) (.ret (.var 0))))),
   (6, .req 5 0 (.read 2 1 (.ret (.add (.mul (.var 0) (.const 100)) (.var 1))))),
   (7, .req 6 0 (.ret (.var 0)))]

/-- The tests, evaluated by the kernel. -/
theorem scov2Tbl_wfCovB : scov2Tbl.wfCovB = true := by decide
theorem scov2Tbl_stampTotalB : scov2Tbl.stampTotalB = true := by decide

/-- The direct tests reject the table: with `rank t = t` the relays 6, 7 require downward, and the
readers 1, 2, 3 have not required the generator 5 itself: `C01_scripts` does not apply. -/
theorem scov2Tbl_not_direct : scov2Tbl.staticRolesB = false ∧ scov2Tbl.wfB = false := by decide

/-- The derived roles-with-covers. -/
example : (covRolesOf scov2Tbl).gen 10 = some 5 ∧ (covRolesOf scov2Tbl).gen 1 = none ∧
    (List.range 8).map (covRolesOf scov2Tbl).cov =
      [[5], [7, 6, 5], [6, 5], [6, 5], [], [], [5], [6, 5]] ∧
    (List.range 8).map (covRolesOf scov2Tbl).rank = [6, 4, 5, 5, 7, 7, 6, 5] := by decide

/-- `Table.wfCovB_sound` applied. -/
example : WellFormedCov (covRolesOf scov2Tbl) (bodyOf scov2Tbl) ∧
    (∀ t, Respects totalSem (bodyOf scov2Tbl t)) ∧ (∀ t, OneChecker (bodyOf scov2Tbl t)) ∧
    (∀ t, WriteExact totalSem (bodyOf scov2Tbl t)) :=
  have h := Table.wfCovB_sound scov2Tbl_wfCovB
  ⟨h.2.1, h.2.2.1, h.2.2.2.1, h.2.2.2.2.1⟩

/-- Build all four readers; edit the GENERATED resource 10 from outside; build again; change the
generator's source 1; build a reader behind the shared relay, then the others; change the relay's
source 2 (first keeping its parity, then not); build the reader behind the chained relay. -/
def scov2Hist : List TStep :=
  [.change 1 (some 5), .change 2 (some 7), .session [1, 2, 0, 3], .change 10 (some 99),
   .session [1, 2, 0, 3], .change 1 (some 6), .session [2], .session [1, 0, 3],
   .change 2 (some 9), .session [1], .change 2 (some 8), .session [1]]

/-- The driver's log (under `stdSem`): resources before, roots, outputs, resources after.  In the
second session the external edit of resource 10 is undone; the third and the fourth propagate the
change of source 1 through the relays. -/
theorem scov2Hist_log : (runStepsW stdSem (bodyOf scov2Tbl) 60 {} scov2Hist).2.map
      (fun e => (e.before, e.roots, e.outs, e.after)) =
    [([(1, 5), (2, 7)], [1, 2, 0, 3], [511, 11, 10, 12], [(1, 5), (2, 7), (10, 10)]),
     ([(1, 5), (2, 7), (10, 99)], [1, 2, 0, 3], [511, 11, 10, 12], [(1, 5), (2, 7), (10, 10)]),
     ([(1, 6), (2, 7), (10, 10)], [2], [13], [(1, 6), (2, 7), (10, 12)]),
     ([(1, 6), (2, 7), (10, 12)], [1, 0, 3], [613, 12, 14], [(1, 6), (2, 7), (10, 12)]),
     ([(1, 6), (2, 9), (10, 12)], [1], [613], [(1, 6), (2, 9), (10, 12)]),
     ([(1, 6), (2, 8), (10, 12)], [1], [612], [(1, 6), (2, 8), (10, 12)])] := by
  with_unfolding_all decide

/-- What the six sessions execute: in the second one only the generator runs again; in the third the
generator, the shared relay (its require of the generator is no longer consistent) and the reader;
in the fifth (source 2 changed, same parity) nothing. -/
theorem scov2Hist_execs : (runStepsW stdSem (bodyOf scov2Tbl) 60 {} scov2Hist).2.map
      (fun e => execsOf e.trace) =
    [[1, 7, 6, 5, 2, 0, 3], [5], [5, 6, 2], [7, 1, 0, 3], [], [6, 7, 1]] := by
  with_unfolding_all decide

/-- `C01_trans_scripts` applied to the whole history, no hypothesis left. -/
theorem scov2Hist_clean : ∀ e ∈ (runStepsW stdSem (bodyOf scov2Tbl) 60 {} scov2Hist).2,
    ∀ fuel' sc os', cleanBuild stdSem (bodyOf scov2Tbl) fuel' e.before e.roots = (sc, .ok os') →
      e.outs = os' ∧ ∀ r, aget e.after r = aget sc.fs r :=
  fun e he fuel' sc os' hc =>
    C01_trans_scripts scov2Tbl scov2Tbl_wfCovB scov2Tbl_stampTotalB 60 fuel' scov2Hist e he sc os' hc

/-- ... not vacuously: the driver's clean builds on the resources of the second session (10 edited
from outside) and of the third (source 1 of the generator changed) do return, with the logged
outputs and resources. -/
theorem scov2Hist_clean_runs :
    ((cleanBuild stdSem (bodyOf scov2Tbl) 60 [(1, 5), (2, 7), (10, 99)] [1, 2, 0, 3]).2 =
        .ok [511, 11, 10, 12] ∧
     (cleanBuild stdSem (bodyOf scov2Tbl) 60 [(1, 5), (2, 7), (10, 99)] [1, 2, 0, 3]).1.fs =
        [(1, 5), (2, 7), (10, 10)]) ∧
    ((cleanBuild stdSem (bodyOf scov2Tbl) 60 [(1, 6), (2, 7), (10, 10)] [2]).2 = .ok [13] ∧
     (cleanBuild stdSem (bodyOf scov2Tbl) 60 [(1, 6), (2, 7), (10, 10)] [2]).1.fs =
        [(1, 6), (2, 7), (10, 12)]) := by
  refine ⟨⟨?_, ?_⟩, ⟨?_, ?_⟩⟩ <;> with_unfolding_all decide

/-- `C02_trans_scripts_minimal` applied: the invariants hold of the driver's `Pie`, and the
generator 5 — the only task the second logged session (the one after the external edit) executes —
is demanded by the from-scratch build of the readers (through the relays). -/
theorem scov2Hist_minimal : PieInvCv (covRolesOf scov2Tbl) totalSem (bodyOf scov2Tbl)
      (runStepsW stdSem (bodyOf scov2Tbl) 60 {} scov2Hist).1 ∧
    DemandedCv (covRolesOf scov2Tbl).toRoles totalSem (bodyOf scov2Tbl)
      [(1, 5), (2, 7), (10, 99)] [1, 2, 0, 3] 5 := by
  have h := C02_trans_scripts_minimal scov2Tbl scov2Tbl_wfCovB scov2Tbl_stampTotalB 60 scov2Hist
  refine ⟨h.1, ?_⟩
  obtain ⟨e, he, hf⟩ := ScriptCov2.mem_of_getElem?_map
    (l := (runStepsW stdSem (bodyOf scov2Tbl) 60 {} scov2Hist).2) (i := 1)
    (f := fun e => (e.before, e.roots, decide (Ev.executeStart 5 ∈ e.trace)))
    (b := ([(1, 5), (2, 7), (10, 99)], [1, 2, 0, 3], true)) (by with_unfolding_all decide)
  have h5 := h.2 e he 5 (of_decide_eq_true (congrArg (fun x => x.2.2) hf))
  rw [show e.before = _ from congrArg (fun x => x.1) hf,
    show e.roots = _ from congrArg (fun x => x.2.1) hf] at h5
  exact h5

/-! #### the conjuncts of the test are needed -/

/-- The reader requires the relay AFTER reading the generated resource: `covB`, hence `wfCovB`,
rejects it (the driver's second session aborts with `hidden`: `scovLateTbl_hidden`). -/
example : scovLateTbl.wfCovB = false := by decide

/-- A relay table whose generator writes through the existence-only checker (id 2): the cover test
accepts it, `writeExactB` — hence `wfCovB` — rejects it.  Rightly: after an external edit of the
generated resource the driver's session leaves the edited content, the clean build regenerates
it. -/
def scov2InexactTbl : Table :=
  [(1, .req 6 0 (.read 10 0 (.ret (.var 1)))),
   (5, .write 10 2 (some (.const 1)) (.ret (.const 0))),
   (6, .req 5 0 (.ret (.var 0)))]

theorem scov2InexactTbl_rejected :
    scov2InexactTbl.covB = true ∧ scov2InexactTbl.stampTotalB = true ∧
      scov2InexactTbl.wfCovB = false := by decide

theorem scov2InexactTbl_differs :
    (runStepsW stdSem (bodyOf scov2InexactTbl) 20 {}
        [.session [1], .change 10 (some 99), .session [1]]).2.map
      (fun e => (e.before, e.roots, e.outs, e.after)) =
      [([], [1], [1], [(10, 1)]), ([(10, 99)], [1], [99], [(10, 99)])] ∧
    (cleanBuild stdSem (bodyOf scov2InexactTbl) 20 [(10, 99)] [1]).2 = .ok [1] ∧
    (cleanBuild stdSem (bodyOf scov2InexactTbl) 20 [(10, 99)] [1]).1.fs = [(10, 1)] := by
  refine ⟨?_, ?_, ?_⟩ <;> with_unfolding_all decide

/-- Two checkers for one target on a path of a relay: the cover test accepts the table,
`oneCheckerB` — hence `wfCovB` — rejects it. -/
def scov2TwoCkTbl : Table :=
  [(5, .write 10 0 (some (.const 1)) (.ret (.const 0))),
   (6, .req 5 0 (.req 5 4 (.ret (.var 0))))]

example : scov2TwoCkTbl.covB = true ∧ scov2TwoCkTbl.wfCovB = false := by decide

end PieModel
