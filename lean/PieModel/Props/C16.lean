/-
Property C16 (determinism): the result of the build-system's graph and queue operations does
not depend on the enumeration order of hash sets.

In the Rust code the two change sets of `DAG::add_edge` are `HashSet`s (iteration order depends
on random hash seeds) that `reorder_nodes` sorts by rank before use; the bottom-up `Queue` is
sorted by rank before every pop.  The model passes lists; here it is proved that every result
is a function of the *set* (multiset) only.

Property statements only; the proofs are in `PieModel/Graph/SortPerm.lean` and
`PieModel/Build/QueueLemmas.lean`.
-/
import PieModel.Graph.SortPerm
import PieModel.Build.QueueLemmas
import PieModel.Props.C10

namespace PieModel
open Dag

variable {N E : Type}

/-! ### sorting -/

/-- `isortBy` returns a permutation of its input. -/
theorem C16_isortBy_perm {α : Type} (key : α → Nat) (l : List α) : (isortBy key l).Perm l :=
  isortBy_perm key l

/-- `isortBy` returns a list sorted by `key`. -/
theorem C16_isortBy_sorted {α : Type} (key : α → Nat) (l : List α) :
    (isortBy key l).Pairwise (fun a b => key a ≤ key b) :=
  isortBy_sorted key l

/-- With a key that is injective on the input, `isortBy` does not depend on the input order. -/
theorem C16_isortBy_perm_of_injOn {α : Type} (key : α → Nat) {l₁ l₂ : List α}
    (hp : l₁.Perm l₂) (hinj : ∀ a ∈ l₁, ∀ b ∈ l₁, key a = key b → a = b) :
    isortBy key l₁ = isortBy key l₂ :=
  isortBy_perm_of_injOn key hp hinj

/-- Set version: two duplicate-free enumerations of the same set sort to the same list. -/
theorem C16_isortBy_set {α : Type} (key : α → Nat) {l₁ l₂ : List α}
    (hn₁ : l₁.Nodup) (hn₂ : l₂.Nodup) (hmem : ∀ a, a ∈ l₁ ↔ a ∈ l₂)
    (hinj : ∀ a ∈ l₁, ∀ b ∈ l₁, key a = key b → a = b) :
    isortBy key l₁ = isortBy key l₂ :=
  isortBy_eq_of_mem_iff key hn₁ hn₂ hmem hinj

/-! ### `reorderNodes` -/

/-- `reorderNodes` does not depend on the enumeration order of the two change sets.  Minimal
hypothesis: the ranks are pairwise distinct inside `fwd` and inside `bwd`. -/
theorem C16_reorder_perm_invariant (g : Dag N E) {fwd fwd' bwd bwd' : List Nat}
    (hF : fwd.Perm fwd') (hB : bwd.Perm bwd')
    (hiF : ∀ a ∈ fwd, ∀ b ∈ fwd, g.topoOf a = g.topoOf b → a = b)
    (hiB : ∀ a ∈ bwd, ∀ b ∈ bwd, g.topoOf a = g.topoOf b → a = b) :
    g.reorderNodes fwd bwd = g.reorderNodes fwd' bwd' :=
  reorderNodes_perm_invariant g hF hB hiF hiB

/-- Same, with the hypothesis discharged by well-formedness: change sets of live nodes. -/
theorem C16_reorder_perm_invariant_live (g : Dag N E) (h : g.WF) {fwd fwd' bwd bwd' : List Nat}
    (hF : fwd.Perm fwd') (hB : bwd.Perm bwd')
    (hlF : ∀ x ∈ fwd, g.containsNode x = true) (hlB : ∀ x ∈ bwd, g.containsNode x = true) :
    g.reorderNodes fwd bwd = g.reorderNodes fwd' bwd' :=
  reorderNodes_perm_invariant g hF hB (h.topo_injOn hlF) (h.topo_injOn hlB)

/-! ### `addEdge` -/

/-- The backward search depends on the shared `visited` set only through membership. -/
theorem C16_dfsBackward_visited_set (g : Dag N E) (s lb : Nat) {V V' : List Nat}
    (hV : ∀ x, x ∈ V ↔ x ∈ V') : g.dfsBackward s V lb = g.dfsBackward s V' lb :=
  dfsBackward_visited_congr g s lb hV

/-- The two change sets computed inside `addEdge` are duplicate-free lists of live nodes of the
intermediate graph (so their ranks are pairwise distinct) and are disjoint. -/
theorem C16_addEdge_change_sets {g : Dag N E} (h : g.Inv) {s t : Nat} (d : E)
    (hs : g.containsNode s = true) (ht : g.containsNode t = true)
    (hc : t ∉ g.childrenOf s) (hlt : g.topoOf t < g.topoOf s) {F : List Nat}
    (hF : (g.addEdgeG3 s t d).dfsForward t (g.topoOf s) = some F) :
    (g.addEdgeG3 s t d).WF ∧ F.Nodup ∧
      ((g.addEdgeG3 s t d).dfsBackward s F (g.topoOf t)).Nodup ∧
      (∀ x ∈ F, (g.addEdgeG3 s t d).containsNode x = true) ∧
      (∀ x ∈ (g.addEdgeG3 s t d).dfsBackward s F (g.topoOf t),
        (g.addEdgeG3 s t d).containsNode x = true) ∧
      (∀ x ∈ (g.addEdgeG3 s t d).dfsBackward s F (g.topoOf t), x ∉ F) :=
  addEdge_dfs_sets h d hs ht hc hlt hF

/-- The rank repair inside `addEdge` gives the same graph for *any* enumeration `F'` of the
forward set, *any* enumeration `V'` of the visited set handed to the backward search and *any*
enumeration `B'` of the resulting backward set. -/
theorem C16_addEdge_reorder_order_independent {g : Dag N E} (h : g.Inv) {s t : Nat} (d : E)
    (hs : g.containsNode s = true) (ht : g.containsNode t = true)
    (hc : t ∉ g.childrenOf s) (hlt : g.topoOf t < g.topoOf s) {F F' V' B' : List Nat}
    (hF : (g.addEdgeG3 s t d).dfsForward t (g.topoOf s) = some F)
    (hF' : F'.Perm F) (hV' : ∀ x, x ∈ V' ↔ x ∈ F)
    (hB' : B'.Perm ((g.addEdgeG3 s t d).dfsBackward s V' (g.topoOf t))) :
    (g.addEdgeG3 s t d).reorderNodes F' B' =
      (g.addEdgeG3 s t d).reorderNodes F ((g.addEdgeG3 s t d).dfsBackward s F (g.topoOf t)) :=
  addEdge_reorder_order_independent h d hs ht hc hlt hF hF' hV' hB'

/-- **`addEdge` is independent of the hash-set enumeration order**: re-enumerating the forward
set by `permF` and the backward set by `permB` (any functions returning permutations) before
the rank repair changes neither the resulting graph nor the verdict. -/
theorem C16_addEdge_order_independent {g : Dag N E} (h : g.Inv)
    {permF permB : List Nat → List Nat}
    (hpF : ∀ l, (permF l).Perm l) (hpB : ∀ l, (permB l).Perm l) (s t : Nat) (d : E) :
    Dag.addEdgeWith permF permB g s t d = g.addEdge s t d :=
  addEdgeWith_eq_addEdge h hpF hpB s t d

/-- … in every graph reachable through the public API. -/
theorem C16_addEdge_order_independent_reachable (ops : List (Dag.GOp N E))
    {permF permB : List Nat → List Nat}
    (hpF : ∀ l, (permF l).Perm l) (hpB : ∀ l, (permB l).Perm l) (s t : Nat) (d : E) :
    Dag.addEdgeWith permF permB (Dag.run ops) s t d = (Dag.run ops).addEdge s t d := by
  exact addEdgeWith_eq_addEdge (C10_inv_reachable ops) hpF hpB s t d

/-! ### the bottom-up queue -/

/-- The sorted queue is a function of the multiset of queued (live) nodes and the ranks. -/
theorem C16_queueSort_perm_invariant (st : Store) (h : st.g.Inv) {q q' : List Nat}
    (hp : q.Perm q') (hl : ∀ n ∈ q, st.g.containsNode n = true) :
    queueSort st q = queueSort st q' :=
  queueSort_perm_invariant h.toWF hp hl

/-- `Queue::pop` returns the same node *and the same remainder* for permuted queues. -/
theorem C16_queuePop_perm_invariant (st : Store) (h : st.g.Inv) {q q' : List Nat}
    (hp : q.Perm q') (hl : ∀ n ∈ q, st.g.containsNode n = true) :
    queuePop st q = queuePop st q' :=
  queuePop_perm_invariant h.toWF hp hl

/-- `Queue::pop_least_task_with_dependency_from` returns the same node and the same remainder
for permuted queues (a fortiori the remainders are permutations of each other). -/
theorem C16_queuePopLeastFrom_perm_invariant (st : Store) (h : st.g.Inv) {q q' : List Nat}
    (hp : q.Perm q') (hl : ∀ n ∈ q, st.g.containsNode n = true) (src : Nat) :
    queuePopLeastFrom st q src = queuePopLeastFrom st q' src :=
  queuePopLeastFrom_perm_invariant h.toWF hp hl src

/-- The complete pop order is a function of the set of queued nodes. -/
theorem C16_queueDrain_perm_invariant (st : Store) (h : st.g.Inv) {q q' : List Nat}
    (hp : q.Perm q') (hl : ∀ n ∈ q, st.g.containsNode n = true) (f : Nat) :
    queueDrain st f q = queueDrain st f q' :=
  queueDrain_perm_invariant h.toWF hp hl f

/-- Scheduling the same nodes in a different order yields a permutation of the same queue. -/
theorem C16_queueAdd_order {q ns ns' : List Nat} (hq : q.Nodup) (hp : ns.Perm ns') :
    (ns.foldl queueAdd q).Perm (ns'.foldl queueAdd q) :=
  foldl_queueAdd_perm hq hp

/-! ### non-vacuity -/

/-- Two chains `0 → 1 → 2` (ranks 1, 2, 3) and `3 → 4 → 5` (ranks 4, 5, 6). -/
def c16Graph : Dag Unit Unit :=
  Dag.run [.addNode (), .addNode (), .addNode (), .addNode (), .addNode (), .addNode (),
    .addEdge 0 1 (), .addEdge 1 2 (), .addEdge 3 4 (), .addEdge 4 5 ()]

example : c16Graph.iterUnsorted = [(1, 0), (2, 1), (3, 2), (4, 3), (5, 4), (6, 5)] := by decide

/-- The rank repair for the new edge `5 → 0` (forward set `{0,1,2}`, backward set `{3,4,5}`),
with the two sets enumerated in two different orders: same ranks, and the ranks do change. -/
example :
    (c16Graph.reorderNodes [0, 1, 2] [5, 4, 3]).iterUnsorted
      = (c16Graph.reorderNodes [2, 0, 1] [4, 3, 5]).iterUnsorted
    ∧ (c16Graph.reorderNodes [0, 1, 2] [5, 4, 3]).iterUnsorted
      = [(4, 0), (5, 1), (6, 2), (1, 3), (2, 4), (3, 5)] := by decide

/-- `addEdge 5 0` on that graph computes exactly these two sets and repairs the ranks; with the
sets reversed (`addEdgeWith List.reverse List.reverse`) the outcome is the same. -/
example :
    (c16Graph.addEdge 5 0 ()).1.iterUnsorted = [(4, 0), (5, 1), (6, 2), (1, 3), (2, 4), (3, 5)]
    ∧ (Dag.addEdgeWith List.reverse List.reverse c16Graph 5 0 ()).1.iterUnsorted
      = (c16Graph.addEdge 5 0 ()).1.iterUnsorted
    ∧ (c16Graph.addEdge 5 0 ()).2.toOption = some true := by decide

/-- The hypotheses of the main theorem are jointly satisfiable (the graph is reachable, hence
satisfies the invariant). -/
example : Dag.addEdgeWith List.reverse List.reverse c16Graph 5 0 () = c16Graph.addEdge 5 0 () :=
  C16_addEdge_order_independent (C10_inv_reachable _) List.reverse_perm List.reverse_perm 5 0 ()

/-- The hypothesis of `C16_reorder_perm_invariant` cannot be dropped: with two nodes of equal
rank in one change set the enumeration order matters. -/
def c16Bad : Dag Unit Unit :=
  { nodes := [(0, ⟨3, (), [], []⟩), (1, ⟨3, (), [], []⟩), (2, ⟨5, (), [], []⟩)], last := 3, next := 3 }

example : (c16Bad.reorderNodes [0, 1] [2]).iterUnsorted ≠
    (c16Bad.reorderNodes [1, 0] [2]).iterUnsorted := by decide

end PieModel
