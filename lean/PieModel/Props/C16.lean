import PieModel.Build.Pie
namespace PieModel
theorem C16_placeholder : True := trivial
end PieModel
