import PieModel.Build.Pie
namespace PieModel
theorem C17_placeholder : True := trivial
end PieModel
