import PieModel.Props.C17Lib
import PieModel.Props.C17Trace
