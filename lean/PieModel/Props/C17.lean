import PieModel.Props.C17Lib
