/-
C15 — identity of type-erased tasks/resources: two keys are the same exactly when they have the
same concrete type and compare equal; keys of different types never share a node of the store
even if their fields coincide.
-/
import PieModel.Lib.Identity
import PieModel.Graph.AList
import PieModel.Build.Store

namespace PieModel

open Identity

/-! ### `eq_any` and the encoding of keys as names -/

theorem C15_eqAny_iff (a b : Key) : eqAny a b = true ↔ a = b := by
  cases a; cases b
  simp only [eqAny, Key.mk.injEq]
  split <;> simp_all

theorem C15_eqAny_iff_fields (a b : Key) : eqAny a b = true ↔ a.ty = b.ty ∧ a.val = b.val := by
  rw [C15_eqAny_iff]
  cases a; cases b; simp

/-- Values of different concrete types are never equal, whatever their fields. -/
theorem C15_different_types_never_equal (a b : Key) (h : a.ty ≠ b.ty) : eqAny a b = false := by
  simp [eqAny, h]

theorem C15_eqAny_refl (a : Key) : eqAny a a = true := (C15_eqAny_iff a a).mpr rfl

theorem C15_eqAny_symm (a b : Key) : eqAny a b = eqAny b a := by
  rw [Bool.eq_iff_iff, C15_eqAny_iff, C15_eqAny_iff]; exact eq_comm

theorem C15_eqAny_trans (a b c : Key) (h1 : eqAny a b = true) (h2 : eqAny b c = true) :
    eqAny a c = true := by
  rw [C15_eqAny_iff] at *; exact h1.trans h2

/-- The names used by the build model are an injective image of the keys (for the 16 type tags
the harness uses). -/
theorem C15_encode_injective (a b : Key) (ha : a.ty < 16) (hb : b.ty < 16)
    (h : encode a = encode b) : a = b := by
  cases a; cases b
  simp only [encode, Key.mk.injEq] at *
  omega

theorem C15_encode_eq_iff_eqAny (a b : Key) (ha : a.ty < 16) (hb : b.ty < 16) :
    encode a = encode b ↔ eqAny a b = true := by
  rw [C15_eqAny_iff]
  exact ⟨C15_encode_injective a b ha hb, fun h => h ▸ rfl⟩

/-- Same fields, different type ⇒ different names. -/
theorem C15_encode_different_types (a b : Key) (ha : a.ty < 16) (hb : b.ty < 16) (h : a.ty ≠ b.ty) :
    encode a ≠ encode b := by
  intro he; exact h (congrArg Key.ty (C15_encode_injective a b ha hb he))

/-! ### the store keys nodes by name -/

namespace Store

/-- Well-formedness of the two lookup tables of the store: names are duplicate-free in each table,
no graph node is shared by two table entries (of either table), and every node id in the tables
was issued by the graph (`< g.next`; ids are never reused). -/
structure TablesWF (st : Store) : Prop where
  taskKeys : (akeys st.taskNode).Nodup
  resKeys : (akeys st.resNode).Nodup
  idsNodup : ((st.taskNode ++ st.resNode).map (·.2)).Nodup
  idsLt : ∀ p ∈ st.taskNode ++ st.resNode, p.2 < st.g.next

theorem TablesWF.empty : TablesWF ({} : Store) :=
  ⟨by simp, by simp, by simp, by simp⟩

theorem TablesWF.task_inj {st : Store} (h : st.TablesWF) {t t' n : Nat}
    (h1 : aget st.taskNode t = some n) (h2 : aget st.taskNode t' = some n) : t = t' := by
  have m1 : (t, n) ∈ st.taskNode ++ st.resNode := List.mem_append_left _ (aget_mem h1)
  have m2 : (t', n) ∈ st.taskNode ++ st.resNode := List.mem_append_left _ (aget_mem h2)
  have := nodup_map_inj h.idsNodup m1 m2 rfl
  exact congrArg Prod.fst this

theorem TablesWF.res_inj {st : Store} (h : st.TablesWF) {r r' n : Nat}
    (h1 : aget st.resNode r = some n) (h2 : aget st.resNode r' = some n) : r = r' := by
  have m1 : (r, n) ∈ st.taskNode ++ st.resNode := List.mem_append_right _ (aget_mem h1)
  have m2 : (r', n) ∈ st.taskNode ++ st.resNode := List.mem_append_right _ (aget_mem h2)
  have := nodup_map_inj h.idsNodup m1 m2 rfl
  exact congrArg Prod.fst this

theorem TablesWF.task_res_ne {st : Store} (h : st.TablesWF) {t r n n' : Nat}
    (h1 : aget st.taskNode t = some n) (h2 : aget st.resNode r = some n') : n ≠ n' := by
  have hn := h.idsNodup
  rw [List.map_append, List.nodup_append] at hn
  exact hn.2.2 n (List.mem_map.mpr ⟨_, aget_mem h1, rfl⟩) n' (List.mem_map.mpr ⟨_, aget_mem h2, rfl⟩)

theorem TablesWF.task_lt {st : Store} (h : st.TablesWF) {t n : Nat}
    (h1 : aget st.taskNode t = some n) : n < st.g.next :=
  h.idsLt _ (List.mem_append_left _ (aget_mem h1))

theorem TablesWF.res_lt {st : Store} (h : st.TablesWF) {r n : Nat}
    (h1 : aget st.resNode r = some n) : n < st.g.next :=
  h.idsLt _ (List.mem_append_right _ (aget_mem h1))

private theorem fresh_not_mem {l : List (Nat × Nat)} {b : Nat} (h : ∀ p ∈ l, p.2 < b) :
    b ∉ l.map (·.2) := by
  intro hm
  obtain ⟨p, hp, he⟩ := List.mem_map.mp hm
  have := h p hp
  omega

/-- Adding a fresh name with a fresh graph node to the task table. -/
private theorem wf_addTask {st : Store} (h : st.TablesWF) {t : Nat} (ht : aget st.taskNode t = none)
    (d : NodeData) :
    TablesWF { st with g := (st.g.addNode d).1, taskNode := st.taskNode ++ [(t, st.g.next)] } := by
  have hfresh := fresh_not_mem h.idsLt
  rw [List.map_append, List.mem_append] at hfresh
  refine ⟨?_, h.resKeys, ?_, ?_⟩
  · show (akeys (st.taskNode ++ [(t, st.g.next)])).Nodup
    rw [akeys_append, List.nodup_append]
    refine ⟨h.taskKeys, by simp, ?_⟩
    intro a ha b hb
    simp at hb; subst hb
    rintro rfl
    exact (aget_eq_none_iff _ _).mp ht ha
  · show (((st.taskNode ++ [(t, st.g.next)]) ++ st.resNode).map (·.2)).Nodup
    have hn := h.idsNodup
    simp only [List.map_append, List.nodup_append, List.map_cons, List.map_nil, List.mem_append,
      List.mem_cons, List.not_mem_nil, or_false] at hn ⊢
    refine ⟨⟨hn.1, by simp, ?_⟩, hn.2.1, ?_⟩
    · intro a ha b hb; subst hb; rintro rfl; exact hfresh (.inl ha)
    · intro a ha b hb
      rcases ha with ha | rfl
      · exact hn.2.2 a ha b hb
      · rintro rfl; exact hfresh (.inr hb)
  · intro p hp
    show p.2 < st.g.next + 1
    simp only [List.mem_append, List.mem_cons, List.not_mem_nil, or_false] at hp
    rcases hp with (hp | rfl) | hp
    · exact Nat.lt_succ_of_lt (h.idsLt p (List.mem_append_left _ hp))
    · exact Nat.lt_succ_self _
    · exact Nat.lt_succ_of_lt (h.idsLt p (List.mem_append_right _ hp))

private theorem wf_addRes {st : Store} (h : st.TablesWF) {r : Nat} (hr : aget st.resNode r = none)
    (d : NodeData) :
    TablesWF { st with g := (st.g.addNode d).1, resNode := st.resNode ++ [(r, st.g.next)] } := by
  have hfresh := fresh_not_mem h.idsLt
  rw [List.map_append, List.mem_append] at hfresh
  refine ⟨h.taskKeys, ?_, ?_, ?_⟩
  · show (akeys (st.resNode ++ [(r, st.g.next)])).Nodup
    rw [akeys_append, List.nodup_append]
    refine ⟨h.resKeys, by simp, ?_⟩
    intro a ha b hb
    simp at hb; subst hb
    rintro rfl
    exact (aget_eq_none_iff _ _).mp hr ha
  · show ((st.taskNode ++ (st.resNode ++ [(r, st.g.next)])).map (·.2)).Nodup
    have hn := h.idsNodup
    simp only [List.map_append, List.nodup_append, List.map_cons, List.map_nil, List.mem_append,
      List.mem_cons, List.not_mem_nil, or_false] at hn ⊢
    refine ⟨hn.1, ⟨hn.2.1, by simp, ?_⟩, ?_⟩
    · intro a ha b hb; subst hb; rintro rfl; exact hfresh (.inr ha)
    · intro a ha b hb
      rcases hb with hb | rfl
      · exact hn.2.2 a ha b hb
      · rintro rfl; exact hfresh (.inl ha)
  · intro p hp
    show p.2 < st.g.next + 1
    simp only [List.mem_append, List.mem_cons, List.not_mem_nil, or_false] at hp
    rcases hp with hp | hp | rfl
    · exact Nat.lt_succ_of_lt (h.idsLt p (List.mem_append_left _ hp))
    · exact Nat.lt_succ_of_lt (h.idsLt p (List.mem_append_right _ hp))
    · exact Nat.lt_succ_self _

/-- Everything about `get_or_create_task_node` in one statement. -/
theorem getOrCreateTaskNode_spec {st : Store} (h : st.TablesWF) (t : Nat) :
    (st.getOrCreateTaskNode t).1.TablesWF ∧
    aget (st.getOrCreateTaskNode t).1.taskNode t = some (st.getOrCreateTaskNode t).2 ∧
    (∀ t' n, aget st.taskNode t' = some n → aget (st.getOrCreateTaskNode t).1.taskNode t' = some n) ∧
    (st.getOrCreateTaskNode t).1.resNode = st.resNode ∧
    (aget st.taskNode t = none →
      (st.getOrCreateTaskNode t).2 = st.g.next ∧
      (st.getOrCreateTaskNode t).1.g.next = st.g.next + 1 ∧
      ∀ t', t' ≠ t → aget (st.getOrCreateTaskNode t).1.taskNode t' = aget st.taskNode t') := by
  unfold getOrCreateTaskNode
  cases hg : aget st.taskNode t with
  | some n => exact ⟨h, hg, fun _ _ h => h, rfl, fun h => by cases h⟩
  | none =>
    refine ⟨wf_addTask h hg _, ?_, ?_, rfl, fun _ => ⟨rfl, rfl, ?_⟩⟩
    · show aget (st.taskNode ++ [(t, st.g.next)]) t = some st.g.next
      simp [aget_append, hg]
    · intro t' n h'
      show aget (st.taskNode ++ [(t, st.g.next)]) t' = some n
      simp [aget_append, h']
    · intro t' hne
      show aget (st.taskNode ++ [(t, st.g.next)]) t' = aget st.taskNode t'
      simp [aget_append, Ne.symm hne]

theorem getOrCreateResNode_spec {st : Store} (h : st.TablesWF) (r : Nat) :
    (st.getOrCreateResNode r).1.TablesWF ∧
    aget (st.getOrCreateResNode r).1.resNode r = some (st.getOrCreateResNode r).2 ∧
    (∀ r' n, aget st.resNode r' = some n → aget (st.getOrCreateResNode r).1.resNode r' = some n) ∧
    (st.getOrCreateResNode r).1.taskNode = st.taskNode ∧
    (aget st.resNode r = none →
      (st.getOrCreateResNode r).2 = st.g.next ∧
      (st.getOrCreateResNode r).1.g.next = st.g.next + 1 ∧
      ∀ r', r' ≠ r → aget (st.getOrCreateResNode r).1.resNode r' = aget st.resNode r') := by
  unfold getOrCreateResNode
  cases hg : aget st.resNode r with
  | some n => exact ⟨h, hg, fun _ _ h => h, rfl, fun h => by cases h⟩
  | none =>
    refine ⟨wf_addRes h hg _, ?_, ?_, rfl, fun _ => ⟨rfl, rfl, ?_⟩⟩
    · show aget (st.resNode ++ [(r, st.g.next)]) r = some st.g.next
      simp [aget_append, hg]
    · intro r' n h'
      show aget (st.resNode ++ [(r, st.g.next)]) r' = some n
      simp [aget_append, h']
    · intro r' hne
      show aget (st.resNode ++ [(r, st.g.next)]) r' = aget st.resNode r'
      simp [aget_append, Ne.symm hne]

end Store

open Store

theorem C15_tablesWF_empty : Store.TablesWF ({} : Store) := TablesWF.empty

theorem C15_tablesWF_getOrCreateTaskNode {st : Store} (h : st.TablesWF) (t : Nat) :
    (st.getOrCreateTaskNode t).1.TablesWF := (getOrCreateTaskNode_spec h t).1

theorem C15_tablesWF_getOrCreateResNode {st : Store} (h : st.TablesWF) (r : Nat) :
    (st.getOrCreateResNode r).1.TablesWF := (getOrCreateResNode_spec h r).1

/-- Asking twice for the same name gives the same node, and does not change the store again. -/
theorem C15_getOrCreateTaskNode_idem {st : Store} (h : st.TablesWF) (t : Nat) :
    (st.getOrCreateTaskNode t).1.getOrCreateTaskNode t = st.getOrCreateTaskNode t := by
  have hs := (getOrCreateTaskNode_spec h t).2.1
  generalize st.getOrCreateTaskNode t = r at hs
  obtain ⟨s1, n⟩ := r
  simp only [getOrCreateTaskNode] at hs ⊢
  simp only [hs]

theorem C15_getOrCreateResNode_idem {st : Store} (h : st.TablesWF) (r : Nat) :
    (st.getOrCreateResNode r).1.getOrCreateResNode r = st.getOrCreateResNode r := by
  have hs := (getOrCreateResNode_spec h r).2.1
  generalize st.getOrCreateResNode r = q at hs
  obtain ⟨s1, n⟩ := q
  simp only [getOrCreateResNode] at hs ⊢
  simp only [hs]

/-- Two task names share a node iff they are the same name. -/
theorem C15_node_shared_iff {st : Store} (h : st.TablesWF) (t t' : Nat) :
    (st.getOrCreateTaskNode t).2 = ((st.getOrCreateTaskNode t).1.getOrCreateTaskNode t').2 ↔
      t = t' := by
  constructor
  · intro he
    obtain ⟨hwf1, hl1, -, -, -⟩ := getOrCreateTaskNode_spec h t
    obtain ⟨-, hl2, hmono, -, hnew⟩ := getOrCreateTaskNode_spec hwf1 t'
    cases hg : aget (st.getOrCreateTaskNode t).1.taskNode t' with
    | some n' =>
      have := hmono t' n' hg
      rw [hl2] at this
      have h2 : aget (st.getOrCreateTaskNode t).1.taskNode t' =
          some (st.getOrCreateTaskNode t).2 := by rw [hg, he, this]
      exact hwf1.task_inj hl1 h2
    | none =>
      have := (hnew hg).1
      have hlt := hwf1.task_lt hl1
      omega
  · rintro rfl
    rw [C15_getOrCreateTaskNode_idem h]

theorem C15_res_node_shared_iff {st : Store} (h : st.TablesWF) (r r' : Nat) :
    (st.getOrCreateResNode r).2 = ((st.getOrCreateResNode r).1.getOrCreateResNode r').2 ↔
      r = r' := by
  constructor
  · intro he
    obtain ⟨hwf1, hl1, -, -, -⟩ := getOrCreateResNode_spec h r
    obtain ⟨-, hl2, hmono, -, hnew⟩ := getOrCreateResNode_spec hwf1 r'
    cases hg : aget (st.getOrCreateResNode r).1.resNode r' with
    | some n' =>
      have := hmono r' n' hg
      rw [hl2] at this
      have h2 : aget (st.getOrCreateResNode r).1.resNode r' =
          some (st.getOrCreateResNode r).2 := by rw [hg, he, this]
      exact hwf1.res_inj hl1 h2
    | none =>
      have := (hnew hg).1
      have hlt := hwf1.res_lt hl1
      omega
  · rintro rfl
    rw [C15_getOrCreateResNode_idem h]

/-- A task and a resource never share a node, even if their names coincide. -/
theorem C15_task_res_node_disjoint {st : Store} (h : st.TablesWF) (t r : Nat) :
    (st.getOrCreateTaskNode t).2 ≠ ((st.getOrCreateTaskNode t).1.getOrCreateResNode r).2 := by
  obtain ⟨hwf1, hl1, -, -, -⟩ := getOrCreateTaskNode_spec h t
  obtain ⟨hwf2, hl2, -, htn, -⟩ := getOrCreateResNode_spec hwf1 r
  rw [← htn] at hl1
  exact hwf2.task_res_ne hl1 hl2

theorem C15_res_task_node_disjoint {st : Store} (h : st.TablesWF) (t r : Nat) :
    (st.getOrCreateResNode r).2 ≠ ((st.getOrCreateResNode r).1.getOrCreateTaskNode t).2 := by
  obtain ⟨hwf1, hl1, -, -, -⟩ := getOrCreateResNode_spec h r
  obtain ⟨hwf2, hl2, -, hrn, -⟩ := getOrCreateTaskNode_spec hwf1 t
  rw [← hrn] at hl1
  exact (hwf2.task_res_ne hl2 hl1).symm

/-- The node of a name never changes once it was created (whatever other names are looked up or
created later). -/
theorem C15_node_stable_task {st : Store} (h : st.TablesWF) {t n : Nat}
    (hn : aget st.taskNode t = some n) (t' r' : Nat) :
    aget (st.getOrCreateTaskNode t').1.taskNode t = some n ∧
    aget (st.getOrCreateResNode r').1.taskNode t = some n :=
  ⟨(getOrCreateTaskNode_spec h t').2.2.1 t n hn, by rw [(getOrCreateResNode_spec h r').2.2.2.1]; exact hn⟩

theorem C15_node_stable_res {st : Store} (h : st.TablesWF) {r n : Nat}
    (hn : aget st.resNode r = some n) (t' r' : Nat) :
    aget (st.getOrCreateResNode r').1.resNode r = some n ∧
    aget (st.getOrCreateTaskNode t').1.resNode r = some n :=
  ⟨(getOrCreateResNode_spec h r').2.2.1 r n hn, by rw [(getOrCreateTaskNode_spec h t').2.2.2.1]; exact hn⟩

/-- End to end: two type-erased task keys (type tag `< 16`) get the same store node iff `eq_any`
says they are the same; in particular keys of different types never share a node. -/
theorem C15_key_node_shared_iff {st : Store} (h : st.TablesWF) (a b : Key)
    (ha : a.ty < 16) (hb : b.ty < 16) :
    (st.getOrCreateTaskNode (encode a)).2 =
        ((st.getOrCreateTaskNode (encode a)).1.getOrCreateTaskNode (encode b)).2 ↔
      eqAny a b = true := by
  rw [C15_node_shared_iff h, C15_encode_eq_iff_eqAny a b ha hb]

theorem C15_key_res_node_shared_iff {st : Store} (h : st.TablesWF) (a b : Key)
    (ha : a.ty < 16) (hb : b.ty < 16) :
    (st.getOrCreateResNode (encode a)).2 =
        ((st.getOrCreateResNode (encode a)).1.getOrCreateResNode (encode b)).2 ↔
      eqAny a b = true := by
  rw [C15_res_node_shared_iff h, C15_encode_eq_iff_eqAny a b ha hb]

theorem C15_different_types_never_share_node {st : Store} (h : st.TablesWF) (a b : Key)
    (ha : a.ty < 16) (hb : b.ty < 16) (hty : a.ty ≠ b.ty) :
    (st.getOrCreateTaskNode (encode a)).2 ≠
        ((st.getOrCreateTaskNode (encode a)).1.getOrCreateTaskNode (encode b)).2 ∧
    (st.getOrCreateResNode (encode a)).2 ≠
        ((st.getOrCreateResNode (encode a)).1.getOrCreateResNode (encode b)).2 := by
  have hne := C15_different_types_never_equal a b hty
  constructor
  · intro he; rw [C15_key_node_shared_iff h a b ha hb] at he; simp [hne] at he
  · intro he; rw [C15_key_res_node_shared_iff h a b ha hb] at he; simp [hne] at he

/-! ### non-vacuity -/

/-- same fields, different type: not equal, different names -/
example : eqAny ⟨1, 42⟩ ⟨2, 42⟩ = false ∧ encode ⟨1, 42⟩ ≠ encode ⟨2, 42⟩ := by decide
example : eqAny ⟨3, 42⟩ ⟨3, 42⟩ = true := by decide
/-- the bound on the type tag in `C15_encode_injective` is needed -/
example : encode ⟨16, 0⟩ = encode ⟨0, 0⟩ ∧ (⟨16, 0⟩ : Key) ≠ ⟨0, 0⟩ := by decide

/-- A concrete store: tasks 5, 6 and resource 5 get nodes 0, 1, 2; asking again for task 5 gives 0. -/
example :
    let s0 : Store := {}
    let (s1, a) := s0.getOrCreateTaskNode 5
    let (s2, b) := s1.getOrCreateTaskNode 6
    let (s3, c) := s2.getOrCreateResNode 5
    let (_, d) := s3.getOrCreateTaskNode 5
    (a, b, c, d) = (0, 1, 2, 0) := by decide

/-- `TablesWF` is not vacuous and not trivial: a table sharing a node between two names violates it. -/
example : ¬ Store.TablesWF { g := { next := 1 }, taskNode := [(1, 0), (2, 0)] } := by
  intro h; have := h.idsNodup; simp at this

end PieModel
