import PieModel.Build.Pie
namespace PieModel
theorem C15_placeholder : True := trivial
end PieModel
