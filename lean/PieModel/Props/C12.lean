import PieModel.Build.Pie
namespace PieModel
theorem C12_placeholder : True := trivial
end PieModel
