/-
C12 — the five built-in output checkers: an output checked against the stamp of another output
is consistent exactly when the documented relation holds between the two outputs; every output is
consistent with its own stamp.  Tied to the checker table of the build model (`stdOStamp`,
`stdOCheck`, `stdRStamp`, `stdRCheck`).
-/
import PieModel.Lib.Checkers
import PieModel.Build.StdSem

namespace PieModel

open OChk

section Generic
set_option linter.unusedSectionVars false
variable {T E O : Type} [DecidableEq T] [DecidableEq E] [DecidableEq O]

/-! ### the documented relations -/

/-- `EqualsChecker`: consistent iff the outputs are equal. -/
theorem C12_equals_iff (o1 o2 : O) :
    equalsCheck o2 (equalsStamp o1) = true ↔ o2 = o1 := by
  unfold equalsCheck equalsStamp; exact decide_eq_true_iff

/-- `OkEqualsChecker`: consistent iff equal `Ok` payloads, or both are errors (all errors are
equivalent). -/
theorem C12_okEquals_iff (o1 o2 : Out T E) :
    okEqualsCheck o2 (okEqualsStamp o1) = true ↔
      ((∃ t, o1 = .ok t ∧ o2 = .ok t) ∨ (o1.isErr = true ∧ o2.isErr = true)) := by
  cases o1 <;> cases o2 <;> simp [okEqualsCheck, okEqualsStamp, Out.okVal, Out.isErr, eq_comm]

/-- `ErrEqualsChecker`: consistent iff equal `Err` payloads, or both are successes (all successes
are equivalent). -/
theorem C12_errEquals_iff (o1 o2 : Out T E) :
    errEqualsCheck o2 (errEqualsStamp o1) = true ↔
      ((∃ e, o1 = .err e ∧ o2 = .err e) ∨ (o1.isErr = false ∧ o2.isErr = false)) := by
  cases o1 <;> cases o2 <;> simp [errEqualsCheck, errEqualsStamp, Out.errVal, Out.isErr, eq_comm]

/-- `ResultChecker`: consistent iff same `Ok`/`Err`-ness. -/
theorem C12_result_iff (o1 o2 : Out T E) :
    resultCheck o2 (resultStamp o1) = true ↔ o1.isErr = o2.isErr := by
  simp [resultCheck, resultStamp, eq_comm]

/-- `AlwaysConsistent`. -/
theorem C12_always (o1 o2 : O) : alwaysCheck o2 (alwaysStamp o1) = true := rfl

/-- Payload-level reading of `OkEqualsChecker`: it compares exactly the `Ok` payloads. -/
theorem C12_okEquals_iff_okVal (o1 o2 : Out T E) :
    okEqualsCheck o2 (okEqualsStamp o1) = true ↔ o2.okVal = o1.okVal := by
  unfold okEqualsCheck okEqualsStamp; exact decide_eq_true_iff

theorem C12_errEquals_iff_errVal (o1 o2 : Out T E) :
    errEqualsCheck o2 (errEqualsStamp o1) = true ↔ o2.errVal = o1.errVal := by
  unfold errEqualsCheck errEqualsStamp; exact decide_eq_true_iff

/-- All errors are equivalent for `OkEqualsChecker`, whatever their payloads. -/
theorem C12_okEquals_errors_equivalent (e1 e2 : E) :
    okEqualsCheck (.err e2 : Out T E) (okEqualsStamp (.err e1 : Out T E)) = true := by
  simp [okEqualsCheck, okEqualsStamp, Out.okVal]

/-- All successes are equivalent for `ErrEqualsChecker`, whatever their payloads. -/
theorem C12_errEquals_successes_equivalent (t1 t2 : T) :
    errEqualsCheck (.ok t2 : Out T E) (errEqualsStamp (.ok t1 : Out T E)) = true := by
  simp [errEqualsCheck, errEqualsStamp, Out.errVal]

/-- An `Ok` and an `Err` are never consistent for `OkEquals`, `ErrEquals`, `Result`. -/
theorem C12_mixed_inconsistent (t : T) (e : E) :
    okEqualsCheck (.err e : Out T E) (okEqualsStamp (.ok t : Out T E)) = false ∧
    okEqualsCheck (.ok t : Out T E) (okEqualsStamp (.err e : Out T E)) = false ∧
    errEqualsCheck (.err e : Out T E) (errEqualsStamp (.ok t : Out T E)) = false ∧
    errEqualsCheck (.ok t : Out T E) (errEqualsStamp (.err e : Out T E)) = false ∧
    resultCheck (.err e : Out T E) (resultStamp (.ok t : Out T E)) = false ∧
    resultCheck (.ok t : Out T E) (resultStamp (.err e : Out T E)) = false := by
  simp [okEqualsCheck, okEqualsStamp, errEqualsCheck, errEqualsStamp, resultCheck, resultStamp,
    Out.okVal, Out.errVal, Out.isErr]

/-! ### every output is consistent with its own stamp -/

theorem C12_reflexive_equals (o : O) : equalsCheck o (equalsStamp o) = true :=
  (C12_equals_iff o o).mpr rfl

theorem C12_reflexive_okEquals (o : Out T E) : okEqualsCheck o (okEqualsStamp o) = true :=
  (C12_okEquals_iff_okVal o o).mpr rfl

theorem C12_reflexive_errEquals (o : Out T E) : errEqualsCheck o (errEqualsStamp o) = true :=
  (C12_errEquals_iff_errVal o o).mpr rfl

theorem C12_reflexive_result (o : Out T E) : resultCheck o (resultStamp o) = true :=
  (C12_result_iff o o).mpr rfl

theorem C12_reflexive_always (o : O) : alwaysCheck o (alwaysStamp o) = true := rfl

end Generic

/-! ### the checker table of the build model -/

/-- The harness' encoding of `Result<i64, i64>` outputs as `Int`s. -/
def decodeOut (n : Int) : OChk.Out Int Int := if n ≥ 0 then .ok n else .err n

theorem decodeOut_injective {a b : Int} (h : decodeOut a = decodeOut b) : a = b := by
  unfold decodeOut at h
  split at h <;> split at h <;> simp_all

theorem decodeOut_okVal (n : Int) : (decodeOut n).okVal = if n ≥ 0 then some n else none := by
  unfold decodeOut; split <;> rfl

theorem decodeOut_errVal (n : Int) : (decodeOut n).errVal = if n < 0 then some n else none := by
  unfold decodeOut
  split
  · rw [if_neg (by omega)]; rfl
  · rw [if_pos (by omega)]; rfl

theorem decodeOut_isErr (n : Int) : (decodeOut n).isErr = decide (n < 0) := by
  unfold decodeOut
  split
  · simp [Out.isErr]; omega
  · simp [Out.isErr]; omega

theorem C12_std_agrees_0 (n1 n2 : Int) :
    stdOCheck 0 n2 (stdOStamp 0 n1) = equalsCheck (decodeOut n2) (equalsStamp (decodeOut n1)) := by
  rw [Bool.eq_iff_iff, C12_equals_iff]
  simp only [stdOCheck, stdOStamp, beq_iff_eq, Stamp.int.injEq]
  exact ⟨fun h => h ▸ rfl, decodeOut_injective⟩

theorem C12_std_agrees_1 (n1 n2 : Int) :
    stdOCheck 1 n2 (stdOStamp 1 n1) = okEqualsCheck (decodeOut n2) (okEqualsStamp (decodeOut n1)) := by
  rw [Bool.eq_iff_iff, C12_okEquals_iff_okVal, decodeOut_okVal, decodeOut_okVal]
  simp only [stdOCheck, stdOStamp, beq_iff_eq, Stamp.optInt.injEq]

theorem C12_std_agrees_2 (n1 n2 : Int) :
    stdOCheck 2 n2 (stdOStamp 2 n1) = errEqualsCheck (decodeOut n2) (errEqualsStamp (decodeOut n1)) := by
  rw [Bool.eq_iff_iff, C12_errEquals_iff_errVal, decodeOut_errVal, decodeOut_errVal]
  simp only [stdOCheck, stdOStamp, beq_iff_eq, Stamp.optInt.injEq]

theorem C12_std_agrees_3 (n1 n2 : Int) :
    stdOCheck 3 n2 (stdOStamp 3 n1) = resultCheck (decodeOut n2) (resultStamp (decodeOut n1)) := by
  rw [Bool.eq_iff_iff, C12_result_iff, decodeOut_isErr, decodeOut_isErr]
  simp only [stdOCheck, stdOStamp, beq_iff_eq, Stamp.bool.injEq]
  exact eq_comm

theorem C12_std_agrees_4 (n1 n2 : Int) :
    stdOCheck 4 n2 (stdOStamp 4 n1) = alwaysCheck (decodeOut n2) (alwaysStamp (decodeOut n1)) := by
  simp [stdOCheck, stdOStamp, alwaysCheck]

/-- In the build model's table every output is consistent with its own stamp, for *every*
checker id (including the harness' `ParityOut` and the ids that default to `AlwaysConsistent`). -/
theorem C12_std_reflexive (c : Nat) (n : Int) : stdOCheck c n (stdOStamp c n) = true := by
  simp [stdOCheck]

/-- The documented relations, read directly on the `Int` encoding. -/
theorem C12_std_iff_0 (n1 n2 : Int) : stdOCheck 0 n2 (stdOStamp 0 n1) = true ↔ n2 = n1 := by
  simp [stdOCheck, stdOStamp]

theorem C12_std_iff_1 (n1 n2 : Int) :
    stdOCheck 1 n2 (stdOStamp 1 n1) = true ↔ (0 ≤ n1 ∧ n2 = n1) ∨ (n1 < 0 ∧ n2 < 0) := by
  simp only [stdOCheck, stdOStamp, beq_iff_eq, Stamp.optInt.injEq]
  split <;> split <;> simp <;> omega

theorem C12_std_iff_2 (n1 n2 : Int) :
    stdOCheck 2 n2 (stdOStamp 2 n1) = true ↔ (n1 < 0 ∧ n2 = n1) ∨ (0 ≤ n1 ∧ 0 ≤ n2) := by
  simp only [stdOCheck, stdOStamp, beq_iff_eq, Stamp.optInt.injEq]
  split <;> split <;> simp <;> omega

theorem C12_std_iff_3 (n1 n2 : Int) :
    stdOCheck 3 n2 (stdOStamp 3 n1) = true ↔ (n1 < 0 ↔ n2 < 0) := by
  simp only [stdOCheck, stdOStamp, beq_iff_eq, Stamp.bool.injEq, decide_eq_decide]
  exact Iff.comm

/-- Resource checkers: a value checked against its own (successfully produced) stamp is
consistent, unless the checker itself fails. -/
theorem C12_std_rcheck_reflexive (c : Nat) (v : Option Int) (s : Stamp)
    (h : stdRStamp c v = .ok s) :
    stdRCheck c v s = .ok true ∨ ∃ e, stdRCheck c v s = .error e := by
  unfold stdRStamp at h
  split at h
  · cases h
  · cases h
    unfold stdRCheck
    split
    · exact .inr ⟨_, rfl⟩
    · exact .inl (by simp)

/-- Resource checkers that cannot fail in `check` (ids `< 10` and ids `≥ 30`): consistent. -/
theorem C12_std_rcheck_reflexive_of_not_failing (c : Nat) (v : Option Int) (s : Stamp)
    (hc : c < 10 ∨ 30 ≤ c) (h : stdRStamp c v = .ok s) : stdRCheck c v s = .ok true := by
  unfold stdRStamp at h
  split at h
  · cases h
  · cases h
    unfold stdRCheck
    rw [if_neg (by omega)]
    simp

/-- The non-failing built-in resource checkers (`c < 10`): stamping succeeds and the value is
consistent with its own stamp. -/
theorem C12_std_rcheck_reflexive_lt_10 (c : Nat) (v : Option Int) (s : Stamp) (hc : c < 10)
    (h : stdRStamp c v = .ok s) : stdRCheck c v s = .ok true :=
  C12_std_rcheck_reflexive_of_not_failing c v s (.inl hc) h

theorem C12_std_rstamp_ok_lt_30 (c : Nat) (v : Option Int) (hc : c < 30) :
    stdRStamp c v = .ok (stdRStampCore c v) := by
  unfold stdRStamp
  rw [if_neg (by omega)]

/-- The failing case is exactly `FailWhen(k)` on content `k`. -/
theorem C12_std_rcheck_error_iff (c : Nat) (v : Option Int) (s : Stamp) (e : Int) :
    stdRCheck c v s = .error e ↔ (10 ≤ c ∧ c < 30 ∧ v = some ((c : Int) - 10) ∧ e = (c : Int) - 10) := by
  unfold stdRCheck
  split
  · rename_i h
    simp only [Except.error.injEq]
    constructor
    · intro he; exact ⟨h.1, h.2.1, h.2.2, he.symm⟩
    · intro he; exact he.2.2.2.symm
  · rename_i h
    constructor
    · intro he; cases he
    · intro he; exact absurd ⟨he.1, he.2.1, he.2.2.1⟩ h

/-! ### non-vacuity -/

example : okEqualsCheck (.err 7 : Out Nat Nat) (okEqualsStamp (.err 3 : Out Nat Nat)) = true := by decide
example : okEqualsCheck (.ok 7 : Out Nat Nat) (okEqualsStamp (.ok 3 : Out Nat Nat)) = false := by decide
example : errEqualsCheck (.ok 7 : Out Nat Nat) (errEqualsStamp (.ok 3 : Out Nat Nat)) = true := by decide
example : errEqualsCheck (.err 7 : Out Nat Nat) (errEqualsStamp (.err 3 : Out Nat Nat)) = false := by decide
example : resultCheck (.err 7 : Out Nat Nat) (resultStamp (.ok 7 : Out Nat Nat)) = false := by decide
example : equalsCheck (.ok 7 : Out Nat Nat) (equalsStamp (.err 7 : Out Nat Nat)) = false := by decide
example : stdOCheck 1 (-5) (stdOStamp 1 (-9)) = true := by decide
example : stdOCheck 1 5 (stdOStamp 1 9) = false := by decide
example : stdOCheck 2 5 (stdOStamp 2 9) = true := by decide
example : stdOCheck 3 (-1) (stdOStamp 3 0) = false := by decide
example : decodeOut 0 = .ok 0 ∧ decodeOut (-1) = .err (-1) := by decide
/-- `FailWhen(2)` (id 12) really fails on its own stamp: the disjunction in
`C12_std_rcheck_reflexive` is needed. -/
example : stdRStamp 12 (some 2) = .ok (.optInt (some 2)) ∧
    stdRCheck 12 (some 2) (.optInt (some 2)) = .error 2 := by
  constructor <;> rfl
example : stdRStamp 32 (some 2) = .error 2 := by rfl
example : stdRCheck 1 (some 7) (.optInt (some 1)) = .ok true := by rfl

end PieModel
