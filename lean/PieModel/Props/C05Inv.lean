/-
Property C05 (global part): "a build that returns leaves every reader of a generated resource
(transitively) dependent on the task that generated it".

* `C05_no_hidden_at_creation`: at the moment a read edge `cur → dst` is added, `cur` reaches the
  recorded writer of `dst`; at the moment a write edge `cur → dst` is added, every recorded reader
  of `dst` reaches `cur`.
* `Store.NoHidden`: every recorded reader of a node reaches every recorded writer of it.
  `C05_global_partial`: it is preserved by every step that does not remove edges — node creation,
  `setTaskOutput`, `setDependency`, `addDependency` under the creation-time condition, and hence
  by the session primitives `doRead`/`doWrite`/`doWrote`/`reserveRequire`/`updateRequire`.
* It is NOT preserved by `resetTask` (known finding K4, dependency erosion): resetting an
  intermediate task removes the path; kernel-checked counterexamples on a hand-built store
  (`C05_resetTask_breaks_noHidden`) and on a real history of two sessions (`c05K4`).
-/
import PieModel.Props.C05
import PieModel.Props.C06Inv

namespace PieModel

/-- Every recorded reader of a node (transitively) depends on every recorded writer of it. -/
def Store.NoHidden (st : Store) : Prop :=
  ∀ dst w y, w ∈ st.writersTo dst → y ∈ st.tasksReadingFrom dst → st.g.Reach y w

variable (sem : Sem)

/-! ### the creation-time invariant -/

/-- When `doRead` adds the read edge `cur → dst` (result `.ok (.ok _)`), the recorded writer of
`dst`, if any, is reachable from `cur`. -/
theorem C05_no_hidden_at_creation_read (s s' : Sess) (h : SessWF s) (cur r c : Nat)
    (v : Option Int) (hc : s.cur = some cur) (hr : doRead sem s r c = (s', .ok (.ok v))) :
    ∀ w, (s.store.getOrCreateResNode r).1.taskWritingTo (s.store.getOrCreateResNode r).2 = some w →
      (s.store.getOrCreateResNode r).1.g.Reach cur w := by
  rcases hp : s.store.getOrCreateResNode r with ⟨st, dst⟩
  have hw1 : st.WF := by have := h.store.getOrCreateResNode r; rw [hp] at this; exact this
  intro w hw
  rcases doRead_cases sem hc r c hp with ⟨_, hno⟩ | ⟨hh, _⟩
  · rw [hr] at hno; exact absurd rfl (hno v)
  · rw [← hw1.containsTransitive_iff]
    cases hct : st.containsTransitive cur w
    · have := (readHidden_eq_true_iff st cur dst).mpr ⟨w, hw, hct⟩
      rw [hh] at this; cases this
    · rfl

/-- When `doWrite` adds the write edge `cur → dst` (result `.ok (.ok ())`), `dst` had no recorded
writer and every recorded reader of `dst` reaches `cur`. -/
theorem C05_no_hidden_at_creation_write (s s' : Sess) (h : SessWF s) (cur r c : Nat)
    (v : Option Int) (hc : s.cur = some cur) (hr : doWrite sem s r c v = (s', .ok (.ok ()))) :
    (s.store.getOrCreateResNode r).1.taskWritingTo (s.store.getOrCreateResNode r).2 = none ∧
    ∀ y ∈ (s.store.getOrCreateResNode r).1.tasksReadingFrom (s.store.getOrCreateResNode r).2,
      (s.store.getOrCreateResNode r).1.g.Reach y cur := by
  rcases hp : s.store.getOrCreateResNode r with ⟨st, dst⟩
  have hw1 : st.WF := by have := h.store.getOrCreateResNode r; rw [hp] at this; exact this
  rcases doWrite_cases sem hc r c v hp with ⟨_, hno⟩ | ⟨hv, _⟩
  · rw [hr] at hno; exact absurd rfl hno
  · obtain ⟨h1, h2⟩ := (validateWrite_none_iff st cur dst).mp hv
    exact ⟨h1, fun y hy => (hw1.containsTransitive_iff y cur).mp (h2 y hy)⟩

theorem C05_no_hidden_at_creation_wrote (s s' : Sess) (h : SessWF s) (cur r c : Nat)
    (v : Option Int) (hc : s.cur = some cur) (hr : doWrote sem s r c v = (s', .ok (.ok ()))) :
    (s.store.getOrCreateResNode r).1.taskWritingTo (s.store.getOrCreateResNode r).2 = none ∧
    ∀ y ∈ (s.store.getOrCreateResNode r).1.tasksReadingFrom (s.store.getOrCreateResNode r).2,
      (s.store.getOrCreateResNode r).1.g.Reach y cur := by
  rcases hp : s.store.getOrCreateResNode r with ⟨st, dst⟩
  have hw1 : st.WF := by have := h.store.getOrCreateResNode r; rw [hp] at this; exact this
  rcases doWrote_cases sem hc r c v hp with ⟨_, hno⟩ | ⟨hv, _⟩
  · rw [hr] at hno; exact absurd rfl hno
  · obtain ⟨h1, h2⟩ := (validateWrite_none_iff st cur dst).mp hv
    exact ⟨h1, fun y hy => (hw1.containsTransitive_iff y cur).mp (h2 y hy)⟩

/-- **C05, creation-time invariant** (the three cases together). -/
theorem C05_no_hidden_at_creation (s : Sess) (h : SessWF s) (cur r c : Nat) (hc : s.cur = some cur) :
    (∀ s' v, doRead sem s r c = (s', .ok (.ok v)) →
      ∀ w, (s.store.getOrCreateResNode r).1.taskWritingTo (s.store.getOrCreateResNode r).2 = some w →
        (s.store.getOrCreateResNode r).1.g.Reach cur w) ∧
    (∀ s' v, doWrite sem s r c v = (s', .ok (.ok ())) →
      ∀ y ∈ (s.store.getOrCreateResNode r).1.tasksReadingFrom (s.store.getOrCreateResNode r).2,
        (s.store.getOrCreateResNode r).1.g.Reach y cur) ∧
    (∀ s' v, doWrote sem s r c v = (s', .ok (.ok ())) →
      ∀ y ∈ (s.store.getOrCreateResNode r).1.tasksReadingFrom (s.store.getOrCreateResNode r).2,
        (s.store.getOrCreateResNode r).1.g.Reach y cur) :=
  ⟨fun s' v hr => C05_no_hidden_at_creation_read sem s s' h cur r c v hc hr,
    fun s' v hr => (C05_no_hidden_at_creation_write sem s s' h cur r c v hc hr).2,
    fun s' v hr => (C05_no_hidden_at_creation_wrote sem s s' h cur r c v hc hr).2⟩

/-! ### `NoHidden`: steps that do not remove edges -/

namespace Store
variable {st : Store}

theorem NoHidden.empty : ({} : Store).NoHidden := by
  intro dst w y hw
  simp [writersTo, Dag.incomingEdges, Dag.parentsOf, Dag.info] at hw

/-- Transfer along an operation that keeps the reader/writer lists and does not shrink
reachability. -/
theorem NoHidden.of_same {st' : Store} (h : st.NoHidden)
    (hw : ∀ x, st'.writersTo x = st.writersTo x)
    (hr : ∀ x, st'.tasksReadingFrom x = st.tasksReadingFrom x)
    (hreach : ∀ a b, st.g.Reach a b → st'.g.Reach a b) : st'.NoHidden := by
  intro dst w y h1 h2
  rw [hw] at h1; rw [hr] at h2
  exact hreach _ _ (h dst w y h1 h2)

theorem NoHidden.getOrCreateTaskNode (h : st.NoHidden) (hw : st.WF) (t : Nat) :
    (st.getOrCreateTaskNode t).1.NoHidden :=
  h.of_same (writersTo_getOrCreateTaskNode hw t) (tasksReadingFrom_getOrCreateTaskNode hw t)
    (fun a b => (reach_getOrCreateTaskNode hw t a b).mpr)

theorem NoHidden.getOrCreateResNode (h : st.NoHidden) (hw : st.WF) (r : Nat) :
    (st.getOrCreateResNode r).1.NoHidden :=
  h.of_same (writersTo_getOrCreateResNode hw r) (tasksReadingFrom_getOrCreateResNode hw r)
    (fun a b => (reach_getOrCreateResNode hw r a b).mpr)

theorem NoHidden.setTaskOutput (h : st.NoHidden) (n : Nat) (o : Int) :
    (st.setTaskOutput n o).NoHidden :=
  h.of_same (by simp) (by simp) (fun a b => (reach_setTaskOutput n o a b).mpr)

/-- `setDependency` of a `require` (what `update_require_dependency` does). -/
theorem NoHidden.setDependency (h : st.NoHidden) (hw : st.WF) {src dst t c : Nat}
    {stamp : Stamp} {st' : Store} (hd : st.taskOf dst = some t)
    (hs : st.setDependency src dst (.require t c stamp) = some st') : st'.NoHidden := by
  have hw' : st'.WF := WF.setDependency hs hw hd
  intro x w y h1 h2
  by_cases hx : x = dst
  · subst hx
    rw [hw'.writersTo_task_node (t := t) (by rw [taskOf_setDependency hs]; exact hd)] at h1
    cases h1
  · rw [(incoming_obs_setDependency_of_ne hs hx).2.1] at h1
    rw [(incoming_obs_setDependency_of_ne hs hx).1] at h2
    exact (reach_setDependency hs y w).mpr (h x w y h1 h2)

theorem tasksReadingFrom_addDependency_of_not_read (hw : st.WF) (src dst : Nat) {d : Dep}
    (hd : d.isRead = false) (x : Nat) :
    (st.addDependency src dst d).1.tasksReadingFrom x = st.tasksReadingFrom x := by
  rcases addDependency_cases hw src dst d with ⟨h1, h2⟩ | h1
  · rw [tasksReadingFrom_addDependency_new hw h1 h2, hd]; simp
  · rw [h1]

/-- `addDependency` under the creation-time condition: a new reader reaches all recorded writers,
all recorded readers reach a new writer.  (No condition for `reserved`/`require`.) -/
theorem NoHidden.addDependency (h : st.NoHidden) (hw : st.WF) (src dst : Nat) (d : Dep)
    (hrd : d.isRead = true → ∀ w ∈ st.writersTo dst, st.g.Reach src w)
    (hwr : d.isWrite = true → ∀ y ∈ st.tasksReadingFrom dst, st.g.Reach y src) :
    (st.addDependency src dst d).1.NoHidden := by
  rcases addDependency_cases hw src dst d with ⟨h1, h2⟩ | h1
  · intro x w y hm1 hm2
    rw [writersTo_addDependency_new hw h1 h2] at hm1
    rw [tasksReadingFrom_addDependency_new hw h1 h2] at hm2
    apply reach_addDependency_mono hw
    by_cases hx : x = dst
    · subst hx
      cases hdw : d.isWrite <;> cases hdr : d.isRead
      · simp only [hdw, hdr, and_false, if_false, Bool.false_eq_true] at hm1 hm2
        exact h x w y hm1 hm2
      · simp only [hdw, hdr, and_false, and_true, if_false, if_true, Bool.false_eq_true,
          List.mem_append, List.mem_singleton] at hm1 hm2
        rcases hm2 with hm2 | rfl
        · exact h x w y hm1 hm2
        · exact hrd hdr w hm1
      · simp only [hdw, hdr, and_false, and_true, if_false, if_true, Bool.false_eq_true,
          List.mem_append, List.mem_singleton] at hm1 hm2
        rcases hm1 with hm1 | rfl
        · exact h x w y hm1 hm2
        · exact hwr hdw y hm2
      · cases d <;> simp at hdw hdr
    · simp only [hx, false_and, if_false] at hm1 hm2
      exact h x w y hm1 hm2
  · rw [h1]; exact h

end Store

/-! ### the session primitives preserve `NoHidden` -/

theorem C05_doRead_noHidden {s : Sess} (h : SessWF s) (hs : s.store.SingleWriter)
    (hn : s.store.NoHidden) (r c : Nat) : (doRead sem s r c).1.store.NoHidden := by
  cases hc : s.cur with
  | none => rw [doRead_store_none sem hc]; exact hn
  | some cur =>
    rcases hp : s.store.getOrCreateResNode r with ⟨st, dst⟩
    have hw1 : st.WF := by have := h.store.getOrCreateResNode r; rw [hp] at this; exact this
    have s1 : st.SingleWriter := by
      have := hs.getOrCreateResNode h.store r; rw [hp] at this; exact this
    have n1 : st.NoHidden := by
      have := hn.getOrCreateResNode h.store r; rw [hp] at this; exact this
    rcases doRead_cases sem hc r c hp with ⟨he, _⟩ | ⟨hh, stamp, _, he, _⟩ <;> rw [he]
    · exact n1
    · refine n1.addDependency hw1 cur dst _ (fun _ w hm => ?_) (fun hd => by cases hd)
      have hw := (C06_writer_unique st s1 dst w hm).2
      rw [← hw1.containsTransitive_iff]
      cases hct : st.containsTransitive cur w
      · have := (readHidden_eq_true_iff st cur dst).mpr ⟨w, hw, hct⟩
        rw [hh] at this; cases this
      · rfl

theorem C05_doWrite_noHidden {s : Sess} (h : SessWF s) (hn : s.store.NoHidden) (r c : Nat)
    (v : Option Int) : (doWrite sem s r c v).1.store.NoHidden := by
  cases hc : s.cur with
  | none => rw [doWrite_store_none sem hc]; simpa using hn
  | some cur =>
    rcases hp : s.store.getOrCreateResNode r with ⟨st, dst⟩
    have hw1 : st.WF := by have := h.store.getOrCreateResNode r; rw [hp] at this; exact this
    have n1 : st.NoHidden := by
      have := hn.getOrCreateResNode h.store r; rw [hp] at this; exact this
    rcases doWrite_cases sem hc r c v hp with ⟨he, _⟩ | ⟨hv, stamp, _, he, _⟩ <;> rw [he]
    · exact n1
    · refine n1.addDependency hw1 cur dst _ (fun hd => by cases hd) (fun _ y hy => ?_)
      exact (hw1.containsTransitive_iff y cur).mp (((validateWrite_none_iff st cur dst).mp hv).2 y hy)

theorem C05_doWrote_noHidden {s : Sess} (h : SessWF s) (hn : s.store.NoHidden) (r c : Nat)
    (v : Option Int) : (doWrote sem s r c v).1.store.NoHidden := by
  cases hc : s.cur with
  | none => rw [doWrote_store_none sem hc]; simpa using hn
  | some cur =>
    rcases hp : s.store.getOrCreateResNode r with ⟨st, dst⟩
    have hw1 : st.WF := by have := h.store.getOrCreateResNode r; rw [hp] at this; exact this
    have n1 : st.NoHidden := by
      have := hn.getOrCreateResNode h.store r; rw [hp] at this; exact this
    rcases doWrote_cases sem hc r c v hp with ⟨he, _⟩ | ⟨hv, stamp, _, he, _⟩ <;> rw [he]
    · exact n1
    · refine n1.addDependency hw1 cur dst _ (fun hd => by cases hd) (fun _ y hy => ?_)
      exact (hw1.containsTransitive_iff y cur).mp (((validateWrite_none_iff st cur dst).mp hv).2 y hy)

theorem C05_reserveRequire_noHidden {s : Sess} (h : SessWF s) (hn : s.store.NoHidden)
    (dst : Nat) : (reserveRequire s dst).1.store.NoHidden := by
  cases hc : s.cur with
  | none => unfold reserveRequire; rw [hc]; exact hn
  | some src =>
    rcases reserveRequire_cases hc dst with ⟨h1, _⟩ | ⟨_, h1, _⟩ <;> rw [h1]
    · exact hn
    · exact hn.addDependency h.store src dst _ (fun hd => by cases hd) (fun hd => by cases hd)

theorem C05_updateRequire_noHidden {s : Sess} (h : SessWF s) (hn : s.store.NoHidden)
    {dst t : Nat} (c : Nat) (stamp : Stamp) (hd : s.store.taskOf dst = some t) :
    (updateRequire s dst t c stamp).1.store.NoHidden := by
  cases hc : s.cur with
  | none => unfold updateRequire; rw [hc]; exact hn
  | some src =>
    rcases updateRequire_cases hc dst t c stamp with ⟨h1, _⟩ | ⟨st', hs, h1, _⟩ <;> rw [h1]
    · exact hn
    · exact hn.setDependency h.store hd hs

/-- **C05, global part (partial).** `NoHidden` is preserved by every step of a build except
`resetTask`: the store operations that add nodes, set outputs, set or add dependencies (the
latter under the creation-time condition that `validate_write` / the read test establish), and
hence all five session primitives. -/
theorem C05_global_partial (s : Sess) (h : SessWF s) (hs : s.store.SingleWriter)
    (hn : s.store.NoHidden) :
    (∀ t, (s.store.getOrCreateTaskNode t).1.NoHidden) ∧
    (∀ r, (s.store.getOrCreateResNode r).1.NoHidden) ∧
    (∀ n o, (s.store.setTaskOutput n o).NoHidden) ∧
    (∀ r c, (doRead sem s r c).1.store.NoHidden) ∧
    (∀ r c v, (doWrite sem s r c v).1.store.NoHidden) ∧
    (∀ r c v, (doWrote sem s r c v).1.store.NoHidden) ∧
    (∀ dst, (reserveRequire s dst).1.store.NoHidden) ∧
    (∀ dst t c stamp, s.store.taskOf dst = some t →
      (updateRequire s dst t c stamp).1.store.NoHidden) :=
  ⟨fun t => hn.getOrCreateTaskNode h.store t, fun r => hn.getOrCreateResNode h.store r,
    fun n o => hn.setTaskOutput n o, fun r c => C05_doRead_noHidden sem h hs hn r c,
    fun r c v => C05_doWrite_noHidden sem h hn r c v,
    fun r c v => C05_doWrote_noHidden sem h hn r c v,
    fun dst => C05_reserveRequire_noHidden h hn dst,
    fun _ _ c stamp hd => C05_updateRequire_noHidden h hn c stamp hd⟩

/-! ### `resetTask` breaks it (K4) -/

/-- Three tasks `X = 0`, `M = 1`, `W = 2` (graph nodes 0, 1, 2) and resource 5 (node 3):
`X → M → W`, `W` writes the resource, `X` reads it. -/
def c05Store : Store :=
  let st := ((({} : Store).getOrCreateTaskNode 0).1.getOrCreateTaskNode 1).1
  let st := ((st.getOrCreateTaskNode 2).1.getOrCreateResNode 5).1
  let st := (st.addDependency 0 1 (.require 1 0 .unit)).1
  let st := (st.addDependency 1 2 (.require 2 0 .unit)).1
  let st := (st.addDependency 2 3 (.write 5 0 .unit)).1
  (st.addDependency 0 3 (.read 5 0 .unit)).1

/-- The facts about the concrete store, kernel-checked: the reader `X` reaches the writer `W`
before the reset of `M`, not after it; reader and writer lists are untouched by the reset. -/
example : c05Store.writersTo 3 = [2] ∧ c05Store.tasksReadingFrom 3 = [0] ∧
    c05Store.containsTransitive 0 2 = true ∧
    (c05Store.resetTask 1).writersTo 3 = [2] ∧ (c05Store.resetTask 1).tasksReadingFrom 3 = [0] ∧
    (c05Store.resetTask 1).containsTransitive 0 2 = false := by decide +kernel

theorem c05Store_wf : c05Store.WF := by
  have h0 := ((Store.WF.empty.getOrCreateTaskNode 0).getOrCreateTaskNode 1).getOrCreateTaskNode 2
  have h1 := h0.getOrCreateResNode 5
  have h2 := h1.addDependency (src := 0) (dst := 1) (d := .require 1 0 .unit)
    ⟨0, by decide +kernel⟩ (by show Store.taskOf _ 1 = some 1; decide +kernel)
  have h3 := h2.addDependency (src := 1) (dst := 2) (d := .require 2 0 .unit)
    ⟨1, by decide +kernel⟩ (by show Store.taskOf _ 2 = some 2; decide +kernel)
  have h4 := h3.addDependency (src := 2) (dst := 3) (d := .write 5 0 .unit)
    ⟨2, by decide +kernel⟩ (by show Store.resOf _ 3 = some 5; decide +kernel)
  exact h4.addDependency (src := 0) (dst := 3) (d := .read 5 0 .unit)
    ⟨0, by decide +kernel⟩ (by show Store.resOf _ 3 = some 5; decide +kernel)

/-- `NoHidden` holds in the store before the reset. -/
theorem c05Store_noHidden : c05Store.NoHidden := by
  intro dst w y hw hy
  have hl : c05Store.g.containsNode dst = true := by
    cases hl : c05Store.g.containsNode dst
    · have : c05Store.g.incomingEdges dst = [] := Dag.incomingEdges_of_not_live _ hl
      simp [Store.writersTo, this] at hw
    · rfl
  have hdst : dst = 3 := by
    have hm := (Dag.containsNode_iff _ dst).mp hl
    have hids : c05Store.g.ids = [0, 1, 2, 3] := by decide +kernel
    have h0 : c05Store.writersTo 0 = [] := by decide +kernel
    have h1 : c05Store.writersTo 1 = [] := by decide +kernel
    have h2 : c05Store.writersTo 2 = [] := by decide +kernel
    rw [hids] at hm
    simp only [List.mem_cons, List.not_mem_nil, or_false] at hm
    rcases hm with rfl | rfl | rfl | rfl
    · rw [h0] at hw; cases hw
    · rw [h1] at hw; cases hw
    · rw [h2] at hw; cases hw
    · rfl
  subst hdst
  have e1 : c05Store.writersTo 3 = [2] := by decide +kernel
  have e2 : c05Store.tasksReadingFrom 3 = [0] := by decide +kernel
  rw [e1] at hw; rw [e2] at hy
  simp only [List.mem_singleton] at hw hy
  subst hw; subst hy
  exact (c05Store_wf.containsTransitive_iff 0 2).mp (by decide +kernel)

/-- **K4.** `resetTask` of the intermediate task `M` is the step that breaks `NoHidden`: a
well-formed, single-writer store satisfying `NoHidden` whose reset does not. -/
theorem C05_resetTask_breaks_noHidden :
    ∃ (st : Store) (n : Nat), st.WF ∧ st.NoHidden ∧ ¬ (st.resetTask n).NoHidden := by
  refine ⟨c05Store, 1, c05Store_wf, c05Store_noHidden, fun hn => ?_⟩
  have hr := hn 3 2 0 (by decide +kernel) (by decide +kernel)
  have := ((c05Store_wf.resetTask 1).containsTransitive_iff 0 2).mpr hr
  exact absurd this (by decide +kernel)

/-! ### the same on a real history -/

open DecEqAux

/-- `X = 0` requires `M = 1` and reads resource 5; `M` reads resource 6 and requires `W = 2` only
while it contains 1 (its output does not depend on it); `W` writes resource 5. -/
def c05iTbl : List (Nat × Script) :=
  [(0, .req 1 0 (.read 5 0 (.ret (.var 1)))),
   (1, .read 6 0 (.ite (.eq (.var 0) (.const 1)) (.req 2 0 (.ret (.const 7))) (.ret (.const 7)))),
   (2, .write 5 0 (some (.const 3)) (.ret (.const 0)))]

/-- Build with `6 ↦ 1`; change it to 2; build again: `M` is re-executed and drops `W`, its output
is unchanged, so `X` is reused. -/
def c05K4 : PieSt :=
  runHistory stdSem (bodyOf c05iTbl) 100 [.change 6 (some 1), .session [0], .change 6 (some 2), .session [0]]

/-- After the second (successful) session `X` (node 0) still reads resource 5 (node 4), `W`
(node 3) still is its recorded writer, but `X` no longer reaches `W`: `NoHidden` is violated in a
store left by builds that returned. -/
example : c05K4.store.tasksReadingFrom 4 = [0] ∧ c05K4.store.writersTo 4 = [3] ∧
    c05K4.store.containsTransitive 0 3 = false ∧
    (requireAll stdSem (bodyOf c05iTbl) 100 c05K4.newSession [0]).2 = .ok [3] := by
  decide +kernel

theorem C05_history_breaks_noHidden : ¬ c05K4.store.NoHidden := by
  intro hn
  have hw : c05K4.store.WF := C19_store_wf_history stdSem (bodyOf c05iTbl) 100 _
  have hr := hn 4 3 0 (by decide +kernel) (by decide +kernel)
  exact absurd ((hw.containsTransitive_iff 0 3).mpr hr) (by decide +kernel)

end PieModel
