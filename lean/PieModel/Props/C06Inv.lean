/-
Property C06 (global invariant): a build that returns — or aborts — leaves at most one writing
task per resource (`Store.SingleWriter`), after every history; re-execution of the same writer,
however it is reached, is never reported as an overlap (`resetTask` removes the task's own write
edges first); and the exact characterisation of the overlap abort under the invariant.

The local detection logic is in `Props/C06.lean`; the lifting of the invariant through the mutual
blocks is `Build/Lift.lean`.
-/
import PieModel.Build.Lift
import PieModel.Build.PrimSteps
import PieModel.Props.C06
import PieModel.Props.C19

namespace PieModel

/-- At most one `write` edge into every node. -/
def Store.SingleWriter (st : Store) : Prop := ∀ dst, (st.writersTo dst).length ≤ 1

namespace Store
variable {st : Store}

theorem SingleWriter.empty : ({} : Store).SingleWriter := by
  intro dst
  simp [writersTo, Dag.incomingEdges, Dag.parentsOf, Dag.info]

/-- An operation that does not lengthen any writer list preserves the invariant. -/
theorem SingleWriter.of_le {st' : Store} (h : st.SingleWriter)
    (hle : ∀ x, (st'.writersTo x).length ≤ (st.writersTo x).length) : st'.SingleWriter :=
  fun x => Nat.le_trans (hle x) (h x)

theorem SingleWriter.getOrCreateTaskNode (h : st.SingleWriter) (hw : st.WF) (t : Nat) :
    (st.getOrCreateTaskNode t).1.SingleWriter :=
  h.of_le fun x => by rw [writersTo_getOrCreateTaskNode hw]; exact Nat.le_refl _

theorem SingleWriter.getOrCreateResNode (h : st.SingleWriter) (hw : st.WF) (r : Nat) :
    (st.getOrCreateResNode r).1.SingleWriter :=
  h.of_le fun x => by rw [writersTo_getOrCreateResNode hw]; exact Nat.le_refl _

theorem SingleWriter.setTaskOutput (h : st.SingleWriter) (n : Nat) (o : Int) :
    (st.setTaskOutput n o).SingleWriter :=
  h.of_le fun x => by simp

/-- `resetTask` only removes edges. -/
theorem SingleWriter.resetTask (h : st.SingleWriter) (hw : st.WF) (n : Nat) :
    (st.resetTask n).SingleWriter :=
  h.of_le fun x => by rw [writersTo_resetTask hw]; exact List.length_filter_le _ _

/-- Adding a dependency that is not a `write` does not change any writer list. -/
theorem writersTo_addDependency_of_not_write (hw : st.WF) (src dst : Nat) {d : Dep}
    (hd : d.isWrite = false) (x : Nat) :
    (st.addDependency src dst d).1.writersTo x = st.writersTo x := by
  rcases addDependency_cases hw src dst d with ⟨h1, h2⟩ | h1
  · rw [writersTo_addDependency_new hw h1 h2, hd]; simp
  · rw [h1]

theorem SingleWriter.addDependency_of_not_write (h : st.SingleWriter) (hw : st.WF) (src dst : Nat)
    {d : Dep} (hd : d.isWrite = false) : (st.addDependency src dst d).1.SingleWriter :=
  h.of_le fun x => by rw [writersTo_addDependency_of_not_write hw src dst hd]; exact Nat.le_refl _

/-- Adding a `write` dependency to a node without recorded writer (what `validate_write`
checked). -/
theorem SingleWriter.addDependency_write (h : st.SingleWriter) (hw : st.WF) (src dst : Nat)
    (d : Dep) (hn : st.taskWritingTo dst = none) : (st.addDependency src dst d).1.SingleWriter := by
  rcases addDependency_cases hw src dst d with ⟨h1, h2⟩ | h1
  · intro x
    rw [writersTo_addDependency_new hw h1 h2]
    split
    next hx =>
      have : st.writersTo x = [] := by
        rw [taskWritingTo_eq] at hn
        rw [hx.1]; exact List.head?_eq_none_iff.mp hn
      simp [this]
    · exact h x
  · rw [h1]; exact h

/-- `setDependency` towards a task node (a `require`): task nodes have no writers. -/
theorem SingleWriter.setDependency (h : st.SingleWriter) (hw : st.WF) {src dst t c : Nat}
    {stamp : Stamp} {st' : Store} (hd : st.taskOf dst = some t)
    (hs : st.setDependency src dst (.require t c stamp) = some st') : st'.SingleWriter := by
  have hw' : st'.WF := WF.setDependency hs hw hd
  intro x
  by_cases hx : x = dst
  · subst hx
    rw [hw'.writersTo_task_node (t := t) (by rw [taskOf_setDependency hs]; exact hd)]
    exact Nat.zero_le _
  · rw [(incoming_obs_setDependency_of_ne hs hx).2.1]; exact h x

end Store

variable (sem : Sem) (body : Nat → Prog)

/-! ### the primitives preserve `SingleWriter` -/

theorem C06_doRead_single {s : Sess} (h : SessWF s) (hs : s.store.SingleWriter) (r c : Nat) :
    (doRead sem s r c).1.store.SingleWriter := by
  cases hc : s.cur with
  | none => rw [doRead_store_none sem hc]; exact hs
  | some cur =>
    have h1 := h.store.getOrCreateResNode r
    have s1 := hs.getOrCreateResNode h.store r
    rcases doRead_store sem hc r c with he | ⟨stamp, he⟩ <;> rw [he]
    · exact s1
    · exact s1.addDependency_of_not_write h1 _ _ rfl

theorem C06_doWrite_single {s : Sess} (h : SessWF s) (hs : s.store.SingleWriter) (r c : Nat)
    (v : Option Int) : (doWrite sem s r c v).1.store.SingleWriter := by
  cases hc : s.cur with
  | none => rw [doWrite_store_none sem hc]; simpa using hs
  | some cur =>
    have h1 := h.store.getOrCreateResNode r
    have s1 := hs.getOrCreateResNode h.store r
    rcases hp : s.store.getOrCreateResNode r with ⟨st, dst⟩
    rw [hp] at h1 s1
    rcases doWrite_cases sem hc r c v hp with ⟨he, _⟩ | ⟨hv, stamp, _, he, _⟩ <;> rw [he]
    · exact s1
    · exact s1.addDependency_write h1 _ _ _ ((validateWrite_none_iff st cur dst).mp hv).1

theorem C06_doWrote_single {s : Sess} (h : SessWF s) (hs : s.store.SingleWriter) (r c : Nat)
    (v : Option Int) : (doWrote sem s r c v).1.store.SingleWriter := by
  cases hc : s.cur with
  | none => rw [doWrote_store_none sem hc]; simpa using hs
  | some cur =>
    have h1 := h.store.getOrCreateResNode r
    have s1 := hs.getOrCreateResNode h.store r
    rcases hp : s.store.getOrCreateResNode r with ⟨st, dst⟩
    rw [hp] at h1 s1
    rcases doWrote_cases sem hc r c v hp with ⟨he, _⟩ | ⟨hv, stamp, _, he, _⟩ <;> rw [he]
    · exact s1
    · exact s1.addDependency_write h1 _ _ _ ((validateWrite_none_iff st cur dst).mp hv).1

/-- The primitive-step bundle for `SingleWriter`. -/
theorem C06_stepInv : StepInv sem (fun s => s.store.SingleWriter) :=
  StepInv.ofStore sem Store.SingleWriter
    (fun _ t hw h => h.getOrCreateTaskNode hw t)
    (fun _ r hw h => h.getOrCreateResNode hw r)
    (fun _ r c h hs => C06_doRead_single sem h hs r c)
    (fun _ r c v h hs => C06_doWrite_single sem h hs r c v)
    (fun _ r c v h hs => C06_doWrote_single sem h hs r c v)
    (fun _ src dst hw _ _ h => h.addDependency_of_not_write hw src dst rfl)
    (fun _ _ _ _ _ _ _ hw hd hs h => h.setDependency hw hd hs)
    (fun _ n hw h => h.resetTask hw n)
    (fun _ n o _ h => h.setTaskOutput n o)

/-! ### every function preserves it, whatever the result -/

/-- `SingleWriter` is preserved by every function of the build model (all five top-down
functions, `sessionRequire`, `requireAll`, scheduling, all six bottom-up functions,
`buExecuteScheduled`, `updateAffectedTasks`, `bottomUpBuild`), `.ok` or `.abort`, every fuel. -/
theorem C06_single_writer_preserved (f : Nat) (s : Sess) (h : SessWF s)
    (hs : s.store.SingleWriter) :
    (∀ t c, (tdRequire sem body f s t c).1.store.SingleWriter) ∧
    (∀ t, (tdMake sem body f s t).1.store.SingleWriter) ∧
    (∀ node, (tdCheck sem body f s node).1.store.SingleWriter) ∧
    (∀ ds, (tdCheckDeps sem body f s ds).1.store.SingleWriter) ∧
    (∀ p, (tdRun sem body f s p).1.store.SingleWriter) ∧
    (∀ t, (sessionRequire sem body f s t).1.store.SingleWriter) ∧
    (∀ ts, (requireAll sem body f s ts).1.store.SingleWriter) ∧
    (∀ r, (scheduleAffectedBy sem s r).store.SingleWriter) ∧
    (∀ node t out, (scheduleAfterExec sem s node t out).store.SingleWriter) ∧
    (∀ t c, (buRequire sem body f s t c).1.store.SingleWriter) ∧
    (∀ t node, (∃ t', s.store.taskOf node = some t') →
      (buMake sem body f s t node).1.store.SingleWriter) ∧
    (∀ t node, (∃ t', s.store.taskOf node = some t') →
      (buExec sem body f s t node).1.store.SingleWriter) ∧
    (∀ node, (buExecAndSchedule sem body f s node).1.store.SingleWriter) ∧
    (∀ src, (buRequireNow sem body f s src).1.store.SingleWriter) ∧
    (∀ p, (buRun sem body f s p).1.store.SingleWriter) ∧
    (buExecuteScheduled sem body f s).1.store.SingleWriter ∧
    (updateAffectedTasks sem body f s).1.store.SingleWriter ∧
    (∀ changed, (bottomUpBuild sem body f s changed).1.store.SingleWriter) := by
  have L := (C06_stepInv sem).lift sem body f s ⟨h, hs⟩
  exact ⟨fun t c => (L.1 t c).2, fun t => (L.2.1 t).2, fun n => (L.2.2.1 n).2,
    fun ds => (L.2.2.2.1 ds).2, fun p => (L.2.2.2.2.1 p).2, fun t => (L.2.2.2.2.2.1 t).2,
    fun ts => (L.2.2.2.2.2.2.1 ts).2, fun r => (L.2.2.2.2.2.2.2.2.1 r).2,
    fun n t o => (L.2.2.2.2.2.2.2.2.2.1 n t o).2, fun t c => (L.2.2.2.2.2.2.2.2.2.2.1 t c).2,
    fun t n hn => (L.2.2.2.2.2.2.2.2.2.2.2.1 t n hn).2,
    fun t n hn => (L.2.2.2.2.2.2.2.2.2.2.2.2.1 t n hn).2,
    fun n => (L.2.2.2.2.2.2.2.2.2.2.2.2.2.1 n).2,
    fun n => (L.2.2.2.2.2.2.2.2.2.2.2.2.2.2.1 n).2,
    fun p => (L.2.2.2.2.2.2.2.2.2.2.2.2.2.2.2.1 p).2,
    L.2.2.2.2.2.2.2.2.2.2.2.2.2.2.2.2.1.2, L.2.2.2.2.2.2.2.2.2.2.2.2.2.2.2.2.2.1.2,
    fun ch => (L.2.2.2.2.2.2.2.2.2.2.2.2.2.2.2.2.2.2 ch).2⟩

/-- One step of a history preserves `WF ∧ SingleWriter`. -/
theorem C06_runStep_single (fuel : Nat) (p : PieSt) (hw : p.store.WF)
    (hs : p.store.SingleWriter) (st : HStep) :
    (runStep sem body fuel p st).store.SingleWriter := by
  have S := (C06_stepInv sem).session_store sem body fuel p hw hs
  cases st with
  | change r v => unfold runStep; rw [C19_setContent_store]; exact hs
  | session roots => exact S.1 roots
  | bottomUp changed roots => exact S.2 changed roots

/-- **C06 (global).** After every history — external changes, top-down sessions, bottom-up builds,
any of them possibly aborted at any point — every resource has at most one recorded writer. -/
theorem C06_single_writer_history (fuel : Nat) (steps : List HStep) :
    (runHistory sem body fuel steps).store.SingleWriter := by
  unfold runHistory
  have key : ∀ (l : List HStep) (p : PieSt), p.store.WF → p.store.SingleWriter →
      (l.foldl (runStep sem body fuel) p).store.SingleWriter := by
    intro l
    induction l with
    | nil => intro p _ h; exact h
    | cons st l ih =>
      intro p hw h
      exact ih _ (C19_runStep_wf sem body fuel p hw st) (C06_runStep_single sem body fuel p hw h st)
  exact key steps {} Store.WF.empty Store.SingleWriter.empty

/-- The unique writer: `taskWritingTo` is *the* writer, not just the first one. -/
theorem C06_writer_unique (st : Store) (hs : st.SingleWriter) (dst w : Nat)
    (hw : w ∈ st.writersTo dst) : st.writersTo dst = [w] ∧ st.taskWritingTo dst = some w := by
  have := hs dst
  rw [Store.taskWritingTo_eq]
  cases hl : st.writersTo dst with
  | nil => rw [hl] at hw; cases hw
  | cons a l =>
    rw [hl] at this hw
    cases l with
    | nil => simp only [List.mem_singleton] at hw; subst hw; exact ⟨rfl, rfl⟩
    | cons b l => simp at this

/-! ### re-execution of the same writer is never an overlap -/

/-- After `resetTask n` no write edge of `n` remains; and if `n` was the only recorded writer of
`dst`, then `dst` has no recorded writer any more. -/
theorem C06_no_self_overlap (st : Store) (hw : st.WF) (n : Nat) :
    (∀ dst, n ∉ (st.resetTask n).writersTo dst) ∧
    (∀ dst, (∀ w ∈ st.writersTo dst, w = n) → (st.resetTask n).taskWritingTo dst = none) := by
  refine ⟨fun dst hm => ?_, fun dst hall => ?_⟩
  · rw [Store.writersTo_resetTask hw, List.mem_filter] at hm
    simp at hm
  · rw [Store.taskWritingTo_resetTask hw, List.head?_eq_none_iff, List.filter_eq_nil_iff]
    intro w hm
    simp [hall w hm]

/-- Hence the first `write` of `n` to `r` in the execution that follows the reset (the state
`{ s with store := s.store.resetTask n, cur := some n }` of the execute branch of `tdMake` and of
`buExec`) is not an overlap when `n` itself was the only recorded writer of `r`. -/
theorem C06_rewrite_after_reset_no_overlap (s : Sess) (h : SessWF s) (n r c : Nat)
    (v : Option Int)
    (hall : ∀ w ∈ s.store.writersTo ((s.store.resetTask n).getOrCreateResNode r).2, w = n) :
    (doWrite sem { s with store := s.store.resetTask n, cur := some n } r c v).2
      ≠ .abort .overlap ∧
    (doWrote sem { s with store := s.store.resetTask n, cur := some n } r c v).2
      ≠ .abort .overlap := by
  have hw1 := h.store.resetTask n
  have key : ((s.store.resetTask n).getOrCreateResNode r).1.taskWritingTo
      ((s.store.resetTask n).getOrCreateResNode r).2 = none := by
    rw [Store.taskWritingTo_getOrCreateResNode hw1]
    exact (C06_no_self_overlap s.store h.store n).2 _ hall
  constructor
  · rw [Ne, C06_overlap_iff]; simp [key]
  · rw [Ne, C06_wrote_overlap_iff]; simp [key]

/-! ### when a write aborts with `overlap` -/

/-- Under the invariant, a write by the executing task `n` to `r` aborts with `overlap` exactly
when the (unique) recorded writer of `r` is a different task, or `n` itself holds a `write`
dependency to `r` — which, `n`'s dependencies having been reset at the start of its execution
(`C08_reset_clears`), it declared earlier in this same execution. -/
theorem C06_overlap_iff_other_or_second (s : Sess) (h : SessWF s) (hs : s.store.SingleWriter)
    (n : Nat) (hc : s.cur = some n) (r c : Nat) (v : Option Int) :
    (doWrite sem s r c v).2 = .abort .overlap ↔
      (∃ w, w ≠ n ∧ (s.store.getOrCreateResNode r).1.writersTo (s.store.getOrCreateResNode r).2 = [w]) ∨
      (∃ c' stamp, Dep.write r c' stamp ∈ (s.store.getOrCreateResNode r).1.depsFrom n) := by
  rw [C06_overlap_iff, hc]
  simp only [Option.isSome_some, true_and]
  have hw1 := h.store.getOrCreateResNode r
  have s1 := hs.getOrCreateResNode h.store r
  have hres := Store.resOf_getOrCreateResNode_self h.store r
  generalize (s.store.getOrCreateResNode r).1 = st at *
  generalize (s.store.getOrCreateResNode r).2 = dst at *
  -- own write dependency to `r` ↔ `n` is a recorded writer of `dst`
  have own : (∃ c' stamp, Dep.write r c' stamp ∈ st.depsFrom n) ↔ n ∈ st.writersTo dst := by
    rw [hw1.mem_writersTo_iff]
    constructor
    · rintro ⟨c', stamp, hm⟩
      obtain ⟨x, hx⟩ := (hw1.mem_depsFrom_iff n _).mp hm
      have hok := hw1.edge_dst n x _ hx
      simp only [Store.depOK_write] at hok
      have : x = dst := by
        have h1 := (hw1.res_iff r x).mpr hok
        have h2 := (hw1.res_iff r dst).mpr hres
        rw [h1] at h2; exact Option.some.inj h2
      subst this
      exact ⟨_, rfl, hx⟩
    · rintro ⟨d, hd, he⟩
      have hok := hw1.edge_dst n dst d he
      cases d with
      | write r' c' stamp =>
        simp only [Store.depOK_write] at hok
        rw [hres] at hok; cases hok
        exact ⟨c', stamp, (hw1.mem_depsFrom_iff n _).mpr ⟨dst, he⟩⟩
      | reserved => cases hd
      | require _ _ _ => cases hd
      | read _ _ _ => cases hd
  rw [own, Store.taskWritingTo_eq]
  constructor
  · intro hsome
    cases hl : st.writersTo dst with
    | nil => rw [hl] at hsome; cases hsome
    | cons w l =>
      have hu := (C06_writer_unique st s1 dst w (by rw [hl]; simp)).1
      by_cases hwn : w = n
      · right; rw [hwn]; simp
      · left; exact ⟨w, hwn, by rw [← hl]; exact hu⟩
  · rintro (⟨w, _, hl⟩ | hm)
    · rw [hl]; rfl
    · cases hl : st.writersTo dst with
      | nil => rw [hl] at hm; cases hm
      | cons a l => rfl

/-! ### non-vacuity -/

open DecEqAux

/-- 0 writes resource 8 (value: what it reads from 9, checker `MapEquals`); 1 requires 0. -/
def c06iTbl : List (Nat × Script) :=
  [(0, .read 9 0 (.write 8 0 (some (.var 0)) (.ret (.var 0)))),
   (1, .req 0 0 (.ret (.var 0)))]

/-- Build, change the input of the writer, build again top-down, change it again, update
bottom-up: task 0 is re-executed twice and re-writes resource 8 each time. -/
def c06iHist : List HStep :=
  [.change 9 (some 1), .session [1], .change 9 (some 2), .session [1],
   .change 9 (some 3), .bottomUp [9] [1]]

def c06iEnd : PieSt := runHistory stdSem (bodyOf c06iTbl) 100 c06iHist

/-- The re-executions were not reported as overlaps (the last value arrived), ... -/
example : c06iEnd.fs = [(9, 3), (8, 3)] ∧
    (requireAll stdSem (bodyOf c06iTbl) 100 c06iEnd.newSession [1]).2 = .ok [3] := by
  decide +kernel

/-- ... resource 8 (node 3) has exactly one recorded writer, task node 1 (= task 0) ... -/
example : c06iEnd.store.writersTo 3 = [1] ∧ c06iEnd.store.taskWritingTo 3 = some 1 := by
  decide +kernel

/-- ... as the theorem says. -/
example : c06iEnd.store.SingleWriter := C06_single_writer_history stdSem _ 100 _

end PieModel
