/-
Property C07 INSIDE BOTTOM-UP BUILDS: "If executing a task leads, through any chain of requires,
to requiring a task that is still executing, the build aborts with a cyclic-dependency error
before any task is executed a second time; it never recurses without bound and never returns a
value for a task on the cycle."

`Props/C07.lean` proves this for the top-down interpreter; here it is proved for the bottom-up
interpreter (`Build/BottomUp.lean`: `buRequire`, `buMake`, `buExec`, `buExecAndSchedule`,
`buRequireNow`, `buRun`, `buExecuteScheduled`, `updateAffectedTasks`, `bottomUpBuild`), for all
programs `body`, all checker semantics `sem`, all fuel.

As in the top-down case the Rust call stack of executing tasks is not part of the model state
(only `s.cur` is); it is made explicit in the statements:

* `BStackOK s stk` (`Build/StackBU2/Cycle.lean`): the tasks `stk` (graph nodes, outermost first)
  are executing in `s` — the innermost one is `s.cur` (`s.cur = none` iff the stack is empty);
  they are pairwise distinct task nodes without output; **every frame reaches every later frame
  in the dependency graph**; tasks with output have no `reserved` dependency; a task marked
  consistent is on the stack or has an output.  `BFrames s stk` (`Build/Stack/BottomUpDefs.lean`)
  is `SessWF s ∧ BStackOK s stk` (`C07_bu_frames_iff`).
  The path between consecutive frames is: for a nested `buRequire` the `reserved` edge; for a task
  `m` executed by `buRequireNow … src` on behalf of the current task `X` the edge `X → src`
  followed by `src →* m` (`queuePopLeastFrom` returns `src` or a node reachable from `src`); tasks
  executed from `buExecuteScheduled` start on the empty stack.
* `C07_bu_stack_invariant`: the joint induction on fuel over the six mutually recursive
  bottom-up functions (`BuStack2`, `Build/StackBU2/Induct.lean`).  A call made with stack `stk`
  - returns with the stack `stk` again, or
  - aborts in a state that satisfies the invariant for the stack `stk'` of the tasks executing at
    the abort point, an extension of `stk`;
  in both cases no `execute_start`/`execute_end` of a task on `stk` was emitted (`QuietB`).
* Trace part (`BTrc`, for sessions whose trace is `TraceClosed`, e.g. empty): the tracker stream
  satisfies `NoReentry` — every `execute_start t` comes at a point at which all earlier
  executions of `t` have ended — and the open executions are exactly the frames of the stack.
  (In a bottom-up build a task *may* be executed twice, one execution after the other; what never
  happens is that a task is entered while it is executing.)

* Bonus (`C07_bu_build_no_bug`, `C07_bu_no_bug_history`): an abort inside a bottom-up build is
  never an internal-invariant abort `bug k` (second joint induction, `GStack`, with waiting frames).

Proofs: `PieModel/Build/StackBU2/*.lean`.
-/
import PieModel.Build.StackBU2.Cycle
import PieModel.Build.StackBU2.NoBug
import PieModel.Props.C19NoBug
import PieModel.Build.Proofs.DecEq

namespace PieModel

variable (sem : Sem) (body : Nat → Prog)

/-! ### the invariant -/

/-- The bottom-up stack invariant, spelled out. -/
theorem C07_bu_frames_iff {s : Sess} {stk : List Nat} :
    BFrames s stk ↔ SessWF s ∧ BStackOK s stk := bframes_iff

/-- Between builds (empty stack) the invariant is `SessOK` — the invariant that holds at the start
of `bottomUpBuild` on a well-formed `Pie` — with `cur = none`. -/
theorem C07_bu_frames_nil_iff {s : Sess} : BFrames s [] ↔ SessOK s ∧ s.cur = none :=
  BFrames.nil_iff

/-- Consecutive frames of the stack are joined by a path in the dependency graph. -/
theorem C07_bu_consecutive_path {s : Sess} {stk pre post : List Nat} {x y : Nat}
    (h : BStackOK s stk) (he : stk = pre ++ x :: y :: post) : s.store.g.Reach x y := h.next he

/-- **The executing-stack invariant is maintained by the bottom-up build, also on abort** (joint
induction on fuel): see the fields of `BuStack2` for the six statements.  `T := True` also
carries the trace invariant `BTrc`, `T := False` drops it. -/
theorem C07_bu_stack_invariant (T : Prop) (f : Nat) : BuStack2 sem body T f :=
  buStack2 sem body T f

/-- Outcome of a call made with stack `stk`: the stack is `stk` again if the call returns; at an
abort point the executing tasks form a stack `stk'` that extends `stk`. -/
def StackKept {α : Type} (stk : List Nat) : Sess × Res α → Prop
  | (s', .ok _) => SessWF s' ∧ BStackOK s' stk
  | (s', .abort _) => ∃ stk', stk <+: stk' ∧ SessWF s' ∧ BStackOK s' stk'

theorem PostS.stackKept {α : Type} {T : Prop} {stk : List Nat} {s : Sess} {P : Sess → α → Prop}
    {x : Sess × Res α} (h : PostS T stk s P x) (hp : ∀ s' v, P s' v → BFrames s' stk) :
    StackKept stk x := by
  obtain ⟨s', r⟩ := x
  cases r with
  | ok v => exact bframes_iff.mp (hp s' v h.1)
  | abort k =>
    obtain ⟨⟨stk', h1, h2, _⟩, _⟩ := h
    exact ⟨stk', h1, bframes_iff.mp h2⟩

/-- `buRequire` made by the innermost executing task `a` (which has no `reserved` dependency
pending). -/
theorem C07_bu_stack_require (f : Nat) (s : Sess) (stk₀ : List Nat) (a t c : Nat)
    (hwf : SessWF s) (hs : BStackOK s (stk₀ ++ [a])) (hnr : Dep.reserved ∉ s.store.depsFrom a) :
    StackKept (stk₀ ++ [a]) (buRequire sem body f s t c) :=
  ((buStack2 sem body False f).require s stk₀ a t c (bframes_iff.mpr ⟨hwf, hs⟩)
    (fun hf => nomatch hf) hnr).stackKept fun _ _ hp => hp.1

/-- `buRun`: the body of the innermost executing task `a`. -/
theorem C07_bu_stack_run (f : Nat) (s : Sess) (stk₀ : List Nat) (a : Nat) (p : Prog)
    (hwf : SessWF s) (hs : BStackOK s (stk₀ ++ [a])) (hnr : Dep.reserved ∉ s.store.depsFrom a) :
    StackKept (stk₀ ++ [a]) (buRun sem body f s p) :=
  ((buStack2 sem body False f).run s stk₀ a p (bframes_iff.mpr ⟨hwf, hs⟩)
    (fun hf => nomatch hf) hnr).stackKept fun _ _ hp => hp.1

/-- `buMake` for a node the innermost frame has an edge to (the `reserved` edge of the pending
require). -/
theorem C07_bu_stack_make (f : Nat) (s : Sess) (stk₀ : List Nat) (a t node : Nat)
    (hwf : SessWF s) (hs : BStackOK s (stk₀ ++ [a])) (ht : s.store.taskOf node = some t)
    (he : ∃ dep, (node, dep) ∈ s.store.g.outgoingEdges a) :
    StackKept (stk₀ ++ [a]) (buMake sem body f s t node) :=
  ((buStack2 sem body False f).make s stk₀ a t node (bframes_iff.mpr ⟨hwf, hs⟩)
    (fun hf => nomatch hf) ht he).stackKept fun _ _ hp => hp.1

/-- `buRequireNow … src` on behalf of the innermost frame, which has an edge to `src`. -/
theorem C07_bu_stack_requireNow (f : Nat) (s : Sess) (stk₀ : List Nat) (a src : Nat)
    (hwf : SessWF s) (hs : BStackOK s (stk₀ ++ [a]))
    (he : ∃ dep, (src, dep) ∈ s.store.g.outgoingEdges a) :
    StackKept (stk₀ ++ [a]) (buRequireNow sem body f s src) :=
  ((buStack2 sem body False f).requireNow s stk₀ a src (bframes_iff.mpr ⟨hwf, hs⟩)
    (fun hf => nomatch hf) he).stackKept fun _ _ hp => hp.1

/-- `buExec` of a node that every frame reaches. -/
theorem C07_bu_stack_exec (f : Nat) (s : Sess) (stk : List Nat) (t node : Nat)
    (hwf : SessWF s) (hs : BStackOK s stk) (ht : s.store.taskOf node = some t)
    (hr : ∀ x ∈ stk, s.store.g.Reach x node) :
    StackKept stk (buExec sem body f s t node) :=
  ((buStack2 sem body False f).exec s stk t node (bframes_iff.mpr ⟨hwf, hs⟩)
    (fun hf => nomatch hf) ht hr).stackKept fun _ _ hp => hp.1

/-- `buExecAndSchedule` of a node that every frame reaches. -/
theorem C07_bu_stack_execAndSchedule (f : Nat) (s : Sess) (stk : List Nat) (node : Nat)
    (hwf : SessWF s) (hs : BStackOK s stk) (hr : ∀ x ∈ stk, s.store.g.Reach x node) :
    StackKept stk (buExecAndSchedule sem body f s node) :=
  ((buStack2 sem body False f).execAndSchedule s stk node (bframes_iff.mpr ⟨hwf, hs⟩)
    (fun hf => nomatch hf) hr).stackKept fun _ _ hp => hp.1

/-- The frames are pairwise distinct task nodes, so the stack is bounded by the number of
registered tasks: the build never recurses without bound on executing tasks. -/
theorem C07_bu_stack_bounded {s : Sess} {stk : List Nat} (hwf : SessWF s) (hs : BStackOK s stk) :
    stk.length ≤ s.store.taskNode.length := hs.length_le hwf

/-! ### requiring a task that is still executing -/

/-- **C07, bottom-up.** Requiring a task whose node is on the stack of executing tasks aborts with
the cyclic-dependency error at once: the only effect is the `require_start` event — no dependency
is added, nothing is executed or scheduled, no value is returned. -/
theorem C07_bu_require_on_stack_aborts (f : Nat) (s : Sess) (stk : List Nat) (t c n : Nat)
    (hwf : SessWF s) (hs : BStackOK s stk) (ht : aget s.store.taskNode t = some n)
    (hn : n ∈ stk) :
    buRequire sem body (f + 1) s t c = (s.emit (.requireStart t c), .abort .cyclic) :=
  buRequire_on_stack sem body f s stk t c n hwf hs ht hn

/-- More generally: requiring a task whose node is the current task or reaches it in the
dependency graph (every frame of the stack does: `BStackOK.closes`) aborts in the same way. -/
theorem C07_bu_require_closing_cycle_aborts (f : Nat) (s : Sess) (a t c n : Nat)
    (hwf : SessWF s) (hcur : s.cur = some a) (ht : aget s.store.taskNode t = some n)
    (hcl : a = n ∨ s.store.g.Reach n a) :
    buRequire sem body (f + 1) s t c = (s.emit (.requireStart t c), .abort .cyclic) :=
  buRequire_closing_cycle sem body f s a t c n hwf hcur ht hcl

/-- The same inside a task body: a `req` of a task on the stack aborts the body. -/
theorem C07_bu_run_req_on_stack_aborts (f : Nat) (s : Sess) (stk : List Nat) (t c n : Nat)
    (k : Int → Prog) (hwf : SessWF s) (hs : BStackOK s stk)
    (ht : aget s.store.taskNode t = some n) (hn : n ∈ stk) :
    buRun sem body (f + 2) s (.req t c k) = (s.emit (.requireStart t c), .abort .cyclic) := by
  rw [buRun, C07_bu_require_on_stack_aborts sem body f s stk t c n hwf hs ht hn]

/-- **C07, bottom-up.** A require never returns a value for a task on the stack. -/
theorem C07_bu_no_value_on_cycle (f : Nat) (s s' : Sess) (stk : List Nat) (t c n : Nat) (v : Int)
    (hwf : SessWF s) (hs : BStackOK s stk) (ht : aget s.store.taskNode t = some n)
    (hr : buRequire sem body (f + 1) s t c = (s', .ok v)) : n ∉ stk := by
  intro hn
  rw [C07_bu_require_on_stack_aborts sem body f s stk t c n hwf hs ht hn] at hr
  cases hr

/-! ### no re-entry

`execute_start t` is never emitted for a task `t` that is executing: within any call of a
bottom-up function made in a state satisfying the invariant, the numbers of `execute_start u`
and of `execute_end u` events of every task `u` on the stack do not change — whether the call
returns or aborts.  In particular every nested execution (by a nested `buRequire` or on demand by
`buRequireNow`) adds a *new* task to the duplicate-free stack. -/

theorem C07_bu_no_reentry_require (f : Nat) (s : Sess) (stk₀ : List Nat) (a t c : Nat)
    (hwf : SessWF s) (hs : BStackOK s (stk₀ ++ [a])) (hnr : Dep.reserved ∉ s.store.depsFrom a)
    {n u : Nat} (hn : n ∈ stk₀ ++ [a]) (hu : s.store.taskOf n = some u) :
    countExec u (buRequire sem body f s t c).1.trace = countExec u s.trace ∧
      countEnd u (buRequire sem body f s t c).1.trace = countEnd u s.trace :=
  have q := ((buStack2 sem body False f).require s stk₀ a t c (bframes_iff.mpr ⟨hwf, hs⟩)
    (fun hf => nomatch hf) hnr).quiet
  ⟨q.start n hn u hu, q.stop n hn u hu⟩

theorem C07_bu_no_reentry_run (f : Nat) (s : Sess) (stk₀ : List Nat) (a : Nat) (p : Prog)
    (hwf : SessWF s) (hs : BStackOK s (stk₀ ++ [a])) (hnr : Dep.reserved ∉ s.store.depsFrom a)
    {n u : Nat} (hn : n ∈ stk₀ ++ [a]) (hu : s.store.taskOf n = some u) :
    countExec u (buRun sem body f s p).1.trace = countExec u s.trace ∧
      countEnd u (buRun sem body f s p).1.trace = countEnd u s.trace :=
  have q := ((buStack2 sem body False f).run s stk₀ a p (bframes_iff.mpr ⟨hwf, hs⟩)
    (fun hf => nomatch hf) hnr).quiet
  ⟨q.start n hn u hu, q.stop n hn u hu⟩

theorem C07_bu_no_reentry_make (f : Nat) (s : Sess) (stk₀ : List Nat) (a t node : Nat)
    (hwf : SessWF s) (hs : BStackOK s (stk₀ ++ [a])) (ht : s.store.taskOf node = some t)
    (he : ∃ dep, (node, dep) ∈ s.store.g.outgoingEdges a)
    {n u : Nat} (hn : n ∈ stk₀ ++ [a]) (hu : s.store.taskOf n = some u) :
    countExec u (buMake sem body f s t node).1.trace = countExec u s.trace ∧
      countEnd u (buMake sem body f s t node).1.trace = countEnd u s.trace :=
  have q := ((buStack2 sem body False f).make s stk₀ a t node (bframes_iff.mpr ⟨hwf, hs⟩)
    (fun hf => nomatch hf) ht he).quiet
  ⟨q.start n hn u hu, q.stop n hn u hu⟩

theorem C07_bu_no_reentry_requireNow (f : Nat) (s : Sess) (stk₀ : List Nat) (a src : Nat)
    (hwf : SessWF s) (hs : BStackOK s (stk₀ ++ [a]))
    (he : ∃ dep, (src, dep) ∈ s.store.g.outgoingEdges a)
    {n u : Nat} (hn : n ∈ stk₀ ++ [a]) (hu : s.store.taskOf n = some u) :
    countExec u (buRequireNow sem body f s src).1.trace = countExec u s.trace ∧
      countEnd u (buRequireNow sem body f s src).1.trace = countEnd u s.trace :=
  have q := ((buStack2 sem body False f).requireNow s stk₀ a src (bframes_iff.mpr ⟨hwf, hs⟩)
    (fun hf => nomatch hf) he).quiet
  ⟨q.start n hn u hu, q.stop n hn u hu⟩

theorem C07_bu_no_reentry_exec (f : Nat) (s : Sess) (stk : List Nat) (t node : Nat)
    (hwf : SessWF s) (hs : BStackOK s stk) (ht : s.store.taskOf node = some t)
    (hr : ∀ x ∈ stk, s.store.g.Reach x node)
    {n u : Nat} (hn : n ∈ stk) (hu : s.store.taskOf n = some u) :
    countExec u (buExec sem body f s t node).1.trace = countExec u s.trace ∧
      countEnd u (buExec sem body f s t node).1.trace = countEnd u s.trace :=
  have q := ((buStack2 sem body False f).exec s stk t node (bframes_iff.mpr ⟨hwf, hs⟩)
    (fun hf => nomatch hf) ht hr).quiet
  ⟨q.start n hn u hu, q.stop n hn u hu⟩

theorem C07_bu_no_reentry_execAndSchedule (f : Nat) (s : Sess) (stk : List Nat) (node : Nat)
    (hwf : SessWF s) (hs : BStackOK s stk) (hr : ∀ x ∈ stk, s.store.g.Reach x node)
    {n u : Nat} (hn : n ∈ stk) (hu : s.store.taskOf n = some u) :
    countExec u (buExecAndSchedule sem body f s node).1.trace = countExec u s.trace ∧
      countEnd u (buExecAndSchedule sem body f s node).1.trace = countEnd u s.trace :=
  have q := ((buStack2 sem body False f).execAndSchedule s stk node (bframes_iff.mpr ⟨hwf, hs⟩)
    (fun hf => nomatch hf) hr).quiet
  ⟨q.start n hn u hu, q.stop n hn u hu⟩

/-- The executed task itself is entered exactly once by `buExec`, whether the execution
completes or the build aborts inside it: `execute_start t` is emitted once at the beginning and
never again while `t` is on the stack. -/
theorem C07_bu_exec_enters_once (f : Nat) (s : Sess) (stk : List Nat) (t node : Nat)
    (hwf : SessWF s) (hs : BStackOK s stk) (ht : s.store.taskOf node = some t)
    (hr : ∀ x ∈ stk, s.store.g.Reach x node) :
    countExec t (buExec sem body (f + 1) s t node).1.trace = countExec t s.trace + 1 :=
  buExec_enters_once sem body f s stk t node (bframes_iff.mpr ⟨hwf, hs⟩) ht hr

/-! ### whole builds

`TraceClosed tr`: `NoReentry tr` and every execution that started in `tr` has ended
(`countExec t tr = countEnd t tr` for all `t`) — the state of the tracker stream between builds,
in particular of the empty stream of a new session. -/

/-- Outcome of a bottom-up build started between builds. -/
def BuildOutcome : Sess × Res Unit → Prop
  | (s', .ok _) => SessOK s' ∧ s'.cur = none ∧ TraceClosed s'.trace
  | (s', .abort _) => ∃ stk, SessWF s' ∧ BStackOK s' stk ∧ BTrc s' stk ∧
      stk.length ≤ s'.store.taskNode.length

theorem PostS.buildOutcome {s : Sess} {x : Sess × Res Unit}
    (h : PostS True [] s (fun s' _ => BFrames s' []) x) : BuildOutcome x := by
  obtain ⟨s', r⟩ := x
  cases r with
  | ok v =>
    obtain ⟨h1, h2, _⟩ := h
    obtain ⟨h3, h4⟩ := BFrames.nil_iff.mp h1
    exact ⟨h3, h4, bTrc_nil_iff.mp (h2 trivial)⟩
  | abort k =>
    obtain ⟨⟨stk, _, h2, h3⟩, _⟩ := h
    exact ⟨stk, h2.wf, h2.stackOK, h3 trivial, h2.stackOK.length_le h2.wf⟩

/-- **C07 for a whole bottom-up build.** From the invariant that holds at the start of
`bottomUpBuild` on a well-formed `Pie` (`SessOK`), with a closed tracker stream (e.g. the empty
stream of a new session):
* if the build returns, the invariant holds again (empty stack) and the stream is closed again;
* if the build aborts — in particular with the cyclic-dependency error — the state at the abort
  point satisfies the stack invariant for the stack `stk` of the tasks executing at that point
  (pairwise distinct, bounded by the number of tasks, joined by paths), the open executions of the
  stream are exactly the frames of `stk`, and no task was entered while it was executing
  (`BTrc.nre : NoReentry s'.trace`). -/
theorem C07_bu_build (f : Nat) (s : Sess) (h : SessOK s) (htr : TraceClosed s.trace)
    (changed : List Nat) : BuildOutcome (bottomUpBuild sem body f s changed) :=
  (bottomUpBuild_stack2 (T := True) sem body f s h (fun _ => htr) changed).buildOutcome

theorem C07_bu_updateAffectedTasks (f : Nat) (s : Sess) (h : SessOK s)
    (htr : TraceClosed s.trace) : BuildOutcome (updateAffectedTasks sem body f s) :=
  (updateAffectedTasks_stack2 (T := True) sem body f s h (fun _ => htr)).buildOutcome

theorem C07_bu_executeScheduled (f : Nat) (s : Sess) (h : SessOK s) (hc : s.cur = none)
    (htr : TraceClosed s.trace) : BuildOutcome (buExecuteScheduled sem body f s) :=
  (buExecuteScheduled_stack2 (T := True) sem body f s (BFrames.nil_iff.mpr ⟨h, hc⟩)
    (fun _ => bTrc_nil_iff.mpr htr)).buildOutcome

/-- In every case — return or abort — no task was entered while it was executing. -/
theorem C07_bu_build_noReentry (f : Nat) (s : Sess) (h : SessOK s) (htr : TraceClosed s.trace)
    (changed : List Nat) : NoReentry (bottomUpBuild sem body f s changed).1.trace := by
  have key := C07_bu_build sem body f s h htr changed
  generalize bottomUpBuild sem body f s changed = x at key
  obtain ⟨s', r⟩ := x
  cases r with
  | ok v => exact key.2.2.1
  | abort k => obtain ⟨_, _, _, h3, _⟩ := key; exact h3.nre

/-- The stack part without any hypothesis on the tracker stream. -/
theorem C07_bu_build_stack (f : Nat) (s : Sess) (h : SessOK s) (changed : List Nat) :
    StackKept [] (bottomUpBuild sem body f s changed) :=
  (bottomUpBuild_stack2 (T := False) sem body f s h (fun hf => nomatch hf) changed).stackKept
    fun _ _ hp => hp

/-! ### the abort is never an internal-invariant panic

"... the build aborts with a cyclic-dependency error": an abort inside a bottom-up build is never
one of the internal-invariant aborts `bug k` of the model (`bug 1–5` of the session primitives,
`bug 20–22` of `make_task_consistent`/`execute_and_schedule` — where the Rust code would panic
with `BUG: …`).  This closes the gap left by `Props/C19NoBug.lean` ("freedom from `bug 20–22`
inside a bottom-up build is not claimed").  The invariant used is `GFrames`
(`Build/StackBU2/GFrames.lean`): the stack of executing tasks interleaved with the *waiting*
tasks on whose behalf `buRequireNow` executes scheduled dependencies. -/

/-- The joint induction: see the fields of `GStack` for the six statements. -/
theorem C07_bu_no_bug_functions (f : Nat) : GStack sem body f := gStack sem body f

/-- A bottom-up build started between builds never aborts with an internal-invariant abort. -/
theorem C07_bu_build_no_bug (f : Nat) (s : Sess) (h : SessOK s) (changed : List Nat) (k : Nat) :
    (bottomUpBuild sem body f s changed).2 ≠ .abort (.bug k) :=
  (bottomUpBuild_noBug sem body f s h changed).no_bug k

theorem C07_bu_updateAffectedTasks_no_bug (f : Nat) (s : Sess) (h : SessOK s) (k : Nat) :
    (updateAffectedTasks sem body f s).2 ≠ .abort (.bug k) :=
  (updateAffectedTasks_noBug sem body f s h).no_bug k

theorem C07_bu_executeScheduled_no_bug (f : Nat) (s : Sess) (h : SessOK s) (hc : s.cur = none)
    (k : Nat) : (buExecuteScheduled sem body f s).2 ≠ .abort (.bug k) :=
  (buExecuteScheduled_noBug sem body f s (GFrames.nil_iff.mpr ⟨h, hc⟩)).no_bug k

/-- After every history — external changes, top-down sessions, bottom-up builds, any of them
possibly aborted at any point — a bottom-up build in a new session is free of internal-invariant
aborts. -/
theorem C07_bu_no_bug_history (fuel : Nat) (steps : List HStep) (fuel' : Nat)
    (changed : List Nat) (k : Nat) :
    (bottomUpBuild sem body fuel' (runHistory sem body fuel steps).newSession changed).2 ≠
      .abort (.bug k) := by
  obtain ⟨hw, hn⟩ := C19_history_noReservedDone_all sem body fuel steps
  exact C07_bu_build_no_bug sem body fuel' _ (sessOK_newSession _ hw hn) changed k

/-! ### non-vacuity

Task 0 (`a`) reads resource 1 and, if it contains `7`, requires task 1; task 1 (`b`) reads
resource 0 and, if it contains `1`, requires task 0.  A first session builds both (resources
absent: no requires).  Then both resources change, a bottom-up build schedules both tasks, pops
`a`, which now requires the scheduled `b`; `b` is executed on demand by `buRequireNow` and
requires `a`, which is still executing: the build aborts with the cyclic-dependency error. -/

open DecEqAux

def c07buBody : Nat → Prog
  | 0 => .read 1 0 (fun x => match x with
      | .ok (some 7) => .req 1 0 (fun o => .ret (o + 1))
      | _ => .ret 3)
  | 1 => .read 0 0 (fun x => match x with
      | .ok (some 1) => .req 0 0 (fun o => .ret o)
      | _ => .ret 5)
  | _ => .ret 0

/-- The `Pie` before the bottom-up build. -/
def c07buP : PieSt :=
  runHistory stdSem c07buBody 50 [.session [1, 0], .change 0 (some 1), .change 1 (some 7)]

/-- The state at the abort point of the bottom-up build. -/
def c07buS : Sess := (bottomUpBuild stdSem c07buBody 50 c07buP.newSession [1, 0]).1

def c07buVerdict : Option Abort :=
  match bottomUpBuild stdSem c07buBody 50 c07buP.newSession [1, 0] with
  | (_, .abort a) => some a
  | (_, .ok ()) => none

/-- The hypotheses of `C07_bu_build` hold at the start of the build ... -/
theorem C07_bu_example_start : SessOK c07buP.newSession ∧ TraceClosed c07buP.newSession.trace :=
  ⟨sessOK_newSession _ (C19_history_noReservedDone_all stdSem c07buBody 50 _).1
    (C19_history_noReservedDone_all stdSem c07buBody 50 _).2, TraceClosed.nil⟩

/-- ... the build aborts with the cyclic-dependency error ... -/
example : c07buVerdict = some .cyclic := by with_unfolding_all decide

/-- ... through `buRequireNow`: `a` (task 0) was entered from the queue, then `b` (task 1) on
demand inside `a`'s `require`; each of them exactly once ... -/
example : c07buS.trace.filter Ev.isExecEv = [.executeStart 0, .executeStart 1] ∧
    countExec 0 c07buS.trace = 1 ∧ countExec 1 c07buS.trace = 1 := by
  with_unfolding_all decide

example : c07buS.trace.drop 10 =
    [.buildStart, .executeStart 0, .readStart 1 0, .readEnd 1 0 (.optInt (some 7)),
      .requireStart 1 0, .executeStart 1, .readStart 0 0, .readEnd 0 0 (.optInt (some 1)),
      .requireStart 0 0] := by with_unfolding_all decide

theorem C07_bu_example_wf : SessWF c07buS :=
  (bottomUpBuild_ext stdSem c07buBody 50 C07_bu_example_start.1.wf [1, 0]).wf

/-- ... and at the abort point both tasks are on the stack (node 2 = task 0 below node 0 =
task 1), joined by the `reserved` edge ... -/
theorem C07_bu_example_stackOK : BStackOK c07buS [2, 0] := by
  refine ⟨by with_unfolding_all decide, ?_, by with_unfolding_all decide, by decide, ?_,
    (bottomUpBuild_noReservedDone stdSem c07buBody 50 C07_bu_example_start.1 [1, 0]).2,
    by with_unfolding_all decide⟩
  · intro n hn
    simp only [List.mem_cons, List.not_mem_nil, or_false] at hn
    rcases hn with rfl | rfl
    · exact ⟨0, by with_unfolding_all decide⟩
    · exact ⟨1, by with_unfolding_all decide⟩
  · refine List.pairwise_pair.mpr (.edge ?_)
    show 0 ∈ c07buS.store.g.childrenOf 2
    with_unfolding_all decide

/-- ... which is what `C07_bu_build` says about the abort state (here with the stack made
concrete by `cur`) ... -/
example : BuildOutcome (bottomUpBuild stdSem c07buBody 50 c07buP.newSession [1, 0]) :=
  C07_bu_build stdSem c07buBody 50 _ C07_bu_example_start.1 C07_bu_example_start.2 [1, 0]

example : NoReentry c07buS.trace :=
  C07_bu_build_noReentry stdSem c07buBody 50 _ C07_bu_example_start.1 C07_bu_example_start.2 [1, 0]

/-- ... so requiring task 0 (or task 1) again in that state aborts at once, for every fuel,
output checker and whatever the task bodies are. -/
example (body : Nat → Prog) (f c : Nat) :
    buRequire stdSem body (f + 1) c07buS 0 c =
      (c07buS.emit (.requireStart 0 c), .abort .cyclic) :=
  C07_bu_require_on_stack_aborts stdSem body f c07buS [2, 0] 0 c 2 C07_bu_example_wf
    C07_bu_example_stackOK (by with_unfolding_all decide) (by decide)

example (body : Nat → Prog) (f c : Nat) :
    buRequire stdSem body (f + 1) c07buS 1 c =
      (c07buS.emit (.requireStart 1 c), .abort .cyclic) :=
  C07_bu_require_on_stack_aborts stdSem body f c07buS [2, 0] 1 c 0 C07_bu_example_wf
    C07_bu_example_stackOK (by with_unfolding_all decide) (by decide)

/-- The link hypothesis of `buExec` (the callee is reachable from every frame) cannot be dropped:
calling `buExec` out of the blue for task 0, which is on the stack, executes it a second time. -/
example : countExec 0 c07buS.trace = 1 ∧
    countExec 0 (buExec stdSem c07buBody 50 c07buS 0 2).1.trace = 2 := by
  with_unfolding_all decide

/-- The stack invariant holds at the start of every build on a fresh `Pie`. -/
example : BFrames ({} : PieSt).newSession [] :=
  BFrames.nil_iff.mpr ⟨sessOK_newSession {} Store.WF.empty Store.NoReservedDone.empty, rfl⟩

/-- The Boolean test `noReentryFrom` decides `NoReentry` on concrete streams: a stream in which
task 0 is entered while it is executing is rejected. -/
example : NoReentry [.executeStart 0, .executeStart 1, .executeEnd 1 5, .executeEnd 0 6,
    .executeStart 0] := noReentry_of_check (by decide)

example : ¬ NoReentry [.executeStart 0, .executeStart 1, .executeStart 0] := by
  intro h
  have := h [.executeStart 0, .executeStart 1] 0 (List.prefix_refl _)
  revert this; decide

end PieModel
