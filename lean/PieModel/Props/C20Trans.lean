/-
Properties C20 / C05 for static roles with TRANSITIVE requires of the generator ("relays").

pie only demands that the reader of a generated resource TRANSITIVELY requires the generator.
`CRoles` extends `Roles` by `cov : Nat → List Nat` — the tasks a task is guaranteed to have
required (transitively) whenever it completed — and `WellFormedCov cr body` generalises
`WellFormedBody ro body`: requires go upward in rank; only `gen r` writes `r`, once per path, and
never reads it; a reader of a generated resource has, earlier on the path, required a task that
COVERS the generator (the generator itself or an `m` with the generator in `cov m`); every path of
`body t` that ends in `ret` has covered every `u ∈ cov t`; covers go upward in rank.  With
`cov = fun _ => []` this is exactly `WellFormedBody` (`C20_trans_direct_special_case`).

RESULT.  The statements asked for — "no diagnosed violation ever, for all histories"
(`C20_static_no_abort` with `WellFormedCov` in place of `WellFormedBody`:
`C20_trans_no_abort_STATEMENT`) and "`Store.NoHidden` after every history"
(`C05_trans_noHidden_history_STATEMENT`) — are **FALSE** in the model
(`C20_trans_no_abort_FALSE`, `C05_trans_noHidden_history_FALSE`; kernel-checked counterexample
`ctxBody` / `ctxHist` below, spelled out for a replay on the real crates): a relay whose
re-execution ABORTS (a task panic) before it re-required the generator keeps neither output nor
edges, the reader keeps its read edge and its edge to the relay, and a later direct execution of
the generator aborts with a spurious `Hidden dependency`.

What is true and proved here, for every checker semantics, every fuel, all histories (mixed
top-down / bottom-up, aborts allowed):
* `C20_trans_history_inv`: the store invariant `CovInv cr` holds after EVERY history, aborted
  builds included.  Its two new clauses only talk about the edges of the node itself: (c) the
  reader of a generated resource has an edge to a task covering the generator; (d) a task node
  WITH OUTPUT has, for each `u` in its `cov`, an edge to a task covering `u`.
* `C20_trans_runStep` / `C20_trans_no_abort_next`: whenever every task node of the store is
  SATURATED (`AllSat`: its edges cover its `cov`; implied by `AllDone`, "every task node has an
  output"; true for the empty store and kept by every step that does not abort), the next
  session / build does not end with `cyclic` / `hidden` / `overlap`.
* `C20_trans_no_abort_partial` (headline): along every history the FIRST abort is never a
  diagnosed violation — a step following an abort-free history never ends with one.
* `C20_trans_prefix_no_abort` (headline, relay-prefix programs): if moreover every body whose
  `cov` is not empty STARTS with the require that covers it (`PrefixCov` — the relays of the
  correspondence harness: "the body of `m` starts with `req w`", shared and chained relays), task
  panics are harmless: along every history, the first abort that is not a task panic is never a
  diagnosed violation.  (`outOfFuel` between `reset_task` and the first require is not harmless
  in the model: `C20_trans_prefix_fuel_needed`; the counterexample `ctxBody` shows that the
  relay-prefix shape is needed.)
* `C05_trans_noHidden_history_partial` / `C05_trans_prefix_noHidden_history`: `Store.NoHidden`
  after every abort-free history / for relay-prefix programs after every history whose aborts are
  task panics; `C05_trans_noHidden_of_allSat`: whenever `CovInv` and `AllSat` hold.
* Non-vacuity: `relayBody` (reader → relay → generator, a shared relay, a chained relay) with a
  mixed history evaluated in the kernel.

Proofs: `PieModel/Build/TransRoles/{Defs,Open,Session,TopDown,BottomUp}.lean`.
-/
import PieModel.Build.TransRoles.History
import PieModel.Props.C05Static

namespace PieModel

open TransRoles

variable (cr : CRoles) (sem : Sem) (body : Nat → Prog)

/-! ### the generalisation contains the direct-require roles -/

/-- Direct-require programs are the special case `cov = fun _ => []`, and then the store
invariant is `RolesInv`. -/
theorem C20_trans_direct_special_case (ro : Roles) :
    (WellFormedCov (CRoles.direct ro) body ↔ WellFormedBody ro body) ∧
    (∀ st, CovInv (CRoles.direct ro) st ↔ RolesInv ro st) ∧
    PrefixCov (CRoles.direct ro) body :=
  ⟨wellFormedCov_direct_iff ro body, tinv_direct_iff ro, fun _ _ hw => nomatch hw⟩

/-! ### the invariant -/

/-- The empty store satisfies the invariant and has no task node at all. -/
theorem C20_trans_empty : CovInv cr {} ∧ AllSat cr {} ∧ AllDone {} :=
  ⟨CovInv.empty cr, fun e t ht => by simp [Store.taskOf, Dag.getNodeData, Dag.info] at ht,
    fun e t ht => by simp [Store.taskOf, Dag.getNodeData, Dag.info] at ht⟩

/-- If every task node has an output, every task node is saturated. -/
theorem C20_trans_allSat_of_allDone (st : Store) (h : CovInv cr st) (hd : AllDone st) :
    AllSat cr st := hd.allSat h

/-- Every path between task nodes strictly increases the rank. -/
theorem C20_trans_reach_rank (st : Store) (h : CovInv cr st) (a b ta tb : Nat) (hr : st.g.Reach a b)
    (ha : st.taskOf a = some ta) (hb : st.taskOf b = some tb) : cr.rank ta < cr.rank tb :=
  h.reach_rank hr ha hb

/-- The store operations preserve the invariant (`setTaskOutput`: the edges of the task cover its
`cov`; `addDependency` of a read: the requires so far cover the generator — see
`CovInv.addDependency`). -/
theorem C20_trans_store_ops (st : Store) (h : CovInv cr st) :
    (∀ t, CovInv cr (st.getOrCreateTaskNode t).1) ∧
    (∀ r, CovInv cr (st.getOrCreateResNode r).1) ∧
    (∀ n, CovInv cr (st.resetTask n)) ∧
    (∀ n t o, st.taskOf n = some t → (∀ u ∈ cr.cov t, CovEdge cr st n u) →
      CovInv cr (st.setTaskOutput n o)) ∧
    (∀ src dst t u, st.taskOf src = some t → st.taskOf dst = some u → cr.rank t < cr.rank u →
      CovInv cr (st.addDependency src dst .reserved).1) ∧
    (∀ src dst t c stamp st', st.setDependency src dst (.require t c stamp) = some st' →
      st.taskOf dst = some t → CovInv cr st') :=
  ⟨h.getOrCreateTaskNode, h.getOrCreateResNode, h.resetTask,
    fun _ _ o hn hc => h.setTaskOutput o hn hc,
    fun _ _ _ u hs hd hlt => h.addDependency hs (d := .reserved) ⟨u, hd⟩
      (fun u' hu' => by rw [hd] at hu'; cases hu'; exact hlt)
      (fun _ _ _ hh => nomatch hh) (fun _ _ _ _ hh => nomatch hh),
    fun _ _ _ _ _ _ hs hd => h.setDependency hs hd⟩

/-- **From covering edges to paths.**  In a store that satisfies the invariant and where every
task node is saturated, every reader of a generated resource reaches the node of the
generator. -/
theorem C20_trans_reader_reaches_generator (hr : CovRank cr) (st : Store) (h : CovInv cr st)
    (hd : AllSat cr st) (n m r c : Nat) (s : Stamp) (w : Nat)
    (he : st.g.getEdgeData n m = some (.read r c s)) (hg : cr.gen r = some w) :
    ∃ nw, st.taskOf nw = some w ∧ st.g.Reach n nw :=
  h.covEdge_reach_allSat hr hd (h.read n m r c s w he hg)

/-! ### C05 for a store with the invariant and no unsaturated node -/

/-- A store whose edges respect the roles-with-covers and where every task node is saturated has
no hidden dependency: every recorded reader of a node reaches every recorded writer of it. -/
theorem C05_trans_noHidden_of_allSat (hr : CovRank cr) (st : Store) (h : CovInv cr st)
    (hd : AllSat cr st) : st.NoHidden := by
  intro dst w y hw hy
  obtain ⟨dw, hdw, hew⟩ := (h.wf.mem_writersTo_iff w dst).mp hw
  obtain ⟨dy, hdy, hey⟩ := (h.wf.mem_tasksReadingFrom_iff y dst).mp hy
  cases dw with
  | reserved => cases hdw
  | require _ _ _ => cases hdw
  | read _ _ _ => cases hdw
  | write r c s =>
    cases dy with
    | reserved => cases hdy
    | require _ _ _ => cases hdy
    | write _ _ _ => cases hdy
    | read r' c' s' =>
      have h1 : st.resOf dst = some r := h.wf.edge_dst _ _ _ hew
      have h2 : st.resOf dst = some r' := h.wf.edge_dst _ _ _ hey
      have hrr : r' = r := by rw [h1] at h2; exact (Option.some.inj h2).symm
      subst hrr
      obtain ⟨tw, htw⟩ := h.wf.edge_src _ _ _ hew
      have hgen : cr.gen r' = some tw := h.write _ _ _ _ _ _ hew htw
      obtain ⟨nw, hnw, hreach⟩ :=
        C20_trans_reader_reaches_generator cr hr st h hd y dst r' c' s' tw hey hgen
      have : nw = w := h.wf.node_inj hnw htw
      subst this
      exact hreach

variable {cr} {body}
variable (hwf : WellFormedCov cr body)
include hwf

/-! ### sessions and builds -/

/-- `Session::require` for a list of roots: well-formedness and the invariant are kept whatever
the result and whatever happened before; started with every task node saturated, no diagnosed
violation, and if it returns every task node is saturated again. -/
theorem C20_trans_no_abort_topdown (fuel : Nat) (s : Sess) (h : SessWF s) (hi : CovInv cr s.store)
    (roots : List Nat) :
    SessWF (requireAll sem body fuel s roots).1 ∧
    CovInv cr (requireAll sem body fuel s roots).1.store ∧
    (AllSat cr s.store → NoViol (requireAll sem body fuel s roots).2 ∧
      (∀ os, (requireAll sem body fuel s roots).2 = .ok os →
        AllSat cr (requireAll sem body fuel s roots).1.store)) := by
  have H0 := requireAll_trans (G := False) (B := False) (sem := sem) hwf (fun hh => hh.elim) fuel
    roots h hi (fun hh => hh.elim)
  refine ⟨H0.rext.wf, H0.rext.inv, fun hd => ?_⟩
  have H := requireAll_trans (G := True) (B := False) (sem := sem) hwf (fun hh => hh.elim) fuel
    roots h hi (fun _ => hd)
  exact ⟨H.noViol trivial, fun os ho => hd.after (H.fine trivial (by rw [ho]; trivial)).1⟩

/-- `create_bottom_up_build` … `update_affected_tasks`. -/
theorem C20_trans_no_abort_bottomup (fuel : Nat) (s : Sess) (h : SessWF s) (hi : CovInv cr s.store)
    (changed : List Nat) :
    SessWF (bottomUpBuild sem body fuel s changed).1 ∧
    CovInv cr (bottomUpBuild sem body fuel s changed).1.store ∧
    (AllSat cr s.store → NoViol (bottomUpBuild sem body fuel s changed).2 ∧
      ((bottomUpBuild sem body fuel s changed).2 = .ok () →
        AllSat cr (bottomUpBuild sem body fuel s changed).1.store)) := by
  have H0 := bottomUpBuild_trans (G := False) (B := False) (sem := sem) hwf (fun hh => hh.elim)
    fuel h hi (fun hh => hh.elim) changed
  refine ⟨H0.rext.wf, H0.rext.inv, fun hd => ?_⟩
  have H := bottomUpBuild_trans (G := True) (B := False) (sem := sem) hwf (fun hh => hh.elim) fuel
    h hi (fun _ => hd) changed
  exact ⟨H.noViol trivial, fun ho => hd.after (H.fine trivial (by rw [ho]; trivial)).1⟩

/-- **One step.**  The invariant is kept whatever happens; if every task node is saturated before
the step, the step does not end with a diagnosed violation, and if it does not abort every task
node is saturated after it. -/
theorem C20_trans_runStep (fuel : Nat) (p : PieSt) (hi : CovInv cr p.store) (st : HStep) :
    CovInv cr (runStep sem body fuel p st).store ∧
    (AllSat cr p.store →
      (∀ a ∈ stepAborts sem body fuel p st, a.isViol = false) ∧
      (stepAborts sem body fuel p st = [] → AllSat cr (runStep sem body fuel p st).store)) := by
  refine ⟨(runStep_trans_gen sem hwf False False (fun hh => hh.elim) fuel p hi
    (fun hh => hh.elim) st).1, fun hd => ?_⟩
  have H := runStep_trans_gen sem hwf True False (fun hh => hh.elim) fuel p hi (fun _ => hd) st
  exact ⟨H.2.1 trivial, fun hnil => H.2.2 trivial (by rw [hnil]; exact fun _ ha => nomatch ha)⟩

/-! ### the invariant along every history (aborts allowed) -/

/-- **After every history** — external changes, top-down sessions, bottom-up builds followed by
requires, any of them possibly aborted — the store satisfies the invariant. -/
theorem C20_trans_history_inv (fuel : Nat) (steps : List HStep) :
    CovInv cr (runHistory sem body fuel steps).store := by
  unfold runHistory
  have key : ∀ (l : List HStep) (p : PieSt), CovInv cr p.store →
      CovInv cr (l.foldl (runStep sem body fuel) p).store := by
    intro l
    induction l with
    | nil => intro p h; exact h
    | cons st l ih => intro p h; exact ih _ (C20_trans_runStep sem hwf fuel p h st).1
  exact key steps {} (CovInv.empty cr)

/-- After every abort-free history every task node is saturated. -/
theorem C20_trans_history_allSat (fuel : Nat) (steps : List HStep)
    (hna : historyAborts sem body fuel {} steps = []) :
    AllSat cr (runHistory sem body fuel steps).store :=
  (history_trans_gen sem hwf False (fun hh => hh.elim) fuel steps {} (CovInv.empty cr)
    (C20_trans_empty cr).2.1).1 (by rw [hna]; exact fun _ ha => nomatch ha)

/-- **C20 (transitive roles).**  For a program table that respects static roles with covers,
along every history — external changes, top-down sessions with several roots, bottom-up builds
followed by requires — for every checker semantics and every fuel: the FIRST abort of the history
is not a cyclic-dependency, hidden-dependency or overlapping-write abort. -/
theorem C20_trans_no_abort_partial (fuel : Nat) (steps : List HStep) (a : Abort) (rest : List Abort)
    (h : historyAborts sem body fuel {} steps = a :: rest) :
    a ≠ .cyclic ∧ a ≠ .hidden ∧ a ≠ .overlap := by
  have := (history_trans_gen sem hwf False (fun hh => hh.elim) fuel steps {} (CovInv.empty cr)
    (C20_trans_empty cr).2.1).2 [] a rest h (fun _ hb => nomatch hb)
  refine ⟨?_, ?_, ?_⟩ <;> rintro rfl <;> cases this

/-- The same in terms of `runHistory`: after an abort-free history — more generally, after any
history that leaves every task node saturated — the next top-down session and the next bottom-up
build do not end with a diagnosed violation. -/
theorem C20_trans_no_abort_next (fuel : Nat) (steps : List HStep)
    (hd : AllSat cr (runHistory sem body fuel steps).store) (changed roots : List Nat) :
    NoViol (requireAll sem body fuel (runHistory sem body fuel steps).newSession roots).2 ∧
    NoViol (bottomUpBuild sem body fuel (runHistory sem body fuel steps).newSession changed).2 := by
  have hi := C20_trans_history_inv sem hwf fuel steps
  have h0 := C19_newSession_wf _ hi.wf
  exact ⟨(requireAll_trans (G := True) (B := False) (sem := sem) hwf (fun hh => hh.elim) fuel roots
      h0 hi (fun _ => hd)).noViol trivial,
    (bottomUpBuild_trans (G := True) (B := False) (sem := sem) hwf (fun hh => hh.elim) fuel h0 hi
      (fun _ => hd) changed).noViol trivial⟩

/-- **C05 (global clause, transitive roles).**  After every abort-free history the store has no
hidden dependency: every task with a recorded read of a resource reaches every task with a
recorded write of it. -/
theorem C05_trans_noHidden_history_partial (fuel : Nat) (steps : List HStep)
    (hna : historyAborts sem body fuel {} steps = []) :
    (runHistory sem body fuel steps).store.NoHidden :=
  C05_trans_noHidden_of_allSat cr hwf.rank _ (C20_trans_history_inv sem hwf fuel steps)
    (C20_trans_history_allSat sem hwf fuel steps hna)

/-- The from-scratch build agrees: in every resource state, the clean build of a program that
respects static roles with covers does not end with a diagnosed violation either. -/
theorem C20_trans_clean_agrees (fuel : Nat) (fs : List (Nat × Int)) (roots : List Nat) :
    NoViol (cleanBuild sem body fuel fs roots).2 ∧
      CovInv cr (cleanBuild sem body fuel fs roots).1.store := by
  have h0 : SessWF ({ fs := fs } : Sess) :=
    ⟨Store.WF.empty, fun _ hn => (nomatch hn), fun _ hn => (nomatch hn)⟩
  have := requireAll_trans (G := True) (B := False) (sem := sem) hwf (fun hh => hh.elim) fuel roots
    h0 (CovInv.empty cr) (fun _ => (C20_trans_empty cr).2.1)
  exact ⟨this.noViol trivial, this.rext.inv⟩

/-! ### relay-prefix programs: task panics are harmless -/

variable (hpre : PrefixCov cr body)
include hpre

/-- **C20 (relays as generated by the harness).**  If every body whose `cov` is not empty starts
with the require that covers it, then along every history the first abort that is not a task
panic is not a diagnosed violation: task panics of earlier sessions / builds never cause a
spurious cyclic / hidden / overlap abort later. -/
theorem C20_trans_prefix_no_abort (fuel : Nat) (steps : List HStep) (pre : List Abort) (a : Abort)
    (post : List Abort) (h : historyAborts sem body fuel {} steps = pre ++ a :: post)
    (hp : ∀ b ∈ pre, b = .taskPanic) : a ≠ .cyclic ∧ a ≠ .hidden ∧ a ≠ .overlap := by
  have := (history_trans_gen sem hwf True (fun _ => hpre) fuel steps {} (CovInv.empty cr)
    (C20_trans_empty cr).2.1).2 pre a post h (fun b hb => ⟨trivial, hp b hb⟩)
  refine ⟨?_, ?_, ?_⟩ <;> rintro rfl <;> cases this

/-- ... and after every history whose aborts are task panics every task node is saturated, hence
there is no hidden dependency. -/
theorem C05_trans_prefix_noHidden_history (fuel : Nat) (steps : List HStep)
    (hp : ∀ b ∈ historyAborts sem body fuel {} steps, b = .taskPanic) :
    AllSat cr (runHistory sem body fuel steps).store ∧
      (runHistory sem body fuel steps).store.NoHidden := by
  have hs : AllSat cr (runHistory sem body fuel steps).store :=
    (history_trans_gen sem hwf True (fun _ => hpre) fuel steps {} (CovInv.empty cr)
      (C20_trans_empty cr).2.1).1 (fun b hb => ⟨trivial, hp b hb⟩)
  exact ⟨hs, C05_trans_noHidden_of_allSat cr hwf.rank _ (C20_trans_history_inv sem hwf fuel steps) hs⟩

end PieModel

namespace PieModel

open TransRoles

/-! ### the full statement is FALSE: a kernel-checked counterexample

Replay on the real crates (tasks named by numbers, resources 0, 1 = sources, 10 = generated;
all checkers `0`: output checker `Equals`, resource checker `MapEquals`; `rank t = t`, `gen 10 = 3`, `cov 2 = [3]`):

* task 3 (generator): read source 1 (value `v`), write `2 * v` to resource 10, return 1;
* task 2 (relay): read source 0; if it contains 1 then PANIC, else require task 3 and return its
  output  — every path to a `return` has required 3, so `cov 2 = [3]` is respected;
* task 1 (reader): require task 2, then read resource 10, return its value — 1 requires the
  generator 3 only transitively (through 2).

History (one `Pie` instance, a panic is caught and the instance is used again):
1. source 1 := 5, source 0 := 0; session: require 1            → ok (1 → 2 → 3, 3 writes 10, 1 reads 10)
2. source 0 := 1;               session: require 2            → task 2 is re-executed (its
   dependencies were reset), reads 0, PANICS before requiring 3: aborts with the task panic
3. source 1 := 6;               session: require 3            → 3 is re-executed, writes 10:
   `validate_write` finds the recorded reader 1, which no longer reaches 3 (2 has no edges):
   aborts with `Hidden dependency` although the program contains none. -/

def ctxRoles : CRoles :=
  { rank := fun t => t, gen := fun r => if r = 10 then some 3 else none,
    cov := fun t => if t = 2 then [3] else [] }

def ctxBody : Nat → Prog
  | 1 => .req 2 0 (fun _ => .read 10 0 (fun x =>
      match x with
      | .ok (some v) => .ret v
      | _ => .ret 0))
  | 2 => .read 0 0 (fun x =>
      match x with
      | .ok (some 1) => .panic
      | _ => .req 3 0 (fun o => .ret o))
  | 3 => .read 1 0 (fun x =>
      .write 10 0 (match x with | .ok (some v) => some (v * 2) | _ => some 0) (fun _ => .ret 1))
  | _ => .ret 0

theorem ctxBody_wf : WellFormedCov ctxRoles ctxBody := by
  refine ⟨?_, ?_⟩
  · intro t
    unfold StaticCov
    match t with
    | 0 => simp [ctxBody, StaticCovFrom, ctxRoles]
    | 1 =>
      simp only [ctxBody, StaticCovFrom, ctxRoles]
      refine ⟨by decide, fun o => ⟨by decide, ?_, fun x => ?_⟩⟩
      · intro w hw
        simp at hw; subst hw
        exact ⟨2, by simp, .inr (by simp)⟩
      · split <;> simp [StaticCovFrom]
    | 2 =>
      simp only [ctxBody, StaticCovFrom, ctxRoles]
      refine ⟨by decide, by simp, fun x => ?_⟩
      split
      · trivial
      · refine ⟨by decide, fun _ => ?_⟩
        intro u hu
        simp at hu; subst hu
        exact ⟨3, by simp, .inl rfl⟩
    | 3 =>
      simp only [ctxBody, StaticCovFrom, ctxRoles]
      exact ⟨by decide, by simp, fun x => ⟨by decide, by simp, fun _ => by simp⟩⟩
    | n + 4 => simp [ctxBody, StaticCovFrom, ctxRoles]
  · intro t u hu
    simp only [ctxRoles] at hu ⊢
    split at hu
    · simp at hu; subst hu; omega
    · cases hu

/-- The relay 2 does not have the relay-prefix shape: it reads (and may panic) before its
require. -/
theorem ctxBody_not_prefix : ¬ PrefixCov ctxRoles ctxBody := by
  intro h
  obtain ⟨u, c, k, hp, _⟩ := h 2 3 (by simp [ctxRoles])
  simp [ctxBody] at hp

def ctxHist₂ : List HStep :=
  [.change 1 (some 5), .change 0 (some 0), .session [1], .change 0 (some 1), .session [2]]

def ctxHist : List HStep := ctxHist₂ ++ [.change 1 (some 6), .session [3]]

/-- The history above: the second session ends with the task panic, the third with a spurious
`hidden` abort. -/
theorem ctx_aborts : historyAborts stdSem ctxBody 20 {} ctxHist = [.taskPanic, .hidden] := by
  with_unfolding_all decide

/-- After the aborted second session the reader (node 0) of resource 10 (node 5) does not reach
its writer (node 3). -/
theorem ctx_not_noHidden : ¬ (runHistory stdSem ctxBody 20 ctxHist₂).store.NoHidden := by
  intro h
  have hw := C19_store_wf_history stdSem ctxBody 20 ctxHist₂
  have hr := h 5 3 0 (by with_unfolding_all decide) (by with_unfolding_all decide)
  have := (hw.containsTransitive_iff 0 3).mpr hr
  revert this
  with_unfolding_all decide

/-- ... although the invariant holds (as it does after every history): task 2 has no output, so
clause (d) does not speak about it; task 2's node is not saturated. -/
example : CovInv ctxRoles (runHistory stdSem ctxBody 20 ctxHist₂).store :=
  C20_trans_history_inv stdSem ctxBody_wf 20 ctxHist₂

/-- The statement asked for: no diagnosed violation in any history. -/
def C20_trans_no_abort_STATEMENT (body : Nat → Prog) : Prop :=
  ∀ (sem : Sem) (fuel : Nat) (steps : List HStep),
    ∀ a ∈ historyAborts sem body fuel {} steps, a ≠ .cyclic ∧ a ≠ .hidden ∧ a ≠ .overlap

/-- The statement asked for: no hidden dependency in the store after any history. -/
def C05_trans_noHidden_history_STATEMENT (body : Nat → Prog) : Prop :=
  ∀ (sem : Sem) (fuel : Nat) (steps : List HStep), (runHistory sem body fuel steps).store.NoHidden

/-- **The full C20 statement is false for static roles with transitive requires.** -/
theorem C20_trans_no_abort_FALSE :
    ∃ cr body, WellFormedCov cr body ∧ ¬ C20_trans_no_abort_STATEMENT body := by
  refine ⟨ctxRoles, ctxBody, ctxBody_wf, fun h => ?_⟩
  have := h stdSem 20 ctxHist .hidden (by rw [ctx_aborts]; simp)
  exact this.2.1 rfl

/-- **The full C05 statement is false for static roles with transitive requires.** -/
theorem C05_trans_noHidden_history_FALSE :
    ∃ cr body, WellFormedCov cr body ∧ ¬ C05_trans_noHidden_history_STATEMENT body :=
  ⟨ctxRoles, ctxBody, ctxBody_wf, fun h => ctx_not_noHidden (h stdSem 20 ctxHist₂)⟩

/-- ... consistently with the theorems: the first abort of the counterexample history is the task
panic, not a diagnosed violation. -/
example : Abort.taskPanic ≠ .cyclic ∧ Abort.taskPanic ≠ .hidden ∧ Abort.taskPanic ≠ .overlap :=
  C20_trans_no_abort_partial stdSem ctxBody_wf 20 ctxHist .taskPanic [.hidden] ctx_aborts

/-! ### relay-prefix programs: running out of fuel is not harmless (model only)

Task 20 is a relay with the relay-prefix shape (`req 30` first); 11 → 12 → 13 → 20 is a deep
chain.  With fuel 12: session 1 builds 1 → 20 → 30; then 20 panics AFTER its require (harmless);
then the deep session re-executes 20 with exactly so little fuel that the interpreter stops
between `resetTask` and the reserve of `20 → 30`; then the direct execution of the generator 30
aborts with `hidden`.  (No counterpart on the real crates: there is no fuel.) -/

def fuelRoles : CRoles :=
  { rank := fun t => t, gen := fun r => if r = 10 then some 30 else none,
    cov := fun t => if t = 20 then [30] else [] }

def fuelBody : Nat → Prog
  | 1 => .req 20 0 (fun _ => .read 10 0 (fun x =>
      match x with
      | .ok (some v) => .ret v
      | _ => .ret 0))
  | 11 => .req 12 0 (fun o => .ret o)
  | 12 => .req 13 0 (fun o => .ret o)
  | 13 => .req 20 0 (fun o => .ret o)
  | 20 => .req 30 0 (fun o => .read 0 0 (fun x =>
      match x with
      | .ok (some 1) => .panic
      | _ => .ret o))
  | 30 => .read 1 0 (fun x =>
      .write 10 0 (match x with | .ok (some v) => some (v * 2) | _ => some 0) (fun _ => .ret 1))
  | _ => .ret 0

theorem fuelBody_prefix : PrefixCov fuelRoles fuelBody := by
  intro t w hw
  simp only [fuelRoles] at hw
  split at hw
  next h20 =>
    subst h20
    simp at hw; subst hw
    exact ⟨30, 0, _, rfl, .inl rfl⟩
  · cases hw

def fuelHist₁ : List HStep :=
  [.change 1 (some 5), .change 0 (some 0), .session [1], .change 0 (some 1), .session [20]]

/-- panic, then out of fuel in the window, then the spurious `hidden`. -/
theorem C20_trans_prefix_fuel_needed :
    historyAborts stdSem fuelBody 12 {}
      (fuelHist₁ ++ [.session [11], .change 1 (some 6), .session [30]]) =
      [.taskPanic, .outOfFuel, .hidden] := by
  with_unfolding_all decide

/-- Without the out-of-fuel session the same program goes on without a diagnosed violation
(contrast with `ctx_aborts`): the generator is executed directly after the relay panicked, then
bottom-up builds re-execute the relay (which panics once more, then succeeds). -/
theorem fuel_panics_harmless :
    historyAborts stdSem fuelBody 12 {}
      (fuelHist₁ ++ [.change 1 (some 6), .session [30], .bottomUp [0] [1], .change 0 (some 0),
        .bottomUp [0] [1]]) = [.taskPanic, .taskPanic] := by
  with_unfolding_all decide

theorem fuelBody_wf : WellFormedCov fuelRoles fuelBody := by
  refine ⟨?_, ?_⟩
  · intro t
    unfold StaticCov
    by_cases h1 : t = 1
    · subst h1
      simp only [fuelBody, StaticCovFrom, fuelRoles]
      refine ⟨by decide, fun o => ⟨by decide, ?_, fun x => ?_⟩⟩
      · intro w hw
        simp at hw; subst hw
        exact ⟨20, by simp, .inr (by simp)⟩
      · split <;> simp [StaticCovFrom]
    by_cases h11 : t = 11
    · subst h11; simp [fuelBody, StaticCovFrom, fuelRoles]
    by_cases h12 : t = 12
    · subst h12; simp [fuelBody, StaticCovFrom, fuelRoles]
    by_cases h13 : t = 13
    · subst h13; simp [fuelBody, StaticCovFrom, fuelRoles]
    by_cases h20 : t = 20
    · subst h20
      simp only [fuelBody, StaticCovFrom, fuelRoles]
      refine ⟨by decide, fun o => ⟨by decide, by simp, fun x => ?_⟩⟩
      split
      · trivial
      · intro u hu
        simp at hu; subst hu
        exact ⟨30, by simp, .inl rfl⟩
    by_cases h30 : t = 30
    · subst h30
      simp only [fuelBody, StaticCovFrom, fuelRoles]
      exact ⟨by decide, by simp, fun x => ⟨by decide, by simp, fun _ => by simp⟩⟩
    · have : fuelBody t = .ret 0 := by
        unfold fuelBody
        split <;> first | rfl | omega
      rw [this]
      intro u hu
      simp [fuelRoles, h20] at hu
  · intro t u hu
    simp only [fuelRoles] at hu ⊢
    split at hu
    · simp at hu; subst hu; omega
    · cases hu

/-- ... as `C20_trans_prefix_no_abort` says: after two task panics, no diagnosed violation. -/
example (pre : List Abort) (a : Abort) (post : List Abort)
    (h : historyAborts stdSem fuelBody 12 {}
      (fuelHist₁ ++ [.change 1 (some 6), .session [30], .bottomUp [0] [1], .change 0 (some 0),
        .bottomUp [0] [1]]) = pre ++ a :: post) (hp : ∀ b ∈ pre, b = .taskPanic) :
    a ≠ .cyclic ∧ a ≠ .hidden ∧ a ≠ .overlap :=
  C20_trans_prefix_no_abort stdSem fuelBody_wf fuelBody_prefix 12 _ pre a post h hp

/-! ### non-vacuity: readers behind relays, a shared relay, a chained relay

Task 5 generates resource 10 from source 1.  Task 4 is a relay (requires 5 first, then reads
source 2).  Task 3 is a chained relay (requires 4).  Readers of 10: task 1 through 3 (→ 4 → 5),
task 2 through 4 (shared with 3), task 0 directly through 5. -/

def relayRoles : CRoles :=
  { rank := fun t => t, gen := fun r => if r = 10 then some 5 else none,
    cov := fun t => if t = 3 ∨ t = 4 then [5] else [] }

def relayBody : Nat → Prog
  | 0 => .req 5 0 (fun _ => .read 10 0 (fun x =>
      match x with
      | .ok (some v) => .ret v
      | _ => .ret 0))
  | 1 => .req 3 0 (fun o => .read 10 0 (fun x =>
      match x with
      | .ok (some v) => .ret (v + o)
      | _ => .ret 0))
  | 2 => .req 4 0 (fun _ => .read 10 0 (fun x =>
      match x with
      | .ok (some v) => .ret (v + 1)
      | _ => .ret 0))
  | 3 => .req 4 0 (fun o => .ret (o + 100))
  | 4 => .req 5 0 (fun o => .read 2 0 (fun x =>
      match x with
      | .ok (some v) => .ret (v + o)
      | _ => .ret o))
  | 5 => .read 1 0 (fun x =>
      .write 10 0 (match x with | .ok (some v) => some (v * 2) | _ => some 0) (fun _ => .ret 1))
  | _ => .ret 0

theorem relayBody_wf : WellFormedCov relayRoles relayBody := by
  refine ⟨?_, ?_⟩
  · intro t
    unfold StaticCov
    match t with
    | 0 =>
      simp only [relayBody, StaticCovFrom, relayRoles]
      refine ⟨by decide, fun o => ⟨by decide, ?_, fun x => ?_⟩⟩
      · intro w hw
        simp at hw; subst hw
        exact ⟨5, by simp, .inl rfl⟩
      · split <;> simp [StaticCovFrom]
    | 1 =>
      simp only [relayBody, StaticCovFrom, relayRoles]
      refine ⟨by decide, fun o => ⟨by decide, ?_, fun x => ?_⟩⟩
      · intro w hw
        simp at hw; subst hw
        exact ⟨3, by simp, .inr (by simp)⟩
      · split <;> simp [StaticCovFrom]
    | 2 =>
      simp only [relayBody, StaticCovFrom, relayRoles]
      refine ⟨by decide, fun o => ⟨by decide, ?_, fun x => ?_⟩⟩
      · intro w hw
        simp at hw; subst hw
        exact ⟨4, by simp, .inr (by simp)⟩
      · split <;> simp [StaticCovFrom]
    | 3 =>
      simp only [relayBody, StaticCovFrom, relayRoles]
      refine ⟨by decide, fun o => ?_⟩
      intro u hu
      simp at hu; subst hu
      exact ⟨4, by simp, .inr (by simp)⟩
    | 4 =>
      simp only [relayBody, StaticCovFrom, relayRoles]
      refine ⟨by decide, fun o => ⟨by decide, by simp, fun x => ?_⟩⟩
      have hc : ∀ u ∈ (if (4 : Nat) = 3 ∨ (4 : Nat) = 4 then [5] else []),
          Covers relayRoles [5] u := by
        intro u hu
        simp at hu; subst hu
        exact ⟨5, by simp, .inl rfl⟩
      split <;> exact hc
    | 5 =>
      simp only [relayBody, StaticCovFrom, relayRoles]
      exact ⟨by decide, by simp, fun x => ⟨by decide, by simp, fun _ => by simp⟩⟩
    | n + 6 => simp [relayBody, StaticCovFrom, relayRoles]
  · intro t u hu
    simp only [relayRoles] at hu ⊢
    split at hu
    · simp at hu; subst hu; omega
    · cases hu

/-- The relays have the relay-prefix shape: 4 starts with `req 5`, 3 starts with `req 4` and
`5 ∈ cov 4`. -/
theorem relayBody_prefix : PrefixCov relayRoles relayBody := by
  intro t w hw
  simp only [relayRoles] at hw
  split at hw
  next h34 =>
    simp at hw; subst hw
    rcases h34 with rfl | rfl
    · exact ⟨4, 0, _, rfl, .inr (by simp [relayRoles])⟩
    · exact ⟨5, 0, _, rfl, .inl rfl⟩
  · cases hw

def relayH1 : List HStep := [.change 1 (some 5), .change 2 (some 7), .session [1, 2, 0]]
def relayH2 : List HStep :=
  relayH1 ++ [.change 1 (some 6), .session [2], .change 2 (some 8), .bottomUp [2, 1] [1, 0]]
def relayH3 : List HStep :=
  relayH2 ++ [.change 1 (some 9), .bottomUp [1] [], .session [0, 1, 2]]

/-- The verdict of a top-down session on `p`. -/
def relayVerdict (p : PieSt) (roots : List Nat) : Option Abort × Option (List Int) :=
  match requireAll stdSem relayBody 60 p.newSession roots with
  | (_, .abort a) => (some a, none)
  | (_, .ok os) => (none, some os)

/-- A session after the first one (5 wrote `10 := 10`; the three readers read it behind their
relays): everything is consistent. -/
example : relayVerdict (runHistory stdSem relayBody 60 relayH1) [1, 2, 0] =
    (none, some [118, 11, 10]) := by
  with_unfolding_all decide

/-- After changes of the generator's source and of the relay's own source, a partial session and
a bottom-up build: the generator overwrites the resource while the readers keep their read edges —
no hidden dependency, no overlap. -/
example : relayVerdict (runHistory stdSem relayBody 60 relayH2) [1, 2, 0] =
    (none, some [121, 13, 12]) := by
  with_unfolding_all decide

/-- A mixed history — sessions, external changes, bottom-up builds with and without requires —
without any abort ... -/
theorem relay_no_aborts : historyAborts stdSem relayBody 60 {} relayH3 = [] := by
  with_unfolding_all decide

/-- ... so after it every task node is saturated and there is no hidden dependency
(`C05_trans_noHidden_history_partial`), and whatever comes next does not end with a diagnosed violation
(`C20_trans_no_abort_next`). -/
example : AllSat relayRoles (runHistory stdSem relayBody 60 relayH3).store ∧
    (runHistory stdSem relayBody 60 relayH3).store.NoHidden :=
  ⟨C20_trans_history_allSat stdSem relayBody_wf 60 relayH3 relay_no_aborts,
    C05_trans_noHidden_history_partial stdSem relayBody_wf 60 relayH3 relay_no_aborts⟩

example (changed roots : List Nat) :
    NoViol (requireAll stdSem relayBody 60 (runHistory stdSem relayBody 60 relayH3).newSession
      roots).2 ∧
    NoViol (bottomUpBuild stdSem relayBody 60 (runHistory stdSem relayBody 60 relayH3).newSession
      changed).2 :=
  C20_trans_no_abort_next stdSem relayBody_wf 60 relayH3
    (C20_trans_history_allSat stdSem relayBody_wf 60 relayH3 relay_no_aborts) changed roots

/-- The statement is not vacuous there: resource 10's node has a recorded writer and three
recorded readers. -/
example : ∃ dst, (runHistory stdSem relayBody 60 relayH3).store.writersTo dst ≠ [] ∧
    ((runHistory stdSem relayBody 60 relayH3).store.tasksReadingFrom dst).length = 3 := by
  refine ⟨((runHistory stdSem relayBody 60 relayH3).store.getOrCreateResNode 10).2, ?_⟩
  with_unfolding_all decide

end PieModel
