/-
Property C02, "at most once per session": in a top-down session every task is executed at most
once — also when the session aborts.

`countExec t evs` counts the `execute_start t` events of a tracker stream.  A session is a
sequence of `sessionRequire` calls on one `Sess` that starts from `PieSt.newSession` (empty
trace); `requireAll` is such a sequence that stops at the first abort, so its final trace is the
trace of the whole session whether all calls returned or the last one aborted.

Route: `execute_start t` is only emitted by `tdMake` in its execute branch, for a node that is
neither marked consistent nor on the logical call stack; while the body runs the node is on the
stack (no re-entry, `C07_no_reentry_*`), afterwards it is marked consistent, and `consistent`
only grows.  This is the trace part `Trc` of the executing-stack invariant
(`PieModel/Build/Stack/*.lean`).
-/
import PieModel.Build.Stack.Session
import PieModel.Props.C19NoBug

namespace PieModel

variable (sem : Sem) (body : Nat → Prog)

/-- The invariant of a session between two `sessionRequire` calls. -/
def OnceInv (s : Sess) : Prop := SessOK s ∧ Trc s []

/-- It holds at the start of a session (store: `WF`, no `reserved` dependency of a completed
task — true after every history, `C19_history_noReservedDone_all`). -/
theorem C02_onceInv_newSession (p : PieSt) (hw : p.store.WF) (hn : p.store.NoReservedDone) :
    OnceInv p.newSession := ⟨sessOK_newSession p hw hn, trc_of_trace_nil rfl⟩

/-- One `sessionRequire` call: at most one `execute_start` per task in the trace so far, whatever
the result; if the call returns the invariant holds again. -/
theorem C02_exec_once_step (fuel : Nat) (s : Sess) (h : OnceInv s) (t : Nat) :
    (∀ u, countExec u (sessionRequire sem body fuel s t).1.trace ≤ 1) ∧
    (∀ s' o, sessionRequire sem body fuel s t = (s', .ok o) → OnceInv s') := by
  have key := sessionRequire_stack (T := True) sem body fuel s t h.1 (fun _ => h.2)
  refine ⟨key.once trivial fun _ _ hp => (hp.2 trivial).once, ?_⟩
  intro s' o heq
  obtain ⟨f2, t2⟩ := key.ok heq
  exact ⟨f2.sessOK, t2 trivial⟩

/-- **C02.** In a top-down session from `newSession` every task is executed at most once —
if all `sessionRequire` calls returned and also if the last one aborted. -/
theorem C02_exec_once (fuel : Nat) (p : PieSt) (hw : p.store.WF) (hn : p.store.NoReservedDone)
    (roots : List Nat) (t : Nat) :
    countExec t (requireAll sem body fuel p.newSession roots).1.trace ≤ 1 :=
  requireAll_once sem body fuel (sessOK_newSession p hw hn) rfl roots t

/-- The same for any `SessOK` session state with an empty trace. -/
theorem C02_exec_once_sess (fuel : Nat) (s : Sess) (h : SessOK s) (htr : s.trace = [])
    (roots : List Nat) (t : Nat) : countExec t (requireAll sem body fuel s roots).1.trace ≤ 1 :=
  requireAll_once sem body fuel h htr roots t

/-- In particular on a fresh `Pie` (the from-scratch build). -/
theorem C02_exec_once_cleanBuild (fuel : Nat) (fs : List (Nat × Int)) (roots : List Nat) (t : Nat) :
    countExec t (cleanBuild sem body fuel fs roots).1.trace ≤ 1 :=
  requireAll_once sem body fuel
    (sessOK_newSession { fs := fs } Store.WF.empty Store.NoReservedDone.empty) rfl roots t

/-- If the session returned, every executed task is marked consistent (so it will not be
executed again by a further `sessionRequire` of the same session). -/
theorem C02_executed_consistent (fuel : Nat) (p : PieSt) (hw : p.store.WF)
    (hn : p.store.NoReservedDone) (roots : List Nat) (s' : Sess) (os : List Int)
    (hr : requireAll sem body fuel p.newSession roots = (s', .ok os)) (t : Nat)
    (ht : 1 ≤ countExec t s'.trace) :
    ∃ n, s'.store.taskOf n = some t ∧ n ∈ s'.consistent := by
  have key := requireAll_stack (T := True) sem body fuel roots p.newSession
    (sessOK_newSession p hw hn) (fun _ => trc_of_trace_nil rfl)
  obtain ⟨_, t2⟩ := key.ok hr
  obtain ⟨n, h1, h2⟩ := (t2 trivial).exd t ht
  rcases h2 with h2 | h2
  · exact ⟨n, h1, h2⟩
  · simp [Store.execStack] at h2

/-- In every top-down session started after any history (external changes, top-down sessions,
bottom-up builds, any of them possibly aborted) every task is executed at most once. -/
theorem C02_exec_once_history (fuel : Nat) (steps : List HStep)
    (fuel' : Nat) (roots : List Nat) (t : Nat) :
    countExec t (requireAll sem body fuel' (runHistory sem body fuel steps).newSession roots).1.trace
      ≤ 1 := by
  obtain ⟨hw, hn⟩ := C19_history_noReservedDone_all sem body fuel steps
  exact C02_exec_once sem body fuel' _ hw hn roots t

/-! ### non-vacuity

A diamond: task 0 requires 1 and 2, both require 3.  Task 3 is required twice but executed
once; requiring the roots again in the same session executes nothing. -/

def c02Body : Nat → Prog
  | 0 => .req 1 0 (fun a => .req 2 0 (fun b => .ret (a + b)))
  | 1 => .req 3 0 (fun a => .ret (a + 1))
  | 2 => .req 3 0 (fun a => .ret (a + 2))
  | _ => .ret 10

def c02S : Sess := (requireAll stdSem c02Body 50 ({} : PieSt).newSession [0, 3, 0]).1

def countReq (t : Nat) (evs : List Ev) : Nat :=
  evs.countP fun e => match e with | .requireStart t' _ => t' == t | _ => false

example : countExec 0 c02S.trace = 1 ∧ countExec 1 c02S.trace = 1 ∧ countExec 2 c02S.trace = 1 ∧
    countExec 3 c02S.trace = 1 ∧ countReq 3 c02S.trace = 3 ∧ countReq 0 c02S.trace = 2 := by
  with_unfolding_all decide

example (t : Nat) : countExec t c02S.trace ≤ 1 :=
  C02_exec_once stdSem c02Body 50 {} Store.WF.empty Store.NoReservedDone.empty [0, 3, 0] t

/-- The aborted session of the cyclic program of `Props/C19.lean`: both tasks entered once. -/
example : countExec 0 (requireAll stdSem c19Body 50 c19P1.newSession [0]).1.trace = 1 ∧
    countExec 1 (requireAll stdSem c19Body 50 c19P1.newSession [0]).1.trace = 1 := by
  with_unfolding_all decide

end PieModel
