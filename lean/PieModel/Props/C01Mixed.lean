/-
Property C01 over MIXED histories: top-down sessions AND bottom-up builds (possibly told a wrong
or incomplete set of changed resources, possibly aborted) on the same `Pie` instance, for
write-free programs.  History type: `HStep`, `runStep`, `runHistory` of `Props/C19.lean`.

RESULT.  The statement asked for — "under the hypotheses of `C01_sources` (`StampTotal`,
`WriteFreeBody`, `Respects`, `OneChecker`) the store is `Faithful` after every mixed history, and
every output returned by a later pure top-down session is the from-scratch output" — is FALSE for
the model (`C01_faithful_mixed_history_claim_false`, `C01_sources_mixed_claim_false`, kernel-checked
on a concrete program and history, `Build/Mixed/Cex.lean`).  Cause: a bottom-up build can execute a
task that is already marked consistent once more (it is popped from the queue), so two `require`s of
the same task made by ONE execution can return different outputs; the store keeps one edge per
target, the second stamp overwrites the first, and the recorded output no longer replays from the
recorded dependencies.  If the build then aborts before the requirer is executed again, a later
top-down session validates the requirer and returns its stale output.  The counterexample needs an
output checker that rejects its own stamp (`ocheck c o (ostamp c o) = false`), which the hypotheses
of C01 allow.

What IS proved (all programs, all checker semantics, all fuel, all histories):

* **Main theorems** — with the ONE added hypothesis `OReflexive sem` (every output checker accepts
  its own stamp; true for all built-in checkers of pie and for `stdSem`/`totalSem`):
  `C01_faithful_mixed_history`, `C01_sources_mixed`, `C01_mixed_equals_clean_build`,
  `C19_results_after_abort_mixed`.  Proof: in a bottom-up build started in a new session, tasks
  marked consistent keep their outputs (a consistent task that is still queued re-executes to its
  stored output, and nothing below a consistent task is scheduled with a changed output):
  invariant `Mixed.RInv`, joint induction `Mixed.buR` (`Build/Mixed/R*.lean`).
* Alternatively, for ARBITRARY checker semantics but programs that require every task at most once
  per execution (`OneRequire`): the same four theorems, suffix `_oneRequire`.
* top-down: every function of the top-down context preserves `Faithful` from every well-formed
  state in which the executing task has no output and is not marked consistent — with an ARBITRARY
  `consistent` set, queue and resource state, whatever the result (`C01_faithful_topdown_inner`);
  `sessionRequire`/`requireAll` from ANY well-formed state (`C01_faithful_topdown`).  No new
  hypothesis (`Respects` is not even needed).
* bottom-up: every function of the bottom-up context, the scheduling functions and
  `bottomUpBuild` preserve `Faithful`, whatever the result,
  - from every well-formed state in which the executing task has no output (arbitrary
    `consistent`, queue, `fs`) for `OneRequire` programs (`C01_faithful_bottomup_inner`,
    `C01_faithful_bottomup`); without `OneRequire` this is false even for the standard checkers
    (`C01_bottomup_any_state_false`: a state in which a task is consistent, stale and queued);
  - from every state satisfying `Mixed.RInv` (in particular every new session) for reflexive
    output checkers (`C01_faithful_bottomup_inner_reflexive`, `C01_faithful_bottomup_reflexive`).

Nothing is claimed about the requires that follow a bottom-up build inside the same session: they
may return stale outputs when `changed` is incomplete (`c01mix_same_session_stale`).
-/
import PieModel.Build.Mixed.RSession
import PieModel.Build.Mixed.Cex
import PieModel.Build.Mixed.Cex2
import PieModel.Props.C01

namespace PieModel
open Mixed

/-! ### 0. the statements as asked, and their refutation -/

/-- The statement asked for (1): `Faithful` after every mixed history, under the hypotheses of
`C01_sources`. -/
def C01_faithful_mixed_history_claim : Prop :=
  ∀ (sem : Sem) (body : Nat → Prog), StampTotal sem → WriteFreeBody body →
    (∀ t, Respects sem (body t)) → (∀ t, OneChecker (body t)) →
    ∀ (fuel : Nat) (steps : List HStep), Faithful sem body (runHistory sem body fuel steps).store

/-- The statement asked for (2): every output logged for a pure top-down session of a mixed history
is the from-scratch output, under the hypotheses of `C01_sources`. -/
def C01_sources_mixed_claim : Prop :=
  ∀ (sem : Sem) (body : Nat → Prog), StampTotal sem → WriteFreeBody body →
    (∀ t, Respects sem (body t)) → (∀ t, OneChecker (body t)) →
    ∀ (fuel : Nat) (steps : List HStep) (fs : List (Nat × Int)) (root : Nat) (o : Int),
      (fs, root, o) ∈ (runHistoryLog sem body fuel steps).2 → Eval sem body fs root o

/-- **Counterexample.** `MixedCex.cexSem` (the total standard checkers plus a never-consistent
output checker), `MixedCex.cexBody` (six write-free tasks), `MixedCex.cexHist` (external changes,
five top-down sessions of which four abort with a task panic, one bottom-up build told `[1, 3, 4]`
while resource 2 changed as well, aborting with a task panic): afterwards task 0 has output
`10051007` and dependencies that replay only to `10071007`. -/
theorem C01_faithful_mixed_history_claim_false : ¬ C01_faithful_mixed_history_claim := fun h =>
  MixedCex.cex_not_faithful (h _ _ MixedCex.cexSem_stampTotal MixedCex.cexBody_writeFree
    MixedCex.cexBody_respects MixedCex.cexBody_oneChecker 18 MixedCex.cexHist)

/-- **Counterexample, observable form.** After the same history a pure top-down session requiring
task 0 returns `10051007`; the from-scratch output on the same resources is `10071007`. -/
theorem C01_sources_mixed_claim_false : ¬ C01_sources_mixed_claim := by
  intro h
  refine MixedCex.cex_not_eval (h _ _ MixedCex.cexSem_stampTotal MixedCex.cexBody_writeFree
    MixedCex.cexBody_respects MixedCex.cexBody_oneChecker 18 (MixedCex.cexHist ++ [.session [0]])
    MixedCex.cexFs 0 10051007 ?_)
  with_unfolding_all decide

section
variable {sem : Sem} {body : Nat → Prog}

/-! ### 1. `Faithful` is preserved by every interpreter function -/

/-- The weak invariant of the preservation theorems: a well-formed session state (`SessWF`) with a
faithful store in which the executing task (if any) has no output.  `consistent`, the queue and the
resource state are arbitrary.  (`Mixed.MInv sem body s.fs s` unfolded.) -/
theorem C01_weak_invariant_iff (s : Sess) :
    MInv sem body s.fs s ↔
      SessWF s ∧ Faithful sem body s.store ∧ ∀ n, s.cur = some n → s.store.taskOutput n = none :=
  ⟨fun h => ⟨h.wf, h.faithful, h.curFree⟩, fun h => ⟨h.1, rfl, h.2.1, h.2.2⟩⟩

section TopDown
variable (hst : StampTotal sem) (hwfb : WriteFreeBody body) (hone : ∀ t, OneChecker (body t))
include hst hwfb hone

/-- **Top-down, inner functions.**  From every state satisfying the weak invariant whose executing
task is not marked consistent, each of the five mutually recursive functions of the top-down
context leaves a faithful store, **whatever the result** (`.ok` or `.abort`).  Side conditions as
in `C01_faithful_preserved` (they hold at every call site): `tdMake`/`tdCheck`/`tdCheckDeps` work
below the executing task, `tdCheck(Deps)` on a task not yet consistent and on (a suffix of) its own
dependency list, `tdRun` on a write-free program whose recorded dependencies match the accumulators
of `OneCk`.  Without "the executing task has no output" the statement is false
(`Props/C01.lean`, `c01Bad`). -/
theorem C01_faithful_topdown_inner (fuel : Nat) (s : Sess) (h : MInv sem body s.fs s)
    (hfresh : ∀ n, s.cur = some n → n ∉ s.consistent) :
    (∀ u c, Faithful sem body (tdRequire sem body fuel s u c).1.store) ∧
    (∀ t, CurReach s (nodeOf s t) → Faithful sem body (tdMake sem body fuel s t).1.store) ∧
    (∀ m, m ∉ s.consistent → CurReach s m →
      Faithful sem body (tdCheck sem body fuel s m).1.store) ∧
    (∀ m ds, m ∉ s.consistent → CurReach s m → (∀ d ∈ ds, d ∈ s.store.depsFrom m) →
      Faithful sem body (tdCheckDeps sem body fuel s ds).1.store) ∧
    (∀ n p qt qr, s.cur = some n → p.WriteFree → OneCk qt qr p → RunInv sem s.fs qt qr s n →
      Faithful sem body (tdRun sem body fuel s p).1.store) := by
  have T := tdM (fs := s.fs) hst hwfb hone fuel
  have hT : TInv sem body s.fs s := ⟨h, hfresh⟩
  exact ⟨fun u c => (T.require s u c hT).faithful, fun t hc => (T.make s t hT hc).faithful,
    fun m hm hc => (T.check s m hT hm hc).faithful,
    fun m ds hm hc hd => (T.checkDeps s m ds hT hm hc hd).faithful,
    fun n p qt qr hn hp ho hr => (T.run s n p qt qr hT hn hp ho hr).faithful⟩

/-- **Top-down, entry points.**  `Session::require` and `requireAll` from ANY well-formed session
state with a faithful store — arbitrary `cur`, `consistent` (e.g. left by a bottom-up build in the
same session), queue, resource state — leave a well-formed state with a faithful store, whatever
the result. -/
theorem C01_faithful_topdown (fuel : Nat) (s : Sess) (hwf : SessWF s)
    (hf : Faithful sem body s.store) :
    (∀ t, SessWF (sessionRequire sem body fuel s t).1 ∧
      Faithful sem body (sessionRequire sem body fuel s t).1.store) ∧
    (∀ ts, SessWF (requireAll sem body fuel s ts).1 ∧
      Faithful sem body (requireAll sem body fuel s ts).1.store) :=
  ⟨fun t => ⟨(sessionRequire_ext sem body fuel hwf t).wf,
      faithful_sessionRequire hst hwfb hone fuel s t hwf hf⟩,
    fun ts => ⟨(requireAll_ext sem body fuel ts hwf).wf,
      faithful_requireAll hst hwfb hone fuel ts s hwf hf⟩⟩

end TopDown

section BottomUp
variable (hst : StampTotal sem) (hwfb : WriteFreeBody body) (hone : ∀ t, OneChecker (body t))
  (hreq : ∀ t, OneRequire (body t))
include hst hwfb hone hreq

/-- **Bottom-up, inner functions** (`OneRequire` programs).  From every state satisfying the weak
invariant, each of the six mutually recursive functions of the bottom-up context leaves a faithful
store, whatever the result.  Side conditions (they hold at every call site): `buMake`/`buExec` get
the node of their task; the node handled by `buMake`/`buExec`/`buExecAndSchedule`/`buRequireNow`
lies below the executing task; `buRun` runs a write-free `OneCk`/`OneReq` program whose recorded
dependencies match the accumulators. -/
theorem C01_faithful_bottomup_inner (fuel : Nat) (s : Sess) (h : MInv sem body s.fs s) :
    (∀ u c, Faithful sem body (buRequire sem body fuel s u c).1.store) ∧
    (∀ t node, s.store.taskOf node = some t → CurReach s node →
      Faithful sem body (buMake sem body fuel s t node).1.store) ∧
    (∀ t node, s.store.taskOf node = some t → CurReach s node →
      Faithful sem body (buExec sem body fuel s t node).1.store) ∧
    (∀ node, CurReach s node → Faithful sem body (buExecAndSchedule sem body fuel s node).1.store) ∧
    (∀ src, CurReach s src → Faithful sem body (buRequireNow sem body fuel s src).1.store) ∧
    (∀ n p seen qt qr, s.cur = some n → p.WriteFree → OneCk qt qr p → OneReq seen p →
      BRunInv sem s.fs seen qr s n → Faithful sem body (buRun sem body fuel s p).1.store) := by
  have B := buM (fs := s.fs) hst hwfb hone hreq fuel
  exact ⟨fun u c => (B.require s u c h).faithful,
    fun t node ht hc => (B.make s t node h ht hc).faithful,
    fun t node ht hc => (B.exec s t node h ht hc).faithful,
    fun node hc => (B.execAndSchedule s node h hc).faithful,
    fun src hc => (B.requireNow s src h hc).faithful,
    fun n p seen qt qr hn hp ho hq hr => (B.run s n p seen qt qr h hn hp ho hq hr).faithful⟩

/-- **Bottom-up, entry points** (`OneRequire` programs).  From every state satisfying the weak
invariant — arbitrary `consistent` set, arbitrary queue, arbitrary resource state —
`scheduleAffectedBy`, `scheduleAfterExec`, `buExecuteScheduled` (outside of an execution),
`updateAffectedTasks` and a whole `bottomUpBuild` for an ARBITRARY list of "changed" resources
leave a faithful store, whatever the result. -/
theorem C01_faithful_bottomup (fuel : Nat) (s : Sess) (h : MInv sem body s.fs s) :
    (∀ r, Faithful sem body (scheduleAffectedBy sem s r).store) ∧
    (∀ node t out, Faithful sem body (scheduleAfterExec sem s node t out).store) ∧
    (s.cur = none → Faithful sem body (buExecuteScheduled sem body fuel s).1.store) ∧
    Faithful sem body (updateAffectedTasks sem body fuel s).1.store ∧
    (∀ changed, Faithful sem body (bottomUpBuild sem body fuel s changed).1.store) :=
  ⟨fun r => faithful_scheduleAffectedBy s r h.wf h.faithful h.curFree,
    fun node t out => faithful_scheduleAfterExec s node t out h.faithful,
    fun hc => (faithful_buExecuteScheduled hst hwfb hone hreq fuel s h hc).1,
    faithful_updateAffectedTasks hst hwfb hone hreq fuel s h.wf h.faithful,
    fun changed => faithful_bottomUpBuild hst hwfb hone hreq fuel s changed h.wf h.faithful h.curFree⟩

end BottomUp

/-- **Without `OneRequire` the previous two theorems are false, also for the standard checkers**:
`MixedCex.cex2Sess` is a well-formed session state with a faithful store and no executing task in
which a task is marked consistent, stale and queued; `buExecAndSchedule` from it leaves a store
that is not faithful (`totalSem` is `StampTotal` and reflexive, `cex2Body` write-free, `Respects`,
`OneChecker`). -/
theorem C01_bottomup_any_state_false :
    MInv totalSem MixedCex.cex2Body MixedCex.cex2Sess.fs MixedCex.cex2Sess ∧
    ¬ Faithful totalSem MixedCex.cex2Body
      (buExecAndSchedule totalSem MixedCex.cex2Body 30 MixedCex.cex2Sess 0).1.store :=
  ⟨(C01_weak_invariant_iff _).mpr
      ⟨MixedCex.cex2_weak_invariant.1, MixedCex.cex2_weak_invariant.2.1, fun _ hn => (nomatch hn)⟩,
    MixedCex.cex2_not_faithful⟩

section BottomUpReflexive
variable (hst : StampTotal sem) (hrefl : OReflexive sem) (hwfb : WriteFreeBody body)
  (hone : ∀ t, OneChecker (body t))
include hst hrefl hwfb hone

/-- **Bottom-up, inner functions, reflexive output checkers** (no `OneRequire`).  From every
state satisfying the invariant `Mixed.RInv` of a bottom-up build (`Build/Mixed/RDefs.lean`: the weak
invariant; the executing task is not consistent and its finished `require` edges point to
consistent tasks; consistent tasks have outputs; a consistent task that is still queued replays to
its stored output now; below a consistent task no `require` edge leads to a queued task that is
not consistent or whose output the edge's stamp rejects) each function of the bottom-up context
leaves a faithful store, whatever the result.  `buExecAndSchedule` is stated for the state before
the node was popped. -/
theorem C01_faithful_bottomup_inner_reflexive (fuel : Nat) (s : Sess)
    (h : RInv sem body s.fs s) :
    (∀ u c, Faithful sem body (buRequire sem body fuel s u c).1.store) ∧
    (∀ t node, s.store.taskOf node = some t → CurReach s node →
      Faithful sem body (buMake sem body fuel s t node).1.store) ∧
    (∀ t node, s.store.taskOf node = some t → CurReach s node → node ∉ s.consistent →
      Faithful sem body (buExec sem body fuel s t node).1.store) ∧
    (∀ q node, node ∈ s.queue → (∀ m ∈ q, m ∈ s.queue) → CurReach s node →
      Faithful sem body (buExecAndSchedule sem body fuel { s with queue := q } node).1.store) ∧
    (∀ src, CurReach s src → Faithful sem body (buRequireNow sem body fuel s src).1.store) ∧
    (∀ n p qt qr, s.cur = some n → p.WriteFree → OneCk qt qr p → RunInv sem s.fs qt qr s n →
      Faithful sem body (buRun sem body fuel s p).1.store) := by
  have B := buR (fs := s.fs) hst hrefl hwfb hone fuel
  exact ⟨fun u c => (B.require s u c h).faithful,
    fun t node ht hc => (B.make s t node h ht hc).faithful,
    fun t node ht hc hn => (B.exec s t node h ht hc hn).faithful,
    fun q node hq hs hc => (B.eas s q node h hq hs hc).faithful,
    fun src hc => (B.now s src h hc).faithful,
    fun n p qt qr hn hp ho hr => (B.run s n p qt qr h hn hp ho hr).faithful⟩

/-- **Bottom-up, entry points, reflexive output checkers** (no `OneRequire`).  In a session in
which nothing is marked consistent yet (every new session; arbitrary queue and resource state),
`updateAffectedTasks` and a whole `bottomUpBuild` for an ARBITRARY list of "changed" resources
leave a faithful store, whatever the result. -/
theorem C01_faithful_bottomup_reflexive (fuel : Nat) (s : Sess) (hwf : SessWF s)
    (hf : Faithful sem body s.store) (hcons : s.consistent = [])
    (hcf : ∀ n, s.cur = some n → s.store.taskOutput n = none) :
    Faithful sem body (updateAffectedTasks sem body fuel s).1.store ∧
    (∀ changed, Faithful sem body (bottomUpBuild sem body fuel s changed).1.store) :=
  ⟨faithful_updateAffectedTasksR hst hrefl hwfb hone fuel s hwf hf hcons,
    fun changed => faithful_bottomUpBuildR hst hrefl hwfb hone fuel s changed hwf hf hcons hcf⟩

end BottomUpReflexive

/-! ### 2. mixed histories -/

/-- The logging variant projects to `runHistory`: same final `Pie`. -/
theorem C01_runHistoryLog_fst (sem : Sem) (body : Nat → Prog) (fuel : Nat) (steps : List HStep) :
    (runHistoryLog sem body fuel steps).1 = runHistory sem body fuel steps :=
  runHistoryLogFrom_fst sem body fuel steps {}

/-! #### main theorems: reflexive output checkers -/

section History
variable (hst : StampTotal sem) (hrefl : OReflexive sem) (hwfb : WriteFreeBody body)
  (hresp : ∀ t, Respects sem (body t)) (hone : ∀ t, OneChecker (body t))

include hst hrefl hwfb hone

/-- One step of a mixed history (external change, top-down session, bottom-up build followed by
requires; aborted anywhere or not) maps a well-formed faithful store to a well-formed faithful
store. -/
theorem C01_faithful_mixed_step (fuel : Nat) (p : PieSt) (hw : p.store.WF)
    (hf : Faithful sem body p.store) (st : HStep) :
    (runStep sem body fuel p st).store.WF ∧ Faithful sem body (runStep sem body fuel p st).store :=
  runStep_faithful hst hwfb hone (buPreserves_reflexive hst hrefl hwfb hone) fuel p hw hf st

/-- **`Faithful` after every mixed history** (output checkers accept their own stamps): external
changes, top-down sessions, bottom-up builds with arbitrary `changed` lists followed by requires in
the same session, any of them aborted at any point; every fuel. -/
theorem C01_faithful_mixed_history (fuel : Nat) (steps : List HStep) :
    Faithful sem body (runHistory sem body fuel steps).store :=
  (foldl_runStep_faithful hst hwfb hone (buPreserves_reflexive hst hrefl hwfb hone) fuel steps {}
    Store.WF.empty Faithful.empty).2

include hresp

/-- **C01 over mixed histories** (output checkers accept their own stamps).  Every output `o`
returned by a `Session::require` of `root` in a pure top-down session of the history, started when
the resources were `fs`, is the from-scratch output of `root` on `fs` — whatever bottom-up builds
(with wrong or incomplete `changed` lists, aborted or not) and aborted sessions came before. -/
theorem C01_sources_mixed (fuel : Nat) (steps : List HStep) (fs : List (Nat × Int)) (root : Nat)
    (o : Int) (hx : (fs, root, o) ∈ (runHistoryLog sem body fuel steps).2) :
    Eval sem body fs root o :=
  runHistoryLogFrom_sound hst hwfb hresp hone (buPreserves_reflexive hst hrefl hwfb hone) fuel steps
    {} Store.WF.empty Faithful.empty _ hx

/-- **C01 over mixed histories against `cleanBuild`**: such an output equals the output of a
from-scratch build of the same root on the same resources (whenever the latter returns). -/
theorem C01_mixed_equals_clean_build (fuel fuel' : Nat) (steps : List HStep)
    (fs : List (Nat × Int)) (root : Nat) (o o' : Int) (s : Sess)
    (hx : (fs, root, o) ∈ (runHistoryLog sem body fuel steps).2)
    (hc : cleanBuild sem body fuel' fs [root] = (s, .ok [o'])) : o = o' := by
  have h1 := C01_sources_mixed hst hrefl hwfb hresp hone fuel steps fs root o hx
  have h2 := C01_clean_build_eval hst hwfb hresp hone fuel' fs [root] s [o'] hc
  cases h2 with
  | cons h2 _ => exact h1.det h2

/-- **C19, results after aborts, mixed histories.**  After every mixed history — in which any
session or bottom-up build may have aborted at any point — every LATER top-down session that
returns yields the from-scratch outputs of its roots on the current resources. -/
theorem C19_results_after_abort_mixed (fuel fuel' : Nat) (steps : List HStep) (roots : List Nat)
    (s' : Sess) (os : List Int)
    (hr : requireAll sem body fuel' (runHistory sem body fuel steps).newSession roots = (s', .ok os)) :
    List.Forall₂ (Eval sem body (runHistory sem body fuel steps).fs) roots os := by
  obtain ⟨hw, hf⟩ :=
    foldl_runStep_faithful hst hwfb hone (buPreserves_reflexive hst hrefl hwfb hone) fuel steps {}
      Store.WF.empty Faithful.empty
  exact C01_requireAll_sound hst hwfb hresp hone fuel'
    (runHistory sem body fuel steps).newSession s' roots os (SInv.newSession hw hf) hr

end History

/-! #### the same for arbitrary checkers and `OneRequire` programs -/

section HistoryOneRequire
variable (hst : StampTotal sem) (hwfb : WriteFreeBody body)
  (hresp : ∀ t, Respects sem (body t)) (hone : ∀ t, OneChecker (body t))
  (hreq : ∀ t, OneRequire (body t))

include hst hwfb hone hreq

theorem C01_faithful_mixed_step_oneRequire (fuel : Nat) (p : PieSt) (hw : p.store.WF)
    (hf : Faithful sem body p.store) (st : HStep) :
    (runStep sem body fuel p st).store.WF ∧ Faithful sem body (runStep sem body fuel p st).store :=
  runStep_faithful hst hwfb hone (buPreserves_oneRequire hst hwfb hone hreq) fuel p hw hf st

/-- `Faithful` after every mixed history, for arbitrary checkers and `OneRequire` programs. -/
theorem C01_faithful_mixed_history_oneRequire (fuel : Nat) (steps : List HStep) :
    Faithful sem body (runHistory sem body fuel steps).store :=
  (foldl_runStep_faithful hst hwfb hone (buPreserves_oneRequire hst hwfb hone hreq) fuel steps {}
    Store.WF.empty Faithful.empty).2

include hresp

/-- C01 over mixed histories, for arbitrary checkers and `OneRequire` programs. -/
theorem C01_sources_mixed_oneRequire (fuel : Nat) (steps : List HStep) (fs : List (Nat × Int))
    (root : Nat) (o : Int) (hx : (fs, root, o) ∈ (runHistoryLog sem body fuel steps).2) :
    Eval sem body fs root o :=
  runHistoryLogFrom_sound hst hwfb hresp hone (buPreserves_oneRequire hst hwfb hone hreq) fuel steps
    {} Store.WF.empty Faithful.empty _ hx

theorem C01_mixed_equals_clean_build_oneRequire (fuel fuel' : Nat) (steps : List HStep)
    (fs : List (Nat × Int)) (root : Nat) (o o' : Int) (s : Sess)
    (hx : (fs, root, o) ∈ (runHistoryLog sem body fuel steps).2)
    (hc : cleanBuild sem body fuel' fs [root] = (s, .ok [o'])) : o = o' := by
  have h1 := C01_sources_mixed_oneRequire hst hwfb hresp hone hreq fuel steps fs root o hx
  have h2 := C01_clean_build_eval hst hwfb hresp hone fuel' fs [root] s [o'] hc
  cases h2 with
  | cons h2 _ => exact h1.det h2

theorem C19_results_after_abort_mixed_oneRequire (fuel fuel' : Nat) (steps : List HStep)
    (roots : List Nat) (s' : Sess) (os : List Int)
    (hr : requireAll sem body fuel' (runHistory sem body fuel steps).newSession roots = (s', .ok os)) :
    List.Forall₂ (Eval sem body (runHistory sem body fuel steps).fs) roots os := by
  obtain ⟨hw, hf⟩ :=
    foldl_runStep_faithful hst hwfb hone (buPreserves_oneRequire hst hwfb hone hreq) fuel steps {}
      Store.WF.empty Faithful.empty
  exact C01_requireAll_sound hst hwfb hresp hone fuel'
    (runHistory sem body fuel steps).newSession s' roots os (SInv.newSession hw hf) hr

end HistoryOneRequire
end

/-! ### 3. why nothing is claimed for the requires after a bottom-up build in the same session

Task 0 reads resource 2 and requires task 1; task 1 reads resource 1.  Both resources change, the
bottom-up build is told about resource 2 only: it executes task 0, whose `require` of task 1 finds
nothing scheduled, takes the stale output 5 and marks task 1 consistent.  A `require` of task 1 in
the same session returns 5; from scratch it is 6. -/

def c01mixStaleBody : Nat → Prog
  | 0 => .read 2 0 (fun _ => .req 1 0 (fun o => .ret (o + 100)))
  | 1 => .read 1 0 (fun x => match x with | .ok (some v) => .ret v | _ => .ret 0)
  | _ => .ret 0

def c01mixStaleP : PieSt :=
  runHistory totalSem c01mixStaleBody 20
    [.change 1 (some 5), .change 2 (some 1), .session [0], .change 1 (some 6), .change 2 (some 2)]

/-- The bottom-up build for `[2]` returns, and the following `require` of task 1 in the same
session returns the stale 5 ... -/
theorem c01mix_same_session_stale :
    (bottomUpBuild totalSem c01mixStaleBody 20 c01mixStaleP.newSession [2]).2 matches .ok () ∧
    (requireLog totalSem c01mixStaleBody 20
      (bottomUpBuild totalSem c01mixStaleBody 20 c01mixStaleP.newSession [2]).1 [1]).2 = [(1, 5)] ∧
    c01mixStaleP.fs = [(1, 6), (2, 2)] := by
  with_unfolding_all decide

/-- ... while the from-scratch output of task 1 on these resources is 6. -/
theorem c01mix_same_session_eval : Eval totalSem c01mixStaleBody [(1, 6), (2, 2)] 1 6 :=
  .read (s := .optInt (some 6)) rfl .ret

/-! ### 4. non-vacuity

Task 0 reads resource 0 and requires task 1 (exact) and task 2 (`AlwaysConsistent`), or task 2
(exact); task 1 reads resource 1 and panics when it contains 0. -/

def c01mixBody : Nat → Prog
  | 0 => .read 0 0 (fun x => match x with
      | .ok (some 1) => .req 1 0 (fun o => .req 2 4 (fun _ => .ret (o + 10)))
      | _ => .req 2 0 (fun o => .ret (o + 20)))
  | 1 => .read 1 0 (fun x => match x with
      | .ok (some 0) => .panic
      | .ok (some v) => .ret v
      | _ => .ret 0)
  | _ => .ret 7

theorem c01mixBody_writeFree : WriteFreeBody c01mixBody := by
  intro t
  match t with
  | 0 =>
    refine .read _ _ _ (fun x => ?_)
    split
    · exact .req _ _ _ (fun o => .req _ _ _ (fun _ => .ret _))
    · exact .req _ _ _ (fun o => .ret _)
  | 1 =>
    refine .read _ _ _ (fun x => ?_)
    split
    · exact .panic
    · exact .ret _
    · exact .ret _
  | _ + 2 => exact .ret _

theorem c01mixBody_respects : ∀ t, Respects totalSem (c01mixBody t) := by
  intro t
  match t with
  | 0 =>
    refine ⟨fun v v' s h1 h2 => by rw [totalSem_rcheck0 h1 h2], fun x => ?_⟩
    dsimp only
    split
    · exact ⟨fun o o' h => by rw [totalSem_ocheck0 h], fun o => ⟨fun _ _ _ => rfl, fun _ => trivial⟩⟩
    · exact ⟨fun o o' h => by rw [totalSem_ocheck0 h], fun o => trivial⟩
  | 1 =>
    refine ⟨fun v v' s h1 h2 => by rw [totalSem_rcheck0 h1 h2], fun x => ?_⟩
    dsimp only
    split <;> trivial
  | _ + 2 => trivial

theorem c01mixBody_oneChecker : ∀ t, OneChecker (c01mixBody t) := by
  intro t
  match t with
  | 0 =>
    refine ⟨fun c' h => (nomatch h), fun x => ?_⟩
    dsimp only
    split <;> simp [OneCk]
  | 1 =>
    refine ⟨fun c' h => (nomatch h), fun x => ?_⟩
    dsimp only
    split <;> trivial
  | _ + 2 => trivial

theorem c01mixBody_oneRequire : ∀ t, OneRequire (c01mixBody t) := by
  intro t
  match t with
  | 0 =>
    intro x
    dsimp only
    split <;> simp [OneReq]
  | 1 =>
    intro x
    dsimp only
    split <;> trivial
  | _ + 2 => trivial

/-- A mixed history: a top-down session; resource 1 := 0 and a bottom-up build that aborts (task 1
panics); resource 1 := 6 and a bottom-up build followed by a require in the same session; resource
0 := 2 with a bottom-up build that is told the WRONG resource (nothing is scheduled, the store stays
stale); a top-down session with two roots. -/
def c01mixHistory : List HStep :=
  [.change 0 (some 1), .change 1 (some 5), .session [0],
   .change 1 (some 0), .bottomUp [1] [],
   .change 1 (some 6), .bottomUp [1] [0],
   .change 0 (some 2), .bottomUp [1] [],
   .session [0, 1]]

/-- The first bottom-up build of the history aborts with a task panic. -/
example : (bottomUpBuild totalSem c01mixBody 30
    (runHistory totalSem c01mixBody 30 (c01mixHistory.take 4)).newSession [1]).2
      matches .abort .taskPanic := by with_unfolding_all decide

/-- Before the last session the store is stale: task 0 (node 0) still has the output computed when
resource 0 was 1. -/
example : (runHistory totalSem c01mixBody 30 (c01mixHistory.take 9)).store.taskOutput 0 = some 16 ∧
    (runHistory totalSem c01mixBody 30 (c01mixHistory.take 9)).fs = [(0, 2), (1, 6)] := by
  with_unfolding_all decide

/-- The log of the run: the pure top-down sessions returned these outputs. -/
example : (runHistoryLog totalSem c01mixBody 30 c01mixHistory).2 =
    [([(0, 1), (1, 5)], 0, 15), ([(0, 2), (1, 6)], 0, 27), ([(0, 2), (1, 6)], 1, 6)] := by
  with_unfolding_all decide

/-- The theorem applied to the run: 27 is the from-scratch output of task 0 on `[0↦2, 1↦6]` ... -/
example : Eval totalSem c01mixBody [(0, 2), (1, 6)] 0 27 :=
  C01_sources_mixed totalSem_stampTotal MixedCex.totalSem_oreflexive c01mixBody_writeFree
    c01mixBody_respects c01mixBody_oneChecker 30 c01mixHistory _ _ _ (by with_unfolding_all decide)

/-- ... and the model's clean build returns the same value. -/
example : (cleanBuild totalSem c01mixBody 30 [(0, 2), (1, 6)] [0]).2 matches .ok [27] := by
  with_unfolding_all decide

/-- The store after the history is faithful (by the theorem). -/
example : Faithful totalSem c01mixBody (runHistory totalSem c01mixBody 30 c01mixHistory).store :=
  C01_faithful_mixed_history totalSem_stampTotal MixedCex.totalSem_oreflexive c01mixBody_writeFree
    c01mixBody_oneChecker 30 c01mixHistory

/-- The `OneRequire` variant applied to the same run. -/
example : Eval totalSem c01mixBody [(0, 2), (1, 6)] 0 27 :=
  C01_sources_mixed_oneRequire totalSem_stampTotal c01mixBody_writeFree c01mixBody_respects
    c01mixBody_oneChecker c01mixBody_oneRequire 30 c01mixHistory _ _ _ (by with_unfolding_all decide)

/-! #### a program that requires a task twice (covered by the main theorems only)

Task 0 requires task 2, task 1 and task 2 again (`MixedCex.cex2Body` with a panic added): task 2
reads resource 1 and panics when it contains 0. -/

def c01mixBody2 : Nat → Prog
  | 0 => .req 2 0 (fun z1 => .req 1 4 (fun _ => .req 2 0 (fun z2 => .ret (z1 * 100 + z2))))
  | 1 => .req 2 0 (fun z => .ret (z + 1))
  | 2 => .read 1 0 (fun x => match x with
      | .ok (some 0) => .panic
      | .ok (some v) => .ret v
      | _ => .ret 0)
  | _ => .ret 0

theorem c01mixBody2_writeFree : WriteFreeBody c01mixBody2 := by
  intro t
  match t with
  | 0 => exact .req _ _ _ (fun _ => .req _ _ _ (fun _ => .req _ _ _ (fun _ => .ret _)))
  | 1 => exact .req _ _ _ (fun _ => .ret _)
  | 2 =>
    refine .read _ _ _ (fun x => ?_)
    split
    · exact .panic
    · exact .ret _
    · exact .ret _
  | _ + 3 => exact .ret _

theorem c01mixBody2_respects : ∀ t, Respects totalSem (c01mixBody2 t) := by
  intro t
  match t with
  | 0 =>
    refine ⟨fun o o' h => by rw [totalSem_ocheck0 h], fun z1 => ?_⟩
    refine ⟨fun _ _ _ => rfl, fun _ => ?_⟩
    exact ⟨fun o o' h => by rw [totalSem_ocheck0 h], fun _ => trivial⟩
  | 1 => exact ⟨fun o o' h => by rw [totalSem_ocheck0 h], fun _ => trivial⟩
  | 2 =>
    refine ⟨fun v v' s h1 h2 => by rw [totalSem_rcheck0 h1 h2], fun x => ?_⟩
    dsimp only
    split <;> trivial
  | _ + 3 => trivial

theorem c01mixBody2_oneChecker : ∀ t, OneChecker (c01mixBody2 t) := by
  intro t
  match t with
  | 0 => simp [OneChecker, c01mixBody2, OneCk]
  | 1 => simp [OneChecker, c01mixBody2, OneCk]
  | 2 =>
    refine ⟨fun c' h => (nomatch h), fun x => ?_⟩
    dsimp only
    split <;> trivial
  | _ + 3 => trivial

example : ¬ OneRequire (c01mixBody2 0) := by
  intro h
  simp [OneRequire, c01mixBody2, OneReq] at h

/-- A full build; resource 1 := 0 and a bottom-up build that aborts (task 2 panics, losing its
output); resource 1 := 6 and a bottom-up build that is told nothing; a top-down session. -/
def c01mixHistory2 : List HStep :=
  [.change 1 (some 5), .session [0], .change 1 (some 0), .bottomUp [1] [],
   .change 1 (some 6), .bottomUp [] [], .session [0, 1]]

example : (bottomUpBuild totalSem c01mixBody2 30
    (runHistory totalSem c01mixBody2 30 (c01mixHistory2.take 3)).newSession [1]).2
      matches .abort .taskPanic := by with_unfolding_all decide

example : (runHistoryLog totalSem c01mixBody2 30 c01mixHistory2).2 =
    [([(1, 5)], 0, 505), ([(1, 6)], 0, 606), ([(1, 6)], 1, 7)] := by
  with_unfolding_all decide

example : Eval totalSem c01mixBody2 [(1, 6)] 0 606 :=
  C01_sources_mixed totalSem_stampTotal MixedCex.totalSem_oreflexive c01mixBody2_writeFree
    c01mixBody2_respects c01mixBody2_oneChecker 30 c01mixHistory2 _ _ _
    (by with_unfolding_all decide)

/-- The counterexample program violates `OneRequire` (task 0 requires task 3 twice), as it must. -/
example : ¬ OneRequire (MixedCex.cexBody 0) := by
  intro h
  have h1 := h (.ok none)
  simp [OneReq] at h1

end PieModel
