/-
A VERIFIED checker of the theorem hypotheses on the scripted programs of the correspondence harness.

The harness runs the real crates and the model on generated *scripts* (`Build/Script.lean`:
`Script`, `compile : Env → Script → Prog`, `bodyOf : List (Nat × Script) → Nat → Prog`); the driver
interprets them with the checker table `stdSem`.  The theorems of `Props/C01*.lean`, `C02*.lean`,
`C03*.lean`, `C20.lean` carry hypotheses on the program table.  This file turns "the generator
satisfies them by construction" into Boolean tests with soundness proofs, and states the theorems
for the DRIVER's runs (under `stdSem`) with no hypothesis other than these tests.

1. `compile_respects`: every compiled script `Respects` its checkers — for `stdSem`, `totalSem`,
   `reflSem`, every checker id, every environment (scripts bind only `oproj`/`rproj`).
2. Boolean tests (definitions: `Build/ScriptWF/Defs.lean`, plain structural recursion) and their
   soundness for `compile env s` for EVERY `env`: `Script.oneCheckerB`, `Script.writeFreeB`,
   `Script.staticRolesB`, `Script.writeExactB`, `Script.stampTotalB`, `Script.noFailB`; for tables
   `rolesOf`, `Table.wfB`, `Table.wfFreeB`, `Table.staticRolesB`, `Table.stampTotalB`,
   `Table.noFailB`.
3. The checker tables: `StampTotal totalSem`, `¬ StampTotal stdSem`; `OReflexive` of all three;
   `Reflexive reflSem`, `¬ Reflexive totalSem`, `¬ Reflexive stdSem`; the resource checker `c` of
   `stdSem`/`totalSem` accepts its own stamps iff `c ∉ 10..29`.
4. Sem agreement (`Build/ScriptWF/Agree*.lean`): a table without failing stampers
   (`stampTotalB`) runs identically under `stdSem` and `totalSem` — every interpreter function, from
   EVERY state; a table without failing stampers and failing checkers (`noFailB`) runs
   identically under `stdSem` and `reflSem` from every state whose store carries only checker ids
   `< 10` on its read/write edges, in particular along every history from the empty `Pie`.
5. The corollaries `C01_scripts`, `C01_scripts_free`, `C01_scripts_free_mixed`,
   `C01_scripts_mixed`, `C02_scripts_idempotent`, `C03_scripts`, `C20_scripts_no_abort`.
6. Non-vacuity: a concrete table (writer + reader, value-dependent require), the tests by `decide`,
   the corollaries instantiated on a concrete history.
-/
import PieModel.Build.ScriptWF.Table
import PieModel.Build.ScriptWF.AgreeHist
import PieModel.Props.C01FullMixed
import PieModel.Props.C01Mixed
import PieModel.Props.C03W
import PieModel.Props.C20

namespace PieModel
open ScriptWF

/-! ### 1. `Respects` -/

/-- **Every compiled script respects its checkers** under the driver's checker table: the
continuation of a `req`/`read` gets to see only `oproj c`/`rproj c` of the answer, and two answers
which checker `c` considers consistent have the same projection.  All checker ids. -/
theorem compile_respects (env : Env) (s : Script) : Respects stdSem (compile env s) :=
  compile_respects_of obsLike_stdSem s env

theorem compile_respects_totalSem (env : Env) (s : Script) : Respects totalSem (compile env s) :=
  compile_respects_of obsLike_totalSem s env

theorem compile_respects_reflSem (env : Env) (s : Script) : Respects reflSem (compile env s) :=
  compile_respects_of obsLike_reflSem s env

/-- ... hence every table. -/
theorem bodyOf_respects (tbl : Table) (t : Nat) :
    Respects stdSem (bodyOf tbl t) ∧ Respects totalSem (bodyOf tbl t) ∧
      Respects reflSem (bodyOf tbl t) :=
  ⟨table_respects obsLike_stdSem tbl t, table_respects obsLike_totalSem tbl t,
    table_respects obsLike_reflSem tbl t⟩

/-! ### 2. the Boolean tests are sound, for every environment -/

theorem Script.oneCheckerB_sound {s : Script} (h : s.oneCheckerB = true) (env : Env) :
    OneChecker (compile env s) := oneCkB_sound s [] [] h env

theorem Script.writeFreeB_sound {s : Script} (h : s.writeFreeB = true) (env : Env) :
    (compile env s).WriteFree := ScriptWF.writeFreeB_sound s h env

theorem Script.staticRolesB_sound {ro : Roles} {t : Nat} {s : Script}
    (h : s.staticRolesB ro t = true) (env : Env) : StaticRoles ro t (compile env s) :=
  ScriptWF.staticRolesB_sound h env

/-- `write`/`wrote` nodes use an exact checker id (any id but 1, 2, 3). -/
theorem Script.writeExactB_sound {s : Script} (h : s.writeExactB = true) (env : Env) :
    WriteExact stdSem (compile env s) ∧ WriteExact totalSem (compile env s) ∧
      WriteExact reflSem (compile env s) :=
  ⟨ScriptWF.writeExactB_sound obsLike_stdSem s h env,
    ScriptWF.writeExactB_sound obsLike_totalSem s h env,
    ScriptWF.writeExactB_sound obsLike_reflSem s h env⟩

/-- The ids failing `exactIdB` are not exact: `WriteExact` fails for `write r c v k`, `c ∈ {1,2,3}`. -/
theorem exactIdB_necessary (c : Nat) (h : exactIdB c = false) :
    ¬ ∀ x x' s, stdSem.rstamp c x = .ok s → stdSem.rcheck c x' s = .ok true → x' = x := by
  intro hx
  have hc : c = 1 ∨ c = 2 ∨ c = 3 := by
    simp only [exactIdB, Bool.and_eq_false_iff, bne_eq_false_iff_eq] at h
    omega
  have := hx (some 0) (some 2) (stdRStampCore c (some 0))
  rcases hc with rfl | rfl | rfl <;> simp [stdSem, stdRStamp, stdRCheck, stdRStampCore] at this

/-- No resource-checker id `≥ 30` at any node of the compiled script. -/
theorem Script.stampTotalB_sound {s : Script} (h : s.stampTotalB = true) (env : Env) :
    ProgCk (fun c => c < 30) (compile env s) := ScriptWF.stampTotalB_sound h env

/-- No resource-checker id in `10..29` at any node of the compiled script. -/
theorem Script.noFailB_sound {s : Script} (h : s.noFailB = true) (env : Env) :
    ProgCk (fun c => c < 10 ∨ 30 ≤ c) (compile env s) := ScriptWF.noFailB_sound h env

theorem Table.staticRolesB_sound {tbl : Table} (h : tbl.staticRolesB = true) :
    WellFormedBody (rolesOf tbl) (bodyOf tbl) := table_staticRoles h

/-- What `Table.wfB` establishes, for a checker table `sem` that is `ObsLike`. -/
theorem Table.wfB_sound_of {sem : Sem} (hsem : ObsLike sem) {tbl : Table} (h : tbl.wfB = true) :
    WellFormedBody (rolesOf tbl) (bodyOf tbl) ∧ (∀ t, OneChecker (bodyOf tbl t)) ∧
      (∀ t, WriteExact sem (bodyOf tbl t)) ∧ (∀ t, Respects sem (bodyOf tbl t)) := by
  obtain ⟨h12, h3⟩ := allB_and h
  obtain ⟨h1, h2⟩ := allB_and h12
  exact ⟨table_staticRoles h1, table_oneChecker h2, table_writeExact hsem h3,
    table_respects hsem tbl⟩

/-- **`Table.wfB` is sound**: the hypotheses of C01 in full (`Props/C01Full.lean`) on the program
table, w.r.t. the roles `rolesOf tbl`. -/
theorem Table.wfB_sound {tbl : Table} (h : tbl.wfB = true) :
    WellFormedBody (rolesOf tbl) (bodyOf tbl) ∧ (∀ t, OneChecker (bodyOf tbl t)) ∧
      (∀ t, WriteExact totalSem (bodyOf tbl t)) ∧ (∀ t, Respects totalSem (bodyOf tbl t)) :=
  Table.wfB_sound_of obsLike_totalSem h

theorem Table.wfB_staticRolesB {tbl : Table} (h : tbl.wfB = true) : tbl.staticRolesB = true :=
  (allB_and (allB_and h).1).1

/-- **`Table.wfFreeB` is sound**: the hypotheses of `C01_sources` (`Props/C01.lean`). -/
theorem Table.wfFreeB_sound {tbl : Table} (h : tbl.wfFreeB = true) :
    WriteFreeBody (bodyOf tbl) ∧ (∀ t, Respects totalSem (bodyOf tbl t)) ∧
      (∀ t, OneChecker (bodyOf tbl t)) :=
  ⟨table_writeFree (allB_and h).1, table_respects obsLike_totalSem tbl,
    table_oneChecker (allB_and h).2⟩

/-- In a table passing `staticRolesB` (a fortiori `wfB`), `(rolesOf tbl).gen r` is the UNIQUE task
whose script contains a `write`/`wrote` of `r`. -/
theorem Table.writer_unique {tbl : Table} (h : tbl.staticRolesB = true) {t r : Nat} {sc : Script}
    (hm : (t, sc) ∈ tbl) (hw : sc.writesB r = true) : (rolesOf tbl).gen r = some t :=
  table_writer_unique h hm hw

/-! ### 3. the checker tables -/

/-- `totalSem` (`Props/C01.lean`) has total stampers; `stdSem` has not (ids `≥ 30`). -/
theorem stdSem_not_stampTotal : ¬ StampTotal stdSem := by
  intro h
  obtain ⟨s, hs⟩ := h 30 (some 0)
  simp [stdSem, stdRStamp] at hs

theorem oReflexive_stdSem : OReflexive stdSem := fun c o => by simp [stdSem, stdOCheck]
theorem oReflexive_totalSem : OReflexive totalSem := fun c o => by simp [totalSem, stdSem, stdOCheck]
theorem oReflexive_reflSem : OReflexive reflSem := reflSem_reflexive.1

/-- Exactly the resource checkers outside `10..29` accept their own stamps, in `stdSem` ... -/
theorem stdSem_rcheck_reflexive_iff (c : Nat) :
    (∀ v s, stdSem.rstamp c v = .ok s → stdSem.rcheck c v s = .ok true) ↔ ¬ (10 ≤ c ∧ c < 30) := by
  constructor
  · intro h hc
    have h2 : stdRCheck c (some ((c : Int) - 10)) (stdRStampCore c (some ((c : Int) - 10))) =
        .ok true :=
      h (some ((c : Int) - 10)) (stdRStampCore c (some ((c : Int) - 10)))
        (by show stdRStamp c _ = _; unfold stdRStamp; rw [if_neg (by omega)])
    unfold stdRCheck at h2
    rw [if_pos ⟨hc.1, hc.2, rfl⟩] at h2
    cases h2
  · intro hc v s hs
    have := stdRStamp_ok hs
    subst this
    show stdRCheck c v _ = _
    unfold stdRCheck
    rw [if_neg (fun h => hc ⟨h.1, h.2.1⟩)]
    simp

/-- ... and in `totalSem`. -/
theorem totalSem_rcheck_reflexive_iff (c : Nat) :
    (∀ v s, totalSem.rstamp c v = .ok s → totalSem.rcheck c v s = .ok true) ↔
      ¬ (10 ≤ c ∧ c < 30) := by
  constructor
  · intro h hc
    have h2 : stdRCheck c (some ((c : Int) - 10)) (stdRStampCore c (some ((c : Int) - 10))) =
        .ok true :=
      h (some ((c : Int) - 10)) (stdRStampCore c (some ((c : Int) - 10))) rfl
    unfold stdRCheck at h2
    rw [if_pos ⟨hc.1, hc.2, rfl⟩] at h2
    cases h2
  · intro hc v s hs
    cases hs
    show stdRCheck c v _ = _
    unfold stdRCheck
    rw [if_neg (fun h => hc ⟨h.1, h.2.1⟩)]
    simp

/-- `Reflexive` fails for `totalSem` (`totalSem_not_reflexive`, `Props/C01FullMixedCex.lean`) and for `stdSem` (checker 10 rejects content 0 with an error);
`reflSem` (`Props/C02.lean`: `stdSem` with total stampers and non-failing checks) is reflexive
(`reflSem_reflexive`) and stamp-total (`reflSem_stampTotal`). -/
example : ¬ Reflexive totalSem := totalSem_not_reflexive

theorem stdSem_not_reflexive : ¬ Reflexive stdSem := fun h =>
  (stdSem_rcheck_reflexive_iff 10).mp (fun v s => h.2 10 v s) (by omega)

/-! ### 4. sem agreement -/

/-- **Sem agreement, `stdSem` / `totalSem`.**  A table that uses no failing stamper runs identically
under the driver's `stdSem` and under `totalSem`: every interpreter function of the top-down and
the bottom-up context, `sessionRequire`, `requireAll`, `cleanBuild`, `bottomUpBuild`, `runStep`,
`runHistory`, `runSteps`, `runStepsW`, `runStepsM`, `runHistoryLog` — from EVERY state, every
fuel (fields of `ScriptWF.RunsAgree`, `Build/ScriptWF/AgreeHist.lean`). -/
theorem scripts_agree_totalSem {tbl : Table} (h : tbl.stampTotalB = true) :
    RunsAgree (fun _ => True) stdSem totalSem (bodyOf tbl) :=
  (runsAgree semAgree_std_total (table_stampTotal h)).mono (fun st _ => EdgesCk.trivial st)
    (fun _ _ => True.intro)

/-- **Sem agreement, `stdSem` / `reflSem`.**  A table that uses neither failing stampers nor failing
checkers runs identically under `stdSem` and under `reflSem` from every state whose store has only
resource-checker ids `< 10` on its edges — an invariant of the runs (`run_history_inv`) that holds
of the empty `Pie`; in particular along every history from the empty `Pie`. -/
theorem scripts_agree_reflSem {tbl : Table} (h1 : tbl.stampTotalB = true) (h2 : tbl.noFailB = true) :
    RunsAgree (EdgesCk (fun c => c < 10)) stdSem reflSem (bodyOf tbl) :=
  runsAgree semAgree_std_refl (table_below10 h1 h2)

/-- The two functions asked for explicitly, as equations of functions. -/
theorem scripts_requireAll_eq {tbl : Table} (h : tbl.stampTotalB = true) :
    requireAll stdSem (bodyOf tbl) = requireAll totalSem (bodyOf tbl) ∧
    bottomUpBuild stdSem (bodyOf tbl) = bottomUpBuild totalSem (bodyOf tbl) ∧
    cleanBuild stdSem (bodyOf tbl) = cleanBuild totalSem (bodyOf tbl) ∧
    runHistory stdSem (bodyOf tbl) = runHistory totalSem (bodyOf tbl) ∧
    (fun f => runSteps stdSem (bodyOf tbl) f {}) = (fun f => runSteps totalSem (bodyOf tbl) f {}) ∧
    (fun f => runStepsW stdSem (bodyOf tbl) f {}) = (fun f => runStepsW totalSem (bodyOf tbl) f {}) := by
  have A := scripts_agree_totalSem h
  refine ⟨?_, ?_, ?_, ?_, ?_, ?_⟩
  · funext f s ts; exact A.require_all f s ts True.intro
  · funext f s ch; exact A.bottomUp_build f s ch True.intro
  · funext f fs roots; exact A.clean_build f fs roots
  · funext f steps; exact A.run_history f steps
  · funext f steps; exact A.run_steps f steps
  · funext f steps; exact A.run_stepsW f steps

/-! ### 5. the theorems about the driver's runs -/

/-- **C01 for scripted tables, under the driver's semantics.**  If the table passes `Table.wfB` and
uses no failing stamper, then for every history of external changes and top-down sessions and every
fuel, every logged session of the driver's run `runStepsW stdSem (bodyOf tbl) fuel {} steps` has the
outputs AND the resource contents of the from-scratch build
`cleanBuild stdSem (bodyOf tbl) fuel' e.before e.roots`, whenever that returns. -/
theorem C01_scripts (tbl : Table) (hwf : tbl.wfB = true) (hst : tbl.stampTotalB = true)
    (fuel fuel' : Nat) (steps : List TStep) (e : SessLog)
    (he : e ∈ (runStepsW stdSem (bodyOf tbl) fuel {} steps).2) (sc : Sess) (os' : List Int)
    (hc : cleanBuild stdSem (bodyOf tbl) fuel' e.before e.roots = (sc, .ok os')) :
    e.outs = os' ∧ ∀ r, aget e.after r = aget sc.fs r := by
  have A := scripts_agree_totalSem hst
  rw [A.run_stepsW] at he
  rw [A.clean_build] at hc
  obtain ⟨h1, h2, h3, h4⟩ := Table.wfB_sound hwf
  exact C01_full_history_equals_clean_build totalSem_stampTotal h1 h4 h2 h3 fuel fuel' steps e he
    sc os' hc

/-- ... and every task such a session executes is demanded by the from-scratch build (C02,
minimality), and the invariants of C01 in full hold of the driver's `Pie` after the history. -/
theorem C01_scripts_minimal (tbl : Table) (hwf : tbl.wfB = true) (hst : tbl.stampTotalB = true)
    (fuel : Nat) (steps : List TStep) :
    PieInvW (rolesOf tbl) totalSem (bodyOf tbl) (runStepsW stdSem (bodyOf tbl) fuel {} steps).1 ∧
    ∀ e ∈ (runStepsW stdSem (bodyOf tbl) fuel {} steps).2, ∀ t, Ev.executeStart t ∈ e.trace →
      Demanded (rolesOf tbl) totalSem (bodyOf tbl) e.before e.roots t := by
  have A := scripts_agree_totalSem hst
  rw [A.run_stepsW]
  obtain ⟨h1, h2, h3, h4⟩ := Table.wfB_sound hwf
  exact ⟨(C01_full_history totalSem_stampTotal h1 h4 h2 h3 fuel steps).1, fun e he t ht =>
    C02_minimal_history totalSem_stampTotal h1 h4 h2 h3 fuel steps e he t ht⟩

/-- **C01 for write-free scripted tables** (`C01_sources`): every output the driver's top-down
history logs for `root` on resources `fs` is the output of the from-scratch build of `root` on `fs`
(whenever that returns), and it is the reference output `Eval`. -/
theorem C01_scripts_free (tbl : Table) (hwf : tbl.wfFreeB = true) (hst : tbl.stampTotalB = true)
    (fuel : Nat) (steps : List TStep) (fs : List (Nat × Int)) (root : Nat) (o : Int)
    (hx : (fs, root, o) ∈ (runSteps stdSem (bodyOf tbl) fuel {} steps).2) :
    Eval totalSem (bodyOf tbl) fs root o ∧
    ∀ fuel' s o', cleanBuild stdSem (bodyOf tbl) fuel' fs [root] = (s, .ok [o']) → o = o' := by
  have A := scripts_agree_totalSem hst
  rw [A.run_steps] at hx
  obtain ⟨h1, h2, h3⟩ := Table.wfFreeB_sound hwf
  refine ⟨C01_sources totalSem_stampTotal h1 h2 h3 fuel steps fs root o hx, fun fuel' s o' hc => ?_⟩
  rw [A.clean_build] at hc
  exact C01_equals_clean_build totalSem_stampTotal h1 h2 h3 fuel fuel' steps fs root o o' s hx hc

/-- **C01 for write-free scripted tables over MIXED histories** (`C01_sources_mixed`; the output
checkers of `totalSem` accept their own stamps): top-down sessions, bottom-up builds with arbitrary
`changed` lists followed by requires, any of them aborted. -/
theorem C01_scripts_free_mixed (tbl : Table) (hwf : tbl.wfFreeB = true)
    (hst : tbl.stampTotalB = true) (fuel : Nat) (steps : List HStep) (fs : List (Nat × Int))
    (root : Nat) (o : Int)
    (hx : (fs, root, o) ∈ (Mixed.runHistoryLog stdSem (bodyOf tbl) fuel steps).2) :
    Eval totalSem (bodyOf tbl) fs root o ∧
    ∀ fuel' s o', cleanBuild stdSem (bodyOf tbl) fuel' fs [root] = (s, .ok [o']) → o = o' := by
  have A := scripts_agree_totalSem hst
  rw [A.run_historyLog] at hx
  obtain ⟨h1, h2, h3⟩ := Table.wfFreeB_sound hwf
  refine ⟨C01_sources_mixed totalSem_stampTotal oReflexive_totalSem h1 h2 h3 fuel steps fs root o hx,
    fun fuel' s o' hc => ?_⟩
  rw [A.clean_build] at hc
  exact C01_mixed_equals_clean_build totalSem_stampTotal oReflexive_totalSem h1 h2 h3 fuel fuel'
    steps fs root o o' s hx hc

/-- **C01 in full for scripted tables over MIXED histories** (`C01_full_mixed_history`, which
needs `Reflexive`: the table must also avoid the failing checkers 10..29).  Every top-down session
logged by the driver's run of a mixed history has the outputs and resource contents of the
from-scratch build. -/
theorem C01_scripts_mixed (tbl : Table) (hwf : tbl.wfB = true) (hst : tbl.stampTotalB = true)
    (hnf : tbl.noFailB = true) (fuel fuel' : Nat) (steps : List HStep) (e : SessLog)
    (he : e ∈ (runStepsM stdSem (bodyOf tbl) fuel {} steps).2) (sc : Sess) (os' : List Int)
    (hc : cleanBuild stdSem (bodyOf tbl) fuel' e.before e.roots = (sc, .ok os')) :
    e.outs = os' ∧ ∀ r, aget e.after r = aget sc.fs r := by
  have A := scripts_agree_reflSem hst hnf
  rw [A.run_stepsM] at he
  rw [A.clean_build] at hc
  obtain ⟨h1, h2, h3, h4⟩ := Table.wfB_sound_of obsLike_reflSem hwf
  exact C01_full_mixed_history_equals_clean_build reflSem_stampTotal reflSem_reflexive h1 h4 h2 h3
    fuel fuel' steps e he sc os' hc

/-- **C02 (nothing changed ⇒ nothing executes) for scripted tables.**  After ANY history of external
changes and top-down sessions of the driver: if a session returns `os` for `roots`, a new session
right after it requiring the same roots, any fuel, returns `os` or runs out of fuel, does not touch
the store, executes nothing, leaves the resources unchanged. -/
theorem C02_scripts_idempotent (tbl : Table) (hwf : tbl.wfB = true) (hst : tbl.stampTotalB = true)
    (hnf : tbl.noFailB = true) (fuel₀ : Nat) (steps : List TStep) (fuel : Nat) (roots : List Nat)
    (s' : Sess) (os : List Int)
    (hr : requireAll stdSem (bodyOf tbl) fuel
      (runStepsW stdSem (bodyOf tbl) fuel₀ {} steps).1.newSession roots = (s', .ok os))
    (fuel₂ : Nat) :
    ((requireAll stdSem (bodyOf tbl) fuel₂ s'.toPie.newSession roots).2 = .ok os ∨
      (requireAll stdSem (bodyOf tbl) fuel₂ s'.toPie.newSession roots).2 = .abort .outOfFuel) ∧
    (requireAll stdSem (bodyOf tbl) fuel₂ s'.toPie.newSession roots).1.store = s'.store ∧
    NoExecEvents (requireAll stdSem (bodyOf tbl) fuel₂ s'.toPie.newSession roots).1.trace ∧
    (requireAll stdSem (bodyOf tbl) fuel₂ s'.toPie.newSession roots).1.fs = s'.fs := by
  have ha := semAgree_std_refl
  have hb := table_below10 hst hnf
  obtain ⟨e0, i0⟩ := runStepsW_same ha hb fuel₀ steps {} EdgesCk.empty
  rw [e0] at hr
  obtain ⟨e1, i1⟩ := requireAll_same ha hb fuel roots
    (runStepsW reflSem (bodyOf tbl) fuel₀ {} steps).1.newSession i0
  rw [e1] at hr
  have i2 : EdgesCk (fun c => c < 10) s'.store := edges_of_eq i1 hr
  rw [(requireAll_same ha hb fuel₂ roots s'.toPie.newSession i2).1]
  obtain ⟨h1, h2, h3, h4⟩ := Table.wfB_sound_of obsLike_reflSem hwf
  exact C02_idempotent_writes_history reflSem_stampTotal h1 h4 h2 h3 reflSem_reflexive fuel₀ steps
    fuel roots s' os hr fuel₂

/-- **C20 for scripted tables.**  `Table.staticRolesB` alone: along every mixed history of the
driver, every fuel, no session or build ends with a cyclic-dependency, hidden-dependency or
overlapping-write abort. -/
theorem C20_scripts_no_abort (tbl : Table) (h : tbl.staticRolesB = true) (fuel : Nat)
    (steps : List HStep) :
    ∀ a ∈ historyAborts stdSem (bodyOf tbl) fuel {} steps,
      a ≠ .cyclic ∧ a ≠ .hidden ∧ a ≠ .overlap :=
  C20_static_no_abort stdSem (Table.staticRolesB_sound h) fuel steps

/-- The start-state hypothesis `Reported` of C03 transfers from `stdSem` to `reflSem` on a store
whose edges carry only checker ids `< 10`. -/
theorem reported_std_refl {st : Store} (hst : EdgesCk (fun c => c < 10) st) {fs : List (Nat × Int)}
    {changed : List Nat} (h : Reported stdSem st fs changed) : Reported reflSem st fs changed := by
  intro n hn dst r c stamp he hne
  refine h n hn dst r c stamp he ?_
  have hc : c < 10 := by
    rcases he with he | he
    · exact hst _ (edata_of_outgoingEdges _ _ he)
    · exact hst _ (edata_of_outgoingEdges _ _ he)
  rw [semAgree_std_refl.rcheck c hc]
  exact hne

/-- **C03 (closure of bottom-up builds) for scripted tables, under the driver's semantics.**
After ANY mixed history of the driver (`p`), under the start-state hypotheses of
`C03_sources_writes` stated for the driver's `stdSem` — `NoOrphan p.store` (no partially executed
task: false after an aborted session), `ShallowReq stdSem p.store` (finding K1),
`Reported stdSem p.store p.fs changed` (every resource whose recorded stamp is not accepted is
reported) — if the driver's bottom-up build returns, then for every task `t` with output `o` in the
store: (a) `o` and all resource contents are those of the from-scratch build of `t` on the current
resources (whenever that returns); (b) requiring `t` top-down, in the same or in a new session, any
fuel, executes nothing, changes nothing, returns `o` or runs out of fuel; (c) with enough fuel it
returns `o`.  (`PieInvW` needs no assumption: it holds after every mixed history.) -/
theorem C03_scripts (tbl : Table) (hwf : tbl.wfB = true) (hst : tbl.stampTotalB = true)
    (hnf : tbl.noFailB = true) (fuel₀ : Nat) (steps : List HStep) (changed : List Nat)
    (hno : NoOrphan (runHistory stdSem (bodyOf tbl) fuel₀ steps).store)
    (hsr : ShallowReq stdSem (runHistory stdSem (bodyOf tbl) fuel₀ steps).store)
    (hrep : Reported stdSem (runHistory stdSem (bodyOf tbl) fuel₀ steps).store
      (runHistory stdSem (bodyOf tbl) fuel₀ steps).fs changed)
    (fuel : Nat) (s' : Sess)
    (hr : bottomUpBuild stdSem (bodyOf tbl) fuel
      (runHistory stdSem (bodyOf tbl) fuel₀ steps).newSession changed = (s', .ok ()))
    (t m : Nat) (o : Int) (ht : s'.store.taskOf m = some t) (ho : s'.store.taskOutput m = some o) :
    (∀ fuel' sc os', cleanBuild stdSem (bodyOf tbl) fuel' s'.fs [t] = (sc, .ok os') →
      os' = [o] ∧ ∀ r, aget s'.fs r = aget sc.fs r) ∧
    (∀ fuel₂ (s : Sess), (s = s' ∨ s = s'.toPie.newSession) → ∀ s₂ r,
      sessionRequire stdSem (bodyOf tbl) fuel₂ s t = (s₂, r) →
      s₂.store = s'.store ∧ s₂.fs = s'.fs ∧
      (∃ evs, s₂.trace = s.trace ++ evs ∧ NoExecEvents evs) ∧
      (r = .ok o ∨ r = .abort .outOfFuel)) ∧
    ∃ N, ∀ fuel₂, N ≤ fuel₂ → ∀ s : Sess, (s = s' ∨ s = s'.toPie.newSession) → ∀ s₂ r,
      sessionRequire stdSem (bodyOf tbl) fuel₂ s t = (s₂, r) → r = .ok o := by
  have ha := semAgree_std_refl
  have hb := table_below10 hst hnf
  have A := scripts_agree_reflSem hst hnf
  obtain ⟨h1, h2, h3, h4⟩ := Table.wfB_sound_of obsLike_reflSem hwf
  rw [A.run_history] at hno hsr hrep hr
  have i0 := A.run_history_inv fuel₀ steps
  have hp : PieInvW (rolesOf tbl) reflSem (bodyOf tbl) (runHistory reflSem (bodyOf tbl) fuel₀ steps) :=
    C01_pieInv_mixed_history reflSem_stampTotal reflSem_reflexive h1 h4 h2 h3 fuel₀ steps
  have hsr' : ShallowReq reflSem (runHistory reflSem (bodyOf tbl) fuel₀ steps).store := hsr
  have hrep' := reported_std_refl i0 hrep
  obtain ⟨e1, i1⟩ := bottomUpBuild_same ha hb fuel
    (runHistory reflSem (bodyOf tbl) fuel₀ steps).newSession changed i0
  rw [e1] at hr
  have i2 : EdgesCk (fun c => c < 10) s'.store := edges_of_eq i1 hr
  obtain ⟨⟨⟨ws, hden⟩, hov⟩, hq, N, hN⟩ := C03_sources_writes reflSem_stampTotal reflSem_reflexive h1 h2
    hp hno hsr' hrep' h4 h3 fuel s' hr t m o ht ho
  have hinv := (C03_chain_writes_setContent reflSem_stampTotal reflSem_reflexive h1 h2
    hp hno hsr' hrep' fuel s' hr).1
  have hs : ∀ s : Sess, (s = s' ∨ s = s'.toPie.newSession) → EdgesCk (fun c => c < 10) s.store := by
    rintro s (rfl | rfl)
    · exact i2
    · exact i2
  refine ⟨fun fuel' sc os' hc => ?_, fun fuel₂ s hh s₂ r heq => ?_, N, fun fuel₂ hf s hh s₂ r heq => ?_⟩
  · rw [A.clean_build] at hc
    obtain ⟨g1, g2⟩ := C01_clean_build_den reflSem_stampTotal h1 h4 h2 h3 fuel' s'.fs hinv.nodup [t]
      sc os' hc
    have := forall₂_den_unique (.cons ⟨ws, hden⟩ .nil) g1
    exact ⟨this.symm, fun r => by rw [hov r, g2 r]⟩
  · rw [A.session_require fuel₂ s t (hs s hh)] at heq
    exact hq fuel₂ s hh s₂ r heq
  · rw [A.session_require fuel₂ s t (hs s hh)] at heq
    exact hN fuel₂ hf s hh s₂ r heq

/-! ### 6. non-vacuity

The program of `Props/C01Full.lean` as a table of scripts: task 4 reads source 1 and WRITES resource
10 (twice the value; removes it if the source is absent); task 2 requires 4, then reads 10; task 3
requires 4 only if source 2 holds 1 (value-dependent require); task 1 requires 2 and 3.  All
checkers are exact (id 0). -/

open DecEqAux

def swfTable : Table :=
  [(1, .req 2 0 (.req 3 0 (.ret (.add (.var 0) (.var 1))))),
   (2, .req 4 0 (.read 10 0 (.ret (.var 1)))),
   (3, .read 2 0 (.ite (.eq (.var 0) (.const 1))
          (.req 4 0 (.ret (.add (.var 1) (.const 100))))
          (.ret (.const 3)))),
   (4, .read 1 0 (.ite (.isNone 0)
          (.write 10 0 none (.ret (.const 0)))
          (.write 10 0 (some (.mul (.var 0) (.const 2))) (.ret (.var 0)))))]

/-- The tests, evaluated by the kernel. -/
theorem swfTable_wfB : swfTable.wfB = true := by decide
theorem swfTable_stampTotalB : swfTable.stampTotalB = true := by decide
theorem swfTable_noFailB : swfTable.noFailB = true := by decide
theorem swfTable_staticRolesB : swfTable.staticRolesB = true := by decide

/-- The derived roles: resource 10 is generated by task 4, resource 1 is a source. -/
example : (rolesOf swfTable).gen 10 = some 4 ∧ (rolesOf swfTable).gen 1 = none := by decide

/-- Build; edit the GENERATED resource 10 from outside; build again; change source 1; build. -/
def swfHistory : List TStep :=
  [.change 1 (some 5), .change 2 (some 1), .session [1], .change 10 (some 99), .session [1],
   .change 1 (some 6), .session [1]]

/-- The driver's log (under `stdSem`): resources before, roots, outputs, resources after. -/
example : (runStepsW stdSem (bodyOf swfTable) 30 {} swfHistory).2.map
      (fun e => (e.before, e.roots, e.outs, e.after)) =
    [([(1, 5), (2, 1)], [1], [115], [(1, 5), (2, 1), (10, 10)]),
     ([(1, 5), (2, 1), (10, 99)], [1], [115], [(1, 5), (2, 1), (10, 10)]),
     ([(1, 6), (2, 1), (10, 10)], [1], [118], [(1, 6), (2, 1), (10, 12)])] := by
  with_unfolding_all decide

/-- `C01_scripts` applied to the whole history, no hypothesis left. -/
example : ∀ e ∈ (runStepsW stdSem (bodyOf swfTable) 30 {} swfHistory).2, ∀ fuel' sc os',
    cleanBuild stdSem (bodyOf swfTable) fuel' e.before e.roots = (sc, .ok os') →
    e.outs = os' ∧ ∀ r, aget e.after r = aget sc.fs r :=
  fun e he fuel' sc os' hc =>
    C01_scripts swfTable swfTable_wfB swfTable_stampTotalB 30 fuel' swfHistory e he sc os' hc

/-- ... and indeed the clean build on the resources of the second session (10 edited from
outside) returns 115 and regenerates `10 ↦ 10`. -/
example : (cleanBuild stdSem (bodyOf swfTable) 30 [(1, 5), (2, 1), (10, 99)] [1]).2.toOption =
      some [115] ∧
    (cleanBuild stdSem (bodyOf swfTable) 30 [(1, 5), (2, 1), (10, 99)] [1]).1.fs =
      [(1, 5), (2, 1), (10, 10)] := by with_unfolding_all decide

/-- A MIXED history: a bottom-up build told the change of source 1 (followed by a require), an
external edit of the generated resource, a bottom-up build told nothing, a top-down session. -/
def swfMixedHistory : List HStep :=
  [.change 1 (some 5), .change 2 (some 1), .session [1], .change 1 (some 6), .bottomUp [1] [2],
   .change 10 (some 99), .bottomUp [] [], .session [1, 3]]

example : (runStepsM stdSem (bodyOf swfTable) 40 {} swfMixedHistory).2.map
      (fun e => (e.before, e.roots, e.outs, e.after)) =
    [([(1, 5), (2, 1)], [1], [115], [(1, 5), (2, 1), (10, 10)]),
     ([(1, 6), (2, 1), (10, 99)], [1, 3], [118, 106], [(1, 6), (2, 1), (10, 12)])] := by
  with_unfolding_all decide

/-- `C01_scripts_mixed` applied. -/
example : ∀ e ∈ (runStepsM stdSem (bodyOf swfTable) 40 {} swfMixedHistory).2, ∀ fuel' sc os',
    cleanBuild stdSem (bodyOf swfTable) fuel' e.before e.roots = (sc, .ok os') →
    e.outs = os' ∧ ∀ r, aget e.after r = aget sc.fs r :=
  fun e he fuel' sc os' hc =>
    C01_scripts_mixed swfTable swfTable_wfB swfTable_stampTotalB swfTable_noFailB 40 fuel'
      swfMixedHistory e he sc os' hc

/-- `C20_scripts_no_abort` applied (here with too little fuel: the only aborts are `outOfFuel`). -/
example : ∀ a ∈ historyAborts stdSem (bodyOf swfTable) 3 {} swfMixedHistory,
    a ≠ .cyclic ∧ a ≠ .hidden ∧ a ≠ .overlap :=
  C20_scripts_no_abort swfTable swfTable_staticRolesB 3 swfMixedHistory

example : historyAborts stdSem (bodyOf swfTable) 3 {} swfMixedHistory =
    [.outOfFuel, .outOfFuel, .outOfFuel] := by with_unfolding_all decide

/-! #### C02 -/

/-- The last session of `swfHistory`, on the driver's `Pie` after the first six steps. -/
def swfRun := requireAll stdSem (bodyOf swfTable) 30
  (runStepsW stdSem (bodyOf swfTable) 30 {} (swfHistory.take 6)).1.newSession [1]

theorem swfRun_ok : requireAll stdSem (bodyOf swfTable) 30
    (runStepsW stdSem (bodyOf swfTable) 30 {} (swfHistory.take 6)).1.newSession [1] =
      (swfRun.1, .ok [118]) := by
  have h : swfRun.2 = .ok [118] := Res.eq_ok_of_toOption (by with_unfolding_all decide)
  rw [← h]; rfl

/-- `C02_scripts_idempotent` applied: requiring task 1 again, any fuel, executes nothing. -/
example (fuel₂ : Nat) :
    ((requireAll stdSem (bodyOf swfTable) fuel₂ swfRun.1.toPie.newSession [1]).2 = .ok [118] ∨
      (requireAll stdSem (bodyOf swfTable) fuel₂ swfRun.1.toPie.newSession [1]).2 =
        .abort .outOfFuel) ∧
    NoExecEvents (requireAll stdSem (bodyOf swfTable) fuel₂ swfRun.1.toPie.newSession [1]).1.trace :=
  have h := C02_scripts_idempotent swfTable swfTable_wfB swfTable_stampTotalB swfTable_noFailB 30
    (swfHistory.take 6) 30 [1] swfRun.1 [118] swfRun_ok fuel₂
  ⟨h.1, h.2.2.1⟩

/-! #### C03 -/

/-- A top-down build, then source 1 — the source of the WRITER — is set to 6. -/
def swfHist0 : List HStep :=
  [.change 1 (some 5), .change 2 (some 1), .session [1], .change 1 (some 6)]

/-- The driver's bottom-up build told that change. -/
def swfBu := bottomUpBuild stdSem (bodyOf swfTable) 40
  (runHistory stdSem (bodyOf swfTable) 30 swfHist0).newSession [1]

theorem swfBu_ok : bottomUpBuild stdSem (bodyOf swfTable) 40
    (runHistory stdSem (bodyOf swfTable) 30 swfHist0).newSession [1] = (swfBu.1, .ok ()) := by
  have h : swfBu.2 = .ok () := Res.eq_ok_of_toOption (by with_unfolding_all decide)
  rw [← h]; rfl

/-- It re-executes the writer 4 first, then 3, 2 and the top 1, and rewrites `10 ↦ 12`. -/
example : execsOf swfBu.1.trace = [4, 3, 2, 1] ∧ swfBu.1.fs = [(1, 6), (2, 1), (10, 12)] := by
  with_unfolding_all decide

/-- `C03_scripts` applied (the three start-state hypotheses by their Boolean versions of
`Build/Closure/Check.lean`): the stored output 118 of task 1 (node 0) is the clean build's, and a new
session requiring it changes nothing. -/
example : (∀ fuel' sc os', cleanBuild stdSem (bodyOf swfTable) fuel' swfBu.1.fs [1] = (sc, .ok os') →
      os' = [118] ∧ ∀ r, aget swfBu.1.fs r = aget sc.fs r) ∧
    ∀ fuel₂ s₂ r, sessionRequire stdSem (bodyOf swfTable) fuel₂ swfBu.1.toPie.newSession 1 = (s₂, r) →
      s₂.store = swfBu.1.store ∧ (r = .ok 118 ∨ r = .abort .outOfFuel) := by
  obtain ⟨h1, h2, _⟩ := C03_scripts swfTable swfTable_wfB swfTable_stampTotalB swfTable_noFailB 30
    swfHist0 [1] (noOrphan_of_B (by with_unfolding_all decide))
    (shallowReq_of_B (by with_unfolding_all decide)) (reported_of_B (by with_unfolding_all decide))
    40 swfBu.1 swfBu_ok 1 0 118 (by with_unfolding_all decide) (by with_unfolding_all decide)
  exact ⟨h1, fun fuel₂ s₂ r heq =>
    ⟨(h2 fuel₂ _ (.inr rfl) s₂ r heq).1, (h2 fuel₂ _ (.inr rfl) s₂ r heq).2.2.2⟩⟩

/-! #### a write-free table, mixed history, a non-exact read checker

Task 0 reads source 0 and requires 1 and 2 (the latter with `AlwaysConsistent`) or only 2,
depending on the value; task 1 reads source 1 through `ParityRes` (id 1). -/

def swfFreeTable : Table :=
  [(0, .read 0 0 (.ite (.eq (.var 0) (.const 1))
          (.req 1 0 (.req 2 4 (.ret (.add (.var 1) (.const 10)))))
          (.req 2 0 (.ret (.add (.var 1) (.const 20)))))),
   (1, .read 1 1 (.ret (.var 0))),
   (2, .ret (.const 7))]

theorem swfFreeTable_wfFreeB : swfFreeTable.wfFreeB = true := by decide
theorem swfFreeTable_stampTotalB : swfFreeTable.stampTotalB = true := by decide

def swfFreeHistory : List HStep :=
  [.change 0 (some 1), .change 1 (some 5), .session [0], .change 1 (some 6), .bottomUp [1] [0],
   .session [0, 1], .change 0 (some 2), .bottomUp [] [1], .session [0]]

example : (Mixed.runHistoryLog stdSem (bodyOf swfFreeTable) 60 swfFreeHistory).2 =
    [([(0, 1), (1, 5)], 0, 11), ([(0, 1), (1, 6)], 0, 10), ([(0, 1), (1, 6)], 1, 0),
     ([(0, 2), (1, 6)], 0, 27)] := by with_unfolding_all decide

/-- `C01_scripts_free_mixed` applied. -/
example : Eval totalSem (bodyOf swfFreeTable) [(0, 1), (1, 6)] 0 10 :=
  (C01_scripts_free_mixed swfFreeTable swfFreeTable_wfFreeB swfFreeTable_stampTotalB 60
    swfFreeHistory _ _ _ (by with_unfolding_all decide)).1

/-! #### the tests are needed -/

/-- A failing stamper (id 30): rejected by `stampTotalB`; `stdSem` and `totalSem` do disagree (the
read fails under `stdSem` and the task returns `errOut 0 = -100`). -/
def swfFailStampTable : Table := [(1, .read 1 30 (.ret (.var 0)))]

example : swfFailStampTable.stampTotalB = false := by decide

example : (cleanBuild stdSem (bodyOf swfFailStampTable) 10 [(1, 0)] [1]).2.toOption = some [-100] ∧
    (cleanBuild totalSem (bodyOf swfFailStampTable) 10 [(1, 0)] [1]).2.toOption = some [0] := by
  with_unfolding_all decide

/-- A failing checker (id 10): accepted by `stampTotalB` (so `C01_scripts` applies), rejected by
`noFailB`; the conclusion of `C02_scripts_idempotent` fails for it: the second session executes
task 1 again under `stdSem` (the check fails with an error), not under `reflSem`. -/
def swfFailCheckTable : Table := [(1, .read 1 10 (.ret (.var 0)))]

example : swfFailCheckTable.stampTotalB = true ∧ swfFailCheckTable.noFailB = false := by decide

example : execsOf (requireAll stdSem (bodyOf swfFailCheckTable) 10
      (requireAll stdSem (bodyOf swfFailCheckTable) 10
        ({ fs := [(1, 0)] } : PieSt).newSession [1]).1.toPie.newSession [1]).1.trace = [1] ∧
    execsOf (requireAll reflSem (bodyOf swfFailCheckTable) 10
      (requireAll reflSem (bodyOf swfFailCheckTable) 10
        ({ fs := [(1, 0)] } : PieSt).newSession [1]).1.toPie.newSession [1]).1.trace = [] := by
  with_unfolding_all decide

/-- A reader of a generated resource that requires the generator only AFTER reading: rejected by
`staticRolesB`; the driver's second session aborts with a hidden dependency. -/
def swfBadTable : Table :=
  [(1, .read 10 0 (.req 2 0 (.ret (.var 0)))),
   (2, .write 10 0 (some (.const 1)) (.ret (.const 0)))]

example : swfBadTable.wfB = false ∧ swfBadTable.staticRolesB = false := by decide

example : historyAborts stdSem (bodyOf swfBadTable) 20 {} [.session [1], .session [1]] = [.hidden] := by
  with_unfolding_all decide

/-- Two checkers for one target: rejected by `oneCheckerB`. -/
def swfTwoCkTable : Table := [(1, .req 2 0 (.req 2 4 (.ret (.var 0))))]

example : swfTwoCkTable.wfFreeB = false := by decide

/-- A write through the existence-only checker (id 2): static roles hold, `wfB` rejects it
(`writeExactB`; see the counterexample at the end of `Props/C01Full.lean`). -/
def swfInexactTable : Table := [(1, .write 10 2 (some (.const 1)) (.ret (.const 0)))]

example : swfInexactTable.wfB = false ∧ swfInexactTable.staticRolesB = true := by decide

end PieModel
