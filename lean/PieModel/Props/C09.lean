import PieModel.Build.Pie
namespace PieModel
theorem C09_placeholder : True := trivial
end PieModel
