/-
Property C09: whether a dependency is consistent is decided only by its own checker applied to
the stamp taken when the dependency was created — for a read, from the very reader handed to the
task, before the task reads; for a write, after the task's write function has finished; for a
require, from the output returned to the requirer.  A dependency whose checker reports
consistency never causes re-execution, and one whose checker reports inconsistency always does
when its owner is validated.

The statements are about the model's definitions as they are; the unfolding work is in
`PieModel/Build/Proofs/{SessionLemmas,TopDownSteps,BottomUpSteps,CurLemmas,TopDownExt}.lean`.
-/
import PieModel.Build.Proofs.CurLemmas
import PieModel.Build.Proofs.TopDownExt
import PieModel.Build.Proofs.BottomUpExt
import PieModel.Build.Proofs.DecEq
import PieModel.Build.StdSem
import PieModel.Build.Script

namespace PieModel
open Sess SessL

variable (sem : Sem) (body : Nat → Prog)

/-! ### creation of a read dependency -/

/-- A successful read in task node `cur`: the value handed to the task *is* the content seen by
the reader, the stamp is the checker's stamp of that same content (taken before the task gets the
value), and exactly the dependency `read r c stamp` is added; the resource state is untouched. -/
theorem C09_read_stamp (s s' : Sess) (r c cur : Nat) (v : Option Int) (st : Store) (dst : Nat)
    (hcur : s.cur = some cur) (hn : s.store.getOrCreateResNode r = (st, dst))
    (h : doRead sem s r c = (s', .ok (.ok v))) :
    v = s.content r ∧
    ∃ stamp, sem.rstamp c (s.content r) = .ok stamp ∧
      s'.trace = s.trace ++ [.readStart r c, .readEnd r c stamp] ∧
      s'.store = (st.addDependency cur dst (.read r c stamp)).1 ∧
      s'.fs = s.fs := by
  rw [doRead_eq sem s r c cur st dst hcur hn] at h
  split at h
  · cases h
  · split at h
    · cases h
    · rename_i stamp hst
      split at h
      · cases h
      · rename_i st' a _ hadd
        cases h
        exact ⟨rfl, stamp, hst, rfl, by rw [hadd], rfl⟩

/-- If stamping fails (and the read is not a hidden dependency), the error goes to the task, only
`read_start` is reported and no dependency is added. -/
theorem C09_read_stamp_error (s : Sess) (r c cur : Nat) (e : Int) (st : Store) (dst : Nat)
    (hcur : s.cur = some cur) (hn : s.store.getOrCreateResNode r = (st, dst))
    (hnh : readHidden st cur dst = false) (hst : sem.rstamp c (s.content r) = .error e) :
    doRead sem s r c =
      ({ s with store := st, trace := s.trace ++ [.readStart r c] }, .ok (.error e)) := by
  rw [doRead_eq sem s r c cur st dst hcur hn]
  simp [hnh, hst]

/-! ### creation of a write dependency -/

/-- A successful `write`: the stamp is the checker's stamp of the content *after* the write
function has run (`s'.content r`), it is what `write_end` reports and what the dependency
`write r c stamp` stores. -/
theorem C09_write_stamp_after_write (s s' : Sess) (r c cur : Nat) (v : Option Int) (st : Store)
    (dst : Nat) (hcur : s.cur = some cur) (hn : s.store.getOrCreateResNode r = (st, dst))
    (h : doWrite sem s r c v = (s', .ok (.ok ()))) :
    s'.fs = (s.setContent r v).fs ∧
    ∃ stamp, sem.rstamp c (s'.content r) = .ok stamp ∧
      s'.trace = s.trace ++ [.writeStart r c, .writeEnd r c stamp] ∧
      s'.trace.getLast? = some (.writeEnd r c stamp) ∧
      s'.store = (st.addDependency cur dst (.write r c stamp)).1 := by
  rw [doWrite_eq sem s r c cur v st dst hcur hn] at h
  simp only at h
  split at h
  · cases h
  · split at h
    · cases h
    · rename_i stamp hst
      split at h
      · cases h
      · rename_i st' a _ hadd
        cases h
        refine ⟨SessL.setContent_fs_with s st _ r v, stamp, ?_, by simp, by simp, by simp [hadd]⟩
        rw [← hst]; rfl

/-- The content after the write is the value written (resource maps have unique keys). -/
theorem C09_write_content (s s' : Sess) (r c : Nat) (v : Option Int) (x : Except Int Unit)
    (hfs : (akeys s.fs).Nodup) (h : doWrite sem s r c v = (s', .ok x)) :
    s'.content r = v := by
  have key : s'.fs = (s.setContent r v).fs := by
    cases hcur : s.cur with
    | none => rw [doWrite_no_cur sem s r c v hcur] at h; cases h; rfl
    | some cur =>
      rcases hp : s.store.getOrCreateResNode r with ⟨st, dst⟩
      rw [doWrite_eq sem s r c cur v st dst hcur hp] at h
      simp only at h
      split at h
      · cases h
      · split at h
        · cases h; exact SessL.setContent_fs_with s st _ r v
        · split at h
          · cases h
          · cases h; exact SessL.setContent_fs_with s st _ r v
  rw [SessL.content_congr _ _ key, SessL.content_setContent s hfs]

/-- Hence, with unique keys: the stamp stored in the write dependency is the stamp of `v`. -/
theorem C09_write_stamp_after_write_corrected (s s' : Sess) (r c cur : Nat) (v : Option Int) (st : Store)
    (dst : Nat) (hcur : s.cur = some cur) (hn : s.store.getOrCreateResNode r = (st, dst))
    (hfs : (akeys s.fs).Nodup) (h : doWrite sem s r c v = (s', .ok (.ok ()))) :
    s'.content r = v ∧
    ∃ stamp, sem.rstamp c v = .ok stamp ∧ s'.trace.getLast? = some (.writeEnd r c stamp) ∧
      s'.store = (st.addDependency cur dst (.write r c stamp)).1 := by
  have hc := C09_write_content sem s s' r c v _ hfs h
  obtain ⟨_, stamp, h₁, _, h₃, h₄⟩ := C09_write_stamp_after_write sem s s' r c cur v st dst hcur hn h
  exact ⟨hc, stamp, hc ▸ h₁, h₃, h₄⟩

/-- `written_to`: same stamp rule; the content was modified before the call. -/
theorem C09_wrote_stamp (s s' : Sess) (r c cur : Nat) (v : Option Int) (st : Store)
    (dst : Nat) (hcur : s.cur = some cur) (hn : s.store.getOrCreateResNode r = (st, dst))
    (h : doWrote sem s r c v = (s', .ok (.ok ()))) :
    s'.fs = (s.setContent r v).fs ∧
    ∃ stamp, sem.rstamp c (s'.content r) = .ok stamp ∧
      s'.trace = s.trace ++ [.writeStart r c, .writeEnd r c stamp] ∧
      s'.trace.getLast? = some (.writeEnd r c stamp) ∧
      s'.store = (st.addDependency cur dst (.write r c stamp)).1 := by
  rw [doWrote_eq sem s r c cur v st dst hcur hn] at h
  simp only at h
  split at h
  · cases h
  · split at h
    · cases h
    · rename_i stamp hst
      split at h
      · cases h
      · rename_i st' a _ hadd
        cases h
        refine ⟨rfl, stamp, ?_, by simp, by simp, by simp [hadd]⟩
        rw [← hst]; rfl

theorem C09_wrote_stamp_corrected (s s' : Sess) (r c cur : Nat) (v : Option Int) (st : Store)
    (dst : Nat) (hcur : s.cur = some cur) (hn : s.store.getOrCreateResNode r = (st, dst))
    (hfs : (akeys s.fs).Nodup) (h : doWrote sem s r c v = (s', .ok (.ok ()))) :
    s'.content r = v ∧
    ∃ stamp, sem.rstamp c v = .ok stamp ∧ s'.trace.getLast? = some (.writeEnd r c stamp) ∧
      s'.store = (st.addDependency cur dst (.write r c stamp)).1 := by
  obtain ⟨h₀, stamp, h₁, _, h₃, h₄⟩ := C09_wrote_stamp sem s s' r c cur v st dst hcur hn h
  have hc : s'.content r = v := by
    rw [SessL.content_congr _ _ h₀, SessL.content_setContent s hfs]
  exact ⟨hc, stamp, hc ▸ h₁, h₃, h₄⟩

/-! ### creation of a require dependency -/

/-- `update_require_dependency` overwrites the reserved edge with exactly the given dependency. -/
theorem C09_setDependency_edge {st st' : Store} {src dst : Nat} {d : Dep}
    (h : st.setDependency src dst d = some st') : st'.g.getEdgeData src dst = some d := by
  unfold Store.setDependency at h
  split at h
  · rename_i d₀ h₀
    cases h
    simp only [Dag.getEdgeData] at h₀
    simp [Dag.getEdgeData, Dag.setEdgeData, aget_amodify, h₀]
  · cases h

/-- A returning top-down `require`: the stamp reported by `require_end` and stored in the edge
`requirer → t` is the checker's stamp of the output returned to the requirer. -/
theorem C09_require_stamp (f : Nat) (s s' : Sess) (t c : Nat) (out : Int)
    (h : tdRequire sem body (f + 1) s t c = (s', .ok out)) :
    s'.trace.getLast? = some (.requireEnd t c (sem.ostamp c out) out) ∧
    ∀ src, s.cur = some src →
      s'.store.g.getEdgeData src (s.store.getOrCreateTaskNode t).2 =
        some (.require t c (sem.ostamp c out)) := by
  simp only [tdRequire] at h
  split at h
  · cases h
  · rename_i s₁ heq
    split at h
    · cases h
    · rename_i s₂ o heq₂
      split at h
      · cases h
      · rename_i s₃ heq₃
        cases h
        have c₁ := cur_of_fst (cur_reserveRequire _ _) heq
        have c₂ := cur_tdMake sem body heq₂
        simp only [emit_cur] at c₁
        unfold updateRequire at heq₃
        simp only [emit_cur, c₂, c₁] at heq₃
        constructor
        · split at heq₃
          · cases heq₃; simp
          · split at heq₃
            · cases heq₃; simp
            · cases heq₃
        · intro src hsrc
          simp only [hsrc] at heq₃
          split at heq₃
          · cases heq₃
            exact C09_setDependency_edge (by assumption)
          · cases heq₃

/-- Same for the bottom-up context. -/
theorem C09_bu_require_stamp (f : Nat) (s s' : Sess) (t c : Nat) (out : Int)
    (h : buRequire sem body (f + 1) s t c = (s', .ok out)) :
    s'.trace.getLast? = some (.requireEnd t c (sem.ostamp c out) out) ∧
    ∀ src, s.cur = some src →
      s'.store.g.getEdgeData src (s.store.getOrCreateTaskNode t).2 =
        some (.require t c (sem.ostamp c out)) := by
  simp only [buRequire] at h
  split at h
  · cases h
  · rename_i s₁ heq
    split at h
    · cases h
    · rename_i s₂ o heq₂
      split at h
      · cases h
      · rename_i s₃ heq₃
        cases h
        have c₁ := cur_of_fst (cur_reserveRequire _ _) heq
        have c₂ := cur_buMake sem body heq₂
        simp only [emit_cur] at c₁
        unfold updateRequire at heq₃
        simp only [emit_cur, c₂, c₁] at heq₃
        constructor
        · split at heq₃
          · cases heq₃; simp
          · split at heq₃
            · cases heq₃; simp
            · cases heq₃
        · intro src hsrc
          simp only [hsrc] at heq₃
          split at heq₃
          · cases heq₃
            simp only [markConsistent_store]
            exact C09_setDependency_edge (by assumption)
          · cases heq₃

/-! ### validation of a dependency (top-down) -/

/-- A read dependency is validated by its own checker `c` on the current content and its own
stored stamp — nothing else enters the verdict. -/
theorem C09_check_uses_own_read (f : Nat) (s : Sess) (r c : Nat) (stamp : Stamp) (ds : List Dep) :
    tdCheckDeps sem body (f + 1) s (.read r c stamp :: ds) =
      match sem.rcheck c (s.content r) stamp with
      | .ok true =>
        tdCheckDeps sem body f
          ((s.emit (.checkResStart r c stamp)).emit (.checkResEnd r c stamp (.ok true))) ds
      | .ok false =>
        ((s.emit (.checkResStart r c stamp)).emit (.checkResEnd r c stamp (.ok false)), .ok false)
      | .error e =>
        ({ (s.emit (.checkResStart r c stamp)).emit (.checkResEnd r c stamp (.error e)) with
            errors := s.errors ++ [e] }, .ok false) :=
  tdCheckDeps_read sem body f s r c stamp ds

theorem C09_check_uses_own_write (f : Nat) (s : Sess) (r c : Nat) (stamp : Stamp) (ds : List Dep) :
    tdCheckDeps sem body (f + 1) s (.write r c stamp :: ds) =
      match sem.rcheck c (s.content r) stamp with
      | .ok true =>
        tdCheckDeps sem body f
          ((s.emit (.checkResStart r c stamp)).emit (.checkResEnd r c stamp (.ok true))) ds
      | .ok false =>
        ((s.emit (.checkResStart r c stamp)).emit (.checkResEnd r c stamp (.ok false)), .ok false)
      | .error e =>
        ({ (s.emit (.checkResStart r c stamp)).emit (.checkResEnd r c stamp (.error e)) with
            errors := s.errors ++ [e] }, .ok false) :=
  tdCheckDeps_write sem body f s r c stamp ds

/-- A require dependency: the required task is made consistent first; the verdict is the
dependency's own output checker on the output just obtained and the stored stamp. -/
theorem C09_check_uses_own_require (f : Nat) (s : Sess) (t c : Nat) (stamp : Stamp) (ds : List Dep) :
    tdCheckDeps sem body (f + 1) s (.require t c stamp :: ds) =
      match tdMake sem body f (s.emit (.checkTaskStart t c stamp)) t with
      | (s₁, .abort a) => (s₁, .abort a)
      | (s₁, .ok out) =>
        if sem.ocheck c out stamp then
          tdCheckDeps sem body f (s₁.emit (.checkTaskEnd t c stamp true)) ds
        else (s₁.emit (.checkTaskEnd t c stamp false), .ok false) := by
  simp only [tdCheckDeps]
  rcases hm : tdMake sem body f (s.emit (.checkTaskStart t c stamp)) t with ⟨s₁, (out | a)⟩
  · simp only
    split <;> simp_all
  · rfl

/-- A reserved edge can only be seen if the store is corrupt. -/
theorem C09_check_reserved (f : Nat) (s : Sess) (ds : List Dep) :
    tdCheckDeps sem body (f + 1) s (.reserved :: ds) = (s, .abort (.bug 11)) := by
  simp only [tdCheckDeps]

theorem C09_check_nil (f : Nat) (s : Sess) : tdCheckDeps sem body (f + 1) s [] = (s, .ok true) := by
  simp only [tdCheckDeps]

/-- `check_task`: a task with a cached output is consistent iff the loop over its dependencies
says so. -/
theorem C09_tdCheck_eq (f : Nat) (s : Sess) (node : Nat) (o : Int)
    (ho : s.store.taskOutput node = some o) :
    tdCheck sem body (f + 1) s node =
      match tdCheckDeps sem body f s (s.store.depsFrom node) with
      | (s', .abort a) => (s', .abort a)
      | (s', .ok false) => (s', .ok none)
      | (s', .ok true) => (s', .ok (s'.store.taskOutput node)) := by
  simp only [tdCheck, ho]
  rfl

theorem C09_tdCheck_no_output (f : Nat) (s : Sess) (node : Nat)
    (ho : s.store.taskOutput node = none) :
    tdCheck sem body (f + 1) s node = (s, .ok none) := by
  simp only [tdCheck, ho]

/-- One inconsistent dependency makes the whole check say "execute". -/
theorem C09_check_false_gives_none (f : Nat) (s s' : Sess) (node : Nat) (o : Int)
    (ho : s.store.taskOutput node = some o)
    (h : tdCheckDeps sem body f s (s.store.depsFrom node) = (s', .ok false)) :
    tdCheck sem body (f + 1) s node = (s', .ok none) := by
  rw [C09_tdCheck_eq sem body f s node o ho, h]

/-! ### consequences for `make_task_consistent` -/

/-- The state in which the body of `t` (node `node`) starts executing after the check left `s₁`. -/
def execStart (s₁ : Sess) (node t : Nat) : Sess :=
  { s₁ with store := s₁.store.resetTask node, cur := some node,
            trace := s₁.trace ++ [.executeStart t] }

/-- The state after the body returned `o` in `s₂`; `prev` is the requirer to go back to. -/
def execFinish (s₂ : Sess) (prev : Option Nat) (node t : Nat) (o : Int) : Sess :=
  ({ s₂ with store := s₂.store.setTaskOutput node o, cur := prev,
             trace := s₂.trace ++ [.executeEnd t o] } : Sess).markConsistent node

/-- If the check says "inconsistent" (`ok none`), `make_task_consistent` resets the task and runs
its body. -/
theorem C09_inconsistent_triggers_execution (f : Nat) (s s₁ : Sess) (t : Nat) (st : Store)
    (node : Nat) (hn : s.store.getOrCreateTaskNode t = (st, node)) (hnc : node ∉ s.consistent)
    (hc : tdCheck sem body f { s with store := st } node = (s₁, .ok none)) :
    tdMake sem body (f + 1) s t =
      match tdRun sem body f (execStart s₁ node t) (body t) with
      | (s₂, .abort a) => (s₂, .abort a)
      | (s₂, .ok o) => (execFinish s₂ s₁.cur node t o, .ok o) := by
  simp only [tdMake, hn, hnc, if_false, hc]
  rfl

/-- … and `execute_start t` is the first event after the check events. -/
theorem C09_inconsistent_trace (f : Nat) (s s₁ : Sess) (t : Nat) (st : Store)
    (node : Nat) (hn : s.store.getOrCreateTaskNode t = (st, node)) (hnc : node ∉ s.consistent)
    (hc : tdCheck sem body f { s with store := st } node = (s₁, .ok none)) :
    ∃ evs, (tdMake sem body (f + 1) s t).1.trace = s₁.trace ++ .executeStart t :: evs := by
  rw [C09_inconsistent_triggers_execution sem body f s s₁ t st node hn hnc hc]
  obtain ⟨evs, hevs⟩ := (ext_tdRun sem body f (execStart s₁ node t) (body t)).trace_prefix
  split
  · rename_i heq
    rw [heq] at hevs
    simp only [execStart] at hevs
    exact ⟨evs, by simp [hevs]⟩
  · rename_i s₂ o heq
    rw [heq] at hevs
    simp only [execStart] at hevs
    exact ⟨evs ++ [.executeEnd t o], by simp [execFinish, hevs]⟩

/-- The whole chain: an inconsistent dependency of a not-yet-validated task with a cached output
makes `make_task_consistent` execute it. -/
theorem C09_inconsistent_dep_executes (f : Nat) (s s₁ : Sess) (t : Nat) (st : Store)
    (node : Nat) (o : Int) (hn : s.store.getOrCreateTaskNode t = (st, node))
    (hnc : node ∉ s.consistent) (ho : st.taskOutput node = some o)
    (hd : tdCheckDeps sem body f { s with store := st } (st.depsFrom node) = (s₁, .ok false)) :
    ∃ evs, (tdMake sem body (f + 2) s t).1.trace = s₁.trace ++ .executeStart t :: evs :=
  C09_inconsistent_trace sem body (f + 1) s s₁ t st node hn hnc
    (C09_check_false_gives_none sem body f { s with store := st } s₁ node o ho hd)

/-- If the check says "consistent", the cached output is returned and the body is not run. -/
theorem C09_consistent_never_triggers (f : Nat) (s s₁ : Sess) (t : Nat) (st : Store)
    (node : Nat) (o : Int) (hn : s.store.getOrCreateTaskNode t = (st, node))
    (hnc : node ∉ s.consistent)
    (hc : tdCheck sem body f { s with store := st } node = (s₁, .ok (some o))) :
    tdMake sem body (f + 1) s t = (s₁.markConsistent node, .ok o) := by
  simp only [tdMake, hn, hnc, if_false, hc]

/-- In general: if the loop over the dependencies of a not-yet-validated task with a cached
output reports "consistent" (all checkers said so and all nested `make_task_consistent` calls
returned), the output stored for the task is returned and nothing happens after the checks — no
reset, no `execute_start`: the trace is the trace of the checks. -/
theorem C09_consistent_deps_reuse (f : Nat) (s s' : Sess) (t : Nat) (st : Store) (node : Nat)
    (o o' : Int) (hn : s.store.getOrCreateTaskNode t = (st, node)) (hnc : node ∉ s.consistent)
    (ho : st.taskOutput node = some o)
    (hd : tdCheckDeps sem body f { s with store := st } (st.depsFrom node) = (s', .ok true))
    (ho' : s'.store.taskOutput node = some o') :
    tdMake sem body (f + 2) s t = (s'.markConsistent node, .ok o') ∧
    (tdMake sem body (f + 2) s t).1.trace = s'.trace ∧
    (tdMake sem body (f + 2) s t).1.store = s'.store := by
  have hc : tdCheck sem body (f + 1) { s with store := st } node = (s', .ok (some o')) := by
    rw [C09_tdCheck_eq sem body f _ node o ho]
    simp only [hd, ho']
  rw [C09_consistent_never_triggers sem body (f + 1) s s' t st node o' hn hnc hc]
  simp

/-- A task already validated in this session is not even checked. -/
theorem C09_already_consistent (f : Nat) (s : Sess) (t : Nat) (st : Store)
    (node : Nat) (o : Int) (hn : s.store.getOrCreateTaskNode t = (st, node))
    (hc : node ∈ s.consistent) (ho : st.taskOutput node = some o) :
    tdMake sem body (f + 1) s t = ({ s with store := st }, .ok o) := by
  simp only [tdMake, hn, hc, if_true, ho]

/-! ### a task all of whose dependencies are consistent resource dependencies -/

/-- `d` is a resource dependency whose own checker reports "consistent" on the content in `s`. -/
def resConsistent (s : Sess) : Dep → Prop
  | .read r c stamp => sem.rcheck c (s.content r) stamp = .ok true
  | .write r c stamp => sem.rcheck c (s.content r) stamp = .ok true
  | _ => False

/-- The tracker events of checking such a list. -/
def checkEvents : List Dep → List Ev
  | [] => []
  | .read r c stamp :: ds =>
    .checkResStart r c stamp :: .checkResEnd r c stamp (.ok true) :: checkEvents ds
  | .write r c stamp :: ds =>
    .checkResStart r c stamp :: .checkResEnd r c stamp (.ok true) :: checkEvents ds
  | _ :: ds => checkEvents ds

theorem C09_checkEvents_no_execute (ds : List Dep) (t : Nat) : .executeStart t ∉ checkEvents ds := by
  induction ds with
  | nil => simp [checkEvents]
  | cons d ds ih => cases d <;> simp [checkEvents, ih]

theorem C09_resConsistent_congr (s s₂ : Sess) (h : s₂.fs = s.fs) (d : Dep) :
    resConsistent sem s₂ d ↔ resConsistent sem s d := by
  cases d <;> simp [resConsistent, SessL.content_congr _ _ h]

/-- All dependencies consistent resource dependencies ⇒ the loop says "consistent", touches
nothing but the trace, and reports nothing but the checks. -/
theorem C09_checkDeps_all_consistent (ds : List Dep) (f : Nat) (s : Sess) (hf : ds.length < f)
    (hall : ∀ d ∈ ds, resConsistent sem s d) :
    tdCheckDeps sem body f s ds = ({ s with trace := s.trace ++ checkEvents ds }, .ok true) := by
  induction ds generalizing f s with
  | nil =>
    obtain ⟨f, rfl⟩ : ∃ f', f = f' + 1 := ⟨f - 1, by simp at hf; omega⟩
    simp [C09_check_nil, checkEvents]
  | cons d ds ih =>
    obtain ⟨f, rfl⟩ : ∃ f', f = f' + 1 := ⟨f - 1, by simp at hf; omega⟩
    have hd := hall d (by simp)
    have hds : ∀ (s₂ : Sess), s₂.fs = s.fs → ∀ d ∈ ds, resConsistent sem s₂ d := fun s₂ h₂ d' hd' =>
      (C09_resConsistent_congr sem s s₂ h₂ d').mpr (hall d' (by simp [hd']))
    have hf' : ds.length < f := by simp at hf; omega
    cases d with
    | reserved => exact absurd hd (by simp [resConsistent])
    | require t c stamp => exact absurd hd (by simp [resConsistent])
    | read r c stamp =>
      simp only [resConsistent] at hd
      rw [C09_check_uses_own_read, hd]
      simp only
      rw [ih f ((s.emit (.checkResStart r c stamp)).emit (.checkResEnd r c stamp (.ok true))) hf'
        (hds _ rfl)]
      simp [checkEvents]
    | write r c stamp =>
      simp only [resConsistent] at hd
      rw [C09_check_uses_own_write, hd]
      simp only
      rw [ih f ((s.emit (.checkResStart r c stamp)).emit (.checkResEnd r c stamp (.ok true))) hf'
        (hds _ rfl)]
      simp [checkEvents]

/-- Consistent dependencies never trigger re-execution: `make_task_consistent` returns the cached
output; store, resources, errors are as before (up to creation of the node), and the new events
are the checks only — in particular no `execute_start`. -/
theorem C09_consistent_resources_reuse (f : Nat) (s : Sess) (t : Nat) (st : Store) (node : Nat)
    (o : Int) (hn : s.store.getOrCreateTaskNode t = (st, node)) (hnc : node ∉ s.consistent)
    (ho : st.taskOutput node = some o) (hf : (st.depsFrom node).length < f)
    (hall : ∀ d ∈ st.depsFrom node, resConsistent sem s d) :
    tdMake sem body (f + 2) s t =
      (({ s with store := st, trace := s.trace ++ checkEvents (st.depsFrom node) } : Sess).markConsistent
        node, .ok o) ∧
    ∀ t', .executeStart t' ∉ checkEvents (st.depsFrom node) := by
  refine ⟨?_, fun t' => C09_checkEvents_no_execute _ t'⟩
  have hd := C09_checkDeps_all_consistent sem body (st.depsFrom node) f { s with store := st } hf
    (fun d hd => (C09_resConsistent_congr sem s _ rfl d).mpr (hall d hd))
  have hc : tdCheck sem body (f + 1) { s with store := st } node =
      ({ s with store := st, trace := s.trace ++ checkEvents (st.depsFrom node) }, .ok (some o)) := by
    rw [C09_tdCheck_eq sem body f _ node o ho]
    simp only [hd, ho]
  exact C09_consistent_never_triggers sem body (f + 1) s _ t st node o hn hnc hc

/-- For an existing task node, node lookup changes nothing. -/
theorem C09_existing_node (st : Store) (t node : Nat) (h : aget st.taskNode t = some node) :
    st.getOrCreateTaskNode t = (st, node) := by
  simp [Store.getOrCreateTaskNode, h]

/-! ### bottom-up scheduling -/

theorem C09_mem_queueAdd (q : List Nat) (n x : Nat) : x ∈ queueAdd q n ↔ x ∈ q ∨ x = n := by
  unfold queueAdd
  split
  · constructor
    · exact Or.inl
    · rintro (h | rfl) <;> assumption
  · simp

/-- `try_schedule_task_by_resource_dependency`, read dependency of task `t` (node `tnode`): the
verdict is the dependency's own checker on the current content and the stored stamp; the task is
scheduled unless that verdict is "consistent". -/
theorem C09_trySchedule_spec (s : Sess) (tnode t r c : Nat) (stamp : Stamp)
    (ht : s.store.taskOf tnode = some t) :
    trySchedule sem s tnode (.read r c stamp) =
      match sem.rcheck c (s.content r) stamp with
      | .ok true => (s.emit (.checkReadStart t c stamp)).emit (.checkReadEnd t c stamp (.ok true))
      | .ok false =>
        { (((s.emit (.checkReadStart t c stamp)).emit (.checkReadEnd t c stamp (.ok false))).emit
            (.scheduleTask t)) with queue := queueAdd s.queue tnode }
      | .error e =>
        { (((s.emit (.checkReadStart t c stamp)).emit (.checkReadEnd t c stamp (.error e))).emit
            (.scheduleTask t)) with errors := s.errors ++ [e], queue := queueAdd s.queue tnode } := by
  rw [trySchedule_read sem s tnode t r c stamp ht]
  rcases sem.rcheck c (s.content r) stamp with e | (_ | _) <;> rfl

theorem C09_trySchedule_write_spec (s : Sess) (tnode t r c : Nat) (stamp : Stamp)
    (ht : s.store.taskOf tnode = some t) :
    trySchedule sem s tnode (.write r c stamp) =
      match sem.rcheck c (s.content r) stamp with
      | .ok true => (s.emit (.checkReadStart t c stamp)).emit (.checkReadEnd t c stamp (.ok true))
      | .ok false =>
        { (((s.emit (.checkReadStart t c stamp)).emit (.checkReadEnd t c stamp (.ok false))).emit
            (.scheduleTask t)) with queue := queueAdd s.queue tnode }
      | .error e =>
        { (((s.emit (.checkReadStart t c stamp)).emit (.checkReadEnd t c stamp (.error e))).emit
            (.scheduleTask t)) with errors := s.errors ++ [e], queue := queueAdd s.queue tnode } := by
  rw [trySchedule_write sem s tnode t r c stamp ht]
  rcases sem.rcheck c (s.content r) stamp with e | (_ | _) <;> rfl

/-- Anything else is ignored. -/
theorem C09_trySchedule_other (s : Sess) (tnode : Nat) (d : Dep)
    (h : s.store.taskOf tnode = none ∨ d = .reserved ∨ ∃ t c stamp, d = .require t c stamp) :
    trySchedule sem s tnode d = s :=
  trySchedule_other sem s tnode d h

/-- The queue after the step: scheduled iff the checker did not say "consistent". -/
theorem C09_trySchedule_queue (s : Sess) (tnode t r c : Nat) (stamp : Stamp)
    (ht : s.store.taskOf tnode = some t) :
    (trySchedule sem s tnode (.read r c stamp)).queue =
      if sem.rcheck c (s.content r) stamp = .ok true then s.queue else queueAdd s.queue tnode := by
  rw [C09_trySchedule_spec sem s tnode t r c stamp ht]
  split <;> simp_all

/-- `scheduleAfterExec` is: a fold of `writtenSchedStep` over the written resources, then a fold
of `reqSchedStep out` over the require dependencies to the executed task. -/
theorem C09_scheduleAfterExec_eq (s : Sess) (node t : Nat) (out : Int) :
    scheduleAfterExec sem s node t out =
      let s₁ := (s.store.resourcesWrittenBy node).foldl (writtenSchedStep sem) s
      let s₂ := s₁.emit (.schedTaskStart t)
      let s₃ := (s₂.store.requireDepsTo node).foldl (reqSchedStep sem out) s₂
      (s₃.emit (.schedTaskEnd t)).markConsistent node :=
  scheduleAfterExec_eq sem s node t out

/-- The fold step for a requirer (node `n`, task `requiring`) holding `require _ c stamp`:
checked by its own output checker against the new output `out` and its stored stamp. -/
theorem C09_scheduleAfterExec_step (out : Int) (s : Sess) (n t' c requiring : Nat) (stamp : Stamp)
    (ht : s.store.taskOf n = some requiring) :
    reqSchedStep sem out s (n, .require t' c stamp) =
      if sem.ocheck c out stamp then
        (s.emit (.checkReqStart requiring c stamp)).emit (.checkReqEnd requiring c stamp true)
      else
        { (((s.emit (.checkReqStart requiring c stamp)).emit
              (.checkReqEnd requiring c stamp false)).emit (.scheduleTask requiring)) with
          queue := queueAdd s.queue n } := by
  rw [reqSchedStep_require sem out s n t' c requiring stamp ht]
  simp only
  split <;> simp_all [scheduleEv]

/-- The requirer is scheduled exactly when its checker reports inconsistency. -/
theorem C09_scheduleAfterExec_schedules_iff (out : Int) (s : Sess) (n t' c requiring : Nat)
    (stamp : Stamp) (ht : s.store.taskOf n = some requiring) (hq : n ∉ s.queue) :
    n ∈ (reqSchedStep sem out s (n, .require t' c stamp)).queue ↔ sem.ocheck c out stamp = false := by
  rw [reqSchedStep_queue sem out s n t' c requiring stamp ht]
  split
  · simp_all
  · simp_all [C09_mem_queueAdd]

/-! ### non-vacuity: a two-task program under the standard checkers -/

open DecEqAux

/-- Task 0 reads resource 7 (`MapEquals`) and returns content + 1; task 1 requires task 0
(`Equals`), writes the output to resource 8 and returns it. -/
def c09Tbl : List (Nat × Script) :=
  [(0, .read 7 0 (.ret (.add (.var 0) (.const 1)))),
   (1, .req 0 0 (.write 8 0 (some (.var 0)) (.ret (.var 0))))]

def c09Run1 := sessionRequire stdSem (bodyOf c09Tbl) 100 (PieSt.newSession { fs := [(7, 5)] }) 1
def c09Pie1 : PieSt := c09Run1.1.toPie
/-- second session, nothing changed -/
def c09Run2 := sessionRequire stdSem (bodyOf c09Tbl) 100 c09Pie1.newSession 1
/-- second session after resource 7 changed to 9 -/
def c09Run3 := sessionRequire stdSem (bodyOf c09Tbl) 100 (c09Pie1.setContent 7 (some 9)).newSession 1
/-- the same change, bottom-up -/
def c09Run4 := bottomUpBuild stdSem (bodyOf c09Tbl) 100 (c09Pie1.setContent 7 (some 9)).newSession [7]

/-- Stamps at creation: read stamp = stamp of the content seen (5), require stamp = stamp of the
output returned (6), write stamp = stamp of the content after the write (6). -/
example : c09Run1.2 = .ok 6 ∧ c09Run1.1.trace =
    [.buildStart, .requireStart 1 4, .executeStart 1, .requireStart 0 0, .executeStart 0,
     .readStart 7 0, .readEnd 7 0 (.optInt (some 5)), .executeEnd 0 6,
     .requireEnd 0 0 (.int 6) 6, .writeStart 8 0, .writeEnd 8 0 (.optInt (some 6)),
     .executeEnd 1 6, .requireEnd 1 4 .unit 6, .buildEnd] := by decide +kernel

/-- All checkers consistent: nothing is executed, the cached output is returned. -/
example : c09Run2.2 = .ok 6 ∧ c09Run2.1.trace =
    [.buildStart, .requireStart 1 4, .checkTaskStart 0 0 (.int 6),
     .checkResStart 7 0 (.optInt (some 5)), .checkResEnd 7 0 (.optInt (some 5)) (.ok true),
     .checkTaskEnd 0 0 (.int 6) true,
     .checkResStart 8 0 (.optInt (some 6)), .checkResEnd 8 0 (.optInt (some 6)) (.ok true),
     .requireEnd 1 4 .unit 6, .buildEnd] := by decide +kernel

/-- The read dependency's checker reports inconsistency: task 0 is executed right after its check;
its new output makes the require dependency of task 1 inconsistent, so task 1 is executed too. -/
example : c09Run3.2 = .ok 10 ∧ c09Run3.1.trace =
    [.buildStart, .requireStart 1 4, .checkTaskStart 0 0 (.int 6),
     .checkResStart 7 0 (.optInt (some 5)), .checkResEnd 7 0 (.optInt (some 5)) (.ok false),
     .executeStart 0, .readStart 7 0, .readEnd 7 0 (.optInt (some 9)), .executeEnd 0 10,
     .checkTaskEnd 0 0 (.int 6) false,
     .executeStart 1, .requireStart 0 0, .requireEnd 0 0 (.int 10) 10,
     .writeStart 8 0, .writeEnd 8 0 (.optInt (some 10)), .executeEnd 1 10,
     .requireEnd 1 4 .unit 10, .buildEnd] := by decide +kernel

/-- Bottom-up: the reader is scheduled by its own checker's verdict, its requirer by the verdict of
the require dependency's checker on the new output. -/
example : c09Run4.1.trace.take 5 =
    [.schedResStart 7, .checkReadStart 0 0 (.optInt (some 5)),
     .checkReadEnd 0 0 (.optInt (some 5)) (.ok false), .scheduleTask 0, .schedResEnd 7] ∧
    (Ev.checkReqEnd 1 0 (.int 6) false) ∈ c09Run4.1.trace ∧ Ev.scheduleTask 1 ∈ c09Run4.1.trace ∧
    c09Run4.1.fs = [(7, 9), (8, 10)] := by decide +kernel

/-- Key uniqueness of the resource map is an invariant of sessions: it holds for every state
reached from a `Pie` whose map has unique keys by `require`s and bottom-up builds (returning or
aborting), so the hypothesis of the `_corrected` statements is always available there. -/
theorem C09_fs_keys_unique (p : PieSt) (hp : (akeys p.fs).Nodup) (ops : List SessOp) :
    (akeys (ops.foldl (SessOp.run sem body) p.newSession).fs).Nodup :=
  (ext_ops sem body p.newSession ops).fsKeys hp

/-- External changes through `Pie::resource_state_mut` keep the keys unique, too. -/
theorem C09_pie_setContent_keys_unique (p : PieSt) (hp : (akeys p.fs).Nodup) (r : Nat) (v : Option Int) :
    (akeys (p.setContent r v).fs).Nodup := by
  cases v with
  | some x => exact akeys_aset_nodup p.fs r x hp
  | none => exact akeys_aerase_nodup p.fs r hp

/-- Without unique keys `remove` does not make the resource absent (so the hypothesis of
`C09_write_content` is needed; every `fs` reachable from a duplicate-free one is duplicate-free,
`SessL.setContent_nodup`). -/
example : (({ fs := [(0, 1), (0, 2)] } : Sess).setContent 0 none).content 0 = some 2 := by decide

end PieModel
