import PieModel.Build.Pie
namespace PieModel
theorem C14_placeholder : True := trivial
end PieModel
