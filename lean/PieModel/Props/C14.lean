/-
C14 — the in-memory map resource on top of the type-indexed state collection: read-your-writes,
no aliasing between key types / resource types, `get_or_set_default`, `get`/`set`, the equality
checker, and a refinement of arbitrary operation sequences to a plain `Nat → Option Int` map.

One statement of the property needs a well-formedness hypothesis in the model: a stored
`HashMap` is modelled as an association list, and removing a key (`write … none`) from a list
with a *duplicated* key would leave the second binding visible.  A `HashMap` has no duplicate
keys; the hypothesis `MapRes.WF` says exactly that, it holds for the empty state and is preserved
by every operation (`C14_wf_*`).  See `C14_read_write_corrected` and the counterexample below it.
-/
import PieModel.Lib.MapResLemmas

namespace PieModel

open MapRes

/-! ### read your writes -/

/-- Insertion: unconditional. -/
theorem C14_read_write_some (m : TMap) (k key : Nat) (x : Int) :
    (read (write m k key (some x)) k key).2 = some x := by
  rw [read_snd, slotMap_write_self, aget_writeMap_some]; simp

/-- Insertion or removal, in a state whose stored maps have no duplicate keys. -/
theorem C14_read_write_corrected (m : TMap) (h : WF m) (k key : Nat) (v : Option Int) :
    (read (write m k key v) k key).2 = v := by
  rw [read_snd, slotMap_write_self, aget_writeMap _ (h.slot k)]; simp

/-- The statement without `WF` is false for removal in the model: with a duplicated key in the
association list, the second binding shows after the first is removed. (Not a state the Rust
code can reach: the stored value is a `HashMap`.) -/
example : (read (write [(0, .map 0 [(1, 5), (1, 6)])] 0 1 none) 0 1).2 = some 6 := by decide

/-- Other keys of the same key type are unaffected (unconditional). -/
theorem C14_read_write_other (m : TMap) (k key key' : Nat) (v : Option Int) (hne : key' ≠ key) :
    (read (write m k key v) k key').2 = (read m k key').2 := by
  rw [read_snd, read_snd, slotMap_write_self, aget_writeMap_ne _ (Ne.symm hne)]

/-- The last write to a key wins. -/
theorem C14_read_write_write (m : TMap) (h : WF m) (k key : Nat) (v1 v2 : Option Int) :
    (read (write (write m k key v1) k key v2) k key).2 = v2 :=
  C14_read_write_corrected _ (h.write k key v1) k key v2

/-! ### well-formedness is an invariant -/

theorem C14_wf_empty : WF [] := WF.nil
theorem C14_wf_write {m : TMap} (h : WF m) (k key : Nat) (v : Option Int) : WF (write m k key v) :=
  h.write k key v
theorem C14_wf_read {m : TMap} (h : WF m) (k key : Nat) : WF (read m k key).1 := h.read k key
theorem C14_wf_set {m : TMap} (h : WF m) (r : Nat) (d : Dyn) (hd : d.WF) : WF (set m r d) :=
  h.set r d hd
theorem C14_wf_getOrSetDefault {m : TMap} (h : WF m) (r sty : Nat) :
    WF (getOrSetDefault m r sty).1 := h.getOrSetDefault r sty

/-! ### isolation between key types / resource types -/

/-- Everything observable about resource type `r` is determined by its own slot. -/
theorem C14_observations_of_slot {m1 m2 : TMap} {r : Nat} (h : aget m1 r = aget m2 r) :
    getBoxed m1 r = getBoxed m2 r ∧
    (∀ sty, get m1 r sty = get m2 r sty) ∧
    (∀ sty, (getOrSetDefault m1 r sty).2 = (getOrSetDefault m2 r sty).2) ∧
    (∀ key, (read m1 r key).2 = (read m2 r key).2) ∧
    (∀ key s, (check m1 r key s).2 = (check m2 r key s).2) := by
  have hread : ∀ key, (read m1 r key).2 = (read m2 r key).2 := by
    intro key; rw [read_snd, read_snd, slotMap_congr h]
  refine ⟨h, get_congr h, ?_, hread, ?_⟩
  · intro sty
    simp only [getOrSetDefault, h]
    cases aget m2 r with
    | none => rfl
    | some d => by_cases hd : d.ty = sty <;> simp [hd]
  · intro key s
    show decide ((read m1 r key).2 = s) = decide ((read m2 r key).2 = s)
    rw [hread]

theorem C14_write_isolated (m : TMap) (k k' key : Nat) (v : Option Int) (hne : k ≠ k') :
    getBoxed (write m k key v) k' = getBoxed m k' ∧
    (∀ sty, get (write m k key v) k' sty = get m k' sty) ∧
    (∀ key', (read (write m k key v) k' key').2 = (read m k' key').2) := by
  have h : aget (write m k key v) k' = aget m k' := by rw [aget_write]; simp [hne]
  have := C14_observations_of_slot h
  exact ⟨this.1, this.2.1, this.2.2.2.1⟩

theorem C14_set_isolated (m : TMap) (r r' : Nat) (d : Dyn) (hne : r ≠ r') :
    getBoxed (set m r d) r' = getBoxed m r' ∧
    (∀ sty, get (set m r d) r' sty = get m r' sty) ∧
    (∀ key', (read (set m r d) r' key').2 = (read m r' key').2) := by
  have h : aget (set m r d) r' = aget m r' := by rw [aget_set]; simp [hne]
  have := C14_observations_of_slot h
  exact ⟨this.1, this.2.1, this.2.2.2.1⟩

theorem C14_getOrSetDefault_isolated (m : TMap) (r r' sty : Nat) (hne : r ≠ r') :
    getBoxed (getOrSetDefault m r sty).1 r' = getBoxed m r' ∧
    (∀ sty', get (getOrSetDefault m r sty).1 r' sty' = get m r' sty') ∧
    (∀ key', (read (getOrSetDefault m r sty).1 r' key').2 = (read m r' key').2) := by
  have h : aget (getOrSetDefault m r sty).1 r' = aget m r' := by
    rw [aget_getOrSetDefault]; simp [hne]
  have := C14_observations_of_slot h
  exact ⟨this.1, this.2.1, this.2.2.2.1⟩

theorem C14_read_isolated (m : TMap) (k k' key : Nat) (hne : k ≠ k') :
    getBoxed (read m k key).1 k' = getBoxed m k' ∧
    (∀ sty, get (read m k key).1 k' sty = get m k' sty) ∧
    (∀ key', (read (read m k key).1 k' key').2 = (read m k' key').2) := by
  have h : aget (read m k key).1 k' = aget m k' := by rw [aget_read]; simp [hne]
  have := C14_observations_of_slot h
  exact ⟨this.1, this.2.1, this.2.2.2.1⟩

/-- Keys of different key types never alias, even if the key values coincide. -/
theorem C14_no_alias (m : TMap) (k k' key : Nat) (v : Option Int) (hne : k ≠ k') :
    (read (write m k key v) k' key).2 = (read m k' key).2 :=
  (C14_write_isolated m k k' key v hne).2.2 key

/-! ### `get_or_set_default`, `get`, `set` -/

/-- Keeps a stored value of the requested type. -/
theorem C14_getOrSetDefault_keep (m : TMap) (r sty : Nat) (d : Dyn) (h : get m r sty = some d) :
    getOrSetDefault m r sty = (m, d) := getOrSetDefault_of_get_some h

/-- Otherwise (absent, or of another type) returns the default and replaces exactly that slot. -/
theorem C14_getOrSetDefault_default (m : TMap) (r sty : Nat) (h : get m r sty = none) :
    (getOrSetDefault m r sty).2 = Dyn.default sty ∧
    (getOrSetDefault m r sty).1 = set m r (Dyn.default sty) ∧
    getBoxed (getOrSetDefault m r sty).1 r = some (Dyn.default sty) ∧
    ∀ r', r' ≠ r → getBoxed (getOrSetDefault m r sty).1 r' = getBoxed m r' := by
  rw [getOrSetDefault_of_get_none h]
  refine ⟨rfl, rfl, ?_, ?_⟩
  · show aget (aset m r _) r = _
    rw [aget_aset]; simp
  · intro r' hne
    show aget (aset m r _) r' = aget m r'
    rw [aget_aset]; simp [Ne.symm hne]

theorem C14_get_getOrSetDefault (m : TMap) (r sty : Nat) :
    get (getOrSetDefault m r sty).1 r sty = some (getOrSetDefault m r sty).2 := by
  rw [get_eq_some_iff, aget_getOrSetDefault]
  exact ⟨by simp, getOrSetDefault_snd_ty m r sty⟩

theorem C14_getOrSetDefault_ty (m : TMap) (r sty : Nat) : (getOrSetDefault m r sty).2.ty = sty :=
  getOrSetDefault_snd_ty m r sty

theorem C14_getOrSetDefault_idem (m : TMap) (r sty : Nat) :
    getOrSetDefault (getOrSetDefault m r sty).1 r sty = getOrSetDefault m r sty :=
  getOrSetDefault_of_get_some (C14_get_getOrSetDefault m r sty)

theorem C14_get_set (m : TMap) (r : Nat) (d : Dyn) : get (set m r d) r d.ty = some d := by
  rw [get_eq_some_iff, aget_set]; simp

theorem C14_get_set_other_type (m : TMap) (r : Nat) (d : Dyn) (sty : Nat) (h : sty ≠ d.ty) :
    get (set m r d) r sty = none := by
  rw [get_eq_none_iff, aget_set]
  intro d' hd'
  simp at hd'; subst hd'
  exact Ne.symm h

theorem C14_getBoxed_set (m : TMap) (r : Nat) (d : Dyn) : getBoxed (set m r d) r = some d := by
  show aget (set m r d) r = some d
  rw [aget_set]; simp

theorem C14_get_eq_getBoxed (m : TMap) (r sty : Nat) :
    get m r sty = (getBoxed m r).filter (fun d => d.ty = sty) := by
  unfold MapRes.get getBoxed
  cases aget m r with
  | none => rfl
  | some d => by_cases h : d.ty = sty <;> simp [h, Option.filter]

/-! ### reads do not change what later reads return -/

/-- A read may materialise an empty map in the slot of its key type, nothing else. -/
theorem C14_read_state (m : TMap) (k key : Nat) :
    (read m k key).1 = m ∨
    (get m k (2 + k) = none ∧ (read m k key).1 = set m k (.map k []) ∧ (read m k key).2 = none) := by
  rw [read_eq, globalMap_fst]
  cases hg : get m k (2 + k) with
  | some d => left; rw [getOrSetDefault_of_get_some hg]
  | none =>
    right
    rw [getOrSetDefault_of_get_none hg, Dyn.default_map]
    refine ⟨rfl, rfl, ?_⟩
    rw [get_eq_none_iff] at hg
    cases ha : aget m k with
    | none => simp [slotMap_of_aget_none ha]
    | some d => simp [slotMap_of_ty_ne ha (hg d ha)]

theorem C14_read_read (m : TMap) (k key k' key' : Nat) :
    (read (read m k key).1 k' key').2 = (read m k' key').2 := by
  by_cases h : k = k'
  · subst h; rw [read_snd, read_snd, slotMap_read_self]
  · exact (C14_read_isolated m k k' key h).2.2 key'

theorem C14_read_read_same (m : TMap) (k key key' : Nat) :
    (read (read m k key).1 k key').2 = (read m k key').2 := C14_read_read m k key k key'

/-- After one read of key type `k`, further reads of `k` do not change the state at all. -/
theorem C14_read_state_idem (m : TMap) (k key key' : Nat) :
    (read (read m k key).1 k key').1 = (read m k key).1 := by
  have hg : MapRes.get (read m k key).1 k (2 + k) = some (.map k (slotMap m k)) := by
    rw [get_eq_some_iff, aget_read]; simp [Dyn.ty]
  rw [read_eq (read m k key).1, globalMap_fst, getOrSetDefault_of_get_some hg]

/-! ### the equality checker -/

theorem C14_check_iff (m : TMap) (k key : Nat) (s : Option Int) :
    (check m k key s).2 = true ↔ (read m k key).2 = s := by
  show decide ((read m k key).2 = s) = true ↔ _
  exact decide_eq_true_iff

/-- `stamp`, `stamp_reader`, `stamp_writer` all stamp with the current value (one model function:
the three routes agree by construction). -/
theorem C14_stamp_eq_read (m : TMap) (k key : Nat) : stamp m k key = read m k key := rfl

theorem C14_check_state (m : TMap) (k key : Nat) (s : Option Int) :
    (check m k key s).1 = (read m k key).1 := rfl

/-- Consistent exactly when the current value or absence equals the stamped one. -/
theorem C14_check_stamp_iff (m m' : TMap) (k key : Nat) :
    (check m' k key (stamp m k key).2).2 = true ↔ (read m' k key).2 = (read m k key).2 :=
  C14_check_iff m' k key _

theorem C14_check_reflexive (m : TMap) (k key : Nat) :
    (check (stamp m k key).1 k key (stamp m k key).2).2 = true := by
  rw [C14_check_iff, C14_stamp_eq_read, C14_read_read_same]

/-- A stamp taken before a write of a different value is inconsistent afterwards, one of an equal
value stays consistent. -/
theorem C14_check_after_write (m : TMap) (h : WF m) (k key : Nat) (v : Option Int) :
    (check (write m k key v) k key (stamp m k key).2).2 = true ↔ v = (read m k key).2 := by
  rw [C14_check_iff, C14_read_write_corrected m h]; rfl

/-! ### refinement to a plain map -/

namespace MapRes

/-- The abstract content for key type `k`. -/
def absMap (m : TMap) (k : Nat) : Nat → Option Int := fun key => (read m k key).2

/-- Point update of a plain map. -/
def upd (f : Nat → Option Int) (key : Nat) (v : Option Int) : Nat → Option Int :=
  fun x => if key = x then v else f x

def emptyMap : Nat → Option Int := fun _ => none

theorem absMap_eq (m : TMap) (k : Nat) : absMap m k = aget (slotMap m k) := by
  funext key; exact read_snd m k key

/-- Operations on the state collection and the map resources living in it. -/
inductive MOp
  | write (k key : Nat) (v : Option Int)
  | read (k key : Nat)
  | check (k key : Nat) (s : Option Int)
  | set (r : Nat) (d : Dyn)
  | getOrSetDefault (r sty : Nat)

def MOp.apply (m : TMap) : MOp → TMap
  | .write k key v => MapRes.write m k key v
  | .read k key => (MapRes.read m k key).1
  | .check k key s => (MapRes.check m k key s).1
  | .set r d => MapRes.set m r d
  | .getOrSetDefault r sty => (MapRes.getOrSetDefault m r sty).1

def run (m : TMap) (ops : List MOp) : TMap := ops.foldl MOp.apply m

/-- The resource type (slot) an operation accesses. -/
def MOp.slot : MOp → Nat
  | .write k _ _ | .read k _ | .check k _ _ | .set k _ | .getOrSetDefault k _ => k

/-- A directly stored state is a proper `HashMap` if it is a map. -/
def MOp.WF : MOp → Prop
  | .set _ d => d.WF
  | _ => True

/-- The effect of one operation on the abstract content of key type `k`: writes to `k` update it;
a directly stored map for `k` replaces it; a directly stored state of another type, or
`get_or_set_default` with another state type, on slot `k` *resets it to empty*; nothing else
touches it. -/
def MOp.absStep (k : Nat) (f : Nat → Option Int) : MOp → (Nat → Option Int)
  | .write k' key v => if k' = k then upd f key v else f
  | .read _ _ => f
  | .check _ _ _ => f
  | .set r d => if r = k then aget (d.asMap k) else f
  | .getOrSetDefault r sty => if r = k ∧ sty ≠ 2 + k then emptyMap else f

/-- Only the writes. -/
def MOp.writeStep (k : Nat) (f : Nat → Option Int) : MOp → (Nat → Option Int)
  | .write k' key v => if k' = k then upd f key v else f
  | _ => f

/-- Replay only the writes to key type `k` on a plain map. -/
def replayWrites (k : Nat) (f : Nat → Option Int) (ops : List MOp) : Nat → Option Int :=
  ops.foldl (MOp.writeStep k) f

/-- The side condition: the operation does not put a state of a non-map type into slot `k`
(no direct `set` on slot `k`, no `get_or_set_default` on slot `k` with another state type). -/
def MOp.KeepsMap (k : Nat) : MOp → Prop
  | .set r _ => r ≠ k
  | .getOrSetDefault r sty => r = k → sty = 2 + k
  | _ => True

theorem WF.apply {m : TMap} (h : WF m) (op : MOp) (hop : op.WF) : WF (op.apply m) := by
  cases op with
  | write k key v => exact h.write k key v
  | read k key => exact h.read k key
  | check k key s => exact h.read k key
  | set r d => exact h.set r d hop
  | getOrSetDefault r sty => exact h.getOrSetDefault r sty

theorem WF.run {m : TMap} (h : WF m) (ops : List MOp) (hops : ∀ op ∈ ops, op.WF) :
    WF (run m ops) := by
  induction ops generalizing m with
  | nil => exact h
  | cons op ops ih =>
    exact ih (h.apply op (hops op List.mem_cons_self))
      (fun o ho => hops o (List.mem_cons_of_mem _ ho))

end MapRes

theorem C14_absMap_write_self (m : TMap) (h : WF m) (k key : Nat) (v : Option Int) :
    absMap (write m k key v) k = upd (absMap m k) key v := by
  funext x
  simp only [absMap, upd, read_snd, slotMap_write_self, aget_writeMap _ (h.slot k)]

theorem C14_absMap_write_some_self (m : TMap) (k key : Nat) (x : Int) :
    absMap (write m k key (some x)) k = upd (absMap m k) key (some x) := by
  funext y
  simp only [absMap, upd, read_snd, slotMap_write_self, aget_writeMap_some]

theorem C14_absMap_write_other (m : TMap) (k k' key : Nat) (v : Option Int) (hne : k' ≠ k) :
    absMap (write m k key v) k' = absMap m k' := by
  funext x
  exact (C14_write_isolated m k k' key v (Ne.symm hne)).2.2 x

/-- An operation on another slot does not change the abstract content of `k`. -/
theorem C14_absMap_apply_other (m : TMap) (op : MOp) (k : Nat) (hne : op.slot ≠ k) :
    absMap (op.apply m) k = absMap m k := by
  funext x
  cases op with
  | write k' key v => exact (C14_write_isolated m k' k key v hne).2.2 x
  | read k' key => exact (C14_read_isolated m k' k key hne).2.2 x
  | check k' key s => exact (C14_read_isolated m k' k key hne).2.2 x
  | set r d => exact (C14_set_isolated m r k d hne).2.2 x
  | getOrSetDefault r sty => exact (C14_getOrSetDefault_isolated m r k sty hne).2.2 x

/-- Directly storing a map for `k` through the resource state: reads see it. -/
theorem C14_absMap_set_map (m : TMap) (k : Nat) (mp : List (Nat × Int)) :
    absMap (set m k (.map k mp)) k = aget mp := by
  rw [absMap_eq, slotMap_set_self]; simp [Dyn.asMap]

/-- Violating the side condition (1): storing a state of another type in slot `k` resets the map
of `k` to empty. -/
theorem C14_absMap_set_nonmap (m : TMap) (k : Nat) (d : Dyn) (hty : d.ty ≠ 2 + k) :
    absMap (set m k d) k = emptyMap := by
  rw [absMap_eq, slotMap_set_self, Dyn.asMap_of_ty_ne hty]; rfl

/-- Violating the side condition (2): `get_or_set_default` on slot `k` with another state type
resets the map of `k` to empty (whatever was stored). -/
theorem C14_absMap_getOrSetDefault_nonmap (m : TMap) (k sty : Nat) (hty : sty ≠ 2 + k) :
    absMap (getOrSetDefault m k sty).1 k = emptyMap := by
  have ha : aget (getOrSetDefault m k sty).1 k = some (getOrSetDefault m k sty).2 := by
    rw [aget_getOrSetDefault]; simp
  rw [absMap_eq, slotMap_of_ty_ne ha (by rw [getOrSetDefault_snd_ty]; exact hty)]; rfl

/-- … and the stored map really is gone: the slot then holds the default of the other type. -/
theorem C14_getOrSetDefault_nonmap_replaces (m : TMap) (k sty : Nat) (mp : List (Nat × Int))
    (hm : getBoxed m k = some (.map k mp)) (hty : sty ≠ 2 + k) :
    getBoxed (getOrSetDefault m k sty).1 k = some (Dyn.default sty) := by
  have hg : get m k sty = none := by
    rw [get_eq_none_iff]
    intro d hd
    rw [show aget m k = some (.map k mp) from hm] at hd
    cases hd
    exact Ne.symm hty
  exact (C14_getOrSetDefault_default m k sty hg).2.2.1

/-- `get_or_set_default` with the map type keeps the content. -/
theorem C14_absMap_getOrSetDefault_map (m : TMap) (k : Nat) :
    absMap (getOrSetDefault m k (2 + k)).1 k = absMap m k := by
  have ha : aget (getOrSetDefault m k (2 + k)).1 k = some (.map k (slotMap m k)) := by
    rw [aget_getOrSetDefault, getOrSetDefault_map_snd]; simp
  rw [absMap_eq, absMap_eq, slotMap_of_aget ha]

/-- One step of the refinement, no side condition: every operation acts on the abstract content of
`k` as `absStep` says. -/
theorem C14_absMap_apply (m : TMap) (h : WF m) (op : MOp) (k : Nat) :
    absMap (op.apply m) k = op.absStep k (absMap m k) := by
  by_cases hs : op.slot = k
  · cases op with
    | write k' key v =>
      simp only [MOp.slot] at hs; subst hs
      simp only [MOp.apply, MOp.absStep, if_true]
      exact C14_absMap_write_self m h k' key v
    | read k' key =>
      simp only [MOp.slot] at hs; subst hs
      funext x; exact C14_read_read_same m k' key x
    | check k' key s =>
      simp only [MOp.slot] at hs; subst hs
      funext x; exact C14_read_read_same m k' key x
    | set r d =>
      simp only [MOp.slot] at hs; subst hs
      simp only [MOp.apply, MOp.absStep, if_true]
      rw [absMap_eq, slotMap_set_self]
    | getOrSetDefault r sty =>
      simp only [MOp.slot] at hs; subst hs
      simp only [MOp.apply, MOp.absStep, true_and]
      by_cases hty : sty = 2 + r
      · subst hty; simp only [ne_eq, not_true_eq_false, if_false]
        exact C14_absMap_getOrSetDefault_map m r
      · rw [if_pos hty]; exact C14_absMap_getOrSetDefault_nonmap m r sty hty
  · rw [C14_absMap_apply_other m op k hs]
    cases op <;> simp only [MOp.slot] at hs <;> simp [MOp.absStep, hs]

/-- The refinement for arbitrary operation sequences, no side condition: reading key type `k`
after the sequence equals folding `absStep` over it on a plain map. -/
theorem C14_run_refines (m : TMap) (h : WF m) (ops : List MOp) (hops : ∀ op ∈ ops, op.WF)
    (k : Nat) : absMap (run m ops) k = ops.foldl (MOp.absStep k) (absMap m k) := by
  induction ops generalizing m with
  | nil => rfl
  | cons op ops ih =>
    simp only [run, List.foldl_cons]
    rw [← C14_absMap_apply m h op k]
    exact ih (op.apply m) (h.apply op (hops op List.mem_cons_self))
      (fun o ho => hops o (List.mem_cons_of_mem _ ho))

/-- Under the side condition an operation acts on `k` like the writes alone. -/
theorem C14_absStep_of_keepsMap (k : Nat) (f : Nat → Option Int) (op : MOp) (hk : op.KeepsMap k) :
    op.absStep k f = op.writeStep k f := by
  cases op with
  | write k' key v => rfl
  | read k' key => rfl
  | check k' key s => rfl
  | set r d => simp only [MOp.KeepsMap] at hk; simp [MOp.absStep, MOp.writeStep, hk]
  | getOrSetDefault r sty =>
    simp only [MOp.KeepsMap] at hk
    simp only [MOp.absStep, MOp.writeStep]
    rw [if_neg]
    rintro ⟨h1, h2⟩; exact h2 (hk h1)

/-- The refinement: provided no `set` and no `get_or_set_default` with a non-map state type hits
slot `k`, reading key type `k` after an arbitrary sequence of operations (on any key types and
resource types) equals replaying only the writes to `k` on a plain `Nat → Option Int` map. -/
theorem C14_run_refines_writes (m : TMap) (h : WF m) (ops : List MOp) (hops : ∀ op ∈ ops, op.WF)
    (k : Nat) (hk : ∀ op ∈ ops, op.KeepsMap k) :
    absMap (run m ops) k = replayWrites k (absMap m k) ops := by
  rw [C14_run_refines m h ops hops k, replayWrites]
  generalize absMap m k = f
  induction ops generalizing f with
  | nil => rfl
  | cons op ops ih =>
    simp only [List.foldl_cons]
    rw [C14_absStep_of_keepsMap k f op (hk op List.mem_cons_self)]
    exact ih (fun o ho => hops o (List.mem_cons_of_mem _ ho))
      (fun o ho => hk o (List.mem_cons_of_mem _ ho)) _

/-- Reading a key after a sequence that keeps the map: the value most recently written to that
key in the sequence, or the initial one if there was no such write. -/
theorem C14_read_after_run (m : TMap) (h : WF m) (ops : List MOp) (hops : ∀ op ∈ ops, op.WF)
    (k key : Nat) (hk : ∀ op ∈ ops, op.KeepsMap k) :
    (read (run m ops) k key).2 = replayWrites k (absMap m k) ops key :=
  congrFun (C14_run_refines_writes m h ops hops k hk) key

/-- Most-recent-write, spelled out: after `… ++ [write k key v] ++ later`, where nothing in `later`
writes to `(k, key)` and the side condition holds, reading `(k, key)` yields `v`. -/
theorem C14_most_recent_write (m : TMap) (h : WF m) (before later : List MOp) (k key : Nat)
    (v : Option Int)
    (hb : ∀ op ∈ before, op.WF) (hl : ∀ op ∈ later, op.WF)
    (hk : ∀ op ∈ later, op.KeepsMap k)
    (hnw : ∀ v', MOp.write k key v' ∉ later) :
    (read (run m (before ++ [.write k key v] ++ later)) k key).2 = v := by
  have hrun : run m (before ++ [.write k key v] ++ later) =
      run (write (run m before) k key v) later := by
    simp [run, List.foldl_append, MOp.apply]
  have hwf1 : WF (run m before) := h.run before hb
  have hwf2 : WF (write (run m before) k key v) := hwf1.write k key v
  rw [hrun, C14_read_after_run _ hwf2 later hl k key hk]
  have hinit : absMap (write (run m before) k key v) k key = v :=
    C14_read_write_corrected _ hwf1 k key v
  revert hinit
  generalize absMap (write (run m before) k key v) k = f
  intro hinit
  clear hrun hwf2 hl hk
  induction later generalizing f with
  | nil => exact hinit
  | cons op ops ih =>
    simp only [replayWrites, List.foldl_cons]
    apply ih (fun v' hv => hnw v' (List.mem_cons_of_mem _ hv))
    cases op with
    | write k' key' v' =>
      simp only [MOp.writeStep]
      split
      · rename_i hkk; subst hkk
        have : key' ≠ key := by
          rintro rfl; exact hnw v' List.mem_cons_self
        simp [upd, this, hinit]
      · exact hinit
    | read _ _ => exact hinit
    | check _ _ _ => exact hinit
    | set _ _ => exact hinit
    | getOrSetDefault _ _ => exact hinit

/-! ### non-vacuity -/

private def demoOps : List MOp :=
  [.write 0 1 (some 5), .write 1 1 (some 7), .set 9 (.int 3), .read 2 4, .write 0 2 (some 6),
   .getOrSetDefault 8 1, .write 0 1 none, .getOrSetDefault 0 2, .check 1 1 none,
   .write 1 1 (some 8)]

example : run [] demoOps =
    [(0, .map 0 [(2, 6)]), (1, .map 1 [(1, 8)]), (9, .int 3), (2, .map 2 []), (8, .str "")] := by
  decide
example : (read (run [] demoOps) 0 1).2 = none ∧ (read (run [] demoOps) 0 2).2 = some 6 ∧
    (read (run [] demoOps) 1 1).2 = some 8 := by decide
example : ∀ op ∈ demoOps, op.KeepsMap 0 := by
  intro op hop; simp [demoOps] at hop
  rcases hop with rfl | rfl | rfl | rfl | rfl | rfl | rfl | rfl | rfl | rfl <;> simp [MOp.KeepsMap]
example : replayWrites 0 emptyMap demoOps 2 = some 6 ∧ replayWrites 0 emptyMap demoOps 1 = none := by
  decide
/-- violating the side condition: the map of key type 0 is gone -/
example : (read (getOrSetDefault (write [] 0 1 (some 5)) 0 0).1 0 1).2 = none ∧
    (read (set (write [] 0 1 (some 5)) 0 (.str "x")) 0 1).2 = none ∧
    (read (write [] 0 1 (some 5)) 0 1).2 = some 5 := by decide
/-- same key value under two key types: no aliasing -/
example : (read (write (write [] 0 1 (some 5)) 1 1 (some 7)) 0 1).2 = some 5 := by decide
example : getOrSetDefault [(3, .int 4)] 3 0 = ([(3, .int 4)], .int 4) ∧
    getOrSetDefault [(3, .int 4)] 3 1 = ([(3, .str "")], .str "") := by decide
example : (check (write [] 0 1 (some 5)) 0 1 (some 5)).2 = true ∧
    (check (write [] 0 1 (some 5)) 0 1 none).2 = false := by decide

end PieModel
