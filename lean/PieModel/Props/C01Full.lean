/-
Property C01 in full (top-down), and the minimality clause of C02, for programs WITH writes.

"Whenever requiring a task in a session returns, the returned output, and the content of every
resource written by a task executed or reused for it, equal what executing the same tasks from
scratch against the current state of all resources would produce — whatever resources were
changed, created, deleted or overwritten between sessions (sources AND generated resources) and
whatever was built before on the same `Pie` instance."

Quantifier: every checker semantics with total resource stampers (`StampTotal`), every table of
task programs `body` with static roles (`WellFormedBody ro body`: requires go upward in `ro.rank`,
resource `r` is written only by `ro.gen r`, at most once per execution, a task never reads what it
may write, a reader of a generated resource required its generator earlier on the path), whose
continuations respect their checkers (`Respects`), which use one checker per target per execution
(`OneChecker`) and an exact checker at every write node (`WriteExact`: forced, see the
counterexample at the end); every fuel, every history.

Reference semantics: `EvalW`/`Den` (`Build/SoundW/Defs.lean`), `Demanded`, `overlay`.
Store invariant: `FaithfulO` (the ORDERED replay; it implies `FaithfulW`, the membership version
with write nodes — the membership version alone does not determine which tasks a validation
visits, hence not which resources the session writes; `FaithfulO` holds after every history from
the empty `Pie`).  Session invariant: `SInvWD`/`SInvW` (`Build/SoundW/Inv.lean`).
The proof is the joint induction `tdSoundW` (`Build/SoundW/*.lean`).
-/
import PieModel.Build.SoundW.History
import PieModel.Build.Proofs.DecEq
import PieModel.Props.C01

namespace PieModel

variable {ro : Roles} {sem : Sem} {body : Nat → Prog}

/-! ### the from-scratch semantics -/

theorem C01_den_deterministic {fs₀ : List (Nat × Int)} {t : Nat} {a b : Int × Writes}
    (h1 : Den ro sem body fs₀ t a) (h2 : Den ro sem body fs₀ t b) : a = b := h1.det h2

/-- Under static roles the ideal final state is well defined (only the generator of a resource
writes it): any content satisfying the specification `OverlayAt` is `overlay`. -/
theorem C01_overlay_unique (hwf : WellFormedBody ro body) {fs₀ : List (Nat × Int)}
    {D : Nat → Prop} {r : Nat} {x : Option Int} (h : OverlayAt ro sem body fs₀ D r x) :
    overlay ro sem body fs₀ D r = x := overlay_eq hwf h

/-- The ordered store invariant implies the membership one (`Replay` extended by write nodes). -/
theorem C01_faithfulO_faithfulW {st : Store} (h : FaithfulO sem body st) : FaithfulW sem body st :=
  h.faithfulW

theorem C01_pieInv_empty : PieInvW ro sem body ({} : PieSt) := PieInvW.empty

/-- A new session on a `Pie` satisfying the invariants satisfies the session invariant, relative
to the resource state of the `Pie` (for every bound `D` on the tasks to be made consistent). -/
theorem C01_full_invariant_newSession (p : PieSt) (h : PieInvW ro sem body p) (D : Nat → Prop) :
    SInvWD ro sem body p.fs D p.newSession := SInvWD.newSession h

/-- Whenever no task is executing, the invariant says that the resources are the start state
overlaid by the from-scratch writes of the tasks made consistent so far. -/
theorem C01_full_invariant_resources (hwf : WellFormedBody ro body) {fs₀ : List (Nat × Int)}
    {D : Nat → Prop} {s : Sess} (h : SInvWD ro sem body fs₀ D s) (hc : s.cur = none) (r : Nat) :
    aget s.fs r = overlay ro sem body fs₀ (ConsT s) r := h.fs_overlay_consistent hwf hc r

section
variable (hst : StampTotal sem) (hwf : WellFormedBody ro body)
  (hresp : ∀ t, Respects sem (body t)) (hone : ∀ t, OneChecker (body t))
  (hwe : ∀ t, WriteExact sem (body t))
include hst hwf hresp hone hwe

/-! ### 1. the store invariant is preserved, whatever the result -/

/-- Every top-down function maps a state satisfying the session invariant to a state with a
faithful store (`FaithfulO`, hence `FaithfulW`), **whatever the result** (`.ok` or `.abort`).  The
side conditions of the inner functions are those under which they are called (proved at every
call site by the induction). -/
theorem C01_faithfulW_preserved (fs₀ : List (Nat × Int)) (fuel : Nat) (s : Sess)
    (h : SInvW ro sem body fs₀ s) :
    (∀ u c, ReqPre ro s u → FaithfulW sem body (tdRequire sem body fuel s u c).1.store) ∧
    (∀ t, CurReach s (nodeOf s t) → ReqPre ro s t →
      FaithfulW sem body (tdMake sem body fuel s t).1.store) ∧
    (∀ m t, m ∉ s.consistent → CurReach s m → s.store.taskOf m = some t → ReqPre ro s t →
      FaithfulW sem body (tdCheck sem body fuel s m).1.store) ∧
    (∀ m t o pre ds, m ∉ s.consistent → CurReach s m → s.store.taskOf m = some t →
      ReqPre ro s t → s.store.depsFrom m = pre ++ ds → ReplayO sem (body t) [] (pre ++ ds) o →
      (∀ d ∈ pre, DepOk ro sem s d) →
      FaithfulW sem body (tdCheckDeps sem body fuel s ds).1.store) ∧
    (∀ n t0 p a E qt qr, s.cur = some n → s.store.taskOf n = some t0 →
      StaticRolesFrom ro t0 a p → AccOK s.store n a → OneCk qt qr p → RunInvW ro sem qt qr s n →
      EnvOK ro sem body fs₀ s E a → FaithfulW sem body (tdRun sem body fuel s p).1.store) ∧
    (∀ t, s.cur = none → FaithfulW sem body (sessionRequire sem body fuel s t).1.store) ∧
    (∀ ts, s.cur = none → FaithfulW sem body (requireAll sem body fuel s ts).1.store) := by
  have hD : CallClosed ro sem body fs₀ (fun _ => True) := fun _ _ _ _ => trivial
  have T := tdSoundW (fs₀ := fs₀) (D := fun _ => True) hst hwf hresp hone hwe hD fuel
  exact ⟨fun u c hp => (T.require s u c h hp trivial).faithful.faithfulW,
    fun t hc hp => (T.make s t h hc hp trivial).faithful.faithfulW,
    fun m t hm hc ht hp => (T.check s m t h hm hc ht hp trivial).faithful.faithfulW,
    fun m t o pre ds hm hc ht hp hd hr hk =>
      (T.checkDeps s m t o pre ds h hm hc ht hp trivial hd hr hk).faithful.faithfulW,
    fun n t0 p a E qt qr hn ht hs ha ho hr he =>
      (T.run s n t0 p a E qt qr h hn ht hs ha ho hr he (fun _ _ => trivial)).faithful.faithfulW,
    fun t hc => (sessionRequire_outcomeW hst hwf hresp hone hwe hD fuel s t h hc
      trivial).faithful.faithfulW,
    fun ts hc => (requireAll_outcomeW hst hwf hresp hone hwe hD fuel ts s h hc
      (fun _ _ => trivial)).faithful.faithfulW⟩

/-- A whole session, aborted or not, on a `Pie` satisfying the invariants (`Store.WF`,
`RolesInv`, `FaithfulO`, unique keys of the resource map) leaves such a `Pie`. -/
theorem C01_pieInv_session (fuel : Nat) (p : PieSt) (h : PieInvW ro sem body p)
    (roots : List Nat) :
    PieInvW ro sem body (requireAll sem body fuel p.newSession roots).1.toPie :=
  h.session hst hwf hresp hone hwe fuel roots

/-! ### 2. `make_task_consistent` -/

/-- If `make_task_consistent` returns `v` for task `t` (by validation or by execution) from a
state satisfying the invariant of a session started on `fs₀`, then `v` is the from-scratch output
of `t` on `fs₀`, the node of `t` is consistent, and the invariant holds afterwards (so the
resources generated by `t` hold what the from-scratch execution leaves in them). -/
theorem C01_full_make (fs₀ : List (Nat × Int)) (fuel : Nat) (s s' : Sess) (t : Nat) (v : Int)
    (h : SInvW ro sem body fs₀ s) (hc : CurReach s (nodeOf s t)) (hp : ReqPre ro s t)
    (hr : tdMake sem body fuel s t = (s', .ok v)) :
    (∃ ws, Den ro sem body fs₀ t (v, ws) ∧
      ∀ r, ro.gen r = some t → aget s'.fs r = (wget ws r).getD (aget fs₀ r)) ∧
    nodeOf s t ∈ s'.consistent ∧ s'.store.taskOutput (nodeOf s t) = some v ∧
    SInvW ro sem body fs₀ s' := by
  have hD : CallClosed ro sem body fs₀ (fun _ => True) := fun _ _ _ _ => trivial
  obtain ⟨st, h1, h2, h3, _⟩ :=
    ((tdSoundW (fs₀ := fs₀) (D := fun _ => True) hst hwf hresp hone hwe hD fuel).make s t h hc hp
      trivial).ok _ _ hr
  obtain ⟨t', o, ws, ht', ho, hd, _, hf, _⟩ := st.inv.sound _ h1
  rw [h3] at ht'; cases ht'
  rw [h2] at ho; cases ho
  exact ⟨⟨ws, hd, hf⟩, h1, h2, st.inv⟩

/-! ### 3. one session -/

/-- **C01 for one session.**  The outputs are the from-scratch outputs of the roots on the
resource state `p.fs` the session started with, and every resource holds afterwards what the
from-scratch build of the same roots leaves in it: `p.fs` overlaid by the writes of the demanded
tasks. -/
theorem C01_full_session (fuel : Nat) (p : PieSt) (h : PieInvW ro sem body p) (roots : List Nat)
    (s' : Sess) (os : List Int) (hr : requireAll sem body fuel p.newSession roots = (s', .ok os)) :
    List.Forall₂ (fun t o => ∃ ws, Den ro sem body p.fs t (o, ws)) roots os ∧
    (∀ r, aget s'.fs r = overlay ro sem body p.fs (Demanded ro sem body p.fs roots) r) ∧
    PieInvW ro sem body s'.toPie := by
  obtain ⟨hinv, _, hall, hfs⟩ := session_full hst hwf hresp hone hwe h fuel roots hr
  exact ⟨hall, hfs, hinv.wf.store, hinv.roles, hinv.faithful, hinv.nodup⟩

/-- The model's own clean build computes the reference semantics: outputs and resources. -/
theorem C01_clean_build_den (fuel : Nat) (fs : List (Nat × Int)) (hn : (akeys fs).Nodup)
    (roots : List Nat) (s : Sess) (os : List Int)
    (hr : cleanBuild sem body fuel fs roots = (s, .ok os)) :
    List.Forall₂ (fun t o => ∃ ws, Den ro sem body fs t (o, ws)) roots os ∧
    ∀ r, aget s.fs r = overlay ro sem body fs (Demanded ro sem body fs roots) r :=
  cleanBuild_full hst hwf hresp hone hwe fuel fs hn roots hr

/-! ### 4. against the clean build -/

/-- **C01.**  An incremental session on any `Pie` satisfying the invariants returns the same
outputs and leaves the same content in every resource as the from-scratch build of the same
roots on the same resource state (whenever the latter returns, for any fuel). -/
theorem C01_full_equals_clean_build (fuel fuel' : Nat) (p : PieSt) (h : PieInvW ro sem body p)
    (roots : List Nat) (s' sc : Sess) (os os' : List Int)
    (hr : requireAll sem body fuel p.newSession roots = (s', .ok os))
    (hc : cleanBuild sem body fuel' p.fs roots = (sc, .ok os')) :
    os = os' ∧ ∀ r, aget s'.fs r = aget sc.fs r := by
  obtain ⟨h1, h2, _⟩ := C01_full_session hst hwf hresp hone hwe fuel p h roots s' os hr
  obtain ⟨h3, h4⟩ := C01_clean_build_den hst hwf hresp hone hwe fuel' p.fs h.nodup roots sc os' hc
  exact ⟨forall₂_den_unique h1 h3, fun r => by rw [h2 r, h4 r]⟩

/-! ### 5. histories -/

/-- **C01 over histories.**  For every history of external changes (of any resource, generated
ones included) and top-down sessions (any of them possibly aborted) run from the empty `Pie`:
every session that returned has the from-scratch outputs and leaves the from-scratch resource
state; and the invariants hold at the end. -/
theorem C01_full_history (fuel : Nat) (steps : List TStep) :
    PieInvW ro sem body (runStepsW sem body fuel {} steps).1 ∧
    ∀ e ∈ (runStepsW sem body fuel {} steps).2,
      List.Forall₂ (fun t o => ∃ ws, Den ro sem body e.before t (o, ws)) e.roots e.outs ∧
      ∀ r, aget e.after r =
        overlay ro sem body e.before (Demanded ro sem body e.before e.roots) r := by
  obtain ⟨h1, h2⟩ := runStepsW_sound hst hwf hresp hone hwe fuel steps {} PieInvW.empty
  exact ⟨h1, fun e he => ⟨(h2 e he).1, (h2 e he).2.1⟩⟩

/-- ... and agrees with the clean build of the same roots on the resource state it started
with. -/
theorem C01_full_history_equals_clean_build (fuel fuel' : Nat) (steps : List TStep) (e : SessLog)
    (he : e ∈ (runStepsW sem body fuel {} steps).2) (sc : Sess) (os' : List Int)
    (hc : cleanBuild sem body fuel' e.before e.roots = (sc, .ok os')) :
    e.outs = os' ∧ ∀ r, aget e.after r = aget sc.fs r := by
  obtain ⟨_, h2⟩ := runStepsW_sound hst hwf hresp hone hwe fuel steps {} PieInvW.empty
  obtain ⟨h1, h2', _, hn⟩ := h2 e he
  obtain ⟨h3, h4⟩ := C01_clean_build_den hst hwf hresp hone hwe fuel' e.before hn e.roots sc os' hc
  exact ⟨forall₂_den_unique h1 h3, fun r => by rw [h2' r, h4 r]⟩

/-! ### 6. minimality (C02, last clause) -/

/-- **C02 (minimality).**  Every task executed by an incremental session that returns is
demanded: the from-scratch build of the same roots on the current resource state executes it,
too.  (A dependency is validated only after all earlier dependencies of its owner were found
consistent; hence the owner's body, run now, reaches that dependency operation.) -/
theorem C02_minimal (fuel : Nat) (p : PieSt) (h : PieInvW ro sem body p) (roots : List Nat)
    (s' : Sess) (os : List Int) (hr : requireAll sem body fuel p.newSession roots = (s', .ok os))
    (t : Nat) (ht : Ev.executeStart t ∈ s'.trace) : Demanded ro sem body p.fs roots t :=
  ((session_full hst hwf hresp hone hwe h fuel roots hr).1.executed t ht).1

/-- ... and conversely every demanded task was made consistent in the session (validated or
executed), and every task made consistent is demanded. -/
theorem C02_consistent_iff_demanded (fuel : Nat) (p : PieSt) (h : PieInvW ro sem body p)
    (roots : List Nat) (s' : Sess) (os : List Int)
    (hr : requireAll sem body fuel p.newSession roots = (s', .ok os)) (t : Nat) :
    ConsT s' t ↔ Demanded ro sem body p.fs roots t := by
  have hs : SInvWD ro sem body p.fs (Demanded ro sem body p.fs roots) p.newSession :=
    SInvWD.newSession h
  obtain ⟨st, _, _, hcons⟩ := (requireAll_outcomeW (fs₀ := p.fs) hst hwf hresp hone hwe
    (Demanded.closed roots) fuel roots p.newSession hs rfl (fun t ht => .root ht)).ok s' os hr
  constructor
  · rintro ⟨n, hn, htn⟩
    obtain ⟨t', _, _, ht', _, _, hD, _⟩ := st.inv.sound n hn
    rw [htn] at ht'; cases ht'
    exact hD
  · exact fun hd => st.inv.demanded_cons hcons hd

/-- Minimality over histories. -/
theorem C02_minimal_history (fuel : Nat) (steps : List TStep) (e : SessLog)
    (he : e ∈ (runStepsW sem body fuel {} steps).2) (t : Nat) (ht : Ev.executeStart t ∈ e.trace) :
    Demanded ro sem body e.before e.roots t :=
  ((runStepsW_sound hst hwf hresp hone hwe fuel steps {} PieInvW.empty).2 e he).2.2.1 t ht

end

/-! ### non-vacuity

Four tasks and a generated resource.  Task 4 reads source 1 and writes resource 10 (twice the
value); task 2 requires 4, then reads 10; task 3 requires 4 if source 2 holds 1; task 1 requires
2 and 3.  All checkers are the exact ones (id 0) of `totalSem` (`stdSem` with total stampers). -/

open DecEqAux

def fullRoles : Roles := { rank := fun t => t, gen := fun r => if r = 10 then some 4 else none }

def fullBody : Nat → Prog
  | 1 => .req 2 0 (fun a => .req 3 0 (fun b => .ret (a + b)))
  | 2 => .req 4 0 (fun _ => .read 10 0 (fun x => match x with
      | .ok (some v) => .ret v
      | _ => .ret 0))
  | 3 => .read 2 0 (fun x => match x with
      | .ok (some 1) => .req 4 0 (fun o => .ret (o + 100))
      | _ => .ret 3)
  | 4 => .read 1 0 (fun x => match x with
      | .ok (some v) => .write 10 0 (some (v * 2)) (fun _ => .ret v)
      | _ => .write 10 0 none (fun _ => .ret 0))
  | _ => .ret 7

theorem fullBody_wf : WellFormedBody fullRoles fullBody := by
  intro t
  match t with
  | 0 => trivial
  | 1 => simp [StaticRoles, StaticRolesFrom, fullBody, fullRoles]
  | 2 =>
    refine ⟨by simp [fullRoles], fun o => ⟨by simp [fullRoles], by simp [fullRoles], fun x => ?_⟩⟩
    dsimp only
    split <;> trivial
  | 3 =>
    refine ⟨by simp [fullRoles], by simp [fullRoles], fun x => ?_⟩
    dsimp only
    split
    · exact ⟨by simp [fullRoles], fun o => trivial⟩
    · trivial
  | 4 =>
    refine ⟨by simp [fullRoles], by simp [fullRoles], fun x => ?_⟩
    dsimp only
    split
    · exact ⟨by simp [fullRoles], by simp, fun _ => trivial⟩
    · exact ⟨by simp [fullRoles], by simp, fun _ => trivial⟩
  | _ + 5 => trivial

theorem fullBody_respects : ∀ t, Respects totalSem (fullBody t) := by
  intro t
  match t with
  | 0 => trivial
  | 1 =>
    exact ⟨fun o o' h => by rw [totalSem_ocheck0 h],
      fun o => ⟨fun o1 o' h => by rw [totalSem_ocheck0 h], fun _ => trivial⟩⟩
  | 2 =>
    refine ⟨fun _ _ _ => rfl, fun o => ⟨fun v v' s h1 h2 => by rw [totalSem_rcheck0 h1 h2],
      fun x => ?_⟩⟩
    dsimp only
    split <;> trivial
  | 3 =>
    refine ⟨fun v v' s h1 h2 => by rw [totalSem_rcheck0 h1 h2], fun x => ?_⟩
    dsimp only
    split
    · exact ⟨fun o o' h => by rw [totalSem_ocheck0 h], fun _ => trivial⟩
    · trivial
  | 4 =>
    refine ⟨fun v v' s h1 h2 => by rw [totalSem_rcheck0 h1 h2], fun x => ?_⟩
    dsimp only
    split
    · exact fun _ => trivial
    · exact fun _ => trivial
  | _ + 5 => trivial

theorem fullBody_oneChecker : ∀ t, OneChecker (fullBody t) := by
  intro t
  match t with
  | 0 => trivial
  | 1 => simp [OneChecker, OneCk, fullBody]
  | 2 =>
    refine ⟨fun c' h => (nomatch h), fun o => ⟨fun c' h => (nomatch h), fun x => ?_⟩⟩
    dsimp only
    split <;> trivial
  | 3 =>
    refine ⟨fun c' h => (nomatch h), fun x => ?_⟩
    dsimp only
    split
    · exact ⟨fun c' h => (nomatch h), fun _ => trivial⟩
    · trivial
  | 4 =>
    refine ⟨fun c' h => (nomatch h), fun x => ?_⟩
    dsimp only
    split
    · exact ⟨by simp, fun _ => trivial⟩
    · exact ⟨by simp, fun _ => trivial⟩
  | _ + 5 => trivial

theorem fullBody_writeExact : ∀ t, WriteExact totalSem (fullBody t) := by
  intro t
  match t with
  | 0 => trivial
  | 1 => exact fun _ _ => trivial
  | 2 =>
    refine fun _ x => ?_
    dsimp only
    split <;> trivial
  | 3 =>
    refine fun x => ?_
    dsimp only
    split
    · exact fun _ => trivial
    · trivial
  | 4 =>
    refine fun x => ?_
    dsimp only
    split
    · exact ⟨fun x x' s h1 h2 => totalSem_rcheck0 h1 h2, fun _ => trivial⟩
    · exact ⟨fun x x' s h1 h2 => totalSem_rcheck0 h1 h2, fun _ => trivial⟩
  | _ + 5 => trivial

/-- Build; edit the GENERATED resource 10 from outside; build again; change source 1; build. -/
def fullHistory : List TStep :=
  [.change 1 (some 5), .change 2 (some 1), .session [1], .change 10 (some 99), .session [1],
   .change 1 (some 6), .session [1]]

/-- The log: resources before, roots, outputs, resources after.  In the second session the
external edit of resource 10 is undone; the third propagates the change of source 1. -/
example : (runStepsW totalSem fullBody 30 {} fullHistory).2.map
      (fun e => (e.before, e.roots, e.outs, e.after)) =
    [([(1, 5), (2, 1)], [1], [115], [(1, 5), (2, 1), (10, 10)]),
     ([(1, 5), (2, 1), (10, 99)], [1], [115], [(1, 5), (2, 1), (10, 10)]),
     ([(1, 6), (2, 1), (10, 10)], [1], [118], [(1, 6), (2, 1), (10, 12)])] := by
  with_unfolding_all decide

/-- The executions of the three sessions: in the second one only the generator runs again. -/
example : (runStepsW totalSem fullBody 30 {} fullHistory).2.map
      (fun e => e.trace.filterMap (fun ev => match ev with | .executeStart t => some t | _ => none)) =
    [[1, 2, 4, 3], [4], [4, 2, 1, 3]] := by
  with_unfolding_all decide

/-- The `Pie` after the first session and the external edit of the generated resource. -/
def fullPie : PieSt := (runStepsW totalSem fullBody 30 {} (fullHistory.take 4)).1

theorem fullPie_inv : PieInvW fullRoles totalSem fullBody fullPie :=
  (C01_full_history totalSem_stampTotal fullBody_wf fullBody_respects fullBody_oneChecker
    fullBody_writeExact 30 (fullHistory.take 4)).1

theorem pair_of_snd {α : Type} {F : Sess × Res α} {x : α} (h : F.2 = .ok x) : F = (F.1, .ok x) := by
  obtain ⟨a, b⟩ := F
  simp only at h
  rw [h]

theorem fullPie_session : (requireAll totalSem fullBody 30 fullPie.newSession [1]).2 = .ok [115] := by
  with_unfolding_all decide

theorem fullPie_clean : (cleanBuild totalSem fullBody 30 fullPie.fs [1]).2 = .ok [115] := by
  with_unfolding_all decide

/-- Theorem 1 applied: the session on `fullPie` leaves the invariants. -/
example : PieInvW fullRoles totalSem fullBody
    (requireAll totalSem fullBody 30 fullPie.newSession [1]).1.toPie :=
  C01_pieInv_session totalSem_stampTotal fullBody_wf fullBody_respects fullBody_oneChecker
    fullBody_writeExact 30 fullPie fullPie_inv [1]

/-- Theorem 3 applied: 115 is the from-scratch output of task 1 on `[1 ↦ 5, 2 ↦ 1, 10 ↦ 99]`. -/
example : ∃ ws, Den fullRoles totalSem fullBody fullPie.fs 1 (115, ws) := by
  have h := (C01_full_session totalSem_stampTotal fullBody_wf fullBody_respects fullBody_oneChecker
    fullBody_writeExact 30 fullPie fullPie_inv [1] _ _ (pair_of_snd fullPie_session)).1
  cases h with
  | cons h _ => exact h

/-- Theorem 4 applied: the incremental session on `fullPie` (resource 10 was edited from outside)
and the from-scratch build on the same resources agree on outputs and on every resource. -/
example : ∀ r, aget (requireAll totalSem fullBody 30 fullPie.newSession [1]).1.fs r =
    aget (cleanBuild totalSem fullBody 30 fullPie.fs [1]).1.fs r :=
  (C01_full_equals_clean_build totalSem_stampTotal fullBody_wf fullBody_respects
    fullBody_oneChecker fullBody_writeExact 30 30 fullPie fullPie_inv [1] _ _ _ _
    (pair_of_snd fullPie_session) (pair_of_snd fullPie_clean)).2

/-- ... both hold `[1 ↦ 5, 2 ↦ 1, 10 ↦ 10]`. -/
example : (requireAll totalSem fullBody 30 fullPie.newSession [1]).1.fs = [(1, 5), (2, 1), (10, 10)] ∧
    (cleanBuild totalSem fullBody 30 fullPie.fs [1]).1.fs = [(1, 5), (2, 1), (10, 10)] := by
  with_unfolding_all decide

/-- Theorem 6 applied: task 4, which the session on `fullPie` executes, is demanded. -/
example : Demanded fullRoles totalSem fullBody fullPie.fs [1] 4 :=
  C02_minimal totalSem_stampTotal fullBody_wf fullBody_respects fullBody_oneChecker
    fullBody_writeExact 30 fullPie fullPie_inv [1] _ _ (pair_of_snd fullPie_session) 4
    (by with_unfolding_all decide)

/-- Theorem 2 applied, on the fresh `Pie` with resources `[1 ↦ 5]`: `make_task_consistent` of
task 4 returns its from-scratch output and leaves twice the source in resource 10. -/
example : ∃ ws, Den fullRoles totalSem fullBody [(1, 5)] 4 (5, ws) := by
  have hp : PieInvW fullRoles totalSem fullBody ({ fs := [(1, 5)] } : PieSt) :=
    PieInvW.fresh (by decide)
  have hm : (tdMake totalSem fullBody 10 ({ fs := [(1, 5)] } : PieSt).newSession 4).2 = .ok 5 := by
    with_unfolding_all decide
  obtain ⟨⟨ws, hd, _⟩, _⟩ := C01_full_make totalSem_stampTotal fullBody_wf fullBody_respects
    fullBody_oneChecker fullBody_writeExact [(1, 5)] 10 _ _ 4 5 (SInvWD.newSession hp)
    (fun n hn => (nomatch hn)) (fun n hn => (nomatch hn)) (pair_of_snd hm)
  exact ⟨ws, hd⟩

/-- Theorem 5 applied to the whole history. -/
example : ∀ e ∈ (runStepsW totalSem fullBody 30 {} fullHistory).2,
    ∀ r, aget e.after r = overlay fullRoles totalSem fullBody e.before
      (Demanded fullRoles totalSem fullBody e.before e.roots) r :=
  fun e he => ((C01_full_history totalSem_stampTotal fullBody_wf fullBody_respects
    fullBody_oneChecker fullBody_writeExact 30 fullHistory).2 e he).2

/-! ### `WriteExact` is necessary

The same generator with an existence-only checker (id 2, `ExistsRes`) at its write node: an
external edit of the generated resource 10 is not detected when the generator is validated, the
reader sees the edited content, and a from-scratch build on the same resources regenerates it.
All other hypotheses hold; the conclusions of `C01_full_history_equals_clean_build` and of
`C02_minimal_history` fail (task 5 is executed by the session, not by the clean build). -/

def badBody : Nat → Prog
  | 2 => .req 4 0 (fun _ => .read 10 0 (fun x => match x with
      | .ok (some 99) => .req 5 0 (fun _ => .ret 99)
      | .ok (some v) => .ret v
      | _ => .ret 0))
  | 4 => .read 1 0 (fun x => match x with
      | .ok (some v) => .write 10 2 (some (v * 2)) (fun _ => .ret v)
      | _ => .write 10 2 none (fun _ => .ret 0))
  | _ => .ret 7

def badRoles : Roles := { rank := fun t => if t = 2 then 0 else t, gen := fullRoles.gen }

theorem badBody_wf : WellFormedBody badRoles badBody := by
  intro t
  match t with
  | 0 | 1 | 3 => trivial
  | 2 =>
    refine ⟨by simp [badRoles], fun o => ⟨by simp [badRoles, fullRoles], by simp [badRoles, fullRoles],
      fun x => ?_⟩⟩
    dsimp only
    split
    · exact ⟨by simp [badRoles], fun _ => trivial⟩
    · trivial
    · trivial
  | 4 =>
    refine ⟨by simp [badRoles, fullRoles], by simp [badRoles, fullRoles], fun x => ?_⟩
    dsimp only
    split
    · exact ⟨by simp [badRoles, fullRoles], by simp, fun _ => trivial⟩
    · exact ⟨by simp [badRoles, fullRoles], by simp, fun _ => trivial⟩
  | _ + 5 => trivial

theorem badBody_respects : ∀ t, Respects totalSem (badBody t) := by
  intro t
  match t with
  | 0 | 1 | 3 => trivial
  | 2 =>
    refine ⟨fun _ _ _ => rfl, fun o => ⟨fun v v' s h1 h2 => by rw [totalSem_rcheck0 h1 h2],
      fun x => ?_⟩⟩
    dsimp only
    split
    · exact ⟨fun _ _ _ => rfl, fun _ => trivial⟩
    · trivial
    · trivial
  | 4 =>
    refine ⟨fun v v' s h1 h2 => by rw [totalSem_rcheck0 h1 h2], fun x => ?_⟩
    dsimp only
    split
    · exact fun _ => trivial
    · exact fun _ => trivial
  | _ + 5 => trivial

theorem badBody_oneChecker : ∀ t, OneChecker (badBody t) := by
  intro t
  match t with
  | 0 | 1 | 3 => trivial
  | 2 =>
    refine ⟨fun c' h => (nomatch h), fun o => ⟨fun c' h => (nomatch h), fun x => ?_⟩⟩
    dsimp only
    split
    · exact ⟨by simp, fun _ => trivial⟩
    · trivial
    · trivial
  | 4 =>
    refine ⟨fun c' h => (nomatch h), fun x => ?_⟩
    dsimp only
    split
    · exact ⟨by simp, fun _ => trivial⟩
    · exact ⟨by simp, fun _ => trivial⟩
  | _ + 5 => trivial

def badHistory : List TStep :=
  [.change 1 (some 5), .session [2], .change 10 (some 99), .session [2]]

/-- The second session starts on `[1 ↦ 5, 10 ↦ 99]`, returns 99, leaves 99 in resource 10 and
executes tasks 2 and 5 ... -/
example : (runStepsW totalSem badBody 30 {} badHistory).2.map
      (fun e => (e.before, e.roots, e.outs, e.after)) =
    [([(1, 5)], [2], [10], [(1, 5), (10, 10)]),
     ([(1, 5), (10, 99)], [2], [99], [(1, 5), (10, 99)])] ∧
    (runStepsW totalSem badBody 30 {} badHistory).2.map
      (fun e => e.trace.filterMap (fun ev => match ev with | .executeStart t => some t | _ => none)) =
    [[2, 4], [2, 5]] := by
  constructor <;> with_unfolding_all decide

/-- ... while the from-scratch build of the same root on the same resources returns 10, leaves 10
in resource 10, and executes tasks 2 and 4 only. -/
example : (cleanBuild totalSem badBody 30 [(1, 5), (10, 99)] [2]).2 = .ok [10] ∧
    (cleanBuild totalSem badBody 30 [(1, 5), (10, 99)] [2]).1.fs = [(1, 5), (10, 10)] ∧
    (cleanBuild totalSem badBody 30 [(1, 5), (10, 99)] [2]).1.trace.filterMap
      (fun ev => match ev with | .executeStart t => some t | _ => none) = [2, 4] := by
  with_unfolding_all decide

/-- So the statement of `C01_full_history_equals_clean_build` without `WriteExact` is false. -/
example : ¬ (∀ (ro : Roles) (sem : Sem) (body : Nat → Prog), StampTotal sem → WellFormedBody ro body →
    (∀ t, Respects sem (body t)) → (∀ t, OneChecker (body t)) →
    ∀ (fuel fuel' : Nat) (steps : List TStep) (e : SessLog),
      e ∈ (runStepsW sem body fuel {} steps).2 → ∀ (sc : Sess) (os' : List Int),
      cleanBuild sem body fuel' e.before e.roots = (sc, .ok os') → e.outs = os') := by
  intro hall
  have hc : (cleanBuild totalSem badBody 30 [(1, 5), (10, 99)] [2]).2 = .ok [10] := by
    with_unfolding_all decide
  have hlog : (runStepsW totalSem badBody 30 {} badHistory).2.map
      (fun e => (e.before, e.roots, e.outs)) = [([(1, 5)], [2], [10]), ([(1, 5), (10, 99)], [2], [99])] := by
    with_unfolding_all decide
  have hmem : (([(1, 5), (10, 99)], [2], [99]) : List (Nat × Int) × List Nat × List Int) ∈
      (runStepsW totalSem badBody 30 {} badHistory).2.map (fun e => (e.before, e.roots, e.outs)) := by
    rw [hlog]; simp
  obtain ⟨e, he, hf⟩ := List.mem_map.mp hmem
  simp only [Prod.mk.injEq] at hf
  obtain ⟨hb, hr, ho⟩ := hf
  have := hall badRoles totalSem badBody totalSem_stampTotal badBody_wf badBody_respects
    badBody_oneChecker 30 30 badHistory e he _ [10] (by rw [hb, hr]; exact pair_of_snd hc)
  rw [ho] at this
  exact absurd this (by decide)

end PieModel
