/-
C17 (library part) — `CompositeTracker` delivers the identical stream to both children; the
recording `EventTracker`'s stored events, indices and query helpers agree with the stream it was
given.
-/
import PieModel.Lib.EventTracker

namespace PieModel

namespace ET

/-! ### definitions used by the statements -/

/-- Forget the index of a stored event: the tracker call it was recorded from. -/
def Event.erase : Event → Ev
  | .buildStart => .buildStart
  | .buildEnd => .buildEnd
  | .requireStart t c _ => .requireStart t c
  | .requireEnd t c s o _ => .requireEnd t c s o
  | .readStart r c _ => .readStart r c
  | .readEnd r c s _ => .readEnd r c s
  | .writeStart r c _ => .writeStart r c
  | .writeEnd r c s _ => .writeEnd r c s
  | .executeStart t _ => .executeStart t
  | .executeEnd t o _ => .executeEnd t o

/-- The 10 tracker methods `EventTracker` overrides (the other 13 keep their empty default). -/
def recorded : Ev → Bool
  | .buildStart | .buildEnd | .requireStart .. | .requireEnd .. | .readStart .. | .readEnd ..
  | .writeStart .. | .writeEnd .. | .executeStart .. | .executeEnd .. => true
  | _ => false

def isBuildStartCall : Ev → Bool | .buildStart => true | _ => false
def isExecuteStartCall (t : Nat) : Ev → Bool | .executeStart t' => t' == t | _ => false

/-- The calls from the last `buildStart` on (including it); all calls if there is none. -/
def callsSinceLastBuildStart : List Ev → List Ev
  | [] => []
  | c :: cs => if cs.any isBuildStartCall then callsSinceLastBuildStart cs else c :: cs

/-- Every index stored in an event is the position of that event. -/
def IndexOK (evs : List Event) : Prop :=
  ∀ (i : Nat) (e : Event) (j : Nat), evs[i]? = some e → e.index? = some j → j = i

end ET

open ET

/-! ### CompositeTracker -/

theorem ET.foldl_compositeFeed (calls : List Ev) (a b : List Ev) :
    calls.foldl compositeFeed (a, b) = (a ++ calls, b ++ calls) := by
  induction calls generalizing a b with
  | nil => simp
  | cons c cs ih => simp [List.foldl_cons, compositeFeed, ih]

/-- Both children of a composite tracker receive exactly the stream of calls, in order. -/
theorem C17_composite_same (calls : List Ev) :
    (calls.foldl compositeFeed ([], [])).1 = calls ∧
    (calls.foldl compositeFeed ([], [])).2 = calls := by
  simp [ET.foldl_compositeFeed]

/-- Two recording trackers under a composite record the same events. -/
theorem C17_composite_children_agree (calls : List Ev) :
    feedAll [] (calls.foldl compositeFeed ([], [])).1 =
    feedAll [] (calls.foldl compositeFeed ([], [])).2 := by
  rw [(C17_composite_same calls).1, (C17_composite_same calls).2]

/-- Composition nests: in `Composite(Composite(a, b), c)` all three get the stream. -/
theorem C17_composite_nested (calls : List Ev) :
    let outer := calls.foldl compositeFeed ([], [])
    let inner := outer.1.foldl compositeFeed ([], [])
    inner.1 = calls ∧ inner.2 = calls ∧ outer.2 = calls := by
  simp [ET.foldl_compositeFeed]

/-! ### indices are positions -/

theorem ET.feedAll_nil (evs : List Event) : feedAll evs [] = evs := rfl

theorem ET.feedAll_cons (evs : List Event) (c : Ev) (cs : List Ev) :
    feedAll evs (c :: cs) = feedAll (feed evs c) cs := rfl

theorem ET.feedAll_append (evs : List Event) (cs ds : List Ev) :
    feedAll evs (cs ++ ds) = feedAll (feedAll evs cs) ds := by
  simp [feedAll, List.foldl_append]

theorem ET.indexOK_nil : IndexOK [] := by
  intro i e j h; simp at h

theorem ET.indexOK_snoc {evs : List Event} (h : IndexOK evs) (e : Event)
    (he : ∀ j, e.index? = some j → j = evs.length) : IndexOK (evs ++ [e]) := by
  intro i e' j hi hj
  by_cases hlt : i < evs.length
  · rw [List.getElem?_append_left hlt] at hi
    exact h i e' j hi hj
  · rw [List.getElem?_append_right (Nat.le_of_not_lt hlt)] at hi
    cases hk : i - evs.length with
    | zero =>
      rw [hk] at hi
      simp at hi; subst hi
      have := he j hj
      omega
    | succ k => rw [hk] at hi; simp at hi

theorem ET.indexOK_feed {evs : List Event} (h : IndexOK evs) (c : Ev) : IndexOK (feed evs c) := by
  cases c <;> simp only [feed] <;> first
    | exact h
    | (apply ET.indexOK_snoc h; intro j hj; simp [Event.index?] at hj; try exact hj.symm)
    | (intro i e j hi hj
       cases i with
       | zero => simp at hi; subst hi; simp [Event.index?] at hj
       | succ k => simp at hi)

theorem ET.indexOK_feedAll {evs : List Event} (h : IndexOK evs) (cs : List Ev) :
    IndexOK (feedAll evs cs) := by
  induction cs generalizing evs with
  | nil => exact h
  | cons c cs ih => exact ih (ET.indexOK_feed h c)

/-- In the events recorded from any stream of calls, every stored index is the position of its
event. -/
theorem C17_index_is_position (cs : List Ev) (i : Nat) (e : Event) (j : Nat)
    (hi : (feedAll [] cs)[i]? = some e) (hj : e.index? = some j) : j = i :=
  ET.indexOK_feedAll ET.indexOK_nil cs i e j hi hj

theorem ET.index?_eq_none_iff (e : Event) : e.index? = none ↔ e = .buildStart ∨ e = .buildEnd := by
  cases e <;> simp [Event.index?]

/-- Every stored event other than build start/end carries its own position. -/
theorem C17_index_total (cs : List Ev) (i : Nat) (e : Event)
    (hi : (feedAll [] cs)[i]? = some e) :
    e = .buildStart ∨ e = .buildEnd ∨ e.index? = some i := by
  cases hx : e.index? with
  | none => rcases (ET.index?_eq_none_iff e).mp hx with h | h <;> simp [h]
  | some j => rw [C17_index_is_position cs i e j hi hx]; simp

/-! ### contents -/

theorem ET.map_erase_feed_of_not_buildStart (evs : List Event) (c : Ev)
    (hc : isBuildStartCall c = false) :
    (feed evs c).map Event.erase = evs.map Event.erase ++ (if recorded c then [c] else []) := by
  cases c <;> simp [feed, recorded, Event.erase, isBuildStartCall] at hc ⊢

theorem ET.map_erase_feedAll (evs : List Event) (cs : List Ev) :
    (feedAll evs cs).map Event.erase =
      if cs.any isBuildStartCall then (callsSinceLastBuildStart cs).filter recorded
      else evs.map Event.erase ++ cs.filter recorded := by
  induction cs generalizing evs with
  | nil => simp [feedAll]
  | cons c cs ih =>
    rw [ET.feedAll_cons, ih, callsSinceLastBuildStart]
    by_cases hany : cs.any isBuildStartCall = true
    · simp [hany]
    · have hany' : cs.any isBuildStartCall = false := by simpa using hany
      rw [if_neg hany, if_neg hany, List.any_cons, hany', Bool.or_false]
      by_cases hc : isBuildStartCall c = true
      · rw [if_pos hc]
        cases c <;> simp [isBuildStartCall] at hc
        simp [feed, Event.erase, recorded, List.filter_cons]
      · have hc' : isBuildStartCall c = false := by simpa using hc
        rw [if_neg hc, ET.map_erase_feed_of_not_buildStart evs c hc', List.filter_cons]
        cases recorded c <;> simp

theorem ET.callsSince_of_no_buildStart (cs : List Ev) (h : cs.any isBuildStartCall = false) :
    callsSinceLastBuildStart cs = cs := by
  cases cs with
  | nil => rfl
  | cons c cs =>
    rw [List.any_cons, Bool.or_eq_false_iff] at h
    simp [callsSinceLastBuildStart, h.2]

/-- The recorded events, modulo indices, are the recorded kinds of the calls since the last
`buildStart` (including it). -/
theorem C17_feed_contents (cs : List Ev) :
    (feedAll [] cs).map Event.erase = (callsSinceLastBuildStart cs).filter recorded := by
  rw [ET.map_erase_feedAll]
  split
  · rfl
  · rename_i h
    have h' : cs.any isBuildStartCall = false := by simpa using h
    rw [ET.callsSince_of_no_buildStart cs h']; simp

/-- Without `buildStart` in the calls, an already filled tracker just grows. -/
theorem C17_feed_contents_no_buildStart (evs : List Event) (cs : List Ev)
    (h : cs.any isBuildStartCall = false) :
    (feedAll evs cs).map Event.erase = evs.map Event.erase ++ cs.filter recorded := by
  rw [ET.map_erase_feedAll, h]; simp

/-- With a `buildStart` in the calls, what was stored before is forgotten. -/
theorem C17_feed_contents_clears (evs : List Event) (cs : List Ev)
    (h : cs.any isBuildStartCall = true) : feedAll evs cs = feedAll [] cs := by
  induction cs generalizing evs with
  | nil => simp at h
  | cons c cs ih =>
    rw [ET.feedAll_cons, ET.feedAll_cons]
    by_cases hany : cs.any isBuildStartCall = true
    · rw [ih _ hany, ih (feed [] c) hany]
    · have hc : isBuildStartCall c = true := by
        rw [List.any_cons] at h
        cases hh : isBuildStartCall c
        · rw [hh, Bool.false_or] at h; exact absurd h hany
        · rfl
      cases c <;> simp [isBuildStartCall] at hc
      simp [feed]

/-- `callsSinceLastBuildStart` is what its name says: a suffix of the calls, with no `buildStart`
after its first element, which starts with a `buildStart` if there is any in the calls. -/
theorem C17_callsSince_spec (cs : List Ev) :
    (∃ pre, cs = pre ++ callsSinceLastBuildStart cs) ∧
    (callsSinceLastBuildStart cs).tail.any isBuildStartCall = false ∧
    (cs.any isBuildStartCall = true → (callsSinceLastBuildStart cs).head? = some .buildStart) := by
  induction cs with
  | nil => simp [callsSinceLastBuildStart]
  | cons c cs ih =>
    obtain ⟨⟨pre, hpre⟩, htail, hhead⟩ := ih
    by_cases hany : cs.any isBuildStartCall = true
    · simp only [callsSinceLastBuildStart, hany, if_true]
      exact ⟨⟨c :: pre, by rw [List.cons_append, ← hpre]⟩, htail, fun _ => hhead hany⟩
    · have hany' : cs.any isBuildStartCall = false := by simpa using hany
      simp only [callsSinceLastBuildStart, hany]
      refine ⟨⟨[], rfl⟩, by simpa using hany', ?_⟩
      intro h
      rw [List.any_cons, hany', Bool.or_false] at h
      cases c <;> simp [isBuildStartCall] at h
      rfl

theorem C17_feed_length (cs : List Ev) :
    (feedAll [] cs).length = ((callsSinceLastBuildStart cs).filter recorded).length := by
  rw [← C17_feed_contents, List.length_map]

/-- Position-wise reading of `C17_feed_contents`: the `i`-th stored event is the `i`-th recorded
call since the last build start, and carries index `i` unless it is a build start/end. -/
theorem C17_feed_event_at (cs : List Ev) (i : Nat) (e : Event)
    (hi : (feedAll [] cs)[i]? = some e) :
    ((callsSinceLastBuildStart cs).filter recorded)[i]? = some e.erase ∧
    (e = .buildStart ∨ e = .buildEnd ∨ e.index? = some i) := by
  refine ⟨?_, C17_index_total cs i e hi⟩
  rw [← C17_feed_contents, List.getElem?_map, hi]; rfl

/-! ### helper predicates -/

theorem C17_isBuildStart_iff (e : Event) : isBuildStart e = true ↔ e = .buildStart := by
  cases e <;> simp [isBuildStart]

/-- As documented ("true if this is a build end event"); the Rust code matched `BuildStart`
(defect F3, repaired). -/
theorem C17_isBuildEnd_iff (e : Event) : isBuildEnd e = true ↔ e = .buildEnd := by
  cases e <;> simp [isBuildEnd]

theorem C17_matchRequireStart_iff (t : Nat) (e : Event) :
    matchRequireStart t e = true ↔ ∃ c i, e = .requireStart t c i := by
  cases e <;> simp [matchRequireStart]

theorem C17_matchRequireEnd_iff (t : Nat) (e : Event) :
    matchRequireEnd t e = true ↔ ∃ c s o i, e = .requireEnd t c s o i := by
  cases e <;> simp [matchRequireEnd]

theorem C17_matchReadStart_iff (r : Nat) (e : Event) :
    matchReadStart r e = true ↔ ∃ c i, e = .readStart r c i := by
  cases e <;> simp [matchReadStart]

theorem C17_matchReadEnd_iff (r : Nat) (e : Event) :
    matchReadEnd r e = true ↔ ∃ c s i, e = .readEnd r c s i := by
  cases e <;> simp [matchReadEnd]

theorem C17_matchWriteStart_iff (r : Nat) (e : Event) :
    matchWriteStart r e = true ↔ ∃ c i, e = .writeStart r c i := by
  cases e <;> simp [matchWriteStart]

theorem C17_matchWriteEnd_iff (r : Nat) (e : Event) :
    matchWriteEnd r e = true ↔ ∃ c s i, e = .writeEnd r c s i := by
  cases e <;> simp [matchWriteEnd]

theorem C17_matchExecuteStart_iff (t : Nat) (e : Event) :
    matchExecuteStart t e = true ↔ ∃ i, e = .executeStart t i := by
  cases e <;> simp [matchExecuteStart]

theorem C17_matchExecuteEnd_iff (t : Nat) (e : Event) :
    matchExecuteEnd t e = true ↔ ∃ o i, e = .executeEnd t o i := by
  cases e <;> simp [matchExecuteEnd]

theorem C17_isExecute_iff (e : Event) :
    isExecute e = true ↔ (∃ t i, e = .executeStart t i) ∨ (∃ t o i, e = .executeEnd t o i) := by
  cases e <;> simp [isExecute]

theorem C17_isExecuteOf_iff (t : Nat) (e : Event) :
    isExecuteOf t e = true ↔ (∃ i, e = .executeStart t i) ∨ (∃ o i, e = .executeEnd t o i) := by
  cases e <;> simp [isExecuteOf]

theorem C17_isExecuteOf_eq (t : Nat) (e : Event) :
    isExecuteOf t e = (matchExecuteStart t e || matchExecuteEnd t e) := by
  cases e <;> simp [isExecuteOf, matchExecuteStart, matchExecuteEnd]

/-! ### `any`, `one` and the derived queries, by counting -/

theorem C17_any_iff (evs : List Event) (p : Event → Bool) :
    ET.any evs p = true ↔ ∃ e ∈ evs, p e = true := by
  simp [ET.any]

theorem C17_any_iff_count (evs : List Event) (p : Event → Bool) :
    ET.any evs p = true ↔ 0 < evs.countP p := by
  simp [ET.any, List.countP_pos_iff]

theorem C17_one_iff_count (evs : List Event) (p : Event → Bool) :
    ET.one evs p = true ↔ evs.countP p = 1 := by
  simp [ET.one, List.countP_eq_length_filter]

theorem C17_anyExecute_iff (evs : List Event) :
    anyExecute evs = true ↔ ∃ e ∈ evs, isExecute e = true := C17_any_iff evs _

theorem C17_anyExecuteOf_iff (evs : List Event) (t : Nat) :
    anyExecuteOf evs t = true ↔
      ∃ e ∈ evs, (∃ i, e = .executeStart t i) ∨ (∃ o i, e = .executeEnd t o i) := by
  simp only [anyExecuteOf, C17_any_iff, C17_isExecuteOf_iff]

theorem C17_anyExecuteOf_iff_count (evs : List Event) (t : Nat) :
    anyExecuteOf evs t = true ↔ 0 < evs.countP (isExecuteOf t) := C17_any_iff_count evs _

/-- `one_execute_of(t)`: exactly one `ExecuteStart` of `t` was stored. -/
theorem C17_oneExecuteOf_iff_count (evs : List Event) (t : Nat) :
    oneExecuteOf evs t = true ↔ evs.countP (matchExecuteStart t) = 1 := C17_one_iff_count evs _

theorem C17_oneExecuteOf_imp_any (evs : List Event) (t : Nat) (h : oneExecuteOf evs t = true) :
    anyExecuteOf evs t = true := by
  rw [C17_oneExecuteOf_iff_count] at h
  rw [C17_anyExecuteOf_iff_count]
  have : evs.countP (matchExecuteStart t) ≤ evs.countP (isExecuteOf t) := by
    apply List.countP_mono_left
    intro e _ he
    rw [C17_isExecuteOf_eq, he]; rfl
  omega

/-- In terms of the calls: the number of stored `ExecuteStart`s of `t` is the number of
`executeStart t` calls since the last build start. -/
theorem C17_count_executeStart (cs : List Ev) (t : Nat) :
    (feedAll [] cs).countP (matchExecuteStart t) =
      (callsSinceLastBuildStart cs).countP (isExecuteStartCall t) := by
  have h1 : (feedAll [] cs).countP (matchExecuteStart t) =
      ((feedAll [] cs).map Event.erase).countP (isExecuteStartCall t) := by
    rw [List.countP_map]
    apply List.countP_congr
    intro e _
    cases e <;> simp [matchExecuteStart, Event.erase, isExecuteStartCall, Function.comp]
  rw [h1, C17_feed_contents, List.countP_filter]
  apply List.countP_congr
  intro c _
  cases c <;> simp [isExecuteStartCall, recorded]

/-! ### `first_*_index` / `first_*_range` -/

theorem ET.find?_position {l : List Event} {p : Event → Bool} {e : Event}
    (h : l.find? p = some e) :
    p e = true ∧ ∃ i : Nat, l[i]? = some e ∧ ∀ j : Nat, j < i → ∀ x, l[j]? = some x → p x = false := by
  induction l with
  | nil => simp at h
  | cons a l ih =>
    rw [List.find?_cons] at h
    cases hp : p a with
    | true =>
      rw [hp] at h
      simp at h; subst h
      exact ⟨hp, 0, rfl, fun j hj => absurd hj (Nat.not_lt_zero j)⟩
    | false =>
      rw [hp] at h
      obtain ⟨hpe, i, hi, hmin⟩ := ih h
      refine ⟨hpe, i + 1, by simpa using hi, ?_⟩
      intro j hj x hx
      cases j with
      | zero => simp at hx; subst hx; exact hp
      | succ k => exact hmin k (Nat.lt_of_succ_lt_succ hj) x (by simpa using hx)

/-- `firstIndex` on stored events whose indices are positions: the result is the position of the
first event satisfying the predicate. -/
theorem ET.firstIndex_spec {evs : List Event} (hok : IndexOK evs) {p : Event → Bool} {a : Nat}
    (h : firstIndex evs p = some a) :
    ∃ e, evs[a]? = some e ∧ p e = true ∧ e.index? = some a ∧
      ∀ j, j < a → ∀ x, evs[j]? = some x → p x = false := by
  unfold firstIndex at h
  cases hf : evs.find? p with
  | none => rw [hf] at h; simp at h
  | some e =>
    rw [hf] at h
    simp only [Option.bind_some] at h
    obtain ⟨hpe, i, hi, hmin⟩ := ET.find?_position hf
    have hai : a = i := hok i e a hi h
    subst hai
    exact ⟨e, hi, hpe, h, hmin⟩

/-- `firstIndex` is `none` exactly when no event satisfies the predicate or the first that does
is a build start/end (which carry no index). -/
theorem C17_firstIndex_none_iff (evs : List Event) (p : Event → Bool) :
    firstIndex evs p = none ↔
      (∀ e ∈ evs, p e = false) ∨ evs.find? p = some .buildStart ∨ evs.find? p = some .buildEnd := by
  unfold firstIndex
  cases hf : evs.find? p with
  | none =>
    rw [List.find?_eq_none] at hf
    simp only [Option.bind_none, true_iff]
    left; intro e he; simpa using hf e he
  | some e =>
    simp only [Option.bind_some, ET.index?_eq_none_iff, Option.some.injEq]
    constructor
    · exact fun h => .inr h
    · rintro (h | h)
      · have := List.find?_some hf
        have hm := List.mem_of_find?_eq_some hf
        rw [h e hm] at this; cases this
      · exact h

/-- On the events recorded from a stream of calls, `firstIndex` returns the position of the
first stored event satisfying the predicate. -/
theorem C17_firstIndex_is_first (cs : List Ev) (p : Event → Bool) (a : Nat)
    (h : firstIndex (feedAll [] cs) p = some a) :
    ∃ e, (feedAll [] cs)[a]? = some e ∧ p e = true ∧ e.index? = some a ∧
      ∀ j, j < a → ∀ x, (feedAll [] cs)[j]? = some x → p x = false :=
  ET.firstIndex_spec (ET.indexOK_feedAll ET.indexOK_nil cs) h

theorem C17_firstRange_eq_some_iff (evs : List Event) (ps pe : Event → Bool) (a b : Nat) :
    firstRange evs ps pe = some (a, b) ↔ firstIndex evs ps = some a ∧ firstIndex evs pe = some b := by
  unfold firstRange
  cases firstIndex evs ps <;> cases firstIndex evs pe <;> simp

theorem C17_firstRange_eq_none_iff (evs : List Event) (ps pe : Event → Bool) :
    firstRange evs ps pe = none ↔ firstIndex evs ps = none ∨ firstIndex evs pe = none := by
  unfold firstRange
  cases firstIndex evs ps <;> cases firstIndex evs pe <;> simp

/-- What `first_*_range` guarantees: `a` is the position of the first stored event satisfying the
start predicate and `b` the position of the first satisfying the end predicate. Nothing relates
`a` and `b` (see the example below: `a > b` is possible for unrelated predicates). -/
theorem C17_firstRange_spec (cs : List Ev) (ps pe : Event → Bool) (a b : Nat)
    (h : firstRange (feedAll [] cs) ps pe = some (a, b)) :
    (∃ e, (feedAll [] cs)[a]? = some e ∧ ps e = true ∧ e.index? = some a ∧
      ∀ j, j < a → ∀ x, (feedAll [] cs)[j]? = some x → ps x = false) ∧
    (∃ e, (feedAll [] cs)[b]? = some e ∧ pe e = true ∧ e.index? = some b ∧
      ∀ j, j < b → ∀ x, (feedAll [] cs)[j]? = some x → pe x = false) := by
  rw [C17_firstRange_eq_some_iff] at h
  exact ⟨C17_firstIndex_is_first cs ps a h.1, C17_firstIndex_is_first cs pe b h.2⟩

/-- If the first start event precedes the first end event in the stored list (as is the case for
the start/end of one require/read/write/execute in a build's stream), the range is ordered. -/
theorem C17_firstRange_ordered (cs : List Ev) (ps pe : Event → Bool) (a b : Nat)
    (h : firstRange (feedAll [] cs) ps pe = some (a, b))
    (hord : ∀ (i : Nat) (x : Event), (feedAll [] cs)[i]? = some x → pe x = true →
      ∃ (j : Nat) (y : Event), j ≤ i ∧ (feedAll [] cs)[j]? = some y ∧ ps y = true) : a ≤ b := by
  obtain ⟨⟨es, -, -, -, hmin⟩, ⟨ee, hb, hpe, -, -⟩⟩ := C17_firstRange_spec cs ps pe a b h
  obtain ⟨j, y, hj, hy, hpy⟩ := hord b ee hb hpe
  by_cases hlt : j < a
  · have := hmin j hlt y hy
    rw [this] at hpy; cases hpy
  · omega

/-! ### non-vacuity -/

private def demoCalls : List Ev :=
  [.requireStart 9 0, .buildStart, .requireStart 1 0, .checkTaskStart 1 0 .unit, .executeStart 1,
   .readStart 7 0, .readEnd 7 0 (.optInt none), .executeEnd 1 5, .requireEnd 1 0 (.int 5) 5,
   .scheduleTask 3, .buildEnd, .executeStart 2]

example : feedAll [] demoCalls =
    [.buildStart, .requireStart 1 0 1, .executeStart 1 2, .readStart 7 0 3,
     .readEnd 7 0 (.optInt none) 4, .executeEnd 1 5 5, .requireEnd 1 0 (.int 5) 5 6, .buildEnd,
     .executeStart 2 8] := by decide

example : callsSinceLastBuildStart demoCalls = demoCalls.drop 1 := by rfl
example : (callsSinceLastBuildStart demoCalls).filter recorded =
    [.buildStart, .requireStart 1 0, .executeStart 1, .readStart 7 0, .readEnd 7 0 (.optInt none),
     .executeEnd 1 5, .requireEnd 1 0 (.int 5) 5, .buildEnd, .executeStart 2] := by rfl

example : demoCalls.foldl compositeFeed ([], []) = (demoCalls, demoCalls) := by rfl

example : firstRange (feedAll [] demoCalls) (matchExecuteStart 1) (matchExecuteEnd 1) = some (2, 5) := by
  decide
example : firstRange (feedAll [] demoCalls) (matchReadStart 7) (matchReadEnd 7) = some (3, 4) := by
  decide
/-- nothing orders the two ends of a "range" for unrelated predicates -/
example : firstRange (feedAll [] demoCalls) (matchExecuteStart 2) (matchExecuteStart 1) = some (8, 2) := by
  decide
/-- build start/end carry no index -/
example : firstIndex (feedAll [] demoCalls) isBuildEnd = none ∧
    ET.any (feedAll [] demoCalls) isBuildEnd = true := by decide
example : oneExecuteOf (feedAll [] demoCalls) 1 = true ∧ anyExecuteOf (feedAll [] demoCalls) 2 = true ∧
    anyExecuteOf (feedAll [] demoCalls) 3 = false ∧ oneExecuteOf (feedAll [] demoCalls) 3 = false := by
  decide
example : oneExecuteOf (feedAll [] [.executeStart 1, .executeEnd 1 0, .executeStart 1]) 1 = false := by
  decide

end PieModel
