/-
Property C04, "at most once" (write-free fragment): in a bottom-up build every task is executed
at most once.

Why: a task is executed when it is popped from the queue or when it is required without having
an output; it is marked consistent right after.  A consistent task is `Clean` (invariant (I2) of
`Build/Closure/Inv.lean`), in particular not queued and with output, so it is never popped or
executed again; a task on the executing stack has no output, so it is not queued (queued nodes
have an output) and it cannot be required (that would close a cycle).

The hypothesis `NoOrphan` (no node without output has recorded dependencies) is NEEDED: on a store
left by an aborted session the bottom-up build executes a task twice (counterexample below;
the Rust code behaves the same: `make_task_consistent` executes a required task without output
at once and leaves it in the queue).
-/
import PieModel.Props.C03

namespace PieModel

variable {sem : Sem} {body : Nat → Prog}

section
variable (hst : StampTotal sem) (hrefl : Reflexive sem) (hwfb : WriteFreeBody body)
  (hone : ∀ t, OneChecker (body t))
  {p : PieSt} {changed : List Nat} (hw : p.store.WF) (hf : Faithful sem body p.store)
  (hn : p.store.NoReservedDone) (hno : NoOrphan p.store) (hsr : ShallowReq sem p.store)
  (hrep : Reported sem p.store p.fs changed)
include hst hrefl hwfb hone hw hf hn hno hsr hrep

/-- **C04 (at most once).**  In a returning bottom-up build every task is executed at most once. -/
theorem C04_bu_once (fuel : Nat) (s' : Sess)
    (hr : bottomUpBuild sem body fuel p.newSession changed = (s', .ok ())) (t : Nat) :
    countExec t s'.trace ≤ 1 :=
  (bottomUpBuild_closed hst hwfb hone hrefl hw hf hn hno hsr hrep fuel s' hr).once t

/-- ... and every executed task is consistent in the session afterwards. -/
theorem C04_bu_executed_consistent (fuel : Nat) (s' : Sess)
    (hr : bottomUpBuild sem body fuel p.newSession changed = (s', .ok ())) (t : Nat)
    (ht : 1 ≤ countExec t s'.trace) : ∃ n, s'.store.taskOf n = some t ∧ n ∈ s'.consistent :=
  (bottomUpBuild_closed hst hwfb hone hrefl hw hf hn hno hsr hrep fuel s' hr).exd t ht

end

/-! ### non-vacuity: the diamond of `Props/C03.lean` -/

/-- In the bottom-up build of the diamond every task is executed exactly once. -/
example : ([0, 1, 2, 3].map fun t => countExec t c03Run2.1.trace) = [1, 1, 1, 1] := by
  with_unfolding_all decide

/-- The theorem applied to the run. -/
example (t : Nat) : countExec t c03Run2.1.trace ≤ 1 :=
  have h := c03Pie1_hyps
  C04_bu_once reflSem_stampTotal reflSem_reflexive c03Body_writeFree c03Body_oneChecker
    h.1 h.2.1 h.2.2.1 h.2.2.2.1 h.2.2.2.2.1 h.2.2.2.2.2 30 c03Run2.1 c03Run2_ok t

/-! ### `NoOrphan` cannot be dropped

Task 5 (`P`) requires task 6 (`N`, reads source 1), then reads source 2 and panics while it holds 1.
Task 7 (`X`) reads source 3 and, unless it holds 0, requires `P`.

Session 1 requires `P`: `N` is executed, `P` panics — `P` stays in the store without output, with
its two dependencies.  Session 2 requires `X` (source 3 = 0: `P` is not required).  Then all three
sources change.  In the bottom-up build `N`, `P` (through its stale read of source 2, although it
has no output) and `X` are scheduled; `X` is popped first and requires `P`, which has no output and
is executed at once — staying in the queue — and is executed again when it is popped. -/

def c04Body : Nat → Prog
  | 5 => .req 6 0 (fun n => .read 2 0 (fun x => match x with
      | .ok (some 1) => .panic
      | _ => .ret (n + 1)))
  | 6 => .read 1 0 (fun x => match x with | .ok (some v) => .ret v | _ => .ret 0)
  | 7 => .read 3 0 (fun x => match x with
      | .ok (some 0) => .ret 0
      | _ => .req 5 0 (fun p => .ret (p + 10)))
  | _ => .ret 7

theorem c04Body_writeFree : WriteFreeBody c04Body := by
  intro t
  match t with
  | 0 | 1 | 2 | 3 | 4 => exact .ret _
  | 5 =>
    refine .req _ _ _ (fun n => .read _ _ _ (fun x => ?_))
    split
    · exact .panic
    · exact .ret _
  | 6 =>
    refine .read _ _ _ (fun x => ?_)
    split <;> exact .ret _
  | 7 =>
    refine .read _ _ _ (fun x => ?_)
    split
    · exact .ret _
    · exact .req _ _ _ (fun p => .ret _)
  | _ + 8 => exact .ret _

theorem c04Body_respects : ∀ t, Respects reflSem (c04Body t) := by
  intro t
  match t with
  | 0 | 1 | 2 | 3 | 4 => trivial
  | 5 =>
    refine ⟨fun o o' h => by rw [reflSem_ocheck0 h], fun o =>
      ⟨fun v v' s h1 h2 => by rw [reflSem_rcheck0 h1 h2], fun x => ?_⟩⟩
    dsimp only
    split <;> trivial
  | 6 =>
    refine ⟨fun v v' s h1 h2 => by rw [reflSem_rcheck0 h1 h2], fun x => ?_⟩
    dsimp only
    split <;> trivial
  | 7 =>
    refine ⟨fun v v' s h1 h2 => by rw [reflSem_rcheck0 h1 h2], fun x => ?_⟩
    dsimp only
    split
    · trivial
    · exact ⟨fun o o' h => by rw [reflSem_ocheck0 h], fun _ => trivial⟩
  | _ + 8 => trivial

theorem c04Body_oneChecker : ∀ t, OneChecker (c04Body t) := by
  intro t
  match t with
  | 0 | 1 | 2 | 3 | 4 => trivial
  | 5 =>
    refine ⟨fun c' h => (nomatch h), fun n => ⟨fun c' h => (nomatch h), fun x => ?_⟩⟩
    dsimp only
    split <;> trivial
  | 6 =>
    refine ⟨fun c' h => (nomatch h), fun x => ?_⟩
    dsimp only
    split <;> trivial
  | 7 =>
    refine ⟨fun c' h => (nomatch h), fun x => ?_⟩
    dsimp only
    split
    · trivial
    · exact ⟨fun c' h => (nomatch h), fun _ => trivial⟩
  | _ + 8 => trivial

def c04Pie0 : PieSt := { fs := [(1, 5), (2, 1), (3, 0)] }
/-- session 1: `P` panics after having required `N` -/
def c04Run1 := requireAll reflSem c04Body 30 c04Pie0.newSession [5]
/-- session 2: `X` -/
def c04Run2 := requireAll reflSem c04Body 30 c04Run1.1.toPie.newSession [7]
/-- all three sources change -/
def c04Pie2 : PieSt :=
  ((c04Run2.1.toPie.setContent 1 (some 6)).setContent 2 (some 0)).setContent 3 (some 1)
def c04Run3 := bottomUpBuild reflSem c04Body 30 c04Pie2.newSession [1, 2, 3]

theorem c04Pie2_store : c04Pie2.store = c04Run2.1.store := by
  unfold c04Pie2
  rw [C01_setContent_store, C01_setContent_store, C01_setContent_store]; rfl

/-- **Counterexample to "at most once" without `NoOrphan`.**  All other hypotheses hold of
`c04Pie2`; the bottom-up build returns, and task 5 is executed twice. -/
example :
    c04Pie2.store.WF ∧ Faithful reflSem c04Body c04Pie2.store ∧ c04Pie2.store.NoReservedDone ∧
    ShallowReq reflSem c04Pie2.store ∧ Reported reflSem c04Pie2.store c04Pie2.fs [1, 2, 3] ∧
    ¬ NoOrphan c04Pie2.store ∧
    c04Run3.2.toOption = some () ∧ execsOf c04Run3.1.trace = [7, 5, 6, 5] ∧
    countExec 5 c04Run3.1.trace = 2 := by
  have a1 := C01_faithful_session reflSem_stampTotal c04Body_writeFree c04Body_respects
    c04Body_oneChecker 30 c04Pie0 Store.WF.empty Faithful.empty [5]
  have a2 := (requireAll_sessOK reflSem c04Body 30
    (sessOK_newSession c04Pie0 Store.WF.empty Store.NoReservedDone.empty) [5]).done.nrd
  have b1 := C01_faithful_session reflSem_stampTotal c04Body_writeFree c04Body_respects
    c04Body_oneChecker 30 c04Run1.1.toPie a1.1 a1.2 [7]
  have b2 := (requireAll_sessOK reflSem c04Body 30
    (sessOK_newSession c04Run1.1.toPie a1.1 a2) [7]).done.nrd
  rw [c04Pie2_store]
  refine ⟨b1.1, b1.2, b2, shallowReq_of_B (by with_unfolding_all decide),
    reported_of_B (by with_unfolding_all decide), ?_, by with_unfolding_all decide,
    by with_unfolding_all decide, by with_unfolding_all decide⟩
  intro hno
  -- node 0 (task 5) has no output but two recorded dependencies
  have h1 : c04Run2.1.store.taskOutput 0 = none := by with_unfolding_all decide
  have h2 : c04Run2.1.store.g.outgoingEdges 0 ≠ [] := by with_unfolding_all decide
  exact h2 (hno 0 h1)

end PieModel
