import PieModel.Build.Pie
namespace PieModel
theorem C02_placeholder : True := trivial
end PieModel
