/-
Property C02 (write-free fragment): "nothing changed ⇒ nothing executes".

* `C02_consistent_memo`: within a session, making a task consistent a second time returns its
  output at once: no event, no change of the state.
* `C02_idempotent`: after a `Session::require` returned `o` for `root`, a NEW session on the same
  `Pie` with unchanged resources, requiring `root` again, for ANY fuel: does not touch the store,
  emits no `executeStart` event, and returns `.ok o` — or runs out of fuel.
* `C02_idempotent_fuel`: ... and for all sufficiently large fuels it does return `.ok o`.

  The statement "with the SAME fuel the second session returns `.ok o`" is FALSE (validation of
  a task needs one level of fuel more than its execution): see the counterexample at the end.

Hypotheses as for C01, plus `Reflexive sem` (checkers accept their own stamps).  The store-level
fact behind it is `Settled` (`PieModel/Build/Sound/NoExec.lean`): every task made consistent in
the first session has an output, and each of its dependencies is accepted by its checker against
the current resources / the stored output of a task of the same set ("recorded stamps are
current"); it follows from the session invariant `SInv` of C01.
-/
import PieModel.Props.C01
import PieModel.Build.Sound.NoExecFuel

namespace PieModel

variable {sem : Sem} {body : Nat → Prog}

/-! ### within a session -/

/-- `make_task_consistent` on a task whose node is already consistent in this session returns
the stored output, appends no event and changes nothing. -/
theorem C02_consistent_memo (f : Nat) (s : Sess) (t m : Nat) (o : Int)
    (hn : aget s.store.taskNode t = some m) (hm : m ∈ s.consistent)
    (ho : s.store.taskOutput m = some o) : tdMake sem body (f + 1) s t = (s, .ok o) := by
  unfold tdMake
  simp only [Store.getOrCreateTaskNode_of_some hn, hm, if_true, ho]

/-- Under the session invariant the output exists and is the from-scratch output. -/
theorem C02_consistent_memo_sound (f : Nat) (s : Sess) (t m : Nat) (h : SInv sem body s.fs s)
    (hn : aget s.store.taskNode t = some m) (hm : m ∈ s.consistent) :
    ∃ o, tdMake sem body (f + 1) s t = (s, .ok o) ∧ Eval sem body s.fs t o := by
  obtain ⟨t', v, ht, hv, he⟩ := h.sound m hm
  have := (h.wf.store.task_iff t m).mp hn
  rw [ht] at this; cases this
  exact ⟨v, C02_consistent_memo f s t m v hn hm hv, he⟩

/-! ### across sessions -/

/-- No `executeStart` event in the trace. -/
def NoExecEvents (tr : List Ev) : Prop := ∀ t, Ev.executeStart t ∉ tr

theorem noExecEvents_of_isExec {tr : List Ev} (h : ∀ e ∈ tr, e.isExec = false) : NoExecEvents tr :=
  fun t ht => by simpa [Ev.isExec] using h _ ht

section
variable (hst : StampTotal sem) (hwfb : WriteFreeBody body)
  (hresp : ∀ t, Respects sem (body t)) (hone : ∀ t, OneChecker (body t)) (hrefl : Reflexive sem)
include hst hwfb hresp hone hrefl

/-- After a returning `require`, the tasks that are consistent in the session form a settled
set: all recorded stamps are current. -/
theorem C02_settled (fuel : Nat) (s s' : Sess) (root : Nat) (o : Int) (h : SInv sem body s.fs s)
    (hr : sessionRequire sem body fuel s root = (s', .ok o)) :
    Settled sem s'.fs s'.store s'.consistent ∧
    ∃ m, s'.store.taskOf m = some root ∧ m ∈ s'.consistent ∧ s'.store.taskOutput m = some o := by
  obtain ⟨st, _, hfs, hc, ho, ht⟩ := (sessionRequire_outcome hst hwfb hresp hone fuel s root h).ok _ _ hr
  have hinv : SInv sem body s'.fs s' := by rw [hfs]; exact st.inv
  exact ⟨hinv.settled hrefl, _, ht, hc, ho⟩

/-- **C02 (nothing changed ⇒ nothing executes).** -/
theorem C02_idempotent (fuel : Nat) (s s' : Sess) (root : Nat) (o : Int)
    (h : SInv sem body s.fs s) (hr : sessionRequire sem body fuel s root = (s', .ok o))
    (fuel₂ : Nat) :
    ((sessionRequire sem body fuel₂ s'.toPie.newSession root).2 = .ok o ∨
      (sessionRequire sem body fuel₂ s'.toPie.newSession root).2 = .abort .outOfFuel) ∧
    (sessionRequire sem body fuel₂ s'.toPie.newSession root).1.store = s'.store ∧
    (sessionRequire sem body fuel₂ s'.toPie.newSession root).1.fs = s'.fs ∧
    NoExecEvents (sessionRequire sem body fuel₂ s'.toPie.newSession root).1.trace := by
  obtain ⟨hS, m, ht, hm, ho⟩ := C02_settled hst hwfb hresp hone hrefl fuel s s' root o h hr
  have hw : s'.store.WF :=
    ((sessionRequire_outcome hst hwfb hresp hone fuel s root h).ok _ _ hr).1.inv.wf.store
  generalize hR : sessionRequire sem body fuel₂ s'.toPie.newSession root = R
  obtain ⟨sR, rR⟩ := R
  obtain ⟨h1, h2, ⟨evs, h3, h4⟩, h5⟩ := sessionRequire_quiet (body := body) hw hS fuel₂
    s'.toPie.newSession rfl rfl root m o ht hm ho _ _ hR
  refine ⟨h5, h1, h2, noExecEvents_of_isExec ?_⟩
  show ∀ e ∈ sR.trace, _
  rw [h3]
  intro e he
  exact h4 e (by simpa [PieSt.newSession] using he)

/-- ... and with enough fuel the second session does return the same output. -/
theorem C02_idempotent_fuel (fuel : Nat) (s s' : Sess) (root : Nat) (o : Int)
    (h : SInv sem body s.fs s) (hr : sessionRequire sem body fuel s root = (s', .ok o)) :
    ∃ N, ∀ fuel₂, N ≤ fuel₂ →
      (sessionRequire sem body fuel₂ s'.toPie.newSession root).2 = .ok o := by
  obtain ⟨hS, m, ht, hm, ho⟩ := C02_settled hst hwfb hresp hone hrefl fuel s s' root o h hr
  have hw : s'.store.WF :=
    ((sessionRequire_outcome hst hwfb hresp hone fuel s root h).ok _ _ hr).1.inv.wf.store
  obtain ⟨N, hN⟩ := sessionRequire_fuel (body := body) hw hS root m o ht hm ho
  refine ⟨N, fun f hf => ?_⟩
  generalize hR : sessionRequire sem body f s'.toPie.newSession root = R
  obtain ⟨sR, rR⟩ := R
  exact hN f hf s'.toPie.newSession rfl rfl _ _ hR

/-- The same for every task that was made consistent in the first session (not only the
root): a new session validates it without executing anything. -/
theorem C02_idempotent_any (fuel : Nat) (s s' : Sess) (root : Nat) (o : Int)
    (h : SInv sem body s.fs s) (hr : sessionRequire sem body fuel s root = (s', .ok o))
    (t m : Nat) (v : Int) (ht : s'.store.taskOf m = some t) (hm : m ∈ s'.consistent)
    (hv : s'.store.taskOutput m = some v) (fuel₂ : Nat) :
    ((sessionRequire sem body fuel₂ s'.toPie.newSession t).2 = .ok v ∨
      (sessionRequire sem body fuel₂ s'.toPie.newSession t).2 = .abort .outOfFuel) ∧
    (sessionRequire sem body fuel₂ s'.toPie.newSession t).1.store = s'.store ∧
    NoExecEvents (sessionRequire sem body fuel₂ s'.toPie.newSession t).1.trace := by
  obtain ⟨hS, _⟩ := C02_settled hst hwfb hresp hone hrefl fuel s s' root o h hr
  have hw : s'.store.WF :=
    ((sessionRequire_outcome hst hwfb hresp hone fuel s root h).ok _ _ hr).1.inv.wf.store
  generalize hR : sessionRequire sem body fuel₂ s'.toPie.newSession t = R
  obtain ⟨sR, rR⟩ := R
  obtain ⟨h1, _, ⟨evs, h3, h4⟩, h5⟩ := sessionRequire_quiet (body := body) hw hS fuel₂
    s'.toPie.newSession rfl rfl t m v ht hm hv _ _ hR
  refine ⟨h5, h1, noExecEvents_of_isExec ?_⟩
  show ∀ e ∈ sR.trace, _
  rw [h3]
  intro e he
  exact h4 e (by simpa [PieSt.newSession] using he)

end

/-! ### non-vacuity

The program of C01 under a checker semantics that is total and reflexive (`stdSem`'s resource
checkers 10–29 fail on purpose when *checking*, 30– when *stamping*). -/

def reflSem : Sem :=
  { stdSem with rstamp := fun c v => .ok (stdRStampCore c v),
                rcheck := fun c v s => .ok (stdRStampCore c v == s) }

theorem reflSem_stampTotal : StampTotal reflSem := fun _ _ => ⟨_, rfl⟩

theorem reflSem_reflexive : Reflexive reflSem := by
  refine ⟨fun c o => ?_, fun c v s h => ?_⟩
  · simp [reflSem, stdSem, stdOCheck]
  · simp only [reflSem, Except.ok.injEq] at h
    subst h
    simp [reflSem]

theorem reflSem_ocheck0 {o o' : Int} (h : reflSem.ocheck 0 o' (reflSem.ostamp 0 o) = true) :
    o' = o := by
  simpa [reflSem, stdSem, stdOCheck, stdOStamp] using h

theorem reflSem_rcheck0 {v v' : Option Int} {s : Stamp} (h1 : reflSem.rstamp 0 v = .ok s)
    (h2 : reflSem.rcheck 0 v' s = .ok true) : v' = v := by
  simp only [reflSem, stdRStampCore, Except.ok.injEq] at h1
  subst h1
  simpa [reflSem, stdRStampCore] using h2

theorem c01Body_respects_refl : ∀ t, Respects reflSem (c01Body t) := by
  intro t
  match t with
  | 0 =>
    refine ⟨fun v v' s h1 h2 => by rw [reflSem_rcheck0 h1 h2], fun x => ?_⟩
    dsimp only
    split
    · exact ⟨fun o o' h => by rw [reflSem_ocheck0 h], fun o => ⟨fun _ _ _ => rfl, fun _ => trivial⟩⟩
    · exact ⟨fun o o' h => by rw [reflSem_ocheck0 h], fun o => trivial⟩
  | 1 =>
    refine ⟨fun v v' s h1 h2 => by rw [reflSem_rcheck0 h1 h2], fun x => ?_⟩
    dsimp only
    split <;> trivial
  | _ + 2 => trivial

/-- The `Pie` with resources `0 ↦ 1, 1 ↦ 5` and an empty store. -/
def c02Pie : PieSt := { fs := [(0, 1), (1, 5)] }

/-- Trace statistics of two consecutive sessions requiring task 0 with fuel `f₁`, `f₂`:
(result 1, number of `executeStart`s 1, result 2, number of `executeStart`s 2). -/
def c02Run (f₁ f₂ : Nat) : Option Int × Nat × Option (Option Int) × Nat :=
  let r1 := sessionRequire reflSem c01Body f₁ c02Pie.newSession 0
  let r2 := sessionRequire reflSem c01Body f₂ r1.1.toPie.newSession 0
  (match r1.2 with | .ok o => some o | .abort _ => none, (r1.1.trace.filter Ev.isExec).length,
   match r2.2 with | .ok o => some (some o) | .abort .outOfFuel => some none | .abort _ => none,
   (r2.1.trace.filter Ev.isExec).length)

/-- First session: three executions, output 15.  Second session: no execution, output 15. -/
example : c02Run 20 20 = (some 15, 3, some (some 15), 0) := by with_unfolding_all decide

/-- **Counterexample to "the same fuel suffices".**  With fuel 8 the first session returns 15
(executing three tasks); the second session with the same fuel 8 executes nothing but runs out
of fuel: *validating* a task costs one level more than *executing* it
(`tdMake → tdCheck → tdCheckDeps` vs. `tdMake → tdRun`).  With fuel 9 it returns 15. -/
example : c02Run 8 8 = (some 15, 3, some none, 0) ∧ c02Run 8 9 = (some 15, 3, some (some 15), 0) := by
  constructor <;> with_unfolding_all decide

/-- `.ok`-results as options (decidable equality). -/
def Res.toOption {α : Type} : Res α → Option α
  | .ok a => some a
  | .abort _ => none

theorem Res.eq_ok_of_toOption {α : Type} {r : Res α} {a : α} (h : r.toOption = some a) :
    r = .ok a := by
  cases r with
  | ok b => simp only [Res.toOption, Option.some.injEq] at h; rw [h]
  | abort k => cases h

/-- The theorem applied to the run. -/
example (f₂ : Nat) :
    NoExecEvents (sessionRequire reflSem c01Body f₂
      (sessionRequire reflSem c01Body 8 c02Pie.newSession 0).1.toPie.newSession 0).1.trace :=
  (C02_idempotent reflSem_stampTotal c01Body_writeFree c01Body_respects_refl c01Body_oneChecker
    reflSem_reflexive 8 c02Pie.newSession _ 0 15
    (SInv.newSession (p := c02Pie) Store.WF.empty Faithful.empty)
    (by
      have h2 : (sessionRequire reflSem c01Body 8 c02Pie.newSession 0).2 = .ok 15 :=
        Res.eq_ok_of_toOption (by with_unfolding_all decide)
      rw [← h2]) f₂).2.2.2

end PieModel
